//go:build verif

// C19 harness: compiles TLC-generated Arc programs with the real arc.CompileText,
// validates + instantiates the WASM module under wazero, calls the exported function on
// every argument tuple and compares with the outcome spec/arc/ArcSem.tla defines.
//
// VERIF_IN  ndjson, one program per line:
//
//	{"id":1,"kind":"sem","src":"func f(...) ...","ret":"i8","pt":["i8","u8"],
//	 "args":[[1,2],...],"o":["v","t","x",...],"v":[3,0,0,...]}
//	{"id":2,"kind":"nocrash","src":"..."}            (any text; must not panic)
//
// VERIF_OUT ndjson: first row {"summary":true,...}, then one row per problem.
// Calling convention (the language specification only says i8..u32 map to a WASM i32):
// a narrow argument is passed as the sign (signed types) or zero (unsigned types)
// extension of its value; of the result only the low Bits(ret) bits are observed, exactly
// like arc's own tests (compiler_test.go assertResult) and runtime (stl/wasm setValueAt).
package arc_test

import (
	"bufio"
	"context"
	"encoding/json"
	"fmt"
	"os"
	"runtime/debug"
	"strconv"
	"sync"
	"testing"

	"github.com/synnaxlabs/arc"
	"github.com/tetratelabs/wazero"
)

type verifProg struct {
	ID   int       `json:"id"`
	Kind string    `json:"kind"`
	Src  string    `json:"src"`
	Ret  string    `json:"ret"`
	PT   []string  `json:"pt"`
	Args [][]int64 `json:"args"`
	O    []string  `json:"o"`
	V    []int64   `json:"v"`
}

type verifRow struct {
	ID    int     `json:"id"`
	R     string  `json:"r"`
	Case  int     `json:"case"`
	Args  []int64 `json:"args,omitempty"`
	ExpO  string  `json:"exp_o,omitempty"`
	ExpV  int64   `json:"exp_v"`
	GotO  string  `json:"got_o,omitempty"`
	GotV  int64   `json:"got_v"`
	Raw   string  `json:"raw,omitempty"`
	Err   string  `json:"err,omitempty"`
	NBad  int     `json:"nbad,omitempty"`
	Stack string  `json:"stack,omitempty"`
}

type verifStats struct {
	Programs, Accepted, Rejected, Cases, Values, Traps, Undecided, Mismatch, Panics, Invalid int
	NoCrash, NoCrashRejected, NoCrashAccepted                                                int
}

func verifBits(t string) int {
	switch t {
	case "i8", "u8":
		return 8
	case "i16", "u16":
		return 16
	case "i32", "u32":
		return 32
	}
	return 64
}

func verifSigned(t string) bool { return t[0] == 'i' }

func verifEncode(t string, v int64) uint64 {
	if verifBits(t) == 64 {
		return uint64(v)
	}
	return uint64(uint32(int32(v)))
}

// value of the declared return type held in the low Bits(ret) bits of raw
func verifDecode(t string, raw uint64) int64 {
	switch t {
	case "i8":
		return int64(int8(uint8(raw)))
	case "u8":
		return int64(uint8(raw))
	case "i16":
		return int64(int16(uint16(raw)))
	case "u16":
		return int64(uint16(raw))
	case "i32":
		return int64(int32(uint32(raw)))
	case "u32":
		return int64(uint32(raw))
	}
	return int64(raw)
}

const verifMaxRowsPerProgram = 6

func verifRunOne(ctx context.Context, rt wazero.Runtime, p verifProg, st *verifStats, emit func(verifRow)) {
	defer func() {
		if rec := recover(); rec != nil {
			st.Panics++
			emit(verifRow{ID: p.ID, R: "panic", Case: -1, Err: fmt.Sprint(rec), Stack: string(debug.Stack())})
		}
	}()
	st.Programs++
	prog, err := arc.CompileText(ctx, arc.Text{Raw: p.Src}, arc.NewRoot(nil))
	if p.Kind == "nocrash" {
		st.NoCrash++
		if err != nil {
			if err.Error() == "" {
				emit(verifRow{ID: p.ID, R: "nodiag", Case: -1})
			}
			st.NoCrashRejected++
			return
		}
		st.NoCrashAccepted++
	} else if err != nil {
		st.Rejected++
		emit(verifRow{ID: p.ID, R: "reject", Case: -1, Err: err.Error()})
		return
	} else {
		st.Accepted++
	}
	cm, err := rt.CompileModule(ctx, prog.WASM)
	if err != nil {
		st.Invalid++
		emit(verifRow{ID: p.ID, R: "invalid", Case: -1, Err: err.Error()})
		return
	}
	defer cm.Close(ctx)
	if p.Kind == "nocrash" && len(cm.ImportedFunctions()) > 0 {
		return // needs host modules; outside the fragment
	}
	mod, err := rt.InstantiateModule(ctx, cm, wazero.NewModuleConfig().WithName(""))
	if err != nil {
		st.Invalid++
		emit(verifRow{ID: p.ID, R: "noinst", Case: -1, Err: err.Error()})
		return
	}
	defer mod.Close(ctx)
	if p.Kind == "nocrash" {
		return
	}
	fn := mod.ExportedFunction("f")
	if fn == nil {
		st.Invalid++
		emit(verifRow{ID: p.ID, R: "nofunc", Case: -1})
		return
	}
	bad := 0
	var first []verifRow
	buf := make([]uint64, len(p.PT))
	for i, a := range p.Args {
		st.Cases++
		for j, v := range a {
			buf[j] = verifEncode(p.PT[j], v)
		}
		res, cerr := fn.Call(ctx, buf...)
		gotO, gotV, raw := "v", int64(0), ""
		if cerr != nil {
			gotO = "t"
		} else if len(res) != 1 {
			gotO = "noresult"
		} else {
			gotV = verifDecode(p.Ret, res[0])
			raw = strconv.FormatUint(res[0], 10)
		}
		switch p.O[i] {
		case "x":
			st.Undecided++
			continue
		case "t":
			st.Traps++
		default:
			st.Values++
		}
		if gotO == p.O[i] && (gotO != "v" || gotV == p.V[i]) {
			continue
		}
		bad++
		if len(first) < verifMaxRowsPerProgram {
			r := verifRow{ID: p.ID, R: "mismatch", Case: i, Args: a, ExpO: p.O[i], ExpV: p.V[i], GotO: gotO, GotV: gotV, Raw: raw}
			if cerr != nil {
				r.Err = cerr.Error()
				if len(r.Err) > 80 {
					r.Err = r.Err[:80]
				}
			}
			first = append(first, r)
		}
	}
	if bad > 0 {
		st.Mismatch++
		for k := range first {
			first[k].NBad = bad
			emit(first[k])
		}
	}
}

func TestVerifArcReplay(t *testing.T) {
	in, out := os.Getenv("VERIF_IN"), os.Getenv("VERIF_OUT")
	if in == "" || out == "" {
		t.Skip("VERIF_IN / VERIF_OUT not set")
	}
	workers, _ := strconv.Atoi(os.Getenv("VERIF_WORKERS"))
	if workers <= 0 {
		workers = 4
	}
	f, err := os.Open(in)
	if err != nil {
		t.Fatal(err)
	}
	defer f.Close()
	ctx := context.Background()
	jobs := make(chan verifProg, 256)
	var mu sync.Mutex
	var rows []verifRow
	total := verifStats{}
	var wg sync.WaitGroup
	for w := 0; w < workers; w++ {
		wg.Add(1)
		go func() {
			defer wg.Done()
			rt := wazero.NewRuntimeWithConfig(ctx, wazero.NewRuntimeConfigInterpreter())
			defer rt.Close(ctx)
			st := verifStats{}
			var local []verifRow
			for p := range jobs {
				verifRunOne(ctx, rt, p, &st, func(r verifRow) { local = append(local, r) })
			}
			mu.Lock()
			rows = append(rows, local...)
			total.Programs += st.Programs
			total.Accepted += st.Accepted
			total.Rejected += st.Rejected
			total.Cases += st.Cases
			total.Values += st.Values
			total.Traps += st.Traps
			total.Undecided += st.Undecided
			total.Mismatch += st.Mismatch
			total.Panics += st.Panics
			total.Invalid += st.Invalid
			total.NoCrash += st.NoCrash
			total.NoCrashRejected += st.NoCrashRejected
			total.NoCrashAccepted += st.NoCrashAccepted
			mu.Unlock()
		}()
	}
	sc := bufio.NewScanner(f)
	sc.Buffer(make([]byte, 1<<20), 1<<26)
	nread := 0
	for sc.Scan() {
		var p verifProg
		if err := json.Unmarshal(sc.Bytes(), &p); err != nil {
			t.Fatalf("bad input line %d: %v", nread, err)
		}
		if p.Kind != "nocrash" && (len(p.Args) != len(p.O) || len(p.Args) != len(p.V)) {
			t.Fatalf("bad input line %d: args/o/v lengths differ", nread)
		}
		nread++
		jobs <- p
	}
	close(jobs)
	wg.Wait()
	if err := sc.Err(); err != nil {
		t.Fatal(err)
	}
	of, err := os.Create(out)
	if err != nil {
		t.Fatal(err)
	}
	defer of.Close()
	w := bufio.NewWriter(of)
	enc := json.NewEncoder(w)
	_ = enc.Encode(map[string]any{
		"summary": true, "read": nread, "programs": total.Programs, "accepted": total.Accepted,
		"rejected": total.Rejected, "cases": total.Cases, "values": total.Values, "traps": total.Traps,
		"undecided": total.Undecided, "mismatch_programs": total.Mismatch, "panics": total.Panics,
		"invalid": total.Invalid, "nocrash": total.NoCrash, "nocrash_rejected": total.NoCrashRejected,
		"nocrash_accepted": total.NoCrashAccepted,
	})
	for _, r := range rows {
		_ = enc.Encode(r)
	}
	_ = w.Flush()
}
