//go:build verif

// C10 - trace recorder for cesium iterators (DESIGN.md section 3, C10).
// Builds stored layouts by replaying CesiumStore.tla scripts (helpers of
// zz_verif_store_test.go), then drives unary.Iterator directly and through
// cesium.Iterator (streamIterator) with TLC-generated command sequences, and records
// after EVERY command View(), Value() (as <<timestamp, write id>> identities), Valid(),
// Error(). CesiumIterTrace.tla is the judge; this file judges nothing.
// Injected with `go test -overlay` together with zz_verif_store_test.go.
package cesium

import (
	"bufio"
	"context"
	"encoding/json"
	"fmt"
	"math"
	"os"
	"runtime"
	"sort"
	"strconv"
	"sync"
	"sync/atomic"
	"testing"
	"time"

	"github.com/synnaxlabs/cesium/internal/unary"
	"github.com/synnaxlabs/x/telem"
)

// ---------------------------------------------------------------- input format

type viCmd struct {
	C string `json:"c"`           // setbounds seekfirst seeklast seekle seekge next prev nextauto prevauto | script
	N int    `json:"n"`           // script: execute the next n steps of the job's `more` store script
	K string `json:"k,omitempty"` // span kind of next/prev
	T int    `json:"t"`           // seek target (extended abstract time)
	A int    `json:"a"`           // setbounds
	B int    `json:"b"`
}

type viRun struct {
	Rid   int      `json:"rid"`
	Chans []string `json:"chans"` // channels to iterate (each its own unary trace)
	Modes []string `json:"modes"` // unary, stream
	A     int      `json:"a"`     // bounds, extended abstract time
	B     int      `json:"b"`
	Chunk int64    `json:"chunk"`
	Cmds  []viCmd  `json:"cmds"`
}

type viJob struct {
	ID   int      `json:"id"`
	Hist []vsStep `json:"hist"`
	Conc vsConc   `json:"conc"`
	MaxT int      `json:"maxt"`
	Runs []viRun  `json:"runs"`
	// More: store-script steps (open / write / commit / close only) executed WHILE an
	// iterator is open, by "script" commands of the runs. When set, writers stay open
	// after Hist and every trace gets a freshly built database.
	More []vsStep `json:"more"`
}

// ---------------------------------------------------------------- output format

type viEvent struct {
	C      string     `json:"c"`
	K      string     `json:"k,omitempty"`
	Span   int64      `json:"span,omitempty"`
	T      int64      `json:"t"`      // raw seek argument
	Target int64      `json:"target"` // view.End+span (next) / view.Start-span (prev), saturating
	B      [2]int64   `json:"b"`      // bounds in force after the command
	Chunk  int64      `json:"chunk"`
	View   [2]int64   `json:"view"`
	Frame  [][2]int64 `json:"frame"`  // [timestamp of the stored sample the bytes identify, write id]; [-1,-1] unknown bytes
	Series [][4]int64 `json:"series"` // per series: TimeRange start, end, sample count, alignment
	Valid  bool       `json:"valid"`
	Ok     bool       `json:"ok"`
	Err    string     `json:"err"`
	Panic  string     `json:"panic,omitempty"`
	Guard  string     `json:"guard,omitempty"` // command NOT executed: it would kill the process (see viGuard)
	// script events: the channel's committed samples [timestamp, id] after the script
	// steps returned (what every later command must see), and the steps executed
	Stored [][2]int64 `json:"stored,omitempty"`
	Steps  []string   `json:"steps,omitempty"`
	Hang   bool       `json:"hang,omitempty"`
}

type viTrace struct {
	Layout int       `json:"layout"`
	Rid    int       `json:"rid"`
	Chan   string    `json:"chan"`
	Mode   string    `json:"mode"`
	Events []viEvent `json:"events"`
}

type viLayout struct {
	Layout   int                   `json:"layout"`
	Status   string                `json:"status"` // ok storemismatch (both driven) | tainted diverged error (skipped)
	Note     string                `json:"note,omitempty"`
	Conc     vsConc                `json:"conc"`
	Samples  map[string][][3]int64 `json:"samples"`  // chan -> [timestamp, abstract time, id]
	Pointers map[string][][2]int64 `json:"pointers"` // chan -> stored domains [start, end)
	Points   []int64               `json:"points"`   // timestamps of the abstract times 0..maxT
}

// ---------------------------------------------------------------- concretisation of commands

type viLay struct {
	r      *vsRunner
	maxT   int
	last   vsStep // the last executed store-script step: its St.Cm is the committed content
	more   []vsStep
	pos    int // next step of `more`
	decode map[string]map[string][2]int64 // chan -> bytes -> [timestamp, id]
	pts    []telem.TimeStamp              // sorted extended points
}

// pt maps extended abstract time to a timestamp: -2 TimeStampMin, -1 an hour before all
// data, 0..maxT the abstract times, maxT+1 an hour after, >= maxT+2 TimeStampMax.
func (l *viLay) pt(x int) telem.TimeStamp {
	switch {
	case x <= -2:
		return telem.TimeStampMin
	case x == -1:
		return l.r.c.ts(0) - telem.TimeStamp(telem.Hour)
	case x <= l.maxT:
		return l.r.c.ts(x)
	case x == l.maxT+1:
		return l.r.c.ts(l.maxT) + telem.TimeStamp(telem.Hour)
	}
	return telem.TimeStampMax
}

func viSatAdd(a, b int64) int64 {
	if b > 0 && a > math.MaxInt64-b {
		return math.MaxInt64
	}
	if b < 0 && a < math.MinInt64-b {
		return math.MinInt64
	}
	return a + b
}

// gap is the nominal sample spacing of the timestamp map.
func (l *viLay) gap() int64 {
	switch l.r.c.TSMap {
	case 0:
		return int64(telem.Second)
	case 1:
		return 7
	}
	return 5
}

// span concretises a span kind given the current view and bounds.
func (l *viLay) span(kind string, fwd bool, view, bounds telem.TimeRange) telem.TimeSpan {
	g := l.gap()
	whole := int64(bounds.End) - int64(bounds.Start)
	if whole <= 0 || bounds.End == telem.TimeStampMax {
		whole = int64(l.pt(l.maxT+1)) - int64(l.pt(-1))
	}
	switch kind {
	case "ns1":
		return 1
	case "sub":
		if g/3 < 1 {
			return 1
		}
		return telem.TimeSpan(g / 3)
	case "one":
		return telem.TimeSpan(g)
	case "x25":
		return telem.TimeSpan(g * 5 / 2)
	case "whole":
		return telem.TimeSpan(whole)
	case "over":
		return telem.TimeSpan(viSatAdd(whole, int64(telem.Hour)))
	case "hop1", "hop2", "hop3":
		k := int(kind[3] - '0')
		if fwd {
			j := sort.Search(len(l.pts), func(i int) bool { return l.pts[i] > view.End })
			j += k - 1
			if j >= len(l.pts) {
				return telem.TimeSpan(telem.Hour)
			}
			return telem.TimeSpan(l.pts[j] - view.End)
		}
		j := sort.Search(len(l.pts), func(i int) bool { return l.pts[i] >= view.Start }) - 1
		j -= k - 1
		if j < 0 {
			return telem.TimeSpan(telem.Hour)
		}
		return telem.TimeSpan(view.Start - l.pts[j])
	}
	return 1
}

// ---------------------------------------------------------------- layout construction

func viBuild(job viJob) (*viLay, viLayout) {
	keep := len(job.More) > 0 // writers stay open: the script continues under open iterators
	out := viLayout{Layout: job.ID, Status: "ok", Conc: job.Conc, Samples: map[string][][3]int64{}, Pointers: map[string][][2]int64{}}
	r := &vsRunner{c: job.Conc, writers: map[string]*Writer{}, wchans: map[string][]string{}, maxT: job.MaxT, stats: &vsStats{}}
	l := &viLay{r: r, maxT: job.MaxT}
	fail := func(status, note string) (*viLay, viLayout) {
		out.Status, out.Note = status, note
		for _, w := range r.writers {
			_ = w.Close()
		}
		if r.db != nil {
			_ = r.db.Close()
		}
		return nil, out
	}
	if err := r.setup(); err != nil {
		return fail("error", "setup: "+err.Error())
	}
	for i, st := range job.Hist {
		if i > 0 {
			r.prev = &job.Hist[i-1]
		}
		res, err := r.exec(st)
		if err != nil {
			return fail("error", err.Error())
		}
		if res != st.Res {
			return fail("diverged", fmt.Sprintf("step %d %s: spec %s, real %s", i, st.A, st.Res, res))
		}
	}
	for k, w := range r.writers {
		if keep {
			break
		}
		if err := w.Close(); err != nil {
			return fail("error", "close writer: "+err.Error())
		}
		delete(r.writers, k)
	}
	l.more = job.More
	if r.tainted != "" {
		return fail("tainted", r.tainted)
	}
	if len(job.Hist) == 0 {
		return fail("error", "empty script")
	}
	l.last = job.Hist[len(job.Hist)-1]
	// The stored content should be what the script says (C01/C04's subject). DB.Read is
	// itself an iterator traversal (SeekFirst + Next(max span)), so a difference here is
	// recorded but the layout is still driven: the traces decide.
	full := telem.TimeRange{Start: l.pt(-1), End: l.pt(job.MaxT + 1)}
	for _, ch := range []string{"I", "D", "V"} {
		exp := r.expected(l.last, ch, full.Start, full.End)
		act, err := r.actual(ch, full)
		if err != nil {
			out.Status, out.Note = "storemismatch", "read "+ch+": "+err.Error()
		} else if !vsEqual(exp, act) {
			out.Status, out.Note = "storemismatch", fmt.Sprintf("channel %s full read %s, spec %s", ch, vsShow(act, ch), vsShow(exp, ch))
		}
	}
	// decoding tables: every (time, id) value the script could have produced
	l.decode = map[string]map[string][2]int64{}
	for _, ch := range []string{"I", "D", "V"} {
		m := map[string][2]int64{}
		for t := 0; t <= job.MaxT; t += 2 {
			ts := int64(r.c.ts(t))
			switch ch {
			case "I":
				// the id of an index sample is looked up at observation time (observe)
				m[string(telem.NewSeriesV[telem.TimeStamp](r.c.ts(t)).Data)] = [2]int64{ts, int64(t)}
			case "D":
				for id := 1; id <= 15; id++ {
					m[string(r.c.dVal(t, id))] = [2]int64{ts, int64(id)}
				}
			case "V":
				for id := 1; id <= 15; id++ {
					m[string(r.c.vVal(t, id))] = [2]int64{ts, int64(id)}
				}
			}
		}
		l.decode[ch] = m
		cm := l.last.St.Cm[ch]
		var rows [][3]int64
		for t := 0; t <= job.MaxT; t += 2 {
			if id := cm[strconv.Itoa(t)]; id != 0 {
				rows = append(rows, [3]int64{int64(r.c.ts(t)), int64(t), int64(id)})
			}
		}
		out.Samples[ch] = rows
		var ps [][2]int64
		for _, p := range r.vsPointers(vsKeys[ch]) {
			ps = append(ps, [2]int64{int64(p[0]), int64(p[1])})
		}
		out.Pointers[ch] = ps
	}
	for x := -1; x <= job.MaxT+1; x++ {
		l.pts = append(l.pts, l.pt(x))
	}
	for x := 0; x <= job.MaxT; x++ {
		out.Points = append(out.Points, int64(r.c.ts(x)))
	}
	return l, out
}

// ---------------------------------------------------------------- drivers

// viIter is what both drive modes offer per channel.
type viIter interface {
	SetBounds(tr telem.TimeRange)
	SeekFirst() bool
	SeekLast() bool
	SeekLE(ts telem.TimeStamp) bool
	SeekGE(ts telem.TimeStamp) bool
	Next(span telem.TimeSpan) bool
	Prev(span telem.TimeSpan) bool
	Close() error
}

type viUnary struct{ it *unary.Iterator }

func (u viUnary) SetBounds(tr telem.TimeRange)   { u.it.SetBounds(tr) }
func (u viUnary) SeekFirst() bool                { return u.it.SeekFirst(context.Background()) }
func (u viUnary) SeekLast() bool                 { return u.it.SeekLast(context.Background()) }
func (u viUnary) SeekLE(ts telem.TimeStamp) bool { return u.it.SeekLE(context.Background(), ts) }
func (u viUnary) SeekGE(ts telem.TimeStamp) bool { return u.it.SeekGE(context.Background(), ts) }
func (u viUnary) Next(s telem.TimeSpan) bool     { return u.it.Next(context.Background(), s) }
func (u viUnary) Prev(s telem.TimeSpan) bool     { return u.it.Prev(context.Background(), s) }
func (u viUnary) Close() error                   { return u.it.Close() }

func (l *viLay) observe(ch string, ev *viEvent, view, bounds telem.TimeRange, fr Frame, valid bool, err error) {
	ev.View = [2]int64{int64(view.Start), int64(view.End)}
	ev.B = [2]int64{int64(bounds.Start), int64(bounds.End)}
	ev.Valid = valid
	if err != nil {
		ev.Err = err.Error()
	}
	ev.Frame = [][2]int64{}
	ev.Series = [][4]int64{}
	key := vsKeys[ch]
	for k, s := range fr.Entries() {
		if k != key {
			continue
		}
		ev.Series = append(ev.Series, [4]int64{int64(s.TimeRange.Start), int64(s.TimeRange.End), s.Len(), int64(s.Alignment)})
		for smp := range s.Samples() {
			if v, ok := l.decode[ch][string(smp)]; ok {
				if ch == "I" {
					v[1] = int64(l.last.St.Cm["I"][strconv.Itoa(int(v[1]))])
				}
				ev.Frame = append(ev.Frame, v)
			} else {
				ev.Frame = append(ev.Frame, [2]int64{-1, -1})
			}
		}
	}
}

// drive runs one command sequence. `its` holds one iterator handle driving all channels
// (stream mode) or exactly one channel (unary mode); `inner[ch]` is the unary iterator of
// the channel, from which View()/Value()/Valid()/Error() are read after every command.
func (l *viLay) drive(run viRun, chans []string, it viIter, inner map[string]*unary.Iterator, value func(ch string) Frame,
	traces map[string]*viTrace, progress *atomic.Int64) {
	bounds := telem.TimeRange{Start: l.pt(run.A), End: l.pt(run.B)}
	pre := map[string]telem.TimeRange{}
	rec := func(ev viEvent) {
		for _, ch := range chans {
			e := ev
			u := inner[ch]
			switch e.C {
			case "next":
				e.Target = viSatAdd(int64(pre[ch].End), e.Span)
			case "prev":
				e.Target = viSatAdd(int64(pre[ch].Start), -e.Span)
			}
			l.observe(ch, &e, u.View(), u.Bounds(), value(ch), u.Valid(), u.Error())
			traces[ch].Events = append(traces[ch].Events, e)
		}
		progress.Add(1)
	}
	rec(viEvent{C: "open", Chunk: run.Chunk})
	for _, c := range run.Cmds {
		ev := viEvent{C: c.C, K: c.K, Chunk: run.Chunk}
		// hop spans are computed from the view of the FIRST channel; all channels of a
		// stream iterator are driven by the same span (targets are per channel).
		v0 := inner[chans[0]].View()
		for _, ch := range chans {
			pre[ch] = inner[ch].View()
		}
		switch c.C {
		case "script":
			// the store grows under the open iterator: further open/write/commit/close steps
			for n := 0; n < c.N && l.pos < len(l.more); n++ {
				st := l.more[l.pos]
				l.pos++
				res, err := l.r.exec(st)
				ev.Steps = append(ev.Steps, st.A)
				if err != nil || res != st.Res {
					ev.Err = fmt.Sprintf("script diverged at %s: spec %s, real %s %v", st.A, st.Res, res, err)
					for _, ch := range chans {
						e := ev
						traces[ch].Events = append(traces[ch].Events, e)
					}
					return
				}
				l.last = st
			}
			for _, ch := range chans {
				e := ev
				e.Stored = [][2]int64{}
				for t := 0; t <= l.maxT; t += 2 {
					if id := l.last.St.Cm[ch][strconv.Itoa(t)]; id != 0 {
						e.Stored = append(e.Stored, [2]int64{int64(l.r.c.ts(t)), int64(id)})
					}
				}
				traces[ch].Events = append(traces[ch].Events, e)
			}
			progress.Add(1)
			continue
		case "setbounds":
			bounds = telem.TimeRange{Start: l.pt(c.A), End: l.pt(c.B)}
			it.SetBounds(bounds)
			ev.Ok = true
		case "seekfirst":
			ev.Ok = it.SeekFirst()
		case "seeklast":
			ev.Ok = it.SeekLast()
		case "seekle":
			ev.T = int64(l.pt(c.T))
			ev.Ok = it.SeekLE(l.pt(c.T))
		case "seekge":
			ev.T = int64(l.pt(c.T))
			ev.Ok = it.SeekGE(l.pt(c.T))
		case "next":
			sp := l.span(c.K, true, v0, bounds)
			ev.Span = int64(sp)
			ev.Ok = it.Next(sp)
		case "prev":
			sp := l.span(c.K, false, v0, bounds)
			ev.Span = int64(sp)
			ev.Ok = it.Prev(sp)
		case "nextauto":
			if g := viGuard(true, v0, bounds); g != "" {
				ev.Guard = g
				rec(ev)
				return
			}
			ev.Ok = it.Next(unary.AutoSpan)
		case "prevauto":
			if g := viGuard(false, v0, bounds); g != "" {
				ev.Guard = g
				rec(ev)
				return
			}
			ev.Ok = it.Prev(unary.AutoSpan)
		}
		rec(ev)
	}
}

// viGuard: autoNext falls back to `i.Next(ctx, i.view.Start.Span(i.bounds.End))` when the
// chunk would end after the bounds; if the view sits exactly one nanosecond past the
// bounds that span is -1 == AutoSpan and the call recurses without end: a FATAL stack
// overflow that no recover() can stop (mirrored in autoPrev). The recorder must survive,
// so such a command is not executed but recorded with `guard` set; the driver confirms the
// crash in a separate process (VERIF_NOGUARD=1).
func viGuard(fwd bool, view, bounds telem.TimeRange) string {
	if os.Getenv("VERIF_NOGUARD") == "1" {
		return ""
	}
	if fwd && int64(bounds.End)-int64(view.End) == int64(unary.AutoSpan) {
		return "nextauto with view.end = bounds.end + 1ns"
	}
	if !fwd && int64(view.Start)-int64(bounds.Start) == int64(unary.AutoSpan) {
		return "prevauto with view.start = bounds.start - 1ns"
	}
	return ""
}

var viHangBudget atomic.Int64

const viWatchdog = 10 * time.Second

// guarded runs f under a panic guard and a watchdog.
func viGuarded(f func(progress *atomic.Int64)) (panicked string, hung bool) {
	done := make(chan string, 1)
	var progress atomic.Int64
	go func() {
		defer func() {
			if p := recover(); p != nil {
				done <- fmt.Sprint(p)
			}
		}()
		f(&progress)
		done <- ""
	}()
	for {
		before := progress.Load()
		select {
		case p := <-done:
			return p, false
		case <-time.After(viWatchdog):
			if progress.Load() == before {
				return "", true
			}
		}
	}
}

func (l *viLay) runOne(job viJob, run viRun, emit func(viTrace)) (panics int) {
	db := l.r.db
	has := func(xs []string, x string) bool {
		for _, y := range xs {
			if y == x {
				return true
			}
		}
		return false
	}
	bounds := telem.TimeRange{Start: l.pt(run.A), End: l.pt(run.B)}
	panicked := map[string]bool{}
	if has(run.Modes, "unary") {
		for _, ch := range run.Chans {
			db.mu.RLock()
			u := db.mu.dbs.unary[vsKeys[ch]]
			db.mu.RUnlock()
			it, err := u.OpenIterator(unary.IteratorConfig{Bounds: bounds, AutoChunkSize: run.Chunk})
			if err != nil {
				emit(viTrace{Layout: job.ID, Rid: run.Rid, Chan: ch, Mode: "unary", Events: []viEvent{{C: "open", Err: "open: " + err.Error()}}})
				continue
			}
			tr := &viTrace{Layout: job.ID, Rid: run.Rid, Chan: ch, Mode: "unary"}
			p, hung := viGuarded(func(progress *atomic.Int64) {
				l.drive(run, []string{ch}, viUnary{it}, map[string]*unary.Iterator{ch: it},
					func(string) Frame { return it.Value() }, map[string]*viTrace{ch: tr}, progress)
			})
			if p != "" || hung {
				panics++
				panicked[ch] = true
				n := len(tr.Events) - 1 // the command after the last recorded one did not return
				c := viCmd{}
				if n < len(run.Cmds) {
					c = run.Cmds[n]
				}
				tr.Events = append(tr.Events, viEvent{C: c.C, K: c.K, Chunk: run.Chunk, Panic: p, Hang: hung,
					Frame: [][2]int64{}, Series: [][4]int64{}})
			}
			if !hung {
				_ = it.Close()
			}
			emit(*tr)
		}
	}
	if has(run.Modes, "stream") {
		for _, ch := range run.Chans {
			// A panic inside a unary iterator kills the stream goroutine and leaves the
			// caller blocked; demonstrate that a bounded number of times only.
			if panicked[ch] && viHangBudget.Add(1) > 1 {
				continue
			}
			db.mu.RLock()
			si, err := db.newStreamIterator(IteratorConfig{Channels: []ChannelKey{vsKeys[ch]}, Bounds: bounds, AutoChunkSize: run.Chunk})
			db.mu.RUnlock()
			if err != nil {
				emit(viTrace{Layout: job.ID, Rid: run.Rid, Chan: ch, Mode: "stream", Events: []viEvent{{C: "open", Err: "open: " + err.Error()}}})
				continue
			}
			it := wrapStreamIterator(si)
			tr := &viTrace{Layout: job.ID, Rid: run.Rid, Chan: ch, Mode: "stream"}
			p, hung := viGuarded(func(progress *atomic.Int64) {
				l.drive(run, []string{ch}, viStream{it}, map[string]*unary.Iterator{ch: si.internal[0]},
					func(string) Frame { return it.Value() }, map[string]*viTrace{ch: tr}, progress)
			})
			if p != "" || hung {
				n := len(tr.Events) - 1
				c := viCmd{}
				if n < len(run.Cmds) {
					c = run.Cmds[n]
				}
				tr.Events = append(tr.Events, viEvent{C: c.C, K: c.K, Chunk: run.Chunk, Panic: p, Hang: hung,
					Frame: [][2]int64{}, Series: [][4]int64{}})
			}
			emit(*tr)
			if !hung && p == "" {
				_ = it.Close()
			}
		}
	}
	return
}

type viStream struct{ it *Iterator }

func (s viStream) SetBounds(tr telem.TimeRange)   { s.it.SetBounds(tr) }
func (s viStream) SeekFirst() bool                { return s.it.SeekFirst() }
func (s viStream) SeekLast() bool                 { return s.it.SeekLast() }
func (s viStream) SeekLE(ts telem.TimeStamp) bool { return s.it.SeekLE(ts) }
func (s viStream) SeekGE(ts telem.TimeStamp) bool { return s.it.SeekGE(ts) }
func (s viStream) Next(sp telem.TimeSpan) bool    { return s.it.Next(sp) }
func (s viStream) Prev(sp telem.TimeSpan) bool    { return s.it.Prev(sp) }
func (s viStream) Close() error                   { return s.it.Close() }

// ---------------------------------------------------------------- test entry

func TestVerifIterRecord(t *testing.T) {
	in, out := os.Getenv("VERIF_IN"), os.Getenv("VERIF_OUT")
	if in == "" || out == "" {
		t.Skip("VERIF_IN/VERIF_OUT not set")
	}
	workers, _ := strconv.Atoi(os.Getenv("VERIF_WORKERS"))
	if workers <= 0 {
		workers = runtime.GOMAXPROCS(0)
	}
	f, err := os.Open(in)
	if err != nil {
		t.Fatal(err)
	}
	defer f.Close()
	of, err := os.Create(out)
	if err != nil {
		t.Fatal(err)
	}
	defer of.Close()
	bw := bufio.NewWriterSize(of, 1<<20)
	defer bw.Flush()
	enc := json.NewEncoder(bw)
	var omu sync.Mutex
	write := func(v any) {
		omu.Lock()
		_ = enc.Encode(v)
		omu.Unlock()
	}
	jobs := make(chan []byte, 16)
	var wg sync.WaitGroup
	var nLay, nOK, nTraces, nEvents, nPanics atomic.Int64
	for w := 0; w < workers; w++ {
		wg.Add(1)
		go func() {
			defer wg.Done()
			for line := range jobs {
				var job viJob
				if err := json.Unmarshal(line, &job); err != nil {
					write(viLayout{Layout: -1, Status: "error", Note: "json: " + err.Error()})
					continue
				}
				nLay.Add(1)
				var l *viLay
				var lo viLayout
				p, hung := viGuarded(func(*atomic.Int64) { l, lo = viBuild(job) })
				if p != "" || hung {
					lo = viLayout{Layout: job.ID, Status: "error", Conc: job.Conc, Note: fmt.Sprintf("building the layout: panic=%q hang=%v", p, hung)}
					l = nil
				}
				write(map[string]any{"kind": "layout", "v": lo})
				if l == nil {
					continue
				}
				nOK.Add(1)
				hungAny := false
				emit := func(tr viTrace) {
					nTraces.Add(1)
					nEvents.Add(int64(len(tr.Events)))
					for _, e := range tr.Events {
						if e.Hang {
							hungAny = true
						}
					}
					write(map[string]any{"kind": "trace", "v": tr})
				}
				shut := func(x *viLay) {
					if hungAny {
						return
					}
					for _, w := range x.r.writers {
						_ = w.Close()
					}
					_ = x.r.db.Close()
				}
				if len(job.More) > 0 {
					// growing layout: the script steps are consumed by a trace, so every
					// (run, channel, mode) gets a database of its own
					shut(l)
					for _, run := range job.Runs {
						for _, ch := range run.Chans {
							for _, mode := range run.Modes {
								var l2 *viLay
								p, hung := viGuarded(func(*atomic.Int64) { l2, _ = viBuild(job) })
								if p != "" || hung || l2 == nil {
									continue
								}
								r1 := run
								r1.Chans, r1.Modes = []string{ch}, []string{mode}
								n := l2.runOne(job, r1, emit)
								nPanics.Add(int64(n))
								shut(l2)
								if n > 0 {
									break // no stream trace after a panic in the unary one
								}
							}
						}
					}
					continue
				}
				for _, run := range job.Runs {
					n := l.runOne(job, run, emit)
					nPanics.Add(int64(n))
				}
				shut(l)
			}
		}()
	}
	sc := bufio.NewScanner(f)
	sc.Buffer(make([]byte, 1<<20), 1<<28)
	for sc.Scan() {
		b := append([]byte(nil), sc.Bytes()...)
		if len(b) > 0 {
			jobs <- b
		}
	}
	close(jobs)
	wg.Wait()
	write(map[string]any{"kind": "summary", "layouts": nLay.Load(), "layouts_ok": nOK.Load(), "traces": nTraces.Load(),
		"events": nEvents.Load(), "panics": nPanics.Load()})
}
