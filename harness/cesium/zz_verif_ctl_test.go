//go:build verif

// C05 at the level users see: behaviours of Control.tla are replayed through
// cesium.OpenWriter / SetAuthority / Write / Close by several writers (control subjects)
// on the same channels. After every step every open writer writes one sample: its
// `authorized` flag must equal the spec's Authorized(s), and at the end exactly the
// samples of authorized writes are readable (nothing from unauthorized writers).
// Uses helpers of zz_verif_store_test.go (same package).
package cesium

import (
	"bufio"
	"context"
	"encoding/json"
	"fmt"
	"os"
	"runtime"
	"runtime/debug"
	"sort"
	"strings"
	"sync"
	"testing"
	"time"

	"github.com/synnaxlabs/x/confluence"
	xcontrol "github.com/synnaxlabs/x/control"
	"github.com/synnaxlabs/x/errors"
	xfs "github.com/synnaxlabs/x/io/fs"
	"github.com/synnaxlabs/x/signal"
	"github.com/synnaxlabs/x/telem"
	"github.com/synnaxlabs/x/validate"
)

type vuStep struct {
	A     string          `json:"a"`
	S     string          `json:"s"`
	Auth  int             `json:"auth"`
	EU    bool            `json:"eu"`
	Err   string          `json:"err"`
	Curr  string          `json:"curr"`
	Authz map[string]bool `json:"authz"`
	Open  map[string]bool `json:"open"`
}

type vuResult struct {
	I    int    `json:"i"`
	R    string `json:"r"`
	Step int    `json:"step"`
	Exp  string `json:"exp,omitempty"`
	Act  string `json:"act,omitempty"`
}

// vuReplay modes: 0 = persisted channels; 1 = persisted channels, and the transfers published
// on the control-update channel are replayed by a streamer: the holder they reconstruct
// must be the specification's holder after every step; 2 = the same on a virtual channel.
func vuReplay(hist []vuStep, mode int) (step int, exp, act string) {
	ctx := context.Background()
	db, err := Open(ctx, "", WithFS(xfs.NewMem()))
	if err != nil {
		return 0, "open", err.Error()
	}
	defer func() { _ = db.Close() }()
	if err := db.CreateChannel(ctx, Channel{Key: 1, Name: "I", DataType: telem.TimeStampT, IsIndex: true}); err != nil {
		return 0, "create", err.Error()
	}
	if err := db.CreateChannel(ctx, Channel{Key: 2, Name: "D", DataType: telem.Int64T, Index: 1}); err != nil {
		return 0, "create", err.Error()
	}
	chans := []ChannelKey{1, 2}
	if mode == 2 {
		if err := db.CreateChannel(ctx, Channel{Key: 3, Name: "V", DataType: telem.Int64T, Virtual: true}); err != nil {
			return 0, "create", err.Error()
		}
		chans = []ChannelKey{3}
	}
	writers := map[string]*Writer{}
	defer func() {
		for _, w := range writers {
			_ = w.Close()
		}
	}()
	// digest consumer: replays every published transfer per resource
	holder := map[ChannelKey]string{}
	var digests func(want string, settle time.Duration) bool
	if mode != 0 {
		const digestKey = ChannelKey(4_000_000_000)
		if err := db.ConfigureControlUpdateChannel(ctx, digestKey, "control"); err != nil {
			return 0, "configure control update channel", err.Error()
		}
		streamer, err := db.NewStreamer(ctx, StreamerConfig{Channels: []ChannelKey{digestKey}, SendOpenAck: true})
		if err != nil {
			return 0, "open digest streamer", err.Error()
		}
		stIn, stOut := confluence.Attach(streamer, 64)
		sCtx, cancel := signal.Isolated()
		streamer.Flow(sCtx, confluence.CloseOutputInletsOnExit())
		defer func() {
			stIn.Close()
			cancel()
		}()
		select {
		case <-stOut.Outlet():
		case <-time.After(20 * time.Second):
			return 0, "digest streamer acknowledges", "no acknowledgement within 20s"
		}
		consume := func(res StreamerResponse) {
			for _, sr := range res.Frame.SeriesSlice() {
				u, err := DecodeControlUpdate(sr)
				if err != nil {
					continue
				}
				for _, tr := range u.Transfers {
					switch {
					case tr.To != nil:
						holder[tr.To.Resource] = tr.To.Subject.Key
					case tr.From != nil:
						holder[tr.From.Resource] = ""
					}
				}
			}
		}
		matches := func(want string) bool {
			for _, c := range chans {
				if holder[c] != want {
					return false
				}
			}
			return true
		}
		// reads published updates until the replayed holder of every channel is `want`
		// (at most 20 s: publication is asynchronous), then whatever else arrives within
		// `settle`; reports whether the replayed holder is `want` at the end
		digests = func(want string, settle time.Duration) bool {
			deadline := time.After(20 * time.Second)
			for !matches(want) {
				select {
				case res, ok := <-stOut.Outlet():
					if !ok {
						return false
					}
					consume(res)
				case <-deadline:
					return false
				}
			}
			for {
				select {
				case res, ok := <-stOut.Outlet():
					if !ok {
						return matches(want)
					}
					consume(res)
				case <-time.After(settle):
					return matches(want)
				}
			}
		}
	}
	wantHolder := func(st vuStep) string {
		if st.Curr == "none" {
			return ""
		}
		return st.Curr
	}
	base := telem.TimeStamp(1_000_000_000_000_000)
	tick := 0
	var expected []int64 // values of authorized writes, in order
	subjIdx := map[string]int64{"s1": 1, "s2": 2, "s3": 3, "s4": 4}
	for i, st := range hist {
		switch st.A {
		case "open":
			eu := st.EU
			w, err := db.OpenWriter(ctx, WriterConfig{
				Channels: chans,
				// after everything written so far: a writer that opens when no other is
				// open starts a fresh control region and a fresh domain
				Start:             base + telem.TimeStamp(tick)*10 + 1,
				ControlSubject:    xcontrol.Subject{Key: st.S, Name: st.S},
				Authorities:       []xcontrol.Authority{xcontrol.Authority(st.Auth + 1)},
				ErrOnUnauthorized: &eu,
				Sync:              new(true),
				EnableAutoCommit:  new(true),
			})
			cls := "nil"
			switch {
			case err == nil:
			case errors.Is(err, xcontrol.ErrUnauthorized):
				cls = "unauthorized"
			case errors.Is(err, validate.ErrValidation):
				cls = "validation"
			default:
				cls = "other:" + err.Error()
			}
			if cls != st.Err {
				return i, "open err=" + st.Err, "open err=" + cls
			}
			if err == nil {
				writers[st.S] = w
			}
		case "set":
			if err := writers[st.S].SetAuthority(WriterConfig{Authorities: []xcontrol.Authority{xcontrol.Authority(st.Auth + 1)}}); err != nil {
				return i, "set ok", "set err=" + err.Error()
			}
		case "release":
			if err := writers[st.S].Close(); err != nil {
				return i, "close ok", "close err=" + err.Error()
			}
			delete(writers, st.S)
		}
		// probe: every open writer writes one sample, in subject order
		subs := make([]string, 0, len(writers))
		for s := range writers {
			subs = append(subs, s)
		}
		sort.Strings(subs)
		for _, s := range subs {
			tick++
			ts := base + telem.TimeStamp(tick)*10
			val := subjIdx[s]*1_000_000 + int64(tick)
			fr := telem.MultiFrame(
				[]ChannelKey{1, 2},
				[]telem.Series{telem.NewSeriesV[telem.TimeStamp](ts), telem.NewSeriesV[int64](val)},
			)
			if mode == 2 {
				fr = telem.UnaryFrame[ChannelKey](3, telem.NewSeriesV[int64](val))
			}
			auth, err := writers[s].Write(fr)
			if err != nil {
				return i, "probe write by " + s + " succeeds", "error: " + err.Error()
			}
			if auth != st.Authz[s] {
				return i, fmt.Sprintf("write by %s authorized=%v", s, st.Authz[s]), fmt.Sprintf("authorized=%v", auth)
			}
			if auth {
				expected = append(expected, val)
			}
		}
		if digests != nil {
			if want := wantHolder(st); !digests(want, 0) {
				return i, fmt.Sprintf("published transfers reconstruct holder %q on channels %v", want, chans), fmt.Sprintf("replayed holders %v", holder)
			}
		}
	}
	for s, w := range writers {
		if err := w.Close(); err != nil {
			return len(hist) - 1, "close ok", "close " + s + ": " + err.Error()
		}
		delete(writers, s)
	}
	if digests != nil && !digests("", 20*time.Millisecond) {
		return len(hist) - 1, fmt.Sprintf("published transfers reconstruct no holder on channels %v after every writer closed", chans), fmt.Sprintf("replayed holders %v", holder)
	}
	if mode == 2 {
		return -1, "", ""
	}
	fr, err := db.Read(ctx, telem.TimeRangeMax, 2)
	if err != nil {
		return len(hist) - 1, "final read ok", err.Error()
	}
	var got []int64
	for _, s := range fr.SeriesSlice() {
		got = append(got, telem.UnmarshalSeries[int64](s)...)
	}
	if fmt.Sprint(got) != fmt.Sprint(expected) {
		return len(hist) - 1, fmt.Sprintf("persisted=%v", expected), fmt.Sprintf("persisted=%v", got)
	}
	return -1, "", ""
}

func TestVerifControlUser(t *testing.T) {
	in, out := os.Getenv("VERIF_IN"), os.Getenv("VERIF_OUT")
	if in == "" || out == "" {
		t.Skip("VERIF_IN/VERIF_OUT not set")
	}
	f, err := os.Open(in)
	if err != nil {
		t.Fatal(err)
	}
	defer f.Close()
	type job struct {
		i    int
		line []byte
	}
	jobs := make(chan job, 64)
	results := make(chan vuResult, 64)
	var wg sync.WaitGroup
	for w := 0; w < runtime.GOMAXPROCS(0); w++ {
		wg.Add(1)
		go func() {
			defer wg.Done()
			for j := range jobs {
				var hist []vuStep
				if err := json.Unmarshal(j.line, &hist); err != nil {
					results <- vuResult{I: j.i, R: "inconclusive", Act: err.Error()}
					continue
				}
				res := vuResult{I: j.i, R: "ok"}
				func() {
					defer func() {
						if p := recover(); p != nil {
							res = vuResult{I: j.i, R: "mismatch", Step: -1, Exp: "no panic", Act: fmt.Sprint(p) + "\n" + string(debug.Stack())}
						}
					}()
					mode := 0
					if j.i%4 == 1 {
						mode = 1
					} else if j.i%4 == 3 {
						mode = 2
					}
					if step, exp, act := vuReplay(hist, mode); step >= 0 {
						res = vuResult{I: j.i, R: "mismatch", Step: step, Exp: exp, Act: act}
					}
				}()
				results <- res
			}
		}()
	}
	go func() {
		sc := bufio.NewScanner(f)
		sc.Buffer(make([]byte, 1<<20), 1<<26)
		i := 0
		for sc.Scan() {
			b := append([]byte(nil), sc.Bytes()...)
			if len(b) > 0 {
				jobs <- job{i: i, line: b}
				i++
			}
		}
		close(jobs)
		wg.Wait()
		close(results)
	}()
	var bad []vuResult
	n := 0
	for r := range results {
		n++
		if r.R != "ok" {
			bad = append(bad, r)
		}
	}
	sort.Slice(bad, func(a, b int) bool { return bad[a].I < bad[b].I })
	of, err := os.Create(out)
	if err != nil {
		t.Fatal(err)
	}
	defer of.Close()
	enc := json.NewEncoder(of)
	_ = enc.Encode(map[string]any{"summary": true, "replayed": n, "bad": len(bad)})
	for _, r := range bad {
		_ = enc.Encode(r)
	}
	_ = strings.TrimSpace
}
