//go:build verif

// C09: concurrent use of one cesium.DB; records call/ret traces validated against
// CesiumLinTrace.tla; run under -race with a stall watchdog.
// Uses the concretiser / helpers of zz_verif_store_test.go (same package).
package cesium

import (
	"bufio"
	"context"
	"encoding/json"
	"fmt"
	"math/rand"
	"os"
	"runtime"
	"sort"
	"strconv"
	"sync"
	"sync/atomic"
	"testing"
	"time"

	xfs "github.com/synnaxlabs/x/io/fs"
	"github.com/synnaxlabs/x/telem"
)

// vlFS perturbs the schedule at file-system calls: garbage collection's copy / swap
// phases and index persists are stretched by short random sleeps so that concurrent
// deletes and commits land inside them far more often than they would by chance.
type vlFS struct {
	xfs.FS
	seed int64
	n    *atomic.Int64
	gc   *atomic.Int64 // number of *_gc files opened (= files a GC pass decided to compact)
	del  *atomic.Int32 // > 0 while a DeleteTimeRange call is in progress
	win  *vlWindow     // guard rounds: signalled at the first file read inside the index delete
	ren  *vlRenGate    // signalled when the directory of channel 9 is about to be renamed
	st   *vlStatGate   // gc-vs-writer rounds: runs a writer session inside GC's Stat of a data file
}

// vlStatGate is a scheduler gate at the Stat call garbage collection issues for a data file
// after it decided that the file has no writer and before it starts collecting it.
type vlStatGate struct {
	armed atomic.Bool
	fn    func()
	// the converse window: runs a GC pass inside the writer pool's re-open of a data file
	armedOpen atomic.Bool
	fnOpen    func()
}

type vlRenGate struct {
	armed atomic.Bool
	mu    sync.Mutex
	ch    chan struct{}
}

type vlWindow struct {
	armed atomic.Bool
	once  sync.Once
	ch    chan struct{}
}

func (f vlFS) nap(max int) {
	k := f.n.Add(1)
	x := uint64(f.seed)*0x9E3779B97F4A7C15 + uint64(k)*0xBF58476D1CE4E5B9
	x ^= x >> 29
	if d := int(x % uint64(max)); d > 0 {
		time.Sleep(time.Duration(d) * time.Microsecond)
	}
}

func (f vlFS) Open(name string, flag int) (xfs.File, error) {
	if f.st != nil && name == "1.domain" && flag&os.O_APPEND != 0 && f.st.armedOpen.CompareAndSwap(true, false) {
		// the gate runs once the handle exists and before the caller has registered it
		file, err := f.FS.Open(name, flag)
		f.st.fnOpen()
		return file, err
	}
	if len(name) > 3 && name[len(name)-3:] == "_gc" {
		f.gc.Add(1)
		f.nap(400)
	} else if flag == os.O_RDONLY && f.del != nil && f.del.Load() > 0 {
		// files read while a delete is in progress (offset resolution between the delete's
		// checks and its index update): stretch that window
		f.nap(700)
		if f.win != nil && f.win.armed.Load() {
			// scheduler gate: let a waiting writer session run inside the delete
			f.win.once.Do(func() { close(f.win.ch) })
			time.Sleep(5 * time.Millisecond)
		}
	}
	return f.FS.Open(name, flag)
}

func (f vlFS) Rename(a, b string) error {
	f.nap(200)
	if f.ren != nil && a == "9" && f.ren.armed.CompareAndSwap(true, false) {
		// scheduler gate: DeleteChannel(9) is about to move the channel's directory away
		close(f.ren.ch)
		time.Sleep(2 * time.Millisecond)
	}
	return f.FS.Rename(a, b)
}

func (f vlFS) Stat(name string) (os.FileInfo, error) {
	if f.st != nil && name == "1.domain" && f.st.armed.CompareAndSwap(true, false) {
		f.st.fn()
	}
	return f.FS.Stat(name)
}

func (f vlFS) Sub(name string) (xfs.FS, error) {
	sub, err := f.FS.Sub(name)
	if err != nil {
		return nil, err
	}
	return vlFS{FS: sub, seed: f.seed, n: f.n, gc: f.gc, del: f.del, win: f.win, ren: f.ren, st: f.st}, nil
}

type vlEvent struct {
	Ev    string                    `json:"ev"`
	P     string                    `json:"p,omitempty"`
	Op    string                    `json:"op,omitempty"`
	Chans []string                  `json:"chans,omitempty"`
	Start int                       `json:"start"`
	Auto  bool                      `json:"auto"`
	Times []int                     `json:"times,omitempty"`
	ID    int                       `json:"id"`
	A     int                       `json:"a"`
	B     int                       `json:"b"`
	Res   string                    `json:"res,omitempty"`
	Shr   bool                      `json:"shrunk,omitempty"` // gc ret: the pass made a data file smaller
	Cm    map[string]map[string]int `json:"cm,omitempty"`
	Anom  string                    `json:"anom,omitempty"`
	seq   int64
}

type vlRound struct {
	chanBad atomic.Value
	c       vsConc
	db      *DB
	fs      xfs.FS
	seq     atomic.Int64
	mu      sync.Mutex
	events  []vlEvent
	// written[c][t] = id of the only write that ever put a sample at t on channel c
	wmu     sync.Mutex
	written map[string]map[int]int
	garbage atomic.Value // string: first never-written read observed
	tainted atomic.Bool
}

func (r *vlRound) log(e vlEvent) {
	e.seq = r.seq.Add(1)
	r.mu.Lock()
	r.events = append(r.events, e)
	r.mu.Unlock()
}

func (r *vlRound) opts() []Option {
	o := []Option{WithFS(r.fs), WithGCConfig(GCConfig{Threshold: 1e-9, TryInterval: time.Hour})}
	if r.c.FileCap != 0 {
		o = append(o, WithFileSizeCap(telem.Size(r.c.FileCap)))
	}
	return o
}

// content reads every channel over everything and maps samples back to (t, id).
// content reads every channel in full. Bytes that were never written to the channel and
// samples returned twice do not abort the round: they are recorded as value -1 (which no
// spec state matches) and described in anom, so that the trace validation and the
// comparison with the content after reopen classify the round.
func (r *vlRound) content() (map[string]map[string]int, string, error) {
	out := map[string]map[string]int{}
	anom := ""
	for _, ch := range []string{"I", "D", "V"} {
		out[ch] = map[string]int{}
		// the read runs without the harness lock (it may be stalled by the file-system
		// perturbation); the write log is looked at afterwards: it is updated BEFORE a write
		// is issued, so it holds everything the read can have returned
		fr, err := r.db.Read(context.Background(), telem.TimeRangeMax, vsKeys[ch])
		if err != nil {
			return nil, "", fmt.Errorf("read %s: %w", ch, err)
		}
		rev := map[string][2]int{}
		r.wmu.Lock()
		wl := make(map[int]int, len(r.written[ch]))
		for t, id := range r.written[ch] {
			wl[t] = id
		}
		r.wmu.Unlock()
		for t, id := range wl {
			var b []byte
			switch ch {
			case "I":
				b = telem.NewSeriesV[telem.TimeStamp](r.c.ts(t)).Data
			case "D":
				b = r.c.dVal(t, id)
			case "V":
				b = r.c.vVal(t, id)
			}
			rev[string(b)] = [2]int{t, id}
		}
		for _, s := range fr.SeriesSlice() {
			for smp := range s.Samples() {
				v, ok := rev[string(smp)]
				if !ok {
					if anom == "" {
						anom = fmt.Sprintf("channel %s returned bytes %x that were never written to it", ch, smp)
					}
					out[ch]["0"] = -1
					continue
				}
				if _, dup := out[ch][strconv.Itoa(v[0])]; dup {
					if anom == "" {
						anom = fmt.Sprintf("channel %s returned the sample at abstract time %d twice", ch, v[0])
					}
					out[ch][strconv.Itoa(v[0])] = -1
					continue
				}
				out[ch][strconv.Itoa(v[0])] = v[1]
			}
		}
	}
	return out, anom, nil
}

func (r *vlRound) write(w *Writer, chans []string, times []int, id int) (string, error) {
	var keys []ChannelKey
	var series []telem.Series
	r.wmu.Lock()
	for _, c := range chans {
		for _, t := range times {
			r.written[c][t] = id
		}
	}
	r.wmu.Unlock()
	for _, c := range chans {
		var s telem.Series
		switch c {
		case "I":
			stamps := make([]telem.TimeStamp, len(times))
			for i, t := range times {
				stamps[i] = r.c.ts(t)
			}
			s = telem.NewSeries(stamps)
		case "D":
			parts := make([][]byte, len(times))
			for i, t := range times {
				parts[i] = r.c.dVal(t, id)
			}
			s = telem.Series{DataType: r.c.dType(), Data: vsCat(parts, false)}
		case "V":
			parts := make([][]byte, len(times))
			for i, t := range times {
				parts[i] = r.c.vVal(t, id)
			}
			s = telem.Series{DataType: r.c.vType(), Data: vsCat(parts, true)}
		}
		keys = append(keys, vsKeys[c])
		series = append(series, s)
	}
	auth, err := w.Write(telem.MultiFrame(keys, series))
	if err != nil {
		return "err:" + err.Error(), nil
	}
	if !auth {
		return "unauthorized", nil
	}
	return "ok", nil
}

// vlRun executes one concurrent round and returns its events (sorted by sequence).
func vlRun(seed int64, round int, hang *atomic.Bool) (evs []vlEvent, fatal string) {
	rnd := rand.New(rand.NewSource(seed*7919 + int64(round)))
	c := vsConcFromSeed(seed, round*13+5)
	c.NoEmpty = true
	// gc-vs-writer rounds (structured, see below) need a first data file with room left
	gcw := round%3 == 2
	switch rnd.Intn(3) {
	case 0:
		c.FileCap = 0 // no rollover
	case 1:
		// the eight old samples fill the first file of the 8-byte channels exactly, so the
		// concurrent sessions write to new files and GC may compact the old one meanwhile
		c.FileCap = 64
	}
	if gcw {
		c.FileCap = 0
	}
	stg := &vlStatGate{}
	inDel := &atomic.Int32{}
	win := &vlWindow{ch: make(chan struct{})}
	ren := &vlRenGate{}
	r := &vlRound{c: c, fs: vlFS{FS: xfs.NewMem(), seed: seed*131 + int64(round), n: &atomic.Int64{}, gc: &atomic.Int64{}, del: inDel, win: win, ren: ren, st: stg}, written: map[string]map[int]int{"I": {}, "D": {}, "V": {}}}
	db, err := Open(context.Background(), "", r.opts()...)
	if err != nil {
		return nil, "open: " + err.Error()
	}
	r.db = db
	ctx := context.Background()
	if err := db.CreateChannel(ctx, Channel{Key: vsKeyI, Name: "I", DataType: telem.TimeStampT, IsIndex: true}); err != nil {
		return nil, err.Error()
	}
	if err := db.CreateChannel(ctx,
		Channel{Key: vsKeyD, Name: "D", DataType: c.dType(), Index: vsKeyI},
		Channel{Key: vsKeyV, Name: "V", DataType: c.vType(), Index: vsKeyI}); err != nil {
		return nil, err.Error()
	}
	r.log(vlEvent{Ev: "reset"})
	id := 0
	all := []string{"I", "D", "V"}
	persist := func(cfg *WriterConfig) {
		if c.Persist == 0 {
			cfg.AutoIndexPersistInterval = AlwaysIndexPersistOnAutoCommit
		} else if c.Persist == 2 {
			cfg.AutoIndexPersistInterval = 5 * telem.Millisecond
		}
	}
	// stepHook (gc-vs-writer rounds only) is called by a session after its open (step 0) and
	// after its k-th write (step k)
	var stepHook func(step int)
	// session runs one writer session on all three channels: open, writes, commit, close
	sessionOn := func(p string, chans []string, start int, chunks [][]int, auto bool) string {
		keys := make([]ChannelKey, 0, len(chans))
		for _, ch := range chans {
			keys = append(keys, vsKeys[ch])
		}
		r.log(vlEvent{Ev: "call", P: p, Op: "open", Chans: chans, Start: start, Auto: auto})
		cfg := WriterConfig{Channels: keys, Start: c.ts(start), EnableAutoCommit: &auto, Sync: new(true)}
		persist(&cfg)
		w, err := db.OpenWriter(ctx, cfg)
		if err != nil {
			r.log(vlEvent{Ev: "ret", P: p, Res: "err:" + err.Error()})
			return "open failed: " + err.Error()
		}
		r.log(vlEvent{Ev: "ret", P: p, Res: "ok"})
		if stepHook != nil {
			stepHook(0)
		}
		for k, times := range chunks {
			id++
			r.log(vlEvent{Ev: "call", P: p, Op: "write", Times: times, ID: id})
			res, _ := r.write(w, chans, times, id)
			r.log(vlEvent{Ev: "ret", P: p, Res: res})
			runtime.Gosched()
			if res != "ok" {
				break // a writer that reported an error is only closed
			}
			if stepHook != nil {
				stepHook(k + 1)
			}
		}
		if !auto {
			r.log(vlEvent{Ev: "call", P: p, Op: "commit"})
			_, err := w.Commit()
			r.log(vlEvent{Ev: "ret", P: p, Res: vsErrClass(err)})
		}
		r.log(vlEvent{Ev: "call", P: p, Op: "close"})
		err = w.Close()
		r.log(vlEvent{Ev: "ret", P: p, Res: vsErrClass(err)})
		return ""
	}
	session := func(p string, start int, chunks [][]int, auto bool) string {
		return sessionOn(p, all, start, chunks, auto)
	}
	// guard rounds: the index channel alone already holds samples at 22..26; during the
	// concurrent phase a DATA-ONLY writer session fills D and V there while the deleter
	// removes that range from the index channel alone. Different channels, so inside C09's
	// envelope; the index-delete guard and the writer's open must be ordered one way or the
	// other: both succeeding has no serial explanation.
	guard := rnd.Intn(2) == 0 && !gcw
	waitForDelete := rnd.Intn(4) != 0
	// phase A (sequential): old data at abstract times 0,2,...,14
	if msg := session("w", 0, [][]int{{0, 2, 4}, {6, 8}, {10, 12, 14}}, rnd.Intn(2) == 0); msg != "" {
		return nil, msg
	}
	if guard {
		if msg := sessionOn("w", []string{"I"}, 22, [][]int{{22, 24}, {26}}, true); msg != "" {
			return nil, msg
		}
	}
	// phase B (concurrent)
	phaseB := func() string {
		var wg sync.WaitGroup
		stop := make(chan struct{})
		start := make(chan struct{})
		wg.Add(1)
		go func() { // writer: two sessions on fresh regions
			defer wg.Done()
			<-start
			a1, a2 := rnd.Intn(2) == 0, rnd.Intn(2) == 0
			if !guard {
				_ = session("w", 16, [][]int{{16}, {18, 20}}, a1)
			}
			if guard {
				if waitForDelete {
					// start the data-only session while the index delete is in progress
					select {
					case <-win.ch:
					case <-time.After(50 * time.Millisecond):
					}
				}
				_ = sessionOn("w", []string{"D", "V"}, 22, [][]int{{22, 24}, {26}}, a2)
				_ = session("w", 16, [][]int{{16}, {18, 20}}, a1)
			} else {
				_ = session("w", 22, [][]int{{22, 24}, {26}}, a2)
			}
		}()
		// deletes: every range holds at least one sample that is still present on every named
		// channel, so that no outcome depends on how the code trims sample-free domain pieces
		nDel := 3 + rnd.Intn(3)
		var dels []vlEvent
		sets := [][]string{{"D"}, {"V"}, {"D", "V"}}
		if rnd.Intn(2) == 0 {
			sets = [][]string{{"I", "D", "V"}}
		}
		left := map[string]map[int]bool{}
		for _, ch := range all {
			left[ch] = map[int]bool{0: true, 2: true, 4: true, 6: true, 8: true, 10: true, 12: true, 14: true}
		}
		for tries := 0; len(dels) < nDel && tries < 50; tries++ {
			a := rnd.Intn(15)
			b := a + 1 + rnd.Intn(min(5, 15-a))
			cs := sets[rnd.Intn(len(sets))]
			okAll := true
			for _, ch := range cs {
				has := false
				for t := range left[ch] {
					if a <= t && t < b {
						has = true
					}
				}
				okAll = okAll && has
			}
			if !okAll {
				continue
			}
			for _, ch := range cs {
				for t := range left[ch] {
					if a <= t && t < b {
						delete(left[ch], t)
					}
				}
			}
			dels = append(dels, vlEvent{Chans: cs, A: a, B: b})
		}
		if guard {
			at := rnd.Intn(len(dels) + 1)
			// a range that cuts the index domain (22..26), so that the delete has to resolve
			// sample offsets by reading the index file between its checks and its update
			g := [][2]int{{21, 25}, {22, 25}, {23, 27}, {23, 25}, {24, 27}}[rnd.Intn(5)]
			gd := vlEvent{Chans: []string{"I"}, A: g[0], B: g[1]}
			dels = append(dels[:at], append([]vlEvent{gd}, dels[at:]...)...)
		}
		wg.Add(1)
		go func() { // deleter: ranges inside the old region only (b <= 15 < every new session start)
			defer wg.Done()
			<-start
			for _, d := range dels {
				keys := make([]ChannelKey, 0, 3)
				for _, ch := range d.Chans {
					keys = append(keys, vsKeys[ch])
				}
				vr := &vsRunner{c: c, fs: r.fs}
				if vr.cutsInexactDomainTS(r, d.Chans, d.A, d.B) {
					r.tainted.Store(true)
				}
				r.log(vlEvent{Ev: "call", P: "d", Op: "delete", Chans: d.Chans, A: d.A, B: d.B})
				isGuard := guard && len(d.Chans) == 1 && d.Chans[0] == "I"
				win.armed.Store(isGuard)
				inDel.Add(1)
				err := db.DeleteTimeRange(ctx, keys, telem.TimeRange{Start: c.ts(d.A), End: c.ts(d.B)})
				inDel.Add(-1)
				win.armed.Store(false)
				res := "ok"
				if err != nil {
					res = "err:" + err.Error()
				}
				r.log(vlEvent{Ev: "ret", P: "d", Res: res})
				runtime.Gosched()
			}
		}()
		var bg sync.WaitGroup
		bg.Add(1)
		go func() { // garbage collection loop
			defer bg.Done()
			<-start
			for {
				select {
				case <-stop:
					return
				default:
				}
				r.log(vlEvent{Ev: "call", P: "g", Op: "gc"})
				g0 := r.fs.(vlFS).gc.Load()
				err := db.garbageCollect(ctx, 4)
				r.log(vlEvent{Ev: "ret", P: "g", Res: vsErrClass(err), Shr: r.fs.(vlFS).gc.Load() > g0})
				time.Sleep(50 * time.Microsecond)
			}
		}()
		bg.Add(1)
		go func() { // reader loop: whatever it sees must have been written
			defer bg.Done()
			<-start
			for {
				select {
				case <-stop:
					return
				default:
				}
				r.log(vlEvent{Ev: "call", P: "r", Op: "read"})
				// read errors while writers/deletes run are tolerated; anomalies are observations
				if _, anom, _ := r.content(); anom != "" && r.garbage.Load() == nil {
					r.garbage.Store(anom)
				}
				r.log(vlEvent{Ev: "ret", P: "r", Res: "ok"})
				time.Sleep(30 * time.Microsecond)
			}
		}()
		bg.Add(1)
		go func() { // unrelated channel create / delete
			defer bg.Done()
			<-start
			x := Channel{Key: 9, Name: "X", DataType: telem.TimeStampT, IsIndex: true}
			for i := 0; i < 4; i++ {
				r.log(vlEvent{Ev: "call", P: "c", Op: "chan"})
				e1 := db.CreateChannel(ctx, x)
				// a second goroutine creates the same channel while DeleteChannel is moving its
				// directory away (gate in the file-system wrapper; on a database that serialises
				// the two, the create simply waits for the delete)
				ren.ch = make(chan struct{})
				ren.armed.Store(true)
				raced := make(chan error, 1)
				go func(gate chan struct{}) {
					select {
					case <-gate:
					case <-time.After(20 * time.Millisecond):
					}
					raced <- db.CreateChannel(ctx, x)
				}(ren.ch)
				e2 := db.DeleteChannel(9)
				<-raced
				ren.armed.Store(false)
				// both calls returned: whatever their order was, a channel 9 that exists is usable
				if _, err := db.RetrieveChannel(ctx, 9); err == nil {
					ts := c.ts(27) + telem.TimeStamp(1000+i)
					if err := db.Write(ctx, ts, telem.UnaryFrame[ChannelKey](9, telem.NewSeriesV[telem.TimeStamp](ts))); err != nil {
						r.chanBad.Store(fmt.Sprintf("channel 9 exists after a create raced a delete of it, but cannot be written: %v", err))
					}
				}
				_ = db.DeleteChannel(9)
				res := "ok"
				if e1 != nil || e2 != nil {
					res = fmt.Sprintf("err:%v/%v", e1, e2)
				}
				r.log(vlEvent{Ev: "ret", P: "c", Res: res})
			}
			_ = db.CreateChannel(ctx, x) // left in place for the in-memory / reopen comparison below
		}()
		done := make(chan struct{})
		go func() { wg.Wait(); close(stop); bg.Wait(); close(done) }()
		close(start)
		select {
		case <-done:
		case <-time.After(120 * time.Second):
			hang.Store(true)
			buf := make([]byte, 1<<20)
			n := runtime.Stack(buf, true)
			return "HANG: concurrent round did not finish within 120s\n" + string(buf[:n])
		}
		return ""
	}
	// gc-vs-writer rounds: a time-range delete leaves tombstones in the first data file of
	// every channel, the database is closed and reopened (no pooled writer handle on that
	// file, which still has room), and a garbage collection pass is stopped at the Stat call
	// it issues for the file after it found no writer on it: inside that window a writer
	// session opens on the channels (it picks that very file), writes, commits and closes.
	// GC then carries on. Whatever it decides, the session's committed samples must be
	// readable afterwards, in memory and after another reopen.
	phaseGCW := func() string {
		nd := 1 + rnd.Intn(2)
		for k := 0; k < nd; k++ {
			a := rnd.Intn(6)
			b := a + 3 + rnd.Intn(4)
			if k == 1 {
				a = 10 + rnd.Intn(2)
				b = a + 3
			}
			vr := &vsRunner{c: c, fs: r.fs}
			if vr.cutsInexactDomainTS(r, all, a, b) {
				r.tainted.Store(true)
			}
			r.log(vlEvent{Ev: "call", P: "d", Op: "delete", Chans: all, A: a, B: b})
			err := db.DeleteTimeRange(ctx, []ChannelKey{vsKeyI, vsKeyD, vsKeyV}, telem.TimeRange{Start: c.ts(a), End: c.ts(b)})
			res := "ok"
			if err != nil {
				res = "err:" + err.Error()
			}
			r.log(vlEvent{Ev: "ret", P: "d", Res: res})
		}
		if err := db.Close(); err != nil {
			return "close before gc: " + err.Error()
		}
		db2, err := Open(ctx, "", r.opts()...)
		if err != nil {
			return "reopen before gc: " + err.Error()
		}
		db = db2
		r.db = db2
		auto := rnd.Intn(2) == 0
		if (round/3)%2 == 1 {
			// the converse window: the writer session runs first and a whole GC pass is
			// started inside the file controller's re-open of the data file. Code that holds
			// its writer-pool lock across the re-open makes the pass wait (the gate gives up
			// after 30 ms and the pass then runs concurrently with the rest of the session).
			gcDone := make(chan struct{})
			fired := false
			stg.fnOpen = func() {
				fired = true
				go func() {
					defer close(gcDone)
					r.log(vlEvent{Ev: "call", P: "g", Op: "gc"})
					g0 := r.fs.(vlFS).gc.Load()
					err := db.garbageCollect(ctx, 4)
					r.log(vlEvent{Ev: "ret", P: "g", Res: vsErrClass(err), Shr: r.fs.(vlFS).gc.Load() > g0})
				}()
				select {
				case <-gcDone:
				case <-time.After(30 * time.Millisecond):
				}
			}
			stg.armedOpen.Store(true)
			_ = session("w", 16, [][]int{{16}, {18, 20}}, auto)
			stg.armedOpen.Store(false)
			if !fired {
				r.tainted.Store(true) // the session never re-opened the old file: nothing exercised
				return ""
			}
			select {
			case <-gcDone:
			case <-time.After(120 * time.Second):
				hang.Store(true)
				return "HANG: garbage collection pass started inside a writer open did not finish within 120s"
			}
			return ""
		}
		// the session opens (and, in half of the rounds, writes its first chunk) inside the
		// window and goes on - further writes, commit, close - once the pass has returned
		sessDone := make(chan struct{})
		inside := make(chan struct{})
		resume := make(chan struct{})
		pauseAt := rnd.Intn(2)
		fired := false
		stepHook = func(step int) {
			if step == pauseAt {
				close(inside)
				<-resume
			}
		}
		stg.fn = func() {
			fired = true
			go func() {
				defer close(sessDone)
				_ = session("w", 16, [][]int{{16}, {18, 20}}, auto)
			}()
			select {
			case <-inside:
			case <-sessDone:
			case <-time.After(3 * time.Second):
				// the session cannot get that far inside this Stat call (the caller holds
				// something the session needs): not the window this round is about
				r.tainted.Store(true)
			}
		}
		stg.armed.Store(true)
		r.log(vlEvent{Ev: "call", P: "g", Op: "gc"})
		g0 := r.fs.(vlFS).gc.Load()
		err = db.garbageCollect(ctx, 4)
		r.log(vlEvent{Ev: "ret", P: "g", Res: vsErrClass(err), Shr: r.fs.(vlFS).gc.Load() > g0})
		stg.armed.Store(false)
		if !fired {
			r.tainted.Store(true) // GC never looked at the file: nothing was exercised
			return ""
		}
		close(resume)
		select {
		case <-sessDone:
		case <-time.After(120 * time.Second):
			hang.Store(true)
			return "HANG: writer session started inside a garbage collection pass did not finish within 120s"
		}
		return ""
	}
	if gcw {
		if msg := phaseGCW(); msg != "" {
			return nil, msg
		}
	} else if msg := phaseB(); msg != "" {
		return nil, msg
	}
	obs := ""
	if g := r.garbage.Load(); g != nil {
		// a read that ran concurrently with writers / deletes / GC saw an anomaly; C09 only
		// speaks about the content readable AFTERWARDS, so this is an observation
		obs = "OBS: concurrent read anomaly: " + g.(string)
	}
	cm, anom, err := r.content()
	if err != nil {
		return nil, "final read: " + err.Error()
	}
	r.log(vlEvent{Ev: "final", Cm: cm, Anom: anom})
	// the channel two goroutines created and deleted concurrently: whatever the serial order
	// was, the database's view of it must be self-consistent - if it exists it is usable,
	// and close + reopen shows the same
	if m := r.chanBad.Load(); m != nil {
		return nil, "CHAN: " + m.(string)
	}
	_, xerr := db.RetrieveChannel(ctx, 9)
	xMem := xerr == nil
	xTS := c.ts(27) + 12345
	if xMem {
		if err := db.Write(ctx, xTS, telem.UnaryFrame[ChannelKey](9, telem.NewSeriesV[telem.TimeStamp](xTS))); err != nil {
			return nil, "CHAN: channel 9 exists in memory after concurrent create/delete but cannot be written: " + err.Error()
		}
	}
	if err := db.Close(); err != nil {
		return nil, "close: " + err.Error()
	}
	db2, err := Open(ctx, "", r.opts()...)
	if err != nil {
		return nil, "reopen: " + err.Error()
	}
	_, xerr = db2.RetrieveChannel(ctx, 9)
	if (xerr == nil) != xMem {
		_ = db2.Close()
		return nil, fmt.Sprintf("CHAN: channel 9 exists=%v in memory after concurrent create/delete but exists=%v after close and reopen", xMem, xerr == nil)
	}
	if xMem {
		fr, err := db2.Read(ctx, telem.TimeRangeMax, 9)
		n := 0
		if err == nil {
			for _, sr := range fr.SeriesSlice() {
				n += int(sr.Len())
			}
		}
		if err != nil || n != 1 {
			_ = db2.Close()
			return nil, fmt.Sprintf("CHAN: channel 9: sample written after the concurrent create/delete is not readable after reopen (%d samples, err %v)", n, err)
		}
	}
	r.db = db2
	cm2, anom2, err := r.content()
	if err != nil {
		return nil, "final read after reopen: " + err.Error()
	}
	r.log(vlEvent{Ev: "final", Cm: cm2, Anom: anom2})
	_ = db2.Close()
	if r.tainted.Load() {
		return nil, "" // known delete defect shape: the round is not evidence either way
	}
	sort.Slice(r.events, func(a, b int) bool { return r.events[a].seq < r.events[b].seq })
	return r.events, obs
}

// cutsInexactDomainTS is cutsInexactDomain for the concurrent driver (index sample
// timestamps taken from the driver's own write log).
func (r *vsRunner) cutsInexactDomainTS(round *vlRound, chans []string, a, b int) bool {
	idx := map[telem.TimeStamp]bool{}
	round.wmu.Lock()
	for t := range round.written["I"] {
		idx[r.c.ts(t)] = true
	}
	round.wmu.Unlock()
	lo, hi := r.c.ts(a), r.c.ts(b)
	for _, c := range chans {
		for _, p := range r.vsPointers(vsKeys[c]) {
			if idx[p[0]] {
				continue
			}
			if (p[0] <= lo && lo < p[1]) || (p[0] <= hi && hi < p[1]) {
				return true
			}
		}
	}
	return false
}

func TestVerifConcurrent(t *testing.T) {
	out := os.Getenv("VERIF_OUT")
	if out == "" {
		t.Skip("VERIF_OUT not set")
	}
	seed, _ := strconv.ParseInt(os.Getenv("VERIF_SEED"), 10, 64)
	rounds, _ := strconv.Atoi(os.Getenv("VERIF_ROUNDS"))
	if rounds <= 0 {
		rounds = 20
	}
	of, err := os.Create(out)
	if err != nil {
		t.Fatal(err)
	}
	defer of.Close()
	w := bufio.NewWriter(of)
	defer w.Flush()
	enc := json.NewEncoder(w)
	var hang atomic.Bool
	ok, skipped := 0, 0
	for round := 0; round < rounds && !hang.Load(); round++ {
		evs, fatal := vlRun(seed, round, &hang)
		if fatal != "" {
			_ = enc.Encode(map[string]any{"ev": "fatal", "round": round, "msg": fatal})
			if len(fatal) < 4 || fatal[:4] != "OBS:" {
				continue
			}
		}
		if evs == nil {
			skipped++
			continue
		}
		ok++
		for _, e := range evs {
			_ = enc.Encode(e)
		}
	}
	_ = enc.Encode(map[string]any{"ev": "summary", "rounds": ok, "skipped_tainted": skipped, "gomaxprocs": runtime.GOMAXPROCS(0)})
}
