//go:build verif

// Replay of CesiumStore.tla behaviours into a real cesium.DB (C01, C04; DESIGN.md).
// Injected with `go test -overlay`; never part of /repo.
package cesium

import (
	"bufio"
	"bytes"
	"context"
	"encoding/json"
	"fmt"
	"os"
	"runtime"
	"sort"
	"strconv"
	"strings"
	"sync"
	"sync/atomic"
	"testing"
	"time"

	"github.com/synnaxlabs/cesium/internal/unary"
	xfs "github.com/synnaxlabs/x/io/fs"
	"github.com/synnaxlabs/x/telem"
)

// ---------------------------------------------------------------- history format

type vsStep struct {
	A    string          `json:"a"`
	Args json.RawMessage `json:"args"`
	Res  string          `json:"res"`
	St   struct {
		Cm map[string]map[string]int `json:"cm"`
		Dm map[string][][2]int       `json:"dm"`
		Un map[string][]int          `json:"un"`
	} `json:"st"`
}

type vsOpenArgs struct {
	W     string   `json:"w"`
	Chans []string `json:"chans"`
	Start int      `json:"start"`
	Auto  bool     `json:"auto"`
}
type vsWriteArgs struct {
	W        string `json:"w"`
	Times    []int  `json:"times"`
	ID       int    `json:"id"`
	DataOnly bool   `json:"dataonly"`
}
type vsWArgs struct {
	W string `json:"w"`
}
type vsDeleteArgs struct {
	Chans []string `json:"chans"`
	A     int      `json:"a"`
	B     int      `json:"b"`
	Must  bool     `json:"must"`
}

// ---------------------------------------------------------------- concretisation

// vsConc chooses everything the abstract behaviour leaves open.
type vsConc struct {
	TSMap    int   `json:"tsmap"`    // 0: 1 s spacing, 1: 7 ns spacing, 2: irregular
	DType    int   `json:"dtype"`    // 0: int64, 1: float32, 2: uint8, 3: float64
	VType    int   `json:"vtype"`    // 0: string, 1: json, 2: bytes
	FileCap  int64 `json:"filecap"`  // 0: default 1 GB; else bytes
	Persist  int   `json:"persist"`  // 0: always persist index on auto commit, 1: default lazy (1 s), 2: 5 ms interval
	GCThresh int   `json:"gcthresh"` // 0: tiny (always collect), 1: default
	Iter     int   `json:"iter"`     // 0: DB.Read, 1: explicit iterator, fixed spans, 2: auto span
	NoEmpty  bool  `json:"noempty"`  // never use zero-length variable samples (crash oracle needs identities)
}

func vsConcFromSeed(seed int64, i int) vsConc {
	x := uint64(seed)*0x9E3779B97F4A7C15 + uint64(i)*0xBF58476D1CE4E5B9
	x ^= x >> 31
	n := func(k uint64) int { x = x*6364136223846793005 + 1442695040888963407; return int((x >> 33) % k) }
	caps := []int64{0, 64, 40, 17, 200}
	return vsConc{TSMap: n(3), DType: n(4), VType: n(3), FileCap: caps[n(5)], Persist: n(3), GCThresh: n(2), Iter: 0}
}

// ts maps abstract time (even = sample slots, odd = points between) to timestamps.
func (c vsConc) ts(x int) telem.TimeStamp {
	base := telem.TimeStamp(1_000_000_000_000_000)
	k := x / 2
	var even telem.TimeStamp
	var gapNext telem.TimeStamp
	switch c.TSMap {
	case 0:
		even = base + telem.TimeStamp(k)*telem.TimeStamp(telem.Second)
		gapNext = telem.TimeStamp(telem.Second)
	case 1:
		even = base + telem.TimeStamp(k)*7
		gapNext = 7
	default:
		// irregular: gaps 2ns, 3h, 5ns, 1s, 11ns, ... (every gap >= 2 ns)
		gaps := []telem.TimeStamp{2, telem.TimeStamp(3 * telem.Hour), 5, telem.TimeStamp(telem.Second), 11, 2, telem.TimeStamp(telem.Minute), 3}
		even = base
		for i := 0; i < k; i++ {
			even += gaps[i%len(gaps)]
		}
		gapNext = gaps[k%len(gaps)]
	}
	if x%2 == 0 {
		return even
	}
	// odd point: strictly after ts(2k), strictly before ts(2k+2); alternate between the
	// earliest legal point (ts+1) and the midpoint.
	if k%2 == 0 || gapNext <= 2 {
		return even + 1
	}
	return even + gapNext/2
}

var vsDebug = os.Getenv("VERIF_DEBUG") == "1"

// abs renders a timestamp in abstract time (e.g. "4", "4+1ns", "4+") for debugging.
func (c vsConc) abs(ts telem.TimeStamp) string {
	for x := 0; x < 40; x++ {
		if c.ts(x) == ts {
			return strconv.Itoa(x)
		}
		if x%2 == 0 && c.ts(x)+1 == ts {
			return strconv.Itoa(x) + "+1ns"
		}
	}
	return strconv.FormatInt(int64(ts), 10)
}

const (
	vsKeyI ChannelKey = 1
	vsKeyD ChannelKey = 2
	vsKeyV ChannelKey = 3
)

var vsKeys = map[string]ChannelKey{"I": vsKeyI, "D": vsKeyD, "V": vsKeyV}

func (c vsConc) dType() telem.DataType {
	return []telem.DataType{telem.Int64T, telem.Float32T, telem.Uint8T, telem.Float64T}[c.DType]
}
func (c vsConc) vType() telem.DataType {
	return []telem.DataType{telem.StringT, telem.JSONT, telem.BytesT}[c.VType]
}

// value identities: (channel, abstract time, write id) -> distinguishable bytes.
func (c vsConc) dVal(t, id int) []byte {
	switch c.DType {
	case 0:
		return telem.NewSeriesV[int64](int64(id*1000 + t)).Data
	case 1:
		return telem.NewSeriesV[float32](float32(id*1000+t) + 0.5).Data
	case 2:
		return telem.NewSeriesV[uint8](uint8((id*16 + t) % 256)).Data
	}
	return telem.NewSeriesV[float64](float64(id*1000+t) + 0.25).Data
}
func (c vsConc) vVal(t, id int) []byte {
	pad := strings.Repeat("x", (t+id)%4) // samples of different lengths
	switch c.VType {
	case 1:
		return []byte(fmt.Sprintf(`{"i":%d,"t":%d,"p":"%s"}`, id, t, pad))
	}
	// string / bytes channels also carry EMPTY samples (zero-length records): every
	// sample whose (t/2 + id) is a multiple of 3.
	if !c.NoEmpty && (t/2+id)%3 == 0 {
		return []byte{}
	}
	return []byte(fmt.Sprintf("v%d_%d%s", id, t, pad))
}

func vsCat(parts [][]byte, variable bool) []byte {
	var b bytes.Buffer
	for _, p := range parts {
		if variable {
			b.Write(telem.MarshalVariableSample(p))
		} else {
			b.Write(p)
		}
	}
	return b.Bytes()
}

// ---------------------------------------------------------------- the runner

type vsRunner struct {
	c       vsConc
	fs      xfs.FS
	db      *DB
	writers map[string]*Writer
	wchans  map[string][]string
	maxT    int
	stats   *vsStats
	prev    *vsStep
	tainted string // non-empty once a delete hit the known inexact-domain-start shape
}

type vsStats struct {
	reads, steps, gcShrunk, rollovers, conflicts, refused, dataonly, reopen, deletes, endErrs, tainted, pointers, domainsMerged atomic.Int64
}

func (r *vsRunner) open() error {
	opts := []Option{WithFS(r.fs)}
	if r.c.FileCap != 0 {
		opts = append(opts, WithFileSizeCap(telem.Size(r.c.FileCap)))
	}
	if r.c.GCThresh == 0 {
		opts = append(opts, WithGCConfig(GCConfig{Threshold: 1e-9, TryInterval: time.Hour}))
	} else {
		opts = append(opts, WithGCConfig(GCConfig{TryInterval: time.Hour}))
	}
	db, err := Open(context.Background(), "", opts...)
	if err != nil {
		return err
	}
	r.db = db
	return nil
}

func (r *vsRunner) setup() error {
	r.fs = xfs.NewMem()
	if err := r.open(); err != nil {
		return err
	}
	ctx := context.Background()
	if err := r.db.CreateChannel(ctx,
		Channel{Key: vsKeyI, Name: "I", DataType: telem.TimeStampT, IsIndex: true},
	); err != nil {
		return err
	}
	return r.db.CreateChannel(ctx,
		Channel{Key: vsKeyD, Name: "D", DataType: r.c.dType(), Index: vsKeyI},
		Channel{Key: vsKeyV, Name: "V", DataType: r.c.vType(), Index: vsKeyI},
	)
}

func vsErrClass(err error) string {
	if err == nil {
		return "ok"
	}
	if strings.Contains(err.Error(), "overlaps with existing data") {
		// a commit refused because its range runs into another domain (and the same error
		// repeated by later calls on the failed writer)
		return "conflict"
	}
	return "err:" + err.Error()
}

// exec applies one step; returns the outcome class as the spec names it.
func (r *vsRunner) exec(st vsStep) (string, error) {
	ctx := context.Background()
	switch st.A {
	case "open":
		var a vsOpenArgs
		_ = json.Unmarshal(st.Args, &a)
		keys := make([]ChannelKey, 0, len(a.Chans))
		for _, c := range a.Chans {
			keys = append(keys, vsKeys[c])
		}
		cfg := WriterConfig{
			Channels:         keys,
			Start:            r.c.ts(a.Start),
			EnableAutoCommit: &a.Auto,
			Sync:             new(true),
		}
		if r.c.Persist == 0 {
			cfg.AutoIndexPersistInterval = AlwaysIndexPersistOnAutoCommit
		} else if r.c.Persist == 2 {
			// some auto-commits persist the index, some do not, depending on wall-clock
			cfg.AutoIndexPersistInterval = 5 * telem.Millisecond
		}
		w, err := r.db.OpenWriter(ctx, cfg)
		if err != nil {
			if strings.Contains(err.Error(), "overlap") || strings.Contains(err.Error(), "conflict") {
				r.stats.conflicts.Add(1)
				return "conflict", nil
			}
			return vsErrClass(err), nil
		}
		r.writers[a.W] = w
		r.wchans[a.W] = a.Chans
		return "ok", nil
	case "write":
		var a vsWriteArgs
		_ = json.Unmarshal(st.Args, &a)
		w := r.writers[a.W]
		var keys []ChannelKey
		var series []telem.Series
		for _, c := range r.wchans[a.W] {
			var s telem.Series
			switch c {
			case "I":
				stamps := make([]telem.TimeStamp, len(a.Times))
				for i, t := range a.Times {
					stamps[i] = r.c.ts(t)
				}
				s = telem.NewSeries(stamps)
			case "D":
				parts := make([][]byte, len(a.Times))
				for i, t := range a.Times {
					parts[i] = r.c.dVal(t, a.ID)
				}
				s = telem.Series{DataType: r.c.dType(), Data: vsCat(parts, false)}
			case "V":
				parts := make([][]byte, len(a.Times))
				for i, t := range a.Times {
					parts[i] = r.c.vVal(t, a.ID)
				}
				s = telem.Series{DataType: r.c.vType(), Data: vsCat(parts, true)}
			}
			keys = append(keys, vsKeys[c])
			series = append(series, s)
		}
		if a.DataOnly {
			r.stats.dataonly.Add(1)
		}
		auth, err := w.Write(telem.MultiFrame(keys, series))
		if err != nil {
			return vsErrClass(err), nil
		}
		if !auth {
			return "unauthorized", nil
		}
		return "ok", nil
	case "commit":
		var a vsWArgs
		_ = json.Unmarshal(st.Args, &a)
		_, err := r.writers[a.W].Commit()
		return vsErrClass(err), nil
	case "close":
		var a vsWArgs
		_ = json.Unmarshal(st.Args, &a)
		err := r.writers[a.W].Close()
		delete(r.writers, a.W)
		delete(r.wchans, a.W)
		return vsErrClass(err), nil
	case "reopen":
		r.stats.reopen.Add(1)
		if err := r.db.Close(); err != nil {
			return vsErrClass(err), nil
		}
		if err := r.open(); err != nil {
			return vsErrClass(err), nil
		}
		return "ok", nil
	case "gc":
		before := r.db.Metrics().DiskSize
		sz0 := vsDirSize(r.fs)
		err := r.db.garbageCollect(ctx, 4)
		if vsDirSize(r.fs) < sz0 {
			r.stats.gcShrunk.Add(1)
		}
		_ = before
		return vsErrClass(err), nil
	case "delete":
		var a vsDeleteArgs
		_ = json.Unmarshal(st.Args, &a)
		keys := make([]ChannelKey, 0, len(a.Chans))
		for _, c := range a.Chans {
			keys = append(keys, vsKeys[c])
		}
		r.stats.deletes.Add(1)
		if r.tainted == "" && r.cutsInexactDomain(r.prev, a) {
			r.tainted = "delete bound inside a domain whose start is not on an index sample"
			r.stats.tainted.Add(1)
		}
		err := r.db.DeleteTimeRange(ctx, keys, telem.TimeRange{Start: r.c.ts(a.A), End: r.c.ts(a.B)})
		if err != nil {
			if strings.Contains(err.Error(), "depending on it") {
				r.stats.refused.Add(1)
				return "refused", nil
			}
			return vsErrClass(err), nil
		}
		return "ok", nil
	}
	return "", fmt.Errorf("unknown action %q", st.A)
}

// vsPointers decodes the persisted domain index of a channel (26-byte records:
// start, end, file key, offset, size) straight from the file system image.
func (r *vsRunner) vsPointers(key ChannelKey) [][2]telem.TimeStamp {
	sub, err := r.fs.Sub(strconv.Itoa(int(key)))
	if err != nil {
		return nil
	}
	f, err := sub.Open("index.domain", os.O_RDONLY)
	if err != nil {
		return nil
	}
	defer func() { _ = f.Close() }()
	st, err := f.Stat()
	if err != nil {
		return nil
	}
	b := make([]byte, st.Size())
	if _, err := f.ReadAt(b, 0); err != nil && len(b) > 0 && err.Error() != "EOF" {
		return nil
	}
	var out [][2]telem.TimeStamp
	for i := 0; i+26 <= len(b); i += 26 {
		out = append(out, [2]telem.TimeStamp{
			telem.TimeStamp(telem.ByteOrder.Uint64(b[i : i+8])),
			telem.TimeStamp(telem.ByteOrder.Uint64(b[i+8 : i+16])),
		})
	}
	return out
}

// cutsInexactDomain reports whether a bound of the delete falls - in one of the ways that
// trigger the known defect - inside a stored domain (of a named channel) whose start is
// not the timestamp of an index sample. File
// rollover continues a domain at lastTimestamp+1ns, and a writer may start before its
// first sample; both create such domains. Used only to attribute mismatches to the
// known finding about deletes in those domains.
func (r *vsRunner) cutsInexactDomain(prev *vsStep, a vsDeleteArgs) bool {
	idx := map[telem.TimeStamp]bool{}
	if prev != nil {
		for k, id := range prev.St.Cm["I"] {
			if id != 0 {
				t, _ := strconv.Atoi(k)
				idx[r.c.ts(t)] = true
			}
		}
	}
	lo, hi := r.c.ts(a.A), r.c.ts(a.B)
	for _, c := range a.Chans {
		for _, p := range r.vsPointers(vsKeys[c]) {
			if idx[p[0]] {
				continue
			}
			if c == "I" {
				// the index channel's own inexact-start domains: any bound inside
				if (p[0] <= lo && lo < p[1]) || (p[0] <= hi && hi < p[1]) {
					return true
				}
				continue
			}
			// data channels: measured on the unchanged tree (every delete range over rollover
			// and early-start layouts), the defect shows when the END bound lies in such a
			// domain at a point that is not an index sample, or the START bound lies in it
			// exactly on an index sample; the other combinations are handled correctly and
			// stay verdict-bearing
			if p[0] <= hi && hi < p[1] && !idx[hi] {
				return true
			}
			if p[0] <= lo && lo < p[1] && idx[lo] {
				return true
			}
		}
	}
	return false
}

func vsDirSize(fs xfs.FS) int64 {
	var total int64
	entries, err := fs.List("")
	if err != nil {
		return 0
	}
	for _, e := range entries {
		if !e.IsDir() {
			total += e.Size()
			continue
		}
		sub, err := fs.Sub(e.Name())
		if err != nil {
			continue
		}
		files, _ := sub.List("")
		for _, f := range files {
			total += f.Size()
		}
	}
	return total
}

// expected returns the spec's Read(c, a, b) as the concrete sample bytes, in order.
func (r *vsRunner) expected(st vsStep, ch string, a, b telem.TimeStamp) [][]byte {
	cm := st.St.Cm[ch]
	times := make([]int, 0, len(cm))
	for k, id := range cm {
		if id == 0 {
			continue
		}
		t, _ := strconv.Atoi(k)
		times = append(times, t)
	}
	sort.Ints(times)
	var out [][]byte
	for _, t := range times {
		ts := r.c.ts(t)
		if ts < a || ts >= b {
			continue
		}
		id := cm[strconv.Itoa(t)]
		switch ch {
		case "I":
			out = append(out, telem.NewSeriesV[telem.TimeStamp](ts).Data)
		case "D":
			out = append(out, r.c.dVal(t, id))
		case "V":
			out = append(out, r.c.vVal(t, id))
		}
	}
	return out
}

// actual reads channel ch over [a,b) from the real database, under a watchdog: a read
// that does not return within 30 s is reported as a hang (the goroutine is leaked).
func (r *vsRunner) actual(ch string, tr telem.TimeRange) ([][]byte, error) {
	type res struct {
		v   [][]byte
		err error
	}
	c := make(chan res, 1)
	go func() {
		defer func() {
			if p := recover(); p != nil {
				c <- res{nil, fmt.Errorf("PANIC: %v", p)}
			}
		}()
		v, err := r.actual0(ch, tr)
		c <- res{v, err}
	}()
	select {
	case x := <-c:
		return x.v, x.err
	case <-time.After(30 * time.Second):
		return nil, fmt.Errorf("HANG: read did not return within 30s")
	}
}

func (r *vsRunner) actual0(ch string, tr telem.TimeRange) ([][]byte, error) {
	key := vsKeys[ch]
	var fr Frame
	var err error
	if r.c.Iter == 0 {
		fr, err = r.db.Read(context.Background(), tr, key)
		if err != nil {
			return nil, err
		}
	} else if vsDebug && r.c.Iter == 1 {
		r.db.mu.RLock()
		u := r.db.mu.dbs.unary[key]
		r.db.mu.RUnlock()
		it, err := u.OpenIterator(unary.IteratorConfig{Bounds: tr})
		if err != nil {
			return nil, err
		}
		ctx := context.Background()
		span := telem.TimeSpan(int64(tr.End-tr.Start)/4 + 1)
		ok := it.SeekFirst(ctx)
		fmt.Printf("      unary bounds=[%d,%d) span=%d seekfirst=%v view=[%d,%d)\n", tr.Start, tr.End, span, ok, it.View().Start, it.View().End)
		if ok {
			for step := 0; step < 6; step++ {
				v := it.Next(ctx, span)
				fmt.Printf("      unary next step %d ok=%v view=[%d,%d) len=%d err=%v\n", step, v, it.View().Start, it.View().End, it.Len(), it.Error())
				if v {
					fr = fr.Extend(it.Value())
				}
			}
		}
		_ = it.Close()
	} else if vsDebug {
		// debug: drive the unary iterator directly so that a panic inside it surfaces
		r.db.mu.RLock()
		u := r.db.mu.dbs.unary[key]
		r.db.mu.RUnlock()
		it, err := u.OpenIterator(unary.IteratorConfig{Bounds: tr, AutoChunkSize: 2})
		if err != nil {
			return nil, err
		}
		ctx := context.Background()
		if it.SeekFirst(ctx) {
			n := 0
			for it.Next(ctx, unary.AutoSpan) {
				fmt.Printf("      unary autospan step %d view=[%d,%d) len=%d\n", n, it.View().Start, it.View().End, it.Len())
				fr = fr.Extend(it.Value())
				n++
				if n > 50 {
					return nil, fmt.Errorf("NONTERMINATION")
				}
			}
		}
		_ = it.Close()
	} else if r.c.Iter == 1 {
		// explicit iterator, fixed span roughly a third of the populated range
		it, err := r.db.OpenIterator(IteratorConfig{Channels: []ChannelKey{key}, Bounds: tr})
		if err != nil {
			return nil, err
		}
		// A span-based Next reports false for a view without samples as well as at the
		// end of the bounds, so the traversal takes a fixed number of steps that is
		// certain to cover the bounds: ceil(|bounds| / span) + 1.
		span := telem.TimeSpan(int64(tr.End-tr.Start)/4 + 1)
		if it.SeekFirst() {
			for step := 0; step < 6; step++ {
				if it.Next(span) {
					fr = fr.Extend(it.Value())
				}
			}
		}
		if it.Error() != nil {
			r.stats.endErrs.Add(1)
		}
		if err := it.Close(); err != nil {
			return nil, err
		}
	} else {
		it, err := r.db.OpenIterator(IteratorConfig{Channels: []ChannelKey{key}, Bounds: tr, AutoChunkSize: 2})
		if err != nil {
			return nil, err
		}
		if it.SeekFirst() {
			steps := 0
			for it.Next(AutoSpan) {
				fr = fr.Extend(it.Value())
				if vsDebug {
					for k, s := range it.Value().Entries() {
						fmt.Printf("      autospan step %d: ch %d n=%d tr=[%d,%d) align=%v\n", steps, k, s.Len(), s.TimeRange.Start, s.TimeRange.End, s.Alignment)
					}
				}
				steps++
				if steps > 10000 {
					_ = it.Close()
					return nil, fmt.Errorf("NONTERMINATION: Next(AutoSpan) still true after %d steps", steps)
				}
			}
		}
		// An error left behind by the Next() that ran off the end of the data is not
		// verdict-bearing (C10 does not speak about it); the samples decide.
		if it.Error() != nil {
			r.stats.endErrs.Add(1)
		}
		if err := it.Close(); err != nil {
			return nil, err
		}
	}
	var out [][]byte
	for k, s := range fr.Entries() {
		if k != key {
			return nil, fmt.Errorf("read of channel %d returned series for channel %d", key, k)
		}
		for smp := range s.Samples() {
			out = append(out, append([]byte(nil), smp...))
		}
	}
	return out, nil
}

func vsEqual(a, b [][]byte) bool {
	if len(a) != len(b) {
		return false
	}
	for i := range a {
		if !bytes.Equal(a[i], b[i]) {
			return false
		}
	}
	return true
}

func vsShow(x [][]byte, ch string) string {
	parts := make([]string, len(x))
	for i, b := range x {
		if ch == "V" {
			parts[i] = strconv.Quote(string(b))
		} else {
			parts[i] = fmt.Sprintf("%x", b)
		}
	}
	return "[" + strings.Join(parts, ",") + "]"
}

// points are the read-range ends: every abstract time, plus one point before all and
// one after all stored data.
func (r *vsRunner) points() []telem.TimeStamp {
	pts := []telem.TimeStamp{r.c.ts(0) - telem.TimeStamp(telem.Hour)}
	for x := 0; x <= r.maxT; x++ {
		pts = append(pts, r.c.ts(x))
	}
	pts = append(pts, r.c.ts(r.maxT)+telem.TimeStamp(telem.Hour), telem.TimeStampMax)
	return pts
}

type vsMismatch struct {
	Kind string `json:"kind"` // read | outcome | harderr
	Step int    `json:"step"`
	Exp  string `json:"exp"`
	Act  string `json:"act"`
	Note string `json:"note,omitempty"`
}

// compareReads checks every channel over every half-open range of points.
func (r *vsRunner) compareReads(i int, st vsStep, full bool) *vsMismatch {
	pts := r.points()
	for _, ch := range []string{"I", "D", "V"} {
		for ai := 0; ai < len(pts); ai++ {
			for bi := ai; bi < len(pts); bi++ {
				if !full && !(ai == 0 && bi == len(pts)-1) && (ai+bi+i)%3 != 0 {
					continue
				}
				tr := telem.TimeRange{Start: pts[ai], End: pts[bi]}
				exp := r.expected(st, ch, tr.Start, tr.End)
				act, err := r.actual(ch, tr)
				r.stats.reads.Add(1)
				if err != nil {
					return &vsMismatch{Kind: "read", Step: i, Exp: vsShow(exp, ch), Act: "error: " + err.Error(),
						Note: fmt.Sprintf("channel %s range [%d,%d) idx(%d,%d)", ch, tr.Start, tr.End, ai, bi)}
				}
				if !vsEqual(exp, act) {
					return &vsMismatch{Kind: "read", Step: i, Exp: vsShow(exp, ch), Act: vsShow(act, ch),
						Note: fmt.Sprintf("channel %s range [%d,%d) idx(%d,%d)", ch, tr.Start, tr.End, ai, bi)}
				}
			}
		}
	}
	return nil
}

// domainsDrift compares point coverage of the real domain index (HasDataFor over one
// nanosecond at each abstract time) with the spec's `domains`. Drift level only.
func (r *vsRunner) domainsDrift(st vsStep) string {
	if len(r.writers) != 0 {
		return ""
	}
	r.db.mu.RLock()
	defer r.db.mu.RUnlock()
	for ch, key := range vsKeys {
		u := r.db.mu.dbs.unary[key]
		for x := 0; x <= r.maxT; x++ {
			skip := false
			for _, y := range st.St.Un[ch] {
				if y == x {
					skip = true
				}
			}
			if skip {
				continue
			}
			ts := r.c.ts(x)
			real, err := u.HasDataFor(context.Background(), telem.TimeRange{Start: ts, End: ts + 1})
			if err != nil {
				return "hasdatafor: " + err.Error()
			}
			spec := false
			for _, d := range st.St.Dm[ch] {
				if d[0] <= x && x < d[1] {
					spec = true
				}
			}
			if real != spec {
				return fmt.Sprintf("channel %s abstract time %d: real covered=%v spec covered=%v", ch, x, real, spec)
			}
		}
	}
	return ""
}

type vsResult struct {
	Tainted string    `json:"tainted,omitempty"`
	I     int         `json:"i"`
	R     string      `json:"r"` // ok | mismatch | diverged | inconclusive
	Conc  vsConc      `json:"conc"`
	M     *vsMismatch `json:"m,omitempty"`
	Drift string      `json:"drift,omitempty"`
}

func vsReplay(idx int, hist []vsStep, c vsConc, maxT int, full, tail bool, stats *vsStats) (res vsResult) {
	res = vsResult{I: idx, R: "ok", Conc: c}
	r := &vsRunner{c: c, writers: map[string]*Writer{}, wchans: map[string][]string{}, maxT: maxT, stats: stats}
	defer func() {
		if p := recover(); p != nil {
			res.R = "mismatch"
			res.M = &vsMismatch{Kind: "panic", Step: -1, Exp: "no panic", Act: fmt.Sprint(p)}
		}
		for _, w := range r.writers {
			_ = w.Close()
		}
		if r.db != nil {
			_ = r.db.Close()
		}
	}()
	if err := r.setup(); err != nil {
		res.R = "inconclusive"
		res.M = &vsMismatch{Kind: "setup", Act: err.Error()}
		return
	}
	defer func() { res.Tainted = r.tainted }()
	for i, st := range hist {
		stats.steps.Add(1)
		if i > 0 {
			r.prev = &hist[i-1]
		}
		out, err := r.exec(st)
		if err != nil {
			res.R = "inconclusive"
			res.M = &vsMismatch{Kind: "harness", Step: i, Act: err.Error()}
			return
		}
		if vsDebug {
			fmt.Printf("  step %d %s %s -> %s (spec %s)\n", i, st.A, string(st.Args), out, st.Res)
			for _, ch := range []string{"I", "D", "V"} {
				var ps []string
				for _, p := range r.vsPointers(vsKeys[ch]) {
					ps = append(ps, fmt.Sprintf("[%s,%s)", r.c.abs(p[0]), r.c.abs(p[1])))
				}
				fmt.Printf("      %s real=%v spec=%v\n", ch, ps, st.St.Dm[ch])
			}
		}
		if out != st.Res {
			// Outcome classes are verdict-bearing only where a property states them; the
			// python driver decides (firm conflict / must-refuse). The script cannot continue.
			res.R = "diverged"
			res.M = &vsMismatch{Kind: "outcome", Step: i, Exp: st.Res, Act: out, Note: st.A + " " + string(st.Args)}
			return
		}
		if st.A == "gc" || st.A == "reopen" {
			// nothing may change: compare against the same expected state (St is unchanged)
		}
		// tail mode (bounded-exhaustive session histories, whose prefixes are shared by many
		// histories): every range on the last three steps, a third of the ranges before
		if m := r.compareReads(i, st, full && (!tail || i >= len(hist)-3)); m != nil {
			res.R = "mismatch"
			res.M = m
			return
		}
		if res.Drift == "" {
			if d := r.domainsDrift(st); d != "" {
				res.Drift = fmt.Sprintf("step %d (%s): %s", i, st.A, d)
			}
		}
	}
	return
}

func TestVerifStoreReplay(t *testing.T) {
	in, out := os.Getenv("VERIF_IN"), os.Getenv("VERIF_OUT")
	if in == "" || out == "" {
		t.Skip("VERIF_IN/VERIF_OUT not set")
	}
	seed, _ := strconv.ParseInt(os.Getenv("VERIF_SEED"), 10, 64)
	maxT, _ := strconv.Atoi(os.Getenv("VERIF_MAXT"))
	nconc, _ := strconv.Atoi(os.Getenv("VERIF_NCONC"))
	if nconc <= 0 {
		nconc = 1
	}
	full := os.Getenv("VERIF_FULLREADS") != "0"
	tail := os.Getenv("VERIF_FULLREADS") == "tail"
	var fixed *vsConc
	if s := os.Getenv("VERIF_CONC"); s != "" {
		fixed = &vsConc{}
		if err := json.Unmarshal([]byte(s), fixed); err != nil {
			t.Fatal(err)
		}
	}
	f, err := os.Open(in)
	if err != nil {
		t.Fatal(err)
	}
	defer f.Close()
	type job struct {
		i    int
		line []byte
	}
	jobs := make(chan job, 64)
	results := make(chan vsResult, 64)
	stats := &vsStats{}
	var wg sync.WaitGroup
	for w := 0; w < runtime.GOMAXPROCS(0); w++ {
		wg.Add(1)
		go func() {
			defer wg.Done()
			for j := range jobs {
				var hist []vsStep
				if err := json.Unmarshal(j.line, &hist); err != nil {
					results <- vsResult{I: j.i, R: "inconclusive", M: &vsMismatch{Kind: "json", Act: err.Error()}}
					continue
				}
				for k := 0; k < nconc; k++ {
					c := vsConcFromSeed(seed, j.i*7+k)
					if fixed != nil {
						c = *fixed
					}
					res := vsReplay(j.i, hist, c, maxT, full, tail, stats)
					results <- res
					if res.R != "ok" {
						break
					}
				}
			}
		}()
	}
	go func() {
		sc := bufio.NewScanner(f)
		sc.Buffer(make([]byte, 1<<20), 1<<26)
		i := 0
		for sc.Scan() {
			b := append([]byte(nil), sc.Bytes()...)
			if len(b) > 0 {
				jobs <- job{i: i, line: b}
				i++
			}
		}
		close(jobs)
		wg.Wait()
		close(results)
	}()
	var bad []vsResult
	n, drift := 0, 0
	var driftSample string
	for r := range results {
		n++
		if r.Drift != "" {
			drift++
			if driftSample == "" {
				driftSample = fmt.Sprintf("history %d conc %+v: %s", r.I, r.Conc, r.Drift)
			}
		}
		if r.R != "ok" {
			bad = append(bad, r)
		}
	}
	sort.Slice(bad, func(a, b int) bool { return bad[a].I < bad[b].I })
	of, err := os.Create(out)
	if err != nil {
		t.Fatal(err)
	}
	defer of.Close()
	enc := json.NewEncoder(of)
	_ = enc.Encode(map[string]any{"summary": true, "replays": n, "bad": len(bad), "drift": drift, "drift_sample": driftSample,
		"reads": stats.reads.Load(), "steps": stats.steps.Load(), "gc_shrunk": stats.gcShrunk.Load(),
		"conflicts": stats.conflicts.Load(), "refused": stats.refused.Load(), "dataonly_writes": stats.dataonly.Load(),
		"reopens": stats.reopen.Load(), "deletes": stats.deletes.Load(), "iter_end_errors": stats.endErrs.Load(), "tainted_histories": stats.tainted.Load()})
	for _, r := range bad {
		_ = enc.Encode(r)
	}
}
