//go:build verif

// Replay of DomainIndex.tla behaviours into a real domain.DB on an in-memory file
// system, and of TimeRange.tla test vectors into telem.TimeRange (C03, DESIGN.md).
// Injected with `go test -overlay`; never part of /repo.
//
// Verdict-bearing comparisons (kind "verdict") are exactly the clauses of C03:
//   - invariants evaluated on the REAL pointer list after every step: time-ordered,
//     pairwise non-overlapping (adjacent allowed), offset+size within the file;
//   - success / failure class of every OpenWriter and Commit against the specification;
//   - after a failed call: pointer list and bytes of all committed data unchanged;
//   - every committed domain is reachable and readable through DB.OpenIterator;
//   - a call that panics did not "fail cleanly".
//
// Everything else the specification pins (file keys, offsets, sizes, where rollover
// splits, Writer.End, Delete's result, content against the harness's own shadow) is
// compared at kind "drift".
package domain

import (
	"bufio"
	"bytes"
	"context"
	"encoding/json"
	"fmt"
	"math"
	"os"
	"runtime"
	"sort"
	"strconv"
	"sync"
	"sync/atomic"
	"testing"
	"time"

	"github.com/synnaxlabs/alamos"
	"github.com/synnaxlabs/x/errors"
	xfs "github.com/synnaxlabs/x/io/fs"
	"github.com/synnaxlabs/x/telem"
	"github.com/synnaxlabs/x/validate"
	"go.uber.org/zap"
)

type vPtr struct{ S, E, F, Off, Sz int }

type vW struct {
	St                              string
	Start, End, Prev, Len, File, Off int
	Preset                          bool
}

// vStep is one step of a DomainIndexGen history (compact JSON, see DomainIndexGen.tla).
type vStep struct {
	A    string  `json:"a"`
	W    int     `json:"w"`
	S    int     `json:"s"`
	E    int     `json:"e"`
	N    int     `json:"n"`
	So   int     `json:"so"`
	Eo   int     `json:"eo"`
	F    int     `json:"f"`
	F2   int     `json:"f2"`
	Ce   int     `json:"ce"`
	X    []int   `json:"x"`
	Res  string  `json:"r"`
	P    [][]int `json:"p"`
	WS   [][]int `json:"ws"`
	Fsz  []int   `json:"fz"`
	Sw   bool    `json:"-"`
	Noop bool    `json:"-"`
	Dev  bool    `json:"-"`
	Back bool    `json:"-"`
	Ptrs []vPtr  `json:"-"`
	Ws   []vW    `json:"-"`
}

func (s *vStep) decode() error {
	if len(s.X) != 4 {
		return fmt.Errorf("step flags: %v", s.X)
	}
	s.Sw, s.Noop, s.Dev, s.Back = s.X[0] == 1, s.X[1] == 1, s.X[2] == 1, s.X[3] == 1
	s.Ptrs = s.Ptrs[:0]
	for _, p := range s.P {
		if len(p) != 5 {
			return fmt.Errorf("pointer tuple: %v", p)
		}
		s.Ptrs = append(s.Ptrs, vPtr{p[0], p[1], p[2], p[3], p[4]})
	}
	s.Ws = s.Ws[:0]
	for _, w := range s.WS {
		if len(w) != 8 {
			return fmt.Errorf("writer tuple: %v", w)
		}
		st := "free"
		if w[0] == 1 {
			st = "open"
		}
		s.Ws = append(s.Ws, vW{St: st, Start: w[1], End: w[2], Preset: w[3] == 1, Prev: w[4], Len: w[5], File: w[6], Off: w[7]})
	}
	return nil
}

type vResult struct {
	I      int    `json:"i"`
	R      string `json:"r"` // ok | mismatch | finding | inconclusive
	Kind   string `json:"kind,omitempty"`
	Clause string `json:"clause,omitempty"`
	Step   int    `json:"step"`
	Exp    string `json:"exp,omitempty"`
	Act    string `json:"act,omitempty"`
	Note   string `json:"note,omitempty"`
}

type vCfg struct {
	unit, nominal, cap, T, tsmap int
	persist                      bool
	hang                         time.Duration
	ins                          alamos.Instrumentation
}

type vCounters struct {
	Steps, OpenOK, OpenConflict, CommitOK, CommitNoop, CommitConflict, CommitValidation,
	CommitError, Rollovers, Adjacent, Updates, Wd, WdConflict, Deletes, DeleteChanged, Dev,
	DevFixed, MaxPtrs, FailedOpsChecked, BytesCompared int
}

func (c *vCounters) add(o *vCounters) {
	c.Steps += o.Steps
	c.OpenOK += o.OpenOK
	c.OpenConflict += o.OpenConflict
	c.CommitOK += o.CommitOK
	c.CommitNoop += o.CommitNoop
	c.CommitConflict += o.CommitConflict
	c.CommitValidation += o.CommitValidation
	c.CommitError += o.CommitError
	c.Rollovers += o.Rollovers
	c.Adjacent += o.Adjacent
	c.Updates += o.Updates
	c.Wd += o.Wd
	c.WdConflict += o.WdConflict
	c.Deletes += o.Deletes
	c.DeleteChanged += o.DeleteChanged
	c.Dev += o.Dev
	c.DevFixed += o.DevFixed
	c.FailedOpsChecked += o.FailedOpsChecked
	c.BytesCompared += o.BytesCompared
	if o.MaxPtrs > c.MaxPtrs {
		c.MaxPtrs = o.MaxPtrs
	}
}

// ---- tick <-> timestamp maps (strictly monotone; tick T+2 is TimeStampMax) ----

var vIrregular = []int64{1, 3 * 3600e9, 1, 5e9, 1, 2, 3 * 3600e9, 7, 1, 1e9, 1, 3, 11, 1, 2e9, 1}

func (c vCfg) ts(tick int) telem.TimeStamp {
	if tick >= c.T+2 {
		return telem.TimeStampMax
	}
	switch c.tsmap {
	case 1:
		return telem.TimeStamp(1000 + int64(tick)*7)
	case 2:
		v := int64(5)
		for i := 0; i < tick; i++ {
			v += vIrregular[i%len(vIrregular)]
		}
		return telem.TimeStamp(v)
	}
	return telem.TimeStamp(int64(tick)+1) * telem.SecondTS
}

func (c vCfg) tick(ts telem.TimeStamp) int {
	for t := 0; t <= c.T+2; t++ {
		if c.ts(t) == ts {
			return t
		}
	}
	return -1
}

func vErrClass(err error) string {
	switch {
	case err == nil:
		return "ok"
	case errors.Is(err, ErrWriteConflict):
		return "conflict"
	case errors.Is(err, validate.ErrValidation):
		return "validation"
	}
	return "error"
}

// ---- observation of the real DB ----

type vDom struct {
	p    pointer
	data []byte
}

func vPointers(db *DB) []pointer {
	db.idx.mu.RLock()
	defer db.idx.mu.RUnlock()
	return append([]pointer(nil), db.idx.mu.pointers...)
}

// vEnumerate walks the DB with the public iterator and reads every domain.
func vEnumerate(ctx context.Context, db *DB) (res []vDom, err error) {
	it := db.OpenIterator(IterRange(telem.TimeRangeMax))
	defer func() { err = errors.Combine(err, it.Close()) }()
	for ok := it.SeekFirst(ctx); ok; ok = it.Next() {
		r, err := it.OpenReader(ctx)
		if err != nil {
			return res, err
		}
		buf := make([]byte, r.Size())
		if len(buf) > 0 {
			if _, err = r.ReadAt(buf, 0); err != nil {
				return res, errors.Combine(err, r.Close())
			}
		}
		if err = r.Close(); err != nil {
			return res, err
		}
		res = append(res, vDom{p: pointer{TimeRange: it.TimeRange(), size: uint32(it.Size())}, data: buf})
		if len(res) > 64 {
			return res, errors.New("iterator does not terminate")
		}
	}
	return res, nil
}

func vFmtPtrs(c vCfg, ps []pointer) string {
	s := ""
	for _, p := range ps {
		s += fmt.Sprintf("[%d,%d f%d o%d n%d]", c.tick(p.Start), c.tick(p.End), p.fileKey, p.offset, p.size)
	}
	return s
}

// vInvariants evaluates the statement's first sentence on the real pointer list.
func vInvariants(c vCfg, db *DB, ps []pointer) (clause, detail string) {
	for i, p := range ps {
		if !p.Start.Before(p.End) {
			return "nonoverlap", fmt.Sprintf("pointer %d has an empty or inverted range: %s", i, vFmtPtrs(c, ps))
		}
		if i > 0 && !ps[i-1].Start.Before(p.Start) {
			return "sorted", "pointers not in time order: " + vFmtPtrs(c, ps)
		}
		for j := 0; j < i; j++ {
			q := ps[j]
			// half-open: q and p share a stamp iff max(starts) < min(ends)
			lo, hi := q.Start, q.End
			if p.Start > lo {
				lo = p.Start
			}
			if p.End < hi {
				hi = p.End
			}
			if lo < hi || q.OverlapsWith(p.TimeRange) {
				return "nonoverlap", fmt.Sprintf("pointers %d and %d overlap: %s", j, i, vFmtPtrs(c, ps))
			}
		}
		st, err := db.cfg.FS.Stat(fileKeyToName(p.fileKey))
		if err != nil {
			return "withinfile", fmt.Sprintf("pointer %d refers to file %d: %v", i, p.fileKey, err)
		}
		if int64(p.offset)+int64(p.size) > st.Size() {
			return "withinfile", fmt.Sprintf("pointer %d offset %d + size %d exceeds file %d size %d", i, p.offset, p.size, p.fileKey, st.Size())
		}
	}
	return "", ""
}

// vSteer restricts acquireWriter's choice among released, not-oversize file handles
// (it ranges over a Go map) to the file the specification chose, by marking the other
// released handles busy for the duration of one call. target 0: no restriction.
func vSteer(db *DB, target int) func() {
	if target == 0 {
		return func() {}
	}
	var held []controllerEntry
	db.fc.writers.RLock()
	for k, w := range db.fc.writers.open {
		if int(k) != target && w.controllerEntry.inUse.CompareAndSwap(false, true) {
			held = append(held, w.controllerEntry)
		}
	}
	db.fc.writers.RUnlock()
	return func() {
		for _, e := range held {
			e.inUse.Store(false)
		}
	}
}

type vSession struct {
	w   *Writer
	cur []byte // bytes written since the current file was acquired
}

type vMismatch struct {
	kind, clause string
	step         int
	exp, act     string
}

type vReplayer struct {
	c        vCfg
	ctx      context.Context
	db       *DB
	slots    map[int]*vSession
	seq      byte
	content  map[telem.TimeStamp][]byte // start -> expected bytes (harness shadow), nil after a delete
	cnt      vCounters
	findings []vResult
	drifted  bool
}

func (r *vReplayer) gen(nUnits int) []byte {
	b := make([]byte, nUnits*r.c.unit)
	for i := range b {
		r.seq++
		if r.seq == 0 {
			r.seq = 1
		}
		b[i] = r.seq
	}
	return b
}

func (r *vReplayer) wcfg(s, pe int) WriterConfig {
	cfg := WriterConfig{Start: r.c.ts(s)}
	if pe != 0 {
		cfg.End = r.c.ts(pe)
	}
	if r.c.persist {
		cfg.AutoIndexPersistInterval = AlwaysIndexPersistOnAutoCommit
	}
	return cfg
}

// call runs f, converting a panic of the code under test into a result.
func vCall(f func() error) (err error, panicked any) {
	defer func() {
		if p := recover(); p != nil {
			panicked = p
		}
	}()
	return f(), nil
}

func (r *vReplayer) step(i int, st vStep) *vMismatch {
	c := r.c
	r.cnt.Steps++
	before := vPointers(r.db)
	beforeDoms, err := vEnumerate(r.ctx, r.db)
	if err != nil {
		return &vMismatch{"verdict", "readable", i, "committed data readable before the call", err.Error()}
	}
	var (
		opErr    error
		panicked any
		judged   = true // class of this call is verdict-bearing
	)
	switch st.A {
	case "open":
		restore := vSteer(r.db, st.F)
		var w *Writer
		opErr, panicked = vCall(func() (e error) { w, e = r.db.OpenWriter(r.ctx, r.wcfg(st.S, st.E)); return })
		restore()
		if opErr == nil && panicked == nil {
			r.slots[st.W] = &vSession{w: w}
			r.cnt.OpenOK++
		} else {
			r.cnt.OpenConflict++
		}
	case "write":
		s := r.slots[st.W]
		if s == nil {
			return &vMismatch{"drift", "harness", i, "writer open", "no writer in slot"}
		}
		data := r.gen(st.N)
		opErr, panicked = vCall(func() error { _, e := s.w.Write(data); return e })
		s.cur = append(s.cur, data...)
	case "commit":
		s := r.slots[st.W]
		if s == nil {
			return &vMismatch{"drift", "harness", i, "writer open", "no writer in slot"}
		}
		start := s.w.Start
		if !s.w.prevCommit.IsZero() && !st.Noop && st.Res == "ok" {
			r.cnt.Updates++ // goes through index.update
		}
		restore := vSteer(r.db, st.F2)
		opErr, panicked = vCall(func() error { return s.w.Commit(r.ctx, c.ts(st.E)) })
		restore()
		if opErr == nil && panicked == nil && len(s.cur) > 0 && r.content != nil {
			r.content[start] = append([]byte(nil), s.cur...)
		}
		if opErr == nil && panicked == nil && s.w.prevCommit.IsZero() && len(s.cur) > 0 && s.w.Start != start {
			s.cur = nil // rolled over
		}
	case "close":
		s := r.slots[st.W]
		if s == nil {
			return &vMismatch{"drift", "harness", i, "writer open", "no writer in slot"}
		}
		opErr, panicked = vCall(func() error { return s.w.Close() })
		delete(r.slots, st.W)
	case "wd":
		// the body of domain.Write, call by call, so that both acquisitions can be steered
		r.cnt.Wd++
		restore := vSteer(r.db, st.F)
		var w *Writer
		opErr, panicked = vCall(func() (e error) { w, e = r.db.OpenWriter(r.ctx, r.wcfg(st.S, st.E)); return })
		restore()
		if opErr == nil && panicked == nil {
			data := r.gen(st.N)
			opErr, panicked = vCall(func() error {
				if _, e := w.Write(data); e != nil {
					return errors.Combine(e, w.Close())
				}
				restore := vSteer(r.db, st.F2)
				e := w.Commit(r.ctx, c.ts(st.E))
				restore()
				return errors.Combine(e, w.Close())
			})
			if opErr == nil && panicked == nil && r.content != nil {
				r.content[c.ts(st.S)] = data
			}
		} else {
			r.cnt.WdConflict++
		}
	case "delete":
		judged = false
		r.cnt.Deletes++
		r.content = nil
		so, eo := telem.Size(st.So*c.unit), telem.Size(st.Eo*c.unit)
		res := func(off telem.Size) OffsetResolver {
			return func(_ context.Context, ds, t telem.TimeStamp) (telem.Size, telem.TimeStamp, error) {
				if t.After(ds) {
					return off, t, nil
				}
				return 0, t, nil
			}
		}
		opErr, panicked = vCall(func() error {
			return r.db.Delete(r.ctx, telem.TimeRange{Start: c.ts(st.S), End: c.ts(st.E)}, res(so), res(eo))
		})
	default:
		return &vMismatch{"drift", "harness", i, "known action", st.A}
	}
	if panicked != nil {
		return &vMismatch{"verdict", "panic", i, "call returns (res=" + st.Res + ")", fmt.Sprintf("panic: %v", panicked)}
	}
	got := vErrClass(opErr)

	// ---- invariants on the real enumeration (every step) ----
	after := vPointers(r.db)
	if len(after) > r.cnt.MaxPtrs {
		r.cnt.MaxPtrs = len(after)
	}
	if cl, d := vInvariants(c, r.db, after); cl != "" {
		return &vMismatch{"verdict", cl, i, "sorted, pairwise non-overlapping pointers inside their files", d}
	}
	doms, err := vEnumerate(r.ctx, r.db)
	if err != nil {
		return &vMismatch{"verdict", "readable", i, "committed data readable", err.Error()}
	}
	if len(doms) != len(after) {
		return &vMismatch{"verdict", "readable", i, "iterator reaches every committed domain: " + vFmtPtrs(c, after),
			fmt.Sprintf("iterator yields %d of %d domains", len(doms), len(after))}
	}
	for k := range doms {
		if doms[k].p.TimeRange != after[k].TimeRange || doms[k].p.size != after[k].size || len(doms[k].data) != int(after[k].size) {
			return &vMismatch{"verdict", "readable", i, "iterator yields the index's domains: " + vFmtPtrs(c, after),
				fmt.Sprintf("domain %d: %v size %d (%d bytes read)", k, doms[k].p.TimeRange, doms[k].p.size, len(doms[k].data))}
		}
	}

	// a failed call leaves all committed data unchanged and readable
	unchanged := func() *vMismatch {
		r.cnt.FailedOpsChecked++
		if len(before) != len(after) {
			return &vMismatch{"verdict", "unchanged", i, "failed call leaves pointers " + vFmtPtrs(c, before), vFmtPtrs(c, after)}
		}
		for k := range before {
			if before[k] != after[k] {
				return &vMismatch{"verdict", "unchanged", i, "failed call leaves pointers " + vFmtPtrs(c, before), vFmtPtrs(c, after)}
			}
			r.cnt.BytesCompared += len(doms[k].data)
			if !bytes.Equal(beforeDoms[k].data, doms[k].data) {
				return &vMismatch{"verdict", "unchanged", i, fmt.Sprintf("failed call leaves bytes of domain %d = %v", k, beforeDoms[k].data), fmt.Sprint(doms[k].data)}
			}
		}
		return nil
	}
	if r.drifted {
		// the abstract state already differs from the specification's (reported as
		// drift): only the clauses that need no specification are still judged
		if got != "ok" {
			return unchanged()
		}
		return nil
	}

	// ---- class of the call ----
	if st.Dev {
		// named deviation Window_BackwardsAtRollover: the specification (= code as
		// written) accepts; the property asks for a validation error.
		r.cnt.Dev++
		if got == "ok" {
			r.findings = append(r.findings, vResult{R: "finding", Kind: "verdict", Clause: "backwards-at-rollover", Step: i,
				Exp: "commit that moves backwards fails with a validation error", Act: "accepted; domain shrunk"})
		} else if got == "validation" {
			r.cnt.DevFixed++
			return &vMismatch{"stop", "dev-fixed", i, "", ""}
		}
	}
	if got != st.Res {
		kind := "drift"
		if judged && ((got == "ok") != (st.Res == "ok") || st.Res == "conflict" || st.Res == "validation" && got != "conflict") {
			// ok-vs-failure, a missing write-conflict class, or a missing validation class
			kind = "verdict"
		}
		if st.A == "write" || st.A == "close" {
			kind = "drift"
		}
		return &vMismatch{kind, "class", i, st.A + " res=" + st.Res, fmt.Sprintf("res=%s (%v)", got, opErr)}
	}
	switch st.A {
	case "commit":
		switch {
		case got == "ok" && st.Noop:
			r.cnt.CommitNoop++
		case got == "ok":
			r.cnt.CommitOK++
			if st.Sw {
				r.cnt.Rollovers++
			}
		case got == "conflict":
			r.cnt.CommitConflict++
		case got == "validation":
			r.cnt.CommitValidation++
		default:
			r.cnt.CommitError++
		}
	}

	if got != "ok" {
		if m := unchanged(); m != nil {
			return m
		}
	}

	// ---- drift-level: exact abstract state ----
	if len(after) != len(st.Ptrs) {
		return &vMismatch{"drift", "ptrs", i, fmt.Sprint(st.Ptrs), vFmtPtrs(c, after)}
	}
	for k, p := range after {
		e := st.Ptrs[k]
		if c.tick(p.Start) != e.S || c.tick(p.End) != e.E || int(p.size) != e.Sz*c.unit {
			return &vMismatch{"drift", "ptrs", i, fmt.Sprint(st.Ptrs), vFmtPtrs(c, after)}
		}
	}
	for k, p := range after {
		e := st.Ptrs[k]
		if int(p.fileKey) != e.F || int(p.offset) != e.Off*c.unit {
			return &vMismatch{"drift", "layout", i, fmt.Sprint(st.Ptrs), vFmtPtrs(c, after)}
		}
		if k > 0 && after[k-1].End == p.Start {
			r.cnt.Adjacent++
		}
	}
	for k, fsz := range st.Fsz {
		s, err := r.db.cfg.FS.Stat(fileKeyToName(uint16(k + 1)))
		if err != nil || int(s.Size()) != fsz*c.unit {
			return &vMismatch{"drift", "files", i, fmt.Sprint(st.Fsz), fmt.Sprintf("file %d: %v %v", k+1, s, err)}
		}
	}
	for k, ew := range st.Ws {
		s := r.slots[k+1]
		if (ew.St == "open") != (s != nil) {
			return &vMismatch{"drift", "writers", i, fmt.Sprintf("slot %d %s", k+1, ew.St), fmt.Sprint(s != nil)}
		}
		if s == nil {
			continue
		}
		w := s.w
		prev := 0
		if !w.prevCommit.IsZero() {
			prev = c.tick(w.prevCommit)
		}
		if c.tick(w.Start) != ew.Start || prev != ew.Prev || int(w.internal.Len()) != ew.Len*c.unit ||
			int(w.fileKey) != ew.File || int(w.internal.Offset()) != ew.Off*c.unit || w.presetEnd != ew.Preset ||
			(ew.Preset && c.tick(w.End) != ew.End) {
			return &vMismatch{"drift", "writers", i, fmt.Sprintf("slot %d %+v", k+1, ew),
				fmt.Sprintf("start=%d prev=%d len=%d file=%d off=%d preset=%v end=%d", c.tick(w.Start), prev, w.internal.Len(), w.fileKey, w.internal.Offset(), w.presetEnd, c.tick(w.End))}
		}
	}
	if st.A == "open" && got == "ok" {
		if w := r.slots[st.W].w; c.tick(w.End) != st.Ce {
			return &vMismatch{"drift", "writer-end", i, fmt.Sprintf("w.End=%d", st.Ce), fmt.Sprintf("w.End=%d (%v)", c.tick(w.End), w.End)}
		}
	}
	if r.content != nil {
		for k, p := range after {
			if exp, ok := r.content[p.Start]; ok && !bytes.Equal(exp, doms[k].data) {
				return &vMismatch{"drift", "content", i, fmt.Sprintf("domain %d bytes %v", k, exp), fmt.Sprint(doms[k].data)}
			}
		}
	}
	if st.A == "delete" && len(before) != len(after) {
		r.cnt.DeleteChanged++
	}
	return nil
}

func vFileSizeFor(nominalBytes int) telem.Size {
	for x := 1; x < 1<<20; x++ {
		if int(math.Round(0.8*float64(x))) == nominalBytes {
			return telem.Size(x)
		}
	}
	return 0
}

// vReplayOne replays one history under a watchdog: a call of the code under test that
// never returns (deadlock, endless loop) is reported, not waited for.
func vReplayOne(c vCfg, hist []vStep) (vResult, vCounters, []vResult) {
	type out struct {
		res vResult
		cnt vCounters
		fnd []vResult
	}
	var (
		ch   = make(chan out, 1)
		prog atomic.Int64
	)
	go func() {
		res, cnt, fnd := vReplayOneInner(c, hist, &prog)
		ch <- out{res, cnt, fnd}
	}()
	select {
	case o := <-ch:
		return o.res, o.cnt, o.fnd
	case <-time.After(c.hang):
		i := int(prog.Load())
		a := "?"
		if i < len(hist) {
			a = hist[i].A
		}
		kind := "drift"
		if a == "open" || a == "commit" || a == "wd" {
			kind = "verdict" // the call did not fail cleanly: it did not return at all
		}
		return vResult{R: "mismatch", Kind: kind, Clause: "hang", Step: i, Exp: a + " returns",
			Act: fmt.Sprintf("no return within %v", c.hang)}, vCounters{}, nil
	}
}

func vReplayOneInner(c vCfg, hist []vStep, prog *atomic.Int64) (res vResult, cnt vCounters, findings []vResult) {
	ctx := context.Background()
	db, err := Open(Config{FS: xfs.NewMem(), FileSize: vFileSizeFor(c.nominal * c.unit), Instrumentation: c.ins})
	if err != nil {
		return vResult{R: "inconclusive", Note: "open: " + err.Error()}, cnt, nil
	}
	capUnits := (int(db.fc.realFileSizeCap()) + c.unit - 1) / c.unit
	if int(db.cfg.FileSize) != c.nominal*c.unit || capUnits != c.cap {
		return vResult{R: "inconclusive", Note: fmt.Sprintf("file size thresholds: nominal %v cap %v for unit %d", db.cfg.FileSize, db.fc.realFileSizeCap(), c.unit)}, cnt, nil
	}
	r := &vReplayer{c: c, ctx: ctx, db: db, slots: map[int]*vSession{}, content: map[telem.TimeStamp][]byte{}}
	res = vResult{R: "ok"}
	for i, st := range hist {
		prog.Store(int64(i))
		var m *vMismatch
		func() {
			defer func() {
				if p := recover(); p != nil {
					m = &vMismatch{"drift", "harness-panic", i, "", fmt.Sprint(p)}
				}
			}()
			m = r.step(i, st)
		}()
		if m != nil {
			if m.kind == "drift" && m.clause != "harness" && m.clause != "harness-panic" && !r.drifted {
				r.drifted = true
				res = vResult{R: "mismatch", Kind: m.kind, Clause: m.clause, Step: m.step, Exp: m.exp, Act: m.act}
				continue
			}
			if m.kind == "drift" && r.drifted {
				break // keep the first drift
			}
			if m.kind != "stop" {
				res = vResult{R: "mismatch", Kind: m.kind, Clause: m.clause, Step: m.step, Exp: m.exp, Act: m.act}
			}
			break
		}
	}
	if res.Clause == "panic" || res.Clause == "harness-panic" {
		// the code under test may have panicked while holding the index lock
		return res, r.cnt, r.findings
	}
	func() {
		defer func() { _ = recover() }()
		for _, s := range r.slots {
			_ = s.w.Close()
		}
		if res.R == "ok" {
			if err := db.Close(); err != nil {
				res = vResult{R: "mismatch", Kind: "drift", Clause: "close", Step: len(hist), Exp: "db closes", Act: err.Error()}
			}
		}
	}()
	return res, r.cnt, r.findings
}

func vEnvInt(name string, def int) int {
	v, err := strconv.Atoi(os.Getenv(name))
	if err != nil {
		return def
	}
	return v
}

func vLogger(t *testing.T) alamos.Instrumentation {
	zc := zap.NewDevelopmentConfig()
	zc.Level.SetLevel(zap.PanicLevel)
	l, err := alamos.NewLogger(alamos.LoggerConfig{ZapConfig: zc})
	if err != nil {
		t.Fatal(err)
	}
	return alamos.New("verif-c03", alamos.WithLogger(l))
}

func TestVerifDomainReplay(t *testing.T) {
	in, out := os.Getenv("VERIF_IN"), os.Getenv("VERIF_OUT")
	if in == "" || out == "" {
		t.Skip("VERIF_IN/VERIF_OUT not set")
	}
	base := vCfg{
		unit: vEnvInt("VERIF_UNIT", 4), nominal: vEnvInt("VERIF_NOMINAL", 2), cap: vEnvInt("VERIF_CAP", 3),
		T: vEnvInt("VERIF_T", 6), tsmap: vEnvInt("VERIF_TSMAP", 0), persist: os.Getenv("VERIF_PERSIST") == "1",
		ins: vLogger(t), hang: time.Duration(vEnvInt("VERIF_HANG_S", 60)) * time.Second,
	}
	// VERIF_VARY=1: concretisation (unit, timestamp map, persist) varies per history
	vary := os.Getenv("VERIF_VARY") == "1"
	seed := vEnvInt("VERIF_SEED", 1)
	f, err := os.Open(in)
	if err != nil {
		t.Fatal(err)
	}
	defer f.Close()
	type job struct {
		i    int
		line []byte
	}
	type done struct {
		res      vResult
		cnt      vCounters
		findings []vResult
	}
	jobs := make(chan job, 256)
	results := make(chan done, 256)
	var wg sync.WaitGroup
	nw := runtime.GOMAXPROCS(0)
	if v := vEnvInt("VERIF_WORKERS", 0); v > 0 {
		nw = v
	}
	for w := 0; w < nw; w++ {
		wg.Add(1)
		go func() {
			defer wg.Done()
			for j := range jobs {
				var hist []vStep
				err := json.Unmarshal(j.line, &hist)
				for k := range hist {
					if err == nil {
						err = hist[k].decode()
					}
				}
				if err != nil {
					results <- done{res: vResult{I: j.i, R: "inconclusive", Note: err.Error()}}
					continue
				}
				c := base
				if vary {
					k := j.i + seed
					c.unit = []int{4, 1, 3, 8}[k%4]
					c.tsmap = (k / 4) % 3
					c.persist = (k/12)%2 == 1
				}
				res, cnt, fnd := vReplayOne(c, hist)
				res.I = j.i
				for k := range fnd {
					fnd[k].I = j.i
				}
				if res.R != "ok" {
					res.Note = fmt.Sprintf("unit=%d tsmap=%d persist=%v", c.unit, c.tsmap, c.persist)
				}
				results <- done{res, cnt, fnd}
			}
		}()
	}
	go func() {
		sc := bufio.NewScanner(f)
		sc.Buffer(make([]byte, 1<<20), 1<<26)
		i := 0
		for sc.Scan() {
			b := append([]byte(nil), sc.Bytes()...)
			if len(b) == 0 {
				continue
			}
			jobs <- job{i: i, line: b}
			i++
		}
		close(jobs)
		wg.Wait()
		close(results)
	}()
	var (
		bad, fnd []vResult
		total    vCounters
		n        int
	)
	for d := range results {
		n++
		total.add(&d.cnt)
		if d.res.R != "ok" {
			bad = append(bad, d.res)
		}
		if len(fnd) < 50 {
			fnd = append(fnd, d.findings...)
		}
	}
	sort.Slice(bad, func(a, b int) bool { return bad[a].I < bad[b].I })
	sort.Slice(fnd, func(a, b int) bool { return fnd[a].I < fnd[b].I })
	of, err := os.Create(out)
	if err != nil {
		t.Fatal(err)
	}
	defer of.Close()
	enc := json.NewEncoder(of)
	_ = enc.Encode(map[string]any{"summary": true, "replayed": n, "bad": len(bad), "counters": total})
	for k, r := range bad {
		if k >= 200 {
			break
		}
		_ = enc.Encode(r)
	}
	for k, r := range fnd {
		if k >= 20 {
			break
		}
		_ = enc.Encode(r)
	}
}

// ---- TimeRange.tla vectors against telem.TimeRange ----

type vVec struct {
	As    int  `json:"as"`
	Ae    int  `json:"ae"`
	Bs    int  `json:"bs"`
	Be    int  `json:"be"`
	Ov    bool `json:"ov"`
	Cs    bool `json:"cs"`
	Ce    bool `json:"ce"`
	Cr    bool `json:"cr"`
	Bbs   int  `json:"bbs"`
	Bbe   int  `json:"bbe"`
	Mvs   int  `json:"mvs"`
	Mve   int  `json:"mve"`
	Isz   bool `json:"isz"`
	Ixs   int  `json:"ixs"`
	Ixe   int  `json:"ixe"`
	Valid bool `json:"valid"`
	Un    struct {
		S int `json:"s"`
		E int `json:"e"`
	} `json:"un"`
}

func TestVerifTimeRange(t *testing.T) {
	in, out := os.Getenv("VERIF_IN"), os.Getenv("VERIF_OUT")
	if in == "" || out == "" {
		t.Skip("VERIF_IN/VERIF_OUT not set")
	}
	f, err := os.Open(in)
	if err != nil {
		t.Fatal(err)
	}
	defer f.Close()
	of, err := os.Create(out)
	if err != nil {
		t.Fatal(err)
	}
	defer of.Close()
	enc := json.NewEncoder(of)
	sc := bufio.NewScanner(f)
	sc.Buffer(make([]byte, 1<<20), 1<<24)
	n, checks := 0, 0
	var bad []map[string]any
	for sc.Scan() {
		var v vVec
		if err := json.Unmarshal(sc.Bytes(), &v); err != nil {
			continue
		}
		n++
		for m := 0; m < 3; m++ {
			c := vCfg{T: 1 << 20, tsmap: m}
			a := telem.TimeRange{Start: c.ts(v.As), End: c.ts(v.Ae)}
			b := telem.TimeRange{Start: c.ts(v.Bs), End: c.ts(v.Be)}
			rep := func(fn string, exp, act any) {
				if len(bad) < 100 {
					bad = append(bad, map[string]any{"r": "mismatch", "fn": fn, "valid": v.Valid, "map": m,
						"a": []int{v.As, v.Ae}, "b": []int{v.Bs, v.Be}, "exp": fmt.Sprint(exp), "act": fmt.Sprint(act)})
				}
			}
			checks += 8
			if got := a.OverlapsWith(b); got != v.Ov {
				rep("OverlapsWith", v.Ov, got)
			}
			if got := a.ContainsStamp(b.Start); got != v.Cs {
				rep("ContainsStamp", v.Cs, got)
			}
			if got := a.ContainsStamp(b.End); got != v.Ce {
				rep("ContainsStamp", v.Ce, got)
			}
			if got := a.ContainsRange(b); got != v.Cr {
				rep("ContainsRange", v.Cr, got)
			}
			if got := a.BoundBy(b); got != (telem.TimeRange{Start: c.ts(v.Bbs), End: c.ts(v.Bbe)}) {
				rep("BoundBy", []int{v.Bbs, v.Bbe}, got)
			}
			if got := a.MakeValid(); got != (telem.TimeRange{Start: c.ts(v.Mvs), End: c.ts(v.Mve)}) {
				rep("MakeValid", []int{v.Mvs, v.Mve}, got)
			}
			if got := a.Union(b); got != (telem.TimeRange{Start: c.ts(v.Un.S), End: c.ts(v.Un.E)}) {
				rep("Union", v.Un, got)
			}
			got := a.Intersection(b)
			if v.Isz && got != telem.TimeRangeZero || !v.Isz && got != (telem.TimeRange{Start: c.ts(v.Ixs), End: c.ts(v.Ixe)}) {
				rep("Intersection", []int{v.Ixs, v.Ixe}, got)
			}
		}
	}
	_ = enc.Encode(map[string]any{"summary": true, "vectors": n, "checks": checks, "bad": len(bad)})
	for _, b := range bad {
		_ = enc.Encode(b)
	}
}
