//go:build verif

// Extension check X01: replay of FileController.tla behaviours (FileControllerGen.tla)
// into a real domain.DB / fileController on an in-memory file system wrapped by a
// handle-counting FS. Injected with `go test -overlay`; never part of /repo.
//
// Writers go through DB.OpenWriter / Writer.Write / Commit / Close, readers through
// fc.acquireReader / controlledReader.Close (what DB.newReader does), garbage collection
// through DB.garbageCollectFile (paused at the point where it opens the copy file by a gate
// in the FS wrapper), fc.gcReaders / fc.gcWriters, DB.Close, domain.Open on the same FS.
// Calls that may block run in goroutines; "blocked" is established from the goroutine dump
// (parked in `<-fc.release` inside acquireWriter/acquireReader, or parked on a sync lock
// inside the file controller), never from a bare timeout.
//
// Verdict-bearing comparisons (kind "verdict") are the invariants S1-S8 of
// FileController.tla evaluated on the REAL projection (pool maps under their locks, FS.Stat,
// counter file, open handles counted by the FS wrapper) plus "the specification as written
// says this call returns and it is parked". Everything else the specification pins (which
// file, sizes, idle/in-use counts, evictions) is compared at kind "drift". Rows of kind
// "finding" report the named deviation of the code as written
// (Dev_ReaderStarvedByIdleSmallWriter) when the real code shows it.
package domain

import (
	"bufio"
	"bytes"
	"context"
	"encoding/binary"
	"encoding/json"
	"fmt"
	"math"
	"os"
	"runtime"
	"sort"
	"strconv"
	"strings"
	"sync"
	"sync/atomic"
	"testing"
	"time"

	"github.com/synnaxlabs/alamos"
	xfs "github.com/synnaxlabs/x/io/fs"
	"github.com/synnaxlabs/x/telem"
	"go.uber.org/zap"
)

// ---------------------------------------------------------------- counting FS

type xfFile struct {
	xfs.File
	name   string
	write  bool
	closed atomic.Int32
}

func (f *xfFile) Close() error {
	f.closed.Add(1)
	return f.File.Close()
}

type xfFS struct {
	xfs.FS
	mu         sync.Mutex
	handles    []*xfFile
	gateSuffix string
	gateHit    chan struct{}
	gateGo     chan struct{}
}

func (f *xfFS) Open(name string, flag int) (xfs.File, error) {
	f.mu.Lock()
	var hit, goCh chan struct{}
	if f.gateSuffix != "" && strings.HasSuffix(name, f.gateSuffix) {
		hit, goCh = f.gateHit, f.gateGo
		f.gateSuffix = ""
	}
	f.mu.Unlock()
	if hit != nil {
		close(hit)
		<-goCh
	}
	file, err := f.FS.Open(name, flag)
	if err != nil {
		return nil, err
	}
	x := &xfFile{File: file, name: name, write: flag&(os.O_WRONLY|os.O_RDWR) != 0}
	f.mu.Lock()
	f.handles = append(f.handles, x)
	f.mu.Unlock()
	return x, nil
}

func (f *xfFS) arm(suffix string) (hit, goCh chan struct{}) {
	f.mu.Lock()
	defer f.mu.Unlock()
	f.gateSuffix = suffix
	f.gateHit, f.gateGo = make(chan struct{}), make(chan struct{})
	return f.gateHit, f.gateGo
}

func (f *xfFS) disarm() {
	f.mu.Lock()
	f.gateSuffix = ""
	f.mu.Unlock()
}

// census returns the open handles (readers, writers) on name; name "" = every file.
func (f *xfFS) census(name string) (rd, wrt, doubleClosed int) {
	f.mu.Lock()
	defer f.mu.Unlock()
	keep := f.handles[:0]
	for _, h := range f.handles {
		c := h.closed.Load()
		if c > 1 {
			doubleClosed++
		}
		if c > 0 {
			continue
		}
		keep = append(keep, h)
		if name != "" && h.name != name {
			continue
		}
		if h.write {
			wrt++
		} else {
			rd++
		}
	}
	for i := len(keep); i < len(f.handles); i++ {
		f.handles[i] = nil
	}
	f.handles = keep
	return
}

// ---------------------------------------------------------------- behaviours

type xStep struct {
	A  string  `json:"a"`
	S  int     `json:"s"`
	K  int     `json:"k"`
	N  int     `json:"n"`
	F  int     `json:"f"`
	H  int     `json:"h"`
	R  string  `json:"r"`
	X  []int   `json:"x"`
	D  [][]any `json:"d"`
	C  int     `json:"c"`
	Fs []int   `json:"fs"`
	Fz []int   `json:"fz"`
	Lv []int   `json:"lv"`
	Ru []int   `json:"ru"`
	Ri []int   `json:"ri"`
	Ws [][]int `json:"ws"`
	Pd [][]any `json:"pd"`
	Gc int     `json:"gc"`
	Lq int     `json:"lq"`
	Cl int     `json:"cl"`
}

type xCallID struct {
	t string
	a int
}

func xTuple(v []any) (xCallID, []int, error) {
	if len(v) < 2 {
		return xCallID{}, nil, fmt.Errorf("call tuple: %v", v)
	}
	t, ok := v[0].(string)
	if !ok {
		return xCallID{}, nil, fmt.Errorf("call tuple: %v", v)
	}
	var rest []int
	for _, e := range v[1:] {
		f, ok := e.(float64)
		if !ok {
			return xCallID{}, nil, fmt.Errorf("call tuple: %v", v)
		}
		rest = append(rest, int(f))
	}
	return xCallID{t, rest[0]}, rest, nil
}

type xResult struct {
	I      int    `json:"i"`
	R      string `json:"r"` // ok | mismatch | finding | inconclusive
	Kind   string `json:"kind,omitempty"`
	Clause string `json:"clause,omitempty"`
	Step   int    `json:"step"`
	Exp    string `json:"exp,omitempty"`
	Act    string `json:"act,omitempty"`
	Note   string `json:"note,omitempty"`
}

type xCfg struct {
	unit, nominal, cap, thr, max int
	persist                      bool
	hang                         time.Duration
	ins                          alamos.Instrumentation
}

type xCounters struct {
	Steps, Opens, OpenBlocked, Woken, Requeued, Writes, Commits, CommitNoop, Rollovers,
	ReusedIdle, FromUnopened, NewFiles, EvictW, EvictR, AcqR, AcqRReuse, AcqRBlocked,
	AcqRLocked, RelR, GcNoopWriter, GcNoopReaders, GcNoopThreshold, GcBegin, GcFinish,
	GcStaysOversize, OpensDuringGc, Close, CloseBusy, Reopen, AtLimit, Starved, AllIdleBlocked,
	Stuck, IndexChecks, HandOvers, MaxPend int
}

func (c *xCounters) add(o *xCounters) {
	a, b := c.slice(), o.slice()
	for i := range a {
		if i == len(a)-1 {
			if *b[i] > *a[i] {
				*a[i] = *b[i]
			}
			continue
		}
		*a[i] += *b[i]
	}
}

func (c *xCounters) slice() []*int {
	return []*int{&c.Steps, &c.Opens, &c.OpenBlocked, &c.Woken, &c.Requeued, &c.Writes, &c.Commits,
		&c.CommitNoop, &c.Rollovers, &c.ReusedIdle, &c.FromUnopened, &c.NewFiles, &c.EvictW, &c.EvictR,
		&c.AcqR, &c.AcqRReuse, &c.AcqRBlocked, &c.AcqRLocked, &c.RelR, &c.GcNoopWriter, &c.GcNoopReaders,
		&c.GcNoopThreshold, &c.GcBegin, &c.GcFinish, &c.GcStaysOversize, &c.OpensDuringGc, &c.Close,
		&c.CloseBusy, &c.Reopen, &c.AtLimit, &c.Starved, &c.AllIdleBlocked, &c.Stuck, &c.IndexChecks,
		&c.HandOvers, &c.MaxPend}
}

// ---------------------------------------------------------------- goroutine inspection

func xSelfGID() int64 {
	var buf [64]byte
	n := runtime.Stack(buf[:], false)
	f := strings.Fields(string(buf[:n]))
	if len(f) < 2 {
		return -1
	}
	id, err := strconv.ParseInt(f[1], 10, 64)
	if err != nil {
		return -1
	}
	return id
}

var xStackPool = sync.Pool{New: func() any { b := make([]byte, 1<<19); return &b }}

// xGoState returns the wait state and the stack text of goroutine gid ("" if gone).
func xGoState(gid int64) (state, frames string) {
	bp := xStackPool.Get().(*[]byte)
	defer xStackPool.Put(bp)
	for {
		n := runtime.Stack(*bp, true)
		if n < len(*bp) {
			all := (*bp)[:n]
			hdr := []byte(fmt.Sprintf("goroutine %d [", gid))
			i := -1
			if bytes.HasPrefix(all, hdr) {
				i = 0
			} else if j := bytes.Index(all, append([]byte("\n"), hdr...)); j >= 0 {
				i = j + 1
			}
			if i < 0 {
				return "", ""
			}
			blk := all[i:]
			if e := bytes.Index(blk, []byte("\n\n")); e >= 0 {
				blk = blk[:e]
			}
			s := string(blk)
			c := strings.Index(s, "]")
			if c < 0 {
				return "", s
			}
			return s[len(hdr):c], s
		}
		b := make([]byte, 2*len(*bp))
		*bp = b
	}
}

type xOut struct {
	w        *Writer
	r        *controlledReader
	err      error
	panicked any
}

type xPending struct {
	id      xCallID
	gid     atomic.Int64
	done    chan xOut
	out     *xOut
	started chan struct{}
	parked  bool
	why     string
	grace   time.Duration // how long settle yields before it looks at the goroutine dump
}

func xLaunch(id xCallID, f func() xOut) *xPending {
	p := &xPending{id: id, done: make(chan xOut, 1), started: make(chan struct{}), grace: 400 * time.Microsecond}
	go func() {
		p.gid.Store(xSelfGID())
		close(p.started)
		var o xOut
		func() {
			defer func() {
				if e := recover(); e != nil {
					o.panicked = e
				}
			}()
			o = f()
		}()
		p.done <- o
	}()
	<-p.started
	return p
}

// xParked classifies a goroutine dump entry: "chan" (parked in acquire*'s own receive on
// fc.release), "lock" (parked on a sync lock taken by a fileController method), "gate" (at
// the FS gate), "" (anything else, including transient states).
func xParked(st, fr string) string {
	if st == "" {
		return ""
	}
	top := ""
	for _, ln := range strings.Split(fr, "\n")[1:] {
		if ln == "" || ln[0] == '\t' {
			continue
		}
		if strings.HasPrefix(ln, "sync.") || strings.HasPrefix(ln, "runtime.") || strings.HasPrefix(ln, "internal/") {
			continue
		}
		top = ln
		break
	}
	switch {
	case strings.HasPrefix(st, "chan receive") && strings.Contains(top, "xfFS).Open"):
		return "gate"
	case strings.HasPrefix(st, "chan receive") && strings.Contains(top, "domain.(*fileController).acquire"):
		return "chan"
	case (strings.HasPrefix(st, "sync.RWMutex.") || strings.HasPrefix(st, "sync.Mutex.")) &&
		strings.Contains(top, "domain.(*fileController)."):
		return "lock"
	}
	return ""
}

// settle waits until the call returned ("done") or is parked for good: "chan", "lock",
// "gate" (seen twice in a row, see xParked); "hang" after the watchdog.
func (p *xPending) settle(hang time.Duration) string {
	if p.out != nil {
		return "done"
	}
	// most calls return within microseconds: yield before paying for a goroutine dump
	t0 := time.Now()
	for i := 0; ; i++ {
		select {
		case o := <-p.done:
			p.out = &o
			return "done"
		default:
		}
		if i%16 == 15 && time.Since(t0) > p.grace {
			break
		}
		runtime.Gosched()
	}
	deadline := time.Now().Add(hang)
	confirm := ""
	for spin := 1; ; spin++ {
		select {
		case o := <-p.done:
			p.out = &o
			return "done"
		default:
		}
		gst, gfr := xGoState(p.gid.Load())
		if k := xParked(gst, gfr); k != "" {
			if k == confirm {
				p.why = gst + " @ " + strings.Join(strings.Split(gfr, "\n")[1:min(8, len(strings.Split(gfr, "\n")))], " | ")
				return k
			}
			confirm = k
			time.Sleep(100 * time.Microsecond)
			continue
		}
		confirm = ""
		if time.Now().After(deadline) {
			return "hang"
		}
		time.Sleep(time.Duration(min(spin, 100)) * 20 * time.Microsecond)
	}
}

// xSettleAny waits until one of the calls returned ("done") or all of them are parked.
func xSettleAny(cands []*xPending, hang time.Duration) (*xPending, string) {
	if len(cands) == 1 {
		return cands[0], cands[0].settle(hang)
	}
	deadline := time.Now().Add(hang)
	confirmed := 0
	for spin := 1; ; spin++ {
		for _, p := range cands {
			if p.out != nil {
				return p, "done"
			}
			select {
			case o := <-p.done:
				p.out = &o
				return p, "done"
			default:
			}
		}
		all := spin > 2
		for _, p := range cands {
			if !all {
				break
			}
			if xParked(xGoState(p.gid.Load())) != "chan" {
				all = false
			}
		}
		if all {
			if confirmed++; confirmed >= 2 {
				return cands[0], "chan"
			}
		} else {
			confirmed = 0
		}
		if time.Now().After(deadline) {
			return cands[0], "hang"
		}
		time.Sleep(time.Duration(min(spin, 100)) * 20 * time.Microsecond)
	}
}

// ---------------------------------------------------------------- replayer

type xMismatch struct {
	kind, clause string
	step         int
	exp, act     string
}

type xSlot struct {
	w       *Writer
	lastEnd telem.TimeStamp
}

type xReplayer struct {
	c        xCfg
	ctx      context.Context
	fs       *xfFS
	db       *DB
	slots    map[int]*xSlot
	readers  map[int][]*controlledReader
	pend     []*xPending
	gcCall   *xPending
	gcGo     chan struct{}
	gcKey    int
	lockCall *xPending
	sess     int64
	closed   bool
	lastPtrs []pointer
	cnt      xCounters
	findings []xResult
	leaked   []*xPending
	steerSrc string // where the steered target of this step sits: "idle" | "unopened" | ""
}

func xFileSizeFor(nominalBytes int) telem.Size {
	for x := 1; x < 1<<20; x++ {
		if int(math.Round(0.8*float64(x))) == nominalBytes {
			return telem.Size(x)
		}
	}
	return 0
}

func (r *xReplayer) open() error {
	db, err := Open(Config{
		FS:              r.fs,
		FileSize:        xFileSizeFor(r.c.nominal * r.c.unit),
		MaxDescriptors:  r.c.max,
		GCThreshold:     float32(r.c.thr) / float32(r.c.nominal),
		Instrumentation: r.c.ins,
	})
	if err != nil {
		return err
	}
	r.db = db
	return nil
}

func (r *xReplayer) capBytes() int64 {
	return int64(math.Round(1.25 * float64(r.c.nominal*r.c.unit)))
}

func xName(k int) string { return strconv.Itoa(k) + ".domain" }

// steer restricts the choice acquireWriter / newWriter make among equally eligible files
// (they range over Go maps) to the file the behaviour chose: other released handles of
// small files are marked busy, other keys leave the unopened set, for the duration of one
// step. target 0 or a new file: no restriction.
func (r *xReplayer) steer(targets []int) func() {
	r.db.fc.writers.Lock()
	defer r.db.fc.writers.Unlock()
	return r.steerLocked(targets)
}

// steerLocked is steer with fc.writers held exclusively by the caller.
func (r *xReplayer) steerLocked(targets []int) func() {
	fc := r.db.fc
	var (
		held    []controllerEntry
		removed []uint16
	)
	want := map[uint16]bool{}
	for _, t := range targets {
		if t != 0 {
			want[uint16(t)] = true
		}
	}
	if len(want) == 0 {
		return func() {}
	}
	r.steerSrc = ""
	inOpen, inUnopened := false, false
	for k := range want {
		if _, ok := fc.writers.open[k]; ok {
			inOpen = true
		}
		if _, ok := fc.writers.unopened[k]; ok {
			inUnopened = true
		}
	}
	if inOpen {
		for k, w := range fc.writers.open {
			if want[k] {
				continue
			}
			if s, err := r.fs.FS.Stat(xName(int(k))); err == nil && s.Size() < int64(fc.FileSize) &&
				w.controllerEntry.inUse.CompareAndSwap(false, true) {
				held = append(held, w.controllerEntry)
			}
		}
	}
	if inUnopened {
		for k := range fc.writers.unopened {
			if !want[k] {
				removed = append(removed, k)
			}
		}
		for _, k := range removed {
			delete(fc.writers.unopened, k)
		}
	}
	if inOpen {
		r.steerSrc = "idle"
	} else if inUnopened {
		r.steerSrc = "unopened"
	}
	return func() {
		for _, e := range held {
			e.inUse.Store(false)
		}
		if len(removed) > 0 {
			fc.writers.Lock()
			for _, k := range removed {
				fc.writers.unopened.Add(k)
			}
			fc.writers.Unlock()
		}
	}
}

func (r *xReplayer) wcfg() WriterConfig {
	r.sess++
	cfg := WriterConfig{Start: telem.TimeStamp(r.sess * 1000 * int64(telem.Second))}
	if r.c.persist {
		cfg.AutoIndexPersistInterval = AlwaysIndexPersistOnAutoCommit
	}
	return cfg
}

// guarded runs a call of the code under test that the behaviour says returns.
func (r *xReplayer) guarded(i int, what string, f func() error) (error, *xMismatch) {
	p := xLaunch(xCallID{"x", 0}, func() xOut { return xOut{err: f()} })
	switch st := p.settle(r.c.hang); st {
	case "done":
		if p.out.panicked != nil {
			return nil, &xMismatch{"verdict", "panic", i, what + " returns", fmt.Sprint(p.out.panicked)}
		}
		return p.out.err, nil
	default:
		r.leaked = append(r.leaked, p)
		return nil, &xMismatch{"verdict", "blocked", i, what + " returns", "parked: " + st}
	}
}

type xProj struct {
	counter, disk int
	exists        []bool
	size          []int64
	state         []int // 0 none 1 unopened 2 held 3 idle 4 absent-from-both
	both          []bool
	ru, ri        []int
	live          []int64
	rdH, wrH      []int
}

func (r *xReplayer) project(nk int) (*xProj, error) {
	fc := r.db.fc
	p := &xProj{exists: make([]bool, nk+1), size: make([]int64, nk+1), state: make([]int, nk+1), both: make([]bool, nk+1),
		ru: make([]int, nk+1), ri: make([]int, nk+1), live: make([]int64, nk+1), rdH: make([]int, nk+1), wrH: make([]int, nk+1)}
	p.counter = int(fc.counter.Value())
	p.disk = -1
	if f, err := r.fs.FS.Open(counterFile, os.O_RDONLY); err == nil {
		var b [4]byte
		if n, _ := f.ReadAt(b[:], 0); n == 4 {
			p.disk = int(int32(binary.LittleEndian.Uint32(b[:])))
		} else {
			p.disk = 0
		}
		_ = f.Close()
	}
	for k := 1; k <= nk; k++ {
		e, err := r.fs.FS.Exists(xName(k))
		if err != nil {
			return nil, err
		}
		p.exists[k] = e
		if e {
			s, err := r.fs.FS.Stat(xName(k))
			if err != nil {
				return nil, err
			}
			p.size[k] = s.Size()
			p.state[k] = 4
		}
		p.rdH[k], p.wrH[k], _ = r.fs.census(xName(k))
	}
	fc.writers.RLock()
	for k, w := range fc.writers.open {
		if int(k) <= nk {
			if w.controllerEntry.inUse.Load() {
				p.state[k] = 2
			} else {
				p.state[k] = 3
			}
		}
	}
	for k := range fc.writers.unopened {
		if int(k) <= nk {
			if p.state[k] == 2 || p.state[k] == 3 {
				p.both[k] = true
			} else {
				p.state[k] = 1
			}
		}
	}
	fc.writers.RUnlock()
	// fc.readers may have an exclusive waiter queued (paused compaction): the pool is
	// quiescent then, read it without the lock rather than queue behind the waiter.
	locked := fc.readers.TryRLock()
	for k, f := range fc.readers.files {
		if int(k) > nk {
			continue
		}
		fl := f.TryRLock()
		for _, rd := range f.open {
			if rd.controllerEntry.inUse.Load() {
				p.ru[k]++
			} else {
				p.ri[k]++
			}
		}
		if fl {
			f.RUnlock()
		}
	}
	if locked {
		fc.readers.RUnlock()
	}
	il := r.db.idx.mu.TryRLock()
	for _, ptr := range r.db.idx.mu.pointers {
		if int(ptr.fileKey) <= nk {
			p.live[ptr.fileKey] += int64(ptr.size)
		}
	}
	if il {
		r.db.idx.mu.RUnlock()
	}
	return p, nil
}

func (r *xReplayer) indexOnDisk() ([]pointer, error) {
	f, err := r.fs.FS.Open(indexFile, os.O_RDONLY)
	if err != nil {
		return nil, err
	}
	defer func() { _ = f.Close() }()
	s, err := f.Stat()
	if err != nil {
		return nil, err
	}
	b := make([]byte, s.Size())
	if len(b) > 0 {
		if _, err = f.ReadAt(b, 0); err != nil {
			return nil, err
		}
	}
	var c pointerCodec
	return c.decode(b), nil
}

func (r *xReplayer) checkIndex(i int, when string) *xMismatch {
	r.cnt.IndexChecks++
	disk, err := r.indexOnDisk()
	if err != nil {
		return &xMismatch{"verdict", "index-durable", i, "index file readable " + when, err.Error()}
	}
	r.db.idx.mu.RLock()
	mem := append([]pointer(nil), r.db.idx.mu.pointers...)
	r.db.idx.mu.RUnlock()
	if len(disk) != len(mem) {
		return &xMismatch{"verdict", "index-durable", i, fmt.Sprintf("%s: index file holds the %d in-memory pointers", when, len(mem)), fmt.Sprintf("%d pointers on disk", len(disk))}
	}
	for j := range mem {
		if mem[j] != disk[j] {
			return &xMismatch{"verdict", "index-durable", i, fmt.Sprintf("%s: pointer %d on disk = %+v", when, j, mem[j]), fmt.Sprintf("%+v", disk[j])}
		}
	}
	return nil
}

// handed checks S2 on a writer that was just given a file.
func (r *xReplayer) handed(i int, w *Writer, counterBefore int, how string) *xMismatch {
	r.cnt.HandOvers++
	isNew := int(w.fileKey) > counterBefore
	if isNew {
		r.cnt.NewFiles++
		if int(w.fileKey) != counterBefore+1 {
			return &xMismatch{"verdict", "keys", i, fmt.Sprintf("new file key = counter + 1 = %d", counterBefore+1), fmt.Sprintf("key %d", w.fileKey)}
		}
		if w.fileSize != 0 {
			return &xMismatch{"verdict", "hand-over", i, "new file is empty", fmt.Sprintf("size %d", w.fileSize)}
		}
		return nil
	}
	switch r.steerSrc {
	case "idle":
		r.cnt.ReusedIdle++
	case "unopened":
		r.cnt.FromUnopened++
	}
	if int64(w.fileSize) >= int64(r.c.nominal*r.c.unit) {
		return &xMismatch{"verdict", "hand-over", i, fmt.Sprintf("%s: file handed to a writer is below the nominal size %d", how, r.c.nominal*r.c.unit),
			fmt.Sprintf("file %d of size %d", w.fileKey, w.fileSize)}
	}
	return nil
}

// woken waits for the blocked calls the behaviour says a release woke, in order.
func (r *xReplayer) woken(i int, st xStep, counterBefore int) *xMismatch {
	for _, d := range st.D {
		id, rest, err := xTuple(d)
		if err != nil {
			return &xMismatch{"drift", "harness", i, "", err.Error()}
		}
		// blocked calls with the same arguments are interchangeable: whichever of them the
		// release woke (the queue rotates when a woken call cannot proceed) is the one
		var cands []*xPending
		for _, q := range r.pend {
			if q.id == id {
				cands = append(cands, q)
			}
		}
		if len(cands) == 0 && r.lockCall != nil && r.lockCall.id == id {
			cands, r.lockCall = []*xPending{r.lockCall}, nil
		}
		if len(cands) == 0 {
			return &xMismatch{"drift", "harness", i, "", fmt.Sprintf("no blocked call %v", id)}
		}
		r.cnt.Woken++
		p, s := xSettleAny(cands, r.c.hang)
		if s != "done" {
			return &xMismatch{"verdict", "blocked", i, fmt.Sprintf("blocked call %v returns after this release (something is evictable / reusable)", id), "still parked: " + s}
		}
		for j, q := range r.pend {
			if q == p {
				r.pend = append(r.pend[:j:j], r.pend[j+1:]...)
				break
			}
		}
		if p.out.panicked != nil || p.out.err != nil {
			return &xMismatch{"verdict", "panic", i, "woken call returns nil", fmt.Sprint(p.out.panicked, p.out.err)}
		}
		if id.t == "w" {
			r.slots[id.a] = &xSlot{w: p.out.w, lastEnd: p.out.w.Start}
			if m := r.handed(i, p.out.w, counterBefore, "woken OpenWriter"); m != nil {
				return m
			}
			if int(p.out.w.fileKey) > counterBefore {
				counterBefore = int(p.out.w.fileKey)
			}
			if len(rest) > 1 && int(p.out.w.fileKey) != rest[1] {
				return &xMismatch{"drift", "file", i, fmt.Sprintf("woken writer gets file %d", rest[1]), fmt.Sprintf("file %d", p.out.w.fileKey)}
			}
		} else {
			r.readers[id.a] = append(r.readers[id.a], p.out.r)
		}
	}
	return nil
}

func (r *xReplayer) targets(st xStep) []int {
	t := []int{}
	if st.F != 0 && (st.A == "open" || st.A == "commit") {
		t = append(t, st.F)
	}
	for _, d := range st.D {
		if id, rest, err := xTuple(d); err == nil && id.t == "w" && len(rest) > 1 {
			t = append(t, rest[1])
		}
	}
	return t
}

func (r *xReplayer) step(i int, st xStep) *xMismatch {
	c := r.c
	r.cnt.Steps++
	nk := len(st.Fs)
	var counterBefore int
	if !r.closed {
		counterBefore = int(r.db.fc.counter.Value())
	}
	var unsteer = func() {}
	if !r.closed {
		unsteer = r.steer(r.targets(st))
	}
	steered := true
	defer func() {
		if steered {
			unsteer()
		}
	}()
	var m *xMismatch
	switch st.A {
	case "open":
		r.cnt.Opens++
		if r.gcKey != 0 {
			r.cnt.OpensDuringGc++
		}
		cfg := r.wcfg()
		p := xLaunch(xCallID{"w", st.S}, func() xOut {
			w, err := r.db.OpenWriter(r.ctx, cfg)
			return xOut{w: w, err: err}
		})
		s := p.settle(c.hang)
		switch {
		case s == "done" && (p.out.panicked != nil || p.out.err != nil):
			return &xMismatch{"verdict", "panic", i, "OpenWriter returns a writer", fmt.Sprint(p.out.panicked, p.out.err)}
		case s == "done":
			r.slots[st.S] = &xSlot{w: p.out.w, lastEnd: p.out.w.Start}
			if m = r.handed(i, p.out.w, counterBefore, "OpenWriter"); m != nil {
				return m
			}
			if st.R != "ok" {
				// the behaviour says the pool is exhausted; the invariants below decide
				m = &xMismatch{"drift", "blocking", i, "OpenWriter parks on fc.release", fmt.Sprintf("returned file %d", p.out.w.fileKey)}
			} else if int(p.out.w.fileKey) != st.F {
				m = &xMismatch{"drift", "file", i, fmt.Sprintf("OpenWriter gets file %d", st.F), fmt.Sprintf("file %d", p.out.w.fileKey)}
			}
		case s == "chan":
			if st.R == "ok" {
				r.leaked = append(r.leaked, p)
				return &xMismatch{"verdict", "blocked", i, fmt.Sprintf("OpenWriter returns (file %d is available)", st.F), "parked on fc.release"}
			}
			r.cnt.OpenBlocked++
			r.pend = append(r.pend, p)
		default:
			r.leaked = append(r.leaked, p)
			return &xMismatch{"verdict", "blocked", i, "OpenWriter returns or parks on fc.release", "parked: " + s + " " + p.why}
		}
	case "write":
		r.cnt.Writes++
		sl := r.slots[st.S]
		if sl == nil {
			return &xMismatch{"drift", "harness", i, "", "write on a free slot"}
		}
		if _, err := sl.w.Write(bytes.Repeat([]byte{byte(i + 1)}, st.N*c.unit)); err != nil {
			return &xMismatch{"drift", "write", i, "Write succeeds", err.Error()}
		}
	case "commit":
		r.cnt.Commits++
		sl := r.slots[st.S]
		if sl == nil {
			return &xMismatch{"drift", "harness", i, "", "commit on a free slot"}
		}
		before := sl.w.fileKey
		sizeBefore := int64(-1)
		if s, err := r.fs.FS.Stat(xName(int(before))); err == nil {
			sizeBefore = s.Size()
		}
		pendingLen := sl.w.internal.Len()
		sl.lastEnd += telem.TimeStamp(telem.Second)
		err, mm := r.guarded(i, "Commit", func() error { return sl.w.Commit(r.ctx, sl.lastEnd) })
		if mm != nil {
			return mm
		}
		if err != nil {
			return &xMismatch{"drift", "commit", i, "Commit succeeds", err.Error()}
		}
		rolled := sl.w.fileKey != before
		wantRoll := pendingLen > 0 && sizeBefore >= r.capBytes()
		if pendingLen == 0 {
			r.cnt.CommitNoop++
		}
		if rolled != wantRoll {
			return &xMismatch{"verdict", "rollover", i,
				fmt.Sprintf("commit of %d new bytes on a file of %d bytes (real cap %d): file switch = %v", pendingLen, sizeBefore, r.capBytes(), wantRoll),
				fmt.Sprintf("file switch = %v (file %d -> %d)", rolled, before, sl.w.fileKey)}
		}
		if rolled {
			r.cnt.Rollovers++
			if m = r.handed(i, sl.w, counterBefore, "rollover"); m != nil {
				return m
			}
			if int(sl.w.fileKey) != st.F {
				m = &xMismatch{"drift", "file", i, fmt.Sprintf("rollover gets file %d", st.F), fmt.Sprintf("file %d", sl.w.fileKey)}
			}
		}
	case "closew":
		sl := r.slots[st.S]
		if sl == nil {
			return &xMismatch{"drift", "harness", i, "", "close of a free slot"}
		}
		delete(r.slots, st.S)
		// A writer this release wakes may have to be steered away from the very handle that
		// is being released, which can only be marked once it is idle: hold fc.writers across
		// the release (Writer.Close does not take it; the woken acquireWriter queues on it).
		wokenWriter := false
		for _, d := range st.D {
			if id, _, err := xTuple(d); err == nil && id.t == "w" {
				wokenWriter = true
			}
		}
		if wokenWriter {
			r.db.fc.writers.Lock()
		}
		err, mm := r.guarded(i, "Writer.Close", sl.w.Close)
		if wokenWriter {
			if mm == nil {
				undo1, undo2 := unsteer, r.steerLocked(r.targets(st))
				unsteer = func() { undo2(); undo1() }
			}
			r.db.fc.writers.Unlock()
		}
		if mm != nil {
			return mm
		}
		if err != nil {
			return &xMismatch{"drift", "closew", i, "Writer.Close succeeds", err.Error()}
		}
		if m = r.woken(i, st, counterBefore); m != nil {
			return m
		}
		if mm := r.checkIndex(i, "after Writer.Close"); mm != nil {
			return mm
		}
	case "acqr":
		r.cnt.AcqR++
		k := st.K
		reusable := false
		if pr, err := r.project(nk); err == nil && pr.ri[k] > 0 {
			reusable = true
		}
		p := xLaunch(xCallID{"r", k}, func() xOut {
			rd, err := r.db.fc.acquireReader(r.ctx, uint16(k))
			return xOut{r: rd, err: err}
		})
		s := p.settle(c.hang)
		switch {
		case s == "done" && (p.out.panicked != nil || p.out.err != nil):
			return &xMismatch{"verdict", "panic", i, "acquireReader returns a handle", fmt.Sprint(p.out.panicked, p.out.err)}
		case s == "done":
			r.readers[k] = append(r.readers[k], p.out.r)
			if reusable {
				r.cnt.AcqRReuse++
			}
			if st.R != "ok" {
				m = &xMismatch{"drift", "blocking", i, "acquireReader parks (" + st.R + ")", "returned a handle"}
				if r.gcKey == k {
					return &xMismatch{"verdict", "gc-exclusive", i, fmt.Sprintf("no reader handle on file %d while it is compacted", k), "acquireReader returned one"}
				}
			}
		case s == "chan":
			if st.R != "block" {
				r.leaked = append(r.leaked, p)
				return &xMismatch{"verdict", "blocked", i, "acquireReader returns (" + st.R + ")", "parked on fc.release"}
			}
			r.cnt.AcqRBlocked++
			r.pend = append(r.pend, p)
		case s == "lock":
			if st.R != "lock" {
				r.leaked = append(r.leaked, p)
				return &xMismatch{"verdict", "blocked", i, "acquireReader returns (" + st.R + ")", "parked on a lock of the file controller"}
			}
			r.cnt.AcqRLocked++
			r.lockCall = p
		default:
			r.leaked = append(r.leaked, p)
			return &xMismatch{"verdict", "blocked", i, "acquireReader returns or parks", "parked: " + s}
		}
		if s == "done" || s == "chan" {
			if mm := r.woken(i, st, counterBefore); mm != nil {
				return mm
			}
		}
	case "relr":
		r.cnt.RelR++
		hs := r.readers[st.K]
		if len(hs) == 0 {
			return &xMismatch{"drift", "harness", i, "", "release without a held reader"}
		}
		h := hs[len(hs)-1]
		r.readers[st.K] = hs[:len(hs)-1]
		if err := h.Close(); err != nil {
			return &xMismatch{"drift", "relr", i, "reader Close succeeds", err.Error()}
		}
		if m = r.woken(i, st, counterBefore); m != nil {
			return m
		}
	case "gcr", "gcw":
		f := r.db.fc.gcReaders
		if st.A == "gcw" {
			f = r.db.fc.gcWriters
		}
		err, mm := r.guarded(i, st.A, func() error { _, err := f(); return err })
		if mm != nil {
			return mm
		}
		if err != nil {
			return &xMismatch{"drift", st.A, i, "succeeds", err.Error()}
		}
		if m = r.woken(i, st, counterBefore); m != nil {
			return m
		}
	case "gcnoop", "gcbegin":
		s, err := r.fs.FS.Stat(xName(st.K))
		if err != nil {
			return &xMismatch{"drift", "harness", i, "", err.Error()}
		}
		stateBefore := -1
		if pr, err := r.project(nk); err == nil {
			stateBefore = pr.state[st.K]
		}
		hit, goCh := r.fs.arm("_gc")
		p := xLaunch(xCallID{"g", st.K}, func() xOut { return xOut{err: r.db.garbageCollectFile(uint16(st.K), s.Size())} })
		res := p.settle(c.hang)
		select {
		case <-hit:
			res = "gate"
		default:
		}
		if st.A == "gcnoop" {
			r.fs.disarm()
			switch st.R {
			case "writer":
				r.cnt.GcNoopWriter++
			case "readers":
				r.cnt.GcNoopReaders++
			default:
				r.cnt.GcNoopThreshold++
			}
			if res == "gate" {
				// it decided to compact: let it run to completion, then judge
				close(goCh)
				_ = p.settle(c.hang)
				kind := "drift"
				if st.R != "threshold" {
					kind = "verdict" // compaction of a file somebody holds a handle on
				}
				return &xMismatch{kind, "gc-exclusive", i, "garbageCollectFile leaves the file alone (" + st.R + ")", "it compacts the file"}
			}
			if res != "done" {
				r.leaked = append(r.leaked, p)
				return &xMismatch{"verdict", "blocked", i, "garbageCollectFile returns", "parked: " + res}
			}
			if p.out.err != nil || p.out.panicked != nil {
				return &xMismatch{"drift", "gc", i, "garbageCollectFile returns nil", fmt.Sprint(p.out.err, p.out.panicked)}
			}
			// S5: a pass that does not compact leaves the file in the writer set it was in
			if pr, err := r.project(nk); err == nil && stateBefore >= 0 && pr.state[st.K] != stateBefore {
				return &xMismatch{"verdict", "gc-restore", i,
					fmt.Sprintf("garbageCollectFile(%d) that does not compact (%s) leaves the file in its writer set (state %d)", st.K, st.R, stateBefore),
					fmt.Sprintf("state %d afterwards", pr.state[st.K])}
			}
		} else {
			r.cnt.GcBegin++
			if res != "gate" {
				r.fs.disarm()
				return &xMismatch{"drift", "gc", i, "garbageCollectFile starts compacting", "state " + res}
			}
			r.gcCall, r.gcGo, r.gcKey = p, goCh, st.K
		}
	case "gcfinish":
		r.cnt.GcFinish++
		if r.gcCall == nil {
			return &xMismatch{"drift", "harness", i, "", "no compaction in progress"}
		}
		close(r.gcGo)
		p := r.gcCall
		r.gcCall, r.gcGo, r.gcKey = nil, nil, 0
		if s := p.settle(c.hang); s != "done" {
			r.leaked = append(r.leaked, p)
			return &xMismatch{"verdict", "blocked", i, "garbageCollectFile returns", "parked: " + s}
		}
		if p.out.err != nil || p.out.panicked != nil {
			return &xMismatch{"drift", "gc", i, "garbageCollectFile returns nil", fmt.Sprint(p.out.err, p.out.panicked)}
		}
		if st.Fs[st.K-1] == 4 {
			r.cnt.GcStaysOversize++
		}
		// DB.GarbageCollect's tail: persist the re-based pointers
		r.db.idx.mu.Lock()
		persist := r.db.idx.indexPersist.prepare(0)
		err := persist()
		r.db.idx.mu.Unlock()
		if err != nil {
			return &xMismatch{"drift", "gc", i, "index persists", err.Error()}
		}
		if r.lockCall != nil {
			if len(st.D) > 0 {
				if m = r.woken(i, st, counterBefore); m != nil {
					return m
				}
			} else {
				p := r.lockCall
				r.lockCall = nil
				if s := p.settle(c.hang); s != "chan" {
					if s == "done" && p.out.r != nil {
						r.readers[p.id.a] = append(r.readers[p.id.a], p.out.r)
					}
					m = &xMismatch{"drift", "blocking", i, "the reader parked on the lock now parks on fc.release", "state " + s}
				} else {
					r.pend = append(r.pend, p)
				}
			}
		}
		if mm := r.checkIndex(i, "after garbage collection"); mm != nil {
			return mm
		}
	case "close":
		r.db.idx.mu.RLock()
		r.lastPtrs = append([]pointer(nil), r.db.idx.mu.pointers...)
		r.db.idx.mu.RUnlock()
		err, mm := r.guarded(i, "DB.Close", r.db.Close)
		if mm != nil {
			return mm
		}
		if st.R == "busy" {
			r.cnt.CloseBusy++
			if err == nil {
				return &xMismatch{"drift", "close", i, "DB.Close refuses while a writer is open", "nil"}
			}
		} else {
			r.cnt.Close++
			if err != nil {
				return &xMismatch{"drift", "close", i, "DB.Close succeeds", err.Error()}
			}
			r.closed = true
			unsteer()
			steered = false
			rd, wrt, dbl := r.fs.census("")
			if rd+wrt != 0 {
				return &xMismatch{"verdict", "after-close", i, "no open file handle after DB.Close", fmt.Sprintf("%d read + %d write handles open", rd, wrt)}
			}
			if dbl != 0 {
				return &xMismatch{"drift", "double-close", i, "every handle closed once", fmt.Sprintf("%d closed twice", dbl)}
			}
			disk, err := r.indexOnDisk()
			if err != nil || len(disk) != len(r.lastPtrs) {
				return &xMismatch{"verdict", "index-durable", i, fmt.Sprintf("index file holds %d pointers after DB.Close", len(r.lastPtrs)), fmt.Sprint(len(disk), err)}
			}
			for j := range disk {
				if disk[j] != r.lastPtrs[j] {
					return &xMismatch{"verdict", "index-durable", i, fmt.Sprintf("pointer %d = %+v", j, r.lastPtrs[j]), fmt.Sprintf("%+v", disk[j])}
				}
			}
			return nil
		}
	case "reopen":
		r.cnt.Reopen++
		if err := r.open(); err != nil {
			return &xMismatch{"drift", "reopen", i, "Open succeeds", err.Error()}
		}
		r.closed = false
		ptrs := r.db.idx.mu.pointers
		if len(ptrs) != len(r.lastPtrs) {
			return &xMismatch{"verdict", "index-durable", i, fmt.Sprintf("%d pointers after reopen", len(r.lastPtrs)), fmt.Sprint(len(ptrs))}
		}
		for j := range ptrs {
			if ptrs[j] != r.lastPtrs[j] {
				return &xMismatch{"verdict", "index-durable", i, fmt.Sprintf("pointer %d = %+v after reopen", j, r.lastPtrs[j]), fmt.Sprintf("%+v", ptrs[j])}
			}
		}
	default:
		return &xMismatch{"drift", "harness", i, "", "unknown action " + st.A}
	}
	unsteer()
	steered = false
	// a verdict found on the pool outranks a drift-level disagreement about the call itself
	if mm := r.verify(i, st, counterBefore); mm != nil && (mm.kind == "verdict" || m == nil) {
		return mm
	}
	return m
}

// verify evaluates the invariants on the real projection and then compares the projection
// with the post-state of the behaviour.
func (r *xReplayer) verify(i int, st xStep, counterBefore int) *xMismatch {
	c := r.c
	nk := len(st.Fs)
	// still-parked calls must still be parked, in the behaviour's order
	tokens := st.A == "closew" || st.A == "relr" || st.A == "gcr" || st.A == "gcw" || st.A == "gcfinish" ||
		(len(st.X) > 2 && st.X[1]+st.X[2] > 0) || (len(st.X) > 0 && st.X[0] == 1)
	for _, p := range r.pend {
		if !tokens && p.parked {
			select {
			case o := <-p.done:
				p.out = &o
			default:
				continue
			}
		}
		p.grace = 0
		if s := p.settle(c.hang); s == "chan" {
			p.parked = true
		} else {
			if s == "done" {
				if p.out.w != nil {
					_ = p.out.w.Close()
				}
				if p.out.r != nil {
					_ = p.out.r.Close()
				}
			}
			return &xMismatch{"drift", "blocking", i, fmt.Sprintf("call %v stays parked on fc.release", p.id), "state " + s}
		}
	}
	if r.lockCall != nil {
		if s := r.lockCall.settle(c.hang); s != "lock" {
			return &xMismatch{"drift", "blocking", i, "reader stays parked on the readers lock", "state " + s}
		}
	}
	if len(r.pend) > 0 && (st.A == "closew" || st.A == "relr") && len(st.D) == 0 {
		r.cnt.Requeued++
	}
	if len(r.pend) > r.cnt.MaxPend {
		r.cnt.MaxPend = len(r.pend)
	}
	pr, err := r.project(nk + 1)
	if err != nil {
		return &xMismatch{"drift", "harness", i, "", err.Error()}
	}
	// S3
	if pr.disk != pr.counter {
		return &xMismatch{"verdict", "counter", i, fmt.Sprintf("counter file = in-memory counter %d", pr.counter), fmt.Sprint(pr.disk)}
	}
	if pr.counter < counterBefore {
		return &xMismatch{"verdict", "counter", i, "counter never decreases", fmt.Sprintf("%d -> %d", counterBefore, pr.counter)}
	}
	for k := 1; k <= nk+1; k++ {
		if pr.exists[k] && k > pr.disk {
			return &xMismatch{"verdict", "keys", i, fmt.Sprintf("counter on disk (%d) >= every file key", pr.disk), fmt.Sprintf("file %d exists", k)}
		}
		if !pr.exists[k] && k <= counterBefore {
			return &xMismatch{"verdict", "keys", i, "files never vanish", fmt.Sprintf("file %d is gone", k)}
		}
		if pr.both[k] {
			return &xMismatch{"verdict", "one-holder", i, "a file with a writer handle is not in the unopened set", fmt.Sprintf("file %d is in both", k)}
		}
		if pr.state[k] == 1 && pr.size[k] >= int64(c.nominal*c.unit) {
			return &xMismatch{"verdict", "hand-over", i, "the unopened set holds only files below the nominal size", fmt.Sprintf("file %d of size %d", k, pr.size[k])}
		}
	}
	// S1
	holder := map[uint16]int{}
	for s, sl := range r.slots {
		if o, ok := holder[sl.w.fileKey]; ok {
			return &xMismatch{"verdict", "one-holder", i, "at most one writer per file", fmt.Sprintf("slots %d and %d both write file %d", o, s, sl.w.fileKey)}
		}
		holder[sl.w.fileKey] = s
		k := int(sl.w.fileKey)
		if k <= nk+1 && pr.state[k] != 2 {
			return &xMismatch{"verdict", "one-holder", i, fmt.Sprintf("file %d held by slot %d is an in-use entry of writers.open", k, s), fmt.Sprintf("state %d", pr.state[k])}
		}
		if k <= nk+1 && pr.wrH[k] != 1 {
			return &xMismatch{"verdict", "held-handle", i, fmt.Sprintf("exactly one open write handle on file %d (held by slot %d)", k, s), fmt.Sprint(pr.wrH[k])}
		}
		if r.gcKey != 0 && k == r.gcKey {
			return &xMismatch{"verdict", "gc-exclusive", i, fmt.Sprintf("no writer on file %d while it is compacted", k), fmt.Sprintf("slot %d holds it", s)}
		}
	}
	for k, hs := range r.readers {
		for _, h := range hs {
			if x, ok := h.ReaderAtCloser.(*xfFile); ok && x.closed.Load() > 0 {
				return &xMismatch{"verdict", "held-handle", i, fmt.Sprintf("reader handle in use on file %d stays open", k), "its file was closed"}
			}
			if !h.controllerEntry.inUse.Load() {
				return &xMismatch{"verdict", "held-handle", i, fmt.Sprintf("reader handle in use on file %d stays marked in use", k), "marked idle"}
			}
		}
		if k <= nk+1 && pr.ru[k] != len(hs) {
			return &xMismatch{"verdict", "held-handle", i, fmt.Sprintf("%d reader handles in use on file %d are pool entries", len(hs), k), fmt.Sprintf("%d in-use entries", pr.ru[k])}
		}
	}
	// S4
	mapCount, fsCount := 0, 0
	for k := 1; k <= nk+1; k++ {
		mapCount += pr.ru[k] + pr.ri[k]
		if pr.state[k] == 2 || pr.state[k] == 3 {
			mapCount++
		}
		fsCount += pr.rdH[k] + pr.wrH[k]
		gcRaw := 0
		if r.gcKey == k {
			gcRaw = 1 // the compaction's own reader on the old file
		}
		wantW := 0
		if pr.state[k] == 2 || pr.state[k] == 3 {
			wantW = 1
		}
		if pr.wrH[k] != wantW || pr.rdH[k] != pr.ru[k]+pr.ri[k]+gcRaw {
			return &xMismatch{"verdict", "descriptors", i, fmt.Sprintf("open handles on file %d = pool entries (%d writer, %d readers)", k, wantW, pr.ru[k]+pr.ri[k]+gcRaw),
				fmt.Sprintf("%d write, %d read handles", pr.wrH[k], pr.rdH[k])}
		}
	}
	if r.gcKey != 0 {
		fsCount--
	}
	if mapCount > c.max || fsCount > c.max {
		return &xMismatch{"verdict", "limit", i, fmt.Sprintf("at most %d descriptors", c.max), fmt.Sprintf("%d pool entries, %d open handles", mapCount, fsCount)}
	}
	if mapCount == c.max {
		r.cnt.AtLimit++
	}
	// S5
	if g := r.gcKey; g != 0 {
		if pr.state[g] != 4 || pr.ru[g]+pr.ri[g] != 0 || pr.wrH[g] != 0 {
			return &xMismatch{"verdict", "gc-exclusive", i, fmt.Sprintf("file %d under compaction is in no writer set and has no reader", g),
				fmt.Sprintf("state %d, %d reader entries, %d write handles", pr.state[g], pr.ru[g]+pr.ri[g], pr.wrH[g])}
		}
	}
	// S7 on the real pool
	inUse, idleSmall := 0, 0
	for k := 1; k <= nk+1; k++ {
		inUse += pr.ru[k]
		if pr.state[k] == 2 {
			inUse++
		}
		if pr.state[k] == 3 && pr.size[k] < int64(c.nominal*c.unit) {
			idleSmall++
		}
	}
	if len(r.pend) > 0 {
		if mapCount > 0 && inUse == 0 {
			r.cnt.AllIdleBlocked++
			r.findings = append(r.findings, xResult{R: "finding", Clause: "all-idle-block", Step: i,
				Exp: "an acquire does not block while every open descriptor is idle",
				Act: fmt.Sprintf("%s parked on fc.release; pool: %d descriptors, none in use", r.pend[0].id.t, mapCount)})
		}
		stuck := ""
		for _, p := range r.pend {
			if p.id.t == "w" && idleSmall > 0 {
				stuck = "OpenWriter still parked on fc.release next to an idle writer handle of a small file; the token went to a blocked acquireReader that cannot use it"
				break
			}
		}
		if stuck == "" && len(st.X) > 5 && st.X[5] == 1 {
			// the pool equals the behaviour's post-state (checked below), in which this call would return
			stuck = fmt.Sprintf("a call of %v is still parked on fc.release although the pool now lets it return", st.Pd)
		}
		if stuck != "" {
			r.cnt.Stuck++
			r.findings = append(r.findings, xResult{R: "finding", Clause: "stuck-waiter", Step: i,
				Exp: "a blocked acquire returns once the pool lets the same call, issued afresh, return", Act: stuck})
		}
		if idleSmall > 0 {
			r.cnt.Starved++
		}
		wantAllIdle, wantStuck := len(st.X) > 5 && st.X[4] == 1, len(st.X) > 5 && st.X[5] == 1
		gotAllIdle := mapCount > 0 && inUse == 0
		if gotAllIdle != wantAllIdle {
			return &xMismatch{"drift", "flags", i, fmt.Sprintf("all-idle-block=%v stuck=%v", wantAllIdle, wantStuck), fmt.Sprintf("all-idle-block=%v", gotAllIdle)}
		}
	}
	// post-state of the behaviour (drift level)
	if pr.counter != st.C {
		return &xMismatch{"drift", "counter", i, fmt.Sprint(st.C), fmt.Sprint(pr.counter)}
	}
	for k := 1; k <= nk; k++ {
		want := st.Fs[k-1]
		if want == 5 {
			want = 4
		}
		if pr.state[k] != want {
			return &xMismatch{"drift", "file-state", i, fmt.Sprintf("file %d state %d", k, want), fmt.Sprint(pr.state[k])}
		}
		if pr.size[k] != int64(st.Fz[k-1]*c.unit) {
			return &xMismatch{"drift", "file-size", i, fmt.Sprintf("file %d size %d", k, st.Fz[k-1]*c.unit), fmt.Sprint(pr.size[k])}
		}
		if pr.live[k] != int64(st.Lv[k-1]*c.unit) {
			return &xMismatch{"drift", "live", i, fmt.Sprintf("file %d live %d", k, st.Lv[k-1]*c.unit), fmt.Sprint(pr.live[k])}
		}
		if pr.ru[k] != st.Ru[k-1] || pr.ri[k] != st.Ri[k-1] {
			return &xMismatch{"drift", "readers", i, fmt.Sprintf("file %d readers in use %d idle %d", k, st.Ru[k-1], st.Ri[k-1]), fmt.Sprintf("%d / %d", pr.ru[k], pr.ri[k])}
		}
	}
	if pr.exists[nk+1] {
		return &xMismatch{"drift", "file-state", i, fmt.Sprintf("%d files", nk), fmt.Sprintf("file %d exists", nk+1)}
	}
	for s := 1; s <= len(st.Ws); s++ {
		w := st.Ws[s-1]
		sl := r.slots[s]
		if (w[0] == 1) != (sl != nil) {
			return &xMismatch{"drift", "slot", i, fmt.Sprintf("slot %d open=%v", s, w[0] == 1), fmt.Sprint(sl != nil)}
		}
		if sl != nil {
			if int(sl.w.fileKey) != w[1] || sl.w.internal.Len() != int64(w[2]*c.unit) || int64(sl.w.fileSize) != pr.size[sl.w.fileKey] {
				return &xMismatch{"drift", "slot", i, fmt.Sprintf("slot %d file %d len %d", s, w[1], w[2]*c.unit),
					fmt.Sprintf("file %d len %d tracked size %d (file %d)", sl.w.fileKey, sl.w.internal.Len(), sl.w.fileSize, pr.size[sl.w.fileKey])}
			}
		}
	}
	if len(st.Pd) != len(r.pend) {
		return &xMismatch{"drift", "blocking", i, fmt.Sprintf("%d parked calls", len(st.Pd)), fmt.Sprint(len(r.pend))}
	}
	ids := map[xCallID]int{}
	for _, p := range r.pend {
		ids[p.id]++
	}
	for _, d := range st.Pd {
		id, _, err := xTuple(d)
		if err != nil || ids[id] == 0 {
			return &xMismatch{"drift", "blocking", i, fmt.Sprintf("parked %v", d), "not parked"}
		}
		ids[id]--
	}
	if (st.Lq == 1) != (r.lockCall != nil) || st.Gc != r.gcKey {
		return &xMismatch{"drift", "gc", i, fmt.Sprintf("gc=%d lockq=%d", st.Gc, st.Lq), fmt.Sprintf("gc=%d lockq=%v", r.gcKey, r.lockCall != nil)}
	}
	// coverage of acquireWriter's branches
	if (st.A == "open" || st.A == "commit") && st.F != 0 && len(st.X) > 2 {
		r.cnt.EvictW += st.X[1]
		r.cnt.EvictR += st.X[2]
	}
	if st.A == "acqr" && len(st.X) > 2 {
		r.cnt.EvictW += st.X[1]
		r.cnt.EvictR += st.X[2]
	}
	return nil
}

// cleanup releases everything so that parked goroutines end.
func (r *xReplayer) cleanup() {
	defer func() { _ = recover() }()
	r.fs.disarm()
	if r.gcGo != nil {
		close(r.gcGo)
		_ = r.gcCall.settle(2 * time.Second)
	}
	for _, hs := range r.readers {
		for _, h := range hs {
			_ = h.Close()
		}
	}
	for _, sl := range r.slots {
		_ = sl.w.Close()
	}
	all := append(append([]*xPending{}, r.pend...), r.leaked...)
	if r.lockCall != nil {
		all = append(all, r.lockCall)
	}
	for round := 0; round < 4 && len(all) > 0; round++ {
		var rest []*xPending
		// a reader starved by idle writer handles of small files never wakes: close those too
		fc := r.db.fc
		fc.writers.Lock()
		for k, w := range fc.writers.open {
			if w.tryAcquire() {
				_ = w.HardClose()
				delete(fc.writers.open, k)
			}
		}
		fc.writers.Unlock()
		for _, p := range all {
			// wake it if it still waits
			select {
			case r.db.fc.release <- struct{}{}:
			default:
			}
			if s := p.settle(200 * time.Millisecond); s == "done" {
				if p.out.w != nil {
					_ = p.out.w.Close()
				}
				if p.out.r != nil {
					_ = p.out.r.Close()
				}
			} else {
				rest = append(rest, p)
			}
		}
		all = rest
	}
	if !r.closed && len(all) == 0 {
		_ = r.db.Close()
	}
}

func xReplayOne(c xCfg, hist []xStep) (res xResult, cnt xCounters, findings []xResult) {
	r := &xReplayer{c: c, ctx: context.Background(), fs: &xfFS{FS: xfs.NewMem()}, slots: map[int]*xSlot{}, readers: map[int][]*controlledReader{}}
	if err := r.open(); err != nil {
		return xResult{R: "inconclusive", Note: "open: " + err.Error()}, cnt, nil
	}
	capUnits := (int(r.db.fc.realFileSizeCap()) + c.unit - 1) / c.unit
	thrBytes := int64(r.db.cfg.GCThreshold * float32(r.db.cfg.FileSize))
	if int(r.db.cfg.FileSize) != c.nominal*c.unit || capUnits != c.cap || thrBytes != int64(c.thr*c.unit) || r.db.cfg.MaxDescriptors != c.max {
		// the harness's own thresholds are the reference; a tree that computes other ones is judged by the replay itself
		if int(r.db.cfg.FileSize) != c.nominal*c.unit || thrBytes != int64(c.thr*c.unit) || r.db.cfg.MaxDescriptors != c.max {
			return xResult{R: "inconclusive", Note: fmt.Sprintf("thresholds: nominal %v cap %v thr %v max %v for unit %d", r.db.cfg.FileSize, r.db.fc.realFileSizeCap(), thrBytes, r.db.cfg.MaxDescriptors, c.unit)}, cnt, nil
		}
	}
	res = xResult{R: "ok"}
	for i, st := range hist {
		var m *xMismatch
		func() {
			defer func() {
				if p := recover(); p != nil {
					buf := make([]byte, 4096)
					buf = buf[:runtime.Stack(buf, false)]
					m = &xMismatch{"drift", "harness-panic", i, "", fmt.Sprint(p) + " " + string(buf)}
				}
			}()
			m = r.step(i, st)
		}()
		if m != nil {
			res = xResult{R: "mismatch", Kind: m.kind, Clause: m.clause, Step: m.step, Exp: m.exp, Act: m.act}
			break
		}
	}
	r.cleanup()
	return res, r.cnt, r.findings
}

func xEnvInt(name string, def int) int {
	v, err := strconv.Atoi(os.Getenv(name))
	if err != nil {
		return def
	}
	return v
}

func xLogger(t *testing.T) alamos.Instrumentation {
	zc := zap.NewDevelopmentConfig()
	zc.Level.SetLevel(zap.FatalLevel)
	l, err := alamos.NewLogger(alamos.LoggerConfig{ZapConfig: zc})
	if err != nil {
		t.Fatal(err)
	}
	return alamos.New("verif-x01", alamos.WithLogger(l))
}

func TestVerifFCReplay(t *testing.T) {
	in, out := os.Getenv("VERIF_IN"), os.Getenv("VERIF_OUT")
	if in == "" || out == "" {
		t.Skip("VERIF_IN/VERIF_OUT not set")
	}
	base := xCfg{
		unit: xEnvInt("VERIF_UNIT", 4), nominal: xEnvInt("VERIF_NOMINAL", 2), cap: xEnvInt("VERIF_CAP", 3),
		thr: xEnvInt("VERIF_THR", 1), max: xEnvInt("VERIF_MAX", 2), persist: os.Getenv("VERIF_PERSIST") == "1",
		ins: xLogger(t), hang: time.Duration(xEnvInt("VERIF_HANG_MS", 8000)) * time.Millisecond,
	}
	vary := os.Getenv("VERIF_VARY") == "1"
	seed := xEnvInt("VERIF_SEED", 1)
	f, err := os.Open(in)
	if err != nil {
		t.Fatal(err)
	}
	defer f.Close()
	type job struct {
		i    int
		line []byte
	}
	type done struct {
		res      xResult
		cnt      xCounters
		findings []xResult
	}
	jobs := make(chan job, 256)
	results := make(chan done, 256)
	var wg sync.WaitGroup
	nw := runtime.GOMAXPROCS(0)
	if v := xEnvInt("VERIF_WORKERS", 0); v > 0 {
		nw = v
	}
	for w := 0; w < nw; w++ {
		wg.Add(1)
		go func() {
			defer wg.Done()
			for j := range jobs {
				var hist []xStep
				if err := json.Unmarshal(j.line, &hist); err != nil {
					results <- done{res: xResult{I: j.i, R: "inconclusive", Note: err.Error()}}
					continue
				}
				c := base
				if vary {
					k := j.i + seed
					c.unit = []int{4, 1, 3, 8}[k%4]
					c.persist = (k/4)%2 == 1
				}
				res, cnt, fnd := xReplayOne(c, hist)
				res.I = j.i
				for k := range fnd {
					fnd[k].I = j.i
					fnd[k].Note = fmt.Sprintf("unit=%d persist=%v", c.unit, c.persist)
				}
				if res.R != "ok" {
					res.Note = fmt.Sprintf("unit=%d persist=%v %s", c.unit, c.persist, res.Note)
				}
				results <- done{res, cnt, fnd}
			}
		}()
	}
	go func() {
		sc := bufio.NewScanner(f)
		sc.Buffer(make([]byte, 1<<20), 1<<26)
		i := 0
		for sc.Scan() {
			b := append([]byte(nil), sc.Bytes()...)
			if len(b) == 0 {
				continue
			}
			jobs <- job{i: i, line: b}
			i++
		}
		close(jobs)
		wg.Wait()
		close(results)
	}()
	var (
		bad   []xResult
		fnd   = map[string][]xResult{}
		total xCounters
		n     int
	)
	for d := range results {
		n++
		total.add(&d.cnt)
		if d.res.R != "ok" {
			bad = append(bad, d.res)
		}
		for _, f := range d.findings {
			if len(fnd[f.Clause]) < 8 {
				fnd[f.Clause] = append(fnd[f.Clause], f)
			}
		}
	}
	sort.Slice(bad, func(a, b int) bool {
		if (bad[a].Kind == "verdict") != (bad[b].Kind == "verdict") {
			return bad[a].Kind == "verdict"
		}
		return bad[a].I < bad[b].I
	})
	of, err := os.Create(out)
	if err != nil {
		t.Fatal(err)
	}
	defer of.Close()
	enc := json.NewEncoder(of)
	_ = enc.Encode(map[string]any{"summary": true, "replayed": n, "bad": len(bad), "counters": total, "goroutines_left": runtime.NumGoroutine()})
	for k, r := range bad {
		if k >= 200 {
			break
		}
		_ = enc.Encode(r)
	}
	for _, fs := range fnd {
		sort.Slice(fs, func(a, b int) bool { return len(fs) > 0 && (fs[a].I < fs[b].I || fs[a].I == fs[b].I && fs[a].Step < fs[b].Step) })
		for _, r := range fs[:min(len(fs), 3)] {
			_ = enc.Encode(r)
		}
	}
}
