//go:build verif

// Replay of Control.tla behaviours into the real control.Controller (C05, DESIGN.md).
// Injected with `go test -overlay`; never part of /repo.
package control

import (
	"bufio"
	"encoding/json"
	"fmt"
	"math/rand"
	"os"
	"runtime"
	"sort"
	"strconv"
	"strings"
	"sync"
	"sync/atomic"
	"testing"

	"github.com/synnaxlabs/cesium/internal/channel"
	xcontrol "github.com/synnaxlabs/x/control"
	"github.com/synnaxlabs/x/errors"
	"github.com/synnaxlabs/x/telem"
	"github.com/synnaxlabs/x/validate"
)

type vRes struct{ key channel.Key }

func (r vRes) ChannelKey() channel.Key { return r.key }

type vSt struct {
	S string `json:"s"`
	A int    `json:"a"`
}
type vXfer struct {
	From vSt `json:"from"`
	To   vSt `json:"to"`
}
type vStep struct {
	A     string          `json:"a"`
	S     string          `json:"s"`
	Auth  int             `json:"auth"`
	EU    bool            `json:"eu"`
	Lo    int             `json:"lo"`
	Hi    int             `json:"hi"`
	Xfer  vXfer           `json:"xfer"`
	Err   string          `json:"err"`
	Curr  string          `json:"curr"`
	Authz map[string]bool `json:"authz"`
	Open  map[string]bool `json:"open"`
}

type vResult struct {
	I    int    `json:"i"`
	R    string `json:"r"`
	Step int    `json:"step,omitempty"`
	Exp  string `json:"exp,omitempty"`
	Act  string `json:"act,omitempty"`
	Note string `json:"note,omitempty"`
}

func vStateOf(s *State) vSt {
	if s == nil {
		return vSt{S: "none"}
	}
	return vSt{S: s.Subject.Key, A: int(s.Authority)}
}

func vErrClass(err error) string {
	switch {
	case err == nil:
		return "nil"
	case errors.Is(err, xcontrol.ErrUnauthorized):
		return "unauthorized"
	case errors.Is(err, validate.ErrValidation):
		return "validation"
	}
	return "other:" + err.Error()
}

// vReplay steps a fresh controller through one history and returns the first
// disagreement with the specification-computed outputs / post-state.
func vReplay(hist []vStep, shared bool) (step int, exp, act string) {
	conc := xcontrol.ConcurrencyExclusive
	if shared {
		conc = xcontrol.ConcurrencyShared
	}
	c, err := New[vRes](Config{Concurrency: conc})
	if err != nil {
		return 0, "controller", err.Error()
	}
	gates := map[string]*Gate[vRes]{}
	tr := telem.TimeRange{Start: 10, End: 20}
	for i, st := range hist {
		var t Transfer
		errc := "nil"
		switch st.A {
		case "open":
			eu := st.EU
			otr := tr
			if st.Hi > st.Lo {
				// regions mode (ControlRegions.tla): the gate's own time range
				otr = telem.TimeRange{Start: telem.TimeStamp(100 + st.Lo), End: telem.TimeStamp(100 + st.Hi)}
			}
			g, tt, err := c.OpenGate(GateConfig[vRes]{
				OpenResource:          func() (vRes, error) { return vRes{key: 7}, nil },
				Subject:               xcontrol.Subject{Key: st.S, Name: st.S},
				TimeRange:             otr,
				Authority:             xcontrol.Authority(st.Auth),
				ErrOnUnauthorizedOpen: &eu,
			})
			t = tt
			errc = vErrClass(err)
			if err == nil {
				gates[st.S] = g
			}
		case "set":
			t = gates[st.S].SetAuthority(xcontrol.Authority(st.Auth))
		case "release":
			_, t = gates[st.S].Release()
			delete(gates, st.S)
		}
		if errc != st.Err && !(st.Err == "other" && strings.HasPrefix(errc, "other")) {
			return i, "err=" + st.Err, "err=" + errc
		}
		got := vXfer{From: vStateOf(t.From), To: vStateOf(t.To)}
		// the spec represents "no transfer" as from = to = none; the code returns a
		// zero Transfer. A self-transfer with identical state is also "did not occur".
		if !t.Occurred() {
			got = vXfer{From: vSt{S: "none"}, To: vSt{S: "none"}}
		}
		want := st.Xfer
		if want.From == want.To {
			want = vXfer{From: vSt{S: "none"}, To: vSt{S: "none"}}
		}
		if got != want {
			return i, fmt.Sprintf("xfer=%+v", want), fmt.Sprintf("xfer=%+v", got)
		}
		if st.Curr != "" { // single-region mode only
			curr := vStateOf(c.LeadingState()).S
			if curr != st.Curr {
				return i, "curr=" + st.Curr, "curr=" + curr
			}
		}
		for s, open := range st.Open {
			_, held := gates[s]
			if open != held {
				return i, fmt.Sprintf("open[%s]=%v", s, open), fmt.Sprintf("open[%s]=%v", s, held)
			}
			if !held {
				continue
			}
			_, aerr := gates[s].Authorize()
			if (aerr == nil) != st.Authz[s] {
				return i, fmt.Sprintf("authorized[%s]=%v", s, st.Authz[s]), fmt.Sprintf("authorized[%s]=%v (%v)", s, aerr == nil, aerr)
			}
			if aerr != nil && !errors.Is(aerr, xcontrol.ErrUnauthorized) {
				return i, "unauthorized error class", aerr.Error()
			}
		}
	}
	return -1, "", ""
}

func TestVerifControlReplay(t *testing.T) {
	in, out := os.Getenv("VERIF_IN"), os.Getenv("VERIF_OUT")
	if in == "" || out == "" {
		t.Skip("VERIF_IN/VERIF_OUT not set")
	}
	shared := os.Getenv("VERIF_SHARED") == "1"
	reps, _ := strconv.Atoi(os.Getenv("VERIF_REPS"))
	if reps <= 0 {
		reps = 8
	}
	f, err := os.Open(in)
	if err != nil {
		t.Fatal(err)
	}
	defer f.Close()
	type job struct {
		i    int
		line []byte
	}
	jobs := make(chan job, 256)
	results := make(chan vResult, 256)
	var wg sync.WaitGroup
	for w := 0; w < runtime.GOMAXPROCS(0); w++ {
		wg.Add(1)
		go func() {
			defer wg.Done()
			for j := range jobs {
				var hist []vStep
				if err := json.Unmarshal(j.line, &hist); err != nil {
					results <- vResult{I: j.i, R: "inconclusive", Note: err.Error()}
					continue
				}
				res := vResult{I: j.i, R: "ok"}
				// Go randomises map iteration order on every range statement: repeat
				// to expose order-dependent election of the next holder.
				for r := 0; r < reps; r++ {
					func() {
						defer func() {
							if p := recover(); p != nil {
								res = vResult{I: j.i, R: "mismatch", Step: -1, Exp: "no panic", Act: fmt.Sprint(p)}
							}
						}()
						if step, exp, act := vReplay(hist, shared); step >= 0 {
							res = vResult{I: j.i, R: "mismatch", Step: step, Exp: exp, Act: act}
						}
					}()
					if res.R != "ok" {
						break
					}
				}
				results <- res
			}
		}()
	}
	go func() {
		sc := bufio.NewScanner(f)
		sc.Buffer(make([]byte, 1<<20), 1<<26)
		i := 0
		for sc.Scan() {
			b := append([]byte(nil), sc.Bytes()...)
			if len(b) == 0 {
				continue
			}
			jobs <- job{i: i, line: b}
			i++
		}
		close(jobs)
		wg.Wait()
		close(results)
	}()
	var all []vResult
	n := 0
	for r := range results {
		n++
		if r.R != "ok" {
			all = append(all, r)
		}
	}
	sort.Slice(all, func(a, b int) bool { return all[a].I < all[b].I })
	of, err := os.Create(out)
	if err != nil {
		t.Fatal(err)
	}
	defer of.Close()
	enc := json.NewEncoder(of)
	_ = enc.Encode(map[string]any{"summary": true, "replayed": n, "bad": len(all), "reps": reps})
	for _, r := range all {
		_ = enc.Encode(r)
	}
}

// ---------------------------------------------------------------- concurrent traces

type vcEvent struct {
	Ev   string `json:"ev"`
	S    string `json:"s,omitempty"`
	Op   string `json:"op,omitempty"`
	Auth int    `json:"auth"`
	EU   bool   `json:"eu"`
	Err  string `json:"err,omitempty"`
	Xfer *vXfer `json:"xfer,omitempty"`
	OK   bool   `json:"ok"`
	seq  int64
}

// TestVerifControlConcurrent drives one controller from one goroutine per subject and
// records call/ret events ordered by a global atomic counter (C05, schedules).
func TestVerifControlConcurrent(t *testing.T) {
	out := os.Getenv("VERIF_OUT")
	if out == "" {
		t.Skip("VERIF_OUT not set")
	}
	shared := os.Getenv("VERIF_SHARED") == "1"
	seed, _ := strconv.ParseInt(os.Getenv("VERIF_SEED"), 10, 64)
	rounds, _ := strconv.Atoi(os.Getenv("VERIF_ROUNDS"))
	if rounds <= 0 {
		rounds = 100
	}
	opsPer, _ := strconv.Atoi(os.Getenv("VERIF_OPS"))
	if opsPer <= 0 {
		opsPer = 6
	}
	subjects := []string{"s1", "s2", "s3"}
	of, err := os.Create(out)
	if err != nil {
		t.Fatal(err)
	}
	defer of.Close()
	w := bufio.NewWriter(of)
	defer w.Flush()
	enc := json.NewEncoder(w)
	conc := xcontrol.ConcurrencyExclusive
	if shared {
		conc = xcontrol.ConcurrencyShared
	}
	for round := 0; round < rounds; round++ {
		_ = enc.Encode(vcEvent{Ev: "reset"})
		c, err := New[vRes](Config{Concurrency: conc})
		if err != nil {
			t.Fatal(err)
		}
		var (
			seq    atomic.Int64
			mu     sync.Mutex
			events []vcEvent
			wg     sync.WaitGroup
			start  = make(chan struct{})
		)
		log := func(e vcEvent) {
			mu.Lock()
			events = append(events, e)
			mu.Unlock()
		}
		for si, s := range subjects {
			wg.Add(1)
			go func(si int, s string) {
				defer wg.Done()
				rnd := rand.New(rand.NewSource(seed*1000003 + int64(round)*131 + int64(si)))
				var gate *Gate[vRes]
				<-start
				for k := 0; k < opsPer; k++ {
					if rnd.Intn(3) == 0 {
						runtime.Gosched()
					}
					op := "open"
					if gate != nil {
						op = []string{"set", "authorize", "release", "set", "authorize", "open"}[rnd.Intn(6)]
					}
					auth := rnd.Intn(3)
					eu := rnd.Intn(4) == 0
					call := vcEvent{Ev: "call", S: s, Op: op, Auth: auth, EU: eu}
					call.seq = seq.Add(1)
					log(call)
					ret := vcEvent{Ev: "ret", S: s, Op: op, Auth: auth, EU: eu}
					var tr Transfer
					switch op {
					case "open":
						euv := eu
						g, tt, err := c.OpenGate(GateConfig[vRes]{
							OpenResource:          func() (vRes, error) { return vRes{key: 7}, nil },
							Subject:               xcontrol.Subject{Key: s, Name: s},
							TimeRange:             telem.TimeRange{Start: 10, End: 20},
							Authority:             xcontrol.Authority(auth),
							ErrOnUnauthorizedOpen: &euv,
						})
						tr = tt
						ret.Err = vErrClass(err)
						if err == nil {
							gate = g
						}
					case "set":
						tr = gate.SetAuthority(xcontrol.Authority(auth))
						ret.Err = "nil"
					case "release":
						_, tr = gate.Release()
						gate = nil
						ret.Err = "nil"
					case "authorize":
						_, aerr := gate.Authorize()
						ret.OK = aerr == nil
					}
					if op != "authorize" {
						x := vXfer{From: vStateOf(tr.From), To: vStateOf(tr.To)}
						if !tr.Occurred() {
							x = vXfer{From: vSt{S: "none"}, To: vSt{S: "none"}}
						}
						ret.Xfer = &x
					}
					ret.seq = seq.Add(1)
					log(ret)
				}
				if gate != nil {
					call := vcEvent{Ev: "call", S: s, Op: "release"}
					call.seq = seq.Add(1)
					log(call)
					_, tr := gate.Release()
					x := vXfer{From: vStateOf(tr.From), To: vStateOf(tr.To)}
					if !tr.Occurred() {
						x = vXfer{From: vSt{S: "none"}, To: vSt{S: "none"}}
					}
					ret := vcEvent{Ev: "ret", S: s, Op: "release", Err: "nil", Xfer: &x}
					ret.seq = seq.Add(1)
					log(ret)
				}
			}(si, s)
		}
		close(start)
		wg.Wait()
		sort.Slice(events, func(a, b int) bool { return events[a].seq < events[b].seq })
		for _, e := range events {
			_ = enc.Encode(e)
		}
	}
}
