//go:build verif

// C02: crash-prefix enumeration. The scripts of CesiumStore.tla are executed on a
// recording file system; for EVERY prefix of the sequence of file-system mutations (plus
// torn variants of the last write) a fresh image is built, cesium.Open is run on it and
// every channel is read back and judged against the store oracle.
// Uses the runner / concretiser of zz_verif_store_test.go (same package).
package cesium

import (
	"bufio"
	"bytes"
	"context"
	"encoding/json"
	"fmt"
	"math/rand"
	"os"
	"path"
	"runtime"
	"sort"
	"strconv"
	"strings"
	"sync"
	"sync/atomic"
	"testing"
	"time"

	xfs "github.com/synnaxlabs/x/io/fs"
	"github.com/synnaxlabs/x/telem"
)

// ---------------------------------------------------------------- recording FS

type vcImage struct {
	Files map[string][]byte
	Dirs  map[string]bool
	What  string // the mutation that produced this image
}

type vcRecorder struct {
	mu     sync.Mutex
	inner  *xfs.MemFS
	images []vcImage
}

func (r *vcRecorder) snap(what string) {
	r.mu.Lock()
	defer r.mu.Unlock()
	img := vcImage{Files: map[string][]byte{}, Dirs: map[string]bool{}, What: what}
	var walk func(dir string)
	walk = func(dir string) {
		entries, err := r.inner.List(dir)
		if err != nil {
			return
		}
		for _, e := range entries {
			p := path.Join(dir, e.Name())
			if e.IsDir() {
				img.Dirs[p] = true
				walk(p)
				continue
			}
			f, err := r.inner.Open(p, os.O_RDONLY)
			if err != nil {
				continue
			}
			b := make([]byte, e.Size())
			_, _ = f.ReadAt(b, 0)
			_ = f.Close()
			img.Files[p] = b
		}
	}
	walk("")
	r.images = append(r.images, img)
}

type vcFS struct {
	rec *vcRecorder
	dir string
}

var _ xfs.FS = (*vcFS)(nil)

func (f *vcFS) p(name string) string { return path.Join(f.dir, name) }

func (f *vcFS) Open(name string, flag int) (xfs.File, error) {
	existed, _ := f.rec.inner.Exists(f.p(name))
	file, err := f.rec.inner.Open(f.p(name), flag)
	if err != nil {
		return nil, err
	}
	if (flag&os.O_CREATE != 0 && !existed) || flag&os.O_TRUNC != 0 {
		f.rec.snap("create " + f.p(name))
	}
	return &vcFile{File: file, rec: f.rec, name: f.p(name)}, nil
}

func (f *vcFS) Sub(name string) (xfs.FS, error) {
	existed, _ := f.rec.inner.Exists(f.p(name))
	if _, err := f.rec.inner.Sub(f.p(name)); err != nil {
		return nil, err
	}
	if !existed {
		f.rec.snap("mkdir " + f.p(name))
	}
	return &vcFS{rec: f.rec, dir: f.p(name)}, nil
}

func (f *vcFS) List(name string) ([]xfs.FileInfo, error) { return f.rec.inner.List(f.p(name)) }
func (f *vcFS) Exists(name string) (bool, error)          { return f.rec.inner.Exists(f.p(name)) }
func (f *vcFS) Stat(name string) (xfs.FileInfo, error)    { return f.rec.inner.Stat(f.p(name)) }
func (f *vcFS) Remove(name string) error {
	err := f.rec.inner.Remove(f.p(name))
	f.rec.snap("remove " + f.p(name))
	return err
}
func (f *vcFS) Rename(a, b string) error {
	err := f.rec.inner.Rename(f.p(a), f.p(b))
	f.rec.snap("rename " + f.p(a) + " -> " + f.p(b))
	return err
}

type vcFile struct {
	xfs.File
	rec  *vcRecorder
	name string
}

func (f *vcFile) Write(p []byte) (int, error) {
	n, err := f.File.Write(p)
	f.rec.snap(fmt.Sprintf("write %s +%d", f.name, len(p)))
	return n, err
}
func (f *vcFile) WriteAt(p []byte, off int64) (int, error) {
	n, err := f.File.WriteAt(p, off)
	f.rec.snap(fmt.Sprintf("writeat %s @%d +%d", f.name, off, len(p)))
	return n, err
}
func (f *vcFile) Truncate(n int64) error {
	err := f.File.Truncate(n)
	f.rec.snap(fmt.Sprintf("truncate %s %d", f.name, n))
	return err
}

func vcBuild(img vcImage) *xfs.MemFS {
	m := xfs.NewMem()
	dirs := make([]string, 0, len(img.Dirs))
	for d := range img.Dirs {
		dirs = append(dirs, d)
	}
	sort.Strings(dirs)
	for _, d := range dirs {
		_, _ = m.Sub(d)
	}
	for p, b := range img.Files {
		f, err := m.Open(p, os.O_CREATE|os.O_WRONLY)
		if err != nil {
			continue
		}
		_, _ = f.Write(b)
		_ = f.Close()
	}
	return m
}

// vcTorn returns images in which the last content change of `cur` relative to `prev` is
// only partially applied (process-crash model: a prefix of the bytes of the last write).
func vcTorn(prev, cur vcImage) []vcImage {
	var out []vcImage
	if !strings.HasPrefix(cur.What, "write") {
		return nil // create, truncate, rename, remove and mkdir are atomic
	}
	for p, nb := range cur.Files {
		ob, ok := prev.Files[p]
		if ok && bytes.Equal(ob, nb) {
			continue
		}
		if len(nb) < len(ob) && bytes.Equal(ob[:len(nb)], nb) {
			continue // pure truncate: atomic
		}
		f := 0
		for f < len(ob) && f < len(nb) && ob[f] == nb[f] {
			f++
		}
		n := len(nb) - f
		seen := map[int]bool{}
		for _, m := range []int{1, n / 2, n - 1} {
			if m <= 0 || m >= n || seen[m] {
				continue
			}
			seen[m] = true
			tb := append([]byte(nil), nb[:f+m]...)
			if len(ob) > f+m {
				tb = append(tb, ob[f+m:]...)
			}
			img := vcImage{Files: map[string][]byte{}, Dirs: cur.Dirs, What: fmt.Sprintf("%s [torn %d/%d]", cur.What, m, n)}
			for q, b := range cur.Files {
				img.Files[q] = b
			}
			img.Files[p] = tb
			out = append(out, img)
		}
	}
	return out
}

// ---------------------------------------------------------------- oracle bookkeeping

type vcSample struct{ T, ID int }

type vcSession struct {
	chans   []string
	auto    bool
	commits [][]vcSample // in commit order (per commit: the samples it made visible)
	pending []vcSample   // written, not yet committed
	deleted bool         // a delete touched this session's samples: skip the prefix clause
}

type vcOracle struct {
	must     map[string]map[vcSample]bool // durable: must be readable after any later crash
	may      map[string]map[vcSample]bool // ever committed (incl. by the op in progress)
	written  map[string]map[vcSample]bool // ever handed to Write for that channel
	sessions []*vcSession
	open     map[string]*vcSession
}

func newVcOracle() *vcOracle {
	o := &vcOracle{must: map[string]map[vcSample]bool{}, may: map[string]map[vcSample]bool{}, written: map[string]map[vcSample]bool{}, open: map[string]*vcSession{}}
	for _, c := range []string{"I", "D", "V"} {
		o.must[c], o.may[c], o.written[c] = map[vcSample]bool{}, map[vcSample]bool{}, map[vcSample]bool{}
	}
	return o
}

func (o *vcOracle) clone() *vcOracle {
	n := newVcOracle()
	for _, ch := range []string{"I", "D", "V"} {
		for k := range o.must[ch] {
			n.must[ch][k] = true
		}
		for k := range o.may[ch] {
			n.may[ch][k] = true
		}
		for k := range o.written[ch] {
			n.written[ch][k] = true
		}
	}
	for _, s := range o.sessions {
		cp := &vcSession{chans: s.chans, auto: s.auto, deleted: s.deleted, pending: append([]vcSample(nil), s.pending...)}
		for _, cm := range s.commits {
			cp.commits = append(cp.commits, append([]vcSample(nil), cm...))
		}
		n.sessions = append(n.sessions, cp)
	}
	return n
}

type vcCrashStats struct {
	images, torn, opens, histories, skippedTainted atomic.Int64
}

type vcFinding struct {
	Tags  []string `json:"tags"`
	Kind  string `json:"kind"`
	Op    int    `json:"op"`
	OpStr string `json:"opstr"`
	Image string `json:"image"`
	Exp   string `json:"exp,omitempty"`
	Act   string `json:"act,omitempty"`
}

type vcResult struct {
	I    int         `json:"i"`
	R    string      `json:"r"`
	Conc vsConc      `json:"conc"`
	F    *vcFinding  `json:"f,omitempty"`
	Fs   []vcFinding `json:"fs,omitempty"` // every distinct (kind, mutation kind) finding of this script
}

func (r *vsRunner) dbOpts() []Option {
	opts := []Option{}
	if r.c.FileCap != 0 {
		opts = append(opts, WithFileSizeCap(telem.Size(r.c.FileCap)))
	}
	if r.c.GCThresh == 0 {
		opts = append(opts, WithGCConfig(GCConfig{Threshold: 1e-9, TryInterval: time.Hour}))
	} else {
		opts = append(opts, WithGCConfig(GCConfig{TryInterval: time.Hour}))
	}
	return opts
}

// vcTags names the structural crash windows an image is in (decoded from the image
// itself, independent of which mutation happened to be the last one):
//   create-window   a channel directory without meta.json
//   torn-index      the last mutation is a torn write of an index.domain
//   truncate-window the last mutation is a Truncate of an index.domain (WriteAt pending)
//   gc-swap         a _gc / _temp data file exists, or a persisted pointer addresses bytes
//                   beyond its data file / a missing data file (offsets not yet persisted)
//   data-ahead      a data channel's persisted index holds a domain that the persisted
//                   index of its index channel does not cover (multi-channel commit window)
func vcTags(img vcImage) []string {
	tags := map[string]bool{}
	dirs := map[string]bool{}
	for d := range img.Dirs {
		dirs[d] = true
	}
	for d := range dirs {
		if _, err := strconv.Atoi(d); err == nil {
			if _, ok := img.Files[d+"/meta.json"]; !ok {
				tags["create-window"] = true
			}
		}
	}
	if strings.HasPrefix(img.What, "writeat") && strings.Contains(img.What, "index.domain") && strings.Contains(img.What, "[torn") {
		tags["torn-index"] = true
	}
	if strings.HasPrefix(img.What, "truncate") && strings.Contains(img.What, "index.domain") {
		tags["truncate-window"] = true
	}
	type ptr struct {
		lo, hi   telem.TimeStamp
		file     uint16
		off, siz uint32
	}
	ptrs := map[string][]ptr{}
	for p, b := range img.Files {
		if strings.HasSuffix(p, "_gc") || strings.HasSuffix(p, "_temp") {
			tags["gc-swap"] = true
		}
		if strings.HasSuffix(p, "/index.domain") {
			ch := strings.SplitN(p, "/", 2)[0]
			for i := 0; i+26 <= len(b); i += 26 {
				ptrs[ch] = append(ptrs[ch], ptr{telem.TimeStamp(telem.ByteOrder.Uint64(b[i : i+8])), telem.TimeStamp(telem.ByteOrder.Uint64(b[i+8 : i+16])),
					telem.ByteOrder.Uint16(b[i+16 : i+18]), telem.ByteOrder.Uint32(b[i+18 : i+22]), telem.ByteOrder.Uint32(b[i+22 : i+26])})
			}
		}
	}
	for ch, ps := range ptrs {
		for _, p := range ps {
			if p.file == 0 && p.lo == 0 && p.hi == 0 && p.siz == 0 {
				// an all-zero record: the file was extended by Truncate and the record was
				// never written. Legitimate only while that WriteAt is still pending.
				pendingWrite := strings.HasPrefix(img.What, "truncate "+ch+"/index.domain") ||
					(strings.HasPrefix(img.What, "writeat "+ch+"/index.domain") && strings.Contains(img.What, "[torn"))
				if !pendingWrite {
					tags["index-hole"] = true
				}
				continue
			}
			f, ok := img.Files[fmt.Sprintf("%s/%d.domain", ch, p.file)]
			if !ok || int(p.off)+int(p.siz) > len(f) {
				tags["gc-swap"] = true
			}
		}
	}
	idx := ptrs[strconv.Itoa(int(vsKeyI))]
	for _, ch := range []ChannelKey{vsKeyD, vsKeyV} {
		for _, p := range ptrs[strconv.Itoa(int(ch))] {
			covered := false
			for _, q := range idx {
				if q.lo <= p.lo && p.hi <= q.hi {
					covered = true
				}
			}
			// adjacent index domains (rollover) cover jointly
			if !covered {
				lo := p.lo
				for progress := true; progress; {
					progress = false
					for _, q := range idx {
						if q.lo <= lo && lo < q.hi {
							lo = q.hi
							progress = true
						}
					}
				}
				covered = lo >= p.hi
			}
			if !covered {
				tags["data-ahead"] = true
			}
		}
	}
	if tags["index-hole"] {
		// not one of the named windows of the code as it is: never attributed to them
		return []string{"index-hole"}
	}
	var out []string
	for t := range tags {
		out = append(out, t)
	}
	sort.Strings(out)
	return out
}

// vcCheckImage opens the image and judges what it reads back.
func (r *vsRunner) vcCheckImage(img vcImage, o *vcOracle, inProgress *vsStep, delRange map[string][2]int) *vcFinding {
	m := vcBuild(img)
	db, err := Open(context.Background(), "", append(r.dbOpts(), WithFS(m))...)
	if err != nil {
		return &vcFinding{Kind: "reopen fails", Act: err.Error()}
	}
	defer func() { _ = db.Close() }()
	for _, ch := range []string{"I", "D", "V"} {
		key := vsKeys[ch]
		if _, err := db.RetrieveChannel(context.Background(), key); err != nil {
			// channel not (yet / any more) present: nothing may be required of it
			if len(o.must[ch]) > 0 {
				return &vcFinding{Kind: "durable data lost", Exp: fmt.Sprintf("channel %s with %d durable samples", ch, len(o.must[ch])), Act: "channel missing: " + err.Error()}
			}
			continue
		}
		fr, err := db.Read(context.Background(), telem.TimeRangeMax, key)
		if err != nil {
			return &vcFinding{Kind: "read fails after recovery", Act: fmt.Sprintf("channel %s: %v", ch, err)}
		}
		// decode
		rev := map[string]vcSample{}
		for s := range o.written[ch] {
			var b []byte
			switch ch {
			case "I":
				b = telem.NewSeriesV[telem.TimeStamp](r.c.ts(s.T)).Data
			case "D":
				b = r.c.dVal(s.T, s.ID)
			case "V":
				b = r.c.vVal(s.T, s.ID)
			}
			rev[string(b)] = s
		}
		got := map[vcSample]bool{}
		lastT := -1
		for _, s := range fr.SeriesSlice() {
			for smp := range s.Samples() {
				v, ok := rev[string(smp)]
				if !ok {
					return &vcFinding{Kind: "garbage read", Act: fmt.Sprintf("channel %s returned bytes %x never written to it", ch, smp)}
				}
				if ch != "I" {
					// the same (t,id) may legitimately exist once only
					if got[v] {
						return &vcFinding{Kind: "garbage read", Act: fmt.Sprintf("channel %s returned sample t=%d id=%d twice", ch, v.T, v.ID)}
					}
				}
				if v.T <= lastT {
					return &vcFinding{Kind: "garbage read", Act: fmt.Sprintf("channel %s not in ascending time order (t=%d after t=%d)", ch, v.T, lastT)}
				}
				lastT = v.T
				got[v] = true
			}
		}
		if vsDebug {
			var ts []string
			for _, s := range fr.SeriesSlice() {
				ts = append(ts, fmt.Sprintf("series n=%d tr=[%s,%s)", s.Len(), r.c.abs(s.TimeRange.Start), r.c.abs(s.TimeRange.End)))
			}
			fmt.Printf("    read %s: %v got=%v\n", ch, ts, got)
		}
		// the index channel's value is its timestamp: identify its id through `may`
		if ch == "I" {
			g2 := map[vcSample]bool{}
			for v := range got {
				found := false
				for s := range o.may[ch] {
					if s.T == v.T {
						g2[s] = true
						found = true
					}
				}
				if !found {
					return &vcFinding{Kind: "uncommitted data visible", Act: fmt.Sprintf("channel I returned timestamp of abstract time %d which was never committed", v.T)}
				}
			}
			got = g2
		}
		for s := range o.must[ch] {
			if dr, ok := delRange[ch]; ok && dr[0] <= s.T && s.T < dr[1] {
				continue
			}
			if ch == "I" {
				okT := false
				for g := range got {
					if g.T == s.T {
						okT = true
					}
				}
				if okT {
					continue
				}
			}
			if !got[s] {
				return &vcFinding{Kind: "durable data lost", Exp: fmt.Sprintf("channel %s sample t=%d id=%d (committed with index persistence / closed writer)", ch, s.T, s.ID), Act: "missing after reopen"}
			}
		}
		{
			if ch != "I" {
				for g := range got {
					if !o.may[ch][g] {
						return &vcFinding{Kind: "uncommitted data visible", Act: fmt.Sprintf("channel %s returned sample t=%d id=%d that was never committed", ch, g.T, g.ID)}
					}
				}
			}
			// per-session prefix consistency (for the index channel `got` was mapped to the
			// committed identities at those times above)
			for _, s := range o.sessions {
				if s.deleted || !vcHas(s.chans, ch) {
					continue
				}
				gap := false
				for _, cm := range s.commits {
					n := 0
					for _, smp := range cm {
						if got[smp] {
							n++
						}
					}
					if n != 0 && n != len(cm) {
						return &vcFinding{Kind: "non-prefix state", Act: fmt.Sprintf("channel %s holds part of one commit (%d of %d samples)", ch, n, len(cm))}
					}
					if n == 0 {
						gap = true
					} else if gap {
						return &vcFinding{Kind: "non-prefix state", Act: fmt.Sprintf("channel %s holds a later commit of a writer session without an earlier one", ch)}
					}
				}
			}
		}
		// every durable sample must also be found by a POINT read (seek by time through the
		// recovered index, not the linear traversal of the full read above)
		for s := range o.must[ch] {
			if dr, ok := delRange[ch]; ok && dr[0] <= s.T && s.T < dr[1] {
				continue
			}
			if ch != "I" && !got[s] {
				continue
			}
			ts := r.c.ts(s.T)
			pf, err := db.Read(context.Background(), telem.TimeRange{Start: ts, End: ts + 1}, key)
			n := 0
			if err == nil {
				for _, sr := range pf.SeriesSlice() {
					n += int(sr.Len())
				}
			}
			if err != nil || n != 1 {
				return &vcFinding{Kind: "durable data lost", Exp: fmt.Sprintf("channel %s sample t=%d found by a point read (the full read returns it)", ch, s.T),
					Act: fmt.Sprintf("point read returned %d samples (err %v)", n, err)}
			}
		}
	}
	return nil
}

func vcHas(xs []string, x string) bool {
	for _, y := range xs {
		if y == x {
			return true
		}
	}
	return false
}

// advance updates the oracle for a COMPLETED step.
func (o *vcOracle) advance(st vsStep, c vsConc) {
	switch st.A {
	case "open":
		if st.Res != "ok" {
			return
		}
		var a vsOpenArgs
		_ = json.Unmarshal(st.Args, &a)
		s := &vcSession{chans: a.Chans, auto: a.Auto}
		o.sessions = append(o.sessions, s)
		o.open[a.W] = s
	case "write":
		if st.Res != "ok" {
			return // a refused write commits nothing
		}
		var a vsWriteArgs
		_ = json.Unmarshal(st.Args, &a)
		s := o.open[a.W]
		var smps []vcSample
		for _, t := range a.Times {
			smps = append(smps, vcSample{t, a.ID})
		}
		if s.auto {
			s.commits = append(s.commits, smps)
			if c.Persist == 0 {
				for _, ch := range s.chans {
					for _, x := range smps {
						o.must[ch][x] = true
					}
				}
			}
		} else {
			s.pending = append(s.pending, smps...)
		}
	case "commit":
		var a vsWArgs
		_ = json.Unmarshal(st.Args, &a)
		s := o.open[a.W]
		if len(s.pending) > 0 {
			s.commits = append(s.commits, s.pending)
			for _, ch := range s.chans {
				for _, x := range s.pending {
					o.must[ch][x] = true
				}
			}
			s.pending = nil
		}
	case "close":
		var a vsWArgs
		_ = json.Unmarshal(st.Args, &a)
		s := o.open[a.W]
		for _, ch := range s.chans {
			for _, cm := range s.commits {
				for _, x := range cm {
					if o.may[ch][x] {
						o.must[ch][x] = true
					}
				}
			}
		}
		delete(o.open, a.W)
	case "delete":
		if st.Res != "ok" {
			return
		}
		var a vsDeleteArgs
		_ = json.Unmarshal(st.Args, &a)
		for _, ch := range a.Chans {
			for x := range o.must[ch] {
				if a.A <= x.T && x.T < a.B {
					delete(o.must[ch], x)
				}
			}
			for _, s := range o.sessions {
				if vcHas(s.chans, ch) {
					for _, cm := range s.commits {
						for _, x := range cm {
							if a.A <= x.T && x.T < a.B {
								s.deleted = true
							}
						}
					}
				}
			}
		}
	}
}

// before registers what the step in progress may make visible / was handed to Write.
func (o *vcOracle) before(st vsStep) (delRange map[string][2]int) {
	delRange = map[string][2]int{}
	for ch, cm := range st.St.Cm {
		for k, id := range cm {
			if id != 0 {
				t, _ := strconv.Atoi(k)
				o.may[ch][vcSample{t, id}] = true
			}
		}
	}
	switch st.A {
	case "write":
		var a vsWriteArgs
		_ = json.Unmarshal(st.Args, &a)
		if s := o.open[a.W]; s != nil {
			for _, ch := range s.chans {
				for _, t := range a.Times {
					o.written[ch][vcSample{t, a.ID}] = true
				}
			}
		}
	case "delete":
		var a vsDeleteArgs
		_ = json.Unmarshal(st.Args, &a)
		for _, ch := range a.Chans {
			delRange[ch] = [2]int{a.A, a.B}
			// the delete in progress may already have removed part of a session's commits
			for _, s := range o.sessions {
				if vcHas(s.chans, ch) {
					for _, cm := range s.commits {
						for _, x := range cm {
							if a.A <= x.T && x.T < a.B {
								s.deleted = true
							}
						}
					}
				}
			}
		}
	}
	return
}

func vcReplay(idx int, hist []vsStep, c vsConc, maxT int, stats *vcCrashStats, maxImages int) (res vcResult) {
	c.NoEmpty = true
	res = vcResult{I: idx, R: "ok", Conc: c}
	rec := &vcRecorder{inner: xfs.NewMem()}
	vstats := &vsStats{}
	r := &vsRunner{c: c, writers: map[string]*Writer{}, wchans: map[string][]string{}, maxT: maxT, stats: vstats}
	r.fs = &vcFS{rec: rec}
	defer func() {
		if p := recover(); p != nil {
			res.R = "mismatch"
			res.F = &vcFinding{Kind: "panic", Act: fmt.Sprint(p)}
		}
		for _, w := range r.writers {
			_ = w.Close()
		}
		if r.db != nil {
			_ = r.db.Close()
		}
	}()
	o := newVcOracle()
	rec.snap("empty")
	checked := 0
	// check every image produced since `from`, under the oracle of the step in progress
	seenKinds := map[string]bool{}
	type deferred struct {
		from, to, opIdx int
		st              *vsStep
		delRange        map[string][2]int
		o               *vcOracle
	}
	var later []deferred
	check := func(d deferred) *vcFinding {
		from, opIdx, st, delRange, o := d.from, d.opIdx, d.st, d.delRange, d.o
		rec.mu.Lock()
		imgs := append([]vcImage(nil), rec.images[from:d.to]...)
		var prev vcImage
		if from > 0 {
			prev = rec.images[from-1]
		}
		rec.mu.Unlock()
		for _, img := range imgs {
			cands := append(vcTorn(prev, img), img)
			for ti, cand := range cands {
				if maxImages > 0 && checked >= maxImages {
					return nil
				}
				checked++
				stats.images.Add(1)
				if ti < len(cands)-1 {
					stats.torn.Add(1)
				}
				if os.Getenv("VERIF_DEBUG") == "2" {
					b := cand.Files[strconv.Itoa(int(vsKeyI))+"/index.domain"]
					fmt.Printf("IMG op %d %q I/index:", opIdx, cand.What)
					for i := 0; i+26 <= len(b); i += 26 {
						fmt.Printf(" [%s,%s) f%d;", r.c.abs(telem.TimeStamp(telem.ByteOrder.Uint64(b[i:i+8]))), r.c.abs(telem.TimeStamp(telem.ByteOrder.Uint64(b[i+8:i+16]))), telem.ByteOrder.Uint16(b[i+16:i+18]))
					}
					fmt.Println()
				}
				if f := r.vcCheckImage(cand, o, st, delRange); f != nil {
					f.Op = opIdx
					f.Image = cand.What
					f.Tags = vcTags(cand)
					if st != nil {
						f.OpStr = st.A + " " + string(st.Args)
					} else {
						f.OpStr = "setup (create channels)"
					}
					// keep exploring: one finding per (kind, kind of mutation, op kind)
					if vsDebug {
						fmt.Printf("FINDING %s | image %q | op %d %s | exp %s | act %s\n", f.Kind, cand.What, opIdx, f.OpStr, f.Exp, f.Act)
						var names []string
						for p := range cand.Files {
							names = append(names, p)
						}
						sort.Strings(names)
						for _, p := range names {
							b := cand.Files[p]
							fmt.Printf("    %s (%d bytes)", p, len(b))
							if strings.HasSuffix(p, "index.domain") {
								for i := 0; i+26 <= len(b); i += 26 {
									fmt.Printf(" [%s,%s) f%d off%d size%d;", r.c.abs(telem.TimeStamp(telem.ByteOrder.Uint64(b[i:i+8]))), r.c.abs(telem.TimeStamp(telem.ByteOrder.Uint64(b[i+8:i+16]))),
										telem.ByteOrder.Uint16(b[i+16:i+18]), telem.ByteOrder.Uint32(b[i+18:i+22]), telem.ByteOrder.Uint32(b[i+22:i+26]))
								}
							} else if strings.HasSuffix(p, "counter.domain") {
								fmt.Printf(" %v", b)
							}
							fmt.Println()
						}
					}
					k := f.Kind + "|" + strings.Join(f.Tags, ",") + "|" + strings.SplitN(cand.What, " ", 2)[0] + "|" + strings.SplitN(f.OpStr, " ", 2)[0]
					if !seenKinds[k] && len(res.Fs) < 12 {
						seenKinds[k] = true
						res.Fs = append(res.Fs, *f)
					}
				}
			}
			prev = img
		}
		return nil
	}
	// setup = channel creation: also a crash window
	from := len(rec.images)
	db, err := Open(context.Background(), "", append(r.dbOpts(), WithFS(r.fs))...)
	if err != nil {
		res.R = "inconclusive"
		res.F = &vcFinding{Kind: "setup", Act: err.Error()}
		return
	}
	r.db = db
	ctx := context.Background()
	if err := r.db.CreateChannel(ctx, Channel{Key: vsKeyI, Name: "I", DataType: telem.TimeStampT, IsIndex: true}); err != nil {
		res.R = "inconclusive"
		return
	}
	if err := r.db.CreateChannel(ctx,
		Channel{Key: vsKeyD, Name: "D", DataType: r.c.dType(), Index: vsKeyI},
		Channel{Key: vsKeyV, Name: "V", DataType: r.c.vType(), Index: vsKeyI}); err != nil {
		res.R = "inconclusive"
		return
	}
	later = append(later, deferred{from: from, to: len(rec.images), opIdx: -1, o: o.clone()})
	defer func() {
		if res.R == "ok" && len(res.Fs) > 0 {
			res.R = "mismatch"
		}
	}()
	// The script runs first, without checking anything in between, so that its steps
	// are microseconds apart and the interval-persistence mode below controls which
	// auto-commits persist the index; all crash images are judged afterwards, each under
	// a copy of the oracle as it was when its step was in progress.
	rnd := rand.New(rand.NewSource(int64(idx)*7919 + 17))
	for i := range hist {
		st := hist[i]
		if i > 0 {
			r.prev = &hist[i-1]
		}
		from = len(rec.images)
		delRange := o.before(st)
		if c.Persist == 2 && (st.A == "write" || st.A == "commit") {
			// which auto-commits persist the index: pattern 0 = none before Close, 1 = every
			// write except the first of a session, 2 = coin flips
			firstOfSession := i > 0 && hist[i-1].A == "open"
			sleep := false
			switch (idx + int(c.FileCap)) % 3 {
			case 1:
				sleep = !firstOfSession
			case 2:
				sleep = rnd.Intn(2) == 0
			}
			if sleep {
				time.Sleep(6 * time.Millisecond) // lets the 5 ms persist interval elapse
			}
		}
		var out string
		if st.A == "reopen" {
			// reopen on the recording fs
			if err := r.db.Close(); err != nil {
				out = vsErrClass(err)
			} else if db, err := Open(ctx, "", append(r.dbOpts(), WithFS(r.fs))...); err != nil {
				out = vsErrClass(err)
			} else {
				r.db = db
				out = "ok"
			}
		} else {
			var err error
			out, err = r.exec(st)
			if err != nil {
				res.R = "inconclusive"
				res.F = &vcFinding{Kind: "harness", Act: err.Error()}
				return
			}
		}
		if r.tainted != "" {
			stats.skippedTainted.Add(1)
			res.R = "tainted"
			return
		}
		if out != st.Res {
			res.R = "diverged"
			res.F = &vcFinding{Kind: "outcome", Op: i, OpStr: st.A + " " + string(st.Args), Exp: st.Res, Act: out}
			return
		}
		stc := st
		later = append(later, deferred{from: from, to: len(rec.images), opIdx: i, st: &stc, delRange: delRange, o: o.clone()})
		o.advance(st, c)
	}
	if os.Getenv("VERIF_DEBUG") == "2" {
		for k, img := range rec.images {
			b := img.Files["1/index.domain"]
			line := fmt.Sprintf("img %d %q idx1(%dB):", k, img.What, len(b))
			for i := 0; i+26 <= len(b); i += 26 {
				line += fmt.Sprintf(" [%s,%s) f%d off%d size%d;", c.abs(telem.TimeStamp(telem.ByteOrder.Uint64(b[i:i+8]))), c.abs(telem.TimeStamp(telem.ByteOrder.Uint64(b[i+8:i+16]))),
					telem.ByteOrder.Uint16(b[i+16:i+18]), telem.ByteOrder.Uint32(b[i+18:i+22]), telem.ByteOrder.Uint32(b[i+22:i+26]))
			}
			fmt.Println(line)
		}
	}
	for _, d := range later {
		_ = check(d)
	}
	return
}

func TestVerifCrashEnum(t *testing.T) {
	in, out := os.Getenv("VERIF_IN"), os.Getenv("VERIF_OUT")
	if in == "" || out == "" {
		t.Skip("VERIF_IN/VERIF_OUT not set")
	}
	seed, _ := strconv.ParseInt(os.Getenv("VERIF_SEED"), 10, 64)
	maxT, _ := strconv.Atoi(os.Getenv("VERIF_MAXT"))
	maxImages, _ := strconv.Atoi(os.Getenv("VERIF_MAXIMAGES"))
	var fixed *vsConc
	if s := os.Getenv("VERIF_CONC"); s != "" {
		fixed = &vsConc{}
		if err := json.Unmarshal([]byte(s), fixed); err != nil {
			t.Fatal(err)
		}
	}
	var forced []vsConc
	if s := os.Getenv("VERIF_CONCS"); s != "" {
		if err := json.Unmarshal([]byte(s), &forced); err != nil {
			t.Fatal(err)
		}
	}
	f, err := os.Open(in)
	if err != nil {
		t.Fatal(err)
	}
	defer f.Close()
	type job struct {
		i    int
		line []byte
	}
	jobs := make(chan job, 64)
	results := make(chan vcResult, 64)
	stats := &vcCrashStats{}
	var wg sync.WaitGroup
	for w := 0; w < runtime.GOMAXPROCS(0); w++ {
		wg.Add(1)
		go func() {
			defer wg.Done()
			for j := range jobs {
				var hist []vsStep
				if err := json.Unmarshal(j.line, &hist); err != nil {
					results <- vcResult{I: j.i, R: "inconclusive"}
					continue
				}
				concs := []vsConc{vsConcFromSeed(seed, j.i*7)}
				if fixed != nil {
					concs = []vsConc{*fixed}
				}
				if len(forced) > 0 {
					// scenario plans: every history under each forced concretisation
					concs = nil
					for k, f := range forced {
						c := vsConcFromSeed(seed, j.i*7+k)
						c.Persist, c.FileCap = f.Persist, f.FileCap
						concs = append(concs, c)
					}
				}
				for _, c := range concs {
					stats.histories.Add(1)
					results <- vcReplay(j.i, hist, c, maxT, stats, maxImages)
				}
			}
		}()
	}
	go func() {
		sc := bufio.NewScanner(f)
		sc.Buffer(make([]byte, 1<<20), 1<<26)
		i := 0
		for sc.Scan() {
			b := append([]byte(nil), sc.Bytes()...)
			if len(b) > 0 {
				jobs <- job{i: i, line: b}
				i++
			}
		}
		close(jobs)
		wg.Wait()
		close(results)
	}()
	var bad []vcResult
	n := 0
	for r := range results {
		n++
		if r.R != "ok" && r.R != "tainted" {
			bad = append(bad, r)
		}
	}
	sort.Slice(bad, func(a, b int) bool { return bad[a].I < bad[b].I })
	of, err := os.Create(out)
	if err != nil {
		t.Fatal(err)
	}
	defer of.Close()
	enc := json.NewEncoder(of)
	_ = enc.Encode(map[string]any{"summary": true, "histories": n, "bad": len(bad), "images": stats.images.Load(),
		"torn_images": stats.torn.Load(), "skipped_tainted": stats.skippedTainted.Load()})
	for _, r := range bad {
		_ = enc.Encode(r)
	}
	_ = strings.TrimSpace
}
