//go:build verif

// X02 (extension check): executes the TLC-generated unary cases (spec/freighter/UnaryGen.tla)
// on the three real freighter unary transports (mock network, HTTP over loopback with codec
// negotiation, gRPC over loopback). For every case the REAL client and server are built with
// recording middlewares installed in the REAL MiddlewareCollector; the recorded marks (enter /
// handler / exit, the error and params each one saw, the context fields) and the result of
// Send are written to VERIF_OUT and compared with the specification's expectation by
// tools/props/x02.py. Injected with `go test -overlay`; never part of /repo.
package freighter_test

import (
	"bufio"
	"context"
	"encoding/json"
	"fmt"
	"math/rand"
	"net"
	"os"
	"runtime"
	"sort"
	"strconv"
	"strings"
	"sync"
	"sync/atomic"
	"syscall"
	"testing"
	"time"

	"github.com/gofiber/fiber/v3"
	"github.com/synnaxlabs/alamos"
	"github.com/synnaxlabs/freighter"
	fgrpc "github.com/synnaxlabs/freighter/grpc"
	v1 "github.com/synnaxlabs/freighter/grpc/v1"
	fhttp "github.com/synnaxlabs/freighter/http"
	fmock "github.com/synnaxlabs/freighter/mock"
	"github.com/synnaxlabs/freighter/recovery"
	"github.com/synnaxlabs/freighter/test"
	"github.com/synnaxlabs/x/address"
	xcontrol "github.com/synnaxlabs/x/control"
	jsoncodec "github.com/synnaxlabs/x/encoding/json"
	"github.com/synnaxlabs/x/encoding/msgpack"
	"github.com/synnaxlabs/x/errors"
	xhttp "github.com/synnaxlabs/x/http"
	"github.com/synnaxlabs/x/query"
	"github.com/synnaxlabs/x/validate"
	"google.golang.org/grpc"
	"google.golang.org/grpc/credentials/insecure"
)

// xuMsg is the payload in both directions (see the stream harness: slice and map fields make
// buffer reuse between concurrent calls observable; gRPC carries ID and Message only).
type xuMsg struct {
	ID      int            `json:"id" msgpack:"id"`
	Message string         `json:"message" msgpack:"message"`
	Tags    []int          `json:"tags" msgpack:"tags"`
	Attrs   map[string]int `json:"attrs" msgpack:"attrs"`
}

const (
	xuRespOffset  = 100000
	xuPrefix      = "x-verif-"
	xuUnknownText = "verif-unknown-error-7f3a"
	xuSepText     = "verif---sep---x"
	xuSvcName     = "freighter.grpc.v1.TestUnaryService"
)

func xuMk(id int, msg string) xuMsg {
	return xuMsg{ID: id, Message: msg, Tags: []int{id, id + 1, id * 2}, Attrs: map[string]int{"k" + strconv.Itoa(id): id}}
}

func xuIntact(m xuMsg, rich bool) bool {
	if !rich {
		return true
	}
	if len(m.Tags) != 3 || m.Tags[0] != m.ID || m.Tags[1] != m.ID+1 || m.Tags[2] != m.ID*2 {
		return false
	}
	return len(m.Attrs) == 1 && m.Attrs["k"+strconv.Itoa(m.ID)] == m.ID
}

func xuZero(m xuMsg) bool { return m.ID == 0 && m.Message == "" && len(m.Tags) == 0 && len(m.Attrs) == 0 }

func xuPattern(side byte, id, size int) string {
	if size == 0 {
		return ""
	}
	b := make([]byte, size)
	x := uint32(id)*2654435761 + uint32(side)
	for j := range b {
		x = x*1664525 + 1013904223
		b[j] = 'a' + byte((x>>24)%26)
	}
	return string(b)
}

var _ = test.Request{}

// ---------------------------------------------------------------- job / output formats

type xuJob struct {
	I        int               `json:"i"`
	Tr       string            `json:"tr"`       // mock | http | grpc
	Codec    string            `json:"codec"`    // http: json | msgpack | mixed
	Internal bool              `json:"internal"` // grpc: server Internal flag
	K        int               `json:"K"`
	M        int               `json:"M"`
	CB       []string          `json:"cb"`
	SB       []string          `json:"sb"`
	H        string            `json:"h"`
	Rec      bool              `json:"rec"`
	Kinds    map[string]string `json:"kinds"` // origin label -> error kind
	ID       int               `json:"id"`
	Size     int               `json:"size"`
}

type xuMark struct {
	M       string   `json:"m"`
	Side    string   `json:"side"`
	I       int      `json:"i"`
	Err     string   `json:"err"`             // class of the error next returned (exit)
	Ident   string   `json:"ident,omitempty"` // label whose error VALUE this is
	Txt     string   `json:"txt,omitempty"`
	P       []string `json:"p"`
	PNil    bool     `json:"pnil"`
	Role    int      `json:"role"`
	Variant int      `json:"variant"`
	Proto   string   `json:"proto"`
	Target  string   `json:"target"`
	Req     string   `json:"req,omitempty"` // handler: ok | corrupt
}

type xuOut struct {
	I      int      `json:"i"`
	Status string   `json:"status"` // ok | stuck | setup
	Note   string   `json:"note,omitempty"`
	Marks  []xuMark `json:"marks"`
	Resp   string   `json:"resp"` // none | r | corrupt
	Err    string   `json:"err"`  // class, or "panicked"
	Ident  string   `json:"ident,omitempty"`
	Txt    string   `json:"txt,omitempty"`
	Addr   string   `json:"addr"`
	Path   string   `json:"path"`
}

// ---------------------------------------------------------------- error kinds

func xuMkErr(kind string) error {
	switch kind {
	case "eof":
		return freighter.EOF
	case "closed":
		return freighter.ErrStreamClosed
	case "custom":
		return test.ErrCustom
	case "custom_wrapped":
		return errors.Wrap(test.ErrCustom, "while verifying")
	case "canceled":
		return context.Canceled
	case "deadline":
		return context.DeadlineExceeded
	case "unknown":
		return errors.New(xuUnknownText)
	case "unknown_sep":
		return errors.New(xuSepText)
	case "unknown_empty":
		return errors.New("")
	case "notfound":
		return errors.Wrap(query.ErrNotFound, "channel 12")
	case "notfound_sep":
		return errors.Wrap(query.ErrNotFound, "key a---b")
	case "unique":
		return errors.Wrap(query.ErrUniqueViolation, "name taken")
	case "invalid":
		return query.ErrInvalidParameters
	case "query":
		return query.ErrQuery
	case "validation":
		return errors.Wrap(validate.ErrValidation, "bad field")
	case "unauthorized":
		return errors.Wrap(xcontrol.ErrUnauthorized, "writer 3")
	}
	return errors.New("verif-bad-kind-" + kind)
}

// xuClass projects an error onto the class names used by the driver.
func xuClass(err error) (string, string) {
	if err == nil {
		return "nil", ""
	}
	txt := err.Error()
	full := txt
	if len(txt) > 200 {
		txt = txt[:200]
	}
	switch {
	case full == "":
		return "unknown_empty", txt
	case full == xuSepText:
		return "unknown_sep", txt
	case full == xuUnknownText:
		return "unknown", txt
	case strings.Contains(full, recovery.ErrPanic.Error()):
		return "panic", txt
	case errors.Is(err, context.Canceled):
		return "canceled", txt
	case errors.Is(err, context.DeadlineExceeded):
		return "deadline", txt
	case errors.Is(err, freighter.EOF):
		return "eof", txt
	case errors.Is(err, freighter.ErrStreamClosed):
		return "closed", txt
	case errors.Is(err, test.ErrCustom):
		return "custom", txt
	case errors.Is(err, query.ErrNotFound):
		return "notfound", txt
	case errors.Is(err, query.ErrUniqueViolation):
		return "unique", txt
	case errors.Is(err, query.ErrInvalidParameters):
		return "invalid", txt
	case errors.Is(err, query.ErrQuery):
		return "query", txt
	case errors.Is(err, validate.ErrValidation):
		return "validation", txt
	case errors.Is(err, xcontrol.ErrUnauthorized):
		return "unauthorized", txt
	}
	return "other", txt
}

// ---------------------------------------------------------------- one run

type xuRun struct {
	job   *xuJob
	mu    sync.Mutex
	marks []xuMark
	errs  map[string]error
}

func xuNewRun(job *xuJob) *xuRun {
	r := &xuRun{job: job, errs: map[string]error{}}
	for l, k := range job.Kinds {
		r.errs[l] = xuMkErr(k)
	}
	return r
}

func (r *xuRun) errFor(label string) error {
	if e, ok := r.errs[label]; ok {
		return e
	}
	return errors.New("verif-unassigned-" + label)
}

// ident: the label whose error VALUE err is (errors made on the client side never cross the wire).
func (r *xuRun) ident(err error) (lbl string) {
	if err == nil {
		return ""
	}
	defer func() { _ = recover() }()
	labels := make([]string, 0, len(r.errs))
	for l := range r.errs {
		labels = append(labels, l)
	}
	sort.Strings(labels)
	for _, l := range labels {
		if r.errs[l] == err {
			lbl = l
			// sentinels may be shared by several labels: prefer none in particular
			return lbl
		}
	}
	return ""
}

func (r *xuRun) add(m xuMark) {
	r.mu.Lock()
	r.marks = append(r.marks, m)
	r.mu.Unlock()
}

// xuParams lists the verif params of a context: in = entries set on the way in (x-verif-c.. /
// x-verif-s..), out = entries set on the returned context (x-verif-o..). An entry with an
// unexpected value is listed as "<id>!bad".
func xuParams(p freighter.Params, out bool) []string {
	res := []string{}
	for k, v := range p {
		lk := strings.ToLower(k)
		if !strings.HasPrefix(lk, xuPrefix) {
			continue
		}
		id := lk[len(xuPrefix):]
		if id == "id" || (strings.HasPrefix(id, "o") != out) {
			continue
		}
		ok := false
		if strings.HasSuffix(id, "n") && !out {
			iv, isInt := v.(int)
			ok = isInt && iv == 7
		} else {
			sv, isStr := v.(string)
			ok = isStr && sv == "v-"+id
		}
		if !ok {
			id += "!bad"
		}
		res = append(res, id)
	}
	sort.Strings(res)
	return res
}

func xuFill(m *xuMark, ctx freighter.Context, out bool) {
	m.P = xuParams(ctx.Params, out)
	m.PNil = ctx.Params == nil
	m.Role, m.Variant, m.Proto, m.Target = int(ctx.Role), int(ctx.Variant), ctx.Protocol, string(ctx.Target)
}

// mw is the recording middleware for position (side, i) with the behaviour the case assigns.
func (r *xuRun) mw(side string, i int) freighter.Middleware {
	return freighter.MiddlewareFunc(func(ctx freighter.Context, next freighter.Next) (freighter.Context, error) {
		return r.exec(side, i, ctx, next)
	})
}

func (r *xuRun) exec(side string, i int, ctx freighter.Context, next freighter.Next) (freighter.Context, error) {
	var b string
	if side == "c" && i <= len(r.job.CB) {
		b = r.job.CB[i-1]
	} else if side == "s" && i <= len(r.job.SB) {
		b = r.job.SB[i-1]
	}
	label := side + strconv.Itoa(i)
	em := xuMark{M: "enter", Side: side, I: i, Err: "nil"}
	xuFill(&em, ctx, false)
	r.add(em)
	switch b {
	case "failpre":
		// like the repository's own middlewares (core/pkg/api/auth): the context that came in
		return ctx, r.errFor(label)
	case "setp":
		if ctx.Params == nil {
			ctx.Params = make(freighter.Params)
		}
		ctx.Params[xuPrefix+label+"s"] = "v-" + label + "s"
	case "setn":
		if ctx.Params == nil {
			ctx.Params = make(freighter.Params)
		}
		ctx.Params[xuPrefix+label+"n"] = 7
	}
	oCtx, err := next(ctx)
	xm := xuMark{M: "exit", Side: side, I: i}
	xm.Err, xm.Txt = xuClass(err)
	xm.Ident = r.ident(err)
	xuFill(&xm, oCtx, true)
	r.add(xm)
	switch b {
	case "failpost":
		return oCtx, r.errFor(label)
	case "seto":
		if oCtx.Params == nil {
			oCtx.Params = make(freighter.Params)
		}
		oCtx.Params[xuPrefix+"o"+label] = "v-o" + label
	}
	return oCtx, err
}

func (r *xuRun) handle(ctx context.Context, req xuMsg) (xuMsg, error) {
	hm := xuMark{M: "handler", Side: "s", Err: "nil", Req: "ok"}
	if fc, ok := ctx.(freighter.Context); ok {
		xuFill(&hm, fc, false)
	} else {
		hm.P = []string{"!noctx"}
	}
	j := r.job
	if req.ID != j.ID || req.Message != xuPattern('c', j.ID, j.Size) || !xuIntact(req, j.Tr != "grpc") {
		hm.Req = "corrupt"
	}
	r.add(hm)
	res := xuMk(j.ID+xuRespOffset, xuPattern('h', j.ID, j.Size))
	switch j.H {
	case "ok":
		return res, nil
	case "err":
		return xuMsg{}, r.errFor("h")
	case "both":
		return res, r.errFor("h")
	case "panic":
		panic("verif: handler panic")
	}
	return xuMsg{}, errors.New("verif-bad-outcome-" + j.H)
}

// ---------------------------------------------------------------- transports (one set per worker)

type xuReqT struct{}

func (xuReqT) Forward(_ context.Context, in xuMsg) (*v1.Request, error) {
	return &v1.Request{Id: int32(in.ID), Message: in.Message}, nil
}
func (xuReqT) Backward(_ context.Context, in *v1.Request) (xuMsg, error) {
	return xuMsg{ID: int(in.Id), Message: in.Message}, nil
}

type xuResT struct{}

func (xuResT) Forward(_ context.Context, in xuMsg) (*v1.Response, error) {
	return &v1.Response{Id: int32(in.ID), Message: in.Message}, nil
}
func (xuResT) Backward(_ context.Context, in *v1.Response) (xuMsg, error) {
	return xuMsg{ID: int(in.Id), Message: in.Message}, nil
}

type (
	xuGrpcServer = fgrpc.UnaryServer[xuMsg, *v1.Request, xuMsg, *v1.Response]
	xuGrpcClient = fgrpc.UnaryClient[xuMsg, *v1.Request, xuMsg, *v1.Response]
	xuHandler    = func(context.Context, xuMsg) (xuMsg, error)
)

type xuWorker struct {
	cur      atomic.Pointer[xuRun]
	maxM     int
	watch    time.Duration
	httpAddr address.Address
	app      *fiber.App
	hSrv     []freighter.UnaryServer[xuMsg, xuMsg] // by M
	gAddr    [2][]address.Address                  // [internal][M]
	gSrv     [2][]*xuGrpcServer
	gServers []*grpc.Server
	pool     *fgrpc.Pool
	dead     address.Address
	ins      alamos.Instrumentation
}

func (w *xuWorker) dispatch(ctx context.Context, req xuMsg) (xuMsg, error) {
	r := w.cur.Load()
	if r == nil {
		return xuMsg{}, errors.New("verif: no run bound")
	}
	return r.handle(ctx, req)
}

// serverChain: the middlewares installed on a worker's server with M recording positions. The
// outermost one is the real recovery.Middleware, active only for cases that ask for it.
func (w *xuWorker) serverChain(m int) []freighter.Middleware {
	rec := recovery.Middleware(w.ins)
	mws := []freighter.Middleware{freighter.MiddlewareFunc(func(ctx freighter.Context, next freighter.Next) (freighter.Context, error) {
		if r := w.cur.Load(); r != nil && r.job.Rec {
			return rec.Exec(ctx, next)
		}
		return next(ctx)
	})}
	for j := 1; j <= m; j++ {
		j := j
		mws = append(mws, freighter.MiddlewareFunc(func(ctx freighter.Context, next freighter.Next) (freighter.Context, error) {
			r := w.cur.Load()
			if r == nil {
				return next(ctx)
			}
			return r.exec("s", j, ctx, next)
		}))
	}
	return mws
}

func xuListen() (net.Listener, address.Address, error) {
	ln, err := net.Listen("tcp", "127.0.0.1:0")
	if err != nil {
		return nil, "", err
	}
	return ln, address.Address(ln.Addr().String()), nil
}

var (
	xuDeadOnce sync.Once
	xuDead     address.Address
	xuDeadErr  error
)

// xuDeadAddr is a loopback address nobody listens on: a socket that is bound (so the port
// cannot be handed to any other listener) but never listens; connecting to it is refused.
func xuDeadAddr() (address.Address, error) {
	xuDeadOnce.Do(func() {
		fd, err := syscall.Socket(syscall.AF_INET, syscall.SOCK_STREAM, 0)
		if err != nil {
			xuDeadErr = err
			return
		}
		if err = syscall.Bind(fd, &syscall.SockaddrInet4{Port: 0, Addr: [4]byte{127, 0, 0, 1}}); err != nil {
			xuDeadErr = err
			return
		}
		sa, err := syscall.Getsockname(fd)
		if err != nil {
			xuDeadErr = err
			return
		}
		xuDead = address.Address(fmt.Sprintf("127.0.0.1:%d", sa.(*syscall.SockaddrInet4).Port))
	})
	return xuDead, xuDeadErr
}

func xuNewWorker(maxM int, needHTTP, needGRPC bool, watch time.Duration) (*xuWorker, error) {
	w := &xuWorker{maxM: maxM, watch: watch}
	dead, err := xuDeadAddr()
	if err != nil {
		return nil, err
	}
	w.dead = dead
	if needHTTP {
		ln, addr, err := xuListen()
		if err != nil {
			return nil, err
		}
		w.httpAddr = addr
		w.app = fiber.New(fiber.Config{BodyLimit: 16 << 20})
		router, err := fhttp.NewRouter(fhttp.RouterConfig{})
		if err != nil {
			return nil, err
		}
		for m := 0; m <= maxM; m++ {
			srv := fhttp.NewUnaryServer[xuMsg, xuMsg](router, "/m"+strconv.Itoa(m))
			srv.Use(w.serverChain(m)...)
			srv.BindHandler(w.dispatch)
			w.hSrv = append(w.hSrv, srv)
		}
		router.BindTo(w.app)
		go func() { _ = w.app.Listener(ln, fiber.ListenConfig{DisableStartupMessage: true}) }()
		ok := false
		for i := 0; i < 2000; i++ {
			c, err := net.DialTimeout("tcp", addr.String(), time.Second)
			if err == nil {
				_ = c.Close()
				ok = true
				break
			}
			time.Sleep(time.Millisecond)
		}
		if !ok {
			return nil, fmt.Errorf("http server did not start")
		}
	}
	if needGRPC {
		w.pool = fgrpc.NewPool("", grpc.WithTransportCredentials(insecure.NewCredentials()))
		for in := 0; in < 2; in++ {
			for m := 0; m <= maxM; m++ {
				ln, addr, err := xuListen()
				if err != nil {
					return nil, err
				}
				gs := grpc.NewServer(grpc.MaxRecvMsgSize(16<<20), grpc.MaxSendMsgSize(16<<20))
				srv := &xuGrpcServer{
					RequestTranslator:  xuReqT{},
					ResponseTranslator: xuResT{},
					ServiceDesc:        &v1.TestUnaryService_ServiceDesc,
					Internal:           in == 1,
				}
				srv.Use(w.serverChain(m)...)
				srv.BindHandler(w.dispatch)
				srv.BindTo(gs)
				go func() { _ = gs.Serve(ln) }()
				w.gServers = append(w.gServers, gs)
				w.gAddr[in] = append(w.gAddr[in], addr)
				w.gSrv[in] = append(w.gSrv[in], srv)
			}
		}
	}
	return w, nil
}

func (w *xuWorker) stop() {
	if w.app != nil {
		_ = w.app.ShutdownWithTimeout(2 * time.Second)
	}
	for _, gs := range w.gServers {
		gs.Stop()
	}
	if w.pool != nil {
		_ = w.pool.Close()
	}
}

func xuHTTPClient(codec string) (freighter.UnaryClient[xuMsg, xuMsg], error) {
	switch codec {
	case "msgpack":
		return fhttp.NewUnaryClient[xuMsg, xuMsg](fhttp.UnaryClientConfig{Encoder: msgpack.Codec, Decoders: []xhttp.Decoder{msgpack.Codec}})
	case "mixed":
		return fhttp.NewUnaryClient[xuMsg, xuMsg](fhttp.UnaryClientConfig{Encoder: msgpack.Codec, Decoders: []xhttp.Decoder{jsoncodec.Codec, msgpack.Codec}})
	case "json":
		return fhttp.NewUnaryClient[xuMsg, xuMsg](fhttp.UnaryClientConfig{Encoder: jsoncodec.Codec, Decoders: []xhttp.Decoder{jsoncodec.Codec}})
	}
	return fhttp.NewUnaryClient[xuMsg, xuMsg]()
}

func xuGRPCClient(pool *fgrpc.Pool) *xuGrpcClient {
	return &xuGrpcClient{
		RequestTranslator:  xuReqT{},
		ResponseTranslator: xuResT{},
		Pool:               pool,
		ServiceDesc:        &v1.TestUnaryService_ServiceDesc,
		Exec: func(ctx context.Context, conn grpc.ClientConnInterface, req *v1.Request) (*v1.Response, error) {
			return v1.NewTestUnaryServiceClient(conn).Exec(ctx, req, grpc.MaxCallRecvMsgSize(16<<20), grpc.MaxCallSendMsgSize(16<<20))
		},
	}
}

// exec runs one case on its transport.
func (w *xuWorker) exec(job *xuJob) (out xuOut) {
	out.I = job.I
	out.Status = "ok"
	out.Marks = []xuMark{}
	if job.M > w.maxM || len(job.CB) != job.K || len(job.SB) != job.M {
		out.Status, out.Note = "setup", "bad case shape"
		return
	}
	r := xuNewRun(job)
	var (
		client  freighter.UnaryClient[xuMsg, xuMsg]
		target  address.Address
		cleanup = func() {}
		bind    = job.H != "nohandler"
	)
	switch job.Tr {
	case "mock":
		nw := fmock.NewNetwork[xuMsg, xuMsg]()
		srv := nw.UnaryServer("srv:1")
		w.cur.Store(r)
		srv.Use(w.serverChain(job.M)...)
		if bind {
			srv.BindHandler(r.handle)
		}
		client = nw.UnaryClient()
		target = "srv:1"
		if job.H == "unreachable" {
			target = "nowhere:9"
		}
	case "http":
		c, err := xuHTTPClient(job.Codec)
		if err != nil {
			out.Status, out.Note = "setup", err.Error()
			return
		}
		client = c
		out.Path = "/m" + strconv.Itoa(job.M)
		target = address.Address(w.httpAddr.String() + out.Path)
		if job.H == "unreachable" {
			target = address.Address(w.dead.String() + out.Path)
		}
		if !bind {
			w.hSrv[job.M].BindHandler(nil)
			cleanup = func() { w.hSrv[job.M].BindHandler(w.dispatch) }
		}
		w.cur.Store(r)
	case "grpc":
		in := 0
		if job.Internal {
			in = 1
		}
		pool := w.pool
		target = w.gAddr[in][job.M]
		if job.H == "unreachable" {
			// failed connections stay in the pool: use a private one
			pool = fgrpc.NewPool("", grpc.WithTransportCredentials(insecure.NewCredentials()))
			target = w.dead
			cleanup = func() { _ = pool.Close() }
		}
		client = xuGRPCClient(pool)
		if !bind {
			srv := w.gSrv[in][job.M]
			srv.BindHandler(nil)
			cleanup = func() { srv.BindHandler(w.dispatch) }
		}
		w.cur.Store(r)
	default:
		out.Status, out.Note = "setup", "unknown transport "+job.Tr
		return
	}
	defer cleanup()
	for i := 1; i <= job.K; i++ {
		client.Use(r.mw("c", i))
	}
	out.Addr = string(target)
	req := xuMk(job.ID, xuPattern('c', job.ID, job.Size))
	type sent struct {
		res      xuMsg
		err      error
		panicked string
	}
	ctx, cancel := context.WithTimeout(context.Background(), w.watch+5*time.Second)
	defer cancel()
	done := make(chan sent, 1)
	go func() {
		var s sent
		defer func() {
			if p := recover(); p != nil {
				s.panicked = fmt.Sprint(p)
			}
			done <- s
		}()
		s.res, s.err = client.Send(ctx, target, req)
	}()
	var s sent
	select {
	case s = <-done:
	case <-time.After(w.watch):
		out.Status, out.Note = "stuck", fmt.Sprintf("Send did not return within %s", w.watch)
		return
	}
	r.mu.Lock()
	out.Marks = append(out.Marks, r.marks...)
	r.mu.Unlock()
	if s.panicked != "" {
		out.Err, out.Txt, out.Resp = "panicked", s.panicked, "none"
		return
	}
	out.Err, out.Txt = xuClass(s.err)
	out.Ident = r.ident(s.err)
	want := xuMk(job.ID+xuRespOffset, xuPattern('h', job.ID, job.Size))
	switch {
	case xuZero(s.res):
		out.Resp = "none"
	case s.res.ID == want.ID && s.res.Message == want.Message && xuIntact(s.res, job.Tr != "grpc"):
		out.Resp = "r"
	default:
		out.Resp = "corrupt"
		out.Note = fmt.Sprintf("response id=%d len=%d", s.res.ID, len(s.res.Message))
	}
	return
}

// ---------------------------------------------------------------- test entries

func xuReadJobs(t *testing.T, in string) []*xuJob {
	f, err := os.Open(in)
	if err != nil {
		t.Fatal(err)
	}
	defer f.Close()
	var jobs []*xuJob
	sc := bufio.NewScanner(f)
	sc.Buffer(make([]byte, 1<<20), 1<<26)
	for sc.Scan() {
		ln := strings.TrimSpace(sc.Text())
		if ln == "" {
			continue
		}
		j := &xuJob{}
		if err := json.Unmarshal([]byte(ln), j); err != nil {
			t.Fatalf("bad job line: %v", err)
		}
		jobs = append(jobs, j)
	}
	return jobs
}

func xuWorkers(n int) int {
	nw := runtime.GOMAXPROCS(0)
	if v, err := strconv.Atoi(os.Getenv("VERIF_WORKERS")); err == nil && v > 0 {
		nw = v
	}
	if nw > 8 {
		nw = 8
	}
	if nw > n {
		nw = n
	}
	if nw < 1 {
		nw = 1
	}
	return nw
}

func xuWatch() time.Duration {
	if v, err := strconv.Atoi(os.Getenv("VERIF_WATCH_MS")); err == nil && v > 0 {
		return time.Duration(v) * time.Millisecond
	}
	return 30 * time.Second
}

func TestVerifUnaryCases(t *testing.T) {
	in, outp := os.Getenv("VERIF_IN"), os.Getenv("VERIF_OUT")
	if in == "" || outp == "" {
		t.Skip("VERIF_IN / VERIF_OUT not set")
	}
	jobs := xuReadJobs(t, in)
	needHTTP, needGRPC, maxM := false, false, 0
	for _, j := range jobs {
		needHTTP = needHTTP || j.Tr == "http"
		needGRPC = needGRPC || j.Tr == "grpc"
		if j.M > maxM {
			maxM = j.M
		}
	}
	nw := xuWorkers(len(jobs))
	of, err := os.Create(outp)
	if err != nil {
		t.Fatal(err)
	}
	defer of.Close()
	bw := bufio.NewWriterSize(of, 1<<20)
	defer bw.Flush()
	var (
		mu    sync.Mutex
		wg    sync.WaitGroup
		next  atomic.Int64
		stuck atomic.Int64
	)
	for k := 0; k < nw; k++ {
		w, err := xuNewWorker(maxM, needHTTP, needGRPC, xuWatch())
		if err != nil {
			t.Fatalf("cannot start transports: %v", err)
		}
		wg.Add(1)
		go func() {
			defer wg.Done()
			defer w.stop()
			for {
				n := int(next.Add(1)) - 1
				if n >= len(jobs) {
					return
				}
				var o xuOut
				if stuck.Load() >= 20 {
					o = xuOut{I: jobs[n].I, Status: "skipped"}
				} else {
					if stuck.Load() >= 2 {
						w.watch = 3 * time.Second
					}
					o = w.exec(jobs[n])
					if o.Status == "stuck" {
						stuck.Add(1)
						// the stuck call may still be running on this worker's servers
						w2, err := xuNewWorker(maxM, needHTTP, needGRPC, w.watch)
						if err == nil {
							w = w2
						}
					}
				}
				b, _ := json.Marshal(o)
				mu.Lock()
				_, _ = bw.Write(b)
				_ = bw.WriteByte('\n')
				mu.Unlock()
			}
		}()
	}
	wg.Wait()
}

// ---------------------------------------------------------------- concurrency stage

type xuConcJob struct {
	Tr     string `json:"tr"`
	Codec  string `json:"codec"`
	N      int    `json:"n"`      // concurrent callers through ONE client
	Rounds int    `json:"rounds"` // calls per caller
	Seed   int64  `json:"seed"`
}

type xuConcOut struct {
	Tr         string   `json:"tr"`
	Codec      string   `json:"codec"`
	Status     string   `json:"status"`
	Note       string   `json:"note,omitempty"`
	Calls      int      `json:"calls"`
	OK         int      `json:"ok"`
	Errs       int      `json:"errs"`
	MaxInFlt   int      `json:"max_in_flight"`
	Mismatches []string `json:"mismatches"`
}

type xuKey string

const (
	xuCallKey xuKey = "verif.call"
	xuSrvKey  xuKey = "verif.srv"
)

func xuParamCI(p freighter.Params, key string) (string, bool) {
	for k, v := range p {
		if strings.EqualFold(k, key) {
			s, ok := v.(string)
			return s, ok
		}
	}
	return "", false
}

// xuConc: N goroutines call through one client. The client middleware copies the call's id
// (a context value) into the params; the server middleware moves the received param into the
// handler's context; the handler answers with a payload derived from the REQUEST id (or an
// error whose message carries it) and flags a param that belongs to another call. Every caller
// checks that what it got back belongs to its own request.
func xuConc(job xuConcJob) (out xuConcOut) {
	out.Tr, out.Codec, out.Status = job.Tr, job.Codec, "ok"
	out.Mismatches = []string{}
	var (
		inFlight, maxIn atomic.Int64
		mmu             sync.Mutex
	)
	miss := func(f string, a ...any) {
		mmu.Lock()
		if len(out.Mismatches) < 20 {
			out.Mismatches = append(out.Mismatches, fmt.Sprintf(f, a...))
		}
		mmu.Unlock()
	}
	size := func(id int) int { return []int{0, 3, 100, 2000, 30000}[id%5] }
	handler := func(ctx context.Context, req xuMsg) (xuMsg, error) {
		n := inFlight.Add(1)
		for {
			m := maxIn.Load()
			if n <= m || maxIn.CompareAndSwap(m, n) {
				break
			}
		}
		defer inFlight.Add(-1)
		time.Sleep(time.Duration((req.ID*7919)%400) * time.Microsecond)
		pid, _ := ctx.Value(xuSrvKey).(string)
		if pid != strconv.Itoa(req.ID) {
			return xuMsg{}, errors.Newf("verif-param-of-other-call want=%d got=%q", req.ID, pid)
		}
		if req.Message != xuPattern('c', req.ID, size(req.ID)) || !xuIntact(req, job.Tr != "grpc") {
			return xuMsg{}, errors.Newf("verif-request-corrupt id=%d", req.ID)
		}
		switch req.ID % 7 {
		case 3:
			return xuMsg{}, errors.Wrapf(query.ErrNotFound, "verif-id-%d-", req.ID)
		case 5:
			return xuMsg{}, errors.Newf("verif-unk-%d-", req.ID)
		}
		return xuMk(req.ID+xuRespOffset, xuPattern('h', req.ID, size(req.ID))), nil
	}
	cmw := freighter.MiddlewareFunc(func(ctx freighter.Context, next freighter.Next) (freighter.Context, error) {
		id, _ := ctx.Value(xuCallKey).(int)
		if ctx.Params == nil {
			ctx.Params = make(freighter.Params)
		}
		ctx.Params[xuPrefix+"id"] = strconv.Itoa(id)
		return next(ctx)
	})
	smw := freighter.MiddlewareFunc(func(ctx freighter.Context, next freighter.Next) (freighter.Context, error) {
		pid, _ := xuParamCI(ctx.Params, xuPrefix+"id")
		ctx.Context = context.WithValue(ctx.Context, xuSrvKey, pid)
		return next(ctx)
	})
	pass := freighter.MiddlewareFunc(func(ctx freighter.Context, next freighter.Next) (freighter.Context, error) {
		return next(ctx)
	})
	var (
		client freighter.UnaryClient[xuMsg, xuMsg]
		target address.Address
	)
	switch job.Tr {
	case "mock":
		nw := fmock.NewNetwork[xuMsg, xuMsg]()
		srv := nw.UnaryServer("srv:1")
		srv.Use(pass, smw)
		srv.BindHandler(handler)
		client, target = nw.UnaryClient(), "srv:1"
	case "http":
		ln, addr, err := xuListen()
		if err != nil {
			out.Status, out.Note = "setup", err.Error()
			return
		}
		app := fiber.New(fiber.Config{BodyLimit: 16 << 20})
		router, err := fhttp.NewRouter(fhttp.RouterConfig{})
		if err != nil {
			out.Status, out.Note = "setup", err.Error()
			return
		}
		srv := fhttp.NewUnaryServer[xuMsg, xuMsg](router, "/c")
		srv.Use(pass, smw)
		srv.BindHandler(handler)
		router.BindTo(app)
		go func() { _ = app.Listener(ln, fiber.ListenConfig{DisableStartupMessage: true}) }()
		defer func() { _ = app.ShutdownWithTimeout(2 * time.Second) }()
		for i := 0; i < 2000; i++ {
			c, err := net.DialTimeout("tcp", addr.String(), time.Second)
			if err == nil {
				_ = c.Close()
				break
			}
			time.Sleep(time.Millisecond)
		}
		c, err := xuHTTPClient(job.Codec)
		if err != nil {
			out.Status, out.Note = "setup", err.Error()
			return
		}
		client, target = c, address.Address(addr.String()+"/c")
	case "grpc":
		ln, addr, err := xuListen()
		if err != nil {
			out.Status, out.Note = "setup", err.Error()
			return
		}
		gs := grpc.NewServer()
		srv := &xuGrpcServer{RequestTranslator: xuReqT{}, ResponseTranslator: xuResT{},
			ServiceDesc: &v1.TestUnaryService_ServiceDesc, Internal: job.Codec == "internal"}
		srv.Use(pass, smw)
		srv.BindHandler(handler)
		srv.BindTo(gs)
		go func() { _ = gs.Serve(ln) }()
		defer gs.Stop()
		pool := fgrpc.NewPool("", grpc.WithTransportCredentials(insecure.NewCredentials()))
		defer func() { _ = pool.Close() }()
		client, target = xuGRPCClient(pool), addr
	default:
		out.Status, out.Note = "setup", "unknown transport"
		return
	}
	client.Use(cmw, pass)
	var (
		wg                sync.WaitGroup
		calls, oks, errsN atomic.Int64
	)
	start := make(chan struct{})
	for g := 0; g < job.N; g++ {
		g := g
		wg.Add(1)
		go func() {
			defer wg.Done()
			defer func() {
				if p := recover(); p != nil {
					miss("caller %d panicked: %v", g, p)
				}
			}()
			rnd := rand.New(rand.NewSource(job.Seed + int64(g)*104729))
			<-start
			for k := 0; k < job.Rounds; k++ {
				id := 1 + g*job.Rounds + k
				if rnd.Intn(3) == 0 {
					runtime.Gosched()
				}
				ctx, cancel := context.WithTimeout(context.WithValue(context.Background(), xuCallKey, id), 60*time.Second)
				res, err := client.Send(ctx, target, xuMk(id, xuPattern('c', id, size(id))))
				cancel()
				calls.Add(1)
				tag := "-" + strconv.Itoa(id) + "-"
				switch id % 7 {
				case 3:
					if err == nil || !errors.Is(err, query.ErrNotFound) || !strings.Contains(err.Error(), "verif-id"+tag) {
						miss("call %d: expected its own not-found error, got res.id=%d err=%v", id, res.ID, err)
					}
					errsN.Add(1)
				case 5:
					if err == nil || !strings.Contains(err.Error(), "verif-unk"+tag) {
						miss("call %d: expected its own unknown error, got res.id=%d err=%v", id, res.ID, err)
					}
					errsN.Add(1)
				default:
					if err != nil {
						miss("call %d: unexpected error %v", id, err)
					} else if res.ID != id+xuRespOffset || res.Message != xuPattern('h', id, size(id)) || !xuIntact(res, job.Tr != "grpc") {
						miss("call %d: response of another call or corrupt (res.id=%d len=%d)", id, res.ID, len(res.Message))
					}
					oks.Add(1)
				}
			}
		}()
	}
	close(start)
	fin := make(chan struct{})
	go func() { wg.Wait(); close(fin) }()
	select {
	case <-fin:
	case <-time.After(120 * time.Second):
		out.Status, out.Note = "stuck", "concurrent callers did not finish within 120 s"
	}
	out.Calls, out.OK, out.Errs, out.MaxInFlt = int(calls.Load()), int(oks.Load()), int(errsN.Load()), int(maxIn.Load())
	return
}

func TestVerifUnaryConcurrent(t *testing.T) {
	in, outp := os.Getenv("VERIF_IN"), os.Getenv("VERIF_OUT")
	if in == "" || outp == "" {
		t.Skip("VERIF_IN / VERIF_OUT not set")
	}
	f, err := os.Open(in)
	if err != nil {
		t.Fatal(err)
	}
	defer f.Close()
	of, err := os.Create(outp)
	if err != nil {
		t.Fatal(err)
	}
	defer of.Close()
	sc := bufio.NewScanner(f)
	for sc.Scan() {
		ln := strings.TrimSpace(sc.Text())
		if ln == "" {
			continue
		}
		var j xuConcJob
		if err := json.Unmarshal([]byte(ln), &j); err != nil {
			t.Fatalf("bad job line: %v", err)
		}
		o := xuConc(j)
		b, _ := json.Marshal(o)
		_, _ = of.Write(append(b, '\n'))
	}
}
