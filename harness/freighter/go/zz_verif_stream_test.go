//go:build verif

// C14: executes TLC-generated client/handler scripts (spec/stream/StreamGen.tla) on the three
// real freighter stream transports (mock, WebSocket over loopback, gRPC over loopback) and
// records every call/return as a trace that tools/props/c14.py validates against
// spec/stream/StreamTrace.tla. Injected with `go test -overlay`; never part of /repo.
package freighter_test

import (
	"bufio"
	"context"
	"encoding/json"
	"fmt"
	"math/rand"
	"net"
	"os"
	"runtime"
	"strconv"
	"strings"
	"sync"
	"sync/atomic"
	"testing"
	"time"

	"github.com/gofiber/fiber/v3"
	"github.com/synnaxlabs/freighter"
	fgrpc "github.com/synnaxlabs/freighter/grpc"
	v1 "github.com/synnaxlabs/freighter/grpc/v1"
	fhttp "github.com/synnaxlabs/freighter/http"
	fmock "github.com/synnaxlabs/freighter/mock"
	"github.com/synnaxlabs/freighter/test"
	"github.com/synnaxlabs/x/address"
	xcontrol "github.com/synnaxlabs/x/control"
	jsoncodec "github.com/synnaxlabs/x/encoding/json"
	"github.com/synnaxlabs/x/encoding/msgpack"
	"github.com/synnaxlabs/x/errors"
	"github.com/synnaxlabs/x/query"
	"github.com/synnaxlabs/x/validate"
	"google.golang.org/grpc"
	"google.golang.org/grpc/credentials/insecure"
)

// vMsg is the payload in both directions. Besides the scalar fields of the repository's
// test.Request it carries a slice and a map derived from the ID, so that a transport
// that reuses decode buffers / destination structs between messages (content of an
// earlier message changes when a later one arrives, or map entries accumulate) is
// observable. gRPC carries ID and Message only (fixed proto).
type vMsg struct {
	ID      int            `json:"id" msgpack:"id"`
	Message string         `json:"message" msgpack:"message"`
	Tags    []int          `json:"tags" msgpack:"tags"`
	Attrs   map[string]int `json:"attrs" msgpack:"attrs"`
}

func vMk(id int, msg string) vMsg {
	return vMsg{ID: id, Message: msg, Tags: []int{id, id + 1, id * 2}, Attrs: map[string]int{"k" + strconv.Itoa(id): id}}
}

// vIntact: the rich fields still are what the sender put there (rich=false: gRPC).
func vIntact(m vMsg, rich bool) bool {
	if !rich {
		return true
	}
	if len(m.Tags) != 3 || m.Tags[0] != m.ID || m.Tags[1] != m.ID+1 || m.Tags[2] != m.ID*2 {
		return false
	}
	return len(m.Attrs) == 1 && m.Attrs["k"+strconv.Itoa(m.ID)] == m.ID
}

type (
	vRq = vMsg
	vRs = vMsg
	vSS = freighter.ServerStream[vRq, vRs]
	vCS = freighter.ClientStream[vRq, vRs]
)

var _ = test.Request{}

// ---------------------------------------------------------------- job / trace formats

type vEv struct {
	E  string `json:"e"`  // call | ret
	S  string `json:"s"`  // c | h
	Op string `json:"op"` // send close recv | send recv ret
}

type vJob struct {
	I     int     `json:"i"`
	Tr    string  `json:"tr"`    // mock | ws | grpc
	Cap   int     `json:"cap"`   // mock buffer size
	Codec string  `json:"codec"` // ws: json | msgpack
	Kind  string  `json:"kind"`  // error variant returned by the handler
	SzC   []int   `json:"szc"`   // payload size of the client's n-th Send
	SzH   []int   `json:"szh"`   // payload size of the handler's n-th Send
	Ev    []vEv   `json:"ev"`
	Jit   int64   `json:"jit"`   // jitter seed; 0 = none
	Epi   bool    `json:"epi"`   // run the draining epilogue
	Pause float64 `json:"pause"` // ms to idle after the handler returned (0 = none)
}

type vTr struct {
	Ev  string `json:"ev"` // call | ret
	S   string `json:"s"`
	Op  string `json:"op"`
	ID  int    `json:"id"`
	Res string `json:"res"`
	K   string `json:"k"`
	Txt string `json:"txt,omitempty"`
	Ms  int64  `json:"ms"` // ms since the handler's return was issued (-1 before)
}

type vOut struct {
	I      int    `json:"i"`
	Status string `json:"status"` // ok | stuck | openfail
	Note   string `json:"note,omitempty"`
	Trace  []vTr  `json:"trace"`
}

// ---------------------------------------------------------------- error kinds

const vUnknownText = "verif-unknown-error-7f3a"

// vMkErr builds the error the handler returns for a variant name.
func vMkErr(kind string) error {
	switch kind {
	case "nil":
		return nil
	case "eof":
		return freighter.EOF
	case "closed":
		return freighter.ErrStreamClosed
	case "custom":
		return test.ErrCustom
	case "custom_wrapped":
		return errors.Wrap(test.ErrCustom, "while verifying")
	case "canceled":
		return context.Canceled
	case "deadline":
		return context.DeadlineExceeded
	case "unknown":
		return errors.New(vUnknownText)
	case "notfound":
		return errors.Wrap(query.ErrNotFound, "channel 12")
	case "notfound_sep":
		return errors.Wrap(query.ErrNotFound, "key a---b")
	case "unique":
		return errors.Wrap(query.ErrUniqueViolation, "name taken")
	case "invalid":
		return query.ErrInvalidParameters
	case "query":
		return query.ErrQuery
	case "validation":
		return errors.Wrap(validate.ErrValidation, "bad field")
	case "path":
		return validate.PathedError(validate.ErrRequired, "a.b")
	case "unauthorized":
		return errors.Wrap(xcontrol.ErrUnauthorized, "writer 3")
	}
	return errors.New("verif-bad-kind-" + kind)
}

// vClass is the projection of a returned error onto the class names used by the spec.
func vClass(err error) (string, string) {
	if err == nil {
		return "nil", ""
	}
	txt := err.Error()
	if len(txt) > 200 {
		txt = txt[:200]
	}
	switch {
	case errors.Is(err, context.Canceled):
		return "canceled", txt
	case errors.Is(err, context.DeadlineExceeded) || strings.Contains(txt, context.DeadlineExceeded.Error()):
		return "deadline", txt
	case errors.Is(err, freighter.EOF):
		return "eof", txt
	case errors.Is(err, freighter.ErrStreamClosed):
		return "closed", txt
	case errors.Is(err, test.ErrCustom):
		return "custom", txt
	case errors.Is(err, query.ErrNotFound):
		return "notfound", txt
	case errors.Is(err, query.ErrUniqueViolation):
		return "unique", txt
	case errors.Is(err, query.ErrInvalidParameters):
		return "invalid", txt
	case errors.Is(err, query.ErrQuery):
		return "query", txt
	case vIsPath(err):
		return "path", txt
	case errors.Is(err, validate.ErrValidation):
		return "validation", txt
	case errors.Is(err, xcontrol.ErrUnauthorized):
		return "unauthorized", txt
	case strings.Contains(txt, vUnknownText):
		return "unknown", txt
	}
	return "other:" + txt, txt
}

// vIsPath: validate.PathError has no Unwrap, so its class is: a PathError with the path the
// handler used whose inner error is a validation error.
func vIsPath(err error) bool {
	var pe validate.PathError
	if !errors.As(err, &pe) || pe.Err == nil {
		return false
	}
	return strings.Join(pe.Path, ".") == "a.b" && errors.Is(pe.Err, validate.ErrValidation)
}

// ---------------------------------------------------------------- payloads

func vPattern(side byte, id, size int) string {
	if size == 0 {
		return ""
	}
	b := make([]byte, size)
	x := uint32(id)*2654435761 + uint32(side)
	for j := range b {
		x = x*1664525 + 1013904223
		b[j] = 'a' + byte((x>>24)%26)
	}
	return string(b)
}

func vSize(sz []int, id int) int {
	if id >= 1 && id <= len(sz) {
		return sz[id-1]
	}
	return 3
}

// ---------------------------------------------------------------- one run

type vCmd struct {
	op   string
	id   int
	size int
	kind string
}
type vRes struct {
	res string
	id  int
	txt string
}

type vRun struct {
	hKept  []vMsg
	cKept  []vMsg
	job    *vJob
	hCmd   chan vCmd
	hDone  chan vRes
	cCmd   chan vCmd
	cDone  chan vRes
	hStart chan struct{}
}

func vGuard(f func() vRes) (r vRes) {
	defer func() {
		if p := recover(); p != nil {
			r = vRes{res: "panic:" + fmt.Sprint(p), txt: fmt.Sprint(p)}
		}
	}()
	return f()
}

// handle is the server handler: executes handler-side commands of the current run.
func (r *vRun) handle(_ context.Context, s vSS) error {
	close(r.hStart)
	for cmd := range r.hCmd {
		switch cmd.op {
		case "recv":
			r.hDone <- vGuard(func() vRes {
				req, err := s.Receive()
				if err != nil {
					c, t := vClass(err)
					return vRes{res: c, txt: t}
				}
				if req.Message != vPattern('c', req.ID, vSize(r.job.SzC, req.ID)) {
					return vRes{res: "corrupt", id: req.ID}
				}
				r.hKept = append(r.hKept, req)
				for _, k := range r.hKept { // earlier messages must not change when later ones arrive
					if !vIntact(k, r.job.Tr != "grpc") {
						return vRes{res: "corrupt", id: req.ID}
					}
				}
				return vRes{res: "msg", id: req.ID}
			})
		case "send":
			r.hDone <- vGuard(func() vRes {
				err := s.Send(vMk(cmd.id, vPattern('h', cmd.id, cmd.size)))
				c, t := vClass(err)
				return vRes{res: c, txt: t}
			})
		case "ret":
			r.hDone <- vRes{res: "nil"}
			return vMkErr(cmd.kind)
		}
	}
	return nil
}

func (r *vRun) client(s vCS) {
	for cmd := range r.cCmd {
		switch cmd.op {
		case "recv":
			r.cDone <- vGuard(func() vRes {
				res, err := s.Receive()
				if err != nil {
					c, t := vClass(err)
					return vRes{res: c, txt: t}
				}
				if res.Message != vPattern('h', res.ID, vSize(r.job.SzH, res.ID)) {
					return vRes{res: "corrupt", id: res.ID}
				}
				r.cKept = append(r.cKept, res)
				for _, k := range r.cKept {
					if !vIntact(k, r.job.Tr != "grpc") {
						return vRes{res: "corrupt", id: res.ID}
					}
				}
				return vRes{res: "msg", id: res.ID}
			})
		case "send":
			r.cDone <- vGuard(func() vRes {
				err := s.Send(vMk(cmd.id, vPattern('c', cmd.id, cmd.size)))
				c, t := vClass(err)
				return vRes{res: c, txt: t}
			})
		case "close":
			r.cDone <- vGuard(func() vRes {
				c, t := vClass(s.CloseSend())
				return vRes{res: c, txt: t}
			})
		}
	}
}

// ---------------------------------------------------------------- transports (one set per worker)

type vWorker struct {
	cur     atomic.Pointer[vRun]
	wsAddr  address.Address
	wsJSON  freighter.StreamClient[vRq, vRs]
	wsMsgp  freighter.StreamClient[vRq, vRs]
	app     *fiber.App
	gAddr   address.Address
	gClient freighter.StreamClient[vRq, vRs]
	gServer *grpc.Server
	watch   time.Duration
}

func (w *vWorker) dispatch(ctx context.Context, s vSS) error {
	r := w.cur.Load()
	if r == nil {
		return errors.New("verif: no run bound")
	}
	return r.handle(ctx, s)
}

type vReqT struct{}

func (vReqT) Forward(_ context.Context, in vRq) (*v1.Request, error) {
	return &v1.Request{Id: int32(in.ID), Message: in.Message}, nil
}
func (vReqT) Backward(_ context.Context, in *v1.Request) (vRq, error) {
	return vRq{ID: int(in.Id), Message: in.Message}, nil
}

type vResT struct{}

func (vResT) Forward(_ context.Context, in vRs) (*v1.Response, error) {
	return &v1.Response{Id: int32(in.ID), Message: in.Message}, nil
}
func (vResT) Backward(_ context.Context, in *v1.Response) (vRs, error) {
	return vRs{ID: int(in.Id), Message: in.Message}, nil
}

type vGrpcServer struct {
	fgrpc.StreamServerCore[vRq, *v1.Request, vRs, *v1.Response]
}

func (s *vGrpcServer) Exec(stream v1.TestStreamService_ExecServer) error {
	return s.Handler(stream.Context(), stream)
}

func vNewWorker(needWS, needGRPC bool, watch time.Duration) (*vWorker, error) {
	w := &vWorker{watch: watch}
	if needWS {
		ln, err := net.Listen("tcp", "127.0.0.1:0")
		if err != nil {
			return nil, err
		}
		w.wsAddr = address.Address(ln.Addr().String())
		w.app = fiber.New(fiber.Config{})
		router, err := fhttp.NewRouter(fhttp.RouterConfig{})
		if err != nil {
			return nil, err
		}
		srv := fhttp.NewStreamServer[vRq, vRs](router, "/")
		srv.BindHandler(w.dispatch)
		router.BindTo(w.app)
		if w.wsJSON, err = fhttp.NewStreamClient[vRq, vRs](fhttp.StreamClientConfig{Codec: jsoncodec.Codec}); err != nil {
			return nil, err
		}
		if w.wsMsgp, err = fhttp.NewStreamClient[vRq, vRs](fhttp.StreamClientConfig{Codec: msgpack.Codec}); err != nil {
			return nil, err
		}
		go func() { _ = w.app.Listener(ln, fiber.ListenConfig{DisableStartupMessage: true}) }()
		ok := false
		for i := 0; i < 2000; i++ {
			c, err := net.DialTimeout("tcp", w.wsAddr.String(), time.Second)
			if err == nil {
				_ = c.Close()
				ok = true
				break
			}
			time.Sleep(time.Millisecond)
		}
		if !ok {
			return nil, fmt.Errorf("ws server did not start")
		}
	}
	if needGRPC {
		ln, err := net.Listen("tcp", "127.0.0.1:0")
		if err != nil {
			return nil, err
		}
		w.gAddr = address.Address(ln.Addr().String())
		w.gServer = grpc.NewServer()
		gs := &vGrpcServer{StreamServerCore: fgrpc.StreamServerCore[vRq, *v1.Request, vRs, *v1.Response]{
			RequestTranslator:  vReqT{},
			ResponseTranslator: vResT{},
			ServiceDesc:        &v1.TestStreamService_ServiceDesc,
			Internal:           true,
		}}
		v1.RegisterTestStreamServiceServer(w.gServer, gs)
		gs.BindHandler(w.dispatch)
		pool := fgrpc.NewPool("", grpc.WithTransportCredentials(insecure.NewCredentials()))
		w.gClient = &fgrpc.StreamClient[vRq, *v1.Request, vRs, *v1.Response]{
			RequestTranslator:  vReqT{},
			ResponseTranslator: vResT{},
			Pool:               pool,
			ServiceDesc:        &v1.TestStreamService_ServiceDesc,
			ClientFunc: func(ctx context.Context, conn grpc.ClientConnInterface) (fgrpc.GRPCClientStream[*v1.Request, *v1.Response], error) {
				return v1.NewTestStreamServiceClient(conn).Exec(ctx)
			},
		}
		go func() { _ = w.gServer.Serve(ln) }()
	}
	return w, nil
}

func (w *vWorker) open(ctx context.Context, r *vRun) (vCS, error) {
	switch r.job.Tr {
	case "mock":
		srv, cl := fmock.NewStreamPair[vRq, vRs](r.job.Cap, r.job.Cap)
		srv.BindHandler(r.handle)
		return cl.Stream(ctx, "")
	case "ws":
		w.cur.Store(r)
		if r.job.Codec == "msgpack" {
			return w.wsMsgp.Stream(ctx, w.wsAddr)
		}
		return w.wsJSON.Stream(ctx, w.wsAddr)
	case "grpc":
		w.cur.Store(r)
		return w.gClient.Stream(ctx, w.gAddr)
	}
	return nil, fmt.Errorf("unknown transport %q", r.job.Tr)
}

// exec runs one job and returns its trace.
func (w *vWorker) exec(job *vJob) (out vOut) {
	out.I = job.I
	out.Status = "ok"
	r := &vRun{job: job, hCmd: make(chan vCmd, 1), hDone: make(chan vRes, 1),
		cCmd: make(chan vCmd, 1), cDone: make(chan vRes, 1), hStart: make(chan struct{})}
	ctx, cancel := context.WithCancel(context.Background())
	defer cancel()
	var (
		cs      vCS
		openErr error
		opened  = make(chan struct{})
	)
	go func() {
		defer close(opened)
		defer func() {
			if p := recover(); p != nil {
				openErr = fmt.Errorf("panic opening stream: %v", p)
			}
		}()
		cs, openErr = w.open(ctx, r)
	}()
	select {
	case <-opened:
	case <-time.After(w.watch):
		out.Status, out.Note = "openfail", "Stream() did not return"
		return
	}
	if openErr != nil {
		out.Status, out.Note = "openfail", openErr.Error()
		return
	}
	select {
	case <-r.hStart:
	case <-time.After(w.watch):
		out.Status, out.Note = "openfail", "handler was not invoked"
		return
	}
	go r.client(cs)
	defer close(r.cCmd)
	defer close(r.hCmd)

	var rnd *rand.Rand
	if job.Jit != 0 {
		rnd = rand.New(rand.NewSource(job.Jit))
	}
	jitter := func() {
		if rnd == nil {
			return
		}
		switch rnd.Intn(6) {
		case 0:
			runtime.Gosched()
		case 1:
			time.Sleep(time.Duration(rnd.Intn(300)) * time.Microsecond)
		case 2:
			time.Sleep(time.Duration(1+rnd.Intn(3)) * time.Millisecond)
		}
	}
	var (
		cNext, hNext = 1, 1
		retAt        time.Time
		returned     bool
		cBusy, hBusy bool
		cAccepted    int  // client Sends that returned nil
		hGot         int  // requests the handler received
		closeCalled  bool // client called CloseSend
	)
	since := func() int64 {
		if !returned {
			return -1
		}
		return time.Since(retAt).Milliseconds()
	}
	call := func(s, op string) {
		t := vTr{Ev: "call", S: s, Op: op, K: "none", Res: "none"}
		cmd := vCmd{op: op}
		if s == "c" {
			if op == "send" {
				cmd.id, cmd.size = cNext, vSize(job.SzC, cNext)
				cNext++
			}
			t.ID = cmd.id
			t.Ms = since()
			out.Trace = append(out.Trace, t)
			cBusy = true
			r.cCmd <- cmd
			return
		}
		if op == "send" {
			cmd.id, cmd.size = hNext, vSize(job.SzH, hNext)
			hNext++
		}
		if op == "ret" {
			cmd.kind = job.Kind
			t.K = job.Kind
			returned, retAt = true, time.Now()
		}
		t.ID = cmd.id
		t.Ms = since()
		out.Trace = append(out.Trace, t)
		hBusy = true
		r.hCmd <- cmd
	}
	ret := func(s, op string) (vRes, bool) {
		ch := r.cDone
		if s == "h" {
			ch = r.hDone
		}
		select {
		case res := <-ch:
			if s == "c" {
				cBusy = false
			} else {
				hBusy = false
			}
			if s == "c" && op == "send" && res.res == "nil" {
				cAccepted++
			}
			if s == "h" && op == "recv" && res.res == "msg" {
				hGot++
			}
			out.Trace = append(out.Trace, vTr{Ev: "ret", S: s, Op: op, ID: res.id, Res: res.res, K: "none", Txt: res.txt, Ms: since()})
			return res, true
		case <-time.After(w.watch):
			out.Status = "stuck"
			out.Note = fmt.Sprintf("%s %s did not return within %s (event %d)", s, op, w.watch, len(out.Trace))
			return vRes{}, false
		}
	}
	for _, e := range job.Ev {
		jitter()
		if e.E == "call" {
			closeCalled = closeCalled || (e.S == "c" && e.Op == "close")
			call(e.S, e.Op)
			if e.S == "h" && e.Op == "ret" && job.Pause > 0 {
				time.Sleep(time.Duration(job.Pause * float64(time.Millisecond)))
			}
			continue
		}
		if _, ok := ret(e.S, e.Op); !ok {
			return
		}
	}
	if !job.Epi || cBusy || hBusy {
		return
	}
	// Epilogue: the handler returns (if it has not), the client drains every outstanding
	// response up to the terminal result, then probes that the terminal result is stable.
	if !returned {
		call("h", "ret")
		if _, ok := ret("h", "ret"); !ok {
			return
		}
		if job.Pause > 0 {
			time.Sleep(time.Duration(job.Pause * float64(time.Millisecond)))
		}
	}
	for i := 0; i < len(job.SzH)+64; i++ {
		call("c", "recv")
		res, ok := ret("c", "recv")
		if !ok {
			return
		}
		if res.res != "msg" {
			break
		}
	}
	for _, op := range []string{"recv", "send", "recv", "close", "send", "recv"} {
		// mock CloseSend (as written) blocks for ever when the request buffer is full and
		// nobody receives any more (Stream.tla, deviation CloseNeedsRoom): not probed.
		if op == "close" && job.Tr == "mock" && !closeCalled && cAccepted-hGot >= job.Cap {
			continue
		}
		jitter()
		call("c", op)
		if _, ok := ret("c", op); !ok {
			return
		}
	}
	return
}

// ---------------------------------------------------------------- test entry

func TestVerifStreamScripts(t *testing.T) {
	in, outp := os.Getenv("VERIF_IN"), os.Getenv("VERIF_OUT")
	if in == "" || outp == "" {
		t.Skip("VERIF_IN / VERIF_OUT not set")
	}
	f, err := os.Open(in)
	if err != nil {
		t.Fatal(err)
	}
	defer f.Close()
	var jobs []*vJob
	needWS, needGRPC := false, false
	sc := bufio.NewScanner(f)
	sc.Buffer(make([]byte, 1<<20), 1<<26)
	for sc.Scan() {
		ln := strings.TrimSpace(sc.Text())
		if ln == "" {
			continue
		}
		j := &vJob{}
		if err := json.Unmarshal([]byte(ln), j); err != nil {
			t.Fatalf("bad job line: %v", err)
		}
		needWS = needWS || j.Tr == "ws"
		needGRPC = needGRPC || j.Tr == "grpc"
		jobs = append(jobs, j)
	}
	nw := runtime.GOMAXPROCS(0)
	if v, err := strconv.Atoi(os.Getenv("VERIF_WORKERS")); err == nil && v > 0 {
		nw = v
	}
	if nw > 8 {
		nw = 8
	}
	if nw > len(jobs) {
		nw = len(jobs)
	}
	if nw < 1 {
		nw = 1
	}
	watch := 30 * time.Second
	if v, err := strconv.Atoi(os.Getenv("VERIF_WATCH_MS")); err == nil && v > 0 {
		watch = time.Duration(v) * time.Millisecond
	}
	of, err := os.Create(outp)
	if err != nil {
		t.Fatal(err)
	}
	defer of.Close()
	bw := bufio.NewWriterSize(of, 1<<20)
	defer bw.Flush()
	var (
		mu    sync.Mutex
		wg    sync.WaitGroup
		next  atomic.Int64
		stuck atomic.Int64
	)
	for k := 0; k < nw; k++ {
		w, err := vNewWorker(needWS, needGRPC, watch)
		if err != nil {
			t.Fatalf("cannot start transports: %v", err)
		}
		wg.Add(1)
		go func() {
			defer wg.Done()
			for {
				n := int(next.Add(1)) - 1
				if n >= len(jobs) {
					return
				}
				var o vOut
				if stuck.Load() >= 40 {
					o = vOut{I: jobs[n].I, Status: "skipped"}
				} else {
					if stuck.Load() >= 2 {
						// the tree evidently starves calls: keep looking for wrong results, but
						// do not spend the full watchdog on every further script
						w.watch = 3 * time.Second
					}
					o = w.exec(jobs[n])
					if o.Status == "stuck" {
						stuck.Add(1)
					}
				}
				b, _ := json.Marshal(o)
				mu.Lock()
				_, _ = bw.Write(b)
				_ = bw.WriteByte('\n')
				mu.Unlock()
			}
		}()
	}
	wg.Wait()
}
