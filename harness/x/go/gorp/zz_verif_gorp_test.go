//go:build verif

// Replay of GorpIndexGen.tla behaviours into a real gorp.Table on memkv with a
// LookupIndex and a SortedIndex on the same field (C17, DESIGN.md). Injected with
// `go test -overlay`; never part of /repo.
//
// After every step, for the reader without a transaction and for every open
// transaction, the harness projects the row map (full scan), LookupIndex.Get /
// SortedIndex.Get per value, and the result of every filter tree three ways (built from
// li.Filter, built from si.Filter, and as one gorp.Match predicate over a scan), plus
// Count / Exists and the ordered cursor walks, and compares all of them with the state the
// specification computed for that step.
package gorp

import (
	"bufio"
	"context"
	"encoding/json"
	"fmt"
	"os"
	"runtime"
	"sort"
	"strconv"
	"strings"
	"sync"
	"sync/atomic"
	"testing"
	"time"

	"github.com/synnaxlabs/x/errors"
	"github.com/synnaxlabs/x/kv"
	"github.com/synnaxlabs/x/kv/memkv"
	"github.com/synnaxlabs/x/observe"
	"github.com/synnaxlabs/x/query"
)

type gEntry struct {
	ID  int32
	Val string
}

func (e gEntry) GorpKey() int32    { return e.ID }
func (e gEntry) SetOptions() []any { return nil }

type gFilter = Filter[int32, gEntry]

type gTree struct {
	Op   string   `json:"op"`
	Vals []string `json:"vals"`
	Keys []string `json:"keys"`
	P    string   `json:"p"`
	Args []*gTree `json:"args"`
	Arg  *gTree   `json:"arg"`
}

type gOQ struct {
	Dir string `json:"dir"`
	Cur string `json:"cur"`
	Lim int    `json:"lim"`
}

type gDefs struct {
	Trees []*gTree `json:"trees"`
	OQs   []gOQ    `json:"oqs"`
}

type gStep struct {
	A      string                       `json:"a"`
	U      string                       `json:"u"`
	K      string                       `json:"k"`
	V      string                       `json:"v"`
	V2     string                       `json:"v2"`
	Out    string                       `json:"out"`
	KV     map[string]string            `json:"kv"`
	Idx    map[string]string            `json:"idx"`
	Deltas int                          `json:"deltas"`
	Views  map[string]map[string]string `json:"views"`
	Q      map[string][][]string        `json:"q"`
	Ord    [][]string                   `json:"ord"`
}

type gResult struct {
	I    int    `json:"i"`
	R    string `json:"r"` // ok | mismatch | inconclusive
	Mode string `json:"mode,omitempty"`
	Zero bool   `json:"zero"` // "a" concretised as ""
	Step int    `json:"step"`
	A    string `json:"a,omitempty"` // action of the step
	Cls  string `json:"cls,omitempty"`
	What string `json:"what,omitempty"`
	Exp  string `json:"exp,omitempty"`
	Act  string `json:"act,omitempty"`
}

type gStats struct {
	Steps, Queries, TxViews, DirtyTxViews, Ordered, NestConflict, NestSerialised int64
	Dups                                                                         int64
	Actions                                                                      sync.Map
}

func gKeyID(k string) int32 {
	n, _ := strconv.Atoi(strings.TrimPrefix(k, "k"))
	return int32(n)
}
func gKeyName(id int32) string { return "k" + strconv.Itoa(int(id)) }

func gPred(p string, id int32, v string) bool {
	switch p {
	case "kodd":
		return id%2 == 1
	case "vnota":
		return v != "a"
	}
	return true
}

func gHolds(t *gTree, id int32, v string) bool {
	switch t.Op {
	case "eq":
		for _, x := range t.Vals {
			if x == v {
				return true
			}
		}
		return false
	case "keys":
		for _, k := range t.Keys {
			if gKeyID(k) == id {
				return true
			}
		}
		return false
	case "pred":
		return gPred(t.P, id, v)
	case "and":
		for _, a := range t.Args {
			if !gHolds(a, id, v) {
				return false
			}
		}
		return true
	case "or":
		for _, a := range t.Args {
			if gHolds(a, id, v) {
				return true
			}
		}
		return false
	case "not":
		return !gHolds(t.Arg, id, v)
	}
	panic("unknown op " + t.Op)
}

// gHasDupVals reports whether some eq leaf repeats a value.
func gHasDupVals(t *gTree) bool {
	if t == nil {
		return false
	}
	if t.Op == "eq" {
		seen := map[string]bool{}
		for _, v := range t.Vals {
			if seen[v] {
				return true
			}
			seen[v] = true
		}
	}
	for _, a := range t.Args {
		if gHasDupVals(a) {
			return true
		}
	}
	return gHasDupVals(t.Arg)
}

type gWorld struct {
	ctx     context.Context
	mode    string
	kvdb    kv.DB
	db      *DB
	tbl     *Table[int32, gEntry]
	li      *LookupIndex[int32, gEntry, string]
	si      *SortedIndex[int32, gEntry, string]
	remote  atomic.Bool
	txs     map[string]Tx
	pending []Tx // committed, not yet closed (closed at the start of the next step)
	armed   atomic.Pointer[func()]
	inner   chan struct{}
	defs    *gDefs
	stats   *gStats
	step    int
	// zero: abstract value "a" is stored as "" (the Go zero value of the indexed field);
	// the order "" < "b" < "c" is that of a < b < c
	zero bool
	// fault makes the next kv commit issued through a gorp tx fail
	fault *gFaultDB
}

func (w *gWorld) conc(v string) string {
	if w.zero && v == "a" {
		return ""
	}
	return v
}

func (w *gWorld) abs(v string) string {
	if w.zero && v == "" {
		return "a"
	}
	return v
}

func (w *gWorld) concAll(vs []string) []string {
	o := make([]string, len(vs))
	for i, v := range vs {
		o[i] = w.conc(v)
	}
	return o
}

// absAll rewrites query results into abstract values.
func (w *gWorld) absAll(es []gEntry) {
	for i := range es {
		es[i].Val = w.abs(es[i].Val)
	}
}

// gFaultDB wraps the kv store: a transaction opened through it fails its Commit (without
// applying anything) when failNext is set - the way a kv engine reports a failed commit.
type gFaultDB struct {
	kv.DB
	failNext atomic.Bool
}

type gFaultTx struct {
	kv.Tx
	db *gFaultDB
}

var errGInjected = errors.New("verif: injected kv commit failure")

func (d *gFaultDB) OpenTx() kv.Tx { return &gFaultTx{Tx: d.DB.OpenTx(), db: d} }

func (t *gFaultTx) Commit(ctx context.Context, opts ...any) error {
	if t.db.failNext.Swap(false) {
		return errGInjected
	}
	return t.Tx.Commit(ctx, opts...)
}

// gRemoteObs forwards kv changes to the index observer only while `on` is set: the
// analogue of aspen's NewObservable(IgnoreHostLeaseholder) that production wires through
// gorp.WithIndexObservable - local commits reach the index through the delta flush only.
type gRemoteObs struct {
	src kv.DB
	on  *atomic.Bool
}

func (o gRemoteObs) OnChange(h func(context.Context, kv.TxReader)) observe.Disconnect {
	return o.src.OnChange(func(ctx context.Context, r kv.TxReader) {
		if o.on.Load() {
			h(ctx, r)
		}
	})
}

func gOpen(ctx context.Context, mode string, zero bool, pre map[string]string, defs *gDefs, st *gStats) (*gWorld, error) {
	w := &gWorld{ctx: ctx, mode: mode, zero: zero, txs: map[string]Tx{}, defs: defs, stats: st}
	w.kvdb = memkv.New()
	w.fault = &gFaultDB{DB: w.kvdb}
	if mode == "ext" {
		w.db = Wrap(w.fault, WithIndexObservable(gRemoteObs{src: w.kvdb, on: &w.remote}))
	} else {
		w.db = Wrap(w.fault)
	}
	// scheduling hook for NestedCommit: runs inside the outer commit, after the kv apply
	// and before the outer delta flush
	w.kvdb.OnChange(func(context.Context, kv.TxReader) {
		f := w.armed.Swap(nil)
		if f == nil {
			return
		}
		done := make(chan struct{})
		w.inner = done
		go func() { defer close(done); (*f)() }()
		select {
		case <-done:
		case <-time.After(400 * time.Millisecond):
		}
	})
	var seed []gEntry
	for k, v := range pre {
		if v != "none" {
			seed = append(seed, gEntry{ID: gKeyID(k), Val: w.conc(v)})
		}
	}
	sort.Slice(seed, func(a, b int) bool { return seed[a].ID > seed[b].ID })
	if len(seed) > 0 {
		if err := NewCreate[int32, gEntry]().Entries(&seed).Exec(ctx, w.db); err != nil {
			return nil, err
		}
	}
	w.li = NewLookupIndex[int32, gEntry, string]("val_l", func(e *gEntry) string { return e.Val })
	w.si = NewSortedIndex[int32, gEntry, string]("val_s", func(e *gEntry) string { return e.Val })
	tbl, err := OpenTable[int32, gEntry](ctx, TableConfig[int32, gEntry]{
		DB: w.db, Indexes: []Index[int32, gEntry]{w.li, w.si},
	})
	if err != nil {
		return nil, err
	}
	w.tbl = tbl
	if err := tbl.WaitForIndexes(ctx); err != nil {
		return nil, err
	}
	return w, nil
}

func (w *gWorld) closePending() {
	for _, t := range w.pending {
		_ = t.Close()
	}
	w.pending = nil
}

func (w *gWorld) close() {
	w.closePending()
	for _, t := range w.txs {
		_ = t.Close()
	}
	if w.tbl != nil {
		_ = w.tbl.Close()
	}
	_ = w.db.Close()
}

func (w *gWorld) view(u string) Tx {
	if u == "db" {
		return w.db
	}
	return w.txs[u]
}

// eqF picks the index an eq leaf is answered from.
func (w *gWorld) eqF(sorted bool) func(vals ...string) gFilter {
	if sorted {
		return w.si.Filter
	}
	return w.li.Filter
}

func (w *gWorld) build(t *gTree, eq func(...string) gFilter) gFilter {
	switch t.Op {
	case "eq":
		return eq(w.concAll(t.Vals)...)
	case "keys":
		ids := make([]int32, len(t.Keys))
		for i, k := range t.Keys {
			ids[i] = gKeyID(k)
		}
		return MatchKeys[int32, gEntry](ids...)
	case "pred":
		p := t.P
		return Match[int32, gEntry](func(_ Context, e *gEntry) (bool, error) {
			return gPred(p, e.ID, w.abs(e.Val)), nil
		})
	case "and", "or":
		fs := make([]gFilter, len(t.Args))
		for i, a := range t.Args {
			fs[i] = w.build(a, eq)
		}
		if t.Op == "and" {
			return And(fs...)
		}
		return Or(fs...)
	case "not":
		return Not(w.build(t.Arg, eq))
	}
	panic("unknown op " + t.Op)
}

func (w *gWorld) scanF(t *gTree) gFilter {
	return Match[int32, gEntry](func(_ Context, e *gEntry) (bool, error) {
		return gHolds(t, e.ID, w.abs(e.Val)), nil
	})
}

type gMis struct{ cls, what, exp, act string }

func gSorted(s []string) []string {
	o := append([]string{}, s...)
	sort.Strings(o)
	return o
}

func gKeysOf(es []gEntry) []string {
	o := make([]string, len(es))
	for i, e := range es {
		o[i] = gKeyName(e.ID)
	}
	return o
}

func gSetEq(a, b []string) bool {
	a, b = gSorted(a), gSorted(b)
	if len(a) != len(b) {
		return false
	}
	for i := range a {
		if a[i] != b[i] {
			return false
		}
	}
	return true
}

func gDedup(a []string) ([]string, bool) {
	seen := map[string]bool{}
	var o []string
	dup := false
	for _, x := range a {
		if seen[x] {
			dup = true
			continue
		}
		seen[x] = true
		o = append(o, x)
	}
	return o, dup
}

// apply performs one step's call on the real table and returns its result class.
func (w *gWorld) apply(s *gStep, n int) (string, error) {
	ctx := w.ctx
	// transactions committed by the previous step are closed only now: the queries that
	// followed that step ran between Commit's return and Close (call sites with a deferred
	// Close; "after commit every reader sees them" speaks about Commit, not Close)
	w.closePending()
	sorted := n%2 == 1
	setVal := func(v string) func(Context, gEntry) gEntry {
		return func(_ Context, e gEntry) gEntry { e.Val = w.conc(v); return e }
	}
	cls := func(err error) (string, error) {
		if err == nil {
			return "ok", nil
		}
		if errors.Is(err, query.ErrNotFound) {
			return "notfound", nil
		}
		return "error", err
	}
	switch s.A {
	case "populate":
		return "ok", nil
	case "open":
		w.txs[s.U] = w.db.OpenTx()
		return "ok", nil
	case "commit":
		t := w.txs[s.U]
		delete(w.txs, s.U)
		if err := t.Commit(ctx); err != nil {
			_ = t.Close()
			return "error", err
		}
		w.pending = append(w.pending, t)
		return "ok", nil
	case "abort":
		t := w.txs[s.U]
		delete(w.txs, s.U)
		return cls(t.Close())
	case "nest", "nestset":
		outer := w.txs[s.U]
		delete(w.txs, s.U)
		var innerErr error
		var f func()
		if s.A == "nest" {
			in := w.txs[s.V2]
			delete(w.txs, s.V2)
			f = func() {
				innerErr = in.Commit(ctx)
				_ = in.Close()
			}
		} else {
			e := gEntry{ID: gKeyID(s.K), Val: w.conc(s.V)}
			f = func() { innerErr = w.tbl.NewCreate().Entry(&e).Exec(ctx, w.db) }
		}
		w.inner = nil
		w.armed.Store(&f)
		err := outer.Commit(ctx)
		_ = outer.Close()
		if g := w.armed.Swap(nil); g != nil {
			// the outer commit raised no kv change (empty batch): run the inner call after it
			(*g)()
		} else if w.inner != nil {
			select {
			case <-w.inner:
			case <-time.After(10 * time.Second):
				return "error", errors.New("inner commit did not finish")
			}
		}
		if err != nil {
			return "error", err
		}
		return cls(innerErr)
	case "commitfail":
		// the kv engine refuses the commit: for the table and the index this is an abort
		t := w.txs[s.U]
		delete(w.txs, s.U)
		w.fault.failNext.Store(true)
		err := t.Commit(ctx)
		w.fault.failNext.Store(false)
		_ = t.Close()
		if errors.Is(err, errGInjected) {
			return "commitfail", nil
		}
		return cls(err)
	case "set":
		e := gEntry{ID: gKeyID(s.K), Val: w.conc(s.V)}
		return cls(w.tbl.NewCreate().Entry(&e).Exec(ctx, w.view(s.U)))
	case "delset":
		// delete the row, then create it again, through the same view
		if err := w.tbl.NewDelete().Where(MatchKeys[int32, gEntry](gKeyID(s.K))).Exec(ctx, w.view(s.U)); err != nil {
			return cls(err)
		}
		e := gEntry{ID: gKeyID(s.K), Val: w.conc(s.V)}
		return cls(w.tbl.NewCreate().Entry(&e).Exec(ctx, w.view(s.U)))
	case "upd":
		return cls(w.tbl.NewUpdate().Where(MatchKeys[int32, gEntry](gKeyID(s.K))).
			Change(setVal(s.V)).Exec(ctx, w.view(s.U)))
	case "del":
		return cls(w.tbl.NewDelete().Where(MatchKeys[int32, gEntry](gKeyID(s.K))).Exec(ctx, w.view(s.U)))
	case "updeq":
		return cls(w.tbl.NewUpdate().Where(w.eqF(sorted)(w.conc(s.V))).Change(setVal(s.V2)).Exec(ctx, w.view(s.U)))
	case "deleq":
		return cls(w.tbl.NewDelete().Where(w.eqF(sorted)(w.conc(s.V))).Exec(ctx, w.view(s.U)))
	case "remote":
		// a write below the table (no index staging): the index learns of it through the
		// change observer only
		w.remote.Store(true)
		defer w.remote.Store(false)
		if s.V == "del" {
			return cls(NewDelete[int32, gEntry]().Where(MatchKeys[int32, gEntry](gKeyID(s.K))).Exec(ctx, w.db))
		}
		e := gEntry{ID: gKeyID(s.K), Val: w.conc(s.V)}
		return cls(NewCreate[int32, gEntry]().Entry(&e).Exec(ctx, w.db))
	}
	return "error", fmt.Errorf("unknown action %q", s.A)
}

var gVals = []string{"a", "b", "c"}

// gInVals: is v one of the first VERIF_NVAL model values
func gInVals(v string) bool {
	nv, _ := strconv.Atoi(os.Getenv("VERIF_NVAL"))
	if nv <= 0 {
		nv = 3
	}
	for i := 0; i < nv && i < len(gVals); i++ {
		if gVals[i] == v {
			return true
		}
	}
	return false
}

// checkEntries compares a query result with the expected key set and the view's values.
func gCheckEntries(res []gEntry, exp []string, view map[string]string, dupOK bool, what string) (*gMis, bool) {
	got, dup := gDedup(gKeysOf(res))
	if !gSetEq(got, exp) {
		return &gMis{"query", what, fmt.Sprint(gSorted(exp)), fmt.Sprint(gSorted(gKeysOf(res)))}, dup
	}
	for _, e := range res {
		if view[gKeyName(e.ID)] != e.Val {
			return &gMis{"query", what + " value of " + gKeyName(e.ID), view[gKeyName(e.ID)], e.Val}, dup
		}
	}
	if dup && !dupOK {
		return &gMis{"dup", what, fmt.Sprint(gSorted(exp)), fmt.Sprint(gSorted(gKeysOf(res)))}, dup
	}
	return nil, dup
}

// check compares every projection of the real table with the step's expected post-state.
// Returns the first disagreement, and separately the first repeated-value duplicate.
func (w *gWorld) check(s *gStep, n int) (mis *gMis, dupMis *gMis) {
	ctx := w.ctx
	// 0. per-tx staging buffers held by the indexes: one per open tx that staged a write,
	// none for ended (committed or aborted) transactions
	w.li.overlay.deltaMu.Lock()
	nl := len(w.li.overlay.txDeltas)
	w.li.overlay.deltaMu.Unlock()
	w.si.overlay.deltaMu.Lock()
	ns := len(w.si.overlay.txDeltas)
	w.si.overlay.deltaMu.Unlock()
	if nl != s.Deltas || ns != s.Deltas {
		return &gMis{"residue", "staging buffers kept by the indexes (lookup, sorted)", fmt.Sprint(s.Deltas), fmt.Sprint(nl, ns)}, nil
	}
	views := make([]string, 0, len(s.Views))
	for u := range s.Views {
		views = append(views, u)
	}
	sort.Strings(views)
	for _, u := range views {
		exp := s.Views[u]
		t := w.view(u)
		if t == nil {
			return &gMis{"harness", "no handle for view " + u, "", ""}, nil
		}
		dirty := false
		if u != "db" {
			atomic.AddInt64(&w.stats.TxViews, 1)
			for k, v := range exp {
				if s.KV[k] != v {
					dirty = true
				}
			}
			if dirty {
				atomic.AddInt64(&w.stats.DirtyTxViews, 1)
			}
		}
		// 1. the rows this view reads (full scan, no filter)
		var rows []gEntry
		if err := w.tbl.NewRetrieve().Entries(&rows).Exec(ctx, t); err != nil {
			return &gMis{"error", "scan " + u, "", err.Error()}, nil
		}
		got := map[string]string{}
		for k := range exp {
			got[k] = "none"
		}
		for _, e := range rows {
			got[gKeyName(e.ID)] = w.abs(e.Val)
		}
		if fmt.Sprint(got) != fmt.Sprint(exp) {
			return &gMis{"view", "rows read by " + u, fmt.Sprint(exp), fmt.Sprint(got)}, nil
		}
		// 2. index contents through this view
		var gtx Tx
		if u != "db" {
			gtx = t
		} else if n%2 == 1 {
			gtx = w.db
		}
		for _, v := range gVals {
			var want []string
			for k, x := range exp {
				if x == v {
					want = append(want, k)
				}
			}
			for which := 0; which < 2; which++ {
				var ks []int32
				var err error
				name := "LookupIndex"
				if which == 0 {
					ks, err = w.li.Get(gtx, w.conc(v))
				} else {
					name = "SortedIndex"
					ks, err = w.si.Get(gtx, w.conc(v))
				}
				if err != nil {
					return &gMis{"error", name + ".Get", "", err.Error()}, nil
				}
				names := make([]string, len(ks))
				for i, k := range ks {
					names[i] = gKeyName(k)
				}
				if !gSetEq(names, want) || len(names) != len(want) {
					cls := "get"
					if u == "db" && (s.A == "nest" || s.A == "nestset") {
						var asis []string
						for k, x := range s.Idx {
							if x == v {
								asis = append(asis, k)
							}
						}
						if gSetEq(names, asis) {
							cls = "stale-window"
						}
					}
					return &gMis{cls, fmt.Sprintf("%s.Get(%s, %q)", name, u, v), fmt.Sprint(gSorted(want)), fmt.Sprint(gSorted(names))}, nil
				}
			}
		}
		// 3. every filter tree: through each index, as a scan, Count, Exists
		for i, tr := range w.defs.Trees {
			want := s.Q[u][i]
			dupOK := gHasDupVals(tr)
			bare := tr.Op == "keys"
			for variant := 0; variant < 3; variant++ {
				var f gFilter
				name := ""
				switch variant {
				case 0:
					f, name = w.build(tr, w.li.Filter), "lookup"
				case 1:
					f, name = w.build(tr, w.si.Filter), "sorted"
				case 2:
					f, name = w.scanF(tr), "scan"
				}
				what := fmt.Sprintf("tree %d via %s in %s", i+1, name, u)
				var res []gEntry
				q := w.tbl.NewRetrieve()
				if tr.Op == "and" && variant < 2 && (n+i)%2 == 0 {
					// the same conjunction written as chained Where calls
					for _, a := range tr.Args {
						q = q.Where(w.build(a, w.eqF(variant == 1)))
					}
				} else {
					q = q.Where(f)
				}
				err := q.Entries(&res).Exec(ctx, t)
				atomic.AddInt64(&w.stats.Queries, 1)
				if err != nil && !(bare && errors.Is(err, query.ErrNotFound)) {
					return &gMis{"error", what, "", err.Error()}, nil
				}
				w.absAll(res)
				m, dup := gCheckEntries(res, want, exp, dupOK, what)
				if m != nil {
					if variant == 2 {
						m.cls = "scan"
					}
					return m, nil
				}
				if dup && dupMis == nil {
					atomic.AddInt64(&w.stats.Dups, 1)
					dupMis = &gMis{"dup-values", what, fmt.Sprint(gSorted(want)), fmt.Sprint(gSorted(gKeysOf(res)))}
				}
				if variant == 2 || bare {
					continue
				}
				if (n+i+variant)%2 == 0 {
					c, err := w.tbl.NewRetrieve().Where(f).Count(ctx, t)
					if err != nil {
						return &gMis{"error", "Count " + what, "", err.Error()}, nil
					}
					if c != len(want) {
						if dupOK && c == len(res) {
							continue
						}
						return &gMis{"query", "Count " + what, fmt.Sprint(len(want)), fmt.Sprint(c)}, nil
					}
				} else {
					ex, err := w.tbl.NewRetrieve().Where(f).Exists(ctx, t)
					if err != nil {
						return &gMis{"error", "Exists " + what, "", err.Error()}, nil
					}
					if ex != (len(want) > 0) {
						return &gMis{"query", "Exists " + what, fmt.Sprint(len(want) > 0), fmt.Sprint(ex)}, nil
					}
				}
			}
		}
		// 4. ordered cursor walks
		if m := w.checkOrdered(s, n, u, t, dirty); m != nil {
			return m, dupMis
		}
	}
	return nil, dupMis
}

// gWalkVals: WalkVals of the specification over the given buckets.
func gWalkVals(bucket map[string][]string, oq gOQ) []string {
	var vals []string
	for _, v := range gVals {
		if gInVals(v) {
			vals = append(vals, v)
		}
	}
	if oq.Dir == "desc" {
		for i, j := 0, len(vals)-1; i < j; i, j = i+1, j-1 {
			vals[i], vals[j] = vals[j], vals[i]
		}
	}
	var out []string
	past := oq.Cur == "none"
	for _, v := range vals {
		if past {
			for range bucket[v] {
				out = append(out, v)
			}
		}
		if v == oq.Cur {
			past = true
		}
	}
	if oq.Lim > 0 && len(out) > oq.Lim {
		out = out[:oq.Lim]
	}
	return out
}

// checkOrdered runs the ordered queries in view u. The oracle: the walk visits the
// committed index in value order (order among equal values unspecified), strictly past
// the cursor, first `lim` positions; each visited key is fetched through the view and
// post-filtered. The expected value sequence of the walk comes from the specification.
func (w *gWorld) checkOrdered(s *gStep, n int, u string, t Tx, dirty bool) *gMis {
	exp := s.Views[u]
	// Committed index state the walk runs over. After a NestedCommit whose writers
	// conflicted the as-written specification predicts a stale index (s.Idx != s.KV); this
	// point is only reached when the real index equals the inverse of the table (the Get
	// comparison came first), i.e. the window did not open: walk over s.KV then.
	idx := s.Idx
	window := fmt.Sprint(s.Idx) != fmt.Sprint(s.KV)
	if window {
		idx = s.KV
	}
	bucket := map[string][]string{}
	for k, v := range idx {
		if v != "none" {
			bucket[v] = append(bucket[v], k)
		}
	}
	treeSel := []int{-1, 4, 1, 9, 12} // none, Pred(kodd), Eq(a,b), Not(Eq a), Or(Not(Eq a), And(..))
	for j, oq := range w.defs.OQs {
		if oq.Cur != "none" && !gInVals(oq.Cur) {
			continue // cursor outside the model's value set
		}
		ti := treeSel[(j+n)%len(treeSel)]
		if ti >= len(w.defs.Trees) {
			ti = -1
		}
		dir := DirectionAsc
		if oq.Dir == "desc" {
			dir = DirectionDesc
		}
		oqry := w.si.Ordered(dir)
		if oq.Cur != "none" {
			oqry = oqry.After(w.conc(oq.Cur))
		}
		q := w.tbl.NewRetrieve()
		var tr *gTree
		if ti >= 0 {
			tr = w.defs.Trees[ti]
			q = q.Where(w.build(tr, w.eqF(j%2 == 0)))
		}
		q = q.OrderBy(oqry)
		if oq.Lim > 0 {
			q = q.Limit(oq.Lim)
		}
		var res []gEntry
		if err := q.Entries(&res).Exec(w.ctx, t); err != nil {
			return &gMis{"error", fmt.Sprintf("ordered %+v", oq), "", err.Error()}
		}
		atomic.AddInt64(&w.stats.Ordered, 1)
		w.absAll(res)
		cls := "ordered"
		if dirty {
			cls = "ordered-tx" // documented: ordered iteration is not read-your-writes
		} else if tr != nil && oq.Lim > 0 {
			cls = "ordered-limit-filter" // limit applied before the post-filter
		}
		what := fmt.Sprintf("ordered %s after=%s limit=%d tree=%d in %s", oq.Dir, oq.Cur, oq.Lim, ti+1, u)
		walk := s.Ord[j]
		if window {
			walk = gWalkVals(bucket, oq)
		}
		// runs of the walk
		type run struct {
			v string
			c int
		}
		var runs []run
		for _, v := range walk {
			if len(runs) > 0 && runs[len(runs)-1].v == v {
				runs[len(runs)-1].c++
			} else {
				runs = append(runs, run{v, 1})
			}
		}
		pos := 0
		seen := map[int32]bool{}
		for _, r := range runs {
			cand := map[string]bool{}
			for _, k := range bucket[r.v] {
				v, ok := exp[k]
				if ok && v != "none" && (tr == nil || gHolds(tr, gKeyID(k), v)) {
					cand[k] = true
				}
			}
			cnt := 0
			for pos < len(res) && idx[gKeyName(res[pos].ID)] == r.v {
				k := gKeyName(res[pos].ID)
				if !cand[k] || seen[res[pos].ID] || exp[k] != res[pos].Val {
					return &gMis{cls, what, fmt.Sprintf("walk %v; candidates of %q: %v", walk, r.v, cand), fmt.Sprintf("%v", res)}
				}
				seen[res[pos].ID] = true
				cnt++
				pos++
			}
			nb := len(bucket[r.v])
			lo, hi := r.c-(nb-len(cand)), r.c
			if r.c >= nb {
				lo, hi = len(cand), len(cand)
			}
			if hi > len(cand) {
				hi = len(cand)
			}
			if lo < 0 {
				lo = 0
			}
			if cnt < lo || cnt > hi {
				return &gMis{cls, what, fmt.Sprintf("walk %v; %d..%d rows of value %q from %v", walk, lo, hi, r.v, cand), fmt.Sprintf("%v", res)}
			}
		}
		if pos != len(res) {
			return &gMis{cls, what, fmt.Sprintf("walk %v", walk), fmt.Sprintf("%v", res)}
		}
	}
	return nil
}

// gReplay steps a fresh table through one history in one observer mode.
func gReplay(hist []gStep, mode string, zero bool, defs *gDefs, st *gStats) (res gResult) {
	res.R = "ok"
	res.Mode = mode
	res.Step = -1
	ctx := context.Background()
	if len(hist) == 0 || hist[0].A != "populate" {
		return gResult{R: "inconclusive", What: "history does not start with populate"}
	}
	w, err := gOpen(ctx, mode, zero, hist[0].KV, defs, st)
	if err != nil {
		return gResult{R: "inconclusive", Mode: mode, What: "open: " + err.Error()}
	}
	defer w.close()
	var firstDup *gResult
	for n := range hist {
		s := &hist[n]
		atomic.AddInt64(&st.Steps, 1)
		c, _ := st.Actions.LoadOrStore(s.A, new(int64))
		atomic.AddInt64(c.(*int64), 1)
		if s.A == "nest" || s.A == "nestset" {
			if fmt.Sprint(s.Idx) != fmt.Sprint(s.KV) {
				atomic.AddInt64(&st.NestConflict, 1)
			}
		}
		out, err := w.apply(s, n)
		if err != nil {
			return gResult{R: "mismatch", Mode: mode, Step: n, Cls: "error", What: s.A, Act: err.Error()}
		}
		if out != s.Out {
			return gResult{R: "mismatch", Mode: mode, Step: n, Cls: "out", What: s.A, Exp: s.Out, Act: out}
		}
		m, dup := w.check(s, n)
		if dup != nil && firstDup == nil {
			firstDup = &gResult{R: "mismatch", Mode: mode, Step: n, Cls: dup.cls, What: dup.what, Exp: dup.exp, Act: dup.act}
		}
		if m != nil {
			return gResult{R: "mismatch", Mode: mode, Step: n, Cls: m.cls, What: m.what, Exp: m.exp, Act: m.act}
		}
	}
	if firstDup != nil {
		return *firstDup
	}
	return res
}

func TestVerifGorpReplay(t *testing.T) {
	in, out := os.Getenv("VERIF_IN"), os.Getenv("VERIF_OUT")
	if in == "" || out == "" {
		t.Skip("VERIF_IN/VERIF_OUT not set")
	}
	var defs gDefs
	db, err := os.ReadFile(os.Getenv("VERIF_DEFS"))
	if err != nil {
		t.Fatal(err)
	}
	if err := json.Unmarshal(db, &defs); err != nil {
		t.Fatal(err)
	}
	modes := strings.Split(os.Getenv("VERIF_MODES"), ",")
	if os.Getenv("VERIF_MODES") == "" {
		modes = []string{"self", "ext"}
	}
	f, err := os.Open(in)
	if err != nil {
		t.Fatal(err)
	}
	defer f.Close()
	type job struct {
		i    int
		line []byte
	}
	jobs := make(chan job, 64)
	results := make(chan gResult, 64)
	var st gStats
	var wg sync.WaitGroup
	workers := runtime.GOMAXPROCS(0)
	if n, _ := strconv.Atoi(os.Getenv("VERIF_WORKERS")); n > 0 {
		workers = n
	}
	for wk := 0; wk < workers; wk++ {
		wg.Add(1)
		go func() {
			defer wg.Done()
			for j := range jobs {
				var hist []gStep
				if err := json.Unmarshal(j.line, &hist); err != nil {
					results <- gResult{I: j.i, R: "inconclusive", What: err.Error()}
					continue
				}
				for mi, mode := range modes {
					// value concretisation: each behaviour runs once with "a" stored as "a" and
					// once as "" (alternating which observer mode gets which)
					zero := (j.i+mi)%2 == 0
					switch os.Getenv("VERIF_ZERO") {
					case "0":
						zero = false
					case "1":
						zero = true
					}
					var r gResult
					func() {
						defer func() {
							if p := recover(); p != nil {
								r = gResult{R: "mismatch", Mode: mode, Step: -1, Cls: "panic", Act: fmt.Sprint(p)}
							}
						}()
						r = gReplay(hist, mode, zero, &defs, &st)
					}()
					r.I = j.i
					r.Zero = zero
					if r.Step >= 0 && r.Step < len(hist) {
						r.A = hist[r.Step].A
					}
					results <- r
				}
			}
		}()
	}
	go func() {
		sc := bufio.NewScanner(f)
		sc.Buffer(make([]byte, 1<<20), 1<<28)
		i := 0
		for sc.Scan() {
			b := append([]byte(nil), sc.Bytes()...)
			if len(b) == 0 {
				continue
			}
			jobs <- job{i: i, line: b}
			i++
		}
		close(jobs)
		wg.Wait()
		close(results)
	}()
	var bad []gResult
	n := 0
	for r := range results {
		n++
		if r.R != "ok" {
			bad = append(bad, r)
		}
	}
	sort.Slice(bad, func(a, b int) bool {
		if bad[a].I != bad[b].I {
			return bad[a].I < bad[b].I
		}
		return bad[a].Mode < bad[b].Mode
	})
	of, err := os.Create(out)
	if err != nil {
		t.Fatal(err)
	}
	defer of.Close()
	acts := map[string]int64{}
	st.Actions.Range(func(k, v any) bool { acts[k.(string)] = *v.(*int64); return true })
	enc := json.NewEncoder(of)
	_ = enc.Encode(map[string]any{
		"summary": true, "replayed": n, "bad": len(bad), "modes": modes,
		"steps": st.Steps, "queries": st.Queries, "ordered": st.Ordered, "tx_views": st.TxViews,
		"tx_views_with_staged_writes": st.DirtyTxViews, "nest_conflicts": st.NestConflict,
		"dup_value_hits": st.Dups, "actions": acts,
	})
	for _, r := range bad {
		_ = enc.Encode(r)
	}
}

// TestVerifGorpConcurrent: the schedule part of C17 that a synchronous script cannot
// pause inside: (1) two goroutines commit transactions that updated the same row;
// (2) a table is opened (bulk populate) while rows are being written below it. After
// quiescence the index must be the inverse of the table in every schedule the Go
// scheduler produces (the specification's NoResidue).
func TestVerifGorpConcurrent(t *testing.T) {
	out := os.Getenv("VERIF_OUT")
	if out == "" {
		t.Skip("VERIF_OUT not set")
	}
	trials, _ := strconv.Atoi(os.Getenv("VERIF_TRIALS"))
	if trials <= 0 {
		trials = 2000
	}
	popTrials, _ := strconv.Atoi(os.Getenv("VERIF_POP_TRIALS"))
	if popTrials <= 0 {
		popTrials = trials / 4
	}
	ctx := context.Background()
	type outc struct {
		Kind   string `json:"kind"`
		Mode   string `json:"mode"`
		Trials int    `json:"trials"`
		Stale  int    `json:"stale"`
		Sample string `json:"sample,omitempty"`
	}
	var outs []outc
	consistent := func(w *gWorld) (bool, string) {
		var rows []gEntry
		if err := w.tbl.NewRetrieve().Entries(&rows).Exec(ctx, w.db); err != nil {
			return false, err.Error()
		}
		want := map[string][]string{}
		for _, e := range rows {
			want[e.Val] = append(want[e.Val], gKeyName(e.ID))
		}
		for _, v := range []string{"a", "b", "c", "x", "y"} {
			for which := 0; which < 2; which++ {
				var ks []int32
				if which == 0 {
					ks, _ = w.li.Get(nil, v)
				} else {
					ks, _ = w.si.Get(nil, v)
				}
				names := make([]string, len(ks))
				for i, k := range ks {
					names[i] = gKeyName(k)
				}
				if !gSetEq(names, want[v]) || len(names) != len(want[v]) {
					return false, fmt.Sprintf("rows=%v but Get(nil,%q)=%v (index %d)", rows, v, gSorted(names), which)
				}
			}
		}
		return true, ""
	}
	for _, mode := range []string{"self", "ext"} {
		o := outc{Kind: "commit-commit", Mode: mode, Trials: trials}
		for it := 0; it < trials; it++ {
			w, err := gOpen(ctx, mode, false, map[string]string{"k1": "a", "k2": "b"}, &gDefs{}, &gStats{})
			if err != nil {
				t.Fatal(err)
			}
			var wg sync.WaitGroup
			start := make(chan struct{})
			for _, v := range []string{"x", "y"} {
				wg.Add(1)
				go func(v string) {
					defer wg.Done()
					tx := w.db.OpenTx()
					e := gEntry{ID: 1, Val: v}
					_ = w.tbl.NewCreate().Entry(&e).Exec(ctx, tx)
					<-start
					_ = tx.Commit(ctx)
					_ = tx.Close()
				}(v)
			}
			close(start)
			wg.Wait()
			if ok, why := consistent(w); !ok {
				o.Stale++
				if o.Sample == "" {
					o.Sample = why
				}
			}
			w.close()
		}
		outs = append(outs, o)
		// populate racing replicated writes
		p := outc{Kind: "populate-remote", Mode: mode, Trials: popTrials}
		for it := 0; it < popTrials; it++ {
			w := &gWorld{ctx: ctx, mode: mode, txs: map[string]Tx{}, defs: &gDefs{}, stats: &gStats{}}
			w.kvdb = memkv.New()
			if mode == "ext" {
				w.db = Wrap(w.kvdb, WithIndexObservable(gRemoteObs{src: w.kvdb, on: &w.remote}))
			} else {
				w.db = Wrap(w.kvdb)
			}
			w.remote.Store(true)
			seed := make([]gEntry, 0, 40)
			for i := 1; i <= 40; i++ {
				seed = append(seed, gEntry{ID: int32(i), Val: gVals[i%3]})
			}
			_ = NewCreate[int32, gEntry]().Entries(&seed).Exec(ctx, w.db)
			stop := make(chan struct{})
			var wg sync.WaitGroup
			var written atomic.Int64
			for g := 0; g < 4; g++ {
				wg.Add(1)
				go func(g int) {
					defer wg.Done()
					// each writer owns the keys congruent to g mod 4: one writer per row, so the
					// commit/notify window between two writers of one row is not in play here
					for i := 0; ; i++ {
						select {
						case <-stop:
							return
						default:
						}
						e := gEntry{ID: int32(1 + g + 4*(i%10)), Val: gVals[(i/7)%3]}
						if i%5 == 4 {
							_ = NewDelete[int32, gEntry]().Where(MatchKeys[int32, gEntry](e.ID)).Exec(ctx, w.db)
						} else {
							_ = NewCreate[int32, gEntry]().Entry(&e).Exec(ctx, w.db)
						}
						written.Add(1)
					}
				}(g)
			}
			for written.Load() < 8 { // the writers are running before the table is opened
				runtime.Gosched()
			}
			w.li = NewLookupIndex[int32, gEntry, string]("val_l", func(e *gEntry) string { return e.Val })
			w.si = NewSortedIndex[int32, gEntry, string]("val_s", func(e *gEntry) string { return e.Val })
			tbl, err := OpenTable[int32, gEntry](ctx, TableConfig[int32, gEntry]{DB: w.db, Indexes: []Index[int32, gEntry]{w.li, w.si}})
			if err != nil {
				t.Fatal(err)
			}
			w.tbl = tbl
			_ = tbl.WaitForIndexes(ctx)
			time.Sleep(200 * time.Microsecond)
			close(stop)
			wg.Wait()
			if ok, why := consistent(w); !ok {
				p.Stale++
				if p.Sample == "" {
					p.Sample = why
				}
			}
			w.close()
		}
		outs = append(outs, p)
	}
	of, err := os.Create(out)
	if err != nil {
		t.Fatal(err)
	}
	defer of.Close()
	enc := json.NewEncoder(of)
	for _, o := range outs {
		_ = enc.Encode(o)
	}
}

// gGateObs forwards every kv change to the index observer like the default observable,
// and is a scheduler gate at the moment OpenTable SUBSCRIBES: right after the handler is
// attached a replicated write (below the table) to a row that already exists is issued from
// another goroutine, and the subscription call returns only once the handler has processed
// it - or after 50 ms, which is what happens when OpenTable already holds the indexes'
// populate locks (the handler then waits for the bulk load, as the code documents).
type gGateObs struct {
	src  kv.DB
	fire func()
	wait *sync.WaitGroup
}

func (o gGateObs) OnChange(h func(context.Context, kv.TxReader)) observe.Disconnect {
	done := make(chan struct{})
	var once sync.Once
	d := o.src.OnChange(func(ctx context.Context, r kv.TxReader) {
		h(ctx, r)
		once.Do(func() { close(done) })
	})
	o.wait.Add(1)
	go func() { defer o.wait.Done(); o.fire() }()
	select {
	case <-done:
	case <-time.After(50 * time.Millisecond):
	}
	return d
}

// TestVerifGorpGated: the bulk populate of OpenTable against a replicated write that
// arrives exactly between the observer subscription and the start of the bulk load. After
// quiescence the index must be the inverse of the table (no row listed twice, none missing).
func TestVerifGorpGated(t *testing.T) {
	out := os.Getenv("VERIF_OUT")
	if out == "" {
		t.Skip("VERIF_OUT not set")
	}
	ctx := context.Background()
	type outc struct {
		Kind   string `json:"kind"`
		Mode   string `json:"mode"`
		Trials int    `json:"trials"`
		Stale  int    `json:"stale"`
		Sample string `json:"sample,omitempty"`
	}
	o := outc{Kind: "populate-gated", Mode: "gate"}
	// the replicated write: same value again, another value, or a delete of an existing row
	for _, variant := range []string{"same", "other", "delete", "same", "other"} {
		o.Trials++
		w := &gWorld{ctx: ctx, mode: "ext", txs: map[string]Tx{}, defs: &gDefs{}, stats: &gStats{}}
		w.kvdb = memkv.New()
		var wg sync.WaitGroup
		w.db = Wrap(w.kvdb, WithIndexObservable(gGateObs{src: w.kvdb, wait: &wg, fire: func() {
			switch variant {
			case "same":
				e := gEntry{ID: 2, Val: "b"}
				_ = NewCreate[int32, gEntry]().Entry(&e).Exec(ctx, w.db)
			case "other":
				e := gEntry{ID: 2, Val: "c"}
				_ = NewCreate[int32, gEntry]().Entry(&e).Exec(ctx, w.db)
			case "delete":
				_ = NewDelete[int32, gEntry]().Where(MatchKeys[int32, gEntry](2)).Exec(ctx, w.db)
			}
		}}))
		seed := []gEntry{{ID: 1, Val: "a"}, {ID: 2, Val: "b"}, {ID: 3, Val: "b"}, {ID: 4, Val: "c"}}
		if err := NewCreate[int32, gEntry]().Entries(&seed).Exec(ctx, w.db); err != nil {
			t.Fatal(err)
		}
		w.li = NewLookupIndex[int32, gEntry, string]("val_l", func(e *gEntry) string { return e.Val })
		w.si = NewSortedIndex[int32, gEntry, string]("val_s", func(e *gEntry) string { return e.Val })
		tbl, err := OpenTable[int32, gEntry](ctx, TableConfig[int32, gEntry]{DB: w.db, Indexes: []Index[int32, gEntry]{w.li, w.si}})
		if err != nil {
			t.Fatal(err)
		}
		w.tbl = tbl
		_ = tbl.WaitForIndexes(ctx)
		wg.Wait()
		time.Sleep(2 * time.Millisecond)
		var rows []gEntry
		why := ""
		if err := w.tbl.NewRetrieve().Entries(&rows).Exec(ctx, w.db); err != nil {
			why = err.Error()
		}
		want := map[string][]string{}
		for _, e := range rows {
			want[e.Val] = append(want[e.Val], gKeyName(e.ID))
		}
		for _, v := range []string{"a", "b", "c"} {
			for which := 0; which < 2 && why == ""; which++ {
				var ks []int32
				if which == 0 {
					ks, _ = w.li.Get(nil, v)
				} else {
					ks, _ = w.si.Get(nil, v)
				}
				names := make([]string, len(ks))
				for i, k := range ks {
					names[i] = gKeyName(k)
				}
				if !gSetEq(names, want[v]) || len(names) != len(want[v]) {
					why = fmt.Sprintf("replicated write (%s) at subscription: rows=%v but Get(nil,%q)=%v (index %d)", variant, rows, v, gSorted(names), which)
				}
			}
		}
		if why != "" {
			o.Stale++
			if o.Sample == "" {
				o.Sample = why
			}
		}
		w.close()
	}
	of, err := os.Create(out)
	if err != nil {
		t.Fatal(err)
	}
	defer of.Close()
	_ = json.NewEncoder(of).Encode(o)
}
