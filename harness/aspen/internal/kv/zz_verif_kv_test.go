//go:build verif

// Conformance harness for AspenKV.tla (C06 replicas converge, C13 observers).
// Injected into /repo/aspen/internal/kv with `go test -overlay`; never part of /repo.
//
// Every node is a real kv.DB opened with the real kv.Open on a memkv engine. Membership is a
// real cluster store (cluster.Cluster{Store: store.New}) filled by the harness, the four
// transports are freighter/mock networks, the gossip interval is 1000 h: nothing moves unless
// the harness calls a node's real transport handler. The feedback client of every node is a
// capturing wrapper (the fault-injecting middleware): feedback messages are queued and
// delivered (or lost / duplicated) by the scheduler through the real feedback handler.
//
// Layer (a) TestVerifKVIngress: TLC-generated ingress behaviours (AspenKVGen.tla) are
// delivered to one real node through operationServer.handle; after every request the
// accepted operations (raw TxRequest observer), the feedback digests, the engine (digest and
// value identity of every key) and the logs of DB.OnChange / NewObservable(
// IgnoreHostLeaseholder).OnChange subscribers are compared with the specification.
// Layer (b) TestVerifKVCluster: 2-3 real nodes, directed scripts and seeded random schedules;
// every step is logged as an event for AspenKVTrace.tla and judged directly (no regress,
// value = digest, quiescent convergence, observer clauses).
package kv

import (
	"bufio"
	"context"
	"encoding/json"
	"fmt"
	"go/types"
	"io"
	"math/rand"
	"os"
	"runtime"
	"sort"
	"strconv"
	"strings"
	"sync"
	"sync/atomic"
	"testing"
	"time"

	"github.com/synnaxlabs/aspen/internal/cluster"
	"github.com/synnaxlabs/aspen/internal/cluster/store"
	"github.com/synnaxlabs/aspen/internal/node"
	"github.com/synnaxlabs/freighter/mock"
	"github.com/synnaxlabs/x/address"
	"github.com/synnaxlabs/x/change"
	xkv "github.com/synnaxlabs/x/kv"
	"github.com/synnaxlabs/x/kv/memkv"
	"github.com/synnaxlabs/x/version"
)

// ------------------------------------------------------------------ abstract values

type vOp struct {
	K   string `json:"k"`
	Ver int64  `json:"ver"`
	Lh  int    `json:"lh"`
	Var string `json:"var"`
}

type vDig struct {
	Ver int64  `json:"ver"`
	Lh  int    `json:"lh"`
	Var string `json:"var"`
}

var vAbsent = vDig{Var: "none"}

func (o vOp) dig() vDig { return vDig{Ver: o.Ver, Lh: o.Lh, Var: o.Var} }
func (o vOp) String() string {
	return fmt.Sprintf("%s:v%d/l%d/%s", o.K, o.Ver, o.Lh, o.Var)
}
func vNewer(a, b vDig) bool { return a.Ver > b.Ver || (a.Ver == b.Ver && a.Lh > b.Lh) }

func vOpsStr(ops []vOp) string {
	s := make([]string, len(ops))
	for i, o := range ops {
		s[i] = o.String()
	}
	return "[" + strings.Join(s, " ") + "]"
}

func vVariant(v change.Variant) string {
	if v == change.VariantDelete {
		return "del"
	}
	return "set"
}

// ------------------------------------------------------------------ world

type vFb struct {
	From int
	To   address.Address
	Msg  FeedbackMessage
}

type vWorld struct {
	ctx      context.Context
	opNet    *mock.Network[TxRequest, TxRequest]
	fbNet    *mock.Network[FeedbackMessage, types.Nil]
	leaseNet *mock.Network[TxRequest, types.Nil]
	recNet   *mock.Network[RecoveryRequest, RecoveryResponse]
	thr      int
	gate     *vRecGate // when set, the next opened node's recovery streams are gated (restart_gated)
	live     bool      // real feedback transport and a 5 ms gossip interval (TestVerifKVLive)
	nodes    map[int]*vNode
	mu       sync.Mutex
	fbs      []vFb
	leases   []TxRequest
	leaseTo  []address.Address
	fbDigs   atomic.Int64
}

type vNote struct {
	Key    string
	Val    string
	Var    string
	Ver    int64 // raw subscriber only
	Lh     int   // raw subscriber only
	TxLh   int   // raw subscriber only
	Sender int   // raw subscriber only
}

type vSub struct {
	name  string
	kind  string // raw | p | f
	mu    sync.Mutex
	log   [][]vNote
	total atomic.Int64
	stop  func()
}

func (s *vSub) batches(from int) [][]vNote {
	s.mu.Lock()
	defer s.mu.Unlock()
	return append([][]vNote{}, s.log[from:]...)
}
func (s *vSub) nBatches() int {
	s.mu.Lock()
	defer s.mu.Unlock()
	return len(s.log)
}

type vNode struct {
	w    *vWorld
	id   int
	eng  xkv.DB
	flt  *vFaultDB
	db   *DB
	st   store.Store
	up   bool
	raw  *vSub
	subs []*vSub
}

// vFaultDB wraps a node's engine: when armed, the NEXT transaction commit fails (nothing is
// written, the transaction is discarded by its Close). Everything else passes through. Used for
// "syncfail" steps: the commit of filterPersist's ingress transaction meets a storage fault.
type vFaultDB struct {
	xkv.DB
	armed     atomic.Bool
	fired     atomic.Int64
	readAt    atomic.Int64 // > 0: in the NEXT transaction the readAt-th digest read fails
	readFired atomic.Int64
}

type vFaultTx struct {
	xkv.Tx
	db     *vFaultDB
	failAt int64
	ndig   int64
}

func (d *vFaultDB) OpenTx() xkv.Tx {
	return &vFaultTx{Tx: d.DB.OpenTx(), db: d, failAt: d.readAt.Swap(0)}
}

// Get: a transient storage fault (not "not found") on one digest read of this transaction.
func (t *vFaultTx) Get(ctx context.Context, key []byte, opts ...any) ([]byte, io.Closer, error) {
	if t.failAt > 0 && strings.HasPrefix(string(key), digestPrefix) {
		t.ndig++
		if t.ndig == t.failAt {
			t.db.readFired.Add(1)
			return nil, nil, fmt.Errorf("verif: injected transient storage fault on read")
		}
	}
	return t.Tx.Get(ctx, key, opts...)
}

func (t *vFaultTx) Commit(ctx context.Context, opts ...any) error {
	if t.db.armed.CompareAndSwap(true, false) {
		t.db.fired.Add(1)
		return fmt.Errorf("verif: injected storage fault on commit")
	}
	return t.Tx.Commit(ctx, opts...)
}

func vAddr(i int) address.Address { return address.Address("vn" + strconv.Itoa(i)) }

func vAddrID(a address.Address) int {
	i, _ := strconv.Atoi(strings.TrimPrefix(string(a), "vn"))
	return i
}

type vFbClient struct {
	*mock.UnaryClient[FeedbackMessage, types.Nil]
	w    *vWorld
	from int
}

func (c *vFbClient) Send(_ context.Context, target address.Address, req FeedbackMessage) (types.Nil, error) {
	c.w.mu.Lock()
	c.w.fbs = append(c.w.fbs, vFb{From: c.from, To: target, Msg: req})
	c.w.fbDigs.Add(int64(len(req.Digests)))
	c.w.mu.Unlock()
	return types.Nil{}, nil
}

type vLeaseClient struct {
	*mock.UnaryClient[TxRequest, types.Nil]
	w *vWorld
}

func (c *vLeaseClient) Send(ctx context.Context, target address.Address, req TxRequest) (types.Nil, error) {
	if n, ok := c.w.nodes[vAddrID(target)]; ok && n.db != nil {
		return c.UnaryClient.Send(ctx, target, req)
	}
	// simulated leaseholder: record the forwarded request, answer "persisted"
	c.w.mu.Lock()
	c.w.leases = append(c.w.leases, req)
	c.w.leaseTo = append(c.w.leaseTo, target)
	c.w.mu.Unlock()
	return types.Nil{}, nil
}

// vRecGate holds a restarting node inside its start-up recovery: every recovery stream of the
// node delivers all responses, then blocks right before reporting the end of the stream until the
// gate is opened. At that point the peer has sent everything (as written up to a990c2d the recovery
// transaction is filled, its supersedes reads are done and it is not committed; with the stream
// drained first, nothing is decided yet) while the node's gossip ingress is already live.
type vRecGate struct {
	RecoveryTransportClient
	open    chan struct{}
	reached chan struct{}
}

type vRecGateStream struct {
	RecoveryTransportClientStream
	g *vRecGate
}

func (g *vRecGate) Stream(ctx context.Context, t address.Address) (RecoveryTransportClientStream, error) {
	s, err := g.RecoveryTransportClient.Stream(ctx, t)
	if err != nil {
		return nil, err
	}
	return &vRecGateStream{s, g}, nil
}

func (s *vRecGateStream) Receive() (RecoveryResponse, error) {
	r, err := s.RecoveryTransportClientStream.Receive()
	if err != nil {
		select {
		case s.g.reached <- struct{}{}:
		default:
		}
		<-s.g.open
	}
	return r, err
}

func (w *vWorld) recClient() RecoveryTransportClient {
	c := RecoveryTransportClient(w.recNet.StreamClient())
	if g := w.gate; g != nil {
		w.gate = nil
		g.RecoveryTransportClient = c
		return g
	}
	return c
}

func vNewWorld(thr int) *vWorld {
	return &vWorld{
		ctx:      context.Background(),
		opNet:    mock.NewNetwork[TxRequest, TxRequest](),
		fbNet:    mock.NewNetwork[FeedbackMessage, types.Nil](),
		leaseNet: mock.NewNetwork[TxRequest, types.Nil](),
		recNet:   mock.NewNetwork[RecoveryRequest, RecoveryResponse](),
		thr:      thr,
		nodes:    map[int]*vNode{},
	}
}

// open (or re-open on the same engine) node id knowing `members`.
func (w *vWorld) open(id int, members []int) error {
	n := w.nodes[id]
	if n == nil {
		flt := &vFaultDB{DB: memkv.New()}
		n = &vNode{w: w, id: id, eng: flt, flt: flt}
		w.nodes[id] = n
	}
	st := store.New(w.ctx)
	for _, m := range members {
		st.SetNode(w.ctx, node.Node{Key: node.Key(m), Address: vAddr(m)})
	}
	st.SetHost(w.ctx, node.Node{Key: node.Key(id), Address: vAddr(id)})
	n.st = st
	a := vAddr(id)
	var fbc FeedbackTransportClient = &vFbClient{UnaryClient: w.fbNet.UnaryClient(), w: w, from: id}
	interval := 1000 * time.Hour
	if w.live {
		fbc, interval = w.fbNet.UnaryClient(), 5*time.Millisecond
	}
	db, err := Open(w.ctx, Config{
		Cluster:                 &cluster.Cluster{Store: st},
		Engine:                  n.eng,
		BatchTransportClient:    w.opNet.UnaryClient(),
		BatchTransportServer:    w.opNet.UnaryServer(a),
		FeedbackTransportClient: fbc,
		FeedbackTransportServer: w.fbNet.UnaryServer(a),
		LeaseTransportClient:    &vLeaseClient{UnaryClient: w.leaseNet.UnaryClient(), w: w},
		LeaseTransportServer:    w.leaseNet.UnaryServer(a),
		RecoveryTransportClient: w.recClient(),
		RecoveryTransportServer: w.recNet.StreamServer(a),
		GossipInterval:          interval,
		RecoveryThreshold:       w.thr,
	})
	if err != nil {
		return err
	}
	n.db, n.up = db, true
	n.subs = nil
	n.raw = &vSub{name: "raw", kind: "raw"}
	raw := n.raw
	raw.stop = db.txObservable.OnChange(func(_ context.Context, tx TxRequest) {
		b := make([]vNote, len(tx.Operations))
		for i, op := range tx.Operations {
			b[i] = vNote{Key: string(op.Key), Val: string(op.Value), Var: vVariant(op.Variant),
				Ver: int64(op.Version), Lh: int(op.Leaseholder), TxLh: int(tx.Leaseholder), Sender: int(tx.Sender)}
		}
		raw.mu.Lock()
		raw.log = append(raw.log, b)
		raw.total.Add(int64(len(b)))
		raw.mu.Unlock()
	})
	return nil
}

func (n *vNode) addMember(m int) {
	n.st.SetNode(n.w.ctx, node.Node{Key: node.Key(m), Address: vAddr(m)})
}

// subscribe through the public API.
func (n *vNode) subscribe(name, kind string) *vSub {
	s := &vSub{name: name, kind: kind}
	h := func(_ context.Context, r xkv.TxReader) {
		var b []vNote
		for c := range r {
			b = append(b, vNote{Key: string(c.Key), Val: string(c.Value), Var: vVariant(c.Variant)})
		}
		s.mu.Lock()
		s.log = append(s.log, b)
		s.total.Add(int64(len(b)))
		s.mu.Unlock()
	}
	if kind == "f" {
		s.stop = n.db.NewObservable(IgnoreHostLeaseholder).OnChange(h)
	} else {
		s.stop = n.db.OnChange(h)
	}
	n.subs = append(n.subs, s)
	return s
}

func (n *vNode) close() error {
	if n.db == nil {
		return nil
	}
	err := n.db.Close()
	n.db, n.up, n.subs, n.raw = nil, false, nil, nil
	return err
}

func (w *vWorld) closeAll() {
	for _, n := range w.nodes {
		_ = n.close()
	}
	for _, n := range w.nodes {
		_ = n.eng.Close()
	}
}

func vWait(cond func() bool, d time.Duration) bool {
	if cond() {
		return true
	}
	deadline := time.Now().Add(d)
	for i := 0; ; i++ {
		if i < 200 {
			runtime.Gosched()
		} else {
			time.Sleep(20 * time.Microsecond)
		}
		if cond() {
			return true
		}
		if i%64 == 0 && time.Now().After(deadline) {
			return cond()
		}
	}
}

// real projection of one key of one engine: digest and the identity the value bytes carry.
func vProject(e xkv.DB, key string) (vDig, string, bool) {
	ctx := context.Background()
	d, err := getDigestFromKV(ctx, e, []byte(key))
	dg := vAbsent
	if err == nil {
		dg = vDig{Ver: int64(d.Version), Lh: int(d.Leaseholder), Var: vVariant(d.Variant)}
	}
	v, c, err := e.Get(ctx, []byte(key))
	if err != nil {
		return dg, "", false
	}
	val := string(v)
	_ = c.Close()
	return dg, val, true
}

// the operation handed to a node's ingress / a value token that identifies it.
func vToken(key string, ver int64, lh int) string { return fmt.Sprintf("%s#%d#%d", key, ver, lh) }

func vRealOp(key string, o vOp, realVer int64) Operation {
	op := Operation{Version: version.Counter(realVer), Leaseholder: node.Key(o.Lh)}
	op.Key = []byte(key)
	op.Variant = change.VariantSet
	if o.Var == "del" {
		op.Variant = change.VariantDelete
	} else {
		op.Value = []byte(vToken(key, realVer, o.Lh))
	}
	return op
}

// ------------------------------------------------------------------ layer (a): ingress replay

type vStep struct {
	A    string          `json:"a"`
	Host int             `json:"host"`
	C0   int64           `json:"c0"`
	Late bool            `json:"late"`
	From int             `json:"from"`
	Ops  []vOp           `json:"ops"`
	Acc  []vOp           `json:"acc"`
	Rej  []vOp           `json:"rej"`
	Eng  map[string]vDig `json:"eng"`
	P    []vOp           `json:"p"`
	F    []vOp           `json:"f"`
	K    string          `json:"k"`
	Var  string          `json:"var"`
	Res  string          `json:"res"`
	Ver  int64           `json:"ver"`
	To   int             `json:"to"`
	// syncread: 1-based position of the operation whose digest read fails
	FailAt int64 `json:"failat"`
	// init: attach a subscriber whose handler blocks until the end of the history
	Stall bool `json:"stall"`
}

type vBad struct {
	I    int    `json:"i"`
	R    string `json:"r"`
	Step int    `json:"step"`
	Kind string `json:"kind"`
	Exp  string `json:"exp"`
	Act  string `json:"act"`
	Note string `json:"note,omitempty"`
}

type vIngress struct {
	w      *vWorld
	host   *vNode
	p0, f0 *vSub
	nhist  int
	keys   []string
	stats  map[string]int
	hard   map[string]bool // mismatch kinds that end a history (the running property's clauses)
	soft   []*vBad         // other kinds: recorded (capped), the replay goes on
	nsoft  map[string]int
}

const vHostID = 2

// vFence is set once the counting barrier failed (operations swallowed, or more outputs than
// operations: only on a broken tree). From then on every request is followed by a fence: a
// fresh operation (accepted) and the same again (rejected); filterPersist, every subscriber
// queue and the feedback sender are FIFO, so when the fence came out everywhere, the
// request before it has been processed completely. Fence outputs (keys containing "/~") are
// filtered from every log.
var vFence atomic.Bool

func vIsFence(key string) bool { return strings.Contains(key, "/~") }

func vNoFence(bs [][]vNote) [][]vNote {
	var r [][]vNote
	for _, b := range bs {
		if len(b) > 0 && vIsFence(b[0].Key) {
			continue
		}
		r = append(r, b)
	}
	return r
}

func vNewIngress(keys []string) (*vIngress, error) {
	w := vNewWorld(1)
	if err := w.open(vHostID, []int{vHostID}); err != nil {
		return nil, err
	}
	h := w.nodes[vHostID]
	h.addMember(1)
	h.addMember(3)
	g := &vIngress{w: w, host: h, keys: keys, stats: map[string]int{}, nsoft: map[string]int{}}
	g.p0 = h.subscribe("p0", "p")
	g.f0 = h.subscribe("f0", "f")
	// move the version counter off zero so that histories may start at c0 <= 2
	for i := 0; i < 3; i++ {
		if err := h.db.Set(w.ctx, []byte("warm"), []byte("x")); err != nil {
			return nil, err
		}
	}
	if !vWait(func() bool { return h.raw.total.Load() >= 3 && g.p0.total.Load() >= 3 }, 5*time.Second) {
		return nil, fmt.Errorf("warm-up writes were not observed")
	}
	return g, nil
}

func (g *vIngress) counter() (int64, error) {
	b, c, err := g.host.eng.Get(g.w.ctx, []byte(versionCounterKey))
	if err != nil {
		return 0, err
	}
	defer c.Close()
	var v int64
	for i := 7; i >= 0; i-- {
		v = v<<8 | int64(b[i])
	}
	return v, nil
}

type vSubMark struct {
	s *vSub
	n int
}

func vNotesOf(bs [][]vNote) string {
	var sb strings.Builder
	for _, b := range bs {
		sb.WriteString("<")
		for _, n := range b {
			if n.Var == "del" {
				sb.WriteString(n.Key + "=DEL ")
			} else {
				sb.WriteString(n.Key + "=" + n.Val + " ")
			}
		}
		sb.WriteString(">")
	}
	return sb.String()
}

// replay one history; returns nil or the first disagreement.
func (g *vIngress) replay(hi int, h []vStep, finals *sync.Map) *vBad {
	w, host := g.w, g.host
	g.nhist++
	pre := fmt.Sprintf("h%d/", g.nhist)
	if len(h) == 0 || h[0].A != "init" {
		return &vBad{I: hi, R: "inconclusive", Note: "history without init"}
	}
	R, err := g.counter()
	if err != nil {
		return &vBad{I: hi, R: "inconclusive", Note: "counter: " + err.Error()}
	}
	base := R - h[0].C0
	if base < 0 {
		return &vBad{I: hi, R: "inconclusive", Note: "counter below c0"}
	}
	rv := func(a int64) int64 { return base + a }
	subs := []*vSub{g.p0, g.f0}
	var late []*vSub
	// a subscriber that does NOT keep up: its handler blocks until the end of the history, its
	// queue (x/go/observe async: 64) overflows and it loses notifications; the others must not
	var stalled *vSub
	gate := make(chan struct{})
	released := false
	release := func() {
		if stalled != nil && !released {
			released = true
			close(gate)
			stalled.stop() // drains what is still queued, then disconnects
		}
	}
	defer release()
	if h[0].Stall {
		stalled = &vSub{name: "stalled", kind: "p"}
		st := stalled
		st.stop = host.db.OnChange(func(_ context.Context, r xkv.TxReader) {
			var b []vNote
			for c := range r {
				b = append(b, vNote{Key: string(c.Key), Val: string(c.Value), Var: vVariant(c.Variant)})
			}
			st.mu.Lock()
			st.log = append(st.log, b)
			st.total.Add(int64(len(b)))
			st.mu.Unlock()
			<-gate
		})
		g.stats["stall_histories"]++
	}
	var accBatches []string // what a subscriber that keeps up is shown, request by request
	defer func() {
		for _, s := range late {
			s.stop()
		}
		if len(late) > 0 {
			host.subs = host.subs[:2]
		}
	}()
	tokenOf := func(o vOp) string {
		if o.Var == "del" {
			return ""
		}
		return vToken(pre+o.K, rv(o.Ver), o.Lh)
	}
	localTok := map[string]string{} // abstract identity -> token for local writes
	want := func(ops []vOp) string {
		if len(ops) == 0 {
			return ""
		}
		var sb strings.Builder
		sb.WriteString("<")
		for _, o := range ops {
			if o.Var == "del" {
				sb.WriteString(pre + o.K + "=DEL ")
			} else {
				t := tokenOf(o)
				if lt, ok := localTok[o.String()]; ok {
					t = lt
				}
				sb.WriteString(pre + o.K + "=" + t + " ")
			}
		}
		sb.WriteString(">")
		return sb.String()
	}
	delivered := map[string]bool{}
	seenOnce := map[string]bool{}
	bestStored := map[string]vDig{}
	prevEng := map[string]vDig{}
	for _, k := range g.keys {
		prevEng[pre+k] = vAbsent
	}
	bad := func(step int, kind, exp, act string) *vBad {
		b := &vBad{I: hi, R: "mismatch", Step: step, Kind: kind, Exp: exp, Act: act}
		if g.hard != nil && !g.hard[kind] {
			g.nsoft[kind]++
			if g.nsoft[kind] <= 3 {
				b.R = "soft"
				g.soft = append(g.soft, b)
			}
			return nil
		}
		return b
	}
	checkEngine := func(step int, eng map[string]vDig) *vBad {
		for _, k := range g.keys {
			d, val, has := vProject(host.eng, pre+k)
			e := eng[k]
			real := d
			if real.Var != "none" {
				real.Ver -= base
			}
			if real != e {
				if b := bad(step, "engine", fmt.Sprintf("%s=%+v", k, e), fmt.Sprintf("%s=%+v", k, real)); b != nil {
					return b
				}
			}
			switch d.Var {
			case "set":
				if !has || !(val == vToken(pre+k, d.Ver, d.Lh) || strings.HasPrefix(val, pre+k+"#L")) {
					if b := bad(step, "value", fmt.Sprintf("%s holds the value of its digest %+v", k, real), fmt.Sprintf("value=%q present=%v", val, has)); b != nil {
						return b
					}
				}
				if strings.HasPrefix(val, pre+k+"#L") && d.Lh != host.id {
					if b := bad(step, "value", "remote digest with remote value", "local value under remote digest "+val); b != nil {
						return b
					}
				}
			default:
				if has {
					if b := bad(step, "value", k+" has no value (deleted/absent)", "value="+val); b != nil {
						return b
					}
				}
			}
		}
		return nil
	}
	nlocal := 0
	for si := 1; si < len(h); si++ {
		st := h[si]
		raw0, fb0 := host.raw.nBatches(), 0
		w.mu.Lock()
		fb0 = len(w.fbs)
		lease0 := len(w.leases)
		w.mu.Unlock()
		marks := make([]vSubMark, 0, 4)
		for _, s := range append(append([]*vSub{}, subs...), late...) {
			marks = append(marks, vSubMark{s, s.nBatches()})
		}
		var expRaw string
		var pinned *vBad // disagreement on something the properties do not state: reported last
		txlh := 0
		switch st.A {
		case "sub":
			late = append(late, host.subscribe("p1", "p"), host.subscribe("f1", "f"))
			g.stats["subs"]++
			continue
		case "sync", "syncfail", "syncread":
			// syncfail: the commit of this request's ingress transaction fails (storage fault)
			fail := st.A == "syncfail"
			req := TxRequest{Sender: node.Key(st.From)}
			for j, o := range st.Ops {
				req.Operations = append(req.Operations, vRealOp(pre+o.K, o, rv(o.Ver)))
				if !fail && !(st.A == "syncread" && int64(j) == st.FailAt-1) {
					delivered[o.String()] = true
				}
			}
			fired0 := host.flt.fired.Load()
			rfired0 := host.flt.readFired.Load()
			if fail {
				host.flt.armed.Store(true)
			}
			if st.A == "syncread" {
				// the digest read of the operation at position failat meets a transient fault
				host.flt.readAt.Store(st.FailAt)
			}
			if _, err := w.opNet.UnaryClient().Send(w.ctx, vAddr(host.id), req); err != nil {
				return &vBad{I: hi, R: "inconclusive", Step: si, Note: "send: " + err.Error()}
			}
			n := int64(len(st.Ops))
			counts := func() (int64, int64) { return g.counts(raw0, fb0) }
			if fail {
				// nothing may come out for the accepted part, so there is nothing to count: the
				// fence (FIFO behind the request) is the barrier
				n = int64(len(st.Rej))
				if nb := g.fence(hi, si, pre, marks); nb != nil {
					return nb
				}
				if host.flt.armed.Swap(false) || host.flt.fired.Load() != fired0+1 {
					return &vBad{I: hi, R: "inconclusive", Step: si, Note: "the injected commit fault was not consumed by the request"}
				}
				g.stats["syncfails"]++
			} else if vFence.Load() {
				if nb := g.fence(hi, si, pre, marks); nb != nil {
					return nb
				}
			} else if !vWait(func() bool { a, b := counts(); return a+b >= n }, time.Second) {
				g.stats["timeouts"]++
				vFence.Store(true)
			}
			// (a failed request is judged below: nothing shown that is not stored, feedback = drift)
			if nraw, nfb := counts(); !fail && nraw+nfb != n {
				vFence.Store(true) // counting is no barrier on this tree
				if b := checkEngine(si, st.Eng); b != nil {
					return b
				}
				if b := bad(si, "incomplete", fmt.Sprintf("%d operations notified or fed back", n),
					fmt.Sprintf("%d notified, %d fed back", nraw, nfb)); b != nil {
					return b
				}
			}
			if st.A == "syncread" {
				if host.flt.readAt.Swap(0) != 0 || host.flt.readFired.Load() != rfired0+1 {
					return &vBad{I: hi, R: "inconclusive", Step: si, Note: "the injected read fault was not consumed by the request"}
				}
				g.stats["syncreads"]++
			}
			if !fail {
				g.stats["syncs"]++
			}
			g.stats["accepted"] += len(st.Acc)
			g.stats["rejected"] += len(st.Rej)
			expRaw = want(st.Acc)
			// feedback: exactly the rejected digests, in order, to the sender
			w.mu.Lock()
			fbs := append([]vFb{}, w.fbs[fb0:]...)
			w.mu.Unlock()
			var got []string
			nmsg := 0
			for _, f := range fbs {
				if len(f.Msg.Digests) > 0 && vIsFence(string(f.Msg.Digests[0].Key)) {
					continue
				}
				nmsg++
				for _, d := range f.Msg.Digests {
					got = append(got, fmt.Sprintf("%s:v%d/l%d/%s->%d", strings.TrimPrefix(string(d.Key), pre), int64(d.Version)-base, d.Leaseholder, vVariant(d.Variant), vAddrID(f.To)))
				}
			}
			var exp []string
			for _, o := range st.Rej {
				exp = append(exp, fmt.Sprintf("%s->%d", o.String(), st.From))
			}
			if strings.Join(got, " ") != strings.Join(exp, " ") || nmsg > 1 {
				pinned = bad(si, "feedback", strings.Join(exp, " "), fmt.Sprintf("%s (%d msgs)", strings.Join(got, " "), nmsg))
			}
		case "local":
			nlocal++
			tok := fmt.Sprintf("%s%s#L%d", pre, st.K, nlocal)
			var err error
			if st.Var == "del" {
				err = host.db.Delete(w.ctx, []byte(pre+st.K))
			} else {
				err = host.db.Set(w.ctx, []byte(pre+st.K), []byte(tok))
			}
			if err != nil {
				if b := bad(si, "local-result", st.Res, "error: "+err.Error()); b != nil {
					return b
				}
			}
			g.stats["locals"]++
			if st.Res == "forward" {
				g.stats["forwards"]++
				w.mu.Lock()
				ls := append([]TxRequest{}, w.leases[lease0:]...)
				lt := append([]address.Address{}, w.leaseTo[lease0:]...)
				w.mu.Unlock()
				if len(ls) != 1 || vAddrID(lt[0]) != st.To || len(ls[0].Operations) != 1 || int(ls[0].Operations[0].Leaseholder) != st.To {
					pinned = bad(si, "forward", fmt.Sprintf("one lease request to %d", st.To), fmt.Sprintf("%d requests %v", len(ls), lt))
				}
			} else {
				o := vOp{K: st.K, Ver: st.Ver, Lh: host.id, Var: st.Var}
				localTok[o.String()] = tok
				delivered[o.String()] = true
				if !vWait(func() bool { a, _ := g.counts(raw0, fb0); return a >= 1 }, time.Second) {
					vFence.Store(true)
					if b := checkEngine(si, st.Eng); b != nil {
						return b
					}
					if b := bad(si, "incomplete", "local write notified", "nothing"); b != nil {
						return b
					}
				}
				expRaw = want([]vOp{o})
				txlh = host.id
			}
		default:
			return &vBad{I: hi, R: "inconclusive", Step: si, Note: "unknown step " + st.A}
		}
		// engine: digest + value of every key
		if b := checkEngine(si, st.Eng); b != nil {
			return b
		}
		// property level, independent of the specification's expected logs (C13): every
		// (key, version) at most once per subscriber over the whole history - including a request
		// whose commit failed and its redelivery - and every operation shown to a subscriber is the
		// one the node stores for that key afterwards (never a stale one, never one that was not stored)
		rb := vNoFence(host.raw.batches(raw0))
		lastShown := map[string]vNote{}
		for _, b := range rb {
			for _, n := range b {
				id := fmt.Sprintf("raw|%s|%d|%d", n.Key, n.Ver, n.Lh)
				if seenOnce[id] {
					if b := bad(si, "dup", "each (key, version) at most once per subscriber", fmt.Sprintf("raw: %s v%d/l%d shown again", strings.TrimPrefix(n.Key, pre), n.Ver-base, n.Lh)); b != nil {
						return b
					}
				}
				seenOnce[id] = true
				lastShown[n.Key] = n
			}
		}
		for _, b := range rb {
			for _, n := range b {
				d := vDig{Ver: n.Ver, Lh: n.Lh, Var: n.Var}
				if best, ok := bestStored[n.Key]; ok && vNewer(best, d) {
					if b := bad(si, "stale", "no operation is shown that lost to a newer one already stored",
						fmt.Sprintf("%s v%d/l%d/%s shown, %+v was stored before", strings.TrimPrefix(n.Key, pre), n.Ver-base, n.Lh, n.Var, best)); b != nil {
						return b
					}
				}
			}
		}
		changed := map[string]vDig{}
		for _, k := range g.keys {
			d, _, _ := vProject(host.eng, pre+k)
			if d != prevEng[pre+k] && d.Var != "none" {
				changed[pre+k] = d
			}
			prevEng[pre+k] = d
			if d.Var != "none" {
				if best, ok := bestStored[pre+k]; !ok || vNewer(d, best) {
					bestStored[pre+k] = d
				}
			}
		}
		if len(st.P) > 0 {
			accBatches = append(accBatches, want(st.P))
		}
		for key, n := range lastShown {
			if d, _, _ := vProject(host.eng, key); d.Ver != n.Ver || d.Lh != n.Lh || d.Var != n.Var {
				kind := "unstored"
				if d.Var != "none" && vNewer(d, vDig{Ver: n.Ver, Lh: n.Lh, Var: n.Var}) {
					kind = "stale"
				}
				if b := bad(si, kind, "an operation shown to subscribers is the one stored afterwards",
					fmt.Sprintf("%s v%d/l%d/%s shown, node stores %+v", strings.TrimPrefix(key, pre), n.Ver-base, n.Lh, n.Var, d)); b != nil {
					return b
				}
			}
		}
		// raw observer: what the persist stage handed to observers
		if act := vNotesOf(rb); act != expRaw {
			if b := bad(si, "notify-raw", expRaw, act); b != nil {
				return b
			}
		}
		for _, b := range rb {
			for _, n := range b {
				if n.TxLh != txlh {
					if b := bad(si, "txlh", fmt.Sprintf("TxRequest.Leaseholder=%d", txlh), fmt.Sprintf("%d", n.TxLh)); b != nil {
						return b
					}
				}
				if st.A == "local" && (n.Ver-base != st.Ver || n.Lh != host.id) {
					if b := bad(si, "engine", fmt.Sprintf("local version %d lh %d", st.Ver, host.id), fmt.Sprintf("%d lh %d", n.Ver-base, n.Lh)); b != nil {
						return b
					}
				}
			}
		}
		// public subscribers
		for _, m := range marks {
			exp := want(st.P)
			if m.s.kind == "f" {
				exp = want(st.F)
			}
			nexp := int64(0)
			if exp != "" {
				nexp = 1
			}
			if !vFence.Load() {
				vWait(func() bool { return int64(m.s.nBatches()-m.n) >= nexp }, 2*time.Second)
			}
			got := vNoFence(m.s.batches(m.n))
			// property level (C13): a subscriber that keeps up is shown every operation that changed
			// the stored state (the filtered one: unless the host leads it)
			for key, d := range changed {
				if m.s.kind == "f" && d.Lh == host.id {
					continue
				}
				_, val, _ := vProject(host.eng, key)
				found := false
				for _, b := range got {
					for _, n := range b {
						if n.Key == key && n.Var == d.Var && (d.Var == "del" || n.Val == val) {
							found = true
						}
					}
				}
				if !found {
					if b := bad(si, "missed", "a subscriber that keeps up is shown every operation that changed the stored state",
						fmt.Sprintf("%s: not shown %s %+v", m.s.name, strings.TrimPrefix(key, pre), d)); b != nil {
						return b
					}
				}
			}
			for _, b := range got {
				for _, n := range b {
					if n.Var != "set" {
						continue // a delete carries no value: identified through the raw observer above
					}
					id := m.s.name + "|" + n.Key + "|" + n.Val
					if seenOnce[id] {
						if b := bad(si, "dup", "each (key, version) at most once per subscriber", m.s.name+": "+n.Val+" shown again"); b != nil {
							return b
						}
					}
					seenOnce[id] = true
				}
			}
			if act := vNotesOf(got); act != exp {
				if b := bad(si, "notify-"+m.s.kind, exp, m.s.name+": "+act); b != nil {
					return b
				}
			}
			if exp != "" {
				g.stats["notes_"+m.s.kind]++
			}
		}
		if pinned != nil {
			return pinned
		}
	}
	if stalled != nil {
		// the stalled subscriber: a subsequence of what the others were shown, nothing twice
		release()
		got := stalled.batches(0)
		j := 0
		for _, b := range got {
			if len(b) > 0 && vIsFence(b[0].Key) {
				continue
			}
			one := vNotesOf([][]vNote{b})
			for j < len(accBatches) && accBatches[j] != one {
				j++
			}
			if j == len(accBatches) {
				if b := bad(len(h), "notify-p", "a subsequence of the accepted requests", "stalled: "+one+" out of order, repeated or never accepted"); b != nil {
					return b
				}
				break
			}
			j++
		}
		g.stats["stall_accepted"] += len(accBatches)
		if n := len(accBatches) - len(got); n > 0 {
			g.stats["stall_lost"] += n
		}
	}
	// barrier: a fence travels behind everything still in the pipeline (accepted -> every
	// subscriber's queue, rejected -> the feedback sender); nothing else may show up.
	marks := []vSubMark{{host.raw, host.raw.nBatches()}}
	for _, s := range append(append([]*vSub{}, subs...), late...) {
		marks = append(marks, vSubMark{s, s.nBatches()})
	}
	w.mu.Lock()
	fb0 := len(w.fbs)
	w.mu.Unlock()
	if nb := g.fence(hi, len(h), pre, marks[1:]); nb != nil {
		g.stats["timeouts"]++
		if b := bad(len(h), "incomplete", "fence observed by every subscriber and fed back", "timeout"); b != nil {
			return b
		}
	}
	for _, m := range marks {
		if act := vNotesOf(vNoFence(m.s.batches(m.n))); act != "" {
			if b := bad(len(h), "notify-"+m.s.kind, "nothing after the last step", m.s.name+": "+act); b != nil {
				return b
			}
		}
	}
	w.mu.Lock()
	nf := 0
	for _, f := range w.fbs[fb0:] {
		if len(f.Msg.Digests) > 0 && !vIsFence(string(f.Msg.Digests[0].Key)) {
			nf++
		}
	}
	w.mu.Unlock()
	if nf != 0 {
		if b := bad(len(h), "feedback", "no stray feedback", fmt.Sprintf("%d messages", nf)); b != nil {
			return b
		}
	}
	// all delivery orders of one operation set must end in the same engine
	set := make([]string, 0, len(delivered))
	for k := range delivered {
		set = append(set, k)
	}
	sort.Strings(set)
	var fin []string
	for _, k := range g.keys {
		d, val, _ := vProject(host.eng, pre+k)
		if d.Var != "none" {
			d.Ver -= base
		}
		if strings.Contains(val, "#L") {
			val = "L"
		} else if val != "" {
			val = "G"
		}
		fin = append(fin, fmt.Sprintf("%s=%+v/%s", k, d, val))
	}
	key := fmt.Sprintf("c0=%d %s", h[0].C0, strings.Join(set, ","))
	if prev, loaded := finals.LoadOrStore(key, strings.Join(fin, " ")); loaded && prev.(string) != strings.Join(fin, " ") {
		if b := bad(len(h), "order", prev.(string), strings.Join(fin, " ")); b != nil {
			return b
		}
	}
	g.stats["histories"]++
	return nil
}

// operations notified to the raw observer / digests fed back since the marks, fences excluded.
func (g *vIngress) counts(raw0, fb0 int) (nraw, nfb int64) {
	for _, b := range vNoFence(g.host.raw.batches(raw0)) {
		nraw += int64(len(b))
	}
	g.w.mu.Lock()
	for _, f := range g.w.fbs[fb0:] {
		for _, d := range f.Msg.Digests {
			if !vIsFence(string(d.Key)) {
				nfb++
			}
		}
	}
	g.w.mu.Unlock()
	return
}

// fence: see vFence. Returns an inconclusive result when even the fence does not come out.
func (g *vIngress) fence(hi, si int, pre string, marks []vSubMark) *vBad {
	w, host := g.w, g.host
	g.stats["fences"]++
	key := fmt.Sprintf("%s~%d", pre, si)
	for _, ver := range []int64{2, 1, 2} { // accepted, then two that cannot both be accepted
		op := vRealOp(key, vOp{K: "~", Ver: ver, Lh: 1, Var: "set"}, ver)
		if _, err := w.opNet.UnaryClient().Send(w.ctx, vAddr(host.id), TxRequest{Sender: 1, Operations: []Operation{op}}); err != nil {
			return &vBad{I: hi, R: "inconclusive", Step: si, Note: "fence: " + err.Error()}
		}
	}
	sawIn := func(s *vSub, from int) bool {
		for _, b := range s.batches(from) {
			for _, n := range b {
				if n.Key == key {
					return true
				}
			}
		}
		return false
	}
	fedN := func() int {
		n := 0
		w.mu.Lock()
		for i := len(w.fbs) - 1; i >= 0 && i >= len(w.fbs)-8; i-- {
			for _, d := range w.fbs[i].Msg.Digests {
				if string(d.Key) == key {
					n++
				}
			}
		}
		w.mu.Unlock()
		return n
	}
	// a healthy tree rejects two of the three; wait for both so that none strays into the next step
	if !vWait(func() bool { return fedN() >= 2 }, 100*time.Millisecond) {
		g.stats["fence_short"]++
	}
	ok := vWait(func() bool {
		if fedN() < 1 || !sawIn(host.raw, 0) {
			return false
		}
		for _, m := range marks {
			if !sawIn(m.s, m.n) {
				return false
			}
		}
		return true
	}, 2*time.Second)
	if !ok {
		return &vBad{I: hi, R: "inconclusive", Step: si, Note: "fence request did not come out of the pipeline"}
	}
	return nil
}

func vReadLines(path string, f func(i int, line []byte)) error {
	fh, err := os.Open(path)
	if err != nil {
		return err
	}
	defer fh.Close()
	sc := bufio.NewScanner(fh)
	sc.Buffer(make([]byte, 1<<20), 1<<26)
	i := 0
	for sc.Scan() {
		b := append([]byte{}, sc.Bytes()...)
		if len(b) > 0 {
			f(i, b)
			i++
		}
	}
	return sc.Err()
}

func TestVerifKVIngress(t *testing.T) {
	in, out := os.Getenv("VERIF_IN"), os.Getenv("VERIF_OUT")
	if in == "" || out == "" {
		t.Skip("VERIF_IN / VERIF_OUT not set")
	}
	keys := strings.Split(os.Getenv("VERIF_KEYS"), ",")
	if os.Getenv("VERIF_KEYS") == "" {
		keys = []string{"k1", "k2"}
	}
	maxBad, _ := strconv.Atoi(os.Getenv("VERIF_MAXBAD"))
	if maxBad == 0 {
		maxBad = 40
	}
	workers := runtime.GOMAXPROCS(0)
	if v, _ := strconv.Atoi(os.Getenv("VERIF_WORKERS")); v > 0 {
		workers = v
	}
	if workers > 8 {
		workers = 8
	}
	type job struct {
		i    int
		line []byte
	}
	jobs := make(chan job, 256)
	var mu sync.Mutex
	var bads, softs []*vBad
	var hard map[string]bool
	if v := os.Getenv("VERIF_KINDS"); v != "" {
		hard = map[string]bool{}
		for _, k := range strings.Split(v, ",") {
			hard[k] = true
		}
	}
	stats := map[string]int{}
	var nbad atomic.Int64
	var finals sync.Map
	var wg sync.WaitGroup
	for wk := 0; wk < workers; wk++ {
		wg.Add(1)
		go func() {
			defer wg.Done()
			var g *vIngress
			flush := func() {
				if g == nil {
					return
				}
				mu.Lock()
				for k, v := range g.stats {
					stats[k] += v
				}
				mu.Unlock()
				g.w.closeAll()
				g = nil
			}
			defer flush()
			for j := range jobs {
				if nbad.Load() >= int64(maxBad) {
					continue
				}
				if g != nil && g.nhist >= 250 {
					flush() // bound the gossip store the reply iterates over
				}
				if g == nil {
					var err error
					if g, err = vNewIngress(keys); err != nil {
						mu.Lock()
						bads = append(bads, &vBad{I: j.i, R: "inconclusive", Note: "open: " + err.Error()})
						mu.Unlock()
						nbad.Add(1)
						continue
					}
				}
				var h []vStep
				if err := json.Unmarshal(j.line, &h); err != nil {
					mu.Lock()
					bads = append(bads, &vBad{I: j.i, R: "inconclusive", Note: "json: " + err.Error()})
					mu.Unlock()
					nbad.Add(1)
					continue
				}
				g.hard = hard
				b := g.replay(j.i, h, &finals)
				if len(g.soft) > 0 {
					mu.Lock()
					if len(softs) < 30 {
						softs = append(softs, g.soft...)
					}
					mu.Unlock()
					g.soft = nil
				}
				if g.stats["timeouts"] > 8 {
					nbad.Add(int64(maxBad)) // a pipeline that swallows operations: stop, do not wait 1 s per history
				}
				if b != nil {
					mu.Lock()
					bads = append(bads, b)
					mu.Unlock()
					nbad.Add(1)
					// a node that misbehaved is not reused
					flush()
				}
			}
		}()
	}
	n := 0
	err := vReadLines(in, func(i int, line []byte) {
		jobs <- job{i, line}
		n++
	})
	close(jobs)
	wg.Wait()
	if err != nil {
		t.Fatal(err)
	}
	sort.Slice(bads, func(a, b int) bool { return bads[a].I < bads[b].I })
	of, err := os.Create(out)
	if err != nil {
		t.Fatal(err)
	}
	defer of.Close()
	enc := json.NewEncoder(of)
	_ = enc.Encode(map[string]any{"summary": true, "read": n, "replayed": stats["histories"], "bad": len(bads), "stats": stats})
	for _, b := range bads {
		_ = enc.Encode(b)
	}
	for _, b := range softs {
		_ = enc.Encode(b)
	}
}

// ------------------------------------------------------------------ layer (b): cluster

type vMsg struct {
	T    string // sync | ack | fb
	From int
	To   int
	Ops  []Operation
}

type vNoteEv struct {
	N   int    `json:"n"`
	S   string `json:"s"`
	Ops []vOp  `json:"ops"`
}

type vEv struct {
	Ev    string            `json:"ev"`
	N     int               `json:"n"`
	From  int               `json:"from"`
	To    int               `json:"to"`
	K     string            `json:"k"`
	Var   string            `json:"var"`
	S     string            `json:"s"`
	T     string            `json:"t"`
	At    int               `json:"at"`
	Ver   int64             `json:"ver"`
	Ops   []vOp             `json:"ops"`
	Acc   []vOp             `json:"acc"`
	Rej   []vOp             `json:"rej"`
	Ack   []vOp             `json:"ack"`
	Eng   []map[string]vDig `json:"eng"`
	Notes []vNoteEv         `json:"notes"`
}

type vViol struct {
	Kind  string `json:"kind"`
	Step  int    `json:"step"`
	Ev    string `json:"ev"`
	Node  int    `json:"node"`
	Key   string `json:"key"`
	What  string `json:"what"`
	Taint string `json:"taint"`
}

type vScript struct {
	ID    string           `json:"id"`
	Nodes int              `json:"nodes"`
	Keys  []string         `json:"keys"`
	Steps []map[string]any `json:"steps"`
}

type vCluster struct {
	w       *vWorld
	n       int
	keys    []string
	net     []vMsg
	trace   []vEv
	viols   []vViol
	taints  map[string]bool
	written []vOp
	tok     map[string]vOp // value token -> op
	prev    []map[string]vDig
	nwrite  int
	txs     map[int]xkv.Tx
	txTok   map[int]string
	reps    []map[string]int // harness mirror of the repetition counters (barriers and window avoidance only)
	seenBy  map[string]map[string]bool
	subAt   map[string]int
	marks   map[*vSub]int
	rawMark map[int]int
	stats   map[string]int
	broken  string
	// a node held inside its start-up recovery (restartGated)
	gated     *vRecGate
	gatedDone chan error
	gatedNode int
}

func vNewCluster(n int, keys []string) (*vCluster, error) {
	c := &vCluster{w: vNewWorld(1), n: n, keys: keys, taints: map[string]bool{}, tok: map[string]vOp{},
		txs: map[int]xkv.Tx{}, txTok: map[int]string{}, seenBy: map[string]map[string]bool{}, subAt: map[string]int{},
		marks: map[*vSub]int{}, rawMark: map[int]int{}, stats: map[string]int{}}
	for i := 1; i <= n; i++ {
		mem := []int{}
		for j := 1; j <= i; j++ {
			mem = append(mem, j)
		}
		if err := c.w.open(i, mem); err != nil {
			return nil, err
		}
		for j := 1; j < i; j++ {
			c.w.nodes[j].addMember(i)
		}
		c.reps = append(c.reps, map[string]int{})
	}
	c.prev = c.engines()
	c.trace = append(c.trace, c.ev(vEv{Ev: "reset", N: n}))
	return c, nil
}

func (c *vCluster) engines() []map[string]vDig {
	res := make([]map[string]vDig, c.n)
	for i := 1; i <= c.n; i++ {
		m := map[string]vDig{}
		for _, k := range c.keys {
			d, _, _ := vProject(c.w.nodes[i].eng, k)
			m[k] = d
		}
		res[i-1] = m
	}
	return res
}

func (c *vCluster) ev(e vEv) vEv {
	if e.Ops == nil {
		e.Ops = []vOp{}
	}
	if e.Acc == nil {
		e.Acc = []vOp{}
	}
	if e.Rej == nil {
		e.Rej = []vOp{}
	}
	if e.Ack == nil {
		e.Ack = []vOp{}
	}
	if e.Notes == nil {
		e.Notes = []vNoteEv{}
	}
	if e.Eng == nil {
		e.Eng = c.engines()
	}
	return e
}

func (c *vCluster) absOps(ops []Operation) []vOp {
	r := make([]vOp, len(ops))
	for i, o := range ops {
		r[i] = vOp{K: string(o.Key), Ver: int64(o.Version), Lh: int(o.Leaseholder), Var: vVariant(o.Variant)}
	}
	sort.Slice(r, func(a, b int) bool { return r[a].String() < r[b].String() })
	return r
}

func (c *vCluster) viol(kind, ev string, nd int, key, what string) {
	t := []string{}
	for k := range c.taints {
		t = append(t, k)
	}
	sort.Strings(t)
	c.viols = append(c.viols, vViol{Kind: kind, Step: len(c.trace), Ev: ev, Node: nd, Key: key, What: what, Taint: strings.Join(t, ",")})
}

// infected operations of node i, read the way a peer reads them (empty sync).
func (c *vCluster) infected(i int) ([]Operation, error) {
	ictx, cancel := context.WithTimeout(c.w.ctx, 5*time.Second)
	defer cancel()
	r, err := c.w.opNet.UnaryClient().Send(ictx, vAddr(i), TxRequest{Sender: 0})
	if err != nil {
		return nil, err
	}
	return r.Operations, nil
}

func vHasOp(ops []Operation, o vOp) bool {
	for _, p := range ops {
		if string(p.Key) == o.K && int64(p.Version) == o.Ver && int(p.Leaseholder) == o.Lh {
			return true
		}
	}
	return false
}

// vSlow counts store barriers that timed out (only a tree whose gossip store disagrees with the
// harness mirror); after a few of them the barriers stop waiting so that a run stays bounded.
var vSlow atomic.Int64

func vBarrier(cond func() bool, d time.Duration) {
	if vSlow.Load() > 12 {
		d = 2 * time.Millisecond
	}
	if !vWait(cond, d) {
		vSlow.Add(1)
	}
}

func (c *vCluster) waitInfected(i int, want []vOp) {
	vBarrier(func() bool {
		inf, err := c.infected(i)
		if err != nil {
			return true
		}
		for _, o := range want {
			if !vHasOp(inf, o) {
				return false
			}
		}
		return true
	}, time.Second)
}

func (c *vCluster) markSubs() {
	for i := 1; i <= c.n; i++ {
		nd := c.w.nodes[i]
		if nd.raw != nil {
			c.rawMark[i] = nd.raw.nBatches()
		}
		for _, s := range nd.subs {
			c.marks[s] = s.nBatches()
		}
	}
}

// collect what every subscriber was shown during the step and judge the C13 clauses directly.
func (c *vCluster) collectNotes(evName string, changed map[int][]vOp) []vNoteEv {
	var res []vNoteEv
	for i := 1; i <= c.n; i++ {
		nd := c.w.nodes[i]
		if nd.raw == nil {
			continue
		}
		rb := nd.raw.batches(c.rawMark[i])
		var rawOps []vNote
		for _, b := range rb {
			rawOps = append(rawOps, b...)
		}
		for _, s := range nd.subs {
			// expected number of batches by the statement of the filter: all / not led by the host
			exp := 0
			for _, b := range rb {
				vis := false
				for _, n := range b {
					if s.kind == "p" || n.Lh != i {
						vis = true
					}
				}
				if vis {
					exp++
				}
			}
			m := c.marks[s]
			vWait(func() bool { return s.nBatches()-m >= exp }, 2*time.Second)
			var ops []vOp
			id := fmt.Sprintf("%d/%s", i, s.name)
			for _, b := range s.batches(m) {
				for _, n := range b {
					o := vOp{K: n.Key, Ver: -1, Var: n.Var}
					for _, r := range rawOps {
						if r.Key == n.Key && r.Var == n.Var && r.Val == n.Val {
							o.Ver, o.Lh = r.Ver, r.Lh
						}
					}
					ops = append(ops, o)
					if c.seenBy[id] == nil {
						c.seenBy[id] = map[string]bool{}
					}
					if c.seenBy[id][o.String()] {
						c.viol("dup", evName, i, o.K, fmt.Sprintf("subscriber %s notified twice of %s", s.name, o))
					}
					c.seenBy[id][o.String()] = true
					if d, _, _ := vProject(nd.eng, o.K); d != o.dig() {
						c.viol("stale", evName, i, o.K, fmt.Sprintf("subscriber %s notified of %s while the node stores %+v", s.name, o, d))
					}
					if s.kind == "f" && o.Lh == i {
						c.viol("filter-shown", evName, i, o.K, fmt.Sprintf("host-leaseholder filter showed %s led by the host", o))
					}
				}
			}
			for _, ch := range changed[i] {
				shown := false
				for _, o := range ops {
					if o == ch {
						shown = true
					}
				}
				if s.kind == "p" && !shown {
					c.viol("missed", evName, i, ch.K, fmt.Sprintf("subscriber %s was not notified of applied %s", s.name, ch))
				}
				if s.kind == "f" && !shown && ch.Lh != i {
					c.viol("filter-hidden", evName, i, ch.K, fmt.Sprintf("host-leaseholder filter hid %s led by node %d", ch, ch.Lh))
				}
			}
			if len(ops) > 0 {
				sort.Slice(ops, func(a, b int) bool { return ops[a].String() < ops[b].String() })
				res = append(res, vNoteEv{N: i, S: s.kind, Ops: ops})
				c.stats["notes_"+s.kind] += len(ops)
			}
		}
	}
	return res
}

// judge engines after a step: no regress, value = digest.
func (c *vCluster) judge(evName string) map[int][]vOp {
	cur := c.engines()
	changed := map[int][]vOp{}
	for i := 1; i <= c.n; i++ {
		for _, k := range c.keys {
			p, d := c.prev[i-1][k], cur[i-1][k]
			if p != d {
				changed[i] = append(changed[i], vOp{K: k, Ver: d.Ver, Lh: d.Lh, Var: d.Var})
				if p.Var != "none" && !vNewer(d, p) {
					c.viol("regress", evName, i, k, fmt.Sprintf("node %d key %s: stored %+v replaced by older %+v", i, k, p, d))
				}
			}
			_, val, has := vProject(c.w.nodes[i].eng, k)
			switch d.Var {
			case "set":
				if o, ok := c.tok[val]; !has || !ok || o.dig() != d {
					c.viol("value", evName, i, k, fmt.Sprintf("node %d key %s: digest %+v with value %q", i, k, d, val))
				}
			default:
				if has {
					c.viol("value", evName, i, k, fmt.Sprintf("node %d key %s: digest %+v but value %q present", i, k, d, val))
				}
			}
		}
	}
	c.prev = cur
	return changed
}

func (c *vCluster) finish(e vEv) {
	changed := c.judge(e.Ev)
	if e.Ev == "recovered" {
		changed = nil // no subscriber can exist while Open runs
	}
	e.Notes = c.collectNotes(e.Ev, changed)
	e.Eng = nil
	c.trace = append(c.trace, c.ev(e))
	c.stats["ev_"+e.Ev]++
}

func (c *vCluster) winner(k string) vDig {
	w := vAbsent
	for _, o := range c.written {
		if o.K == k && (w.Var == "none" || vNewer(o.dig(), w)) {
			w = o.dig()
		}
	}
	return w
}

// ---- steps

func (c *vCluster) findToken(tok string) (int, vOp, bool) {
	for i := 1; i <= c.n; i++ {
		nd := c.w.nodes[i]
		if nd.raw == nil {
			continue
		}
		for _, b := range nd.raw.batches(c.rawMark[i]) {
			for _, n := range b {
				if n.Val == tok {
					return i, vOp{K: n.Key, Ver: n.Ver, Lh: n.Lh, Var: n.Var}, true
				}
			}
		}
	}
	return 0, vOp{}, false
}

func (c *vCluster) afterPersist(e vEv, tok string, isDel bool, k string) {
	var at int
	var op vOp
	ok := vWait(func() bool {
		if !isDel {
			at, op, _ = c.findToken(tok)
			return at != 0
		}
		for i := 1; i <= c.n; i++ {
			nd := c.w.nodes[i]
			if nd.raw == nil {
				continue
			}
			for _, b := range nd.raw.batches(c.rawMark[i]) {
				for _, n := range b {
					if n.Key == k && n.Var == "del" {
						at, op = i, vOp{K: n.Key, Ver: n.Ver, Lh: n.Lh, Var: "del"}
						return true
					}
				}
			}
		}
		return false
	}, 2*time.Second)
	if ok {
		e.At, e.Ver = at, op.Ver
		c.written = append(c.written, op)
		if !isDel {
			c.tok[tok] = op
		}
		c.waitInfected(at, []vOp{op})
		c.stats["writes"]++
		if at != e.N {
			c.stats["forwards"]++
		}
	}
	c.finish(e)
}

func (c *vCluster) write(n int, k, vr string) {
	c.markSubs()
	nd := c.w.nodes[n]
	c.nwrite++
	tok := fmt.Sprintf("%s#W%d", k, c.nwrite)
	var err error
	if vr == "del" {
		err = nd.db.Delete(c.w.ctx, []byte(k))
	} else {
		err = nd.db.Set(c.w.ctx, []byte(k), []byte(tok))
	}
	e := vEv{Ev: "write", N: n, K: k, Var: vr}
	if err != nil {
		e.T = "error"
		c.stats["write_errors"]++
		c.finish(e)
		return
	}
	c.afterPersist(e, tok, vr == "del", k)
}

func (c *vCluster) txset(n int, k, vr string) {
	c.markSubs()
	nd := c.w.nodes[n]
	tx := nd.db.OpenTx()
	c.nwrite++
	tok := fmt.Sprintf("%s#W%d", k, c.nwrite)
	var err error
	if vr == "del" {
		err = tx.Delete(c.w.ctx, []byte(k))
	} else {
		err = tx.Set(c.w.ctx, []byte(k), []byte(tok))
	}
	e := vEv{Ev: "txset", N: n, K: k, Var: vr}
	if err != nil {
		e.T = "error"
		_ = tx.Close()
	} else {
		c.txs[n], c.txTok[n] = tx, tok+"|"+k+"|"+vr
	}
	c.finish(e)
}

func (c *vCluster) txcommit(n int) {
	tx := c.txs[n]
	if tx == nil {
		return
	}
	c.markSubs()
	parts := strings.Split(c.txTok[n], "|")
	delete(c.txs, n)
	err := tx.Commit(c.w.ctx)
	_ = tx.Close()
	e := vEv{Ev: "txcommit", N: n, K: parts[1], Var: parts[2]}
	if err != nil {
		e.T = "error"
		c.finish(e)
		return
	}
	c.afterPersist(e, parts[0], parts[2] == "del", parts[1])
}

func (c *vCluster) tick(i, j int) {
	if !c.w.nodes[i].up || !c.w.nodes[j].up {
		return
	}
	c.markSubs()
	inf, err := c.infected(i)
	if err != nil {
		c.broken = "tick: " + err.Error()
		return
	}
	e := vEv{Ev: "tick", From: i, To: j, Ops: c.absOps(inf)}
	if len(inf) > 0 {
		c.net = append(c.net, vMsg{T: "sync", From: i, To: j, Ops: inf})
	}
	c.finish(e)
}

// fbClass: would this feedback make a recovered mark reach the threshold (a) while the key's
// store entry holds a DIFFERENT, still infected operation ("stale": before the repair of
// store.go the mark replaced that entry, now it is skipped), (b) while some node still lacks
// the operation ("premature" SIR removal; judged for marks that apply to their own entry)?
func (c *vCluster) fbClass(m vMsg) (stale, premature bool) {
	sk, pk := c.fbClassKeys(m)
	return len(sk) > 0, len(pk) > 0
}

func (c *vCluster) fbClassKeys(m vMsg) (staleKeys, prematureKeys []string) {
	for _, o := range c.absOps(m.Ops) {
		if c.reps[m.To-1][fmt.Sprintf("%s/%d", o.K, o.Ver)] > c.w.thr {
			other := false
			inf, _ := c.infected(m.To)
			for _, p := range inf {
				if string(p.Key) == o.K && (int64(p.Version) != o.Ver || int(p.Leaseholder) != o.Lh) {
					other = true
				}
			}
			if other {
				staleKeys = append(staleKeys, o.K)
				continue
			}
			for i := 1; i <= c.n; i++ {
				d, _, _ := vProject(c.w.nodes[i].eng, o.K)
				if d.Var == "none" || vNewer(o.dig(), d) {
					prematureKeys = append(prematureKeys, o.K)
					break
				}
			}
		}
	}
	return
}

// masked schedules do not step into premature removal; stale marks are delivered (repaired).
func (c *vCluster) feedbackSafe(m vMsg, why *string) bool {
	stale, premature := c.fbClass(m)
	if premature {
		*why = "premature"
		return false
	}
	if stale {
		*why = "stalefb"
	}
	return true
}

func (c *vCluster) deliver(idx int) {
	m := c.net[idx]
	c.net = append(c.net[:idx], c.net[idx+1:]...)
	to := c.w.nodes[m.To]
	if !to.up {
		c.trace = append(c.trace, c.ev(vEv{Ev: "lose", T: m.T, From: m.From, To: m.To, Ops: c.absOps(m.Ops)}))
		return
	}
	c.markSubs()
	abs := c.absOps(m.Ops)
	switch m.T {
	case "sync", "ack":
		raw0 := to.raw.total.Load()
		fbT0 := c.w.fbDigs.Load()
		c.w.mu.Lock()
		fb0 := len(c.w.fbs)
		c.w.mu.Unlock()
		sctx, cancel := context.WithTimeout(c.w.ctx, 5*time.Second)
		reply, err := c.w.opNet.UnaryClient().Send(sctx, vAddr(m.To), TxRequest{Sender: node.Key(m.From), Operations: m.Ops})
		cancel()
		if err != nil {
			c.broken = "deliver: " + err.Error()
			return
		}
		n := int64(len(m.Ops))
		if !vWait(func() bool { return to.raw.total.Load()-raw0+c.w.fbDigs.Load()-fbT0 >= n }, 2*time.Second) {
			c.viol("incomplete", m.T, m.To, "", fmt.Sprintf("%d operations delivered, %d notified, %d fed back", n, to.raw.total.Load()-raw0, c.w.fbDigs.Load()-fbT0))
		}
		var acc []vOp
		for _, b := range to.raw.batches(c.rawMark[m.To]) {
			for _, nt := range b {
				acc = append(acc, vOp{K: nt.Key, Ver: nt.Ver, Lh: nt.Lh, Var: nt.Var})
			}
		}
		sort.Slice(acc, func(a, b int) bool { return acc[a].String() < acc[b].String() })
		c.w.mu.Lock()
		fbs := append([]vFb{}, c.w.fbs[fb0:]...)
		c.w.mu.Unlock()
		var rej []vOp
		for _, f := range fbs {
			ops := Digests(f.Msg.Digests).toRequest(c.w.ctx).Operations
			rej = append(rej, c.absOps(ops)...)
			c.net = append(c.net, vMsg{T: "fb", From: f.From, To: vAddrID(f.To), Ops: ops})
		}
		c.waitInfected(m.To, acc)
		e := vEv{Ev: m.T, From: m.From, To: m.To, Ops: abs, Acc: acc, Rej: rej}
		if m.T == "sync" {
			e.Ack = c.absOps(reply.Operations)
			if len(reply.Operations) > 0 {
				c.net = append(c.net, vMsg{T: "ack", From: m.To, To: m.From, Ops: reply.Operations})
			}
		}
		c.stats["accepted"] += len(acc)
		c.stats["rejected"] += len(rej)
		c.finish(e)
	case "fb":
		staleKeys, prematureKeys := c.fbClassKeys(m)
		stale := len(staleKeys) > 0
		for _, k := range staleKeys {
			c.taints["stalefb"], c.taints["stalefb:"+k] = true, true
			c.stats["stalefb_hits"]++
		}
		for _, k := range prematureKeys {
			c.taints["premature"], c.taints["premature:"+k] = true, true
		}
		var hits []vOp
		for _, o := range abs {
			key := fmt.Sprintf("%s/%d", o.K, o.Ver)
			if c.reps[m.To-1][key] > c.w.thr {
				hits = append(hits, o)
				c.reps[m.To-1][key] = 0
			}
			c.reps[m.To-1][key]++
		}
		fctx, cancel := context.WithTimeout(c.w.ctx, 5*time.Second) // a dead pipeline must not hang the harness
		_, err := c.w.fbNet.UnaryClient().Send(fctx, vAddr(m.To), FeedbackMessage{Sender: node.Key(m.From), Digests: Operations(m.Ops).digests()})
		cancel()
		if err != nil {
			c.broken = "feedback: " + err.Error()
			return
		}
		if len(hits) > 0 && stale {
			// the mark is skipped on a repaired tree (nothing to wait for) and un-infects the newer
			// operation on an unrepaired one: give that a moment to show, without a verdict here
			c.stats["recovered"] += len(hits)
			vWait(func() bool {
				inf, err := c.infected(m.To)
				if err != nil {
					return true
				}
				for _, h := range hits {
					for _, p := range inf {
						if string(p.Key) == h.K {
							return false
						}
					}
				}
				return true
			}, 50*time.Millisecond)
		} else if len(hits) > 0 {
			c.stats["recovered"] += len(hits)
			vBarrier(func() bool {
				inf, err := c.infected(m.To)
				if err != nil {
					return true
				}
				for _, h := range hits {
					for _, p := range inf {
						if string(p.Key) == h.K {
							return false
						}
					}
				}
				return true
			}, 500*time.Millisecond)
		}
		c.finish(vEv{Ev: "fb", From: m.From, To: m.To, Ops: abs})
	}
}

type Operations []Operation

func (o Operations) digests() Digests {
	d := make(Digests, len(o))
	for i, op := range o {
		d[i] = op.Digest()
	}
	return d
}

func (c *vCluster) drop(idx int) {
	m := c.net[idx]
	c.net = append(c.net[:idx], c.net[idx+1:]...)
	c.trace = append(c.trace, c.ev(vEv{Ev: "drop", T: m.T, From: m.From, To: m.To, Ops: c.absOps(m.Ops)}))
	c.stats["drops"]++
}

func (c *vCluster) dup(idx int) {
	m := c.net[idx]
	c.net = append(c.net, m)
	c.trace = append(c.trace, c.ev(vEv{Ev: "dup", T: m.T, From: m.From, To: m.To, Ops: c.absOps(m.Ops)}))
	c.stats["dups"]++
}

func (c *vCluster) crash(n int) {
	nd := c.w.nodes[n]
	if !nd.up {
		return
	}
	if inf, _ := c.infected(n); len(inf) > 0 {
		c.taints["volatile"] = true
	}
	if tx := c.txs[n]; tx != nil {
		_ = tx.Close()
		delete(c.txs, n)
	}
	if err := nd.close(); err != nil {
		c.broken = "close: " + err.Error()
		return
	}
	for id := range c.seenBy {
		if strings.HasPrefix(id, fmt.Sprintf("%d/", n)) {
			delete(c.seenBy, id)
		}
	}
	c.reps[n-1] = map[string]int{}
	c.trace = append(c.trace, c.ev(vEv{Ev: "crash", N: n}))
	c.stats["crashes"]++
}

func (c *vCluster) restart(n int) {
	nd := c.w.nodes[n]
	if nd.up {
		return
	}
	for i := 1; i <= c.n; i++ {
		if i != n && !c.w.nodes[i].up {
			return
		}
	}
	c.trace = append(c.trace, c.ev(vEv{Ev: "restart", N: n}))
	// vacuity: start-up recoveries where the supersedes rule / the order of peers matters - a peer
	// holds an operation the node must refuse, or the peers disagree about a key
	contested := !c.peersAgree(n)
	for p := 1; p <= c.n && !contested; p++ {
		for _, k := range c.keys {
			dn, _, _ := vProject(nd.eng, k)
			dp, _, _ := vProject(c.w.nodes[p].eng, k)
			if p != n && dn.Var != "none" && dp.Var != "none" && dn != dp && !vNewer(dp, dn) {
				contested = true
			}
		}
	}
	if contested {
		c.stats["recovery_contested"]++
	}
	c.markSubs()
	mem := []int{}
	for i := 1; i <= c.n; i++ {
		mem = append(mem, i)
	}
	if err := c.w.open(n, mem); err != nil {
		c.broken = "reopen: " + err.Error()
		return
	}
	c.rawMark[n] = 0
	c.taints["restarted"] = true
	c.finish(vEv{Ev: "recovered", N: n})
}

// restartGated: kv.Open of node n runs in the background and is held inside its start-up recovery
// (vRecGate): the peer has streamed everything, Open has not returned, the node's transport
// handlers are bound. deliverRec hands a gossip request to such a node; release lets Open finish.
func (c *vCluster) restartGated(n int) {
	nd := c.w.nodes[n]
	if nd.up || c.gated != nil {
		return
	}
	c.trace = append(c.trace, c.ev(vEv{Ev: "restart", N: n}))
	c.markSubs()
	g := &vRecGate{open: make(chan struct{}), reached: make(chan struct{}, 1)}
	c.w.gate = g
	mem := []int{}
	for i := 1; i <= c.n; i++ {
		mem = append(mem, i)
	}
	done := make(chan error, 1)
	go func() { done <- c.w.open(n, mem) }()
	select {
	case <-g.reached:
	case err := <-done:
		c.broken = fmt.Sprintf("gated reopen returned early: %v", err)
		return
	case <-time.After(10 * time.Second):
		c.broken = "gated reopen: the recovery stream never ended"
		return
	}
	c.gated, c.gatedDone, c.gatedNode = g, done, n
	peer := 1
	if n == 1 {
		peer = 2
	}
	c.trace = append(c.trace, c.ev(vEv{Ev: "recread", N: n, From: peer}))
	c.stats["gated_restarts"]++
}

// one gossip exchange from node i to the node held in recovery (its handlers are live)
func (c *vCluster) deliverRec(i int) {
	if c.gated == nil {
		return
	}
	n := c.gatedNode
	inf, err := c.infected(i)
	if err != nil {
		c.broken = "tick: " + err.Error()
		return
	}
	c.markSubs()
	c.finish(vEv{Ev: "tick", From: i, To: n, Ops: c.absOps(inf)})
	if len(inf) == 0 {
		return
	}
	c.markSubs()
	before := c.engines()[n-1]
	c.w.mu.Lock()
	fb0 := len(c.w.fbs)
	c.w.mu.Unlock()
	sctx, cancel := context.WithTimeout(c.w.ctx, 5*time.Second)
	reply, err := c.w.opNet.UnaryClient().Send(sctx, vAddr(n), TxRequest{Sender: node.Key(i), Operations: inf})
	cancel()
	if err != nil {
		// a node whose ingress waits for the recovery lock answers once recovery is done: not here
		c.broken = "deliver to recovering node: " + err.Error()
		return
	}
	abs := c.absOps(inf)
	// no observer exists yet: processed = every operation is stored or was fed back
	var acc, rej []vOp
	vWait(func() bool {
		acc, rej = nil, nil
		cur := c.engines()[n-1]
		for _, o := range abs {
			if cur[o.K] == o.dig() && before[o.K] != o.dig() {
				acc = append(acc, o)
			}
		}
		c.w.mu.Lock()
		for _, f := range c.w.fbs[fb0:] {
			rej = append(rej, c.absOps(Digests(f.Msg.Digests).toRequest(c.w.ctx).Operations)...)
		}
		c.w.mu.Unlock()
		return len(acc)+len(rej) >= len(abs)
	}, time.Second)
	c.w.mu.Lock()
	for _, f := range c.w.fbs[fb0:] {
		c.net = append(c.net, vMsg{T: "fb", From: f.From, To: vAddrID(f.To), Ops: Digests(f.Msg.Digests).toRequest(c.w.ctx).Operations})
	}
	c.w.mu.Unlock()
	if len(reply.Operations) > 0 {
		c.net = append(c.net, vMsg{T: "ack", From: n, To: i, Ops: reply.Operations})
	}
	c.taints["recgate"] = true
	c.stats["ingress_during_recovery"] += len(acc)
	c.finish(vEv{Ev: "sync", From: i, To: n, Ops: abs, Acc: acc, Rej: rej, Ack: c.absOps(reply.Operations)})
}

func (c *vCluster) release() {
	if c.gated == nil {
		return
	}
	n := c.gatedNode
	c.markSubs()
	close(c.gated.open)
	select {
	case err := <-c.gatedDone:
		if err != nil {
			c.broken = "reopen: " + err.Error()
		}
	case <-time.After(10 * time.Second):
		c.broken = "gated reopen did not return"
	}
	c.gated = nil
	if c.broken != "" {
		return
	}
	c.rawMark[n] = 0
	c.taints["restarted"] = true
	c.finish(vEv{Ev: "recovered", N: n})
}

// masked schedules: start-up recovery writes what each peer streams in separate, unordered
// transactions, so it is only stepped into when all peers hold the same digests.
func (c *vCluster) peersAgree(n int) bool {
	for p := 1; p <= c.n; p++ {
		for q := p + 1; q <= c.n; q++ {
			if p == n || q == n {
				continue
			}
			for _, k := range c.keys {
				dp, _, _ := vProject(c.w.nodes[p].eng, k)
				dq, _, _ := vProject(c.w.nodes[q].eng, k)
				if dp != dq {
					return false
				}
			}
		}
	}
	return true
}

func (c *vCluster) syncPeers(n int) bool {
	for round := 0; round < 8 && !c.peersAgree(n) && c.broken == ""; round++ {
		for i := 1; i <= c.n; i++ {
			for j := 1; j <= c.n; j++ {
				if i == j || i == n || j == n || !c.w.nodes[i].up || !c.w.nodes[j].up {
					continue
				}
				c.tick(i, j)
				for idx := 0; idx < len(c.net); {
					if m := c.net[idx]; m.T != "fb" && m.To != n && m.From != n {
						c.deliver(idx)
						idx = 0
						continue
					}
					idx++
				}
			}
		}
	}
	return c.peersAgree(n)
}

func (c *vCluster) sub(n int, kind string) {
	nd := c.w.nodes[n]
	if !nd.up {
		return
	}
	for _, s := range nd.subs {
		if s.kind == kind {
			return
		}
	}
	nd.subscribe(kind, kind)
	c.trace = append(c.trace, c.ev(vEv{Ev: "sub", N: n, S: kind}))
}

func (c *vCluster) allInfected() int {
	t := 0
	for i := 1; i <= c.n; i++ {
		if c.w.nodes[i].up {
			inf, _ := c.infected(i)
			t += len(inf)
		}
	}
	return t
}

// fair rounds until nothing is infected and nothing is in flight; masked: unsafe feedback is lost.
func (c *vCluster) quiesce(masked bool) {
	for i := 1; i <= c.n; i++ {
		c.restart(i)
	}
	for round := 0; round < 60 && c.broken == ""; round++ {
		for len(c.net) > 0 && c.broken == "" {
			why := ""
			if c.net[0].T == "fb" && masked && !c.feedbackSafe(c.net[0], &why) {
				c.drop(0)
				continue
			}
			if c.net[0].T == "fb" {
				c.noteFbTaint(c.net[0])
			}
			c.deliver(0)
		}
		if c.allInfected() == 0 {
			break
		}
		for i := 1; i <= c.n; i++ {
			for j := 1; j <= c.n; j++ {
				if i != j {
					c.tick(i, j)
				}
			}
		}
	}
	if c.broken != "" {
		return
	}
	if len(c.net) != 0 || c.allInfected() != 0 {
		c.broken = "quiesce did not terminate"
		return
	}
	c.trace = append(c.trace, c.ev(vEv{Ev: "quiet"}))
	c.stats["quiet"]++
	for i := 1; i <= c.n; i++ {
		for _, k := range c.keys {
			d, _, _ := vProject(c.w.nodes[i].eng, k)
			if w := c.winner(k); d != w {
				c.viol("diverged", "quiet", i, k, fmt.Sprintf("gossip quiesced: node %d key %s holds %+v, latest write is %+v", i, k, d, w))
			}
		}
	}
}

// taints are recorded by deliver itself (fbClass); kept for the call sites
func (c *vCluster) noteFbTaint(_ vMsg) {}

func vInt(m map[string]any, k string) int {
	f, _ := m[k].(float64)
	return int(f)
}
func vStr(m map[string]any, k string) string {
	s, _ := m[k].(string)
	return s
}

func (c *vCluster) findMsg(st map[string]any) int {
	t, from, to := vStr(st, "t"), vInt(st, "from"), vInt(st, "to")
	for i, m := range c.net {
		if m.T == t && (from == 0 || m.From == from) && (to == 0 || m.To == to) {
			return i
		}
	}
	return -1
}

func (c *vCluster) runScript(s vScript) {
	for _, st := range s.Steps {
		if c.broken != "" {
			return
		}
		switch vStr(st, "a") {
		case "write":
			c.write(vInt(st, "n"), vStr(st, "k"), vStr(st, "var"))
		case "txset":
			c.txset(vInt(st, "n"), vStr(st, "k"), vStr(st, "var"))
		case "txcommit":
			c.txcommit(vInt(st, "n"))
		case "tick":
			c.tick(vInt(st, "from"), vInt(st, "to"))
		case "deliver":
			if i := c.findMsg(st); i >= 0 {
				if c.net[i].T == "fb" {
					c.noteFbTaint(c.net[i])
				}
				c.deliver(i)
			} else {
				c.stats["script_miss"]++ // the expected message does not exist on this tree: go on
			}
		case "drop":
			if i := c.findMsg(st); i >= 0 {
				c.drop(i)
			}
		case "dup":
			if i := c.findMsg(st); i >= 0 {
				c.dup(i)
			}
		case "exchange": // tick + deliver sync + deliver ack; feedback stays in flight
			c.tick(vInt(st, "from"), vInt(st, "to"))
			if i := c.findMsg(map[string]any{"t": "sync", "from": float64(vInt(st, "from")), "to": float64(vInt(st, "to"))}); i >= 0 {
				c.deliver(i)
			}
			if i := c.findMsg(map[string]any{"t": "ack", "from": float64(vInt(st, "to")), "to": float64(vInt(st, "from"))}); i >= 0 {
				c.deliver(i)
			}
		case "crash":
			c.crash(vInt(st, "n"))
		case "restart":
			c.restart(vInt(st, "n"))
		case "restart_gated":
			c.restartGated(vInt(st, "n"))
		case "deliver_rec":
			c.deliverRec(vInt(st, "from"))
		case "release":
			c.release()
		case "sub":
			c.sub(vInt(st, "n"), vStr(st, "s"))
		case "quiesce":
			c.quiesce(false)
		}
	}
}

// seeded random schedule. masked: the scheduler does not step into the named windows.
func (c *vCluster) runRandom(rnd *rand.Rand, steps int, masked bool) {
	faults, restarts := 3, 1
	owner := func(k string) int {
		for i, kk := range c.keys {
			if kk == k {
				return i%c.n + 1
			}
		}
		return 1
	}
	for i := 1; i <= c.n; i++ {
		if rnd.Intn(2) == 0 {
			c.sub(i, "p")
		}
		if rnd.Intn(2) == 0 {
			c.sub(i, "f")
		}
	}
	for s := 0; s < steps && c.broken == ""; s++ {
		up := []int{}
		for i := 1; i <= c.n; i++ {
			if c.w.nodes[i].up {
				up = append(up, i)
			}
		}
		r := rnd.Intn(100)
		switch {
		case r < 22 && len(up) > 0 && c.nwrite < 12:
			n := up[rnd.Intn(len(up))]
			k := c.keys[rnd.Intn(len(c.keys))]
			vr := "set"
			if rnd.Intn(4) == 0 {
				vr = "del"
			}
			if masked {
				if d, _, _ := vProject(c.w.nodes[n].eng, k); d.Var == "none" && owner(k) != n {
					continue
				}
			}
			if d, _, _ := vProject(c.w.nodes[n].eng, k); d.Var != "none" && !c.w.nodes[d.Lh].up {
				continue // forward to a leaseholder that is down: error path, not modelled
			}
			c.write(n, k, vr)
		case r < 45 && len(up) > 1:
			i := up[rnd.Intn(len(up))]
			j := up[rnd.Intn(len(up))]
			if i != j && len(c.net) < 6 {
				c.tick(i, j)
			}
		case r < 85 && len(c.net) > 0:
			idx := rnd.Intn(len(c.net))
			m := c.net[idx]
			if m.T == "fb" && c.w.nodes[m.To].up {
				why := ""
				if !c.feedbackSafe(m, &why) && masked {
					c.drop(idx)
					continue
				}
			}
			c.deliver(idx)
		case r < 90 && len(c.net) > 0 && faults > 0:
			faults--
			if rnd.Intn(2) == 0 {
				c.drop(rnd.Intn(len(c.net)))
			} else {
				c.dup(rnd.Intn(len(c.net)))
			}
		case r < 94 && restarts > 0 && len(up) == c.n && c.n >= 2:
			n := up[rnd.Intn(len(up))]
			if masked {
				if inf, _ := c.infected(n); len(inf) > 0 {
					continue
				}
				// (recovery.go repaired: peers in turn, supersedes rule - restarts are no longer
				// restricted to nodes whose peers agree and hold nothing older)
			}
			restarts--
			c.crash(n)
		case r < 97:
			for i := 1; i <= c.n; i++ {
				if !c.w.nodes[i].up {
					c.restart(i)
				}
			}
		default:
			if len(up) > 0 {
				c.sub(up[rnd.Intn(len(up))], []string{"p", "f"}[rnd.Intn(2)])
			}
		}
	}
	if c.broken == "" {
		c.quiesce(masked)
	}
}

type vClusterOut struct {
	ID     string         `json:"id"`
	Nodes  int            `json:"nodes"`
	Keys   []string       `json:"keys"`
	Masked bool           `json:"masked"`
	Seed   int64          `json:"seed"`
	Trace  []vEv          `json:"trace"`
	Viols  []vViol        `json:"viols"`
	Taints []string       `json:"taints"`
	Broken string         `json:"broken"`
	Stats  map[string]int `json:"stats"`
}

func (c *vCluster) out(id string, masked bool, seed int64) vClusterOut {
	t := []string{}
	for k := range c.taints {
		t = append(t, k)
	}
	sort.Strings(t)
	if c.viols == nil {
		c.viols = []vViol{}
	}
	return vClusterOut{ID: id, Nodes: c.n, Keys: c.keys, Masked: masked, Seed: seed, Trace: c.trace, Viols: c.viols, Taints: t, Broken: c.broken, Stats: c.stats}
}

// VERIF_IN: ndjson of scripts {id,nodes,keys,steps}; VERIF_RANDOM=N adds N seeded random
// schedules (VERIF_SEED, VERIF_STEPS, VERIF_NODES "2,3", VERIF_ASIS=1 to step into the windows).
func TestVerifKVCluster(t *testing.T) {
	out := os.Getenv("VERIF_OUT")
	if out == "" {
		t.Skip("VERIF_OUT not set")
	}
	var res []vClusterOut
	if in := os.Getenv("VERIF_IN"); in != "" {
		var scripts []vScript
		err := vReadLines(in, func(_ int, line []byte) {
			var s vScript
			if err := json.Unmarshal(line, &s); err == nil {
				scripts = append(scripts, s)
			}
		})
		if err != nil {
			t.Fatal(err)
		}
		for _, s := range scripts {
			c, err := vNewCluster(s.Nodes, s.Keys)
			if err != nil {
				res = append(res, vClusterOut{ID: s.ID, Broken: "open: " + err.Error()})
				continue
			}
			c.runScript(s)
			res = append(res, c.out(s.ID, false, 0))
			c.w.closeAll()
		}
	}
	nrand, _ := strconv.Atoi(os.Getenv("VERIF_RANDOM"))
	seed, _ := strconv.ParseInt(os.Getenv("VERIF_SEED"), 10, 64)
	steps, _ := strconv.Atoi(os.Getenv("VERIF_STEPS"))
	if steps == 0 {
		steps = 40
	}
	masked := os.Getenv("VERIF_ASIS") != "1"
	sizes := []int{2, 3}
	if v := os.Getenv("VERIF_NODES"); v != "" {
		sizes = nil
		for _, p := range strings.Split(v, ",") {
			n, _ := strconv.Atoi(p)
			sizes = append(sizes, n)
		}
	}
	if nrand > 0 {
		workers := 6
		var mu sync.Mutex
		var wg sync.WaitGroup
		jobs := make(chan int, nrand)
		for i := 0; i < nrand; i++ {
			jobs <- i
		}
		close(jobs)
		for wk := 0; wk < workers; wk++ {
			wg.Add(1)
			go func() {
				defer wg.Done()
				for i := range jobs {
					sd := seed*1000003 + int64(i)
					rnd := rand.New(rand.NewSource(sd))
					n := sizes[i%len(sizes)]
					keys := []string{"k1", "k2"}
					if i%3 == 2 {
						keys = []string{"k1", "k2", "k3"}
					}
					c, err := vNewCluster(n, keys)
					id := fmt.Sprintf("rnd-%d-%d", seed, i)
					if err != nil {
						mu.Lock()
						res = append(res, vClusterOut{ID: id, Broken: "open: " + err.Error()})
						mu.Unlock()
						continue
					}
					c.runRandom(rnd, steps, masked)
					o := c.out(id, masked, sd)
					c.w.closeAll()
					mu.Lock()
					res = append(res, o)
					mu.Unlock()
				}
			}()
		}
		wg.Wait()
	}
	sort.SliceStable(res, func(a, b int) bool { return res[a].ID < res[b].ID })
	of, err := os.Create(out)
	if err != nil {
		t.Fatal(err)
	}
	defer of.Close()
	enc := json.NewEncoder(of)
	_ = enc.Encode(map[string]any{"summary": true, "scenarios": len(res)})
	for _, r := range res {
		_ = enc.Encode(r)
	}
}

// Live run: the real periodic emitter, random peer choice and feedback transport on 2 nodes.
// Writes from both nodes (also to each other's keys: forwarded), then the engines must reach
// the latest write of every key within VERIF_LIVE_MS; not converging in time is reported as
// "timeout" (inconclusive for the driver), a regress observed while polling as "regress".
func TestVerifKVLive(t *testing.T) {
	out := os.Getenv("VERIF_OUT")
	if out == "" {
		t.Skip("VERIF_OUT not set")
	}
	seed, _ := strconv.ParseInt(os.Getenv("VERIF_SEED"), 10, 64)
	ms, _ := strconv.Atoi(os.Getenv("VERIF_LIVE_MS"))
	if ms == 0 {
		ms = 20000
	}
	rounds, _ := strconv.Atoi(os.Getenv("VERIF_LIVE_ROUNDS"))
	if rounds == 0 {
		rounds = 5
	}
	rnd := rand.New(rand.NewSource(seed))
	type res struct {
		Round      int    `json:"round"`
		R          string `json:"r"`
		What       string `json:"what"`
		Writes     int    `json:"writes"`
		ConvergeMs int64  `json:"converge_ms"`
	}
	var all []res
	for r := 0; r < rounds; r++ {
		w := vNewWorld(3)
		w.live = true
		if err := w.open(1, []int{1}); err != nil {
			t.Fatal(err)
		}
		if err := w.open(2, []int{1, 2}); err != nil {
			t.Fatal(err)
		}
		w.nodes[1].addMember(2)
		keys := []string{"k1", "k2", "k3", "k4"}
		owner := map[string]int{"k1": 1, "k2": 2, "k3": 1, "k4": 2}
		latest := map[string]string{}
		nw := 0
		rr := res{Round: r, R: "ok"}
		prev := map[string]vDig{}
		check := func() {
			for n := 1; n <= 2; n++ {
				for _, k := range keys {
					d, _, _ := vProject(w.nodes[n].eng, k)
					id := fmt.Sprintf("%d/%s", n, k)
					if p, ok := prev[id]; ok && p.Var != "none" && p != d && !vNewer(d, p) {
						rr.R, rr.What = "regress", fmt.Sprintf("node %d key %s: %+v replaced by %+v", n, k, p, d)
					}
					prev[id] = d
				}
			}
		}
		for i := 0; i < 30; i++ {
			k := keys[rnd.Intn(len(keys))]
			n := 1 + rnd.Intn(2)
			if _, _, has := vProject(w.nodes[n].eng, k); !has && latest[k] == "" && owner[k] != n {
				n = owner[k]
			}
			if d, _, _ := vProject(w.nodes[n].eng, k); d.Var == "none" && owner[k] != n {
				continue // only the owner creates a key (one leaseholder per key)
			}
			nw++
			tok := fmt.Sprintf("%s#%d", k, nw)
			var err error
			if rnd.Intn(5) == 0 {
				err = w.nodes[n].db.Delete(w.ctx, []byte(k))
				tok = ""
			} else {
				err = w.nodes[n].db.Set(w.ctx, []byte(k), []byte(tok))
			}
			if err != nil {
				rr.R, rr.What = "error", err.Error()
				break
			}
			latest[k] = tok
			if latest[k] == "" {
				latest[k] = "<deleted>"
			}
			check()
			time.Sleep(time.Duration(rnd.Intn(4)) * time.Millisecond)
		}
		rr.Writes = nw
		t0 := time.Now()
		conv := vWait(func() bool {
			check()
			for n := 1; n <= 2; n++ {
				for _, k := range keys {
					if latest[k] == "" {
						continue
					}
					_, val, has := vProject(w.nodes[n].eng, k)
					if latest[k] == "<deleted>" {
						if has {
							return false
						}
					} else if !has || val != latest[k] {
						return false
					}
				}
			}
			return true
		}, time.Duration(ms)*time.Millisecond)
		rr.ConvergeMs = time.Since(t0).Milliseconds()
		if !conv && rr.R == "ok" {
			rr.R, rr.What = "timeout", "engines did not reach the latest writes"
			c := &vCluster{w: w, n: 2, keys: keys}
			if c.allInfected() == 0 {
				// nothing left to gossip: the cluster quiesced in a diverged state
				var diff []string
				for _, k := range keys {
					d1, _, _ := vProject(w.nodes[1].eng, k)
					d2, _, _ := vProject(w.nodes[2].eng, k)
					if d1 != d2 {
						diff = append(diff, fmt.Sprintf("%s: node1 %+v node2 %+v", k, d1, d2))
					}
				}
				rr.R, rr.What = "diverged-quiesced", strings.Join(diff, "; ")
			}
		}
		all = append(all, rr)
		w.closeAll()
	}
	of, err := os.Create(out)
	if err != nil {
		t.Fatal(err)
	}
	defer of.Close()
	enc := json.NewEncoder(of)
	_ = enc.Encode(map[string]any{"summary": true, "rounds": len(all)})
	for _, r := range all {
		_ = enc.Encode(r)
	}
}
