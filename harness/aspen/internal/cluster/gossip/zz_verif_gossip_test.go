//go:build verif

// Replay of Gossip.tla behaviours into real store.Store + gossip.Gossip instances over a
// harness-defined gate transport (C12, DESIGN.md). Injected with `go test -overlay`;
// never part of /repo.
//
// Verdict-bearing checks are made on the real stores only (they restate C12):
//   monotone   a member once known stays known and its heartbeat never regresses
//   stale      a record is only replaced by one with a strictly further advanced heartbeat
//   supersede  a delivered record of a newer generation replaces the held one
//   converge   after every unordered pair completed one exchange since the last change
//              all stores hold identical views containing every member
// Everything else (exact post-view, message contents, ghost flags) is compared with the
// specification as drift.
package gossip

import (
	"bufio"
	"context"
	"encoding/json"
	"errors"
	"fmt"
	"os"
	"runtime"
	"sort"
	"strconv"
	"sync"
	"testing"
	"time"

	"github.com/synnaxlabs/alamos"
	"github.com/synnaxlabs/aspen/internal/cluster/store"
	"github.com/synnaxlabs/aspen/internal/node"
	"github.com/synnaxlabs/freighter"
	"github.com/synnaxlabs/x/address"
	"github.com/synnaxlabs/x/version"
)

// ---------------------------------------------------------------- history records

// vRec is printed by GossipGen as [g, v, s] (records) or [g, v] (digests).
type vRec struct{ G, V, S int }

func (r *vRec) UnmarshalJSON(b []byte) error {
	var a []int
	if err := json.Unmarshal(b, &a); err != nil {
		return err
	}
	if len(a) < 2 || len(a) > 3 {
		return fmt.Errorf("bad record %s", b)
	}
	r.G, r.V, r.S = a[0], a[1], 0
	if len(a) == 3 {
		r.S = a[2]
	}
	return nil
}

// vMap is a partial function member -> record; TLC prints the empty function as [].
type vMap map[string]vRec

func (m *vMap) UnmarshalJSON(b []byte) error {
	*m = vMap{}
	if len(b) > 0 && b[0] == '[' {
		return nil
	}
	tmp := map[string]vRec{}
	if err := json.Unmarshal(b, &tmp); err != nil {
		return err
	}
	*m = tmp
	return nil
}

type vMsg struct {
	Type  string `json:"type"`
	Digs  vMap   `json:"digs"`
	Nodes vMap   `json:"nodes"`
}

type vStep struct {
	A    string          `json:"a"`
	I    string          `json:"i"`
	J    string          `json:"j"`
	S    int             `json:"s"`
	M    vMsg            `json:"m"`
	St   map[string]vMap `json:"st"`
	Conv bool            `json:"conv"`
}

type vResult struct {
	I    int    `json:"i"`
	R    string `json:"r"` // ok | violation | drift | inconclusive
	Kind string `json:"kind,omitempty"`
	Sig  string `json:"sig,omitempty"`
	Step int    `json:"step"`
	Exp  string `json:"exp,omitempty"`
	Act  string `json:"act,omitempty"`
	Note string `json:"note,omitempty"`
	Base uint32 `json:"base"` // concretisation used (VERIF_BASE reproduces it)
}

type vStats struct {
	Steps, Exchanges, Overlaps, Ack2, NoAck2, Drops, Restarts, Ticks, States, ConvChecks, ConvHeld, Superseded, BigVer, StatesLeft int
}

func (s *vStats) add(o vStats) {
	s.Steps += o.Steps
	s.Exchanges += o.Exchanges
	s.Overlaps += o.Overlaps
	s.Ack2 += o.Ack2
	s.NoAck2 += o.NoAck2
	s.Drops += o.Drops
	s.Restarts += o.Restarts
	s.Ticks += o.Ticks
	s.States += o.States
	s.ConvChecks += o.ConvChecks
	s.ConvHeld += o.ConvHeld
	s.Superseded += o.Superseded
	s.BigVer += o.BigVer
	s.StatesLeft += o.StatesLeft
}

// ---------------------------------------------------------------- gate transport

var errVDropped = errors.New("verif: message dropped")

type vCall struct {
	to      address.Address
	req     Message
	res     Message
	err     error
	cmd     chan string
	handled chan struct{}
}

type vNet struct {
	mu       sync.Mutex
	handlers map[address.Address]func(context.Context, Message) (Message, error)
	gated    bool
	events   chan *vCall
	// hook observes an ungated request/response pair (xchg steps run on the controller
	// goroutine, so it needs no locking)
	hook func(to address.Address, req, res Message)
}

func (n *vNet) handler(a address.Address) func(context.Context, Message) (Message, error) {
	n.mu.Lock()
	defer n.mu.Unlock()
	return n.handlers[a]
}

type vTransport struct{}

func (vTransport) Report() alamos.Report        { return alamos.Report{"protocol": "verif-gate"} }
func (vTransport) Use(...freighter.Middleware) {}

type vServer struct {
	vTransport
	net  *vNet
	addr address.Address
}

func (s *vServer) BindHandler(h func(context.Context, Message) (Message, error)) {
	s.net.mu.Lock()
	defer s.net.mu.Unlock()
	s.net.handlers[s.addr] = h
}

type vClient struct {
	vTransport
	net *vNet
}

func (c *vClient) Send(ctx context.Context, target address.Address, req Message) (Message, error) {
	h := c.net.handler(target)
	if h == nil {
		return Message{}, address.NewTargetNotFoundError(target)
	}
	c.net.mu.Lock()
	gated := c.net.gated
	c.net.mu.Unlock()
	if !gated {
		res, err := h(ctx, req)
		if c.net.hook != nil && err == nil {
			c.net.hook(target, req, res)
		}
		return res, err
	}
	call := &vCall{to: target, req: req, cmd: make(chan string), handled: make(chan struct{})}
	c.net.events <- call
	for cmd := range call.cmd {
		switch cmd {
		case "deliver":
			call.res, call.err = h(ctx, req)
			call.handled <- struct{}{}
		case "return":
			return call.res, call.err
		case "drop":
			return Message{}, errVDropped
		}
	}
	return Message{}, errVDropped
}

var (
	_ TransportClient = (*vClient)(nil)
	_ TransportServer = (*vServer)(nil)
)

// ---------------------------------------------------------------- cluster of real objects

type vPend struct {
	call  *vCall
	stage string // sync | ack | ack2
	peer  string
	done  chan error
	stale bool
}

type vCluster struct {
	names   []string
	stores  map[string]store.Store
	gossips map[string]*Gossip
	servers map[string]*vServer
	net     *vNet
	pending map[string]*vPend
	// harness-own ghosts
	exchanged map[string]bool
	cz        vConc
}

func vKey(name string) node.Key {
	k, _ := strconv.Atoi(name[1:])
	return node.Key(k)
}
func vName(k node.Key) string          { return "n" + strconv.Itoa(int(k)) }
func vAddr(name string) address.Address { return address.Address("verif-" + name) }

// vConc is the concretisation of abstract heartbeat versions, chosen per history: in
// generation 0 the abstract version v > 0 is the concrete version base + v (the first tick
// of generation 0 stands for base + 1 ticks); version 0 and every version of a later
// generation (Heartbeat.Restart resets the version, ticks are real Increments) are
// concrete as they are. The map is strictly monotone inside a generation, so the abstract
// (generation, version) order is isomorphic to the concrete one, (0,0) stays (0,0), and a
// restart compares (gen+1, small) against (gen, base+v).
type vConc uint32

var vBases = []uint32{0, 65534, 65535, 1 << 31}

func (b vConc) up(g, v int) uint32 {
	if g == 0 && v > 0 {
		return uint32(b) + uint32(v)
	}
	return uint32(v)
}

func (b vConc) down(h version.Heartbeat) (g, v int) {
	g = int(h.Generation)
	if g == 0 && h.Version > 0 && b > 0 {
		if h.Version > uint32(b) {
			return g, int(h.Version - uint32(b))
		}
		return g, -int(h.Version) // not in the image of the map: never equals a spec value
	}
	return g, int(h.Version)
}

func (b vConc) node(name string, r vRec) node.Node {
	return node.Node{
		Key:       vKey(name),
		Address:   vAddr(name),
		Heartbeat: version.Heartbeat{Generation: uint32(r.G), Version: b.up(r.G, r.V)},
		State:     node.State(r.S),
	}
}

func (b vConc) rec(n node.Node) vRec {
	g, v := b.down(n.Heartbeat)
	return vRec{G: g, V: v, S: int(n.State)}
}

func (b vConc) group(g node.Group) vMap {
	m := vMap{}
	for k, n := range g {
		m[vName(k)] = b.rec(n)
	}
	return m
}

func (b vConc) digests(d node.Digests) vMap {
	m := vMap{}
	for k, dg := range d {
		g, v := b.down(dg.Heartbeat)
		m[vName(k)] = vRec{G: g, V: v}
	}
	return m
}

// jump turns the first tick of generation 0 (concrete version 1) into base + 1 ticks.
func (c *vCluster) jump(ctx context.Context, name string) {
	if c.cz == 0 {
		return
	}
	s := c.stores[name]
	host := s.GetHost()
	if host.Heartbeat.Generation == 0 && host.Heartbeat.Version == 1 {
		host.Heartbeat.Version = uint32(c.cz) + 1
		s.SetNode(ctx, host)
	}
}

func vAdv(a, b vRec) bool { return a.G > b.G || (a.G == b.G && a.V > b.V) }

func vEqMap(a, b vMap) bool {
	if len(a) != len(b) {
		return false
	}
	for k, v := range a {
		if w, ok := b[k]; !ok || w != v {
			return false
		}
	}
	return true
}

func vFmt(m vMap) string {
	keys := make([]string, 0, len(m))
	for k := range m {
		keys = append(keys, k)
	}
	sort.Strings(keys)
	s := "{"
	for i, k := range keys {
		if i > 0 {
			s += " "
		}
		s += fmt.Sprintf("%s:(%d,%d,s%d)", k, m[k].G, m[k].V, m[k].S)
	}
	return s + "}"
}

func vFmtViews(v map[string]vMap) string {
	keys := make([]string, 0, len(v))
	for k := range v {
		keys = append(keys, k)
	}
	sort.Strings(keys)
	s := ""
	for _, k := range keys {
		s += k + "=" + vFmt(v[k]) + " "
	}
	return s
}

func (c *vCluster) newGossip(name string, st store.Store) error {
	g, err := New(Config{
		Store:           st,
		TransportClient: &vClient{net: c.net},
		TransportServer: c.servers[name],
		Interval:        time.Hour,
	})
	if err != nil {
		return err
	}
	c.stores[name] = st
	c.gossips[name] = g
	return nil
}

func vNewCluster(ctx context.Context, init map[string]vMap, cz vConc) (*vCluster, error) {
	c := &vCluster{
		cz: cz,
		stores: map[string]store.Store{}, gossips: map[string]*Gossip{}, servers: map[string]*vServer{},
		net: &vNet{handlers: map[address.Address]func(context.Context, Message) (Message, error){},
			events: make(chan *vCall, 8)},
		pending: map[string]*vPend{}, exchanged: map[string]bool{},
	}
	for name := range init {
		c.names = append(c.names, name)
	}
	sort.Strings(c.names)
	for _, name := range c.names {
		grp := node.Group{}
		for k, r := range init[name] {
			grp[vKey(k)] = c.cz.node(k, r)
		}
		st := store.New(ctx)
		st.SetState(ctx, store.State{Nodes: grp, HostKey: vKey(name)})
		c.servers[name] = &vServer{net: c.net, addr: vAddr(name)}
		if err := c.newGossip(name, st); err != nil {
			return nil, err
		}
	}
	return c, nil
}

func (c *vCluster) views() map[string]vMap {
	res := map[string]vMap{}
	for _, n := range c.names {
		res[n] = c.cz.group(c.stores[n].CopyState().Nodes)
	}
	return res
}

func (c *vCluster) setGated(g bool) {
	c.net.mu.Lock()
	c.net.gated = g
	c.net.mu.Unlock()
}

func vPair(a, b string) string {
	if a > b {
		a, b = b, a
	}
	return a + "|" + b
}

func (c *vCluster) changed() {
	c.exchanged = map[string]bool{}
	for _, p := range c.pending {
		p.stale = true
	}
}

func (c *vCluster) allPairs() bool {
	for i, a := range c.names {
		for _, b := range c.names[i+1:] {
			if !c.exchanged[vPair(a, b)] {
				return false
			}
		}
	}
	return true
}

func (c *vCluster) closeAll() {
	for i, p := range c.pending {
		if p.call != nil {
			select {
			case p.call.cmd <- "drop":
			case <-time.After(5 * time.Second):
			}
		}
		select {
		case <-p.done:
		case <-time.After(5 * time.Second):
		}
		delete(c.pending, i)
	}
}

const vWait = 20 * time.Second

type vOutcome struct {
	res   vResult // first verdict-bearing violation (R == "violation"), else first drift, else ok
	drift *vResult
}

// delivered-record bookkeeping for the supersede check
type vDelivery struct {
	to    string
	nodes vMap
	pre   vMap
}

// vReplay steps fresh real objects through one history.
func vReplay(hist []vStep, stats *vStats, cz vConc) (out vResult) {
	ctx := context.Background()
	out = vResult{R: "ok", Step: -1}
	if len(hist) == 0 || hist[0].A != "init" {
		return vResult{R: "inconclusive", Note: "history does not start with init"}
	}
	c, err := vNewCluster(ctx, hist[0].St, cz)
	if cz > 0 {
		stats.BigVer++
	}
	if err != nil {
		return vResult{R: "inconclusive", Note: "setup: " + err.Error()}
	}
	defer c.closeAll()
	var drift *vResult
	noteDrift := func(step int, kind, exp, act string) {
		if drift == nil {
			drift = &vResult{R: "drift", Kind: kind, Step: step, Exp: exp, Act: act}
		}
	}
	violation := func(step int, kind, sig, exp, act string) vResult {
		return vResult{R: "violation", Kind: kind, Sig: sig, Step: step, Exp: exp, Act: act}
	}
	finish := func() vResult {
		if drift != nil {
			return *drift
		}
		return vResult{R: "ok", Step: -1}
	}
	prev := c.views()
	if fmt.Sprint(vFmtViews(prev)) != vFmtViews(hist[0].St) {
		return vResult{R: "inconclusive", Note: "initial views not installed: " + vFmtViews(prev)}
	}
	inFlight := 0
	for si := 1; si < len(hist); si++ {
		st := hist[si]
		stats.Steps++
		var deliveries []vDelivery
		completed := ""
		isChange := false
		switch st.A {
		case "tick":
			c.gossips[st.I].incrementHostHeartbeat(ctx)
			c.jump(ctx, st.I)
			isChange = true
			stats.Ticks++
		case "state":
			// the owner alters its own state: new state + Heartbeat.Increment (heartbeat.go:
			// "Version is [incremented] every time the process alters its state")
			s := c.stores[st.I]
			host := s.GetHost()
			host.State = node.State(st.S)
			host.Heartbeat = host.Heartbeat.Increment()
			s.SetNode(ctx, host)
			c.jump(ctx, st.I)
			isChange = true
			stats.States++
			if node.State(st.S) == node.StateLeft {
				stats.StatesLeft++
			}
		case "restart":
			// process restart: state reloaded from persistence into a fresh store, then the
			// restart branch of cluster.Open (GetHost / Heartbeat.Restart / SetNode)
			if _, busy := c.pending[st.I]; busy {
				return vResult{R: "inconclusive", Step: si, Note: "restart of a busy initiator"}
			}
			persisted := c.stores[st.I].CopyState()
			ns := store.New(ctx)
			ns.SetState(ctx, persisted)
			if err := c.newGossip(st.I, ns); err != nil {
				return vResult{R: "inconclusive", Step: si, Note: err.Error()}
			}
			host := ns.GetHost()
			host.Heartbeat = host.Heartbeat.Restart()
			ns.SetNode(ctx, host)
			isChange = true
			stats.Restarts++
		case "xchg":
			c.setGated(false)
			c.net.hook = func(to address.Address, req, res Message) {
				if req.variant() == messageVariantAck2 {
					deliveries = append(deliveries, vDelivery{to: st.J, nodes: c.cz.group(req.Nodes), pre: prev[st.J]})
					stats.Ack2++
				} else {
					deliveries = append(deliveries, vDelivery{to: st.I, nodes: c.cz.group(res.Nodes), pre: prev[st.I]})
				}
			}
			if err := c.gossips[st.I].GossipOnceWith(ctx, vAddr(st.J)); err != nil {
				return violation(si, "exchange-error", "C12 exchange returned error", "nil", err.Error())
			}
			c.net.hook = nil
			completed = vPair(st.I, st.J)
			stats.Exchanges++
		case "send":
			c.setGated(true)
			p := &vPend{stage: "sync", peer: st.J, done: make(chan error, 1)}
			g := c.gossips[st.I]
			go func() { p.done <- g.GossipOnceWith(ctx, vAddr(st.J)) }()
			select {
			case ev := <-c.net.events:
				p.call = ev
			case err := <-p.done:
				return vResult{R: "inconclusive", Step: si, Note: fmt.Sprint("exchange ended before sync was sent: ", err)}
			case <-time.After(vWait):
				return vResult{R: "inconclusive", Step: si, Note: "timeout waiting for sync"}
			}
			c.pending[st.I] = p
			inFlight++
			if inFlight > 1 {
				stats.Overlaps++
			}
			if got := c.cz.digests(p.call.req.Digests); !vEqMap(got, st.M.Digs) || len(p.call.req.Nodes) != 0 {
				noteDrift(si, "msg", "sync digs="+vFmt(st.M.Digs), "sync digs="+vFmt(got))
			}
		case "sync", "ack", "ack2", "drop":
			p := c.pending[st.I]
			if p == nil || (st.A != "drop" && p.stage != st.A) {
				noteDrift(si, "control", "pending "+st.A+" message of "+st.I, "none")
				return finish()
			}
			switch st.A {
			case "sync":
				p.call.cmd <- "deliver"
				select {
				case <-p.call.handled:
				case <-time.After(vWait):
					return vResult{R: "inconclusive", Step: si, Note: "timeout in sync handler"}
				}
				p.stage = "ack"
				gd, gn := c.cz.digests(p.call.res.Digests), c.cz.group(p.call.res.Nodes)
				if p.call.err != nil || !vEqMap(gd, st.M.Digs) || !vEqMap(gn, st.M.Nodes) {
					noteDrift(si, "msg", "ack digs="+vFmt(st.M.Digs)+" nodes="+vFmt(st.M.Nodes),
						fmt.Sprintf("ack digs=%s nodes=%s err=%v", vFmt(gd), vFmt(gn), p.call.err))
				}
			case "ack":
				deliveries = append(deliveries, vDelivery{to: st.I, nodes: c.cz.group(p.call.res.Nodes), pre: prev[st.I]})
				p.call.cmd <- "return"
				select {
				case ev := <-c.net.events:
					p.call = ev
					p.stage = "ack2"
					stats.Ack2++
					gn := c.cz.group(ev.req.Nodes)
					if st.M.Type != "ack2" || !vEqMap(gn, st.M.Nodes) {
						noteDrift(si, "msg", st.M.Type+" nodes="+vFmt(st.M.Nodes), "ack2 nodes="+vFmt(gn))
					}
				case err := <-p.done:
					delete(c.pending, st.I)
					inFlight--
					stats.NoAck2++
					if err != nil {
						return violation(si, "exchange-error", "C12 exchange returned error", "nil", err.Error())
					}
					if !p.stale {
						completed = vPair(st.I, p.peer)
					}
					stats.Exchanges++
					if st.M.Type != "none" {
						noteDrift(si, "msg", st.M.Type+" nodes="+vFmt(st.M.Nodes), "no ack2")
					}
				case <-time.After(vWait):
					return vResult{R: "inconclusive", Step: si, Note: "timeout after ack"}
				}
			case "ack2":
				deliveries = append(deliveries, vDelivery{to: p.peer, nodes: c.cz.group(p.call.req.Nodes), pre: prev[p.peer]})
				p.call.cmd <- "deliver"
				select {
				case <-p.call.handled:
				case <-time.After(vWait):
					return vResult{R: "inconclusive", Step: si, Note: "timeout in ack2 handler"}
				}
				p.call.cmd <- "return"
				var err error
				select {
				case err = <-p.done:
				case <-time.After(vWait):
					return vResult{R: "inconclusive", Step: si, Note: "timeout after ack2"}
				}
				delete(c.pending, st.I)
				inFlight--
				if err != nil {
					return violation(si, "exchange-error", "C12 exchange returned error", "nil", err.Error())
				}
				if !p.stale {
					completed = vPair(st.I, p.peer)
				}
				stats.Exchanges++
			case "drop":
				p.call.cmd <- "drop"
				select {
				case <-p.done:
				case <-time.After(vWait):
					return vResult{R: "inconclusive", Step: si, Note: "timeout after drop"}
				}
				delete(c.pending, st.I)
				inFlight--
				stats.Drops++
			}
		default:
			return vResult{R: "inconclusive", Step: si, Note: "unknown action " + st.A}
		}
		if isChange {
			c.changed()
		}
		if completed != "" {
			c.exchanged[completed] = true
		}
		cur := c.views()
		// --- verdict-bearing: C12 clause 1 on consecutive real states
		for _, n := range c.names {
			for k, old := range prev[n] {
				now, ok := cur[n][k]
				if !ok {
					return violation(si, "monotone", "C12 monotone member-forgotten",
						fmt.Sprintf("%s keeps %s", n, k), fmt.Sprintf("%s lost %s (was %+v)", n, k, old))
				}
				if vAdv(old, now) {
					return violation(si, "monotone", "C12 monotone heartbeat-regressed",
						fmt.Sprintf("view[%s][%s] >= (%d,%d)", n, k, old.G, old.V),
						fmt.Sprintf("(%d,%d,s%d) after %s", now.G, now.V, now.S, st.A))
				}
				if now != old && !vAdv(now, old) {
					return violation(si, "stale", "C12 state-overwritten-without-newer-heartbeat",
						fmt.Sprintf("view[%s][%s] = %+v", n, k, old), fmt.Sprintf("%+v after %s", now, st.A))
				}
			}
		}
		// --- verdict-bearing: C12 clause 3 on every record the step delivered
		for _, d := range deliveries {
			for k, r := range d.nodes {
				old, known := d.pre[k]
				if known && r.G > old.G {
					stats.Superseded++
					if cur[d.to][k] != r && !vAdv(cur[d.to][k], r) {
						return violation(si, "supersede", "C12 restart-generation-not-superseding",
							fmt.Sprintf("view[%s][%s] = %+v (delivered, newer generation than %+v)", d.to, k, r, old),
							fmt.Sprintf("%+v", cur[d.to][k]))
					}
				}
			}
		}
		// --- drift: exact post-view and ghost flag as the specification computed them
		matches := true
		for _, n := range c.names {
			if !vEqMap(cur[n], st.St[n]) {
				matches = false
				noteDrift(si, "view", n+"="+vFmt(st.St[n]), n+"="+vFmt(cur[n]))
			}
		}
		all := c.allPairs()
		if all != st.Conv && drift == nil {
			noteDrift(si, "ghost", fmt.Sprint("allpairs=", st.Conv), fmt.Sprint("allpairs=", all))
		}
		// --- verdict-bearing: C12 clause 2
		if all {
			stats.ConvChecks++
			ok := true
			detail := ""
			// window: every discrepancy is "n lacks member k" where the most advanced
			// record of k held anywhere (its owner's included) still has heartbeat (0,0);
			// a member held at different heartbeats or states is never the window
			window := true
			for _, k := range c.names {
				best := cur[k][k]
				for _, n := range c.names {
					if r, has := cur[n][k]; has && vAdv(r, best) {
						best = r
					}
				}
				for _, n := range c.names {
					r, has := cur[n][k]
					switch {
					case !has:
						ok = false
						if best.G != 0 || best.V != 0 {
							window = false
						}
					case r != best:
						ok = false
						window = false
					}
				}
			}
			if !ok {
				detail = vFmtViews(cur)
			}
			zero := window
			if ok {
				stats.ConvHeld++
			} else {
				sig := "C12 converge unexpected"
				if matches && drift == nil && zero {
					// exactly the behaviour of the as-is specification (ZeroDigestWindow): a
					// member whose heartbeat is still (0,0)
					sig = "C12 converge zero-heartbeat-window"
				}
				return violation(si, "converge", sig,
					"identical complete views after all pairs exchanged (last completed "+completed+")", detail)
			}
		}
		prev = cur
	}
	return finish()
}

func TestVerifGossipReplay(t *testing.T) {
	in, out := os.Getenv("VERIF_IN"), os.Getenv("VERIF_OUT")
	if in == "" || out == "" {
		t.Skip("VERIF_IN/VERIF_OUT not set")
	}
	f, err := os.Open(in)
	if err != nil {
		t.Fatal(err)
	}
	defer f.Close()
	type job struct {
		i    int
		line []byte
	}
	jobs := make(chan job, 256)
	results := make(chan vResult, 256)
	var wg sync.WaitGroup
	var smu sync.Mutex
	var total vStats
	seed, _ := strconv.Atoi(os.Getenv("VERIF_SEED"))
	forced := int64(-1)
	if v := os.Getenv("VERIF_BASE"); v != "" {
		if f, err := strconv.ParseUint(v, 10, 32); err == nil {
			forced = int64(f)
		}
	}
	workers := runtime.GOMAXPROCS(0)
	if w, _ := strconv.Atoi(os.Getenv("VERIF_WORKERS")); w > 0 {
		workers = w
	}
	for w := 0; w < workers; w++ {
		wg.Add(1)
		go func() {
			defer wg.Done()
			var local vStats
			for j := range jobs {
				var hist []vStep
				if err := json.Unmarshal(j.line, &hist); err != nil {
					results <- vResult{I: j.i, R: "inconclusive", Note: err.Error()}
					continue
				}
				var res vResult
				// concretisation: forced by VERIF_BASE, else seeded per history
				cz := vConc(vBases[(uint64(seed)*0x9E3779B97F4A7C15+uint64(j.i)*0xBF58476D1CE4E5B9)>>33%uint64(len(vBases))])
				if forced >= 0 {
					cz = vConc(uint32(forced))
				}
				func() {
					defer func() {
						if p := recover(); p != nil {
							res = vResult{R: "violation", Kind: "panic", Sig: "C12 panic", Step: -1, Exp: "no panic", Act: fmt.Sprint(p)}
						}
					}()
					res = vReplay(hist, &local, cz)
				}()
				res.I = j.i
				res.Base = uint32(cz)
				results <- res
			}
			smu.Lock()
			total.add(local)
			smu.Unlock()
		}()
	}
	go func() {
		sc := bufio.NewScanner(f)
		sc.Buffer(make([]byte, 1<<20), 1<<26)
		i := 0
		for sc.Scan() {
			b := append([]byte(nil), sc.Bytes()...)
			if len(b) == 0 {
				continue
			}
			jobs <- job{i: i, line: b}
			i++
		}
		close(jobs)
		wg.Wait()
		close(results)
	}()
	var bad []vResult
	n := 0
	for r := range results {
		n++
		if r.R != "ok" {
			bad = append(bad, r)
		}
	}
	sort.Slice(bad, func(a, b int) bool { return bad[a].I < bad[b].I })
	of, err := os.Create(out)
	if err != nil {
		t.Fatal(err)
	}
	defer of.Close()
	enc := json.NewEncoder(of)
	_ = enc.Encode(map[string]any{"summary": true, "replayed": n, "bad": len(bad), "stats": total})
	for _, r := range bad {
		_ = enc.Encode(r)
	}
}
