//go:build verif

// Binds Gossip.tla's Restart action to the real cluster.Open (C12, DESIGN.md): a node is
// opened, gossips, "crashes" (its storage image taken right after Open is what survives),
// is re-opened from that image through the "existing cluster found in storage" branch,
// and exchanges gossip with a peer that still holds a further-versioned record of its
// previous run. Injected with `go test -overlay`; never part of /repo.
package cluster

import (
	"context"
	"encoding/json"
	"os"
	"testing"
	"time"

	"github.com/synnaxlabs/aspen/internal/cluster/gossip"
	"github.com/synnaxlabs/aspen/internal/cluster/pledge"
	"github.com/synnaxlabs/aspen/internal/node"
	"github.com/synnaxlabs/freighter/mock"
	"github.com/synnaxlabs/x/address"
	"github.com/synnaxlabs/x/kv/memkv"
	"github.com/synnaxlabs/x/version"
)

type vHB struct {
	G int `json:"g"`
	V int `json:"v"`
}

func vhb(h version.Heartbeat) vHB { return vHB{G: int(h.Generation), V: int(h.Version)} }

type vRestartOut struct {
	Round       int    `json:"round"`
	Ticks       int    `json:"ticks"`
	Jump        uint32 `json:"jump"`
	Persisted   vHB    `json:"persisted"`    // host heartbeat in the surviving storage image
	PrevRun     vHB    `json:"prev_run"`     // host heartbeat the previous run reached in memory
	PeerBefore  vHB    `json:"peer_before"`  // peer's record of the node before the restart
	Restarted   vHB    `json:"restarted"`    // host heartbeat right after cluster.Open
	OwnAfter    vHB    `json:"own_after"`    // host heartbeat after one GossipOnce of the new run
	PeerAfter   vHB    `json:"peer_after"`   // peer's record of the node after that exchange
	PeerKnows   bool   `json:"peer_knows"`   // peer still has a record
	NodesLoaded int    `json:"nodes_loaded"` // members known right after re-open
	NodesAfterOpen int `json:"nodes_after_open"`
	NodesPersisted int `json:"nodes_persisted"` // members in the surviving storage image
	Err         string `json:"err,omitempty"`
}

func TestVerifClusterRestart(t *testing.T) {
	out := os.Getenv("VERIF_OUT")
	if out == "" {
		t.Skip("VERIF_OUT not set")
	}
	of, err := os.Create(out)
	if err != nil {
		t.Fatal(err)
	}
	defer of.Close()
	enc := json.NewEncoder(of)
	// jump: versions the previous run had already consumed before the observed ticks
	// (long-running process: version beyond 2^16 / 2^31 when it crashes)
	for round, sc := range []struct {
		ticks int
		jump  uint32
	}{{1, 0}, {3, 0}, {3, 70000}, {2, 1 << 31}} {
		res := vRestartRound(round, sc.ticks, sc.jump)
		_ = enc.Encode(res)
	}
}

func vRestartRound(round, ticks int, jump uint32) (res vRestartOut) {
	res.Round, res.Ticks, res.Jump = round, ticks, jump
	ctx, cancel := context.WithTimeout(context.Background(), 60*time.Second)
	defer cancel()
	fail := func(err error) vRestartOut { res.Err = err.Error(); return res }
	gossipNet := mock.NewNetwork[gossip.Message, gossip.Message]()
	pledgeNet := mock.NewNetwork[pledge.Request, pledge.Response]()
	g1 := gossipNet.UnaryServer("")
	p1 := pledgeNet.UnaryServer(g1.Address)
	// no background gossip: every tick / exchange below is issued by the harness
	const never = time.Hour
	c1, err := Open(ctx, Config{
		HostAddress: g1.Address,
		Pledge:      pledge.Config{Peers: []address.Address{}, TransportClient: pledgeNet.UnaryClient(), TransportServer: p1},
		Gossip:      gossip.Config{TransportClient: gossipNet.UnaryClient(), TransportServer: g1, Interval: never},
	})
	if err != nil {
		return fail(err)
	}
	defer func() { _ = c1.Close() }()
	g2 := gossipNet.UnaryServer("")
	p2 := pledgeNet.UnaryServer(g2.Address)
	kvA := memkv.New()
	defer func() { _ = kvA.Close() }()
	key := []byte("verif-c12-cluster")
	cfg2 := Config{
		HostAddress:          g2.Address,
		Pledge:               pledge.Config{Peers: []address.Address{g1.Address}, TransportClient: pledgeNet.UnaryClient(), TransportServer: p2},
		Gossip:               gossip.Config{TransportClient: gossipNet.UnaryClient(), TransportServer: g2, Interval: never},
		StorageKey:           key,
		Storage:              kvA,
		StorageFlushInterval: never,
	}
	c2, err := Open(ctx, cfg2)
	if err != nil {
		return fail(err)
	}
	hostKey := c2.HostKey()
	res.NodesAfterOpen = len(c2.CopyState().Nodes)
	// the storage image that survives the crash: the state Open flushes synchronously
	// (goFlushStore: FlushSync(CopyState())) encoded with the cluster codec. It is built
	// here rather than read back from kvA because the store notifies its observers from
	// goroutines (GoNotify): a late notification of an earlier change (SetHost) can reach
	// the flush handler registered afterwards and overwrite the stored state with an OLDER
	// one (observed ~10% of runs under load: image = {host only, zero cluster key}). That
	// persistence race is outside C12; see the builder's report.
	img, err := DefaultConfig.Codec.Encode(ctx, c2.CopyState())
	if err != nil {
		_ = c2.Close()
		return fail(err)
	}
	var persisted State
	if err := DefaultConfig.Codec.Decode(ctx, img, &persisted); err != nil {
		_ = c2.Close()
		return fail(err)
	}
	res.Persisted = vhb(persisted.Nodes[hostKey].Heartbeat)
	res.NodesPersisted = len(persisted.Nodes)
	if jump > 0 {
		host := c2.Host()
		host.Heartbeat.Version += jump
		c2.SetNode(ctx, host)
	}
	for i := 0; i < ticks; i++ {
		if err := c2.gossip.GossipOnce(ctx); err != nil {
			_ = c2.Close()
			return fail(err)
		}
	}
	res.PrevRun = vhb(c2.Host().Heartbeat)
	if n, ok := c1.GetNode(hostKey); ok {
		res.PeerBefore = vhb(n.Heartbeat)
	}
	if err := c2.Close(); err != nil {
		return fail(err)
	}
	kvB := memkv.New()
	defer func() { _ = kvB.Close() }()
	if err := kvB.Set(ctx, key, img); err != nil {
		return fail(err)
	}
	cfg2.Storage = kvB
	c2b, err := Open(ctx, cfg2)
	if err != nil {
		return fail(err)
	}
	defer func() { _ = c2b.Close() }()
	res.Restarted = vhb(c2b.Host().Heartbeat)
	res.NodesLoaded = len(c2b.Nodes())
	if err := c2b.gossip.GossipOnce(ctx); err != nil {
		return fail(err)
	}
	res.OwnAfter = vhb(c2b.Host().Heartbeat)
	var n node.Node
	n, res.PeerKnows = c1.GetNode(hostKey)
	res.PeerAfter = vhb(n.Heartbeat)
	return res
}
