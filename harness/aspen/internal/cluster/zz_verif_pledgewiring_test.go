//go:build verif

// C11 binding of Pledge.tla's `view` (the members known to the coordinating node) to the
// real wiring: cluster.newConfig hands pledge a Candidates function. The specification
// sizes a quorum as a majority of ALL members the coordinator knows (whatever their
// health; healthy ones are preferred as jurors) and checks a proposed key against the
// highest key among ALL of them. This test puts members in every state into the store
// newConfig created and compares what Candidates() returns with the store's members.
// Injected with `go test -overlay`; never part of /repo.
package cluster

import (
	"context"
	"encoding/json"
	"os"
	"sort"
	"testing"

	"github.com/synnaxlabs/aspen/internal/node"
	"github.com/synnaxlabs/x/address"
)

func TestVerifPledgeWiring(t *testing.T) {
	out := os.Getenv("VERIF_OUT")
	if out == "" {
		t.Skip("VERIF_OUT not set")
	}
	ctx := context.Background()
	cfg, err := newConfig(ctx, []Config{{HostAddress: "localhost:9999"}})
	res := map[string]any{"ok": false}
	if err != nil {
		res["error"] = err.Error()
	} else {
		st := cfg.Gossip.Store
		states := []node.State{node.StateHealthy, node.StateSuspect, node.StateDead, node.StateHealthy, node.StateSuspect}
		var want []int
		for i, s := range states {
			k := node.Key(i + 1)
			st.SetNode(ctx, node.Node{Key: k, Address: address.Newf("localhost:%d", 9000+i), State: s})
			want = append(want, int(k))
		}
		var got []int
		for k := range cfg.Pledge.Candidates() {
			got = append(got, int(k))
		}
		sort.Ints(got)
		res["want"], res["got"] = want, got
		res["ok"] = len(got) == len(want)
		for i := range want {
			if i >= len(got) || got[i] != want[i] {
				res["ok"] = false
			}
		}
	}
	b, _ := json.Marshal(res)
	if err := os.WriteFile(out, append(b, '\n'), 0o644); err != nil {
		t.Fatal(err)
	}
}
