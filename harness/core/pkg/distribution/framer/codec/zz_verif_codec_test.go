//go:build verif

// C08 conformance harness for the frame wire codec (DESIGN.md section 3, C08).
// Injected into package codec with `go test -overlay`; never part of /repo.
//
//	TestVerifCodecLayout  one implementation test per abstract frame of CodecLayout.tla
//	TestVerifCodecSync    replay of CodecSync.tla behaviours into two real codecs
//	TestVerifCodecDecode  every abstract input of CodecDecode.tla concretised to bytes and
//	                      given to Decode/DecodeStream under recover() with allocation
//	                      accounting, plus seeded byte-level mutants of those inputs
//	TestVerifCodecHuge    the 2^32-1 length class under an address-space limit (own process)
package codec

import (
	"bufio"
	"bytes"
	"context"
	"encoding/binary"
	"encoding/hex"
	"encoding/json"
	"fmt"
	"io"
	"math/rand"
	"os"
	"runtime"
	"runtime/debug"
	"runtime/metrics"
	"sort"
	"strconv"
	"strings"
	"sync"
	"syscall"
	"testing"
	"testing/iotest"

	"github.com/synnaxlabs/synnax/pkg/distribution/channel"
	"github.com/synnaxlabs/synnax/pkg/distribution/framer/frame"
	"github.com/synnaxlabs/x/telem"
)

// ---------------------------------------------------------------- concretisation

type vConc struct {
	name   string
	keys   [4]channel.Key    // abstract key 1..3 -> channel key (strictly increasing)
	unk    channel.Key       // a key no state knows
	fixed  [4]telem.DataType // fixed-size type of abstract key 1..3
	varT   telem.DataType    // variable-length type
	trBase int64             // abstract time i>0 -> trBase + i*trStep ; 0 -> 0
	trStep int64
	alBase uint64 // abstract alignment a>=5 -> alBase + (a-5) ; 0 -> 0
	stream bool   // EncodeStream / DecodeStream(one byte at a time) instead of Encode / Decode
	wide   int    // >0: every variable-length sample carries about this many bytes
}

var vConcs = []vConc{
	{name: "f64", keys: [4]channel.Key{0, 1, 2, 3}, unk: 77,
		fixed: [4]telem.DataType{"", telem.Float64T, telem.Float64T, telem.Float64T}, varT: telem.StringT,
		trBase: 0, trStep: 1, alBase: 5},
	{name: "mixed-hi", keys: [4]channel.Key{0, 65537, 1<<31 + 5, 1<<32 - 1}, unk: 1 << 30,
		fixed: [4]telem.DataType{"", telem.Uint8T, telem.Float32T, telem.UUIDT}, varT: telem.BytesT,
		trBase: 1_700_000_000_000_000_000, trStep: 1_000_000_000, alBase: 7<<32 | 1000, stream: true},
	{name: "edge", keys: [4]channel.Key{0, 255, 256, 1 << 24}, unk: 0,
		fixed: [4]telem.DataType{"", telem.Int64T, telem.Uint16T, telem.Int32T}, varT: telem.StringT,
		trBase: 1<<63 - 1000, trStep: 100, alBase: 0xFFFFFFFF<<32 | 0xFFFFFFF0},
	{name: "u8", keys: [4]channel.Key{0, 10, 20, 30}, unk: 15,
		fixed: [4]telem.DataType{"", telem.Uint8T, telem.Uint8T, telem.Uint8T}, varT: telem.BytesT,
		trBase: 10, trStep: 10, alBase: 1<<32 | 0, stream: true},
}

// vWide is used for a fraction of the cases only: variable-length samples of ~40 KB, so
// that series payloads of 40..250 KB go through the codec (buffers that grow in chunks)
var vWide = vConc{name: "wide", keys: [4]channel.Key{0, 7, 8, 9}, unk: 1,
	fixed: [4]telem.DataType{"", telem.Float64T, telem.Uint8T, telem.Int16T}, varT: telem.BytesT,
	trBase: 5, trStep: 7, alBase: 3<<32 | 17, wide: 40000}

func (c *vConc) ts(i int) telem.TimeStamp {
	if i == 0 {
		return 0
	}
	return telem.TimeStamp(c.trBase + int64(i)*c.trStep)
}

func (c *vConc) al(a int) telem.Alignment {
	if a == 0 {
		return 0
	}
	return telem.Alignment(c.alBase + uint64(a-5))
}

func vDensity(dt telem.DataType) int { return int(dt.Density()) }

// vSeriesData builds l samples whose bytes identify (raw index, position).
func vSeriesData(dt telem.DataType, raw, l int) []byte { return vSeriesDataW(dt, raw, l, 0) }

func vSeriesDataW(dt telem.DataType, raw, l, wide int) []byte {
	if dt.IsVariable() {
		out := []byte{}
		for p := 0; p < l; p++ {
			n := (raw+2*p)%4 + wide
			if raw >= 4 {
				n++ // frames of many series: no empty payloads, so that every series stays distinguishable
			}
			var pre [4]byte
			binary.LittleEndian.PutUint32(pre[:], uint32(n))
			out = append(out, pre[:]...)
			for j := 0; j < n; j++ {
				out = append(out, byte('a'+raw*2+p))
			}
		}
		return out
	}
	d := vDensity(dt)
	out := make([]byte, 0, d*l)
	for p := 0; p < l; p++ {
		for j := 0; j < d; j++ {
			out = append(out, byte(1+raw*37+p*11+j*3))
		}
	}
	return out
}

// vSampleCount counts samples independently of telem.Series.Len.
func vSampleCount(dt telem.DataType, data []byte) uint32 {
	if !dt.IsVariable() {
		return uint32(len(data) / vDensity(dt))
	}
	var n uint32
	off := 0
	for off+4 <= len(data) {
		l := int(binary.LittleEndian.Uint32(data[off:]))
		if off+4+l > len(data) {
			break
		}
		off += 4 + l
		n++
	}
	return n
}

// ---------------------------------------------------------------- common plumbing

type vRow map[string]any

type vOut struct {
	mu sync.Mutex
	w  *bufio.Writer
	f  *os.File
}

func vOpenOut(t *testing.T) *vOut {
	f, err := os.Create(os.Getenv("VERIF_OUT"))
	if err != nil {
		t.Fatalf("VERIF_OUT: %v", err)
	}
	return &vOut{w: bufio.NewWriterSize(f, 1<<20), f: f}
}

func (o *vOut) row(r vRow) {
	b, _ := json.Marshal(r)
	o.mu.Lock()
	o.w.Write(b)
	o.w.WriteByte('\n')
	// rows are rare (findings, summary): on disk at once, so that a process death in a later
	// case does not take them along
	o.w.Flush()
	o.mu.Unlock()
}

// vMarks is the "what is running right now" board of a parallel stage: one fixed-width slot
// per worker in VERIF_OUT.cur, overwritten before every case. When the process dies (runaway
// allocation under the address-space limit, fatal runtime error) the driver finds the cases
// that were in flight there and re-runs each alone.
type vMarks struct{ f *os.File }

const vMarkWidth = 128

func vOpenMarks() *vMarks {
	f, err := os.Create(os.Getenv("VERIF_OUT") + ".cur")
	if err != nil {
		return &vMarks{}
	}
	return &vMarks{f: f}
}

func (m *vMarks) set(worker int, what string) {
	if m.f == nil {
		return
	}
	var buf [vMarkWidth]byte
	for i := range buf {
		buf[i] = ' '
	}
	copy(buf[:vMarkWidth-1], what)
	buf[vMarkWidth-1] = '\n'
	m.f.WriteAt(buf[:], int64(worker)*vMarkWidth)
}

// vStageLimits: a soft heap limit plus a hard address-space limit, so that a decoder that
// runs away on a well-formed message kills this test process at once instead of the machine.
func vStageLimits() {
	debug.SetMemoryLimit(2 << 30)
	_ = vSetAddressLimit(uint64(vEnvInt("VERIF_AS_GIB", 8)) << 30)
}

// ---------------------------------------------------------------- fragmented readers

// vChunkModes are the ways a message is handed to DecodeStream: an io.Reader may return
// fewer bytes than asked for (a fragmented WebSocket message does), and the decoded frame
// must not depend on where the fragments end.
var vChunkModes = []string{"one", "c7", "c4096", "fields", "midfield", "hdr3", "hdr5+1"}

type vCutReader struct {
	b    []byte
	cuts []int // ascending offsets at which a Read call ends
	p    int
	ci   int // first cut not yet passed
}

func (r *vCutReader) Read(dst []byte) (int, error) {
	if r.p >= len(r.b) {
		return 0, io.EOF
	}
	for r.ci < len(r.cuts) && r.cuts[r.ci] <= r.p {
		r.ci++
	}
	end := len(r.b)
	if r.ci < len(r.cuts) && r.cuts[r.ci] < end {
		end = r.cuts[r.ci]
	}
	n := copy(dst, r.b[r.p:end])
	r.p += n
	return n, nil
}

// vFieldBounds returns the offsets at which the fields of a well-formed message end, derived
// from its flag byte and the data lengths of its series (specification layout).
func vFieldBounds(enc []byte, dataLens []int) []int {
	if len(enc) < 5 {
		return nil
	}
	fl := enc[0]
	allP, trZ, eqTR, eqL, eqA, alZ := fl&1 != 0, fl&2 != 0, fl&4 != 0, fl&8 != 0, fl&16 != 0, fl&32 != 0
	b := []int{1, 5}
	p := 5
	add := func(n int) {
		if n > 0 {
			p += n
			b = append(b, p)
		}
	}
	if eqL {
		add(4)
	}
	if eqTR && !trZ {
		add(16)
	}
	if eqA && !alZ {
		add(8)
	}
	for _, dl := range dataLens {
		if !allP {
			add(4)
		}
		if !eqL {
			add(4)
		}
		add(dl)
		if !eqTR {
			add(16)
		}
		if !eqA {
			add(8)
		}
	}
	return b
}

// vChunked wraps bytes in a reader of the given mode. bounds = field boundaries (may be nil).
func vChunked(mode string, b []byte, bounds []int) io.Reader {
	every := func(k int) []int {
		var c []int
		for x := k; x < len(b); x += k {
			c = append(c, x)
		}
		return c
	}
	switch mode {
	case "one":
		return iotest.OneByteReader(bytes.NewReader(b))
	case "c7":
		return &vCutReader{b: b, cuts: every(7)}
	case "c4096":
		return &vCutReader{b: b, cuts: every(4096)}
	case "fields": // fragments end exactly at field boundaries
		return &vCutReader{b: b, cuts: bounds}
	case "midfield": // every field (header fields, series data, trailers) is split in two
		var c []int
		prev := 0
		for _, x := range bounds {
			if x-prev >= 2 {
				c = append(c, prev+(x-prev)/2)
			}
			prev = x
		}
		return &vCutReader{b: b, cuts: c}
	case "hdr3": // inside the sequence number
		return &vCutReader{b: b, cuts: []int{3}}
	default: // "hdr5+1": right after the fixed header and one byte into what follows
		return &vCutReader{b: b, cuts: []int{5, 6}}
	}
}

func vModeFor(salt int, id string) string {
	h := salt
	for _, ch := range id {
		h = (h*31 + int(ch)) & 0xFFFFFF
	}
	return vChunkModes[h%len(vChunkModes)]
}

func vFramesDiffer(a, b frame.Frame) string {
	ak, as, bk, bs := a.KeysSlice(), a.SeriesSlice(), b.KeysSlice(), b.SeriesSlice()
	if len(ak) != len(bk) {
		return fmt.Sprintf("%d series vs %d", len(bk), len(ak))
	}
	for i := range ak {
		x, y := as[i], bs[i]
		if ak[i] != bk[i] || x.DataType != y.DataType || x.Alignment != y.Alignment || x.TimeRange != y.TimeRange || !bytes.Equal(x.Data, y.Data) {
			return fmt.Sprintf("series %d: key %d al %d tr [%d,%d) data %x vs key %d al %d tr [%d,%d) data %x", i,
				bk[i], y.Alignment, y.TimeRange.Start, y.TimeRange.End, vHead(y.Data), ak[i], x.Alignment, x.TimeRange.Start, x.TimeRange.End, vHead(x.Data))
		}
	}
	return ""
}

func vHead(b []byte) []byte {
	if len(b) > 24 {
		return b[:24]
	}
	return b
}

func (o *vOut) flush() { o.mu.Lock(); o.w.Flush(); o.mu.Unlock() }
func (o *vOut) close() { o.flush(); o.f.Close() }

func vLines(t *testing.T) [][]byte {
	f, err := os.Open(os.Getenv("VERIF_IN"))
	if err != nil {
		t.Fatalf("VERIF_IN: %v", err)
	}
	defer f.Close()
	sc := bufio.NewScanner(f)
	sc.Buffer(make([]byte, 1<<20), 1<<26)
	var out [][]byte
	for sc.Scan() {
		b := bytes.TrimSpace(sc.Bytes())
		if len(b) == 0 {
			continue
		}
		out = append(out, append([]byte(nil), b...))
	}
	return out
}

func vEnvInt(name string, def int) int {
	if v, err := strconv.Atoi(os.Getenv(name)); err == nil {
		return v
	}
	return def
}

func vSeed() int64 { return int64(vEnvInt("VERIF_SEED", 1)) }

// ---------------------------------------------------------------- property-level comparison

type vCanon struct {
	dt    telem.DataType
	align uint64
	ts    int64
	te    int64
	data  []byte
	upper uint64
}

func vUpper(a uint64, n uint32) uint64 {
	return (a &^ 0xFFFFFFFF) | uint64(uint32(a)+n)
}

// vCanonical brings a list of (key, series) to the form the property compares: per key,
// series in alignment order (ties in given order) with every alignment-contiguous run
// merged (first alignment, hull of the time ranges, concatenated samples).
func vCanonical(keys []channel.Key, series []telem.Series) map[channel.Key][]vCanon {
	per := map[channel.Key][]vCanon{}
	for i, k := range keys {
		s := series[i]
		n := vSampleCount(s.DataType, s.Data)
		per[k] = append(per[k], vCanon{dt: s.DataType, align: uint64(s.Alignment), ts: int64(s.TimeRange.Start),
			te: int64(s.TimeRange.End), data: s.Data, upper: vUpper(uint64(s.Alignment), n)})
	}
	for k, l := range per {
		sort.SliceStable(l, func(i, j int) bool { return l[i].align < l[j].align })
		var out []vCanon
		for _, s := range l {
			if n := len(out); n > 0 && out[n-1].upper == s.align && out[n-1].dt == s.dt {
				m := &out[n-1]
				m.data = append(append([]byte(nil), m.data...), s.data...)
				if s.ts < m.ts {
					m.ts = s.ts
				}
				if s.te > m.te {
					m.te = s.te
				}
				m.upper = s.upper
				continue
			}
			out = append(out, s)
		}
		per[k] = out
	}
	return per
}

func vCanonDiff(a, b map[channel.Key][]vCanon) string {
	for k, la := range a {
		lb := b[k]
		if len(la) != len(lb) {
			return fmt.Sprintf("key %d: %d series (merged) expected, %d decoded", k, len(la), len(lb))
		}
		for i := range la {
			x, y := la[i], lb[i]
			switch {
			case x.dt != y.dt:
				return fmt.Sprintf("key %d series %d: data type %s != %s", k, i, x.dt, y.dt)
			case x.align != y.align:
				return fmt.Sprintf("key %d series %d: alignment %d != %d", k, i, x.align, y.align)
			case x.ts != y.ts || x.te != y.te:
				return fmt.Sprintf("key %d series %d: time range [%d,%d) != [%d,%d)", k, i, x.ts, x.te, y.ts, y.te)
			case !bytes.Equal(x.data, y.data):
				return fmt.Sprintf("key %d series %d: samples %x != %x", k, i, x.data, y.data)
			}
		}
	}
	for k, lb := range b {
		if _, ok := a[k]; !ok && len(lb) > 0 {
			return fmt.Sprintf("key %d: decoded but never encoded", k)
		}
	}
	return ""
}

// ---------------------------------------------------------------- CodecLayout

// vLDec is one expected decoded series, on the wire as [k, a, ts, te, [raw indices]].
type vLDec struct {
	K, A, Ts, Te int
	Src          []int
}

func (d *vLDec) UnmarshalJSON(b []byte) error {
	var raw []json.RawMessage
	if err := json.Unmarshal(b, &raw); err != nil {
		return err
	}
	if len(raw) != 5 {
		return fmt.Errorf("expected series needs 5 fields, has %d", len(raw))
	}
	for i, dst := range []*int{&d.K, &d.A, &d.Ts, &d.Te} {
		if err := json.Unmarshal(raw[i], dst); err != nil {
			return err
		}
	}
	return json.Unmarshal(raw[4], &d.Src)
}

type vLExp struct {
	F int     `json:"f"`
	M int     `json:"m"`
	D []vLDec `json:"d"`
}
type vLFrame struct {
	S [][]int          `json:"s"` // k, l, ts, te, a
	E map[string]vLExp `json:"e"`
}

type vLCfg struct {
	keys  []int
	vars  map[int]bool
	merge bool
}

var vLCfgs = map[string]vLCfg{
	"k3f": {keys: []int{1, 2, 3}, vars: map[int]bool{}, merge: true},
	"k3v": {keys: []int{1, 2, 3}, vars: map[int]bool{2: true}, merge: true},
	"k13": {keys: []int{1, 3}, vars: map[int]bool{}, merge: true},
	"k3n": {keys: []int{1, 2, 3}, vars: map[int]bool{}, merge: false},
	"k2w": {keys: []int{1, 2}, vars: map[int]bool{1: true, 2: true}, merge: true},
	"k0":  {keys: []int{}, vars: map[int]bool{}, merge: true},
}

func (c vLCfg) dt(conc *vConc, k int) telem.DataType {
	if c.vars[k] {
		return conc.varT
	}
	return conc.fixed[k]
}

type vCodecPair struct{ enc, dec *Codec }

func vNewPair(cfg vLCfg, conc *vConc) vCodecPair {
	mk := func(rev bool) *Codec {
		ks := make(channel.Keys, 0, len(cfg.keys))
		dts := make([]telem.DataType, 0, len(cfg.keys))
		for i := range cfg.keys {
			k := cfg.keys[i]
			if rev {
				k = cfg.keys[len(cfg.keys)-1-i]
			}
			ks = append(ks, conc.keys[k])
			dts = append(dts, cfg.dt(conc, k))
		}
		var opts []Option
		if !cfg.merge {
			opts = append(opts, DisableAlignmentCompression())
		}
		return NewStatic(ks, dts, opts...)
	}
	// the two sides are handed the keys in different orders; which side gets the sorted
	// order alternates with the concretisation
	encRev := conc.stream
	return vCodecPair{enc: mk(encRev), dec: mk(!encRev)}
}

type vLStats struct {
	cases, merged2, merged3, wide int
	many, ties, instant           int // cases with >= 13 series / with equal (key, alignment) left apart / with a [t,t) range
	flags                         [64]int
	chunk                         map[string]int // streaming decodes per reader mode
}

// vLayoutCase runs one (frame, configuration, concretisation). kind: "" ok, "violation"
// (round trip differs beyond key order / merging, error, panic), "drift" (flag byte, size or
// merge choice differs from the specification while the round trip still holds).
func vLayoutCase(fr vLFrame, cfgName string, conc *vConc, pair vCodecPair, st *vLStats, mode string) (kind, what string) {
	defer func() {
		if r := recover(); r != nil {
			kind, what = "violation", fmt.Sprintf("panic: %v", r)
		}
	}()
	cfg := vLCfgs[cfgName]
	exp := fr.E[cfgName]
	inState := map[int]bool{}
	for _, k := range cfg.keys {
		inState[k] = true
	}
	keys := make([]channel.Key, len(fr.S))
	series := make([]telem.Series, len(fr.S))
	var keptK []channel.Key
	var keptS []telem.Series
	for i, s := range fr.S {
		k, l := s[0], s[1]
		dt := cfg.dt(conc, k)
		if !inState[k] {
			dt = conc.fixed[k]
		}
		keys[i] = conc.keys[k]
		series[i] = telem.Series{DataType: dt, Data: vSeriesDataW(dt, i, l, conc.wide),
			TimeRange: telem.TimeRange{Start: conc.ts(s[2]), End: conc.ts(s[3])}, Alignment: conc.al(s[4])}
		if inState[k] {
			keptK = append(keptK, keys[i])
			keptS = append(keptS, series[i])
		}
	}
	src := frame.NewMulti(keys, series)
	ctx := context.Background()
	var enc []byte
	var err error
	if conc.stream {
		var buf bytes.Buffer
		err = pair.enc.EncodeStream(ctx, &buf, src)
		enc = buf.Bytes()
	} else {
		enc, err = pair.enc.Encode(ctx, src)
	}
	if err != nil {
		return "violation", "Encode of a valid frame failed: " + err.Error()
	}
	dec, err := pair.dec.Decode(enc)
	if err != nil {
		return "violation", fmt.Sprintf("Decode(Encode(frame)) failed: %v (wire %x)", err, vHead(enc))
	}
	// the same bytes through DecodeStream and a reader that returns short reads (mode):
	// the frame must not depend on how the message is fragmented
	var dls []int
	for _, s := range dec.SeriesSlice() {
		dls = append(dls, len(s.Data))
	}
	sdec, serr := pair.dec.DecodeStream(vChunked(mode, enc, vFieldBounds(enc, dls)))
	st.chunk[mode]++
	if serr != nil {
		return "violation", fmt.Sprintf("streaming decode (reader %s) of a well-formed message failed: %v; Decode of the same bytes succeeds (wire %x)", mode, serr, vHead(enc))
	}
	if d := vFramesDiffer(dec, sdec); d != "" {
		return "violation", fmt.Sprintf("streaming decode (reader %s) differs from Decode of the same bytes: %s (wire %x)", mode, d, vHead(enc))
	}
	dk := dec.KeysSlice()
	ds := dec.SeriesSlice()
	// the property: equal up to key order and merging of alignment-contiguous series
	if d := vCanonDiff(vCanonical(keptK, keptS), vCanonical(dk, ds)); d != "" {
		return "violation", fmt.Sprintf("round trip differs: %s (wire %x)", d, enc)
	}
	for i, s := range ds {
		if want := cfg.dt(conc, vAbsKey(conc, dk[i])); s.DataType != want {
			return "violation", fmt.Sprintf("decoded series %d has data type %s, channel has %s", i, s.DataType, want)
		}
	}
	// the specification: flag byte, size, exact series list
	st.cases++
	if len(keptS) >= 13 {
		st.many++
	}
	tie, inst := false, false
	for i := 1; i < len(exp.D); i++ {
		if exp.D[i].K == exp.D[i-1].K && exp.D[i].A == exp.D[i-1].A {
			tie = true
		}
	}
	for _, x := range fr.S {
		if x[2] == x[3] && x[2] != 0 {
			inst = true
		}
	}
	if tie {
		st.ties++
	}
	if inst {
		st.instant++
	}
	if len(enc) < 5 {
		return "drift", fmt.Sprintf("wire too short: %x", enc)
	}
	st.flags[enc[0]&63]++
	if int(enc[0]) != exp.F {
		return "drift", fmt.Sprintf("flag byte %06b, specification %06b", enc[0], exp.F)
	}
	if sq := binary.LittleEndian.Uint32(enc[1:5]); sq != 1 {
		return "drift", fmt.Sprintf("seq %d on the wire, specification 1", sq)
	}
	dataBytes := 0
	for _, d := range exp.D {
		for _, r := range d.Src {
			dataBytes += len(series[r-1].Data)
		}
		if len(d.Src) == 2 {
			st.merged2++
		} else if len(d.Src) >= 3 {
			st.merged3++
		}
	}
	if len(enc) != exp.M+dataBytes {
		return "drift", fmt.Sprintf("wire has %d bytes, specification %d+%d", len(enc), exp.M, dataBytes)
	}
	if len(ds) != len(exp.D) {
		return "drift", fmt.Sprintf("%d series decoded, specification %d", len(ds), len(exp.D))
	}
	for i, d := range exp.D {
		var data []byte
		for _, r := range d.Src {
			data = append(data, series[r-1].Data...)
		}
		s := ds[i]
		if dk[i] != conc.keys[d.K] || s.Alignment != conc.al(d.A) || s.TimeRange.Start != conc.ts(d.Ts) ||
			s.TimeRange.End != conc.ts(d.Te) || !bytes.Equal(s.Data, data) {
			return "drift", fmt.Sprintf("decoded series %d = key %d al %d tr %v data %x; specification key %d al %d tr [%d,%d) data %x",
				i, dk[i], s.Alignment, s.TimeRange, s.Data, conc.keys[d.K], conc.al(d.A), conc.ts(d.Ts), conc.ts(d.Te), data)
		}
	}
	return "", ""
}

func vAbsKey(conc *vConc, k channel.Key) int {
	for i := 1; i <= 3; i++ {
		if conc.keys[i] == k {
			return i
		}
	}
	return 0
}

func TestVerifCodecLayout(t *testing.T) {
	lines := vLines(t)
	out := vOpenOut(t)
	defer out.close()
	nconc := vEnvInt("VERIF_NCONC", 2)
	if nconc > len(vConcs) {
		nconc = len(vConcs)
	}
	only := os.Getenv("VERIF_ONLY") // "perm/cfg/conc" for replays
	workers := runtime.GOMAXPROCS(0)
	if workers > 8 {
		workers = 8
	}
	var wg sync.WaitGroup
	stats := make([]vLStats, workers)
	for w := range stats {
		stats[w].chunk = map[string]int{}
	}
	bad := make([]int, workers)
	marks := vOpenMarks()
	vStageLimits()
	for w := 0; w < workers; w++ {
		wg.Add(1)
		go func(w int) {
			defer wg.Done()
			pairs := map[string]vCodecPair{}
			for i := w; i < len(lines); i += workers {
				var ln map[string]vLFrame
				if err := json.Unmarshal(lines[i], &ln); err != nil {
					out.row(vRow{"i": i, "r": "inconclusive", "what": "bad input line: " + err.Error()})
					continue
				}
				seen := map[string]bool{}
				perms := make([]string, 0, len(ln))
				for p := range ln {
					perms = append(perms, p)
				}
				sort.Strings(perms)
				for _, p := range perms {
					fr := ln[p]
					sig := fmt.Sprint(fr.S)
					if seen[sig] {
						continue
					}
					seen[sig] = true
					for cfgName := range fr.E {
						for ci := 0; ci <= nconc; ci++ {
							// rotate concretisations over lines so that all are used even with nconc small
							conc := &vConcs[(ci+i)%len(vConcs)]
							if ci == nconc {
								// one line in eight also runs with ~40 KB samples on the variable-length keys
								if i%8 != 0 || len(vLCfgs[cfgName].vars) == 0 {
									continue
								}
								conc = &vWide
							}
							id := p + "/" + cfgName + "/" + conc.name
							if only != "" && only != id {
								continue
							}
							if conc.wide > 0 {
								stats[w].wide++
							}
							pk := cfgName + "/" + conc.name
							pair, ok := pairs[pk]
							if !ok {
								pair = vNewPair(vLCfgs[cfgName], conc)
								pairs[pk] = pair
							}
							mode := vModeFor(i, id)
							marks.set(w, fmt.Sprintf("%d %s %s", i, id, mode))
							kind, what := vLayoutCase(fr, cfgName, conc, pair, &stats[w], mode)
							if kind != "" {
								// a failed case may leave the reused codecs in an odd state
								delete(pairs, pk)
								if bad[w] < 50 {
									out.row(vRow{"i": i, "r": kind, "id": id, "what": what, "frame": fr.S})
								}
								bad[w]++
							}
						}
					}
				}
			}
		}(w)
	}
	wg.Wait()
	tot := vLStats{chunk: map[string]int{}}
	nbad := 0
	for w := range stats {
		for m, n := range stats[w].chunk {
			tot.chunk[m] += n
		}
		tot.cases += stats[w].cases
		tot.merged2 += stats[w].merged2
		tot.merged3 += stats[w].merged3
		tot.wide += stats[w].wide
		tot.many += stats[w].many
		tot.ties += stats[w].ties
		tot.instant += stats[w].instant
		for i := range tot.flags {
			tot.flags[i] += stats[w].flags[i]
		}
		nbad += bad[w]
	}
	nf := 0
	for _, c := range tot.flags {
		if c > 0 {
			nf++
		}
	}
	out.row(vRow{"summary": true, "lines": len(lines), "cases": tot.cases, "bad": nbad, "flag_bytes_seen": nf,
		"merged2": tot.merged2, "merged3": tot.merged3, "wide_payload_cases": tot.wide, "stream_reader_modes": tot.chunk,
		"many_series_cases": tot.many, "tie_cases": tot.ties, "instant_range_cases": tot.instant})
}

// ---------------------------------------------------------------- CodecSync

type vSPost struct {
	Es int `json:"es"`
	Eq int `json:"eq"`
	Ds int `json:"ds"`
	Dq int `json:"dq"`
}
type vSStep struct {
	A       string `json:"a"`
	Side    string `json:"side"`
	Ks      []int  `json:"ks"`
	Present []int  `json:"present"`
	Seq     int    `json:"seq"`
	Keys    []int  `json:"keys"`
	Kind    string `json:"kind"`
	Used    []int  `json:"used"`
	Post    vSPost `json:"post"`
}

func vSyncState(conc *vConc, ks []int) (channel.Keys, map[channel.Key]telem.DataType, []telem.DataType) {
	keys := make(channel.Keys, 0, len(ks))
	m := map[channel.Key]telem.DataType{}
	var dts []telem.DataType
	for i := len(ks) - 1; i >= 0; i-- { // unsorted on purpose
		k := ks[i]
		dt := conc.fixed[k]
		if k == 2 {
			dt = conc.varT
		}
		keys = append(keys, conc.keys[k])
		m[conc.keys[k]] = dt
		dts = append(dts, dt)
	}
	return keys, m, dts
}

// vSyncReplay steps two real codecs through one behaviour of CodecSync.tla.
// vSyncTR is the time range class c (0 zero, 1/2 proper ranges, 3 instant non-zero, 4 Start = 0 < End).
func vSyncTR(conc *vConc, c int) telem.TimeRange {
	p := [][2]int{{0, 0}, {2, 3}, {1, 4}, {2, 2}, {0, 3}}[c%5]
	return telem.TimeRange{Start: conc.ts(p[0]), End: conc.ts(p[1])}
}

// copies > 1: every frame carries that many series per key, interleaved key by key, all
// series of a key at the same alignment and non-empty (so they are neither merged nor
// ordered by anything but their position in the frame).
func vSyncReplay(hist []vSStep, conc *vConc, static bool, copies int) (step int, kind, what string) {
	step = -1
	// a disagreement about what the specification pins beyond the property (seq numbers,
	// laziness) is remembered and the replay goes on: what the decoder finally returns for
	// the frames decides whether the property itself is contradicted
	driftStep, drift := -1, ""
	note := func(i int, s string) {
		if drift == "" {
			driftStep, drift = i, s
		}
	}
	defer func() {
		if r := recover(); r != nil {
			kind, what = "violation", fmt.Sprintf("panic: %v", r)
		} else if kind == "" && drift != "" {
			step, kind, what = driftStep, "drift", drift
		}
	}()
	codecs := map[string]*Codec{}
	type sent struct {
		wire []byte
		keys []channel.Key
		ser  []telem.Series
	}
	var wire []sent
	ctx := context.Background()
	nframe := 0
	for i, st := range hist {
		step = i
		switch st.A {
		case "upd":
			keys, m, dts := vSyncState(conc, st.Ks)
			if c, ok := codecs[st.Side]; !ok {
				if static {
					codecs[st.Side] = NewStatic(keys, dts)
				} else {
					c = NewDynamic(nil)
					c.update(keys, m)
					codecs[st.Side] = c
				}
			} else {
				c.update(keys, m)
			}
		case "enc":
			c := codecs["enc"]
			var keys []channel.Key
			var ser []telem.Series
			var wantK []channel.Key
			var wantS []telem.Series
			inKs := map[int]bool{}
			for _, k := range st.Ks {
				inKs[k] = true
			}
			for r := 0; r < copies; r++ {
				for j := len(st.Present) - 1; j >= 0; j-- {
					k := st.Present[j]
					dt := conc.fixed[k]
					if k == 2 {
						dt = conc.varT
					}
					// time range classes: equal across the series of every second frame, distinct otherwise
					trc := nframe
					if nframe%2 == 1 || copies > 1 {
						trc = k + nframe + r
					}
					s := telem.Series{DataType: dt, Data: vSeriesDataW(dt, nframe%3+4*r, 1+(k+nframe)%2, conc.wide),
						TimeRange: vSyncTR(conc, trc), Alignment: conc.al(5 + (k+nframe)%3)}
					if copies > 1 && r%3 == 2 {
						s.Alignment = 0
					}
					keys = append(keys, conc.keys[k])
					ser = append(ser, s)
					if inKs[k] {
						wantK = append(wantK, conc.keys[k])
						wantS = append(wantS, s)
					}
				}
			}
			nframe++
			b, err := c.Encode(ctx, frame.NewMulti(keys, ser))
			if err != nil {
				return i, "violation", "Encode failed: " + err.Error()
			}
			if len(b) < 5 || int(binary.LittleEndian.Uint32(b[1:5])) != st.Seq {
				note(i, fmt.Sprintf("frame tagged with seq %x, specification %d", b[:min(5, len(b))], st.Seq))
			}
			wire = append(wire, sent{wire: b, keys: wantK, ser: wantS})
		case "dec":
			c := codecs["dec"]
			f := wire[0]
			wire = wire[1:]
			var fr frame.Frame
			var err error
			if conc.stream || copies > 1 {
				fr, err = c.DecodeStream(vChunked(vChunkModes[(i+nframe+len(hist))%3], f.wire, nil)) // one, c7, c4096
			} else {
				fr, err = c.Decode(f.wire)
			}
			same := ""
			if err == nil {
				same = vCanonDiff(vCanonical(f.keys, f.ser), vCanonical(fr.KeysSlice(), fr.SeriesSlice()))
			}
			switch {
			case st.Kind == "frame" && err != nil:
				return i, "violation", fmt.Sprintf("decoder was given update %d but Decode failed: %v", st.Seq, err)
			case err == nil && same != "":
				return i, "violation", fmt.Sprintf("frame with seq %d decoded to a different frame (spec: %s): %s", st.Seq, st.Kind, same)
			case st.Kind == "error" && err == nil:
				note(i, "decoded a frame the specification expects to be refused")
			}
		}
		for side, want := range map[string][2]int{"enc": {st.Post.Es, st.Post.Eq}, "dec": {st.Post.Ds, st.Post.Dq}} {
			c, ok := codecs[side]
			gs, gq, gn := 0, 0, 0
			if ok {
				gs, gq, gn = int(c.mu.seqNum), len(c.mu.updates), len(c.mu.states)
			}
			if gs != want[0] || gq != want[1] || gn != want[0] {
				note(i, fmt.Sprintf("%s codec seqNum=%d states=%d queued=%d, specification seqNum=%d queued=%d",
					side, gs, gn, gq, want[0], want[1]))
			}
		}
	}
	return -1, "", ""
}

func TestVerifCodecSync(t *testing.T) {
	lines := vLines(t)
	out := vOpenOut(t)
	defer out.close()
	workers := runtime.GOMAXPROCS(0)
	if workers > 8 {
		workers = 8
	}
	var wg sync.WaitGroup
	type cnt struct{ replayed, bad, decFrame, decErr, decAhead, many int }
	cs := make([]cnt, workers)
	marks := vOpenMarks()
	vStageLimits()
	for w := 0; w < workers; w++ {
		wg.Add(1)
		go func(w int) {
			defer wg.Done()
			for i := w; i < len(lines); i += workers {
				var hist []vSStep
				if err := json.Unmarshal(lines[i], &hist); err != nil {
					out.row(vRow{"i": i, "r": "inconclusive", "what": err.Error()})
					continue
				}
				conc := &vConcs[i%len(vConcs)]
				if i%50 == 7 {
					conc = &vWide
				}
				copies := 1
				if i%4 == 1 && conc.wide == 0 {
					copies = 7 // 14..21 series per frame
					cs[w].many++
				}
				marks.set(w, fmt.Sprintf("%d", i))
				step, kind, what := vSyncReplay(hist, conc, i%3 == 0, copies)
				cs[w].replayed++
				for _, st := range hist {
					if st.A == "dec" && st.Kind == "frame" {
						cs[w].decFrame++
						if st.Seq < st.Post.Ds {
							cs[w].decAhead++
						}
					} else if st.A == "dec" {
						cs[w].decErr++
					}
				}
				if kind != "" {
					if cs[w].bad < 50 {
						out.row(vRow{"i": i, "r": kind, "step": step, "what": what, "conc": conc.name})
					}
					cs[w].bad++
				}
			}
		}(w)
	}
	wg.Wait()
	tot := cnt{}
	for _, c := range cs {
		tot.replayed += c.replayed
		tot.bad += c.bad
		tot.decFrame += c.decFrame
		tot.decErr += c.decErr
		tot.decAhead += c.decAhead
		tot.many += c.many
	}
	out.row(vRow{"summary": true, "replayed": tot.replayed, "bad": tot.bad, "dec_frame": tot.decFrame,
		"dec_error": tot.decErr, "dec_with_older_state": tot.decAhead, "many_series_histories": tot.many})
}

// ---------------------------------------------------------------- CodecDecode

type vTok struct {
	T   string `json:"t"`
	C   string `json:"c"`
	V   int    `json:"v"`
	N   int    `json:"n"`
	Cut bool   `json:"cut"`
}
type vDIn struct {
	Scen string `json:"scen"`
	Toks []vTok `json:"toks"`
	Out  string `json:"out"`
	Ns   int    `json:"ns"`
	Over bool   `json:"over"`
	Hex  string `json:"hex"`  // raw mode (replays): bytes given directly
	Conc string `json:"conc"` // raw mode: concretisation name
}

const (
	vBig = 1 << 24
	// BigVal of CodecDecode.tla: the claim value a data token carries for the 2^24 class
	vBigAbstract = 100000
	vFatN        = 70000 // CodecDecode!FatN
	vHuge        = 1<<32 - 1
	// allocation bound of the property as checked here: alloc <= vAllocC*len(input) + vAllocK
	vAllocC = 64
	vAllocK = 256 << 10
)

type vDState struct {
	keys  []channel.Key
	types map[channel.Key]telem.DataType
}

// abstract states S1 = keys (1,2), S2 = keys (2,3); key 2 is variable-length
func vDStates(conc *vConc, scen string) map[uint32]vDState {
	mk := func(ks ...int) vDState {
		s := vDState{types: map[channel.Key]telem.DataType{}}
		for _, k := range ks {
			dt := conc.fixed[k]
			if k == 2 {
				dt = conc.varT
			}
			s.keys = append(s.keys, conc.keys[k])
			s.types[conc.keys[k]] = dt
		}
		return s
	}
	switch scen {
	case "static", "dyn1q":
		return map[uint32]vDState{1: mk(1, 2)}
	case "dyn2":
		return map[uint32]vDState{1: mk(1, 2), 2: mk(2, 3)}
	}
	return map[uint32]vDState{}
}

func vStateArgs(s vDState) (channel.Keys, map[channel.Key]telem.DataType, []telem.DataType) {
	keys := append(channel.Keys(nil), s.keys...)
	dts := make([]telem.DataType, len(keys))
	m := map[channel.Key]telem.DataType{}
	for i, k := range keys {
		dts[i] = s.types[k]
		m[k] = s.types[k]
	}
	return keys, m, dts
}

// vDCodec builds a codec in the state named by the scenario using the real entry points.
func vDCodec(conc *vConc, scen string) (*Codec, error) {
	sts := vDStates(conc, scen)
	switch scen {
	case "static":
		keys, _, dts := vStateArgs(sts[1])
		return NewStatic(keys, dts), nil
	case "dyn0":
		return NewDynamic(nil), nil
	case "dyn1q":
		c := NewDynamic(nil)
		keys, m, _ := vStateArgs(sts[1])
		c.update(keys, m)
		return c, nil
	case "dyn2":
		c := NewDynamic(nil)
		keys, m, _ := vStateArgs(sts[1])
		c.update(keys, m)
		// a well-formed empty frame under state 1 applies the first update
		if _, err := c.Decode([]byte{62, 1, 0, 0, 0, 0, 0, 0, 0}); err != nil {
			return nil, fmt.Errorf("priming frame refused: %w", err)
		}
		keys2, m2, _ := vStateArgs(sts[2])
		c.update(keys2, m2)
		return c, nil
	}
	return nil, fmt.Errorf("unknown scenario %q", scen)
}

func vClaim(c string, huge uint32) uint32 {
	switch c {
	case "c1":
		return 1
	case "c2":
		return 2
	case "big":
		return vBig
	case "huge":
		return huge
	}
	return 0
}

// vConcretise turns an abstract input into bytes. huge is the value used for the "huge" class.
func vConcretise(in vDIn, conc *vConc, rnd *rand.Rand, huge uint32) []byte {
	var b []byte
	u32 := func(v uint32) { b = binary.LittleEndian.AppendUint32(b, v) }
	fill := func(n int) {
		if n > 4096 { // "fat" data: random head, patterned rest
			for j := 0; j < 64; j++ {
				b = append(b, byte(rnd.Intn(256)))
			}
			for j := 64; j < n; j++ {
				b = append(b, byte(j))
			}
			return
		}
		for j := 0; j < n; j++ {
			b = append(b, byte(rnd.Intn(256)))
		}
	}
	for _, t := range in.Toks {
		if t.T == "data" && t.N == vFatN && huge > vBig {
			// fat inputs carry real data behind the claim: a decoder that trusts the claim
			// after a first chunk would allocate it in full; 2^24 units is enough to see that
			huge = vBig
		}
	}
	nst := len(vDStates(conc, in.Scen))
	if in.Scen == "dyn0" {
		nst = 1
	}
	for _, t := range in.Toks {
		start := len(b)
		switch t.T {
		case "flags":
			b = append(b, byte(t.V)|byte(rnd.Intn(4))<<6) // bits 6,7 are not flags
		case "seq":
			switch t.C {
			case "zero":
				u32(0)
			case "next":
				u32(uint32(nst + 1))
			case "huge":
				u32(vHuge)
			default:
				u32(uint32(t.V))
			}
		case "hlen", "len":
			u32(vClaim(t.C, huge))
		case "htr", "tr":
			fill(16)
		case "hal", "al":
			fill(8)
		case "key":
			if t.C == "unknown" {
				u32(uint32(conc.unk))
			} else {
				u32(uint32(conc.keys[t.V]))
			}
		case "data":
			unit := 1 // class = type and abstract key, e.g. "F1", "V2", "F3"
			if strings.HasPrefix(t.C, "F") {
				k, _ := strconv.Atoi(t.C[1:])
				unit = vDensity(conc.fixed[k])
			}
			fill(t.N * unit)
		case "junk":
			fill(3)
		}
		if t.Cut && len(b) > start+1 {
			b = b[:start+1+rnd.Intn(len(b)-start-1)]
		}
	}
	return b
}

// vWireClaim parses bytes the way DecodeStream does, trusting every length field, and returns
// the largest buffer (in bytes) a decoder sizing its buffers from the wire would allocate.
func vWireClaim(states map[uint32]vDState, b []byte) uint64 {
	p := 0
	u32 := func() (uint32, bool) {
		if p+4 > len(b) {
			p = len(b)
			return 0, false
		}
		v := binary.LittleEndian.Uint32(b[p:])
		p += 4
		return v, true
	}
	skip := func(n uint64) bool {
		if uint64(len(b)-p) < n {
			p = len(b)
			return false
		}
		p += int(n)
		return true
	}
	if len(b) < 5 {
		return 0
	}
	fl := b[0]
	p = 1
	seq, _ := u32()
	st, ok := states[seq]
	if !ok {
		return 0
	}
	allP, trZ, eqTR, eqL, eqA, alZ := fl&1 != 0, fl&2 != 0, fl&4 != 0, fl&8 != 0, fl&16 != 0, fl&32 != 0
	var dl uint32
	if eqL {
		if dl, ok = u32(); !ok {
			return 0
		}
	}
	if eqTR && !trZ && !skip(16) {
		return 0
	}
	if eqA && !alZ && !skip(8) {
		return 0
	}
	var max uint64
	one := func(k channel.Key) bool {
		n := dl
		if !eqL {
			if n, ok = u32(); !ok {
				return false
			}
		}
		dt, ok := st.types[k]
		if !ok {
			return false
		}
		claim := uint64(n)
		if !dt.IsVariable() {
			claim *= uint64(vDensity(dt))
		}
		if claim > max {
			max = claim
		}
		if !skip(claim) {
			return false
		}
		if !eqTR && !skip(16) {
			return false
		}
		if !eqA && !skip(8) {
			return false
		}
		return true
	}
	if allP {
		for _, k := range st.keys {
			if !one(k) {
				break
			}
		}
		return max
	}
	for {
		k, ok := u32()
		if !ok || !one(channel.Key(k)) {
			return max
		}
	}
}

type vDRes struct {
	out   string // "frame" | "error" | "panic"
	ns    int
	msg   string
	alloc uint64
}

var vSink any

// vRunDecode gives bytes to the real decoder under recover() and measures what it allocates.
// exact=false reads the cheap runtime/metrics counter (large objects are accounted at once,
// small ones when their span is swapped); exact=true uses runtime.MemStats.TotalAlloc.
func vRunDecode(c *Codec, b []byte, stream, exact bool) (res vDRes) {
	var m0, m1 runtime.MemStats
	smp := []metrics.Sample{{Name: "/gc/heap/allocs:bytes"}}
	var a0 uint64
	if exact {
		runtime.ReadMemStats(&m0)
	} else {
		metrics.Read(smp)
		a0 = smp[0].Value.Uint64()
	}
	func() {
		defer func() {
			if r := recover(); r != nil {
				res.out, res.msg = "panic", fmt.Sprint(r)
			}
		}()
		var fr frame.Frame
		var err error
		if stream {
			fr, err = c.DecodeStream(vChunked(vChunkModes[len(b)%3], b, nil)) // one, c7, c4096
		} else {
			fr, err = c.Decode(b)
		}
		if err != nil {
			res.out, res.msg = "error", err.Error()
		} else {
			res.out, res.ns = "frame", fr.Count()
			vSink = fr
		}
	}()
	if exact {
		runtime.ReadMemStats(&m1)
		res.alloc = m1.TotalAlloc - m0.TotalAlloc
	} else {
		metrics.Read(smp)
		res.alloc = smp[0].Value.Uint64() - a0
	}
	vSink = nil
	return res
}

func vBound(n int) uint64 { return uint64(vAllocC*n + vAllocK) }

func vPanicSig(msg string) string {
	if strings.Contains(msg, "dynamic codec was not updated") {
		return "dynamic codec not updated"
	}
	if len(msg) > 60 {
		msg = msg[:60]
	}
	return msg
}

func vMutate(b []byte, other []byte, rnd *rand.Rand) []byte {
	m := append([]byte(nil), b...)
	switch op := rnd.Intn(7); {
	case op <= 1 && len(m) > 0: // bit flips
		for n := 1 + rnd.Intn(3); n > 0; n-- {
			m[rnd.Intn(len(m))] ^= 1 << uint(rnd.Intn(8))
		}
	case op == 2 && len(m) > 0: // boundary byte values
		vals := []byte{0, 1, 0x7F, 0x80, 0xFF}
		for n := 1 + rnd.Intn(4); n > 0; n-- {
			m[rnd.Intn(len(m))] = vals[rnd.Intn(len(vals))]
		}
	case op == 3 && len(m) > 0: // truncate
		m = m[:rnd.Intn(len(m))]
	case op == 4: // splice: head of this input, tail of another
		i, j := rnd.Intn(len(m)+1), rnd.Intn(len(other)+1)
		m = append(m[:i], other[j:]...)
	case op == 5: // insert bytes
		i := rnd.Intn(len(m) + 1)
		ins := make([]byte, 1+rnd.Intn(8))
		rnd.Read(ins)
		m = append(m[:i], append(ins, m[i:]...)...)
	default: // a 32-bit field overwritten with a boundary value
		if len(m) >= 4 {
			i := rnd.Intn(len(m) - 3)
			vals := []uint32{0, 1, 0x7FFFFFFF, 0x80000000, 0xFFFFFFFF, 1 << 16, 1 << 20, uint32(len(m)), uint32(len(m)) + 1}
			binary.LittleEndian.PutUint32(m[i:], vals[rnd.Intn(len(vals))])
		}
	}
	return m
}

func vSetAddressLimit(bytes uint64) error {
	lim := syscall.Rlimit{Cur: bytes, Max: bytes}
	return syscall.Setrlimit(syscall.RLIMIT_AS, &lim)
}

func TestVerifCodecDecode(t *testing.T) {
	lines := vLines(t)
	out := vOpenOut(t)
	defer out.close()
	// watchdogs: the soft limit makes the collector aggressive; the address-space limit turns
	// a runaway allocation into an immediate failure of this process instead of exhausting
	// the machine
	debug.SetMemoryLimit(1 << 30)
	_ = vSetAddressLimit(uint64(vEnvInt("VERIF_AS_GIB", 8)) << 30)
	nconc := vEnvInt("VERIF_NCONC", 2)
	nmut := vEnvInt("VERIF_MUT", 2)
	rnd := rand.New(rand.NewSource(vSeed()))
	ins := make([]vDIn, 0, len(lines))
	for i, ln := range lines {
		var in vDIn
		if err := json.Unmarshal(ln, &in); err != nil {
			out.row(vRow{"i": i, "r": "inconclusive", "what": err.Error()})
			return
		}
		ins = append(ins, in)
	}
	// inputs that carry the 2^24 class into the data phase first: they establish, cheaply,
	// whether this decoder sizes buffers from the wire; if it does, inputs that would make it
	// allocate more than vDanger are not executed here (TestVerifCodecHuge covers 2^32-1
	// under a hard limit)
	reachesBig := func(in vDIn) bool {
		for _, tk := range in.Toks {
			if tk.T == "data" && tk.V == vBigAbstract {
				return true
			}
		}
		return false
	}
	order := make([]int, 0, len(ins))
	for i := range ins {
		if reachesBig(ins[i]) {
			order = append(order, i)
		}
	}
	for i := range ins {
		if !reachesBig(ins[i]) {
			order = append(order, i)
		}
	}
	const vDanger = 64 << 20
	wireAlloc := false
	st := map[string]int{}
	nbad := 0
	report := func(r vRow) {
		nbad++
		if nbad <= 200 {
			out.row(r)
		}
	}
	concByName := func(n string) *vConc {
		for i := range vConcs {
			if vConcs[i].name == n {
				return &vConcs[i]
			}
		}
		return &vConcs[0]
	}
	judge := func(i int, in vDIn, conc *vConc, b []byte, mut bool, claim uint64, res vDRes, stream bool) {
		st["runs"]++
		st[res.out]++
		base := vRow{"i": i, "scen": in.Scen, "conc": conc.name, "hex": hex.EncodeToString(b), "len": len(b),
			"mut": mut, "claim": claim, "stream": stream}
		if res.out == "panic" {
			base["r"], base["kind"], base["sig"], base["what"] = "violation", "panic", vPanicSig(res.msg), res.msg
			report(base)
			return
		}
		if !stream && res.alloc > vBound(len(b)) {
			base["r"], base["kind"], base["alloc"] = "violation", "alloc", res.alloc
			if claim > vBound(len(b))/2 {
				base["sig"] = "wire-claimed length"
				wireAlloc = true
			} else {
				base["sig"] = "other"
			}
			base["what"] = fmt.Sprintf("%d bytes allocated decoding %d input bytes (bound %d; largest wire length claim %d bytes): %s",
				res.alloc, len(b), vBound(len(b)), claim, res.msg)
			report(base)
			return
		}
		if !mut && in.Hex == "" && in.Out != res.out {
			base["r"], base["kind"] = "drift", "outcome"
			base["what"] = fmt.Sprintf("specification %s, decoder %s (%s)", in.Out, res.out, res.msg)
			report(base)
			return
		}
		if !mut && in.Hex == "" && res.out == "frame" && in.Ns != res.ns {
			base["r"], base["kind"] = "drift", "series"
			base["what"] = fmt.Sprintf("specification %d series, decoder %d", in.Ns, res.ns)
			report(base)
		}
	}
	for _, i := range order {
		in := ins[i]
		for ci := 0; ci < nconc; ci++ {
			conc := &vConcs[(ci*2+i)%len(vConcs)]
			var b []byte
			if in.Hex != "" {
				conc = concByName(in.Conc)
				b, _ = hex.DecodeString(in.Hex)
			} else {
				b = vConcretise(in, conc, rnd, vHuge)
			}
			states := vDStates(conc, in.Scen)
			run := func(b []byte, mut bool) {
				claim := vWireClaim(states, b)
				if wireAlloc && (claim > vDanger || (claim > vBound(len(b)) && st["wire_alloc_confirmed"] >= 20)) {
					// this decoder sizes its buffers from the wire (established and reproduced
					// above): executing more such inputs only repeats the finding, and the
					// larger ones would exhaust the machine
					st["skipped_wire_claim"]++
					return
				}
				for _, stream := range []bool{false, true} {
					if stream && (i+ci)%4 != 0 && in.Hex == "" {
						continue
					}
					c, err := vDCodec(conc, in.Scen)
					if err != nil {
						report(vRow{"i": i, "r": "inconclusive", "what": err.Error()})
						return
					}
					res := vRunDecode(c, b, stream, false)
					if !stream && res.alloc > vBound(len(b))/2 {
						// suspicious: measure again, exactly, on a fresh codec (= reproduction)
						if c, err = vDCodec(conc, in.Scen); err == nil {
							res = vRunDecode(c, b, stream, true)
							st["exact_measurements"]++
							if res.alloc > vBound(len(b)) && claim > vBound(len(b))/2 {
								st["wire_alloc_confirmed"]++
							}
						}
					}
					judge(i, in, conc, b, mut, claim, res, stream)
				}
			}
			run(b, false)
			if in.Hex != "" {
				break
			}
			for m := 0; m < nmut; m++ {
				o := ins[rnd.Intn(len(ins))]
				ob := vConcretise(o, conc, rnd, vBig)
				st["mutants"]++
				run(vMutate(b, ob, rnd), true)
			}
		}
	}
	out.row(vRow{"summary": true, "inputs": len(ins), "runs": st["runs"], "frames": st["frame"], "errors": st["error"],
		"panics": st["panic"], "mutants": st["mutants"], "skipped_wire_claim": st["skipped_wire_claim"],
		"exact_measurements": st["exact_measurements"],
		"wire_alloc_seen":    wireAlloc, "bad": nbad})
}

// TestVerifCodecHuge runs inputs whose length fields carry 2^32-1 with one-byte samples
// (claim = 4 GiB) under a 3 GiB address-space limit. A decoder that sizes its buffer from the
// wire dies here with an unrecoverable runtime error; the driver sees a "start" row without
// its "done" row. A decoder that is proportional answers every one of them.
func TestVerifCodecHuge(t *testing.T) {
	lines := vLines(t)
	f, err := os.Create(os.Getenv("VERIF_OUT"))
	if err != nil {
		t.Fatal(err)
	}
	defer f.Close()
	row := func(r vRow) {
		b, _ := json.Marshal(r)
		f.Write(append(b, '\n'))
	}
	conc := &vConcs[3] // uint8 / bytes: one byte per unit
	rnd := rand.New(rand.NewSource(vSeed()))
	from := vEnvInt("VERIF_FROM", 0)
	runtime.GC()
	if err := vSetAddressLimit(3 << 30); err != nil {
		row(vRow{"r": "inconclusive", "what": "setrlimit: " + err.Error()})
		return
	}
	n := 0
	for i, ln := range lines {
		var in vDIn
		if err := json.Unmarshal(ln, &in); err != nil {
			row(vRow{"i": i, "r": "inconclusive", "what": err.Error()})
			return
		}
		b := vConcretise(in, conc, rnd, vHuge)
		if in.Hex != "" {
			b, _ = hex.DecodeString(in.Hex)
		}
		if i < from {
			continue
		}
		c, err := vDCodec(conc, in.Scen)
		if err != nil {
			row(vRow{"i": i, "r": "inconclusive", "what": err.Error()})
			return
		}
		row(vRow{"start": i, "scen": in.Scen, "hex": hex.EncodeToString(b), "len": len(b),
			"claim": vWireClaim(vDStates(conc, in.Scen), b)})
		res := vRunDecode(c, b, false, true)
		r := vRow{"done": i, "out": res.out, "alloc": res.alloc}
		if res.out == "panic" {
			r["r"], r["kind"], r["sig"], r["what"] = "violation", "panic", vPanicSig(res.msg), res.msg
		} else if res.alloc > vBound(len(b)) {
			r["r"], r["kind"], r["sig"] = "violation", "alloc", "wire-claimed length"
		}
		row(r)
		n++
	}
	row(vRow{"summary": true, "runs": n})
}

var _ = io.EOF
