//go:build verif

// Replay of ChannelSvc.tla behaviours into a real in-memory (or on-disk, when the
// behaviour restarts a node) 1-3 node cluster (C15, DESIGN.md). External test package:
// public APIs only. Injected with `go test -overlay`; never part of /repo.
//
// Two independent judgements per step:
//   (b) property oracle, computed from the REAL observations only (plus what the caller
//       asked for): keys unique / never reused / embed the leaseholder, names unique,
//       metadata == engines field by field, deleted channels gone at both layers.
//       These are the verdicts ("viol").
//   (a) conformance with the post-state the specification computed ("drift"): never a
//       verdict by itself.
package mock_test

import (
	"bufio"
	"context"
	"encoding/json"
	"fmt"
	"os"
	"sort"
	"strconv"
	"strings"
	"sync"
	"testing"
	"time"

	"github.com/synnaxlabs/aspen"
	aspentransmock "github.com/synnaxlabs/aspen/transport/mock"
	"github.com/synnaxlabs/cesium"
	"github.com/synnaxlabs/synnax/pkg/distribution"
	"github.com/synnaxlabs/synnax/pkg/distribution/channel"
	"github.com/synnaxlabs/synnax/pkg/distribution/framer"
	"github.com/synnaxlabs/synnax/pkg/distribution/framer/deleter"
	"github.com/synnaxlabs/synnax/pkg/distribution/framer/iterator"
	"github.com/synnaxlabs/synnax/pkg/distribution/framer/relay"
	"github.com/synnaxlabs/synnax/pkg/distribution/framer/writer"
	"github.com/synnaxlabs/synnax/pkg/distribution/node"
	tmock "github.com/synnaxlabs/synnax/pkg/distribution/transport/mock"
	"github.com/synnaxlabs/synnax/pkg/storage"
	"github.com/synnaxlabs/x/address"
	"github.com/synnaxlabs/x/gorp"
	"github.com/synnaxlabs/x/telem"
)

// ---------------------------------------------------------------- input / output

type vKey struct {
	L int `json:"l"`
	C int `json:"c"`
}

func (k vKey) String() string { return fmt.Sprintf("%d/%d", k.L, k.C) }

type vEnt struct {
	Name  string `json:"name"`
	Kind  string `json:"kind,omitempty"`
	Lease int    `json:"lease,omitempty"`
	Ref   string `json:"ref,omitempty"`
	New   string `json:"new,omitempty"`
}

type vChan struct {
	Key   vKey   `json:"key"`
	Name  string `json:"name"`
	DT    string `json:"dt"`
	IsIdx bool   `json:"isidx"`
	Virt  bool   `json:"virt"`
	Idx   vKey   `json:"idx"`
	Lease int    `json:"lease"`
	Calc  bool   `json:"calc"`
}

type vRet struct {
	Name string `json:"name"`
	Key  vKey   `json:"key"`
}

type vStep struct {
	T    string    `json:"t"`
	G    int       `json:"g"`
	Opt  string    `json:"opt"`
	Ents []vEnt    `json:"ents"`
	Cut  int       `json:"cut"`
	Res  string    `json:"res"`
	Why  string    `json:"why"`
	Ret  []vRet    `json:"ret"`
	N    int       `json:"n"`
	Meta []vChan   `json:"meta"`
	Eng  [][]vChan `json:"eng"`
}

type vHist struct {
	ID    int     `json:"id"`
	Nodes int     `json:"nodes"`
	Steps []vStep `json:"steps"`
}

type vViol struct {
	Sig  string `json:"sig"`
	What string `json:"what"`
	Step int    `json:"step"`
}

type vDrift struct {
	Step int    `json:"step"`
	What string `json:"what"`
	Exp  string `json:"exp"`
	Act  string `json:"act"`
}

type vOut struct {
	ID    int            `json:"id"`
	R     string         `json:"r"` // ok | viol | drift | inconclusive
	Viol  []vViol        `json:"viol,omitempty"`
	// cross-store differences left behind by FAILED requests that no successful request
	// followed in this history: observed, not judged
	Pending []vViol `json:"pending,omitempty"`
	Drift *vDrift        `json:"drift,omitempty"`
	Note  string         `json:"note,omitempty"`
	Stats map[string]int `json:"stats,omitempty"`
	Log   []string       `json:"log,omitempty"`
}

// ---------------------------------------------------------------- cluster (public parts only)

type vFramerTransport struct {
	iter    iterator.Transport
	writer  writer.Transport
	relay   relay.Transport
	deleter deleter.Transport
}

func (m vFramerTransport) Iterator() iterator.Transport { return m.iter }
func (m vFramerTransport) Writer() writer.Transport     { return m.writer }
func (m vFramerTransport) Relay() relay.Transport       { return m.relay }
func (m vFramerTransport) Deleter() deleter.Transport   { return m.deleter }

type vNode struct {
	*distribution.Layer
	Storage *storage.Layer
	addr    address.Address
	peers   []address.Address
	sdir    string
}

type vCluster struct {
	dir       string // "" = in-memory storage
	nodes     map[int]*vNode
	writerNet *tmock.FramerWriterNetwork
	iterNet   *tmock.FramerIteratorNetwork
	chNet     *tmock.ChannelNetwork
	relayNet  *tmock.FramerRelayNetwork
	delNet    *tmock.FramerDeleterNetwork
	aspenNet  *aspentransmock.Network
	af        *address.Factory
}

func vNewCluster(disk bool) (*vCluster, error) {
	c := &vCluster{nodes: map[int]*vNode{},
		writerNet: tmock.NewWriterNetwork(), iterNet: tmock.NewIteratorNetwork(),
		chNet: tmock.NewChannelNetwork(), relayNet: tmock.NewRelayNetwork(),
		delNet: tmock.NewDeleterNetwork(), aspenNet: aspentransmock.NewNetwork(),
		af: address.NewLocalFactory(0)}
	if disk {
		d, err := os.MkdirTemp("", "verif-c15-")
		if err != nil {
			return nil, err
		}
		c.dir = d
	}
	return c, nil
}

func (c *vCluster) openStorage(ctx context.Context, sdir string) (*storage.Layer, error) {
	if c.dir == "" {
		t := true
		return storage.OpenLayer(ctx, storage.LayerConfig{InMemory: &t})
	}
	f := false
	return storage.OpenLayer(ctx, storage.LayerConfig{Dirname: sdir, InMemory: &f})
}

func (c *vCluster) openLayer(ctx context.Context, st *storage.Layer, addr address.Address, peers []address.Address) (*distribution.Layer, error) {
	f := false
	return distribution.OpenLayer(ctx, distribution.LayerConfig{
		Storage: st,
		FrameTransport: vFramerTransport{iter: c.iterNet.New(addr, 1), writer: c.writerNet.New(addr, 1),
			relay: c.relayNet.New(addr, 1), deleter: c.delNet.New(addr)},
		ChannelTransport:     c.chNet.New(addr),
		AspenTransport:       c.aspenNet.NewTransport(),
		AdvertiseAddress:     addr,
		PeerAddresses:        peers,
		AspenOptions:         []aspen.Option{aspen.WithPropagationConfig(aspen.FastPropagationConfig)},
		EnableServiceSignals: &f,
	})
}

func (c *vCluster) provision(ctx context.Context) error {
	peers := c.af.Generated()
	addr := c.af.Next()
	sdir := ""
	if c.dir != "" {
		sdir = fmt.Sprintf("%s/n%d", c.dir, len(c.nodes)+1)
		if err := os.MkdirAll(sdir, 0o755); err != nil {
			return err
		}
	}
	st, err := c.openStorage(ctx, sdir)
	if err != nil {
		return err
	}
	l, err := c.openLayer(ctx, st, addr, peers)
	if err != nil {
		return err
	}
	want := len(c.nodes) + 1
	if int(l.Cluster.HostKey()) != want {
		return fmt.Errorf("provision: node got key %d, want %d", l.Cluster.HostKey(), want)
	}
	c.nodes[want] = &vNode{Layer: l, Storage: st, addr: addr, peers: peers, sdir: sdir}
	dl := time.Now().Add(30 * time.Second)
	for _, x := range c.nodes {
		for {
			ok := len(x.Cluster.Nodes()) == len(c.nodes)
			for k := range c.nodes {
				if _, err := x.Cluster.Resolve(node.Key(k)); err != nil {
					ok = false
				}
			}
			if ok {
				break
			}
			if time.Now().After(dl) {
				return fmt.Errorf("topology did not stabilise")
			}
			time.Sleep(time.Millisecond)
		}
	}
	return nil
}

// restart closes node k's distribution layer and storage layer and reopens both on the
// same directory, address and peers.
func (c *vCluster) restart(ctx context.Context, k int) error {
	n := c.nodes[k]
	if c.dir == "" {
		return fmt.Errorf("restart needs disk storage")
	}
	if err := n.Layer.Close(); err != nil {
		return err
	}
	time.Sleep(vSettle)
	if err := n.Storage.Close(); err != nil {
		return err
	}
	st, err := c.openStorage(ctx, n.sdir)
	if err != nil {
		return err
	}
	n.Storage = st
	l, err := c.openLayer(ctx, st, n.addr, n.peers)
	if err != nil {
		return err
	}
	n.Layer = l
	if int(l.Cluster.HostKey()) != k {
		return fmt.Errorf("restart: host key %d != %d", l.Cluster.HostKey(), k)
	}
	return nil
}

// vSettle is how long a closed distribution layer is given before its storage is
// closed: aspen's cluster-state flush runs in a detached goroutine
// (x/kv.Subscriber.Flush) that panics ("pebble: closed") when it loses that race.
const vSettle = 150 * time.Millisecond

var vReaper sync.WaitGroup

func (c *vCluster) close() {
	for _, n := range c.nodes {
		_ = n.Layer.Close()
	}
	vReaper.Add(1)
	go func() {
		defer vReaper.Done()
		time.Sleep(vSettle)
		for _, n := range c.nodes {
			_ = n.Storage.Close()
		}
		if c.dir != "" {
			_ = os.RemoveAll(c.dir)
		}
	}()
}

// ---------------------------------------------------------------- observation

const vBadCtr = 999

// how long a name index may lag behind its (already converged) table before the replay
// goes on regardless
var vIdxWait = 500 * time.Millisecond

func vRealLease(l int) node.Key {
	if l == 0 {
		return node.KeyFree
	}
	return node.Key(l)
}
func vSpecLease(l node.Key) int {
	if l == node.KeyFree {
		return 0
	}
	return int(l)
}

type vRun struct {
	ctx      context.Context
	c        *vCluster
	n        int
	base     map[int]int          // lease -> local key of the last pre-existing channel
	baseKeys map[channel.Key]bool // channels that existed before the history started
	keyOf    map[string]channel.Key
	everUsed map[channel.Key]int // key -> step at which it was first seen (0 = baseline)
	prevMeta map[channel.Key]channel.Channel
	gone     map[channel.Key]string // deleted by successful requests -> kind
	maxc     map[int]int
	diffs    map[string]*vDiff // open cross-store differences by id
	names    map[string]bool   // every channel name seen so far
	// free channels renamed (successfully) through a gateway that is not the bootstrapper
	renamedViaPeer map[channel.Key]bool
	viol     []vViol
	seen     map[string]bool
	stats    map[string]int
	log      []string
	timeout  time.Duration
	idxWait  time.Duration
}

type vAuth = map[channel.Key]channel.Channel
type vEngs = map[int]map[channel.Key]cesium.Channel

type vDiff struct {
	// still re-evaluates the difference on a later observation
	still     func(auth vAuth, engs vEngs) bool
	sig, what string
	step      int
	reported  bool
	// left behind by a FAILED multi-call transaction (two CreateMany in one WithTx): the
	// property quantifies over single requests, so these are counted, not judged
	tolerated bool
	// first seen right after a FAILED request: judged once a successful request followed
	fromFail bool
}

func (r *vRun) specKey(k channel.Key) vKey {
	l := vSpecLease(k.Leaseholder())
	return vKey{L: l, C: int(k.LocalKey()) - r.base[l]}
}
func (r *vRun) realKey(k vKey) channel.Key {
	return channel.NewKey(vRealLease(k.L), channel.LocalKey(k.C+r.base[k.L]))
}

func vKind(ch channel.Channel) string {
	switch {
	case ch.IsCalculated():
		return "calculated"
	case ch.Free():
		if ch.IsIndex {
			return "free-index"
		}
		return "free-virtual"
	case ch.Virtual:
		return "virtual"
	case ch.IsIndex:
		return "index"
	case ch.DataType == telem.StringT:
		return "variable"
	default:
		return "fixed"
	}
}
func vEngKind(ch cesium.Channel) string {
	switch {
	case ch.Virtual:
		return "virtual"
	case ch.IsIndex:
		return "index"
	case ch.DataType == telem.StringT:
		return "variable"
	default:
		return "fixed"
	}
}

// metaOn returns node k's view of all channels.
func (r *vRun) metaOn(k int) (map[channel.Key]channel.Channel, error) {
	var chs []channel.Channel
	if err := r.c.nodes[k].Channel.NewRetrieve().Entries(&chs).Exec(r.ctx, nil); err != nil {
		return nil, err
	}
	m := make(map[channel.Key]channel.Channel, len(chs))
	for _, ch := range chs {
		m[ch.Key()] = ch
	}
	return m, nil
}

// authoritative merges, for every lease, the view of the node that owns the rows
// (free channels are owned by the bootstrapper).
func (r *vRun) authoritative(views map[int]map[channel.Key]channel.Channel) map[channel.Key]channel.Channel {
	res := map[channel.Key]channel.Channel{}
	for k, v := range views {
		for key, ch := range v {
			own := int(key.Leaseholder())
			if key.Free() {
				own = 1
			}
			if own == k || own > r.n {
				res[key] = ch
			}
		}
	}
	return res
}

func vSameView(a, b map[channel.Key]channel.Channel) bool {
	if len(a) != len(b) {
		return false
	}
	for k, x := range a {
		y, ok := b[k]
		if !ok || !x.Equals(y) {
			return false
		}
	}
	return true
}

// quiesce waits until every node's view equals the authoritative one. A timeout is an
// inconclusive run, never a verdict.
func (r *vRun) quiesce() (map[channel.Key]channel.Channel, error) {
	dl := time.Now().Add(r.timeout)
	sleep := 200 * time.Microsecond
	var agreedAt time.Time
	for {
		views := map[int]map[channel.Key]channel.Channel{}
		for k := 1; k <= r.n; k++ {
			v, err := r.metaOn(k)
			if err != nil {
				return nil, fmt.Errorf("retrieve on node %d: %w", k, err)
			}
			views[k] = v
		}
		auth := r.authoritative(views)
		same := true
		for k := 1; k <= r.n; k++ {
			if !vSameView(views[k], auth) {
				same = false
				break
			}
		}
		if same {
			if r.indexesAgree(auth) {
				return auth, nil
			}
			// The replicated tables agree but a name index does not follow. The index is
			// not what C15 talks about (duplicate names are): go on after a generous wait.
			if agreedAt.IsZero() {
				agreedAt = time.Now()
			} else if time.Since(agreedAt) > r.idxWait {
				r.stats["name-index-stale-steps"]++
				return auth, nil
			}
		} else {
			agreedAt = time.Time{}
		}
		if time.Now().After(dl) {
			return nil, fmt.Errorf("metadata did not propagate to every node within %s", r.timeout)
		}
		time.Sleep(sleep)
		if sleep < 5*time.Millisecond {
			sleep *= 2
		}
	}
}

// indexesAgree checks, on every node, that a lookup by name (served by the name index,
// which is maintained asynchronously from the replicated table) finds exactly the
// channels of that name; names seen earlier must have dropped out.
func (r *vRun) indexesAgree(auth map[channel.Key]channel.Channel) bool {
	want := map[string]map[channel.Key]bool{}
	for name := range r.names {
		want[name] = map[channel.Key]bool{}
	}
	for k, ch := range auth {
		if want[ch.Name] == nil {
			want[ch.Name] = map[channel.Key]bool{}
		}
		want[ch.Name][k] = true
		r.names[ch.Name] = true
	}
	for k := 1; k <= r.n; k++ {
		for name, keys := range want {
			var got []channel.Channel
			_ = r.c.nodes[k].Channel.NewRetrieve().Where(channel.MatchNames(name)).Entries(&got).Exec(r.ctx, nil)
			if len(got) != len(keys) {
				return false
			}
			for _, ch := range got {
				if !keys[ch.Key()] {
					return false
				}
			}
		}
	}
	return true
}

// engineOn lists node k's engine by probing every candidate key (all leases, all local
// keys up to a margin above anything seen, every key ever seen, the bad index key).
func (r *vRun) engineOn(k int) map[channel.Key]cesium.Channel {
	res := map[channel.Key]cesium.Channel{}
	ts := r.c.nodes[k].Storage.TS
	probe := func(key channel.Key) {
		if _, ok := res[key]; ok {
			return
		}
		if ch, err := ts.RetrieveChannel(r.ctx, key.StorageKey()); err == nil {
			res[key] = ch
		}
	}
	for l := 0; l <= r.n; l++ {
		top := r.base[l] + r.maxc[l] + 8
		for c := 0; c <= top; c++ {
			probe(channel.NewKey(vRealLease(l), channel.LocalKey(c)))
		}
		probe(channel.NewKey(vRealLease(l), channel.LocalKey(r.base[l]+vBadCtr)))
	}
	for key := range r.everUsed {
		probe(key)
	}
	return res
}

func (r *vRun) note(key channel.Key, step int) {
	if _, ok := r.everUsed[key]; !ok {
		r.everUsed[key] = step
	}
	l := vSpecLease(key.Leaseholder())
	if c := int(key.LocalKey()) - r.base[l]; c > r.maxc[l] && c < vBadCtr {
		r.maxc[l] = c
	}
}

func (r *vRun) report(step int, sig, what string) {
	if r.seen[sig] {
		return
	}
	r.seen[sig] = true
	r.viol = append(r.viol, vViol{Sig: sig, What: what, Step: step})
}

// ---------------------------------------------------------------- requests

func (r *vRun) toChannel(e vEnt) channel.Channel {
	ch := channel.Channel{Name: e.Name, DataType: telem.Float64T}
	switch e.Kind {
	case "index":
		ch.IsIndex, ch.DataType = true, telem.TimeStampT
	case "badtype":
		ch.IsIndex = true
	case "variable":
		ch.DataType = telem.StringT
	case "virtual":
		ch.Virtual = true
	case "free":
		ch.Virtual = true
	case "calc":
		ch.Expression = "return 1"
	}
	lease := e.Lease
	if e.Kind == "free" || e.Kind == "calc" {
		lease = 0
	}
	ch.Leaseholder = vRealLease(lease)
	if e.Kind == "calc" {
		ch.Leaseholder = 0 // the service decides
	}
	if (e.Kind == "fixed" || e.Kind == "variable") && e.Ref != "none" && e.Ref != "" {
		if k, ok := r.keyOf[e.Ref]; ok {
			// same local number the specification uses: the referenced channel's counter
			// value interpreted on this entry's leaseholder
			ch.LocalIndex = channel.LocalKey(r.specKey(k).C + r.base[lease])
		} else {
			ch.LocalIndex = channel.LocalKey(vBadCtr + r.base[lease])
		}
	}
	return ch
}

func vOpts(opt string) []channel.CreateOption {
	switch opt {
	case "retrieve":
		return []channel.CreateOption{channel.RetrieveIfNameExists()}
	case "overwrite":
		return []channel.CreateOption{channel.OverwriteIfNameExistsAndDifferentProperties()}
	}
	return nil
}

// exec performs one request through node s.G exactly as the API layer does
// (db.WithTx + Service.NewWriter(tx)); returns the channels CreateMany handed back.
func (r *vRun) exec(s vStep) ([]channel.Channel, []int, error) {
	nd := r.c.nodes[s.G]
	var ret []channel.Channel
	var retBatch []int
	err := nd.DB.WithTx(r.ctx, func(tx gorp.Tx) error {
		w := nd.Channel.NewWriter(tx)
		switch s.T {
		case "create":
			batches := [][]vEnt{s.Ents}
			if s.Cut > 0 {
				batches = [][]vEnt{s.Ents[:s.Cut], s.Ents[s.Cut:]}
			}
			for bi, b := range batches {
				chs := make([]channel.Channel, len(b))
				for i, e := range b {
					chs[i] = r.toChannel(e)
				}
				if err := w.CreateMany(r.ctx, &chs, vOpts(s.Opt)...); err != nil {
					return err
				}
				ret = append(ret, chs...)
				for range chs {
					retBatch = append(retBatch, bi)
				}
				if bi+1 < len(batches) {
					// rows committed by remote leaseholders reach the gateway by gossip
					if _, err := r.quiesce(); err != nil {
						return fmt.Errorf("INCONCLUSIVE %w", err)
					}
				}
			}
			return nil
		case "delete":
			keys := make([]channel.Key, 0, len(s.Ents))
			for _, e := range s.Ents {
				keys = append(keys, r.keyOf[e.Name])
			}
			return w.DeleteMany(r.ctx, keys, false)
		case "rename":
			keys := make([]channel.Key, 0, len(s.Ents))
			names := make([]string, 0, len(s.Ents))
			for _, e := range s.Ents {
				keys = append(keys, r.keyOf[e.Name])
				names = append(names, e.New)
			}
			return w.RenameMany(r.ctx, keys, names, false)
		}
		return fmt.Errorf("unknown request type %q", s.T)
	})
	return ret, retBatch, err
}

// vAutoIndex says whether ch is the "<name>_time" index channel the service creates by
// itself for a calculated entry of this request.
func vAutoIndex(s vStep, ch channel.Channel) bool {
	if s.T != "create" || !ch.Free() || !ch.IsIndex || !ch.Virtual {
		return false
	}
	for _, e := range s.Ents {
		if e.Kind == "calc" && e.Name+"_time" == ch.Name {
			return true
		}
	}
	return false
}

// vRequested finds the entry (of batch bi, -1 = any) that produced a returned channel
// and the leaseholder the caller asked for (-1 unknown).
func vRequested(s vStep, bi int, ch channel.Channel) (int, string) {
	if vAutoIndex(s, ch) {
		return 0, "calc-index"
	}
	lo, hi := 0, len(s.Ents)
	if s.Cut > 0 && bi == 0 {
		hi = s.Cut
	} else if s.Cut > 0 && bi == 1 {
		lo = s.Cut
	}
	for _, e := range s.Ents[lo:hi] {
		if e.Name == ch.Name {
			if e.Kind == "free" || e.Kind == "calc" {
				return 0, e.Kind
			}
			return e.Lease, e.Kind
		}
	}
	return -1, ""
}

// requested lease for an entry of that name (any batch; -1 unknown)
func vRequestedLease(s vStep, name string) (int, string) {
	for _, e := range s.Ents {
		if e.Name == name {
			if e.Kind == "free" || e.Kind == "calc" {
				return 0, e.Kind
			}
			return e.Lease, e.Kind
		}
	}
	return -1, ""
}

func vAfter(s vStep, ok bool) string {
	t := s.T
	if s.T == "create" && s.Opt != "plain" {
		t += "-" + s.Opt
	}
	if s.T == "create" && s.Cut > 0 {
		t += "-chained"
	}
	if ok {
		return t + ":ok"
	}
	return t + ":fail"
}

// ---------------------------------------------------------------- one history

func vChanOfMeta(r *vRun, ch channel.Channel) vChan {
	idx := vKey{}
	if ch.LocalIndex != 0 {
		idx = r.specKey(ch.Index())
	}
	return vChan{Key: r.specKey(ch.Key()), Name: ch.Name, DT: string(ch.DataType), IsIdx: ch.IsIndex,
		Virt: ch.Virtual, Idx: idx, Lease: vSpecLease(ch.Leaseholder), Calc: ch.IsCalculated()}
}
func vChanOfEng(r *vRun, ch cesium.Channel) vChan {
	idx := vKey{}
	if ch.Index != 0 {
		idx = r.specKey(channel.Key(ch.Index))
	}
	return vChan{Key: r.specKey(channel.Key(ch.Key)), Name: ch.Name, DT: string(ch.DataType), IsIdx: ch.IsIndex,
		Virt: ch.Virtual, Idx: idx}
}
func vFmtSet(cs []vChan, eng bool) string {
	ss := make([]string, 0, len(cs))
	for _, c := range cs {
		s := fmt.Sprintf("%s:%s:%s:i%v:v%v:x%s", c.Key, c.Name, c.DT, c.IsIdx, c.Virt, c.Idx)
		if !eng {
			s += fmt.Sprintf(":l%d:c%v", c.Lease, c.Calc)
		}
		ss = append(ss, s)
	}
	sort.Strings(ss)
	return strings.Join(ss, " ")
}

func vReplay(ctx context.Context, h vHist, timeout time.Duration) (out vOut) {
	out = vOut{ID: h.ID}
	defer func() {
		if p := recover(); p != nil {
			out.R, out.Note = "inconclusive", fmt.Sprintf("panic: %v", p)
		}
	}()
	disk := false
	for _, s := range h.Steps {
		if s.T == "restart" {
			disk = true
		}
	}
	c, err := vNewCluster(disk)
	if err != nil {
		return vOut{ID: h.ID, R: "inconclusive", Note: err.Error()}
	}
	defer c.close()
	for i := 0; i < h.Nodes; i++ {
		if err := c.provision(ctx); err != nil {
			return vOut{ID: h.ID, R: "inconclusive", Note: "provision: " + err.Error()}
		}
	}
	r := &vRun{ctx: ctx, c: c, n: h.Nodes, base: map[int]int{}, baseKeys: map[channel.Key]bool{},
		keyOf: map[string]channel.Key{}, everUsed: map[channel.Key]int{}, gone: map[channel.Key]string{},
		maxc: map[int]int{}, diffs: map[string]*vDiff{}, names: map[string]bool{}, renamedViaPeer: map[channel.Key]bool{}, seen: map[string]bool{}, stats: map[string]int{},
		timeout: timeout, idxWait: vIdxWait}
	// baseline: the channels every node creates for itself at start-up
	m0, err := r.quiesce()
	if err != nil {
		return vOut{ID: h.ID, R: "inconclusive", Note: "baseline: " + err.Error()}
	}
	for k := range m0 {
		l := vSpecLease(k.Leaseholder())
		if int(k.LocalKey()) > r.base[l] {
			r.base[l] = int(k.LocalKey())
		}
		r.baseKeys[k] = true
		r.everUsed[k] = 0
	}
	r.prevMeta = m0
	// "ctl<n>" addresses node n's internal control channel (spec key (n, 0): the last
	// pre-existing local key of that leaseholder) in rename requests that must be refused
	for k := 1; k <= r.n; k++ {
		key := channel.NewKey(node.Key(k), channel.LocalKey(r.base[k]))
		if ch, ok := m0[key]; !ok || !ch.Internal {
			return vOut{ID: h.ID, R: "inconclusive", Note: fmt.Sprintf("baseline: node %d has no internal channel under key %d", k, key)}
		}
		r.keyOf["ctl"+strconv.Itoa(k)] = key
	}
	var drift *vDrift
	setDrift := func(step int, what, exp, act string) {
		if drift == nil {
			drift = &vDrift{Step: step, What: what, Exp: exp, Act: act}
		}
	}
	for si, s := range h.Steps {
		step := si + 1
		var ret []channel.Channel
		var retBatch []int
		var rerr error
		t0 := time.Now()
		if s.T == "restart" {
			if err := c.restart(ctx, s.N); err != nil {
				return vOut{ID: h.ID, R: "inconclusive", Note: fmt.Sprintf("step %d restart: %v", step, err), Log: r.log}
			}
			r.stats["restarts"]++
		} else {
			ret, retBatch, rerr = r.exec(s)
			if rerr != nil && strings.Contains(rerr.Error(), "INCONCLUSIVE") {
				return vOut{ID: h.ID, R: "inconclusive", Note: fmt.Sprintf("step %d: %v", step, rerr), Log: r.log}
			}
		}
		ok := rerr == nil
		after := vAfter(s, ok)
		r.stats["req:"+after]++
		errs := ""
		if rerr != nil {
			errs = rerr.Error()
			if len(errs) > 160 {
				errs = errs[:160]
			}
		}
		r.log = append(r.log, fmt.Sprintf("step %d %s g=%d %v -> ok=%v %s (%s)", step, after, s.G, s.Ents, ok, errs, time.Since(t0)))
		// ---- observe
		auth, err := r.quiesce()
		if err != nil {
			return vOut{ID: h.ID, R: "inconclusive", Note: fmt.Sprintf("step %d: %v", step, err), Log: r.log}
		}
		for k := range auth {
			r.note(k, step)
		}
		for _, ch := range ret {
			if ok {
				r.note(ch.Key(), step)
			}
		}
		engs := map[int]map[channel.Key]cesium.Channel{}
		for k := 1; k <= r.n; k++ {
			engs[k] = r.engineOn(k)
			for key := range engs[k] {
				r.note(key, step)
			}
		}
		// ---- (b) keys: unique, never reused, embed the leaseholder
		if s.T == "create" && ok {
			seenRet := map[channel.Key]string{}
			for ri, ch := range ret {
				key := ch.Key()
				if _, existed := r.prevMeta[key]; existed {
					continue // retrieved / reused existing channel
				}
				if other, dup := seenRet[key]; dup && other == ch.Name {
					continue // handed back again by a later CreateMany of the same transaction
				}
				if other, dup := seenRet[key]; dup && other != ch.Name {
					r.report(step, "C15 KeysUnique same key returned twice in one create",
						fmt.Sprintf("step %d: create returned key %d for both %q and %q", step, key, other, ch.Name))
				}
				seenRet[key] = ch.Name
				if first, used := r.everUsed[key]; used && first < step {
					what := "deleted"
					if r.baseKeys[key] {
						what = "pre-existing"
					}
					r.report(step, "C15 KeysUnique key reused kind="+vKind(ch)+" previous="+what,
						fmt.Sprintf("step %d (%s): new channel %q got key %d (lease %d, local %d) which was already assigned at step %d",
							step, after, ch.Name, key, key.Leaseholder(), key.LocalKey(), first))
				}
				want, kind := vRequested(s, retBatch[ri], ch)
				if want >= 0 && (key.Leaseholder() != vRealLease(want) || ch.Leaseholder != vRealLease(want)) {
					r.report(step, "C15 KeyEmbedsLease kind="+kind+" via-gateway="+strconv.FormatBool(want != s.G),
						fmt.Sprintf("step %d (%s through node %d): channel %q requested on leaseholder %d got key %d (leaseholder bits %d, field %d)",
							step, after, s.G, ch.Name, vRealLease(want), key, key.Leaseholder(), ch.Leaseholder))
				}
				r.stats["created"]++
			}
			// update the caller's name -> key map (later entries win)
			for _, ch := range ret {
				r.keyOf[ch.Name] = ch.Key()
			}
		}
		if s.T == "rename" && ok {
			for _, e := range s.Ents {
				r.keyOf[e.New] = r.keyOf[e.Name]
				if k := r.keyOf[e.Name]; k.Free() {
					if s.G != 1 {
						r.renamedViaPeer[k] = true
					} else {
						delete(r.renamedViaPeer, k)
					}
				}
			}
		}
		// keys newly present in metadata must be fresh too (whoever returned them)
		for key, ch := range auth {
			if _, existed := r.prevMeta[key]; existed {
				continue
			}
			if first := r.everUsed[key]; first < step {
				r.report(step, "C15 KeysUnique key reused kind="+vKind(ch)+" previous=seen-before",
					fmt.Sprintf("step %d (%s): channel %q appeared in metadata under key %d first seen at step %d", step, after, ch.Name, key, first))
			}
			if ch.Leaseholder != key.Leaseholder() {
				r.report(step, "C15 KeyEmbedsLease metadata-field",
					fmt.Sprintf("step %d: channel %q key %d embeds %d but Leaseholder field is %d", step, ch.Name, key, key.Leaseholder(), ch.Leaseholder))
			}
		}
		// ---- (b) names unique among existing non-internal channels (validation is on)
		byName := map[string][]channel.Channel{}
		for _, ch := range auth {
			if !ch.Internal {
				byName[ch.Name] = append(byName[ch.Name], ch)
			}
		}
		for name, chs := range byName {
			if len(chs) < 2 {
				continue
			}
			newc := 0
			for _, ch := range chs {
				if _, existed := r.prevMeta[ch.Key()]; !existed {
					newc++
				}
			}
			if newc == 0 {
				continue // reported when it appeared
			}
			auto := 0
			for _, ch := range chs {
				if _, existed := r.prevMeta[ch.Key()]; !existed && vAutoIndex(s, ch) {
					auto++
				}
			}
			how := "user"
			for _, ch := range chs {
				if _, existed := r.prevMeta[ch.Key()]; existed && r.renamedViaPeer[ch.Key()] {
					how = "collides-with-free-channel-renamed-via-non-bootstrapper"
				}
			}
			if auto >= 2 {
				how = "auto-index-created-twice"
			} else if auto == 1 {
				how = "auto-index-collides"
			}
			keys := []string{}
			for _, ch := range chs {
				keys = append(keys, strconv.Itoa(int(ch.Key())))
			}
			sort.Strings(keys)
			r.report(step, fmt.Sprintf("C15 NamesUnique how=%s after=%s gateway-is-bootstrapper=%v", how, after, s.G == 1),
				fmt.Sprintf("step %d (%s through node %d): %d channels named %q exist (keys %s) with name validation on",
					step, after, s.G, len(chs), name, strings.Join(keys, ",")))
		}
		// ---- (b) cross-store: metadata leased to n == engine[n], field by field
		now := map[string]bool{}
		open := func(id, sig, what string, still func(vAuth, vEngs) bool) {
			now[id] = true
			if _, seen := r.diffs[id]; !seen {
				r.diffs[id] = &vDiff{sig: sig, what: what, step: step, tolerated: s.Cut > 0 && !ok, fromFail: !ok, still: still}
			}
		}
		// other-lease: the request has an entry of that name on a different leaseholder
		xlease := func(name string, key channel.Key) string {
			if s.T != "create" {
				return ""
			}
			found, other := false, false
			for _, e := range s.Ents {
				// a calculated entry also brings its auto-created free index "<name>_time"
				autoIdx := e.Kind == "calc" && e.Name+"_time" == name
				if e.Name != name && !autoIdx {
					continue
				}
				found = true
				l := e.Lease
				if e.Kind == "free" || e.Kind == "calc" || autoIdx {
					l = 0
				}
				if vRealLease(l) != key.Leaseholder() {
					other = true
				}
			}
			if !found {
				return ""
			}
			return " other-lease=" + strconv.FormatBool(other)
		}
		for k := 1; k <= r.n; k++ {
			for key, ech := range engs[k] {
				mch, inMeta := auth[key]
				if int(key.Leaseholder()) != k {
					open(fmt.Sprintf("wrong-engine %d@%d", key, k), "C15 CrossStore engine-holds-foreign-key kind="+vEngKind(ech)+" after="+after,
						fmt.Sprintf("step %d (%s): node %d's engine holds channel %q key %d whose leaseholder is %d", step, after, k, ech.Name, key, key.Leaseholder()),
						func(_ vAuth, e vEngs) bool { _, in := e[k][key]; return in })
					continue
				}
				if !inMeta {
					open(fmt.Sprintf("extra %d", key), "C15 CrossStore engine-extra kind="+vEngKind(ech)+" after="+after+xlease(ech.Name, key),
						fmt.Sprintf("first seen at step %d (%s through node %d): node %d's engine has channel %q key %d (%s) that cluster metadata does not have",
							step, after, s.G, k, ech.Name, key, vEngKind(ech)),
						func(a vAuth, e vEngs) bool { _, in := e[k][key]; _, m := a[key]; return in && !m })
					continue
				}
				var f []string
				if mch.Name != ech.Name {
					f = append(f, "name")
				}
				if mch.DataType != ech.DataType {
					f = append(f, "data-type")
				}
				if mch.IsIndex != ech.IsIndex {
					f = append(f, "is-index")
				}
				if mch.Virtual != ech.Virtual {
					f = append(f, "virtual")
				}
				if uint32(mch.Index()) != ech.Index {
					f = append(f, "index")
				}
				if len(f) > 0 {
					open(fmt.Sprintf("field %d %v", key, f), "C15 CrossStore field-mismatch fields="+strings.Join(f, ",")+" kind="+vEngKind(ech)+" after="+after,
						fmt.Sprintf("first seen at step %d (%s): channel key %d metadata={name %q dt %s index %d isidx %v virt %v} engine={name %q dt %s index %d isidx %v virt %v}",
							step, after, key, mch.Name, mch.DataType, mch.Index(), mch.IsIndex, mch.Virtual, ech.Name, ech.DataType, ech.Index, ech.IsIndex, ech.Virtual),
						func(a vAuth, e vEngs) bool {
							m, inM := a[key]
							c, inE := e[k][key]
							return inM && inE && (m.Name != c.Name || m.DataType != c.DataType || m.IsIndex != c.IsIndex ||
								m.Virtual != c.Virtual || uint32(m.Index()) != c.Index)
						})
				}
			}
		}
		for key, mch := range auth {
			l := int(key.Leaseholder())
			if key.Free() || l < 1 || l > r.n {
				continue
			}
			if _, inEng := engs[l][key]; !inEng {
				open(fmt.Sprintf("missing %d", key), "C15 CrossStore engine-missing kind="+vKind(mch)+" after="+after,
					fmt.Sprintf("first seen at step %d (%s through node %d): metadata has channel %q key %d (%s) but leaseholder %d's engine does not",
						step, after, s.G, mch.Name, key, vKind(mch), l),
					func(a vAuth, e vEngs) bool { _, in := e[l][key]; _, m := a[key]; return m && !in })
			}
		}
		for id, d := range r.diffs {
			if !now[id] {
				delete(r.diffs, id)
				continue
			}
			r.stats["crossstore-diff-steps"]++
			if d.tolerated {
				r.stats["tolerated-chained-tx-leftovers"]++
				continue
			}
			// judged after successful requests (the statement's antecedent) and after restarts
			if ok && (s.T != "restart" || !d.fromFail) && !d.reported {
				d.reported = true
				what := d.what
				if d.step != step {
					what += fmt.Sprintf("; still so after the successful request of step %d (%s)", step, after)
				}
				r.report(step, d.sig, what)
			}
		}
		// ---- (b) deleted channels are gone at both layers
		if ok && s.T != "restart" {
			for key, ch := range r.prevMeta {
				if _, still := auth[key]; !still && !ch.Internal {
					r.gone[key] = vKind(ch) + " after=" + after + xlease(ch.Name, key)
				}
			}
		}
		if ok && s.T == "delete" {
			// what a successful delete was asked to delete is deleted, whatever is observed
			for _, e := range s.Ents {
				if ch, was := r.prevMeta[r.keyOf[e.Name]]; was && !ch.Internal {
					r.gone[ch.Key()] = vKind(ch) + " after=" + after
				}
			}
		}
		for key := range r.gone {
			_, back := auth[key]
			_, was := r.prevMeta[key]
			if back && !was {
				delete(r.gone, key) // re-created under a reused key: the KeysUnique clause reports that
			}
		}
		for key, kind := range r.gone {
			r.stats["gone-checks"]++
			sk := key.StorageKey()
			lh := int(key.Leaseholder())
			for k := 1; k <= r.n; k++ {
				nd := r.c.nodes[k]
				var got channel.Channel
				if err := nd.Channel.NewRetrieve().Where(channel.MatchKeys(key)).Entry(&got).Exec(ctx, nil); err == nil {
					r.report(step, "C15 DeletedIsGone layer=distribution op=retrieve kind="+kind,
						fmt.Sprintf("step %d: deleted channel key %d still retrievable from the channel service on node %d", step, key, k))
				}
				if w, err := nd.Framer.OpenWriter(ctx, framer.WriterConfig{Keys: channel.Keys{key}, Start: telem.SecondTS}); err == nil {
					_ = w.Close()
					r.report(step, "C15 DeletedIsGone layer=distribution op=open-writer kind="+kind,
						fmt.Sprintf("step %d: framer writer opened on deleted channel key %d through node %d", step, key, k))
				}
				if it, err := nd.Framer.OpenIterator(ctx, framer.IteratorConfig{Keys: channel.Keys{key}, Bounds: telem.TimeRangeMax}); err == nil {
					_ = it.Close()
					r.report(step, "C15 DeletedIsGone layer=distribution op=open-iterator kind="+kind,
						fmt.Sprintf("step %d: framer iterator opened on deleted channel key %d through node %d", step, key, k))
				}
				if k != lh {
					continue
				}
				ts := nd.Storage.TS
				if _, err := ts.RetrieveChannel(ctx, sk); err == nil {
					r.report(step, "C15 DeletedIsGone layer=engine op=retrieve kind="+kind,
						fmt.Sprintf("step %d: deleted channel key %d is still retrievable from leaseholder %d's engine", step, key, k))
				}
				if w, err := ts.OpenWriter(ctx, cesium.WriterConfig{Channels: []cesium.ChannelKey{sk}, Start: telem.SecondTS}); err == nil {
					_ = w.Close()
					r.report(step, "C15 DeletedIsGone layer=engine op=open-writer kind="+kind,
						fmt.Sprintf("step %d: engine writer opened on deleted channel key %d on leaseholder %d", step, key, k))
				}
				if it, err := ts.OpenIterator(cesium.IteratorConfig{Channels: []cesium.ChannelKey{sk}, Bounds: telem.TimeRangeMax}); err == nil {
					_ = it.Close()
					r.report(step, "C15 DeletedIsGone layer=engine op=open-iterator kind="+kind,
						fmt.Sprintf("step %d: engine iterator opened on deleted channel key %d on leaseholder %d", step, key, k))
				}
			}
		}
		// ---- (a) conformance with the specification's post-state
		expOK := s.Res == "ok"
		if s.T != "restart" && expOK != ok {
			setDrift(step, "outcome", s.Res+" "+s.Why, fmt.Sprintf("ok=%v %s", ok, errs))
		}
		if s.T == "create" && ok && expOK {
			exp := map[string]string{}
			for _, x := range s.Ret {
				exp[x.Name] = x.Key.String()
			}
			act := map[string]string{}
			for _, ch := range ret {
				act[ch.Name] = r.specKey(ch.Key()).String()
			}
			if fmt.Sprint(exp) != fmt.Sprint(act) {
				setDrift(step, "returned keys", fmt.Sprint(exp), fmt.Sprint(act))
			}
		}
		var am []vChan
		for key, ch := range auth {
			if !r.baseKeys[key] {
				am = append(am, vChanOfMeta(r, ch))
			}
		}
		if e, a := vFmtSet(s.Meta, false), vFmtSet(am, false); e != a {
			setDrift(step, "metadata", e, a)
		}
		for k := 1; k <= r.n; k++ {
			var ae []vChan
			for key, ch := range engs[k] {
				if !r.baseKeys[key] {
					ae = append(ae, vChanOfEng(r, ch))
				}
			}
			var ee []vChan
			if k-1 < len(s.Eng) {
				ee = s.Eng[k-1]
			}
			if e, a := vFmtSet(ee, true), vFmtSet(ae, true); e != a {
				setDrift(step, fmt.Sprintf("engine[%d]", k), e, a)
			}
		}
		// baseline channels must survive untouched in both layers
		for key := range r.baseKeys {
			if _, ok := auth[key]; !ok {
				setDrift(step, "baseline", "internal channel "+strconv.Itoa(int(key))+" present", "absent from metadata")
			}
		}
		r.prevMeta = auth
	}
	// ---- closing probe: one more valid create on every key counter (free + each
	// leaseholder), through node 1. A counter left behind the keys it already handed
	// out (however the specification's exact key values compare) shows here as a key
	// that is handed out a second time. A probe that fails is not judged.
	{
		step := len(h.Steps) + 1
		ps := vStep{T: "create", G: 1, Ents: []vEnt{{Name: "zzprobe0", Kind: "free"}}}
		for k := 1; k <= r.n; k++ {
			ps.Ents = append(ps.Ents, vEnt{Name: "zzprobe" + strconv.Itoa(k), Kind: "virtual", Lease: k})
		}
		ret, _, perr := r.exec(ps)
		if perr == nil {
			r.stats["probes"]++
			pauth, err := r.quiesce()
			if err != nil {
				return vOut{ID: h.ID, R: "inconclusive", Note: fmt.Sprintf("probe: %v", err), Log: r.log}
			}
			// the probe is a successful request: what a FAILED last request left behind and
			// is still there now is judged like after any other successful request
			pengs := vEngs{}
			for k := 1; k <= r.n; k++ {
				pengs[k] = r.engineOn(k)
			}
			for _, d := range r.diffs {
				if !d.reported && !d.tolerated && d.still != nil && d.still(pauth, pengs) {
					d.reported = true
					r.stats["judged-at-closing-probe"]++
					r.report(step, d.sig, d.what+"; still so after the successful closing probe create")
				}
			}
			for _, ch := range ret {
				key := ch.Key()
				if first, used := r.everUsed[key]; used {
					what := "deleted"
					if r.baseKeys[key] {
						what = "pre-existing"
					} else if _, live := r.prevMeta[key]; live {
						what = "live"
					}
					r.report(step, "C15 KeysUnique key reused kind="+vKind(ch)+" previous="+what,
						fmt.Sprintf("closing probe: new channel %q got key %d (lease %d, local %d) which was already assigned at step %d",
							ch.Name, key, key.Leaseholder(), key.LocalKey(), first))
				}
			}
		} else {
			r.stats["probes-failed"]++
		}
	}
	out.Stats = r.stats
	out.Stats["steps"] = len(h.Steps)
	for _, d := range r.diffs {
		if !d.reported && !d.tolerated {
			out.Pending = append(out.Pending, vViol{Sig: d.sig, What: d.what, Step: d.step})
		}
	}
	switch {
	case len(r.viol) > 0:
		out.R, out.Viol, out.Drift, out.Log = "viol", r.viol, drift, r.log
	case drift != nil:
		out.R, out.Drift, out.Log = "drift", drift, r.log
	case len(out.Pending) > 0:
		out.R, out.Log = "pending", r.log
	default:
		out.R = "ok"
	}
	return out
}

// ---------------------------------------------------------------- driver

func TestVerifChannelReplay(t *testing.T) {
	in, outp := os.Getenv("VERIF_IN"), os.Getenv("VERIF_OUT")
	if in == "" || outp == "" {
		t.Skip("VERIF_IN / VERIF_OUT not set")
	}
	workers := 6
	if w, err := strconv.Atoi(os.Getenv("VERIF_WORKERS")); err == nil && w > 0 {
		workers = w
	}
	if ms, err := strconv.Atoi(os.Getenv("VERIF_INDEX_WAIT_MS")); err == nil && ms > 0 {
		vIdxWait = time.Duration(ms) * time.Millisecond
	}
	timeout := 20 * time.Second
	if s, err := strconv.Atoi(os.Getenv("VERIF_QUIESCE_S")); err == nil && s > 0 {
		timeout = time.Duration(s) * time.Second
	}
	f, err := os.Open(in)
	if err != nil {
		t.Fatal(err)
	}
	defer f.Close()
	var hists []vHist
	sc := bufio.NewScanner(f)
	sc.Buffer(make([]byte, 1<<20), 1<<28)
	for sc.Scan() {
		var h vHist
		if err := json.Unmarshal(sc.Bytes(), &h); err != nil {
			t.Fatalf("bad history line: %v", err)
		}
		hists = append(hists, h)
	}
	of, err := os.Create(outp)
	if err != nil {
		t.Fatal(err)
	}
	defer of.Close()
	var mu sync.Mutex
	enc := json.NewEncoder(of)
	jobs := make(chan vHist)
	var wg sync.WaitGroup
	counts := map[string]int{}
	for w := 0; w < workers; w++ {
		wg.Add(1)
		go func() {
			defer wg.Done()
			for h := range jobs {
				o := vReplay(context.Background(), h, timeout)
				mu.Lock()
				counts[o.R]++
				if o.R != "ok" {
					_ = enc.Encode(o)
				}
				for k, v := range o.Stats {
					counts["stat:"+k] += v
				}
				mu.Unlock()
			}
		}()
	}
	t0 := time.Now()
	for _, h := range hists {
		jobs <- h
	}
	close(jobs)
	wg.Wait()
	vReaper.Wait()
	summ := map[string]any{"summary": true, "replayed": len(hists), "counts": counts, "wall_s": time.Since(t0).Seconds()}
	_ = enc.Encode(summ)
}
