//go:build verif

// Replay of DistFramer.tla behaviours into a real in-memory 1-3 node cluster (C07,
// DESIGN.md). External test package: public APIs only. Injected with
// `go test -overlay`; never part of /repo. All identifiers are prefixed vf (the C15
// harness lives in the same package).
//
// For every behaviour (placement, gateway choices, script): the cluster is provisioned,
// the channels are created with the placement (channel.Channel.Leaseholder), and every
// client call of the script (open / write / commit / close / iread) is made on the
// distribution-layer framer of the gateway the script names. Judged, from REAL
// observations against what the property states:
//
//	read       an iterator opened on ANY node returns, for every channel and range, exactly
//	           the samples of the specification's single-node store (cm)
//	placement  each node's cesium (Storage.TS) holds a channel's samples iff it is the
//	           leaseholder; free channels are stored nowhere
//	ack        immediately after Commit returned, every involved leaseholder's cesium
//	           already returns the committed samples (one peer is slowed down by a
//	           recording / delaying transport middleware so that an early ack is visible);
//	           the recorded events are also written out for DistFramerTrace.tla
//	open       opening a writer / iterator on a key that does not exist fails
//	lost       samples of an auto-committing non-Sync writer never arrive
//
// Anything else that differs from the specification (error kinds, a call that fails
// although the specification accepts it, hangs) is "diverged"/"hang": never a verdict.
package mock_test

import (
	"bufio"
	"bytes"
	"context"
	"encoding/json"
	"fmt"
	"os"
	"runtime"
	"sort"
	"strconv"
	"strings"
	"sync"
	"sync/atomic"
	"testing"
	"time"

	"github.com/synnaxlabs/aspen"
	aspentransmock "github.com/synnaxlabs/aspen/transport/mock"
	"github.com/synnaxlabs/synnax/pkg/distribution"
	"github.com/synnaxlabs/synnax/pkg/distribution/channel"
	"github.com/synnaxlabs/synnax/pkg/distribution/framer/deleter"
	"github.com/synnaxlabs/synnax/pkg/distribution/framer/frame"
	"github.com/synnaxlabs/synnax/pkg/distribution/framer/iterator"
	"github.com/synnaxlabs/synnax/pkg/distribution/framer/relay"
	"github.com/synnaxlabs/synnax/pkg/distribution/framer/writer"
	"github.com/synnaxlabs/synnax/pkg/distribution/node"
	tmock "github.com/synnaxlabs/synnax/pkg/distribution/transport/mock"
	"github.com/synnaxlabs/synnax/pkg/storage"
	"github.com/synnaxlabs/x/address"
	"github.com/synnaxlabs/x/control"
	"github.com/synnaxlabs/x/telem"
)

// ---------------------------------------------------------------- history format

type vfStep struct {
	A    string                    `json:"a"`
	Args json.RawMessage           `json:"args"`
	Res  string                    `json:"res"`
	Cm   map[string]map[string]int `json:"cm"`
}

type vfSetupArgs struct {
	Nodes int            `json:"nodes"`
	Lease map[string]int `json:"lease"`
	Free  bool           `json:"free"`
}
type vfOpenArgs struct {
	W     string   `json:"w"`
	G     int      `json:"g"`
	Keys  []string `json:"keys"`
	Start int      `json:"start"`
	Sync  bool     `json:"sync"`
	Auto  bool     `json:"auto"`
}
type vfWriteArgs struct {
	W        string   `json:"w"`
	Chans    []string `json:"chans"`
	Times    []int    `json:"times"`
	ID       int      `json:"id"`
	Partial  bool     `json:"partial"`
	DataOnly []string `json:"dataonly"`
}
type vfWArgs struct {
	W string `json:"w"`
}
type vfIReadArgs struct {
	G    int      `json:"g"`
	Keys []string `json:"keys"`
	A    int      `json:"a"`
	B    int      `json:"b"`
}

// ---------------------------------------------------------------- concretisation

// vfConc chooses everything the abstract behaviour leaves open.
type vfConc struct {
	TSMap   int `json:"tsmap"`   // 0: 1 s spacing, 1: 7 ns spacing, 2: irregular
	DType   int `json:"dtype"`   // data type of group A's data channel (B, C rotate): 0 int64, 1 float32, 2 string
	Creator int `json:"creator"` // node (1-based, modulo cluster size) through which the channels are created
	Unknown int `json:"unknown"` // shape of the non-existent key: 0 unused local key on a real node, 1 node that is not in the cluster, 2 unused free key
	Slow    int `json:"slow"`    // node whose writer server is slowed down (0: none)
	Salt    int `json:"salt"`    // seed of the read battery
}

func vfConcFromSeed(seed int64, i int) vfConc {
	x := uint64(seed)*0x9E3779B97F4A7C15 + uint64(i)*0xBF58476D1CE4E5B9 + 77
	x ^= x >> 31
	n := func(k uint64) int { x = x*6364136223846793005 + 1442695040888963407; return int((x >> 33) % k) }
	return vfConc{TSMap: n(3), DType: n(3), Creator: n(3) + 1, Unknown: n(3), Slow: n(4), Salt: n(1 << 20)}
}

// ts maps abstract time (even = sample slots, odd = points between) to timestamps
// (same scheme as the cesium store harness).
func (c vfConc) ts(x int) telem.TimeStamp {
	base := telem.TimeStamp(1_000_000_000_000_000)
	k := x / 2
	var even, gapNext telem.TimeStamp
	switch c.TSMap {
	case 0:
		even = base + telem.TimeStamp(k)*telem.TimeStamp(telem.Second)
		gapNext = telem.TimeStamp(telem.Second)
	case 1:
		even = base + telem.TimeStamp(k)*7
		gapNext = 7
	default:
		gaps := []telem.TimeStamp{2, telem.TimeStamp(3 * telem.Hour), 5, telem.TimeStamp(telem.Second), 11, 2, telem.TimeStamp(telem.Minute), 3}
		even = base
		for i := 0; i < k; i++ {
			even += gaps[i%len(gaps)]
		}
		gapNext = gaps[k%len(gaps)]
	}
	if x%2 == 0 {
		return even
	}
	if k%2 == 0 || gapNext <= 2 {
		return even + 1
	}
	return even + gapNext/2
}

func vfGroupOf(ch string) string { return ch[:1] }
func vfIsIdx(ch string) bool     { return strings.HasSuffix(ch, "i") }

func (c vfConc) dtypeOf(ch string) telem.DataType {
	if ch == "F" {
		return telem.Int64T
	}
	if vfIsIdx(ch) {
		return telem.TimeStampT
	}
	k := (c.DType + int(ch[0]-'A')) % 3
	return []telem.DataType{telem.Int64T, telem.Float32T, telem.StringT}[k]
}

// value identities: (channel, abstract time, write id) -> distinguishable bytes.
func (c vfConc) val(ch string, t, id int) []byte {
	if vfIsIdx(ch) && ch != "F" {
		return telem.NewSeriesV[telem.TimeStamp](c.ts(t)).Data
	}
	switch c.dtypeOf(ch) {
	case telem.Int64T:
		return telem.NewSeriesV[int64](int64(id*1000 + t + 100000*int(ch[0]-'A'))).Data
	case telem.Float32T:
		return telem.NewSeriesV[float32](float32(id*1000+t) + 0.5).Data
	}
	return []byte(fmt.Sprintf("%s_%d_%d%s", ch, id, t, strings.Repeat("x", (t+id)%3)))
}

func (c vfConc) series(ch string, times []int, id int) telem.Series {
	dt := c.dtypeOf(ch)
	var b bytes.Buffer
	for _, t := range times {
		v := c.val(ch, t, id)
		if dt.IsVariable() {
			b.Write(telem.MarshalVariableSample(v))
		} else {
			b.Write(v)
		}
	}
	return telem.Series{DataType: dt, Data: b.Bytes()}
}

// ---------------------------------------------------------------- recording transport

type vfEvent struct {
	Ev    string   `json:"ev"`
	W     string   `json:"w"`
	N     int      `json:"n"`
	Cmd   string   `json:"cmd"`
	Seq   int      `json:"seq"`
	Keys  []string `json:"keys"`
	Chans []string `json:"chans"`
	Times []int    `json:"times"`
	Start int      `json:"start"`
	Sync  bool     `json:"sync"`
	Auto  bool     `json:"auto"`
}

type vfRec struct {
	mu     sync.Mutex
	events []vfEvent
	slow  int
}

func (r *vfRec) add(e vfEvent) {
	r.mu.Lock()
	r.events = append(r.events, e)
	r.mu.Unlock()
}

func (r *vfRec) snapshot() []vfEvent {
	r.mu.Lock()
	defer r.mu.Unlock()
	return append([]vfEvent(nil), r.events...)
}

func vfCmd(c writer.Command) string {
	switch c {
	case writer.CommandWrite:
		return "write"
	case writer.CommandCommit:
		return "commit"
	case writer.CommandOpen:
		return "open"
	}
	return "other"
}

type vfWTransport struct {
	inner writer.Transport
	rec   *vfRec
	node  int
}

func (t vfWTransport) Client() writer.TransportClient { return t.inner.Client() }
func (t vfWTransport) Server() writer.TransportServer {
	return vfWServer{TransportServer: t.inner.Server(), rec: t.rec, node: t.node}
}

type vfWServer struct {
	writer.TransportServer
	rec  *vfRec
	node int
}

func (s vfWServer) BindHandler(h func(ctx context.Context, st writer.ServerStream) error) {
	s.TransportServer.BindHandler(func(ctx context.Context, st writer.ServerStream) error {
		return h(ctx, &vfWStream{ServerStream: st, rec: s.rec, node: s.node})
	})
}

// vfWStream records, on the PEER side, the arrival of every request and the departure of
// every response (a response to a commit leaves after that leaseholder committed).
type vfWStream struct {
	writer.ServerStream
	rec  *vfRec
	node int
	w    string
}

func (s *vfWStream) Receive() (writer.Request, error) {
	req, err := s.ServerStream.Receive()
	if err != nil {
		return req, err
	}
	if s.w == "" {
		s.w = req.Config.ControlSubject.Key // the harness names every writer's control subject after the script's writer
		s.rec.add(vfEvent{Ev: "peer.open", W: s.w, N: s.node})
		return req, err
	}
	if s.rec.slow == s.node && (req.Command == writer.CommandCommit || req.Command == writer.CommandWrite) {
		time.Sleep(12 * time.Millisecond)
	}
	s.rec.add(vfEvent{Ev: "peer.recv", W: s.w, N: s.node, Cmd: vfCmd(req.Command), Seq: req.SeqNum})
	return req, err
}

func (s *vfWStream) Send(res writer.Response) error {
	s.rec.add(vfEvent{Ev: "peer.send", W: s.w, N: s.node, Cmd: vfCmd(res.Command), Seq: res.SeqNum})
	return s.ServerStream.Send(res)
}

// ---------------------------------------------------------------- cluster

type vfFramerTransport struct {
	iter    iterator.Transport
	writer  writer.Transport
	relay   relay.Transport
	deleter deleter.Transport
}

func (m vfFramerTransport) Iterator() iterator.Transport { return m.iter }
func (m vfFramerTransport) Writer() writer.Transport     { return m.writer }
func (m vfFramerTransport) Relay() relay.Transport       { return m.relay }
func (m vfFramerTransport) Deleter() deleter.Transport   { return m.deleter }

type vfNode struct {
	*distribution.Layer
	Storage *storage.Layer
}

type vfCluster struct {
	nodes map[int]*vfNode
	rec   *vfRec
}

var vfReaper sync.WaitGroup

func vfProvision(ctx context.Context, n int, rec *vfRec) (*vfCluster, error) {
	c := &vfCluster{nodes: map[int]*vfNode{}, rec: rec}
	var (
		writerNet = tmock.NewWriterNetwork()
		iterNet   = tmock.NewIteratorNetwork()
		chNet     = tmock.NewChannelNetwork()
		relayNet  = tmock.NewRelayNetwork()
		delNet    = tmock.NewDeleterNetwork()
		aspenNet  = aspentransmock.NewNetwork()
		af        = address.NewLocalFactory(0)
	)
	for k := 1; k <= n; k++ {
		peers := af.Generated()
		addr := af.Next()
		t, f := true, false
		st, err := storage.OpenLayer(ctx, storage.LayerConfig{InMemory: &t})
		if err != nil {
			return c, err
		}
		l, err := distribution.OpenLayer(ctx, distribution.LayerConfig{
			Storage: st,
			FrameTransport: vfFramerTransport{iter: iterNet.New(addr, 1),
				writer: vfWTransport{inner: writerNet.New(addr, 1), rec: rec, node: k},
				relay:  relayNet.New(addr, 1), deleter: delNet.New(addr)},
			ChannelTransport:     chNet.New(addr),
			AspenTransport:       aspenNet.NewTransport(),
			AdvertiseAddress:     addr,
			PeerAddresses:        peers,
			AspenOptions:         []aspen.Option{aspen.WithPropagationConfig(aspen.FastPropagationConfig)},
			EnableServiceSignals: &f,
		})
		if err != nil {
			_ = st.Close()
			return c, err
		}
		if int(l.Cluster.HostKey()) != k {
			return c, fmt.Errorf("provision: node got key %d, want %d", l.Cluster.HostKey(), k)
		}
		c.nodes[k] = &vfNode{Layer: l, Storage: st}
		dl := time.Now().Add(30 * time.Second)
		for _, x := range c.nodes {
			for {
				ok := len(x.Cluster.Nodes()) == len(c.nodes)
				for j := range c.nodes {
					if _, err := x.Cluster.Resolve(node.Key(j)); err != nil {
						ok = false
					}
				}
				if ok {
					break
				}
				if time.Now().After(dl) {
					return c, fmt.Errorf("topology did not stabilise")
				}
				time.Sleep(time.Millisecond)
			}
		}
	}
	return c, nil
}

// close shuts the layers down; the storages are closed a little later (aspen flushes its
// cluster state from a detached goroutine that panics when it loses that race).
func (c *vfCluster) close() {
	for _, n := range c.nodes {
		_ = n.Layer.Close()
	}
	vfReaper.Add(1)
	go func() {
		defer vfReaper.Done()
		time.Sleep(150 * time.Millisecond)
		for _, n := range c.nodes {
			_ = n.Storage.Close()
		}
	}()
}

// ---------------------------------------------------------------- results

type vfViol struct {
	Kind string `json:"kind"` // read | placement | ack | open | lost | panic
	Sig  string `json:"sig"`
	Step int    `json:"step"`
	What string `json:"what"`
	Exp  string `json:"exp,omitempty"`
	Act  string `json:"act,omitempty"`
}

type vfResult struct {
	I     int      `json:"i"`
	R     string   `json:"r"` // ok | viol | diverged | hang | inconclusive
	Conc  vfConc   `json:"conc"`
	V     *vfViol  `json:"v,omitempty"`
	Note  string   `json:"note,omitempty"`
	Taint string   `json:"tainted,omitempty"`
	Trace []string `json:"trace,omitempty"`
}

type vfStats struct {
	scripts, steps, iterReads, storeReads, ackChecks, slowCommits, peerCommits, failedOpens, partialFrames,
	dataOnly, freeFrames, remoteOnly, mixedWrites, lastEndNotMax, commits, unauthorized, hangs, settles, traces, tainted, setupRetries, setBounds atomic.Int64
}

var vfDebug = os.Getenv("VERIF_DEBUG") == "1"

// vfCall runs f under a watchdog. A call that does not return is a hang (goroutine leaked).
func vfCall[T any](d time.Duration, f func() (T, error)) (v T, err error, hung bool) {
	type r struct {
		v   T
		err error
	}
	c := make(chan r, 1)
	go func() {
		defer func() {
			if p := recover(); p != nil {
				var z T
				c <- r{z, fmt.Errorf("PANIC: %v", p)}
			}
		}()
		v, err := f()
		c <- r{v, err}
	}()
	select {
	case x := <-c:
		return x.v, x.err, false
	case <-time.After(d):
		return v, fmt.Errorf("HANG: call did not return within %s", d), true
	}
}

const vfWatchdog = 8 * time.Second

// ---------------------------------------------------------------- the runner

type vfWriterState struct {
	sent   map[int]bool // peers that already received a request of this writer
	w      *writer.Writer
	args   vfOpenArgs
	keys   channel.Keys
	seq    int
	dirty  bool // auto-committing non-Sync writer with writes not yet known to have arrived
	maxEnd telem.TimeStamp
}

type vfRunner struct {
	c       vfConc
	cl      *vfCluster
	setup   vfSetupArgs
	keys    map[string]channel.Key // spec channel -> real key
	names   map[channel.Key]string
	stored  []string // stored channels in a fixed order
	writers map[string]*vfWriterState
	maxT    int
	stats   *vfStats
	rng     uint64
	step    int
	// set once a Write frame lacked a series for a peer leaseholder that had already
	// received a request: the code re-sends that peer its previous request (known finding)
	tainted  string
	hungRead bool
}

func (r *vfRunner) rnd(k int) int {
	r.rng = r.rng*6364136223846793005 + 1442695040888963407
	return int((r.rng >> 33) % uint64(k))
}

func (r *vfRunner) leaseOf(ch string) int {
	if ch == "F" {
		return 0
	}
	return r.setup.Lease[vfGroupOf(ch)]
}

func (r *vfRunner) leases(chs []string) []int {
	out := make([]int, len(chs))
	for i, ch := range chs {
		out[i] = r.leaseOf(ch)
	}
	return out
}

func (r *vfRunner) createChannels(ctx context.Context) error {
	creator := r.cl.nodes[(r.c.Creator+r.setup.Nodes-1)%r.setup.Nodes+1]
	groups := make([]string, 0, len(r.setup.Lease))
	for g := range r.setup.Lease {
		groups = append(groups, g)
	}
	sort.Strings(groups)
	for _, g := range groups {
		lease := node.Key(r.setup.Lease[g])
		idx := channel.Channel{Name: "vf_" + g + "i", IsIndex: true, DataType: telem.TimeStampT, Leaseholder: lease}
		if err := creator.Channel.Create(ctx, &idx); err != nil {
			return err
		}
		dat := channel.Channel{Name: "vf_" + g + "d", DataType: r.c.dtypeOf(g + "d"), LocalIndex: idx.LocalKey, Leaseholder: lease}
		if err := creator.Channel.Create(ctx, &dat); err != nil {
			return err
		}
		if idx.Key().Leaseholder() != lease || dat.Key().Leaseholder() != lease {
			return fmt.Errorf("channel key does not embed the requested leaseholder")
		}
		r.keys[g+"i"], r.keys[g+"d"] = idx.Key(), dat.Key()
		r.stored = append(r.stored, g+"i", g+"d")
	}
	if r.setup.Free {
		f := channel.Channel{Name: "vf_F", DataType: telem.Int64T, Virtual: true, Leaseholder: node.KeyFree}
		if err := creator.Channel.Create(ctx, &f); err != nil {
			return err
		}
		r.keys["F"] = f.Key()
	}
	// the key that does not exist
	switch r.c.Unknown {
	case 0:
		r.keys["X"] = channel.NewKey(node.Key(r.setup.Lease[groups[0]]), 9999)
	case 1:
		r.keys["X"] = channel.NewKey(node.Key(7), 2)
	default:
		r.keys["X"] = channel.NewKey(node.KeyFree, 9999)
	}
	for n, k := range r.keys {
		r.names[k] = n
	}
	// metadata reaches the other nodes through aspen gossip: wait for it
	all := make(channel.Keys, 0, len(r.keys))
	for n, k := range r.keys {
		if n != "X" {
			all = append(all, k)
		}
	}
	dl := time.Now().Add(15 * time.Second)
	for _, n := range r.cl.nodes {
		for {
			var chs []channel.Channel
			err := n.Channel.NewRetrieve().Entries(&chs).Where(channel.MatchKeys(all...)).Exec(ctx, nil)
			if err == nil && len(chs) == len(all) {
				break
			}
			if time.Now().After(dl) {
				return fmt.Errorf("gossip timeout: channel metadata did not reach every node (%v)", err)
			}
			time.Sleep(time.Millisecond)
		}
	}
	return nil
}

func (r *vfRunner) realKeys(chs []string) channel.Keys {
	out := make(channel.Keys, 0, len(chs))
	for _, c := range chs {
		out = append(out, r.keys[c])
	}
	return out
}

// expected returns the spec's Read(c, a, b) as concrete sample bytes, in time order.
func (r *vfRunner) expected(cm map[string]map[string]int, ch string, a, b telem.TimeStamp) [][]byte {
	m := cm[ch]
	times := make([]int, 0, len(m))
	for k, id := range m {
		if id != 0 {
			t, _ := strconv.Atoi(k)
			times = append(times, t)
		}
	}
	sort.Ints(times)
	var out [][]byte
	for _, t := range times {
		ts := r.c.ts(t)
		if ts < a || ts >= b {
			continue
		}
		out = append(out, r.c.val(ch, t, m[strconv.Itoa(t)]))
	}
	return out
}

func vfEqual(a, b [][]byte) bool {
	if len(a) != len(b) {
		return false
	}
	for i := range a {
		if !bytes.Equal(a[i], b[i]) {
			return false
		}
	}
	return true
}

func (r *vfRunner) show(x [][]byte, ch string) string {
	parts := make([]string, len(x))
	dt := r.c.dtypeOf(ch)
	for i, b := range x {
		switch {
		case dt == telem.StringT:
			parts[i] = strconv.Quote(string(b))
		case len(b) == 8:
			parts[i] = strconv.FormatInt(int64(telem.ByteOrder.Uint64(b)), 10)
		default:
			parts[i] = fmt.Sprintf("%x", b)
		}
	}
	return "[" + strings.Join(parts, ",") + "]"
}

// flatten returns the samples of channel key in fr, series in the order returned
// (sorted by time range start when `sorted`).
func vfFlatten(fr frame.Frame, key channel.Key, sorted bool) [][]byte {
	var ss []telem.Series
	for k, s := range fr.Entries() {
		if k == key {
			ss = append(ss, s)
		}
	}
	if sorted {
		sort.SliceStable(ss, func(i, j int) bool { return ss[i].TimeRange.Start < ss[j].TimeRange.Start })
	}
	var out [][]byte
	for _, s := range ss {
		for smp := range s.Samples() {
			out = append(out, append([]byte(nil), smp...))
		}
	}
	return out
}

// iterRead performs one distributed read on node g: open an iterator over chs and
// [lo,hi), one command sequence (mode 0: SeekFirst, Next(max) x2; mode 1: SeekLast,
// Prev(max) x2), merge the values, close. The acks are not used (pinned beyond property).
func (r *vfRunner) iterRead(g int, chs []string, lo, hi telem.TimeStamp, mode int) (frame.Frame, error, bool) {
	ctx := context.Background()
	return vfCall(vfWatchdog, func() (frame.Frame, error) {
		// modes 2 / 3: the iterator is opened unbounded and the range is set afterwards with
		// SetBounds on the OPEN iterator (a command broadcast like the seeks), then traversed
		bounds := telem.TimeRange{Start: lo, End: hi}
		if mode >= 2 {
			bounds = telem.TimeRangeMax
		}
		it, err := r.cl.nodes[g].Framer.OpenIterator(ctx, iterator.Config{Keys: r.realKeys(chs), Bounds: bounds})
		if err != nil {
			return frame.Frame{}, err
		}
		if mode >= 2 {
			it.SetBounds(telem.TimeRange{Start: lo, End: hi})
			r.stats.setBounds.Add(1)
		}
		var fr frame.Frame
		if mode%2 == 0 {
			it.SeekFirst()
			for k := 0; k < 2; k++ {
				it.Next(telem.TimeSpanMax)
				fr = frame.Frame{Frame: fr.Frame.Extend(it.Value().Frame)}
			}
		} else {
			it.SeekLast()
			for k := 0; k < 2; k++ {
				it.Prev(telem.TimeSpanMax)
				fr = frame.Frame{Frame: fr.Frame.Extend(it.Value().Frame)}
			}
		}
		r.stats.iterReads.Add(1)
		return fr, it.Close()
	})
}

func vfErrClass(err error) string {
	if err == nil {
		return "ok"
	}
	s := err.Error()
	switch {
	case strings.HasPrefix(s, "HANG"):
		return "hang"
	case strings.Contains(s, "not found"):
		return "notfound"
	case strings.Contains(s, "validation error") || strings.Contains(s, "free channel"):
		return "invalid"
	}
	return "err:" + s
}

// compareIter checks one distributed read against the single-node store.
func (r *vfRunner) compareIter(cm map[string]map[string]int, g int, chs []string, a, b telem.TimeStamp, mode int, note string) (*vfViol, string) {
	fr, err, hung := r.iterRead(g, chs, a, b, mode)
	if hung {
		// a read that never returns: verdict-bearing like a wrong read (the driver re-runs it once)
		r.hungRead = true
		return &vfViol{Kind: "read", Sig: "iterator never returns", Step: r.step,
			What: fmt.Sprintf("iterator opened on node %d over %v, abstract range %s, mode %d did not return within %s", g, chs, note, mode, vfWatchdog)}, ""
	}
	if err != nil {
		return &vfViol{Kind: "read", Sig: "iterator over existing channels fails", Step: r.step,
			What: fmt.Sprintf("iterator on node %d over %v [%d,%d) mode %d (%s) failed: %v", g, chs, a, b, mode, note, err)}, ""
	}
	want := map[channel.Key]bool{}
	for _, ch := range chs {
		want[r.keys[ch]] = true
	}
	for k := range fr.Entries() {
		if !want[k] {
			return &vfViol{Kind: "read", Sig: "iterator returned a channel that was not asked for", Step: r.step,
				What: fmt.Sprintf("iterator on node %d over %v returned series of channel %s (%d)", g, chs, r.names[k], k)}, ""
		}
	}
	for _, ch := range chs {
		exp := r.expected(cm, ch, a, b)
		act := vfFlatten(fr, r.keys[ch], mode%2 == 1)
		if !vfEqual(exp, act) {
			kind := "differs"
			if len(act) < len(exp) {
				kind = "misses samples"
			} else if len(act) > len(exp) {
				kind = "has extra samples"
			}
			return &vfViol{Kind: "read", Sig: "iterator " + kind, Step: r.step,
				What: fmt.Sprintf("iterator opened on node %d over %v, abstract range %s, mode %d (%s): channel %s (leaseholder %d) %s",
					g, chs, note, mode, map[int]string{0: "SeekFirst+Next", 1: "SeekLast+Prev", 2: "SetBounds+SeekFirst+Next", 3: "SetBounds+SeekLast+Prev"}[mode], ch, r.leaseOf(ch), kind),
				Exp: r.show(exp, ch), Act: r.show(act, ch)}, ""
		}
	}
	return nil, ""
}

// points are the read-range ends: every abstract time plus one point before / after all data.
func (r *vfRunner) points() []telem.TimeStamp {
	pts := []telem.TimeStamp{r.c.ts(0) - telem.TimeStamp(telem.Hour)}
	for x := 0; x <= r.maxT; x++ {
		pts = append(pts, r.c.ts(x))
	}
	return append(pts, r.c.ts(r.maxT)+telem.TimeStamp(telem.Hour), telem.TimeStampMax)
}

// storeRead reads channel ch straight from node n's cesium. absent = the channel does not
// exist in that store.
func (r *vfRunner) storeRead(n int, ch string) (vals [][]byte, absent bool, err error) {
	ctx := context.Background()
	db := r.cl.nodes[n].Storage.TS
	key := r.keys[ch].StorageKey()
	if _, err := db.RetrieveChannel(ctx, key); err != nil {
		return nil, true, nil
	}
	r.stats.storeReads.Add(1)
	fr, err := db.Read(ctx, telem.TimeRangeMax, key)
	if err != nil {
		return nil, false, err
	}
	for k, s := range fr.Entries() {
		if k != key {
			return nil, false, fmt.Errorf("cesium read of %d returned channel %d", key, k)
		}
		for smp := range s.Samples() {
			vals = append(vals, append([]byte(nil), smp...))
		}
	}
	return vals, false, nil
}

// placement: each node's store holds a channel's samples iff the node is its leaseholder.
func (r *vfRunner) comparePlacement(cm map[string]map[string]int) *vfViol {
	chs := append([]string(nil), r.stored...)
	if r.setup.Free {
		chs = append(chs, "F")
	}
	for n := 1; n <= r.setup.Nodes; n++ {
		for _, ch := range chs {
			vals, absent, err := r.storeRead(n, ch)
			if err != nil {
				return &vfViol{Kind: "placement", Sig: "leaseholder store read fails", Step: r.step,
					What: fmt.Sprintf("node %d cesium read of %s failed: %v", n, ch, err)}
			}
			if r.leaseOf(ch) != n {
				if !absent && len(vals) > 0 {
					return &vfViol{Kind: "placement", Sig: "samples stored on a node that is not the leaseholder", Step: r.step,
						What: fmt.Sprintf("node %d stores %d samples of channel %s whose leaseholder is %d", n, len(vals), ch, r.leaseOf(ch)),
						Act:  r.show(vals, ch)}
				}
				continue
			}
			exp := r.expected(cm, ch, telem.TimeStampMin, telem.TimeStampMax)
			if absent {
				return &vfViol{Kind: "placement", Sig: "channel missing from its leaseholder's store", Step: r.step,
					What: fmt.Sprintf("channel %s does not exist in the cesium of its leaseholder %d", ch, n)}
			}
			if !vfEqual(exp, vals) {
				return &vfViol{Kind: "placement", Sig: "leaseholder store differs from the single-node store", Step: r.step,
					What: fmt.Sprintf("cesium of leaseholder %d, channel %s", n, ch), Exp: r.show(exp, ch), Act: r.show(vals, ch)}
			}
		}
	}
	return nil
}

// settle waits until the samples of auto-committing non-Sync writers (fire and forget)
// have arrived at their leaseholders. Samples that never arrive are lost.
func (r *vfRunner) settle(cm map[string]map[string]int) *vfViol {
	for _, ws := range r.writers {
		if !ws.dirty {
			continue
		}
		r.stats.settles.Add(1)
		dl := time.Now().Add(10 * time.Second)
		for _, ch := range ws.args.Keys {
			if ch == "F" {
				continue
			}
			exp := r.expected(cm, ch, telem.TimeStampMin, telem.TimeStampMax)
			for {
				vals, _, err := r.storeRead(r.leaseOf(ch), ch)
				if err == nil && vfEqual(exp, vals) {
					break
				}
				if time.Now().After(dl) {
					return &vfViol{Kind: "lost", Sig: "samples of a non-Sync auto-commit writer never reached the leaseholder", Step: r.step,
						What: fmt.Sprintf("channel %s on leaseholder %d, 10 s after the write", ch, r.leaseOf(ch)), Exp: r.show(exp, ch), Act: r.show(vals, ch)}
				}
				time.Sleep(200 * time.Microsecond)
			}
		}
		ws.dirty = false
	}
	return nil
}

// battery: distributed reads from EVERY node compared with the single-node store.
func (r *vfRunner) battery(cm map[string]map[string]int, full bool) (*vfViol, string) {
	if v := r.settle(cm); v != nil {
		return v, ""
	}
	if v := r.comparePlacement(cm); v != nil {
		return v, ""
	}
	pts := r.points()
	whole := func(mode int) (telem.TimeStamp, telem.TimeStamp, string) {
		return telem.TimeStampMin, telem.TimeStampMax, "everything"
	}
	for g := 1; g <= r.setup.Nodes; g++ {
		// all stored channels, whole range, both traversal directions
		for mode := 0; mode < 2; mode++ {
			a, b, note := whole(mode)
			if v, h := r.compareIter(cm, g, r.stored, a, b, mode, note); v != nil || h != "" {
				return v, h
			}
		}
		// SetBounds on the open iterator, all channels (gateway + peer routing through the
		// broadcaster whenever the channels live on the gateway and elsewhere): the range
		// that holds everything and one seeded range, both directions
		for mode := 2; mode < 4; mode++ {
			if v, h := r.compareIter(cm, g, r.stored, pts[0], pts[len(pts)-2], mode, "all data (set by SetBounds)"); v != nil || h != "" {
				return v, h
			}
			ai := r.rnd(len(pts) - 1)
			bi := ai + r.rnd(len(pts)-ai)
			note := fmt.Sprintf("points %d..%d of %d (set by SetBounds)", ai, bi, len(pts))
			if v, h := r.compareIter(cm, g, r.stored, pts[ai], pts[bi], mode, note); v != nil || h != "" {
				return v, h
			}
		}
		// every channel alone (peer-only or gateway-only routing), whole range
		for _, ch := range r.stored {
			if v, h := r.compareIter(cm, g, []string{ch}, pts[0], pts[len(pts)-2], r.rnd(4), "all data"); v != nil || h != "" {
				return v, h
			}
		}
		// ranges
		for ai := 0; ai < len(pts); ai++ {
			for bi := ai; bi < len(pts); bi++ {
				if !full && r.rnd(12) != 0 {
					continue
				}
				chs := r.stored
				if r.rnd(3) == 0 {
					// a random non-empty subset
					var sub []string
					for _, ch := range r.stored {
						if r.rnd(2) == 0 {
							sub = append(sub, ch)
						}
					}
					if len(sub) > 0 {
						chs = sub
					}
				}
				note := fmt.Sprintf("points %d..%d of %d", ai, bi, len(pts))
				if v, h := r.compareIter(cm, g, chs, pts[ai], pts[bi], r.rnd(4), note); v != nil || h != "" {
					return v, h
				}
			}
		}
	}
	return nil, ""
}

// ackCheck: immediately after Commit returned, every stored channel of the writer must
// already be readable, complete, in its leaseholder's cesium.
func (r *vfRunner) ackCheck(ws *vfWriterState, cm map[string]map[string]int) *vfViol {
	for _, ch := range ws.args.Keys {
		if ch == "F" {
			continue
		}
		n := r.leaseOf(ch)
		vals, absent, err := r.storeRead(n, ch)
		r.stats.ackChecks.Add(1)
		exp := r.expected(cm, ch, telem.TimeStampMin, telem.TimeStampMax)
		if err != nil || absent || !vfEqual(exp, vals) {
			return &vfViol{Kind: "ack", Sig: "commit acknowledged before a leaseholder committed", Step: r.step,
				What: fmt.Sprintf("Commit of writer %s (gateway %d) returned, but leaseholder %d does not yet return the committed samples of %s (err=%v absent=%v)",
					ws.args.W, ws.args.G, n, ch, err, absent), Exp: r.show(exp, ch), Act: r.show(vals, ch)}
		}
	}
	return nil
}

// exec applies one client call. Returns the outcome class, a violation, or "hang".
func (r *vfRunner) exec(st vfStep) (string, *vfViol) {
	ctx := context.Background()
	switch st.A {
	case "open":
		var a vfOpenArgs
		_ = json.Unmarshal(st.Args, &a)
		keys := r.realKeys(a.Keys)
		cfg := writer.Config{Keys: keys, Start: r.c.ts(a.Start), Sync: &a.Sync, EnableAutoCommit: &a.Auto,
			ControlSubject: control.Subject{Key: a.W, Name: a.W}}
		w, err, hung := vfCall(vfWatchdog, func() (*writer.Writer, error) { return r.cl.nodes[a.G].Framer.OpenWriter(ctx, cfg) })
		if hung {
			return "hang", nil
		}
		if err != nil {
			r.stats.failedOpens.Add(1)
			if st.Res == "notfound" {
				return "notfound", nil // any failure satisfies the property; the kind is pinned beyond it
			}
			if cls := vfErrClass(err); cls == "notfound" {
				// every key exists (the harness waited for the metadata on every node): the
				// cluster refuses a writer on a node because of WHERE the channels live
				return cls, &vfViol{Kind: "open", Sig: "writer on existing channels refused: not found", Step: r.step,
					What: fmt.Sprintf("OpenWriter on node %d with existing keys %v (leaseholders %v) failed: %v", a.G, a.Keys, r.leases(a.Keys), err)}
			}
			return vfErrClass(err), nil
		}
		if st.Res == "notfound" {
			_ = w.Close()
			return "ok", &vfViol{Kind: "open", Sig: "writer opened on a channel that does not exist", Step: r.step,
				What: fmt.Sprintf("OpenWriter on node %d with keys %v (X = %d, never created) succeeded", a.G, a.Keys, r.keys["X"])}
		}
		r.writers[a.W] = &vfWriterState{w: w, args: a, keys: keys, sent: map[int]bool{}}
		r.cl.rec.add(vfEvent{Ev: "open", W: a.W, N: a.G, Keys: a.Keys, Start: a.Start, Sync: a.Sync, Auto: a.Auto})
		return "ok", nil
	case "write":
		var a vfWriteArgs
		_ = json.Unmarshal(st.Args, &a)
		ws := r.writers[a.W]
		// channel order inside the frame is the harness's choice
		chans := append([]string(nil), a.Chans...)
		for i := len(chans) - 1; i > 0; i-- {
			j := r.rnd(i + 1)
			chans[i], chans[j] = chans[j], chans[i]
		}
		series := make([]telem.Series, 0, len(chans))
		local, remote := false, false
		for _, ch := range chans {
			series = append(series, r.c.series(ch, a.Times, a.ID))
			if l := r.leaseOf(ch); l == ws.args.G {
				local = true
			} else if l != 0 {
				remote = true
			}
		}
		if a.Partial {
			r.stats.partialFrames.Add(1)
		}
		if len(a.DataOnly) > 0 {
			r.stats.dataOnly.Add(1)
		}
		if local && remote {
			r.stats.mixedWrites.Add(1)
		} else if remote {
			r.stats.remoteOnly.Add(1)
		}
		for _, ch := range chans {
			if ch == "F" {
				r.stats.freeFrames.Add(1)
			}
		}
		ws.seq++
		inFrame := map[int]bool{}
		for _, ch := range chans {
			inFrame[r.leaseOf(ch)] = true
		}
		for _, ch := range ws.args.Keys {
			if p := r.leaseOf(ch); p != 0 && p != ws.args.G && !inFrame[p] && ws.sent[p] && r.tainted == "" {
				r.tainted = fmt.Sprintf("step %d: frame %v of writer %s (gateway %d) has no series for peer leaseholder %d", r.step, a.Chans, a.W, ws.args.G, p)
				r.stats.tainted.Add(1)
			}
		}
		for p := range inFrame {
			ws.sent[p] = true
		}
		fr := frame.NewMulti(r.realKeys(chans), series)
		r.cl.rec.add(vfEvent{Ev: "write.call", W: a.W, Seq: ws.seq, Chans: a.Chans, Times: a.Times})
		auth, err, hung := vfCall(vfWatchdog, func() (bool, error) { return ws.w.Write(fr) })
		if hung {
			return "hang", nil
		}
		if err != nil {
			return vfErrClass(err), nil
		}
		if ws.args.Sync {
			r.cl.rec.add(vfEvent{Ev: "write.ret", W: a.W, Seq: ws.seq})
		}
		if !auth {
			r.stats.unauthorized.Add(1)
		}
		hasIdx := false
		for _, ch := range chans {
			if ch != "F" && vfIsIdx(ch) {
				hasIdx = true
			}
		}
		for _, t := range a.Times {
			if e := r.c.ts(t) + 1; hasIdx && e > ws.maxEnd {
				ws.maxEnd = e
			}
		}
		if ws.args.Auto && !ws.args.Sync {
			ws.dirty = true
		}
		return "ok", nil
	case "commit":
		var a vfWArgs
		_ = json.Unmarshal(st.Args, &a)
		ws := r.writers[a.W]
		ws.seq++
		for _, ch := range ws.args.Keys {
			ws.sent[r.leaseOf(ch)] = true
		}
		r.stats.commits.Add(1)
		if r.cl.rec.slow != 0 {
			r.stats.slowCommits.Add(1)
		}
		r.cl.rec.add(vfEvent{Ev: "commit.call", W: a.W, Seq: ws.seq})
		end, err, hung := vfCall(vfWatchdog, func() (telem.TimeStamp, error) { return ws.w.Commit() })
		if hung {
			return "hang", nil
		}
		if err != nil {
			return vfErrClass(err), nil
		}
		// FIRST thing after the acknowledgement: is the data there?
		if v := r.ackCheck(ws, st.Cm); v != nil {
			return "ok", v
		}
		r.cl.rec.add(vfEvent{Ev: "commit.ret", W: a.W, Seq: ws.seq})
		if end != ws.maxEnd && ws.maxEnd != 0 {
			r.stats.lastEndNotMax.Add(1) // observed only (not stated): End is not the latest commit end over the leaseholders
		}
		return "ok", nil
	case "close":
		var a vfWArgs
		_ = json.Unmarshal(st.Args, &a)
		ws := r.writers[a.W]
		_, err, hung := vfCall(vfWatchdog, func() (int, error) { return 0, ws.w.Close() })
		if hung {
			return "hang", nil
		}
		delete(r.writers, a.W)
		r.cl.rec.add(vfEvent{Ev: "close", W: a.W})
		return vfErrClass(err), nil
	case "iread":
		var a vfIReadArgs
		_ = json.Unmarshal(st.Args, &a)
		if st.Res != "ok" {
			// only the OPEN is judged: it must fail. (An iterator that was wrongly opened is
			// closed in the background: its peers' streams may already be dead.)
			it, err, hung := vfCall(vfWatchdog, func() (*iterator.Iterator, error) {
				return r.cl.nodes[a.G].Framer.OpenIterator(ctx, iterator.Config{Keys: r.realKeys(a.Keys),
					Bounds: telem.TimeRange{Start: r.c.ts(a.A), End: r.c.ts(a.B)}})
			})
			if hung {
				return "hang", nil
			}
			if err == nil {
				go func() { _, _, _ = vfCall(2*time.Second, func() (int, error) { return 0, it.Close() }) }()
				if st.Res == "notfound" {
					return "ok", &vfViol{Kind: "open", Sig: "iterator opened on a channel that does not exist", Step: r.step,
						What: fmt.Sprintf("OpenIterator on node %d with keys %v (X = %d, never created) succeeded", a.G, a.Keys, r.keys["X"])}
				}
				return "ok", nil // iterator over a free channel accepted: drift, not a verdict
			}
			r.stats.failedOpens.Add(1)
			return st.Res, nil
		}
		if v := r.settle(st.Cm); v != nil {
			return "ok", v
		}
		note := fmt.Sprintf("[%d,%d)", a.A, a.B)
		for mode := 0; mode < 4; mode++ {
			v, h := r.compareIter(st.Cm, a.G, a.Keys, r.c.ts(a.A), r.c.ts(a.B), mode, note)
			if h != "" {
				return "hang", nil
			}
			if v != nil {
				return "ok", v
			}
		}
		return "ok", nil
	}
	return "err:unknown action " + st.A, nil
}

// barrier: after this call the cluster's content is determined (no fire-and-forget write
// of a buffered writer is judged before its commit, which is what a single store does too)
func vfBarrier(st vfStep) bool { return st.A == "commit" || st.A == "close" || st.A == "write" }

func vfReplay(idx int, hist []vfStep, c vfConc, maxT int, full bool, stats *vfStats) (res vfResult) {
	res = vfResult{I: idx, R: "ok", Conc: c}
	ctx := context.Background()
	if len(hist) == 0 || hist[0].A != "setup" {
		res.R, res.Note = "inconclusive", "history does not start with setup"
		return
	}
	r := &vfRunner{c: c, keys: map[string]channel.Key{}, names: map[channel.Key]string{}, writers: map[string]*vfWriterState{},
		maxT: maxT, stats: stats, rng: uint64(c.Salt)*2654435761 + 12345}
	_ = json.Unmarshal(hist[0].Args, &r.setup)
	rec := &vfRec{}
	if c.Slow >= 1 && c.Slow <= r.setup.Nodes {
		rec.slow = c.Slow
	}
	stats.scripts.Add(1)
	hung := false
	defer func() {
		if p := recover(); p != nil {
			res.R = "viol"
			res.V = &vfViol{Kind: "panic", Sig: "panic in the distribution layer", Step: r.step, What: fmt.Sprint(p)}
		}
		res.Taint = r.tainted
		if r.cl != nil && !hung && !r.hungRead {
			for _, ws := range r.writers {
				w := ws.w
				_, _, _ = vfCall(5*time.Second, func() (int, error) { return 0, w.Close() })
			}
			r.cl.close()
		}
	}()
	// Channel metadata reaches the other nodes through aspen gossip, which can strand an
	// operation (C06's subject): a cluster whose metadata does not converge is discarded and
	// the script starts again on a fresh one. Never a verdict.
	var serr error
	for attempt := 0; attempt < 4; attempt++ {
		r.keys, r.names, r.stored = map[string]channel.Key{}, map[channel.Key]string{}, nil
		rec.mu.Lock()
		rec.events = nil
		rec.mu.Unlock()
		cl, err := vfProvision(ctx, r.setup.Nodes, rec)
		r.cl = cl
		if err == nil {
			err = r.createChannels(ctx)
		}
		if serr = err; err == nil {
			break
		}
		stats.setupRetries.Add(1)
		if cl != nil {
			cl.close()
		}
		r.cl = nil
	}
	if serr != nil {
		res.R, res.Note = "inconclusive", "provision / create channels: "+serr.Error()
		return
	}
	rec.add(vfEvent{Ev: "setup", N: r.setup.Nodes})
	for i := 1; i < len(hist); i++ {
		st := hist[i]
		r.step = i
		stats.steps.Add(1)
		out, v := r.exec(st)
		if vfDebug {
			fmt.Printf("  [%d] step %d %s %s -> %s (spec %s) viol=%v\n", idx, i, st.A, string(st.Args), out, st.Res, v != nil)
		}
		if v != nil {
			res.R, res.V = "viol", v
			return
		}
		if out == "hang" {
			stats.hangs.Add(1)
			hung = true
			res.R, res.Note = "hang", fmt.Sprintf("step %d %s %s did not return within %s", i, st.A, string(st.Args), vfWatchdog)
			return
		}
		if out != st.Res {
			res.R, res.Note = "diverged", fmt.Sprintf("step %d %s %s: specification %s, real %s", i, st.A, string(st.Args), st.Res, out)
			return
		}
		if !vfBarrier(st) {
			continue
		}
		if st.A == "write" {
			// a write is a barrier only for writers whose samples are visible at once
			var a vfWriteArgs
			_ = json.Unmarshal(st.Args, &a)
			if ws := r.writers[a.W]; ws == nil || !ws.args.Auto {
				continue
			}
		}
		v, h := r.battery(st.Cm, full && i == len(hist)-1)
		if h != "" {
			stats.hangs.Add(1)
			hung = true
			res.R, res.Note = "hang", fmt.Sprintf("read battery after step %d did not return", i)
			return
		}
		if v != nil {
			res.R, res.V = "viol", v
			return
		}
	}
	// final battery over all ranges (the last call may not have been a barrier)
	last := hist[len(hist)-1]
	if len(r.writers) == 0 || vfBarrier(last) {
		if v, h := r.battery(last.Cm, full); h != "" {
			stats.hangs.Add(1)
			hung = true
			res.R, res.Note = "hang", "final read battery did not return"
			return
		} else if v != nil {
			res.R, res.V = "viol", v
			return
		}
	}
	// the recorded commit protocol, for DistFramerTrace.tla
	evs := rec.snapshot()
	for _, e := range evs {
		if e.Ev == "peer.send" && e.Cmd == "commit" {
			stats.peerCommits.Add(1)
		}
	}
	if os.Getenv("VERIF_TRACES") == "1" && r.tainted == "" {
		lease := map[string]int{"A": 1, "B": 1, "C": 1}
		for g, n := range r.setup.Lease {
			lease[g] = n
		}
		hdr, _ := json.Marshal(map[string]any{"ev": "reset", "nodes": r.setup.Nodes, "lease": lease, "i": idx})
		res.Trace = append(res.Trace, string(hdr))
		for _, e := range evs {
			keep := false
			switch e.Ev {
			case "open", "write.call", "write.ret", "commit.call", "commit.ret", "close":
				keep = true
			case "peer.recv":
				keep = e.Cmd == "write"
			case "peer.send":
				keep = e.Cmd == "commit"
			}
			if !keep {
				continue
			}
			if e.Keys == nil {
				e.Keys = []string{}
			}
			if e.Chans == nil {
				e.Chans = []string{}
			}
			if e.Times == nil {
				e.Times = []int{}
			}
			b, _ := json.Marshal(e)
			res.Trace = append(res.Trace, string(b))
		}
		stats.traces.Add(1)
	}
	return
}

func vfStatsMap(stats *vfStats, extra map[string]any) map[string]any {
	m := map[string]any{"summary": true, "scripts": stats.scripts.Load(), "steps": stats.steps.Load(),
		"iter_reads": stats.iterReads.Load(), "store_reads": stats.storeReads.Load(), "ack_checks": stats.ackChecks.Load(),
		"commits": stats.commits.Load(), "commits_with_slow_peer": stats.slowCommits.Load(), "peer_commit_responses": stats.peerCommits.Load(),
		"failed_opens": stats.failedOpens.Load(), "partial_frames": stats.partialFrames.Load(), "dataonly_writes": stats.dataOnly.Load(),
		"free_channel_frames": stats.freeFrames.Load(), "remote_only_writes": stats.remoteOnly.Load(), "mixed_local_remote_writes": stats.mixedWrites.Load(),
		"commit_end_not_max": stats.lastEndNotMax.Load(), "unauthorized": stats.unauthorized.Load(), "hangs": stats.hangs.Load(),
		"settles": stats.settles.Load(), "traces": stats.traces.Load(), "tainted_scripts": stats.tainted.Load(), "setup_retries": stats.setupRetries.Load(), "setbounds_reads": stats.setBounds.Load()}
	for k, v := range extra {
		m[k] = v
	}
	return m
}

func TestVerifFramerReplay(t *testing.T) {
	in, out := os.Getenv("VERIF_IN"), os.Getenv("VERIF_OUT")
	if in == "" || out == "" {
		t.Skip("VERIF_IN/VERIF_OUT not set")
	}
	seed, _ := strconv.ParseInt(os.Getenv("VERIF_SEED"), 10, 64)
	maxT, _ := strconv.Atoi(os.Getenv("VERIF_MAXT"))
	nconc, _ := strconv.Atoi(os.Getenv("VERIF_NCONC"))
	if nconc <= 0 {
		nconc = 1
	}
	full := os.Getenv("VERIF_FULLREADS") != "0"
	var fixed *vfConc
	if s := os.Getenv("VERIF_CONC"); s != "" {
		fixed = &vfConc{}
		if err := json.Unmarshal([]byte(s), fixed); err != nil {
			t.Fatal(err)
		}
	}
	f, err := os.Open(in)
	if err != nil {
		t.Fatal(err)
	}
	defer f.Close()
	type job struct {
		i    int
		line []byte
	}
	jobs := make(chan job, 64)
	results := make(chan vfResult, 64)
	stats := &vfStats{}
	workers := runtime.GOMAXPROCS(0)
	if w, _ := strconv.Atoi(os.Getenv("VERIF_WORKERS")); w > 0 {
		workers = w
	}
	var wg sync.WaitGroup
	for w := 0; w < workers; w++ {
		wg.Add(1)
		go func() {
			defer wg.Done()
			for j := range jobs {
				var hist []vfStep
				if err := json.Unmarshal(j.line, &hist); err != nil {
					results <- vfResult{I: j.i, R: "inconclusive", Note: "json: " + err.Error()}
					continue
				}
				for k := 0; k < nconc; k++ {
					c := vfConcFromSeed(seed, j.i*7+k)
					if fixed != nil {
						c = *fixed
					}
					res := vfReplay(j.i, hist, c, maxT, full, stats)
					results <- res
					if res.R != "ok" {
						break
					}
				}
			}
		}()
	}
	go func() {
		sc := bufio.NewScanner(f)
		sc.Buffer(make([]byte, 1<<20), 1<<26)
		i := 0
		for sc.Scan() {
			b := append([]byte(nil), sc.Bytes()...)
			if len(b) > 0 {
				jobs <- job{i: i, line: b}
				i++
			}
		}
		close(jobs)
		wg.Wait()
		close(results)
	}()
	var bad []vfResult
	var traces []string
	n := 0
	for r := range results {
		n++
		traces = append(traces, r.Trace...)
		r.Trace = nil
		if r.R != "ok" {
			bad = append(bad, r)
		}
	}
	sort.Slice(bad, func(a, b int) bool { return bad[a].I < bad[b].I })
	of, err := os.Create(out)
	if err != nil {
		t.Fatal(err)
	}
	defer of.Close()
	enc := json.NewEncoder(of)
	_ = enc.Encode(vfStatsMap(stats, map[string]any{"replays": n, "bad": len(bad)}))
	for _, r := range bad {
		_ = enc.Encode(r)
	}
	if tp := os.Getenv("VERIF_TRACE_OUT"); tp != "" {
		_ = os.WriteFile(tp, []byte(strings.Join(traces, "\n")+"\n"), 0o644)
	}
	vfReaper.Wait()
}

// TestVerifFramerDirected runs the directed scripts of the two named deviations around
// frames that lack a series for a PEER leaseholder of the writer:
//
//	stale   non-Sync writer on gateway 1, keys on node 1 (A) and node 2 (B): Write(A+B @t0),
//	        Write(A only @t2), Commit. Observed: does node 2 hold B's samples of t0 twice?
//	        (judged by the driver: the iterator then returns samples a single store would not)
//	sync    the same second frame from a Sync writer: does Write / Commit return at all?
//	        (observation only: the statement has no liveness clause)
func TestVerifFramerDirected(t *testing.T) {
	out := os.Getenv("VERIF_OUT")
	if out == "" {
		t.Skip("VERIF_OUT not set")
	}
	ctx := context.Background()
	c := vfConc{Creator: 1}
	obs := map[string]any{"summary": true}
	for _, sync := range []bool{false, true} {
		name := map[bool]string{false: "nosync", true: "sync"}[sync]
		r := &vfRunner{c: c, keys: map[string]channel.Key{}, names: map[channel.Key]string{}, writers: map[string]*vfWriterState{},
			maxT: 9, stats: &vfStats{}, setup: vfSetupArgs{Nodes: 2, Lease: map[string]int{"A": 1, "B": 2}}}
		cl, err := vfProvision(ctx, 2, &vfRec{})
		if err == nil {
			r.cl = cl
			err = r.createChannels(ctx)
		}
		if err != nil {
			obs["error"] = err.Error()
			break
		}
		sy, au := sync, false
		w, err := cl.nodes[1].Framer.OpenWriter(ctx, writer.Config{Keys: r.realKeys([]string{"Ai", "Ad", "Bi", "Bd"}), Start: c.ts(0), Sync: &sy, EnableAutoCommit: &au})
		if err != nil {
			obs["error"] = err.Error()
			break
		}
		all := []string{"Ai", "Ad", "Bi", "Bd"}
		ser := func(chs []string, t, id int) []telem.Series {
			var o []telem.Series
			for _, ch := range chs {
				o = append(o, c.series(ch, []int{t}, id))
			}
			return o
		}
		_, e1, h1 := vfCall(3*time.Second, func() (bool, error) { return w.Write(frame.NewMulti(r.realKeys(all), ser(all, 0, 1))) })
		_, e2, h2 := vfCall(3*time.Second, func() (bool, error) { return w.Write(frame.NewMulti(r.realKeys(all[:2]), ser(all[:2], 2, 2))) })
		_, e3, h3 := vfCall(3*time.Second, func() (telem.TimeStamp, error) { return w.Commit() })
		obs[name+"_hangs"] = h1 || h2 || h3
		obs[name+"_errs"] = fmt.Sprint(e1, " | ", e2, " | ", e3)
		time.Sleep(20 * time.Millisecond)
		vals, _, _ := r.storeRead(2, "Bd")
		obs[name+"_peer_samples"] = len(vals) // 1 expected
		if !(h1 || h2 || h3) {
			cm := map[string]map[string]int{"Ai": {"0": 1, "2": 2}, "Ad": {"0": 1, "2": 2}, "Bi": {"0": 1}, "Bd": {"0": 1}}
			v, _ := r.compareIter(cm, 2, all, telem.TimeStampMin, telem.TimeStampMax, 0, "everything")
			if v != nil {
				obs[name+"_iter"] = v.What + " exp " + v.Exp + " act " + v.Act
			}
			_, _, _ = vfCall(3*time.Second, func() (int, error) { return 0, w.Close() })
			cl.close()
		}
	}
	// failcommit: one leaseholder REFUSES the commit (its range would run into an existing
	// domain), the other commits. A (index only) on node 1, B on node 2; session 1 stores Ai@6;
	// session 2 (start 0) writes Ai,Bi @ {2, 8}: A's domain [0,9) overlaps [6,7) => node 1
	// cannot commit. Every gateway x every slowed-down node (the slow node answers last).
	var fc []map[string]any
	for gw := 1; gw <= 2; gw++ {
		for slow := 1; slow <= 2; slow++ {
			o := map[string]any{"gateway": gw, "slow": slow}
			fc = append(fc, o)
			r := &vfRunner{c: c, keys: map[string]channel.Key{}, names: map[channel.Key]string{}, writers: map[string]*vfWriterState{},
				maxT: 9, stats: &vfStats{}, setup: vfSetupArgs{Nodes: 2, Lease: map[string]int{"A": 1, "B": 2}}}
			rec := &vfRec{}
			cl, err := vfProvision(ctx, 2, rec)
			if err == nil {
				r.cl = cl
				err = r.createChannels(ctx)
			}
			if err != nil {
				o["error"] = err.Error()
				continue
			}
			sy, au := false, false
			w0, err := cl.nodes[1].Framer.OpenWriter(ctx, writer.Config{Keys: r.realKeys([]string{"Ai"}), Start: c.ts(6), Sync: &sy, EnableAutoCommit: &au})
			if err != nil {
				o["error"] = err.Error()
				continue
			}
			_, _ = w0.Write(frame.NewMulti(r.realKeys([]string{"Ai"}), []telem.Series{c.series("Ai", []int{6}, 1)}))
			_, e0 := w0.Commit()
			e0c := w0.Close()
			if e0 != nil || e0c != nil {
				o["error"] = fmt.Sprint("session 1: ", e0, e0c)
				continue
			}
			rec.slow = slow
			w, err := cl.nodes[gw].Framer.OpenWriter(ctx, writer.Config{Keys: r.realKeys([]string{"Ai", "Bi"}), Start: c.ts(0), Sync: &sy, EnableAutoCommit: &au})
			if err != nil {
				o["open_err"] = err.Error()
				continue
			}
			chs := []string{"Ai", "Bi"}
			_, we, wh := vfCall(3*time.Second, func() (bool, error) {
				return w.Write(frame.NewMulti(r.realKeys(chs), []telem.Series{c.series("Ai", []int{2, 8}, 2), c.series("Bi", []int{2, 8}, 2)}))
			})
			_, ce, ch := vfCall(3*time.Second, func() (telem.TimeStamp, error) { return w.Commit() })
			a, _, _ := r.storeRead(1, "Ai")
			b, _, _ := r.storeRead(2, "Bi")
			o["write_err"], o["commit_err"], o["hangs"] = fmt.Sprint(we), fmt.Sprint(ce), wh || ch
			o["commit_acked"] = ce == nil && !ch
			o["A_samples_on_node1"], o["B_samples_on_node2"] = len(a), len(b)
			// the leaseholder of A committed iff it now holds 3 samples
			o["A_committed"] = len(a) == 3
			if !(wh || ch) {
				_, xe, _ := vfCall(3*time.Second, func() (int, error) { return 0, w.Close() })
				o["close_err"] = fmt.Sprint(xe)
				cl.close()
			}
		}
	}
	obs["failcommit"] = fc
	of, err := os.Create(out)
	if err != nil {
		t.Fatal(err)
	}
	defer of.Close()
	_ = json.NewEncoder(of).Encode(obs)
	vfReaper.Wait()
}
