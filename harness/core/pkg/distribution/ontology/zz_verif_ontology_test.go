//go:build verif

// Replay of Ontology.tla behaviours into the real ontology (C16, DESIGN.md section 3).
// Injected with `go test -overlay`; never part of /repo. External test package: only the
// public API (ontology.Open, NewWriter, NewRetrieve, gorp raw scans) is used.
//
// Every history is replayed on a fresh memkv-backed ontology under several identifier
// concretisations (plain / prefix-related / suffix-related / colon keys) and injections
// of the abstract resources 1..N into the concrete identifiers. After every step the
// result class, a raw scan of the resource and relationship tables (committed and
// through the open transaction) and the parent / child traversal levels of every
// resource are compared with what the specification computed.
//
// The test function is a supervisor that re-executes the test binary as shard workers:
// a define on the real code can die with a fatal (unrecoverable) stack overflow, which
// must be recorded as an observation instead of killing the whole replay.
package ontology_test

import (
	"bufio"
	"bytes"
	"context"
	"encoding/json"
	"fmt"
	"hash/fnv"
	"io"
	"iter"
	"math/rand"
	"os"
	"os/exec"
	"runtime"
	"runtime/debug"
	"sort"
	"strconv"
	"strings"
	"sync"
	"testing"
	"time"

	"github.com/synnaxlabs/synnax/pkg/distribution/ontology"
	"github.com/synnaxlabs/x/errors"
	"github.com/synnaxlabs/x/gorp"
	"github.com/synnaxlabs/x/graph"
	"github.com/synnaxlabs/x/kv"
	"github.com/synnaxlabs/x/kv/memkv"
	"github.com/synnaxlabs/x/observe"
	"github.com/synnaxlabs/x/query"
	"github.com/synnaxlabs/x/zyn"
)

// ---------------------------------------------------------------- input model

type vEdge struct {
	F  int
	Ty string
	T  int
}

func (e *vEdge) UnmarshalJSON(b []byte) error {
	var raw []json.RawMessage
	if err := json.Unmarshal(b, &raw); err != nil {
		return err
	}
	if len(raw) != 3 {
		return fmt.Errorf("edge: want 3 elements, got %d", len(raw))
	}
	if err := json.Unmarshal(raw[0], &e.F); err != nil {
		return err
	}
	if err := json.Unmarshal(raw[1], &e.Ty); err != nil {
		return err
	}
	return json.Unmarshal(raw[2], &e.T)
}

type vStep struct {
	A      string   `json:"a"`
	W      string   `json:"w"`
	X      int      `json:"x"`
	Ty     string   `json:"ty"`
	Y      int      `json:"y"`
	S      []int    `json:"s"`
	Cls    string   `json:"cls"`
	Rc     []string `json:"rc"`
	Res    []int    `json:"res"`
	Edges  []vEdge  `json:"edges"`
	Otx    string   `json:"otx"`
	VRes   []int    `json:"vres"`
	VEdges []vEdge  `json:"vedges"`
}

type vMismatch struct {
	I      int      `json:"i"`
	R      string   `json:"r"` // mismatch | crash | inconclusive
	Conc   string   `json:"conc"`
	Inj    []int    `json:"inj"`
	Wiring string   `json:"wiring"` // default | prod (index observer wiring of the gorp DB)
	Step   int      `json:"step"`
	A      string   `json:"a"`
	Kind   string   `json:"kind"` // class | resources | edges | traversal | traversal-missing | panic | crash | error
	View   string   `json:"view,omitempty"`
	Exp    string   `json:"exp"`
	Act    string   `json:"act"`
	Detail string   `json:"detail,omitempty"`
	IDs    []string `json:"ids"`
	Dups   int      `json:"dups,omitempty"`
	key    uint64
}

type vStats struct {
	StormSkipped int `json:"storm_skipped"` // runs skipped after too many crashes in one concretisation
	Histories    int `json:"histories"`
	Runs         int `json:"runs"`
	Steps        int `json:"steps"`
	DupSkipped   int `json:"dup_skipped"`
	DefOK        int `json:"def_ok"`
	DefNoop      int `json:"def_noop"`
	DefCyclic    int `json:"def_cyclic"`
	DefNotFound  int `json:"def_notfound"`
	DelCascade   int `json:"del_cascade"` // resource deletes that had to remove edges
	Commits      int `json:"commits"`
	Aborts       int `json:"aborts"`
	TxSteps      int `json:"tx_steps"`
	Reopens      int `json:"reopens"`
	ProdRuns     int `json:"prod_runs"`      // runs with the production index-observer wiring
	TxRewriteDel int `json:"tx_rewrite_del"` // committed edge rewritten, then deleted, inside one tx
	Traversals   int `json:"traversals"`
	DeepLevels   int `json:"deep_levels"` // non-empty traversal levels with >= 2 hops
	MissingQ     int `json:"missing_queries"`
	Mismatches   int `json:"mismatches"`
	Crashes      int `json:"crashes"`
}

func (s *vStats) add(o vStats) {
	s.StormSkipped += o.StormSkipped
	s.Histories += o.Histories
	s.Runs += o.Runs
	s.Steps += o.Steps
	s.DupSkipped += o.DupSkipped
	s.DefOK += o.DefOK
	s.DefNoop += o.DefNoop
	s.DefCyclic += o.DefCyclic
	s.DefNotFound += o.DefNotFound
	s.DelCascade += o.DelCascade
	s.Commits += o.Commits
	s.Aborts += o.Aborts
	s.TxSteps += o.TxSteps
	s.Reopens += o.Reopens
	s.ProdRuns += o.ProdRuns
	s.TxRewriteDel += o.TxRewriteDel
	s.Traversals += o.Traversals
	s.DeepLevels += o.DeepLevels
	s.MissingQ += o.MissingQ
	s.Mismatches += o.Mismatches
	s.Crashes += o.Crashes
}

// ---------------------------------------------------------------- concretisations

type vConc struct {
	name string
	ids  []ontology.ID
	q    ontology.RelationshipType // concrete name of the second relationship type
}

func vid(t, k string) ontology.ID { return ontology.ID{Type: ontology.ResourceType(t), Key: k} }

var vConcs = []vConc{
	// (i) short distinct keys
	{"plain", []ontology.ID{vid("sample", "a"), vid("sample", "b"), vid("sample", "c"), vid("sample", "d"), vid("sample", "e")}, "other"},
	// (ii) identifiers that are string prefixes of one another
	{"prefix", []ontology.ID{vid("sample", "1"), vid("sample", "10"), vid("sample", "100"), vid("sample", "x"), vid("sample", "x1")}, "parentx"},
	// (iii) identifiers / types that are string suffixes of one another
	{"suffix", []ontology.ID{vid("sample", "1"), vid("xsample", "1"), vid("ample", "1"), vid("sample", "01"), vid("sample", "x")}, "xparent"},
	// (iv) keys containing ':' (explicitly allowed by ParseID)
	{"colon", []ontology.ID{vid("sample", "a"), vid("sample", "a:b"), vid("sample", "a:b:c"), vid("sample", "b:a"), vid("sample", ":a")}, "par:ent"},
}

type vService struct {
	observe.Noop[iter.Seq[ontology.Change]]
	t ontology.ResourceType
}

var vSchema = zyn.Object(map[string]zyn.Schema{"key": zyn.String()})

type vSample struct{ Key string }

func (s *vService) Type() ontology.ResourceType { return s.t }
func (s *vService) Schema() zyn.Schema          { return vSchema }
func (s *vService) RetrieveResource(_ context.Context, key string, _ gorp.Tx) (ontology.Resource, error) {
	return ontology.NewResource(vSchema, ontology.ID{Type: s.t, Key: key}, "verif", vSample{Key: key}), nil
}

// ---------------------------------------------------------------- one run

func vErrClass(err error) string {
	switch {
	case err == nil:
		return "ok"
	case errors.Is(err, graph.ErrCyclicDependency):
		return "cyclic"
	case errors.Is(err, query.ErrNotFound):
		return "notfound"
	}
	return "other:" + err.Error()
}

type vRunner struct {
	ctx   context.Context
	conc  vConc
	ids   []ontology.ID // index = abstract resource (1-based; 0 unused)
	n     int
	db    *gorp.DB
	otg   *ontology.Ontology
	tx    gorp.Tx
	wdb   ontology.Writer
	wtx   ontology.Writer
	stats *vStats
	flip  int
	prod  bool
}

// vNewDB opens the store. prod = the wiring of core/pkg/distribution/layer.go: the index
// observer is fed by an observable that never reports writes of the local node
// (aspen.IgnoreHostLeaseholder), so the secondary indexes of local writes are maintained
// by the per-transaction delta flush alone. default = gorp.Wrap(kv): the indexes also
// observe the store itself.
func vNewDB(prod bool) *gorp.DB {
	if prod {
		return gorp.Wrap(memkv.New(), gorp.WithIndexObservable(observe.Noop[kv.TxReader]{}))
	}
	return gorp.Wrap(memkv.New())
}

func (r *vRunner) open() error {
	otg, err := ontology.Open(r.ctx, ontology.Config{DB: r.db})
	if err != nil {
		return err
	}
	seen := map[ontology.ResourceType]bool{}
	for _, id := range r.conc.ids {
		if !seen[id.Type] {
			seen[id.Type] = true
			otg.RegisterService(&vService{t: id.Type})
		}
	}
	r.otg = otg
	r.wdb = otg.NewWriter(nil)
	return nil
}

func (r *vRunner) close() {
	if r.tx != nil {
		_ = r.tx.Close()
		r.tx = nil
	}
	if r.otg != nil {
		_ = r.otg.Close()
	}
	if r.db != nil {
		_ = r.db.Close()
	}
}

func (r *vRunner) rt(t string) ontology.RelationshipType {
	if t == "p" {
		return ontology.RelationshipTypeParentOf
	}
	return r.conc.q
}

func (r *vRunner) idsOf(s []int) []ontology.ID {
	out := make([]ontology.ID, len(s))
	for i, x := range s {
		out[i] = r.ids[x]
	}
	return out
}

func (r *vRunner) relKey(e vEdge) string {
	return ontology.Relationship{From: r.ids[e.F], Type: r.rt(e.Ty), To: r.ids[e.T]}.GorpKey()
}

func vSorted(m map[string]int) []string {
	out := make([]string, 0, len(m))
	for k := range m {
		out = append(out, k)
	}
	sort.Strings(out)
	return out
}

func vSetEq(a, b map[string]int) bool {
	if len(a) != len(b) {
		return false
	}
	for k := range a {
		if _, ok := b[k]; !ok {
			return false
		}
	}
	return true
}

// apply performs one step on the real ontology and returns the error class.
func (r *vRunner) apply(st vStep) (string, error) {
	w := r.wdb
	if st.W != "db" {
		w = r.wtx
	}
	ctx := r.ctx
	switch st.A {
	case "init":
		// committed start graph of a transaction burst: built with direct defines
		es := append([]vEdge(nil), st.Edges...)
		sort.Slice(es, func(a, b int) bool { return r.relKey(es[a]) < r.relKey(es[b]) })
		for _, e := range es {
			if err := r.wdb.DefineRelationship(ctx, r.ids[e.F], r.rt(e.Ty), r.ids[e.T]); err != nil {
				return vErrClass(err), nil
			}
		}
		return "ok", nil
	case "begin":
		r.tx = r.db.OpenTx()
		r.wtx = r.otg.NewWriter(r.tx)
		return "ok", nil
	case "commit":
		err := r.tx.Commit(ctx)
		cerr := r.tx.Close()
		r.tx, r.wtx = nil, nil
		r.stats.Commits++
		if err == nil {
			err = cerr
		}
		return vErrClass(err), nil
	case "abort":
		err := r.tx.Close()
		r.tx, r.wtx = nil, nil
		r.stats.Aborts++
		return vErrClass(err), nil
	case "reopen":
		if err := r.otg.Close(); err != nil {
			return "", err
		}
		r.otg = nil
		r.stats.Reopens++
		if err := r.open(); err != nil {
			return "", err
		}
		return "ok", nil
	case "defres":
		return vErrClass(w.DefineResource(ctx, r.ids[st.X])), nil
	case "defresmany":
		return vErrClass(w.DefineManyResources(ctx, r.idsOf(st.S))), nil
	case "delres":
		return vErrClass(w.DeleteResource(ctx, r.ids[st.X])), nil
	case "delresmany":
		return vErrClass(w.DeleteManyResources(ctx, r.idsOf(st.S))), nil
	case "defrel":
		return vErrClass(w.DefineRelationship(ctx, r.ids[st.X], r.rt(st.Ty), r.ids[st.Y])), nil
	case "defmany":
		return vErrClass(w.DefineFromOneToManyRelationships(ctx, r.ids[st.X], r.rt(st.Ty), r.idsOf(st.S))), nil
	case "delrel":
		return vErrClass(w.DeleteRelationship(ctx, r.ids[st.X], r.rt(st.Ty), r.ids[st.Y])), nil
	case "delout":
		return vErrClass(w.DeleteOutgoingRelationshipsOfType(ctx, r.ids[st.X], r.rt(st.Ty))), nil
	case "delin":
		return vErrClass(w.DeleteIncomingRelationshipsOfType(ctx, r.ids[st.X], r.rt(st.Ty))), nil
	}
	return "", fmt.Errorf("unknown action %q", st.A)
}

type vDiff struct {
	kind, view, exp, act, detail string
}

// checkTables compares raw scans of both tables through `tx` with the expected sets.
func (r *vRunner) checkTables(view string, tx gorp.Tx, res []int, edges []vEdge) *vDiff {
	var rs []ontology.Resource
	if err := gorp.NewRetrieve[string, ontology.Resource]().Entries(&rs).Exec(r.ctx, tx); err != nil {
		return &vDiff{"error", view, "resource scan", err.Error(), ""}
	}
	got := map[string]int{}
	for _, x := range rs {
		if x.ID.Type == ontology.ResourceTypeBuiltin {
			continue
		}
		got[x.ID.String()]++
	}
	want := map[string]int{}
	for _, x := range res {
		want[r.ids[x].String()]++
	}
	if !vSetEq(got, want) {
		return &vDiff{"resources", view, strings.Join(vSorted(want), " "), strings.Join(vSorted(got), " "), ""}
	}
	var rels []ontology.Relationship
	if err := gorp.NewRetrieve[string, ontology.Relationship]().Entries(&rels).Exec(r.ctx, tx); err != nil {
		return &vDiff{"error", view, "relationship scan", err.Error(), ""}
	}
	gotE := map[string]int{}
	for _, x := range rels {
		gotE[x.GorpKey()]++
	}
	wantE := map[string]int{}
	for _, e := range edges {
		wantE[r.relKey(e)]++
	}
	if !vSetEq(gotE, wantE) {
		var missing, extra []string
		for _, k := range vSorted(wantE) {
			if _, ok := gotE[k]; !ok {
				missing = append(missing, k)
			}
		}
		for _, k := range vSorted(gotE) {
			if _, ok := wantE[k]; !ok {
				extra = append(extra, k)
			}
		}
		d := ""
		if len(missing) > 0 {
			d += "missing"
		}
		if len(extra) > 0 {
			if d != "" {
				d += "+"
			}
			d += "extra"
		}
		return &vDiff{"edges", view, strings.Join(vSorted(wantE), " "), strings.Join(vSorted(gotE), " "),
			d + " missing=[" + strings.Join(missing, " ") + "] extra=[" + strings.Join(extra, " ") + "]"}
	}
	return nil
}

// level runs the real traversal: d hops from start along the parent relationship.
func (r *vRunner) level(inTx bool, start ontology.ID, d int, fwd bool) (map[string]int, error) {
	r.flip++
	var q ontology.Retrieve
	var execTx gorp.Tx
	if inTx {
		// alternate between the writer's own retrieve and an ontology retrieve
		// executed against the transaction
		if r.flip%2 == 0 {
			q = r.wtx.NewRetrieve()
		} else {
			q = r.otg.NewRetrieve()
			execTx = r.tx
		}
	} else {
		q = r.otg.NewRetrieve()
	}
	q = q.WhereIDs(start)
	trav := ontology.ParentsTraverser
	if fwd {
		trav = ontology.ChildrenTraverser
	}
	for i := 0; i < d; i++ {
		q = q.TraverseTo(trav)
	}
	var out []ontology.Resource
	if r.flip%3 == 0 {
		q = q.ExcludeFieldData(true)
	}
	err := q.Entries(&out).Exec(r.ctx, execTx)
	r.stats.Traversals++
	got := map[string]int{}
	for _, x := range out {
		got[x.ID.String()]++
	}
	return got, err
}

// checkTraversals compares parent/child traversal levels of every resource with a
// plain graph search over the expected surviving resources.
func (r *vRunner) checkTraversals(view string, inTx bool, res []int, edges []vEdge) *vDiff {
	alive := map[int]bool{}
	for _, x := range res {
		alive[x] = true
	}
	succ := map[int][]int{}
	pred := map[int][]int{}
	for _, e := range edges {
		if e.Ty != "p" || !alive[e.F] || !alive[e.T] {
			continue
		}
		succ[e.F] = append(succ[e.F], e.T)
		pred[e.T] = append(pred[e.T], e.F)
	}
	for x := 1; x <= r.n; x++ {
		for _, fwd := range []bool{true, false} {
			dir := "parents"
			adj := pred
			if fwd {
				dir = "children"
				adj = succ
			}
			if !alive[x] {
				got, err := r.level(inTx, r.ids[x], 1, fwd)
				r.stats.MissingQ++
				if err != nil && !errors.Is(err, query.ErrNotFound) {
					return &vDiff{"error", view, dir + " of missing " + r.ids[x].String(), err.Error(), ""}
				}
				if len(got) > 0 {
					return &vDiff{"traversal-missing", view, "", strings.Join(vSorted(got), " "),
						dir + " of missing " + r.ids[x].String()}
				}
				continue
			}
			cur := map[int]bool{x: true}
			for d := 1; d <= r.n; d++ {
				nxt := map[int]bool{}
				for c := range cur {
					for _, y := range adj[c] {
						nxt[y] = true
					}
				}
				want := map[string]int{}
				for y := range nxt {
					want[r.ids[y].String()]++
				}
				got, err := r.level(inTx, r.ids[x], d, fwd)
				what := fmt.Sprintf("%s^%d of %s", dir, d, r.ids[x].String())
				if err != nil {
					return &vDiff{"traversal", view, strings.Join(vSorted(want), " "), "error: " + err.Error(), what}
				}
				if !vSetEq(got, want) {
					return &vDiff{"traversal", view, strings.Join(vSorted(want), " "), strings.Join(vSorted(got), " "), what}
				}
				if d >= 2 && len(want) > 0 {
					r.stats.DeepLevels++
				}
				if len(nxt) == 0 {
					break
				}
				cur = nxt
			}
		}
	}
	return nil
}

func vStepKey(r *vRunner, st vStep) string {
	var b strings.Builder
	b.WriteString(st.A)
	b.WriteByte('|')
	b.WriteString(st.W)
	b.WriteByte('|')
	if st.X > 0 {
		b.WriteString(r.ids[st.X].String())
	}
	b.WriteByte('|')
	if st.Ty != "" {
		b.WriteString(string(r.rt(st.Ty)))
	}
	b.WriteByte('|')
	if st.Y > 0 {
		b.WriteString(r.ids[st.Y].String())
	}
	for _, x := range st.S {
		b.WriteByte(',')
		b.WriteString(r.ids[x].String())
	}
	if st.A == "init" {
		for _, e := range st.Edges {
			b.WriteByte(',')
			b.WriteString(r.relKey(e))
		}
	}
	b.WriteByte(';')
	return b.String()
}

// vStateOpKey hashes the concrete content of both tables as the specification expects
// them before the step (the previous step's checks established that the real tables
// hold exactly this) together with the concrete call: the same call on the same store
// content that already failed or crashed is not executed again.
func vStateOpKey(r *vRunner, pre *vStep, initRes int, st vStep) uint64 {
	h := fnv.New64a()
	if r.prod {
		_, _ = h.Write([]byte("prod@"))
	}
	_, _ = h.Write([]byte(r.conc.name + "@"))
	part := func(res []int, edges []vEdge) {
		rs := make([]string, 0, len(res))
		for _, x := range res {
			rs = append(rs, r.ids[x].String())
		}
		sort.Strings(rs)
		es := make([]string, 0, len(edges))
		for _, e := range edges {
			es = append(es, r.relKey(e))
		}
		sort.Strings(es)
		_, _ = h.Write([]byte(strings.Join(rs, ",") + "/" + strings.Join(es, ",") + "@"))
	}
	if pre == nil {
		init := make([]int, initRes)
		for i := range init {
			init[i] = i + 1
		}
		part(init, nil)
		_, _ = h.Write([]byte("none@"))
	} else {
		part(pre.Res, pre.Edges)
		_, _ = h.Write([]byte(pre.Otx + "@"))
		if pre.Otx != "none" {
			part(pre.VRes, pre.VEdges)
		}
	}
	_, _ = h.Write([]byte(vStepKey(r, st)))
	return h.Sum64()
}

// vRun replays one history under one concretisation/injection. progress(step, keyhash)
// is called before each step; bad holds hashes of concrete prefixes already known to
// fail (the run is then skipped and counted as a duplicate).
func vRun(hist []vStep, conc vConc, inj []int, prod bool, n, initRes int, stats *vStats,
	bad map[uint64]bool, progress func(step int, key uint64)) (mm *vMismatch, dup bool) {
	r := &vRunner{ctx: context.Background(), conc: conc, n: n, stats: stats, prod: prod}
	wiring := "default"
	if prod {
		wiring = "prod"
	}
	r.ids = make([]ontology.ID, n+1)
	idStrs := make([]string, n+1)
	for a := 1; a <= n; a++ {
		r.ids[a] = conc.ids[inj[a-1]]
		idStrs[a] = r.ids[a].String()
	}
	// prefix keys
	keys := make([]uint64, len(hist))
	h := fnv.New64a()
	_, _ = h.Write([]byte(conc.name + "#" + wiring + "#" + strconv.Itoa(initRes) + "#"))
	for a := 1; a <= n; a++ { // resources that merely exist matter too
		_, _ = h.Write([]byte(idStrs[a] + ","))
	}
	for i, st := range hist {
		_, _ = h.Write([]byte(vStepKey(r, st)))
		keys[i] = h.Sum64()
		if bad[keys[i]] {
			return nil, true
		}
	}
	step := -1
	var sk uint64
	fail := func(kind, view, exp, act, detail string) *vMismatch {
		a := ""
		if step >= 0 && step < len(hist) {
			a = hist[step].A
		}
		if step >= 0 && step < len(keys) {
			bad[keys[step]] = true
			bad[sk] = true
		}
		return &vMismatch{R: "mismatch", Conc: conc.name, Inj: inj, Wiring: wiring, Step: step, A: a, Kind: kind, View: view,
			Exp: exp, Act: act, Detail: detail, IDs: idStrs, key: sk}
	}
	defer func() {
		if p := recover(); p != nil {
			mm = fail("panic", "", "no panic", fmt.Sprint(p), string(debug.Stack()[:600]))
		}
		r.close()
	}()
	r.db = vNewDB(prod)
	if err := r.open(); err != nil {
		m := fail("error", "", "open", err.Error(), "")
		m.R = "inconclusive"
		return m, false
	}
	for a := 1; a <= initRes; a++ {
		if err := r.wdb.DefineResource(r.ctx, r.ids[a]); err != nil {
			m := fail("error", "", "setup", err.Error(), "")
			m.R = "inconclusive"
			return m, false
		}
	}
	stats.Runs++
	if prod {
		stats.ProdRuns++
	}
	// edges (abstract) written by the open transaction that also exist committed
	rewritten := map[vEdge]bool{}
	var pre vStep
	for i, st := range hist {
		step = i
		if i == 0 {
			sk = vStateOpKey(r, nil, initRes, st)
		} else {
			sk = vStateOpKey(r, &pre, initRes, st)
		}
		if bad[sk] {
			return nil, true
		}
		if progress != nil {
			progress(i, sk)
		}
		cls, herr := r.apply(st)
		if herr != nil {
			m := fail("error", "", "harness", herr.Error(), "")
			m.R = "inconclusive"
			return m, false
		}
		stats.Steps++
		if st.W != "db" {
			stats.TxSteps++
		}
		if cls != st.Cls {
			// when the property justifies several refusal classes either is accepted
			alt := false
			if st.Cls != "ok" {
				for _, c := range st.Rc {
					alt = alt || c == cls
				}
			}
			if !alt {
				return fail("class", st.W, st.Cls, cls, ""), false
			}
		}
		if st.W != "db" && i > 0 {
			committed := map[vEdge]bool{}
			for _, e := range pre.Edges {
				committed[e] = true
			}
			inView := map[vEdge]bool{}
			for _, e := range st.VEdges {
				inView[e] = true
			}
			switch st.A {
			case "defmany":
				if cls == "ok" { // one create for all targets: existing edges are written again
					for _, y := range st.S {
						if e := (vEdge{st.X, st.Ty, y}); committed[e] {
							rewritten[e] = true
						}
					}
				}
			case "defrel":
				if e := (vEdge{st.X, st.Ty, st.Y}); cls == "ok" && committed[e] && len(st.VEdges) > len(pre.VEdges) {
					rewritten[e] = true
				}
			case "delrel", "delres", "delresmany", "delout", "delin":
				for e := range rewritten {
					if !inView[e] {
						stats.TxRewriteDel++
						delete(rewritten, e)
					}
				}
			}
		}
		if st.A == "commit" || st.A == "abort" {
			rewritten = map[vEdge]bool{}
		}
		switch st.A {
		case "defrel", "defmany":
			switch cls {
			case "ok":
				if i > 0 && len(st.VEdges) == len(pre.VEdges) {
					stats.DefNoop++
				} else {
					stats.DefOK++
				}
			case "cyclic":
				stats.DefCyclic++
			case "notfound":
				stats.DefNotFound++
			}
		case "delres", "delresmany":
			if i > 0 && len(st.VEdges) < len(pre.VEdges) {
				stats.DelCascade++
			}
		}
		if d := r.checkTables("db", r.db, st.Res, st.Edges); d != nil {
			return fail(d.kind, d.view, d.exp, d.act, d.detail), false
		}
		if r.tx != nil {
			if d := r.checkTables("tx", r.tx, st.VRes, st.VEdges); d != nil {
				return fail(d.kind, d.view, d.exp, d.act, d.detail), false
			}
		}
		if d := r.checkTraversals("db", false, st.Res, st.Edges); d != nil {
			return fail(d.kind, d.view, d.exp, d.act, d.detail), false
		}
		if r.tx != nil {
			if d := r.checkTraversals("tx", true, st.VRes, st.VEdges); d != nil {
				return fail(d.kind, d.view, d.exp, d.act, d.detail), false
			}
		}
		if (st.Otx == "none") != (r.tx == nil) {
			m := fail("error", "", "harness", "open-transaction bookkeeping differs from the history", "")
			m.R = "inconclusive"
			return m, false
		}
		pre = st
	}
	return nil, false
}

// vInjection picks the p-th injection of 1..n into 0..m-1 for history i.
func vInjection(seed int64, i, c, p, n, m int) []int {
	if p == 0 && i%2 == 0 {
		out := make([]int, n)
		for k := range out {
			out[k] = k
		}
		return out
	}
	rnd := rand.New(rand.NewSource(seed*1000003 + int64(i)*7919 + int64(c)*131 + int64(p)))
	perm := rnd.Perm(m)
	return perm[:n]
}

// ---------------------------------------------------------------- worker (child)

type vParams struct {
	in      string
	n       int
	initRes int
	perms   int
	seed    int64
	concs   []int
	force   string // "conc:i0,i1,..": run exactly this concretisation/injection
}

func vReadParams() vParams {
	p := vParams{in: os.Getenv("VERIF_IN")}
	p.n, _ = strconv.Atoi(os.Getenv("VERIF_N"))
	p.initRes, _ = strconv.Atoi(os.Getenv("VERIF_INITRES"))
	p.perms, _ = strconv.Atoi(os.Getenv("VERIF_PERMS"))
	if p.perms <= 0 {
		p.perms = 1
	}
	p.seed, _ = strconv.ParseInt(os.Getenv("VERIF_SEED"), 10, 64)
	want := os.Getenv("VERIF_CONCS")
	for i, c := range vConcs {
		if want == "" || strings.Contains(","+want+",", ","+c.name+",") {
			p.concs = append(p.concs, i)
		}
	}
	p.force = os.Getenv("VERIF_FORCE")
	return p
}

type vJob struct {
	c    int
	inj  []int
	prod bool
}

func (p vParams) jobs(i int) []vJob {
	if p.force != "" {
		prod := strings.HasSuffix(p.force, "@prod")
		parts := strings.SplitN(strings.TrimSuffix(strings.TrimSuffix(p.force, "@prod"), "@default"), "=", 2)
		var inj []int
		for _, s := range strings.Split(parts[1], ",") {
			v, _ := strconv.Atoi(s)
			inj = append(inj, v)
		}
		for ci, c := range vConcs {
			if c.name == parts[0] {
				return []vJob{{ci, inj, prod}}
			}
		}
		return nil
	}
	var out []vJob
	for _, c := range p.concs {
		seen := map[string]bool{}
		for q := 0; q < p.perms; q++ {
			inj := vInjection(p.seed, i, c, q, p.n, len(vConcs[c].ids))
			k := fmt.Sprint(inj)
			if seen[k] {
				continue
			}
			seen[k] = true
			// every other run uses the production index-observer wiring
			out = append(out, vJob{c, inj, (i+len(out))%2 == 0})
		}
	}
	return out
}

const vProgStatsOff = 128

func vChild(t *testing.T) {
	debug.SetMaxStack(2 << 20)
	p := vReadParams()
	lo, _ := strconv.Atoi(os.Getenv("VERIF_LO"))
	hi, _ := strconv.Atoi(os.Getenv("VERIF_HI"))
	off, _ := strconv.ParseInt(os.Getenv("VERIF_OFF"), 10, 64)
	skipJobs, _ := strconv.Atoi(os.Getenv("VERIF_SKIPJOBS"))
	resF, err := os.OpenFile(os.Getenv("VERIF_RES"), os.O_APPEND|os.O_CREATE|os.O_WRONLY, 0o644)
	if err != nil {
		t.Fatal(err)
	}
	defer resF.Close()
	progF, err := os.OpenFile(os.Getenv("VERIF_PROG"), os.O_CREATE|os.O_RDWR|os.O_TRUNC, 0o644)
	if err != nil {
		t.Fatal(err)
	}
	defer progF.Close()
	// failing (state, call) keys are shared between all shard workers through one
	// append-only file; it is re-read whenever it has grown
	bad := map[uint64]bool{}
	badPath := os.Getenv("VERIF_BADF")
	var badSize int64
	var badOwn int
	loadBad := func() {
		fi, err := os.Stat(badPath)
		if err != nil || fi.Size() == badSize {
			return
		}
		bf, err := os.Open(badPath)
		if err != nil {
			return
		}
		defer bf.Close()
		if _, err := bf.Seek(badSize, io.SeekStart); err != nil {
			return
		}
		b, _ := io.ReadAll(bf)
		// only whole lines
		if k := bytes.LastIndexByte(b, '\n'); k >= 0 {
			b = b[:k+1]
		} else {
			return
		}
		badSize += int64(len(b))
		for _, ln := range strings.Split(string(b), "\n") {
			if v, err := strconv.ParseUint(strings.TrimSpace(ln), 10, 64); err == nil {
				bad[v] = true
			}
		}
	}
	loadBad()
	badOwn = len(bad)
	shareBad := func(keys ...uint64) {
		bf, err := os.OpenFile(badPath, os.O_APPEND|os.O_CREATE|os.O_WRONLY, 0o644)
		if err != nil {
			return
		}
		for _, k := range keys {
			fmt.Fprintf(bf, "%d\n", k)
		}
		bf.Close()
	}
	_ = badOwn
	f, err := os.Open(p.in)
	if err != nil {
		t.Fatal(err)
	}
	defer f.Close()
	if _, err := f.Seek(off, io.SeekStart); err != nil {
		t.Fatal(err)
	}
	sc := bufio.NewScanner(f)
	sc.Buffer(make([]byte, 1<<20), 1<<26)
	var stats vStats
	writeStats := func() {
		b, _ := json.Marshal(stats)
		b = append(b, '\n')
		_, _ = progF.WriteAt(b, vProgStatsOff)
	}
	stormy := map[string]bool{}
	for _, c := range strings.Split(os.Getenv("VERIF_STORMY"), ",") {
		stormy[c] = true
	}
	buf := make([]byte, 0, 96)
	for i := lo; i < hi && sc.Scan(); i++ {
		var hist []vStep
		if err := json.Unmarshal(sc.Bytes(), &hist); err != nil {
			b, _ := json.Marshal(vMismatch{I: i, R: "inconclusive", Kind: "error", Exp: "json", Act: err.Error()})
			_, _ = resF.Write(append(b, '\n'))
			continue
		}
		for j, job := range p.jobs(i) {
			if i == lo && j < skipJobs {
				continue
			}
			if stormy[vConcs[job.c].name] {
				stats.StormSkipped++
				continue
			}
			jj := j
			mm, dup := vRun(hist, vConcs[job.c], job.inj, job.prod, p.n, p.initRes, &stats, bad, func(step int, key uint64) {
				buf = buf[:0]
				buf = fmt.Appendf(buf, "%d %d %d %d", i, jj, step, key)
				for len(buf) < 95 {
					buf = append(buf, ' ')
				}
				buf = append(buf, '\n')
				_, _ = progF.WriteAt(buf, 0)
			})
			if dup {
				stats.DupSkipped++
			}
			if mm != nil {
				if mm.key != 0 {
					shareBad(mm.key)
				}
				mm.I = i
				stats.Mismatches++
				b, _ := json.Marshal(mm)
				_, _ = resF.Write(append(b, '\n'))
			}
		}
		stats.Histories++
		writeStats()
		loadBad()
	}
	writeStats()
}

// ---------------------------------------------------------------- supervisor

func vReadProg(path string) (i, job, step int, key uint64, st vStats, ok bool) {
	b, err := os.ReadFile(path)
	if err != nil || len(b) == 0 {
		return
	}
	line := b
	if len(line) > 96 {
		line = line[:96]
	}
	if n, _ := fmt.Sscanf(string(bytes.TrimSpace(line)), "%d %d %d %d", &i, &job, &step, &key); n == 4 {
		ok = true
	}
	if len(b) > vProgStatsOff {
		rest := b[vProgStatsOff:]
		if k := bytes.IndexByte(rest, '\n'); k >= 0 {
			_ = json.Unmarshal(rest[:k], &st)
		}
	}
	return
}

func TestVerifOntologyReplay(t *testing.T) {
	if os.Getenv("VERIF_CHILD") == "1" {
		vChild(t)
		return
	}
	in, out := os.Getenv("VERIF_IN"), os.Getenv("VERIF_OUT")
	if in == "" || out == "" {
		t.Skip("VERIF_IN/VERIF_OUT not set")
	}
	p := vReadParams()
	// line offsets
	f, err := os.Open(in)
	if err != nil {
		t.Fatal(err)
	}
	var offs []int64
	{
		rd := bufio.NewReaderSize(f, 1<<20)
		var pos int64
		for {
			line, err := rd.ReadBytes('\n')
			if len(bytes.TrimSpace(line)) > 0 {
				offs = append(offs, pos)
			}
			pos += int64(len(line))
			if err != nil {
				break
			}
		}
	}
	f.Close()
	n := len(offs)
	stormCap, _ := strconv.Atoi(os.Getenv("VERIF_STORMCAP"))
	if stormCap <= 0 {
		stormCap = 150
	}
	workers, _ := strconv.Atoi(os.Getenv("VERIF_WORKERS"))
	if workers <= 0 {
		workers = runtime.GOMAXPROCS(0)
	}
	if workers > n {
		workers = n
	}
	if workers < 1 {
		workers = 1
	}
	dir, err := os.MkdirTemp(os.Getenv("VERIF_BUILD"), "c16w")
	if err != nil {
		t.Fatal(err)
	}
	defer os.RemoveAll(dir)
	var mu sync.Mutex
	var total vStats
	var crashes []vMismatch
	var fatal []string
	var wg sync.WaitGroup
	for w := 0; w < workers; w++ {
		lo, hi := n*w/workers, n*(w+1)/workers
		wg.Add(1)
		go func(w, lo, hi int) {
			defer wg.Done()
			resP := fmt.Sprintf("%s/res%d.ndjson", dir, w)
			progP := fmt.Sprintf("%s/prog%d", dir, w)
			badP := dir + "/bad"
			cur, skip := lo, 0
			restarts := 0
			crashesBy := map[string]int{}
			var stormy []string
			for cur < hi {
				_ = os.Remove(progP)
				cmd := exec.Command(os.Args[0], "-test.run=^TestVerifOntologyReplay$", "-test.timeout=0")
				cmd.Env = append(os.Environ(), "VERIF_CHILD=1",
					"VERIF_LO="+strconv.Itoa(cur), "VERIF_HI="+strconv.Itoa(hi),
					"VERIF_OFF="+strconv.FormatInt(offs[cur], 10), "VERIF_SKIPJOBS="+strconv.Itoa(skip),
					"VERIF_RES="+resP, "VERIF_PROG="+progP, "VERIF_BADF="+badP, "GOMAXPROCS=2", "GOTRACEBACK=none",
					"VERIF_STORMY="+strings.Join(stormy, ","))
				var stderr bytes.Buffer
				cmd.Stdout = &stderr
				cmd.Stderr = &stderr
				if err := cmd.Start(); err != nil {
					mu.Lock()
					fatal = append(fatal, "cannot start worker: "+err.Error())
					mu.Unlock()
					return
				}
				done := make(chan error, 1)
				go func() { done <- cmd.Wait() }()
				var werr error
				hung := false
				last, lastChange := "", time.Now()
			wait:
				for {
					select {
					case werr = <-done:
						break wait
					case <-time.After(2 * time.Second):
						b, _ := os.ReadFile(progP)
						if string(b) != last {
							last, lastChange = string(b), time.Now()
						} else if time.Since(lastChange) > 120*time.Second {
							hung = true
							_ = cmd.Process.Kill()
						}
					}
				}
				i, job, step, key, st, ok := vReadProg(progP)
				mu.Lock()
				total.add(st)
				mu.Unlock()
				if werr == nil && !hung {
					break
				}
				// the worker died inside history i, job `job`, step `step`
				if !ok {
					mu.Lock()
					fatal = append(fatal, "worker died before its first step: "+vTail(stderr.String(), 800))
					mu.Unlock()
					return
				}
				act := "hang (no progress for 120s)"
				if !hung {
					act = vFirstFatal(stderr.String())
				}
				cm := vMismatch{I: i, R: "crash", Step: step, Kind: "crash", Exp: "call returns", Act: act}
				// recover concretisation of the crashed job
				if jobs := p.jobs(i); job < len(jobs) {
					cm.Conc = vConcs[jobs[job].c].name
					cm.Inj = jobs[job].inj
					cm.Wiring = "default"
					if jobs[job].prod {
						cm.Wiring = "prod"
					}
					ids := make([]string, p.n+1)
					for a := 1; a <= p.n; a++ {
						ids[a] = vConcs[jobs[job].c].ids[jobs[job].inj[a-1]].String()
					}
					cm.IDs = ids
				}
				bf, _ := os.OpenFile(badP, os.O_APPEND|os.O_CREATE|os.O_WRONLY, 0o644)
				if bf != nil {
					fmt.Fprintf(bf, "%d\n", key)
					bf.Close()
				}
				mu.Lock()
				crashes = append(crashes, cm)
				total.Crashes++
				mu.Unlock()
				// crash storm: stop replaying this concretisation in this shard
				crashesBy[cm.Conc]++
				if crashesBy[cm.Conc] == stormCap {
					stormy = append(stormy, cm.Conc)
				}
				// the histories before i are complete; resume inside i after the crashed job
				cur, skip = i, job+1
				restarts++
				if restarts > 400 {
					mu.Lock()
					fatal = append(fatal, "more than 400 worker crashes in one shard")
					mu.Unlock()
					return
				}
			}
		}(w, lo, hi)
	}
	wg.Wait()
	of, err := os.Create(out)
	if err != nil {
		t.Fatal(err)
	}
	defer of.Close()
	enc := json.NewEncoder(of)
	var all []vMismatch
	for w := 0; w < workers; w++ {
		b, err := os.ReadFile(fmt.Sprintf("%s/res%d.ndjson", dir, w))
		if err != nil {
			continue
		}
		for _, ln := range bytes.Split(b, []byte("\n")) {
			if len(bytes.TrimSpace(ln)) == 0 {
				continue
			}
			var m vMismatch
			if json.Unmarshal(ln, &m) == nil {
				all = append(all, m)
			}
		}
	}
	all = append(all, crashes...)
	sort.SliceStable(all, func(a, b int) bool { return all[a].I < all[b].I })
	_ = enc.Encode(map[string]any{"summary": true, "histories": n, "replayed": total.Histories, "stats": total,
		"bad": len(all), "workers": workers, "fatal": fatal})
	for _, m := range all {
		_ = enc.Encode(m)
	}
}

func vTail(s string, n int) string {
	if len(s) > n {
		return s[len(s)-n:]
	}
	return s
}

func vFirstFatal(s string) string {
	for _, ln := range strings.Split(s, "\n") {
		if strings.HasPrefix(ln, "fatal error:") || strings.HasPrefix(ln, "panic:") || strings.HasPrefix(ln, "runtime: goroutine stack exceeds") {
			if strings.HasPrefix(ln, "runtime: goroutine stack exceeds") {
				return "fatal error: stack overflow"
			}
			return ln
		}
	}
	return "worker exited abnormally: " + vTail(s, 200)
}
