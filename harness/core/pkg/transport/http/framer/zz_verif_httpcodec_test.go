//go:build verif

// C08: the WebSocket framer codec (transport/http/framer.Codec) in front of codec.Codec.
// Abstract inputs of CodecDecode.tla are concretised with the keys of real channels, the
// codec is brought into each scenario state through the messages a real connection would
// carry (open request -> Update), and the bytes are given to Codec.Decode for every message
// type that accepts the high-performance format, under recover() with allocation accounting.
// Injected as an external test with `go test -overlay`; never part of /repo.
package framer_test

import (
	"bufio"
	"bytes"
	"context"
	"encoding/binary"
	"encoding/hex"
	"encoding/json"
	"fmt"
	"math/rand"
	"os"
	"runtime"
	"strconv"
	"strings"
	"testing"

	"github.com/onsi/gomega"
	"github.com/synnaxlabs/freighter/http"
	"github.com/synnaxlabs/synnax/pkg/distribution/channel"
	"github.com/synnaxlabs/synnax/pkg/distribution/framer/codec"
	"github.com/synnaxlabs/synnax/pkg/distribution/framer/writer"
	"github.com/synnaxlabs/synnax/pkg/distribution/mock"
	"github.com/synnaxlabs/synnax/pkg/transport/http/framer"
	xjson "github.com/synnaxlabs/x/encoding/json"
	"github.com/synnaxlabs/x/telem"
)

type vhTok struct {
	T   string `json:"t"`
	C   string `json:"c"`
	V   int    `json:"v"`
	N   int    `json:"n"`
	Cut bool   `json:"cut"`
}
type vhIn struct {
	Scen string  `json:"scen"`
	Toks []vhTok `json:"toks"`
	Out  string  `json:"out"`
	Ns   int     `json:"ns"`
}

const (
	vhAllocC = 64
	vhAllocK = 256 << 10
)

type vhEnv struct {
	keys  [4]channel.Key
	types [4]telem.DataType
	unk   channel.Key
}

func (e *vhEnv) concretise(in vhIn, rnd *rand.Rand) []byte {
	var b []byte
	u32 := func(v uint32) { b = binary.LittleEndian.AppendUint32(b, v) }
	fill := func(n int) {
		for j := 0; j < n; j++ {
			b = append(b, byte(rnd.Intn(256)))
		}
	}
	nst := map[string]int{"static": 1, "dyn0": 1, "dyn1q": 1, "dyn2": 2}[in.Scen]
	for _, t := range in.Toks {
		start := len(b)
		switch t.T {
		case "flags":
			b = append(b, byte(t.V))
		case "seq":
			switch t.C {
			case "zero":
				u32(0)
			case "next":
				u32(uint32(nst + 1))
			case "huge":
				u32(1<<32 - 1)
			default:
				u32(uint32(t.V))
			}
		case "hlen", "len":
			u32(map[string]uint32{"c0": 0, "c1": 1, "c2": 2, "big": 1 << 24, "huge": 1<<32 - 1}[t.C])
		case "htr", "tr":
			fill(16)
		case "hal", "al":
			fill(8)
		case "key":
			if t.C == "unknown" {
				u32(uint32(e.unk))
			} else {
				u32(uint32(e.keys[t.V]))
			}
		case "data":
			unit := 1
			if strings.HasPrefix(t.C, "F") {
				k, _ := strconv.Atoi(t.C[1:])
				unit = int(e.types[k].Density())
			}
			fill(t.N * unit)
		case "junk":
			fill(3)
		}
		if t.Cut && len(b) > start+1 {
			b = b[:start+1+rnd.Intn(len(b)-start-1)]
		}
	}
	return b
}

// scenario builds the codec state through the calls a connection makes.
func (e *vhEnv) scenario(ctx context.Context, svc *channel.Service, scen string) (*framer.Codec, error) {
	s1 := channel.Keys{e.keys[2], e.keys[1]}
	s2 := channel.Keys{e.keys[3], e.keys[2]}
	if scen == "static" {
		return &framer.Codec{LowerPerfCodec: xjson.Codec,
			Codec: codec.NewStatic(s1, []telem.DataType{e.types[2], e.types[1]})}, nil
	}
	v := &framer.Codec{LowerPerfCodec: xjson.Codec, Codec: codec.NewDynamic(svc)}
	if scen == "dyn0" {
		return v, nil
	}
	// the writer's open request carries the keys; decoding it calls Codec.Update
	open := http.WSMessage[framer.WriterRequest]{Type: http.WSMessageTypeData,
		Payload: framer.WriterRequest{Command: writer.CommandOpen, Config: framer.WriterConfig{Keys: s1}}}
	enc, err := v.Encode(ctx, open)
	if err != nil {
		return nil, err
	}
	var got http.WSMessage[framer.WriterRequest]
	if err = v.Decode(ctx, enc, &got); err != nil {
		return nil, err
	}
	if scen == "dyn1q" {
		return v, nil
	}
	var fr http.WSMessage[framer.WriterRequest]
	if err = v.Decode(ctx, []byte{255, 62, 1, 0, 0, 0, 0, 0, 0, 0}, &fr); err != nil {
		return nil, fmt.Errorf("priming frame refused: %w", err)
	}
	return v, v.Update(ctx, s2)
}

type vhRes struct {
	out   string
	ns    int
	msg   string
	alloc uint64
}

func vhDecode(ctx context.Context, v *framer.Codec, kind int, b []byte) (res vhRes) {
	var m0, m1 runtime.MemStats
	runtime.ReadMemStats(&m0)
	func() {
		defer func() {
			if r := recover(); r != nil {
				res.out, res.msg = "panic", fmt.Sprint(r)
			}
		}()
		var err error
		ns := 0
		switch kind {
		case 0:
			var m http.WSMessage[framer.WriterRequest]
			err = v.Decode(ctx, b, &m)
			ns = m.Payload.Frame.Count()
		case 1:
			var m http.WSMessage[framer.StreamerResponse]
			err = v.Decode(ctx, b, &m)
			ns = m.Payload.Frame.Count()
		case 2:
			var m http.WSMessage[framer.IteratorResponse]
			err = v.Decode(ctx, b, &m)
			ns = m.Payload.Frame.Count()
		case 3:
			var m http.WSMessage[framer.WriterResponse]
			err = v.Decode(ctx, b, &m)
		case 4:
			var m http.WSMessage[framer.StreamerRequest]
			err = v.Decode(ctx, b, &m)
		case 5:
			var m http.WSMessage[framer.IteratorRequest]
			err = v.Decode(ctx, b, &m)
		}
		if err != nil {
			res.out, res.msg = "error", err.Error()
		} else {
			res.out, res.ns = "frame", ns
		}
	}()
	runtime.ReadMemStats(&m1)
	res.alloc = m1.TotalAlloc - m0.TotalAlloc
	return res
}

var vhKinds = []string{"WriterRequest", "StreamerResponse", "IteratorResponse", "WriterResponse", "StreamerRequest", "IteratorRequest"}

func TestVerifHTTPFramerCodec(t *testing.T) {
	gomega.RegisterTestingT(t)
	ctx := context.Background()
	cl := mock.ProvisionCluster(ctx, 1)
	dist := cl.Nodes[1].Layer
	defer func() { _ = dist.Close(); _ = cl.Close() }()
	chs := []channel.Channel{
		{Name: channel.NewRandomName(), DataType: telem.Uint16T, Virtual: true},
		{Name: channel.NewRandomName(), DataType: telem.StringT, Virtual: true},
		{Name: channel.NewRandomName(), DataType: telem.Uint8T, Virtual: true},
	}
	if err := dist.Channel.CreateMany(ctx, &chs); err != nil {
		t.Fatalf("create channels: %v", err)
	}
	env := &vhEnv{unk: 4_000_000_000}
	for i, ch := range chs {
		env.keys[i+1] = ch.Key()
		env.types[i+1] = ch.DataType
	}
	// the abstract model needs key(1) < key(2) < key(3)
	if !(env.keys[1] < env.keys[2] && env.keys[2] < env.keys[3]) {
		t.Fatalf("channel keys not increasing: %v", env.keys)
	}
	f, err := os.Open(os.Getenv("VERIF_IN"))
	if err != nil {
		t.Fatal(err)
	}
	defer f.Close()
	of, err := os.Create(os.Getenv("VERIF_OUT"))
	if err != nil {
		t.Fatal(err)
	}
	defer of.Close()
	w := bufio.NewWriter(of)
	defer w.Flush()
	row := func(r map[string]any) {
		b, _ := json.Marshal(r)
		w.Write(append(b, '\n'))
	}
	seed, _ := strconv.Atoi(os.Getenv("VERIF_SEED"))
	rnd := rand.New(rand.NewSource(int64(seed) + 77))
	sc := bufio.NewScanner(f)
	sc.Buffer(make([]byte, 1<<20), 1<<24)
	st := map[string]int{}
	nbad := 0
	i := -1
	for sc.Scan() {
		ln := bytes.TrimSpace(sc.Bytes())
		if len(ln) == 0 {
			continue
		}
		i++
		var in vhIn
		if err := json.Unmarshal(ln, &in); err != nil {
			row(map[string]any{"i": i, "r": "inconclusive", "what": err.Error()})
			return
		}
		body := env.concretise(in, rnd)
		kind := i % 3 // message types that accept the high-performance format
		v, err := env.scenario(ctx, dist.Channel, in.Scen)
		if err != nil {
			row(map[string]any{"i": i, "r": "inconclusive", "what": "scenario " + in.Scen + ": " + err.Error()})
			return
		}
		msg := append([]byte{255}, body...)
		res := vhDecode(ctx, v, kind, msg)
		st["runs"]++
		st[res.out]++
		base := map[string]any{"i": i, "scen": in.Scen, "type": vhKinds[kind], "hex": hex.EncodeToString(msg), "len": len(msg)}
		switch {
		case res.out == "panic":
			base["r"], base["kind"], base["what"] = "violation", "panic", res.msg
			base["sig"] = res.msg
			if strings.Contains(res.msg, "dynamic codec was not updated") {
				base["sig"] = "dynamic codec not updated"
			}
		case res.alloc > uint64(vhAllocC*len(msg)+vhAllocK):
			base["r"], base["kind"], base["alloc"], base["sig"] = "violation", "alloc", res.alloc, "wire-claimed length"
			base["what"] = fmt.Sprintf("%d bytes allocated decoding a %d byte %s message: %s", res.alloc, len(msg), vhKinds[kind], res.msg)
		case res.out != in.Out:
			base["r"], base["kind"] = "drift", "outcome"
			base["what"] = fmt.Sprintf("specification %s, codec %s (%s)", in.Out, res.out, res.msg)
		case res.out == "frame" && res.ns != in.Ns:
			base["r"], base["kind"] = "drift", "series"
			base["what"] = fmt.Sprintf("specification %d series, codec %d", in.Ns, res.ns)
		}
		if base["r"] != nil {
			nbad++
			if nbad <= 100 {
				row(base)
			}
		}
		// every message type, both prefixes, on bytes that were never meant for it: the
		// property only asks for "a value or an error, no crash, memory in proportion"
		if i%5 == 0 {
			for k := 0; k < 6; k++ {
				for _, pre := range []byte{254, 255, byte(rnd.Intn(254))} {
					g := append([]byte{pre}, body...)
					if len(g) > 5 && (g[0] == 255 || k >= 3) {
						// keep wire claims small here: overwrite would-be length fields is not
						// possible without parsing, so only short garbage is used
						g = g[:5+rnd.Intn(len(g)-5)]
					}
					if k < 3 && pre == 255 {
						continue // covered above with the full input
					}
					v2, err := env.scenario(ctx, dist.Channel, in.Scen)
					if err != nil {
						continue
					}
					r2 := vhDecode(ctx, v2, k, g)
					st["garbage_runs"]++
					if r2.out == "panic" || r2.alloc > uint64(vhAllocC*len(g)+vhAllocK) {
						sig := r2.msg
						if strings.Contains(sig, "dynamic codec was not updated") {
							sig = "dynamic codec not updated"
						} else if r2.out != "panic" {
							sig = "wire-claimed length"
						}
						nbad++
						if nbad <= 100 {
							row(map[string]any{"i": i, "r": "violation", "kind": map[bool]string{true: "panic", false: "alloc"}[r2.out == "panic"],
								"sig": sig, "what": fmt.Sprintf("%s decode of %d garbage bytes: %s alloc=%d", vhKinds[k], len(g), r2.msg, r2.alloc),
								"scen": in.Scen, "type": vhKinds[k], "hex": hex.EncodeToString(g), "len": len(g)})
						}
					}
				}
			}
		}
	}
	row(map[string]any{"summary": true, "runs": st["runs"], "frames": st["frame"], "errors": st["error"],
		"panics": st["panic"], "garbage_runs": st["garbage_runs"], "bad": nbad})
}
