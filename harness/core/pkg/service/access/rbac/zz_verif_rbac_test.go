//go:build verif

// Replay of RBAC.tla behaviours into the real rbac.Service (C18, DESIGN.md).
// Injected with `go test -overlay`; never part of /repo. External test package: only
// exported API, services built the way rbac_suite_test.go builds them.
package rbac_test

import (
	"bufio"
	"context"
	"encoding/json"
	"fmt"
	"math/rand"
	"os"
	"runtime"
	"sort"
	"strconv"
	"strings"
	"sync"
	"testing"

	"github.com/google/uuid"
	"github.com/synnaxlabs/synnax/pkg/distribution/group"
	"github.com/synnaxlabs/synnax/pkg/distribution/ontology"
	"github.com/synnaxlabs/synnax/pkg/distribution/search"
	"github.com/synnaxlabs/synnax/pkg/service/access"
	"github.com/synnaxlabs/synnax/pkg/service/access/rbac"
	"github.com/synnaxlabs/synnax/pkg/service/access/rbac/policy"
	"github.com/synnaxlabs/synnax/pkg/service/access/rbac/role"
	"github.com/synnaxlabs/synnax/pkg/service/auth"
	"github.com/synnaxlabs/synnax/pkg/service/user"
	"github.com/synnaxlabs/x/gorp"
	"github.com/synnaxlabs/x/kv/memkv"
)

// ---------------------------------------------------------------- history format

type vCall struct {
	A  string `json:"a"`
	R  string `json:"r"`
	P  string `json:"p"`
	S  string `json:"s"`
	OK bool   `json:"ok"`
}

type vState struct {
	RRow  []string   `json:"rrow"`
	RNode []string   `json:"rnode"`
	PRow  []string   `json:"prow"`
	PNode []string   `json:"pnode"`
	Att   [][]string `json:"att"`
	Asg   [][]string `json:"asg"`
}

type vSide struct {
	St vState                         `json:"st"`
	P  map[string]map[string][]string `json:"p"` // property: subject -> action -> covered objects
	X  map[string]map[string][]string `json:"x"` // code walk as written
	Q  map[string][]string            `json:"q"` // property: subject -> policies
	Z  map[string][]string            `json:"z"`
}

type vDef struct {
	Actions []string `json:"actions"`
	Objects []string `json:"objects"`
}

type vStep struct {
	Call vCall   `json:"call"`
	V    vSide   `json:"v"`
	C    []vSide `json:"c"`
	// Skip is set by the driver on a step whose whole call prefix was already checked
	// in an earlier history of the same file: the call is executed, the checks are not
	// repeated.
	Skip bool `json:"skip"`
	// init record only
	Def     map[string]vDef `json:"def"`
	Known   []string        `json:"known"`
	Ghost   string          `json:"ghost"`
	Actions []string        `json:"actions"`
	Req     []string        `json:"req"`
	Roles   []string        `json:"roles"`
	Mode    string          `json:"mode"`
}

type vMis struct {
	Step int      `json:"step"`
	Call string   `json:"call"`
	View string   `json:"view"` // tx | committed
	Kind string   `json:"kind"` // enforce | policies | result | state
	Subj string   `json:"subj,omitempty"`
	Act  string   `json:"action,omitempty"`
	Objs []string `json:"objs,omitempty"`
	Exp  string   `json:"exp"`
	Got  string   `json:"got"`
	AsIs string   `json:"asis,omitempty"` // what the as-written model predicts
}

type vResult struct {
	I      int    `json:"i"`
	R      string `json:"r"`               // ok | mismatch | deviation | drift | inconclusive
	Bad    *vMis  `json:"bad,omitempty"`   // first contradiction of the property not explained by the as-written model
	Dev    *vMis  `json:"dev,omitempty"`   // first contradiction of the property that the as-written model predicts
	NDev   int    `json:"ndev,omitempty"`  // number of such requests in this history
	Drift  *vMis  `json:"drift,omitempty"` // first disagreement on something pinned beyond the property
	Note   string `json:"note,omitempty"`
	NEnf   int    `json:"nenf"`
	NAllow int    `json:"nallow"`
}

// ---------------------------------------------------------------- environment

type vEnv struct {
	db       *gorp.DB
	otg      *ontology.Ontology
	svc      *rbac.Service
	root     ontology.ID
	ownerKey role.Key
	ownerPol policy.Key
	closers  []func() error
	// decoy: a NON-role ontology resource (a group node) that is ParentOf every subject of
	// every history (and of the root user) and ParentOf a decoy policy granting every
	// action on every type used by the concretisation maps. The decoy policy is attached
	// to no role, so by C18 it is not a grant: the expectation of the specification is
	// unchanged. A walk that treats any parent of the subject as a role picks it up.
	decoy ontology.ID
}

func vOpenEnv(ctx context.Context) (*vEnv, error) {
	e := &vEnv{}
	e.db = gorp.Wrap(memkv.New())
	e.closers = append(e.closers, e.db.Close)
	var err error
	if e.otg, err = ontology.Open(ctx, ontology.Config{DB: e.db}); err != nil {
		return nil, err
	}
	e.closers = append(e.closers, e.otg.Close)
	si, err := search.Open()
	if err != nil {
		return nil, err
	}
	e.closers = append(e.closers, si.Close)
	g, err := group.OpenService(ctx, group.ServiceConfig{DB: e.db, Ontology: e.otg, Search: si})
	if err != nil {
		return nil, err
	}
	e.closers = append(e.closers, g.Close)
	au, err := auth.OpenService(ctx, auth.ServiceConfig{DB: e.db})
	if err != nil {
		return nil, err
	}
	us, err := user.OpenService(ctx, user.ServiceConfig{
		DB: e.db, Ontology: e.otg, Group: g, Search: si, Auth: au,
		RootCredentials: auth.Credentials{Username: "verif-root", Password: "p"},
	})
	if err != nil {
		return nil, err
	}
	if e.svc, err = rbac.OpenService(ctx, rbac.ServiceConfig{
		DB: e.db, Ontology: e.otg, Group: g, Search: si, User: us,
	}); err != nil {
		return nil, err
	}
	e.closers = append(e.closers, e.svc.Close)
	var roots []user.User
	if err = us.NewRetrieve().Where(user.MatchRootUser(true)).Entries(&roots).Exec(ctx, nil); err != nil {
		return nil, err
	}
	if len(roots) != 1 {
		return nil, fmt.Errorf("expected one root user, got %d", len(roots))
	}
	e.root = user.OntologyID(roots[0].Key)
	var or role.Role
	if err = e.svc.Role.NewRetrieve().Where(role.MatchNames("Owner")).Entry(&or).Exec(ctx, nil); err != nil {
		return nil, fmt.Errorf("built-in Owner role: %w", err)
	}
	e.ownerKey = or.Key
	var ops []policy.Policy
	if err = e.svc.Policy.NewRetrieve().Where(policy.MatchNames("Owner")).Entries(&ops).Exec(ctx, nil); err != nil || len(ops) != 1 {
		return nil, fmt.Errorf("built-in Owner policy: %v (%d)", err, len(ops))
	}
	e.ownerPol = ops[0].Key
	e.decoy = ontology.ID{Type: ontology.ResourceTypeGroup, Key: uuid.NewString()}
	w := e.otg.NewWriter(nil)
	if err = w.DefineResource(ctx, e.decoy); err != nil {
		return nil, fmt.Errorf("decoy group: %w", err)
	}
	dp := &policy.Policy{Name: "verif-decoy-" + uuid.NewString(), Actions: access.AllActions}
	for _, m := range vMaps {
		for _, t := range []string{"T1", "T2", "T3"} {
			dp.Objects = append(dp.Objects, ontology.ID{Type: ontology.ResourceType(m.t[t])})
		}
	}
	if err = e.svc.Policy.NewWriter(nil, false).Create(ctx, dp); err != nil {
		return nil, fmt.Errorf("decoy policy: %w", err)
	}
	if err = w.DefineRelationship(ctx, e.decoy, ontology.RelationshipTypeParentOf, policy.OntologyID(dp.Key)); err != nil {
		return nil, fmt.Errorf("decoy -> policy: %w", err)
	}
	if err = w.DefineRelationship(ctx, e.decoy, ontology.RelationshipTypeParentOf, e.root); err != nil {
		return nil, fmt.Errorf("decoy -> root: %w", err)
	}
	return e, nil
}

func (e *vEnv) close() {
	for i := len(e.closers) - 1; i >= 0; i-- {
		_ = e.closers[i]()
	}
}

// concretisation maps: abstract type / key names -> real ontology strings. T1, T2 are
// types the built-in Owner policy covers (type-level), T3 is not covered by anything
// and is a string prefix of T1; keys include a prefix pair and a case pair.
var vMaps = []struct{ t, k map[string]string }{
	{map[string]string{"T1": "channel", "T2": "workspace", "T3": "chan"}, map[string]string{"k1": "1", "k2": "10"}},
	{map[string]string{"T1": "range-alias", "T2": "range", "T3": "rang"}, map[string]string{"k1": "6ba7b810-9dad-11d1-80b4-00c04fd430c8", "k2": "6ba7b811-9dad-11d1-80b4-00c04fd430c8"}},
	{map[string]string{"T1": "task", "T2": "table", "T3": "tas"}, map[string]string{"k1": "k", "k2": "K"}},
}

type vRun struct {
	ctx   context.Context
	e     *vEnv
	m     int
	subj  map[string]ontology.ID
	roles map[string]role.Key
	pols  map[string]policy.Key
	polOf map[policy.Key]string
	init  *vStep
	lists [][]string
	rnd   *rand.Rand
	res   *vResult
}

func (r *vRun) obj(o string) ontology.ID {
	parts := strings.SplitN(o, ":", 2)
	id := ontology.ID{Type: ontology.ResourceType(vMaps[r.m].t[parts[0]])}
	if parts[1] != "" {
		id.Key = vMaps[r.m].k[parts[1]]
	}
	return id
}

func inSet(set []string, x string) bool {
	for _, s := range set {
		if s == x {
			return true
		}
	}
	return false
}

func hasPair(set [][]string, a, b string) bool {
	for _, p := range set {
		if len(p) == 2 && p[0] == a && p[1] == b {
			return true
		}
	}
	return false
}

func ad(b bool) string {
	if b {
		return "allow"
	}
	return "deny"
}

// checkSide compares every request (subject x action x object list) and the policy set
// of every subject on one view (tx != nil: the open transaction; nil: committed state)
// with the specification.
//
// full = false (committed side after a call that is not a commit): only the empty list
// and the one-element lists are asked; a pending write leaking into the committed view
// shows on those.
func (r *vRun) checkSide(step int, call vCall, side *vSide, tx gorp.Tx, full bool) {
	view := "committed"
	if tx != nil {
		view = "tx"
	}
	cs := fmt.Sprintf("%s(%s)", call.A, strings.TrimPrefix(call.R+sep(call.P)+sep(call.S), ","))
	var enf interface {
		Enforce(context.Context, access.Request) error
	}
	if tx != nil {
		enf = r.e.svc.NewEnforcer(tx)
	} else {
		enf = r.e.svc // Service.Enforce: bare DB
	}
	subjects := append(append([]string{}, r.init.Known...), r.init.Ghost)
	for _, s := range subjects {
		known := inSet(r.init.Known, s)
		// the root user and the never-registered subject cannot change in the model: their
		// two-element lists are asked on init and commit steps only
		fullS := full && ((known && s != "root") || call.A == "init" || call.A == "commit")
		for _, a := range r.init.Actions {
			var pc, xc []string
			if known {
				pc, xc = side.P[s][a], side.X[s][a]
			}
			for _, l := range r.lists {
				if !fullS && len(l) == 2 {
					continue
				}
				objs := make([]ontology.ID, len(l))
				expP, expX := known, known
				for i, o := range l {
					objs[i] = r.obj(o)
					expP = expP && inSet(pc, o)
					expX = expX && inSet(xc, o)
				}
				var req access.Request
				req.Subject, req.Action = r.subj[s], access.Action(a)
				if len(objs) > 0 {
					req.Objects = objs
				}
				err := enf.Enforce(r.ctx, req)
				got := err == nil
				r.res.NEnf++
				if got {
					r.res.NAllow++
				}
				if got == expP {
					continue
				}
				if !known && len(l) == 0 {
					// unknown subject + empty list: pinned beyond the property
					if r.res.Drift == nil {
						r.res.Drift = &vMis{Step: step, Call: cs, View: view, Kind: "enforce-empty-unknown", Subj: s, Act: a, Exp: ad(expP), Got: ad(got)}
					}
					continue
				}
				m := &vMis{Step: step, Call: cs, View: view, Kind: "enforce", Subj: s, Act: a, Objs: l,
					Exp: ad(expP), Got: ad(got), AsIs: ad(expX)}
				if err != nil {
					m.Got += " (" + firstLine(err.Error()) + ")"
				}
				if got == expX {
					r.res.NDev++
					if r.res.Dev == nil {
						r.res.Dev = m
					}
				} else if r.res.Bad == nil {
					r.res.Bad = m
				}
			}
		}
		if !known {
			continue
		}
		ps, err := r.e.svc.RetrievePoliciesForSubject(r.ctx, r.subj[s], tx)
		got := []string{}
		if err != nil {
			got = append(got, "error:"+firstLine(err.Error()))
		}
		for _, p := range ps {
			n, ok := r.polOf[p.Key]
			if !ok {
				n = "?" + p.Name
			}
			// a policy reachable through two roles is returned twice: compared as a set
			if !inSet(got, n) {
				got = append(got, n)
			}
		}
		sort.Strings(got)
		want := append([]string{}, side.Q[s]...)
		sort.Strings(want)
		asis := append([]string{}, side.Z[s]...)
		sort.Strings(asis)
		if strings.Join(got, ",") != strings.Join(want, ",") && strings.Join(got, ",") != strings.Join(asis, ",") && r.res.Drift == nil {
			r.res.Drift = &vMis{Step: step, Call: cs, View: view, Kind: "policies", Subj: s,
				Exp: strings.Join(want, ","), Got: strings.Join(got, ","), AsIs: strings.Join(asis, ",")}
		}
	}
	if r.res.Drift != nil || r.res.Bad != nil {
		return
	}
	// projection of the stored facts (pinned beyond the property -> drift only)
	drift := func(what string, exp, got bool) {
		if exp != got && r.res.Drift == nil {
			r.res.Drift = &vMis{Step: step, Call: cs, View: view, Kind: "state", Subj: what, Exp: fmt.Sprint(exp), Got: fmt.Sprint(got)}
		}
	}
	w := r.e.otg.NewWriter(tx)
	for _, rn := range r.init.Roles {
		k := r.roles[rn]
		ex, err := r.e.svc.Role.NewRetrieve().Where(role.MatchKeys(k)).Exists(r.ctx, tx)
		drift("rrow["+rn+"]", inSet(side.St.RRow, rn), ex && err == nil)
		hn, err := w.HasResource(r.ctx, role.OntologyID(k))
		drift("rnode["+rn+"]", inSet(side.St.RNode, rn), hn && err == nil)
		if !hn {
			continue
		}
		for pn, pk := range r.pols {
			hp, _ := w.HasResource(r.ctx, policy.OntologyID(pk))
			if !hp {
				continue
			}
			hr, err := w.HasRelationship(r.ctx, role.OntologyID(k), ontology.RelationshipTypeParentOf, policy.OntologyID(pk))
			drift("att["+rn+","+pn+"]", hasPair(side.St.Att, rn, pn), hr && err == nil)
		}
		for _, s := range r.init.Known {
			hr, err := w.HasRelationship(r.ctx, role.OntologyID(k), ontology.RelationshipTypeParentOf, r.subj[s])
			drift("asg["+rn+","+s+"]", hasPair(side.St.Asg, rn, s), hr && err == nil)
		}
	}
	for pn, pk := range r.pols {
		ex, err := r.e.svc.Policy.NewRetrieve().Where(policy.MatchKeys(pk)).Exists(r.ctx, tx)
		drift("prow["+pn+"]", inSet(side.St.PRow, pn), ex && err == nil)
		hn, err := w.HasResource(r.ctx, policy.OntologyID(pk))
		drift("pnode["+pn+"]", inSet(side.St.PNode, pn), hn && err == nil)
	}
}

func sep(s string) string {
	if s == "" {
		return ""
	}
	return "," + s
}

func firstLine(s string) string {
	if i := strings.IndexByte(s, '\n'); i >= 0 {
		s = s[:i]
	}
	if len(s) > 120 {
		s = s[:120]
	}
	return s
}

// vReplay steps the real service through one history.
func vReplay(ctx context.Context, e *vEnv, idx int, hist []vStep, seed int64, fresh bool) (res vResult) {
	res = vResult{I: idx, R: "ok"}
	if len(hist) == 0 || hist[0].Call.A != "init" {
		res.R, res.Note = "inconclusive", "history does not start with init"
		return
	}
	init := &hist[0]
	r := &vRun{ctx: ctx, e: e, init: init, res: &res,
		m:    int((seed + int64(idx)) % int64(len(vMaps))),
		rnd:  rand.New(rand.NewSource(seed*1000003 + int64(idx))),
		subj: map[string]ontology.ID{}, roles: map[string]role.Key{}, pols: map[string]policy.Key{}, polOf: map[policy.Key]string{}}
	// fresh identities for this history; the service instance is shared by the worker
	base := e.otg.NewWriter(nil)
	for _, s := range init.Known {
		if s == "root" {
			r.subj[s] = e.root
			continue
		}
		id := ontology.ID{Type: ontology.ResourceTypeUser, Key: uuid.NewString()}
		if err := base.DefineResource(ctx, id); err != nil {
			res.R, res.Note = "inconclusive", "define subject: "+err.Error()
			return
		}
		if err := base.DefineRelationship(ctx, e.decoy, ontology.RelationshipTypeParentOf, id); err != nil {
			res.R, res.Note = "inconclusive", "decoy -> subject: "+err.Error()
			return
		}
		r.subj[s] = id
	}
	r.subj[init.Ghost] = ontology.ID{Type: ontology.ResourceTypeUser, Key: uuid.NewString()}
	for _, rn := range init.Roles {
		if rn == "owner" {
			r.roles[rn] = e.ownerKey
		} else {
			r.roles[rn] = uuid.New()
		}
	}
	for pn := range init.Def {
		if pn == "pown" {
			r.pols[pn] = e.ownerPol
		} else {
			r.pols[pn] = uuid.New()
		}
		r.polOf[r.pols[pn]] = pn
	}
	r.lists = [][]string{{}}
	for _, o := range init.Req {
		r.lists = append(r.lists, []string{o})
	}
	for _, o1 := range init.Req {
		for _, o2 := range init.Req {
			r.lists = append(r.lists, []string{o1, o2})
		}
	}
	tx := e.db.OpenTx()
	defer func() { _ = tx.Close() }()
	lastCom := &init.C[0]
	for i := range hist {
		st := &hist[i]
		c := st.Call
		var err error
		switch c.A {
		case "init":
		case "create_role":
			err = e.svc.Role.NewWriter(tx, false).Create(ctx, &role.Role{Key: r.roles[c.R], Name: "verif-" + c.R + "-" + r.roles[c.R].String()})
		case "delete_role":
			err = e.svc.Role.NewWriter(tx, false).Delete(ctx, r.roles[c.R])
		case "create_policy":
			d := init.Def[c.P]
			p := &policy.Policy{Key: r.pols[c.P], Name: "verif-" + c.P + "-" + r.pols[c.P].String()}
			for _, o := range d.Objects {
				p.Objects = append(p.Objects, r.obj(o))
			}
			for _, a := range d.Actions {
				p.Actions = append(p.Actions, access.Action(a))
			}
			r.rnd.Shuffle(len(p.Objects), func(a, b int) { p.Objects[a], p.Objects[b] = p.Objects[b], p.Objects[a] })
			r.rnd.Shuffle(len(p.Actions), func(a, b int) { p.Actions[a], p.Actions[b] = p.Actions[b], p.Actions[a] })
			pw := e.svc.Policy.NewWriter(tx, false)
			if err = pw.Create(ctx, p); err == nil {
				err = pw.SetOnRole(ctx, r.roles[c.R], p.Key)
			}
		case "attach":
			err = e.svc.Policy.NewWriter(tx, false).SetOnRole(ctx, r.roles[c.R], r.pols[c.P])
		case "delete_policy":
			err = e.svc.Policy.NewWriter(tx, false).Delete(ctx, r.pols[c.P])
		case "assign":
			err = e.svc.Role.NewWriter(tx, false).AssignRole(ctx, r.subj[c.S], r.roles[c.R])
		case "unassign":
			err = e.svc.Role.NewWriter(tx, false).UnassignRole(ctx, r.subj[c.S], r.roles[c.R])
		case "commit":
			if err = tx.Commit(ctx); err == nil {
				err = tx.Close()
			}
			tx = e.db.OpenTx()
		case "abort":
			err = tx.Close()
			tx = e.db.OpenTx()
		default:
			res.R, res.Note = "inconclusive", "unknown call "+c.A
			return
		}
		if (err == nil) != c.OK {
			// the call itself behaved differently from the model: the model's state is no
			// longer a reference for what follows -> drift, stop this history
			got := "ok"
			if err != nil {
				got = "error: " + firstLine(err.Error())
			}
			if res.Drift == nil || res.Drift.Kind != "result" {
				res.Drift = &vMis{Step: i, Call: c.A, View: "tx", Kind: "result", Exp: fmt.Sprint("ok=", c.OK), Got: got}
			}
			break
		}
		if len(st.C) > 0 {
			lastCom = &st.C[0]
		}
		if st.Skip && !(i == 0 && fresh) {
			continue
		}
		// A disagreement on stored facts or policy sets (drift) does not stop the history:
		// the property-level expectation is fixed by the sequence of successful calls.
		r.checkSide(i, c, &st.V, tx, true)
		if res.Bad == nil {
			r.checkSide(i, c, lastCom, nil, c.A == "commit" || c.A == "init")
		}
		if res.Bad != nil {
			break
		}
	}
	switch {
	case res.Bad != nil:
		res.R = "mismatch"
	case res.Drift != nil && res.Dev == nil:
		res.R = "drift"
	case res.Dev != nil:
		res.R = "deviation"
	}
	return
}

func TestVerifRBACReplay(t *testing.T) {
	in, out := os.Getenv("VERIF_IN"), os.Getenv("VERIF_OUT")
	if in == "" || out == "" {
		t.Skip("VERIF_IN/VERIF_OUT not set")
	}
	seed, _ := strconv.ParseInt(os.Getenv("VERIF_SEED"), 10, 64)
	idx0, _ := strconv.Atoi(os.Getenv("VERIF_IDX0"))
	nw, _ := strconv.Atoi(os.Getenv("VERIF_WORKERS"))
	if nw <= 0 {
		nw = runtime.GOMAXPROCS(0)
	}
	f, err := os.Open(in)
	if err != nil {
		t.Fatal(err)
	}
	defer f.Close()
	type job struct {
		i    int
		line []byte
	}
	ctx := context.Background()
	jobs := make(chan job, 64)
	results := make(chan vResult, 64)
	var wg sync.WaitGroup
	for w := 0; w < nw; w++ {
		wg.Add(1)
		go func() {
			defer wg.Done()
			var e *vEnv
			n := 0
			defer func() {
				if e != nil {
					e.close()
				}
			}()
			for j := range jobs {
				var hist []vStep
				if err := json.Unmarshal(j.line, &hist); err != nil {
					results <- vResult{I: j.i, R: "inconclusive", Note: err.Error()}
					continue
				}
				// one service instance per worker, renewed every 400 histories
				if e == nil || n >= 400 {
					if e != nil {
						e.close()
					}
					var oerr error
					if e, oerr = vOpenEnv(ctx); oerr != nil {
						results <- vResult{I: j.i, R: "inconclusive", Note: "open services: " + oerr.Error()}
						e = nil
						continue
					}
					n = 0
				}
				n++
				res := func() (res vResult) {
					defer func() {
						if p := recover(); p != nil {
							res = vResult{I: j.i, R: "inconclusive", Note: "panic: " + fmt.Sprint(p)}
							e.close()
							e = nil
						}
					}()
					return vReplay(ctx, e, j.i, hist, seed, n == 1)
				}()
				results <- res
			}
		}()
	}
	go func() {
		sc := bufio.NewScanner(f)
		sc.Buffer(make([]byte, 1<<20), 1<<27)
		i := idx0
		for sc.Scan() {
			b := append([]byte(nil), sc.Bytes()...)
			if len(b) == 0 {
				continue
			}
			jobs <- job{i: i, line: b}
			i++
		}
		close(jobs)
		wg.Wait()
		close(results)
	}()
	var all []vResult
	n, nenf, nallow, ndev := 0, 0, 0, 0
	for r := range results {
		n++
		nenf += r.NEnf
		nallow += r.NAllow
		ndev += r.NDev
		if r.R != "ok" {
			all = append(all, r)
		}
	}
	sort.Slice(all, func(a, b int) bool { return all[a].I < all[b].I })
	of, err := os.Create(out)
	if err != nil {
		t.Fatal(err)
	}
	defer of.Close()
	enc := json.NewEncoder(of)
	_ = enc.Encode(map[string]any{"summary": true, "replayed": n, "bad": len(all), "enforce_calls": nenf,
		"allowed": nallow, "deviating_requests": ndev})
	for _, r := range all {
		_ = enc.Encode(r)
	}
}

// TestVerifRBACMode is a directed probe of one thing the property does not state:
// what role.Writer.Delete does with a role that still has policies and subjects.
func TestVerifRBACMode(t *testing.T) {
	out := os.Getenv("VERIF_OUT")
	if out == "" {
		t.Skip("VERIF_OUT not set")
	}
	ctx := context.Background()
	e, err := vOpenEnv(ctx)
	if err != nil {
		t.Fatal(err)
	}
	defer e.close()
	res := map[string]any{}
	err = func() error {
		s := ontology.ID{Type: ontology.ResourceTypeUser, Key: uuid.NewString()}
		if err := e.otg.NewWriter(nil).DefineResource(ctx, s); err != nil {
			return err
		}
		rw, pw := e.svc.Role.NewWriter(nil, false), e.svc.Policy.NewWriter(nil, false)
		r := &role.Role{Name: "verif-mode-role"}
		if err := rw.Create(ctx, r); err != nil {
			return err
		}
		o := ontology.ID{Type: "channel", Key: "1"}
		p := &policy.Policy{Name: "verif-mode-policy", Objects: []ontology.ID{o}, Actions: []access.Action{access.ActionRetrieve}}
		if err := pw.Create(ctx, p); err != nil {
			return err
		}
		if err := pw.SetOnRole(ctx, r.Key, p.Key); err != nil {
			return err
		}
		if err := rw.AssignRole(ctx, s, r.Key); err != nil {
			return err
		}
		req := access.Request{Subject: s, Action: access.ActionRetrieve, Objects: []ontology.ID{o}}
		res["allow_before"] = e.svc.Enforce(ctx, req) == nil
		derr := rw.Delete(ctx, r.Key)
		res["delete_err"] = derr != nil
		w := e.otg.NewWriter(nil)
		res["node"], _ = w.HasResource(ctx, role.OntologyID(r.Key))
		res["edge_subject"], _ = w.HasRelationship(ctx, role.OntologyID(r.Key), ontology.RelationshipTypeParentOf, s)
		res["edge_policy"], _ = w.HasRelationship(ctx, role.OntologyID(r.Key), ontology.RelationshipTypeParentOf, policy.OntologyID(p.Key))
		res["row"], _ = e.svc.Role.NewRetrieve().Where(role.MatchKeys(r.Key)).Exists(ctx, nil)
		res["allow_after"] = e.svc.Enforce(ctx, req) == nil
		return nil
	}()
	if err != nil {
		res["error"] = err.Error()
	}
	b, _ := json.Marshal(res)
	if err := os.WriteFile(out, append(b, '\n'), 0o644); err != nil {
		t.Fatal(err)
	}
}
