---- MODULE RBACGen ----
(* RBAC + history variable. Emits every behaviour of length Depth (BFS) or sampled
   behaviours (-simulate) as JSON. Each step record carries the call, the result the
   specification predicts, the abstract post-state of the transaction view and, for
   every known subject x action, the set of request objects covered
     pv  by the property formula (PropCov)       - verdict bearing
     xv  by the walk the code does (CodeCov)     - classification only (as-written deviation)
     qv  policy set of the property formula, zv policy set of the code walk.
   The committed side (c, pc, xc, qc, zc) is emitted on init and commit steps only (it
   cannot change otherwise: TxIsolation). A list request is allowed iff the subject is
   known and every element is in the covered set (invariant AllowIsCover of RBAC). *)
EXTENDS RBAC, Json
CONSTANT Depth
VARIABLE hist
Side(st) == [st |-> st,
             p |-> [s \in Known |-> [a \in Action |-> PropCov(st, s, a)]],
             x |-> [s \in Known |-> [a \in Action |-> CodeCov(st, s, a)]],
             q |-> [s \in Known |-> PropPol(st, s)],
             z |-> [s \in Known |-> CodePol(st, s)]]
Rec == [call |-> last', v |-> Side(view'),
        c |-> IF last'.a = "commit" THEN <<Side(com')>> ELSE <<>>]
InitRec == [call |-> Call("init", "", "", "", TRUE), v |-> Side(InitSt), c |-> <<Side(InitSt)>>,
            def |-> [p \in AllPolicy |-> Def(p)], known |-> Known, ghost |-> Ghost,
            actions |-> Action, req |-> ReqObj, roles |-> AllRole, mode |-> DeleteMode]
GInit == Init /\ hist = <<InitRec>>
GNext == Len(hist) < Depth + 1 /\ Next /\ hist' = Append(hist, Rec)
GSpec == GInit /\ [][GNext]_<<vars, hist>>
Emit == Len(hist) # Depth + 1 \/ PrintT(<<"HIST", ToJson(hist)>>)
====
