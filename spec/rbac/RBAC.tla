------------------------------- MODULE RBAC -------------------------------
(* Role based access control of synnax core (C18):
     core/pkg/service/access/rbac/service.go      Enforcer.Enforce / allowRequest / retrievePolicies
     core/pkg/service/access/rbac/policy/retriever.go  ResolveSubjects (subject -> parent role NODES -> child policy nodes)
     core/pkg/service/access/rbac/policy/writer.go     Create / Delete / SetOnRole
     core/pkg/service/access/rbac/role/writer.go       Create / Delete / AssignRole / UnassignRole
     core/pkg/distribution/ontology/{retrieve,writer_dag}.go  nodes, parent-of edges
   The code as written keeps FOUR kinds of facts, all in one gorp (kv) transaction view:
     rrow  role rows   (role table)            rnode  role nodes   (ontology resource table)
     prow  policy rows (policy table)          pnode  policy nodes (ontology resource table)
     att   edges role -> policy                asg    edges role -> subject
   One action per public writer call (a call = one critical section on the tx), all
   applied to the open transaction `view`; Commit publishes view as `com`, Abort drops it.

     CreateRole(r)      role.Writer.Create: row + node (+ edge from the "Users" group, not modelled)
     DeleteRole(r)      role.Writer.Delete: AS WRITTEN removes the row ONLY (DeleteMode =
                        "orphan"): node, role->policy and role->subject edges stay, and
                        ResolveSubjects walks nodes, so the grants stay reachable. This is
                        the named deviation Window_DeleteRoleOrphan. DeleteMode = "cascade"
                        (node and edges removed) / "refuse" (error while a subject is assigned,
                        else cascade) are the two repairs; the driver detects which one the
                        tree under test implements with a directed probe.
                        Built-in (Internal) role with allowInternal=false: validation error.
     CreatePolicy(p,r)  policy.Writer.Create (row + node) followed by SetOnRole(r, p)
     Attach(r,p)        policy.Writer.SetOnRole for an existing policy (DefineRelationship
                        fails unless both nodes exist)
     DeletePolicy(p)    policy.Writer.Delete: row only; node and edges stay but the last
                        clause of ResolveSubjects drops nodes whose row is gone
     Assign(r,s)        role.Writer.AssignRole: edge; fails if either node is missing
                        (never-registered subject, never-created role)
     Unassign(r,s)      role.Writer.UnassignRole: edge removed, idempotent
     Enforce            state function: CodeAllow(view|com, s, a, objs)

   Property level (what C18 states): PropAllow - every object covered, by type or by
   identity, by a policy (row exists) granting the action, attached to a role that
   EXISTS (row) and is assigned to the subject. CodeAllow is the same walk over role
   NODES. NoOrphanGrant says they coincide.

   Projection (harness zz_verif_rbac_test.go), evaluated in the tx and on the bare DB:
     rrow <- Role.NewRetrieve().Where(MatchKeys(k)).Exists   rnode/pnode <- ontology HasResource
     prow <- Policy.NewRetrieve()...Exists                    att/asg <- ontology HasRelationship
     Allow <- NewEnforcer(tx).Enforce == nil  /  Service.Enforce == nil (any error = deny)
     PropPol <- keys of RetrievePoliciesForSubject
   Initial projection: the built-in Owner role + Owner policy provisioned by OpenService,
   assigned to the root user (subject "root"); Owner policy = all actions on (among
   others) the types T1, T2, type-level.
   Decoy (harness only, "not a grant"): every history also has a NON-role resource (a group
   node) that is parent-of every registered subject and the root user and parent-of a
   decoy policy granting every action on every type; that policy is attached to no role,
   so it is in no PropPol/CodePol set and the expectations below are unchanged. It exists
   to expose a walk that takes any parent of the subject for a role.
   Pinned beyond the property (compared as DRIFT, never as a verdict): ok/error result
   of each writer call (a different result ends the history: the model state is no longer
   a reference); rrow/rnode/prow/pnode/att/asg after each step (a difference is recorded
   and the history goes on: the property-level expectation is fixed by the successful
   calls); the policy set returned by RetrievePoliciesForSubject (as a set: the code
   returns a policy once per role it is reachable through); that an unknown subject is
   denied even for the EMPTY object list (code: NotFound from the ontology); keys are
   fresh (a deleted role/policy key is not created again while its node exists); the
   built-in Owner policy is never deleted.
   Named deviation of the code as written (DeleteMode = "orphan"):
     Window_DeleteRoleOrphan - after DeleteRole(r) the subjects assigned to r keep, and
     subjects assigned later still receive, the grants of r's policies. NoOrphanGrant,
     Biconditional and the delete_role clause of NextCheckReflects fail in this mode only;
     the generator emits both the property-level (PropCov) and the as-written (CodeCov)
     expectation so that the harness can tell this window from any other contradiction. *)
EXTENDS Naturals, FiniteSets, Sequences, TLC
CONSTANTS Subject,     \* registered subjects (ontology node exists), strings
          Role,        \* user-created role ids
          Policy,      \* user-created policy ids
          Action,      \* set of action strings
          PolDef,      \* [Policy -> [actions : SUBSET Action, objects : SUBSET Obj]]
          ReqObj,      \* objects that requests range over (subset of Obj)
          DeleteMode,  \* "orphan" (as written) | "cascade" | "refuse"
          ErrOps,      \* TRUE: also refused / no-op calls (unknown subject, missing role, ...)
          MaxPending   \* bound on the number of calls inside one transaction (model size only)
Ghost == "ghost"       \* a subject that was never registered
Root == "root"         \* the provisioned root user
Owner == "owner"       \* built-in role
OwnerPol == "pown"     \* built-in policy
Known == Subject \cup {Root}
AllSubject == Known \cup {Ghost}
AllRole == Role \cup {Owner}
AllPolicy == Policy \cup {OwnerPol}

\* object universe: 3 types x {type-level, k1, k2}; "T:" is the type-level object (Key = "")
Obj == {"T1:", "T1:k1", "T1:k2", "T2:", "T2:k1", "T2:k2", "T3:", "T3:k1", "T3:k2"}
TypeOf(o) == IF o \in {"T1:", "T1:k1", "T1:k2"} THEN "T1"
             ELSE IF o \in {"T2:", "T2:k1", "T2:k2"} THEN "T2" ELSE "T3"
KeyOf(o) == IF o \in {"T1:", "T2:", "T3:"} THEN ""
            ELSE IF o \in {"T1:k1", "T2:k1", "T3:k1"} THEN "k1" ELSE "k2"
\* allowRequest: policyObj.IsType() => type equality, else type and key equality
Covers(po, o) == TypeOf(po) = TypeOf(o) /\ (KeyOf(po) = "" \/ KeyOf(po) = KeyOf(o))
Def(p) == IF p = OwnerPol THEN [actions |-> Action, objects |-> {"T1:", "T2:"}] ELSE PolDef[p]
ReqLists == {<<>>} \cup {<<o>> : o \in ReqObj} \cup {<<o1, o2>> : o1 \in ReqObj, o2 \in ReqObj}

VARIABLES view,   \* state seen through the open transaction
          com,    \* committed state (bare DB)
          last,   \* last call: [a, r, p, s, ok]
          pend    \* number of calls in the open transaction
vars == <<view, com, last, pend>>
InitSt == [rrow |-> {Owner}, rnode |-> {Owner}, prow |-> {OwnerPol}, pnode |-> {OwnerPol},
           att |-> {<<Owner, OwnerPol>>}, asg |-> {<<Owner, Root>>}]
Call(a, r, p, s, ok) == [a |-> a, r |-> r, p |-> p, s |-> s, ok |-> ok]
Init == view = InitSt /\ com = InitSt /\ last = Call("init", "", "", "", TRUE) /\ pend = 0

\* ---------------------------------------------------------------- enforcement
ReachPol(st, s, roles) == {p \in st.prow : \E r \in roles : <<r, s>> \in st.asg /\ <<r, p>> \in st.att}
PropPol(st, s) == IF s \in Known THEN ReachPol(st, s, st.rrow) ELSE {}
CodePol(st, s) == IF s \in Known THEN ReachPol(st, s, st.rnode) ELSE {}
CoveredBy(P, a, o) == \E p \in P : a \in Def(p).actions /\ \E po \in Def(p).objects : Covers(po, o)
PropCov(st, s, a) == {o \in ReqObj : CoveredBy(PropPol(st, s), a, o)}
CodeCov(st, s, a) == {o \in ReqObj : CoveredBy(CodePol(st, s), a, o)}
\* allowRequest over a resolved policy set P
Allow(P, s, a, objs) == s \in Known /\ \A i \in 1..Len(objs) : CoveredBy(P, a, objs[i])
PropAllow(st, s, a, objs) == Allow(PropPol(st, s), s, a, objs)
CodeAllow(st, s, a, objs) == Allow(CodePol(st, s), s, a, objs)

\* ---------------------------------------------------------------- writer calls
Upd(st, ok, a, r, p, s) == /\ pend < MaxPending /\ pend' = pend + 1
                           /\ view' = st /\ last' = Call(a, r, p, s, ok) /\ UNCHANGED com
Cascade(r) == [view EXCEPT !.rrow = @ \ {r}, !.rnode = @ \ {r},
                           !.att = {e \in @ : e[1] # r}, !.asg = {e \in @ : e[1] # r}]
CreateRole(r) ==
  /\ r \in Role /\ r \notin view.rnode
  /\ Upd([view EXCEPT !.rrow = @ \cup {r}, !.rnode = @ \cup {r}], TRUE, "create_role", r, "", "")
DeleteRole(r) ==
  /\ r \in AllRole
  /\ IF r = Owner THEN ErrOps /\ Upd(view, FALSE, "delete_role", r, "", "")
     ELSE IF r \notin view.rrow THEN ErrOps /\ Upd(view, TRUE, "delete_role", r, "", "")
     ELSE IF DeleteMode = "orphan"
          THEN Upd([view EXCEPT !.rrow = @ \ {r}], TRUE, "delete_role", r, "", "")
     ELSE IF DeleteMode = "refuse" /\ \E s \in AllSubject : <<r, s>> \in view.asg
          THEN Upd(view, FALSE, "delete_role", r, "", "")
     ELSE Upd(Cascade(r), TRUE, "delete_role", r, "", "")
CreatePolicy(p, r) ==
  /\ p \in Policy /\ p \notin view.pnode
  /\ r \in Role /\ r \in view.rnode
  /\ Upd([view EXCEPT !.prow = @ \cup {p}, !.pnode = @ \cup {p}, !.att = @ \cup {<<r, p>>}],
         TRUE, "create_policy", r, p, "")
Attach(r, p) ==
  /\ p \in Policy /\ p \in view.prow /\ r \in Role /\ <<r, p>> \notin view.att
  /\ IF r \in view.rnode
     THEN Upd([view EXCEPT !.att = @ \cup {<<r, p>>}], TRUE, "attach", r, p, "")
     ELSE ErrOps /\ Upd(view, FALSE, "attach", r, p, "")
DeletePolicy(p) ==
  /\ p \in Policy
  /\ IF p \in view.prow THEN Upd([view EXCEPT !.prow = @ \ {p}], TRUE, "delete_policy", "", p, "")
     ELSE ErrOps /\ p \in view.pnode /\ Upd(view, TRUE, "delete_policy", "", p, "")
\* refused variants are kept to one representative each (unknown subject with an existing
\* role; missing role with the first subject) so that random walks stay productive
ErrSubject == CHOOSE s \in Subject : TRUE
Assign(r, s) ==
  /\ r \in AllRole /\ s \in Subject \cup {Ghost}
  /\ IF r \in view.rnode /\ s \in Known
     THEN /\ (<<r, s>> \in view.asg => ErrOps)
          /\ Upd([view EXCEPT !.asg = @ \cup {<<r, s>>}], TRUE, "assign", r, "", s)
     ELSE /\ ErrOps /\ (r \in view.rnode \/ s = ErrSubject)
          /\ Upd(view, FALSE, "assign", r, "", s)
Unassign(r, s) ==
  /\ r \in AllRole /\ s \in Subject
  /\ (<<r, s>> \notin view.asg => ErrOps /\ r \in view.rnode)
  /\ Upd([view EXCEPT !.asg = @ \ {<<r, s>>}], TRUE, "unassign", r, "", s)
Commit == view # com /\ com' = view /\ UNCHANGED view /\ last' = Call("commit", "", "", "", TRUE) /\ pend' = 0
Abort == view # com /\ view' = com /\ UNCHANGED com /\ last' = Call("abort", "", "", "", TRUE) /\ pend' = 0

Next == \/ \E r \in AllRole : CreateRole(r) \/ DeleteRole(r)
        \/ \E p \in Policy : DeletePolicy(p) \/ \E r \in Role : CreatePolicy(p, r) \/ Attach(r, p)
        \/ \E r \in AllRole, s \in AllSubject : Assign(r, s) \/ Unassign(r, s)
        \/ Commit \/ Abort
Spec == Init /\ [][Next]_vars

\* ---------------------------------------------------------------- properties
\* State predicates are stated over `view`: `com` is always an earlier value of `view`
\* (Init, Commit), so they hold for the committed state as well.
TypeOK == \A st \in {view, com} :
            /\ st.rrow \subseteq st.rnode /\ st.rnode \subseteq AllRole
            /\ st.prow \subseteq st.pnode /\ st.pnode \subseteq AllPolicy
            /\ st.att \subseteq st.rnode \X st.pnode
            /\ st.asg \subseteq st.rnode \X Known
\* C18, the biconditional: the walk the code does grants exactly what the property says.
\* Violated by design in DeleteMode = "orphan" (Window_DeleteRoleOrphan), holds otherwise.
NoOrphanGrant == \A s \in AllSubject : CodePol(view, s) = PropPol(view, s)
Biconditional == \A s \in AllSubject :
                   LET cp == CodePol(view, s)  pp == PropPol(view, s)
                   IN \A a \in Action, l \in ReqLists : Allow(cp, s, a, l) <=> Allow(pp, s, a, l)
\* the compressed form the generator emits (covered set per subject x action) is the definition
AllowIsCover == \A s \in AllSubject :
                  LET cp == CodePol(view, s)  pp == PropPol(view, s)
                  IN \A a \in Action :
                       LET pc == {o \in ReqObj : CoveredBy(pp, a, o)}
                           cc == {o \in ReqObj : CoveredBy(cp, a, o)}
                       IN /\ pc = PropCov(view, s, a) /\ cc = CodeCov(view, s, a)
                          /\ \A l \in ReqLists :
                               /\ Allow(pp, s, a, l) <=> (s \in Known /\ \A i \in 1..Len(l) : l[i] \in pc)
                               /\ Allow(cp, s, a, l) <=> (s \in Known /\ \A i \in 1..Len(l) : l[i] \in cc)
UnknownSubjectDenied == \A a \in Action, l \in ReqLists : ~CodeAllow(view, Ghost, a, l)
NoRoleDenied == \A s \in Known :
                  (~\E r \in view.rrow : <<r, s>> \in view.asg) =>
                     \A a \in Action, l \in ReqLists \ {<<>>} : ~PropAllow(view, s, a, l)
\* a mixed list is denied as soon as one element is uncovered, wherever it stands
MixedDenied == \A s \in Known :
                 LET cp == CodePol(view, s)
                 IN \A a \in Action, l \in ReqLists :
                      (\E i \in 1..Len(l) : ~CoveredBy(cp, a, l[i])) => ~Allow(cp, s, a, l)
\* every change is visible to the very next check in the same view
NextCheckReflects ==
  [][ /\ (last'.a = "assign" /\ last'.ok /\ last'.r \in view'.rrow) =>
           \A p \in view'.prow : <<last'.r, p>> \in view'.att => p \in CodePol(view', last'.s)
      /\ (last'.a = "unassign") =>
           \A s2 \in {last'.s} : CodePol(view', s2) = ReachPol(view', s2, view'.rnode \ {last'.r})
      /\ (last'.a = "delete_policy") => \A s2 \in AllSubject : last'.p \notin CodePol(view', s2)
      /\ (last'.a \in {"create_policy", "attach"} /\ last'.ok /\ last'.r \in view'.rrow) =>
           \A s2 \in Known : <<last'.r, s2>> \in view'.asg => last'.p \in CodePol(view', s2)
      /\ (last'.a = "delete_role" /\ last'.ok) =>
           \A s2 \in AllSubject : CodePol(view', s2) = ReachPol(view', s2, view'.rnode \ {last'.r})
    ]_vars
\* the orphan-free part of the above (holds in every mode): everything except delete_role
NextCheckReflectsAsIs ==
  [][ /\ (last'.a = "unassign") =>
           CodePol(view', last'.s) = ReachPol(view', last'.s, view'.rnode \ {last'.r})
      /\ (last'.a = "delete_policy") => \A s2 \in AllSubject : last'.p \notin CodePol(view', s2)
      /\ (last'.a = "assign" /\ last'.ok) =>
           \A p \in view'.prow : <<last'.r, p>> \in view'.att => p \in CodePol(view', last'.s)
    ]_vars
\* the committed state only moves at Commit; Abort restores it; a refused call changes nothing
TxIsolation == [][ /\ (last'.a # "commit" => com' = com)
                   /\ (last'.a = "commit" => com' = view /\ view' = view)
                   /\ (last'.a = "abort" => view' = com)
                   /\ (~last'.ok => view' = view) ]_vars
=============================================================================
