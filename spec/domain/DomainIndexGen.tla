-------------------------- MODULE DomainIndexGen --------------------------
(* DomainIndex + history variable.  Emits every behaviour of length Depth (BFS) or
   sampled behaviours (-simulate) as JSON; each step carries the call, what the spec
   decided inside it (file acquired, rollover, resolved commit end, deviation window),
   the result class and the abstract post-state (pointer list, writer slots, files).

   Restrictions that only shape the enumeration (not the model):
     Prefix   - the first steps are forced to be WriteDomain calls that lay out an index
                (PrefixId selects one of Prefixes; 0 = none) so that short histories
                reach 2-4 pointer indexes where the binary search has real branches;
     FreeWD   - FALSE: domain.Write only inside the prefix (writer-flow profiles);
     MaxDel   - at most MaxDel Delete calls per history;
     PairWC   - a Write is immediately followed by a Commit of the same writer (the
                bytes of a Write matter to this property only through the next Commit
                or through being left behind uncommitted; both remain reachable).   *)
EXTENDS DomainIndex, Json
CONSTANTS Depth, PrefixId, PairWC, FreeWD, MaxDel
VARIABLE hist

WD(s, e, n) == [s |-> s, e |-> e, n |-> n]
Prefixes == <<
  <<WD(2, 3, 1), WD(4, 5, 1)>>,                       \* 1: two 1-tick domains, 1-tick gaps
  <<WD(2, 3, 1), WD(4, 5, 1), WD(6, 7, 1)>>,          \* 2: three domains (needs T >= 6)
  <<WD(3, 5, 2)>>,                                    \* 3: one 2-tick domain
  <<WD(1, 2, 1), WD(2, 3, 1), WD(5, 6, 1)>>,          \* 4: adjacent pair + far one
  <<WD(5, 6, 1), WD(1, 2, 1), WD(3, 4, 1), WD(7, 8, 1)>>, \* 5: four, inserted out of order (T >= 7)
  <<WD(2, 4, 2), WD(4, 6, 2)>>,                       \* 6: two adjacent 2-tick, 2-unit domains (partial deletes)
  <<WD(2, 5, 3)>>                                     \* 7: one 3-tick, 3-unit domain (delete splits it in two; MaxWrite >= 3)
>>
Prefix == IF PrefixId = 0 THEN <<>> ELSE Prefixes[PrefixId]

\* compact JSON: p = pointers as <<s, e, file, off, size>>, ws = writer slots as
\* <<open(0/1), start, end, preset(0/1), prev, len, file, off>>, fz = file sizes,
\* x = <<sw, noop, dev, back>> flags (rollover, no-op commit, accepted inside
\* Window_BackwardsAtRollover, commit that moves backwards)
B(x) == IF x THEN 1 ELSE 0
WSum(w) == <<B(writers'[w].st = "open"), writers'[w].start, writers'[w].end, B(writers'[w].preset),
             writers'[w].prev, writers'[w].len, writers'[w].file, writers'[w].off>>
PSum(q) == <<q.s, q.e, q.f, q.off, q.sz>>
Rec == [a |-> op'.a, w |-> op'.w, s |-> op'.s, e |-> op'.e, n |-> op'.n,
        so |-> op'.so, eo |-> op'.eo, f |-> op'.f, f2 |-> op'.f2, ce |-> op'.ce,
        x |-> <<B(op'.sw), B(op'.noop), B(Window_BackwardsAtRollover(op') /\ res' = "ok"), B(Backwards(op'))>>,
        r |-> res',
        p |-> [i \in 1..Len(pointers') |-> PSum(pointers'[i])],
        ws |-> [w \in Slots |-> WSum(w)],
        fz |-> [f \in 1..Len(files') |-> files'[f].size]]

GNext ==
  /\ Len(hist) < Depth
  /\ Next
  /\ hist' = Append(hist, Rec)
  /\ Len(hist) < Len(Prefix) =>
        LET q == Prefix[Len(hist) + 1] IN
        op'.a = "wd" /\ op'.s = q.s /\ op'.e = q.e /\ op'.n = q.n
  /\ (PairWC /\ Len(hist) > 0 /\ hist[Len(hist)].a = "write") =>
        (op'.a = "commit" /\ op'.w = hist[Len(hist)].w)
  /\ (~FreeWD /\ Len(hist) >= Len(Prefix)) => op'.a # "wd"
  /\ op'.a = "delete" => Cardinality({i \in 1..Len(hist) : hist[i].a = "delete"}) < MaxDel
  \* a trailing Write cannot influence anything observable
  /\ (PairWC /\ Len(hist) = Depth - 1) => op'.a # "write"
GInit == Init /\ hist = <<>>
GSpec == GInit /\ [][GNext]_<<vars, hist>>
Emit == Len(hist) # Depth \/ PrintT(<<"HIST", ToJson(hist)>>)
=============================================================================
