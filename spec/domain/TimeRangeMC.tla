---------------------------- MODULE TimeRangeMC ----------------------------
(* Exhaustive check of TimeRange.tla's theorems for every pair of ranges (valid,
   zero-span and inverted) over 0..N, and emission of one test vector per pair
   (the values the transcription computes) for replay into the real
   telem.TimeRange methods.  No behaviour: everything is an ASSUME.               *)
EXTENDS TimeRange, TLC, Json
CONSTANT N
VARIABLE x
Ranges == {TR(s, e) : s \in 0..N, e \in 0..N}

ASSUME ThPairs ==
  \A a \in Ranges, b \in Ranges :
     /\ ThOverlapValid(a, b) /\ ThOverlapSym(a, b) /\ ThOverlapArgInverted(a, b)
     /\ ThTouching(a, b) /\ ThContainsRange(a, b) /\ ThBoundBy(a, b)
ASSUME ThSingles ==
  \A a \in Ranges : ThMakeValid(a) /\ \A t \in 0..N : ThContainsStamp(a, t)

Vec(a, b) == [as |-> a.s, ae |-> a.e, bs |-> b.s, be |-> b.e,
              ov |-> OverlapsWith(a, b),
              cs |-> ContainsStamp(a, b.s), ce |-> ContainsStamp(a, b.e),
              cr |-> ContainsRange(a, b),
              bbs |-> BoundBy(a, b).s, bbe |-> BoundBy(a, b).e,
              mvs |-> MakeValid(a).s, mve |-> MakeValid(a).e,
              un |-> Union(a, b),
              isz |-> ~OverlapsWith(a, b),
              ixs |-> Intersection(a, b).s, ixe |-> Intersection(a, b).e,
              valid |-> Valid(a) /\ Valid(b)]
ASSUME Emit == \A a \in Ranges, b \in Ranges : PrintT(<<"TRV", ToJson(Vec(a, b))>>)

Init == x = 0
Next == x' = x
Spec == Init /\ [][Next]_x
=============================================================================
