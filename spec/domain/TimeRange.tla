----------------------------- MODULE TimeRange -----------------------------
(* Half-open interval algebra of x/go/telem/time_range.go, transcribed operator by
   operator (same case order, same use of the validated / un-validated receiver), over
   integer ticks.  A range is a record [s, e]; s may exceed e ("inverted").

   Code <-> operator:
     TimeRange.Span / Valid / Swap / MakeValid  -> Span / Valid / Swap / MakeValid
     TimeRange.ContainsStamp                    -> ContainsStamp
     TimeRange.ContainsRange                    -> ContainsRange
     TimeRange.OverlapsWith                     -> OverlapsWith   (receiver first)
     TimeRange.BoundBy                          -> BoundBy        (four sequential ifs)
     TimeRange.Union / Intersection / Split     -> Union / Intersection / SplitBefore/After

   Set-theoretic reference (what the property means by "overlap" / "inside"):
     Stamps(tr)  = {t : tr.s <= t < tr.e}                       the half-open set
     Points(tr)  = Stamps(tr), except that a zero-span range [s,s) stands for the
                   single point {s} (this is how a writer start is tested against data)
   The theorems at the bottom are evaluated by TLC for every pair of ranges over
   0..N (TimeRangeMC.tla); the same pairs are replayed into the real methods by
   TestVerifTimeRange (harness zz_verif_domain_test.go).

   Pinned beyond the property: the results for INVERTED ranges (s > e).  The code's
   OverlapsWith uses the validated receiver for the equality short-cuts but the raw
   receiver for ContainsStamp, so an inverted receiver can miss a contained range
   ([5,1) vs [2,3) -> FALSE).  Transcribed as is; compared at drift level only.      *)
EXTENDS Integers

TR(s, e) == [s |-> s, e |-> e]
Span(tr) == tr.e - tr.s
Valid(tr) == Span(tr) >= 0
Swap(tr) == TR(tr.e, tr.s)
MakeValid(tr) == IF Valid(tr) THEN tr ELSE Swap(tr)
IsZeroSpan(tr) == tr.s = tr.e

ContainsStamp(tr, t) == t >= tr.s /\ t < tr.e
ContainsRange(tr, rng) == rng.s >= tr.s /\ rng.e <= tr.e

OverlapsWith(tr, rng0) ==
  IF tr = rng0 THEN TRUE
  ELSE LET v == MakeValid(tr)
           rng == MakeValid(rng0)
       IN IF rng.s = v.s THEN TRUE
          ELSE IF rng.e = v.s \/ rng.s = v.e THEN FALSE
          ELSE \/ ContainsStamp(tr, rng.e)
               \/ ContainsStamp(tr, rng.s)
               \/ ContainsStamp(rng, tr.s)
               \/ ContainsStamp(rng, tr.e)

BoundBy(tr, b) ==
  LET s1 == IF b.s > tr.s THEN b.s ELSE tr.s
      e1 == IF b.s > tr.e THEN b.s ELSE tr.e
      e2 == IF b.e < e1 THEN b.e ELSE e1
      s2 == IF b.e < s1 THEN b.e ELSE s1
  IN TR(s2, e2)

Min2(a, b) == IF a < b THEN a ELSE b
Max2(a, b) == IF a > b THEN a ELSE b
Union(tr, o) == TR(Min2(tr.s, o.s), Max2(tr.e, o.e))
ZeroTR == TR(0, 0)   \* stands for telem.TimeRangeZero (harness maps it specially)
Intersection(tr, rng) ==
  IF ~OverlapsWith(tr, rng) THEN ZeroTR ELSE TR(Max2(tr.s, rng.s), Min2(tr.e, rng.e))
SplitBefore(tr, t) == TR(tr.s, t)
SplitAfter(tr, t) == TR(t, tr.e)

---------------------------------------------------------------------------
(* set-theoretic reference *)
Stamps(tr) == {t \in tr.s..(tr.e - 1) : TRUE}
Points(tr) == IF tr.s = tr.e THEN {tr.s} ELSE Stamps(tr)

\* Theorems, stated for one pair; TimeRangeMC quantifies over all pairs on 0..N.
ThOverlapValid(a, b) ==      \* valid ranges: overlap == the point sets meet
  (Valid(a) /\ Valid(b)) => (OverlapsWith(a, b) <=> Points(a) \cap Points(b) # {})
ThOverlapSym(a, b) ==        \* symmetric on valid ranges
  (Valid(a) /\ Valid(b)) => (OverlapsWith(a, b) <=> OverlapsWith(b, a))
ThOverlapArgInverted(a, b) ==  \* a valid receiver sees an inverted argument as its swap
  Valid(a) => (OverlapsWith(a, b) <=> OverlapsWith(a, MakeValid(b)))
ThTouching(a, b) ==          \* adjacent non-empty ranges do not overlap; equal ranges do
  /\ (Valid(a) /\ Valid(b) /\ a.e = b.s /\ a.s < a.e) => ~OverlapsWith(a, b)
  /\ OverlapsWith(a, a)
ThContainsStamp(a, t) == ContainsStamp(a, t) <=> t \in Stamps(a)
ThContainsRange(a, b) ==     \* for a non-empty valid argument: subset of stamps
  (Valid(a) /\ b.s < b.e) => (ContainsRange(a, b) <=> Stamps(b) \subseteq Stamps(a))
ThBoundBy(a, b) ==           \* valid inputs: result valid, inside the bound, = intersection
  (Valid(a) /\ Valid(b)) =>
     LET r == BoundBy(a, b)
     IN /\ Valid(r) /\ b.s <= r.s /\ r.e <= b.e
        /\ Stamps(r) = Stamps(a) \cap Stamps(b)
ThMakeValid(a) == Valid(MakeValid(a)) /\ MakeValid(MakeValid(a)) = MakeValid(a)
                  /\ (Valid(a) => MakeValid(a) = a)
=============================================================================
