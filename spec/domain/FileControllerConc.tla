------------------------- MODULE FileControllerConc -------------------------
(* Design-level CONCURRENT model of one data file "N.domain" of a cesium domain database:
   why garbage collection and a writer opening the file exclude each other
   (cesium/internal/domain file_controller.go: acquireWriter, newWriter, gcIdleWriters /
   gcWriters, hasWriter, prepareForGC, restoreUnopened, rejuvenate, scanUnopenedFiles;
   delete.go: GarbageCollect, garbageCollectFile; writer.go: Write, Commit, Close).
   One action = one critical section of the code (what runs under one hold of fc.writers /
   idx.mu, or one FS call outside any lock).  FileController.tla (X01) is the sequential
   pool model; this module is the interleaving argument for the single window it treats as
   atomic (GcBegin/GcFinish vs OpenWriter), and is also run by C09's design stage.

   File system: inodes.  `name` is the inode "N.domain" currently denotes (0 between the two
   renames), `copy` the inode of "N.domain_gc".  A write handle keeps the inode it was
   opened on and its own append offset (MemFS: wpos; the pointer offset a writer commits is
   TrackedWriteCloser.offset = the handle's size at open / after Reset, never a size taken
   by NAME).  Cells are tagged <<writer, k>> (k-th cell the writer wrote) or "dead".

   GC pass (process gc), the code's separate steps:
     g_test     GarbageCollect: fc.hasWriter(key)        (writers.RLock)  - skip if a handle exists
     g_stat     GarbageCollect: FS.Stat(name).Size()     (no lock)
     g_prepare  garbageCollectFile: fc.prepareForGC      (writers.Lock)   - refuse if a handle is in
                  writers.open, ELSE remove the key from writers.unopened (remember wasUnopened)
     g_scan     pointers of the file (idx.mu.RLock), tombstones = stat size - live
                  below threshold -> g_restore: fc.restoreUnopened (writers.Lock)
     g_copy     read live ranges from "N.domain" (by name), write them to "N.domain_gc"
     g_swap1    idx.mu.Lock: re-base offsets, Rename(N.domain -> N.domain_temp)
     g_swap2    (same hold of idx.mu) Rename(N.domain_gc -> N.domain)
     g_rejuv    fc.rejuvenate (writers.Lock): an idle handle in writers.open is closed and dropped,
                  one in use -> error; then, size by name < FileSize -> key back into unopened
   Writer w (each writer = one session):
     Acquire     newWriter under ONE hold of writers.Lock: key in unopened with room ->
                   Open(O_APPEND) (inode + base size remembered), writers.open[key] = handle,
                   delete(unopened, key)
     AcquireIdle acquireWriter's first loop (writers.RLock + tryAcquire): an idle handle in
                   writers.open is taken over; base = where that handle's writes ended (Reset)
     Write       internal.Write: one cell to the HANDLE's inode at the handle's offset
     Commit      idx.insert / idx.update (idx.mu.Lock): pointer (file, offset = base, len = cells written)
     Release     Writer.Close -> controllerEntry.Close: the handle stays in writers.open, idle
   EvictIdle     gcIdleWriters / gcWriters (writers.Lock): an idle handle is closed and dropped;
                   the key goes back to unopened while the file has room
   Reopen        DB.Close + Open = scanUnopenedFiles: no handle, key in unopened iff the file
                   (by name) has room; only with no writer session and no GC pass in flight
                   (DB.Close refuses while resourceCount > 0)

   Invariants:
     PointersAddressOwnBytes  every committed pointer addresses, in the file currently named
                              N.domain, exactly the cells its writer wrote (evaluated while
                              idx.mu is free: the two renames happen under one hold of it)
     NoStaleWriterHandle      a handle in writers.open is a handle on the inode N.domain names
                              (no write goes to an unlinked inode)
     NotInBoth                the key is never in writers.open and writers.unopened at once
   Why it holds (default): membership of the key in {open, unopened, neither} only changes under
   writers.Lock; prepareForGC re-tests `open` under the same hold that empties `unopened`, so from
   there to rejuvenate the key is in NEITHER set and no writer can get a handle; a writer that
   registered first makes prepareForGC refuse.  The earlier hasWriter test is only an optimisation.

   Named deviations (reproduce the counterexamples of the two seeded changes):
     Dev_PrepareNoRecheck   prepareForGC only removes the key from unopened and relies on the
                            earlier hasWriter test: a writer that registers between g_test and
                            g_prepare keeps a handle on the inode that is about to be unlinked.
     Dev_ReopenOutsideLock  newWriter reserves the key (removes it from unopened) under the lock,
                            opens + stats the file WITHOUT the lock, registers the handle under
                            the lock again: in between the key is in neither set, prepareForGC
                            sees no handle, and the handle opened on the old inode is registered
                            after the swap (and after rejuvenate put the key back: NotInBoth).  *)
EXTENDS Naturals, Sequences, FiniteSets, TLC

CONSTANTS Writers,       \* writer sessions, e.g. {"w1", "w2"}
          MaxWrites,     \* cells per session
          FileSize,      \* "room": size by name < FileSize
          Thr,           \* compaction when tombstones >= Thr
          MaxReopen,
          Dev_PrepareNoRecheck, Dev_ReopenOutsideLock

VARIABLES name, copy, content,          \* file system
          ptr,                          \* index: owner -> [off, len] (len = 0: none)
          hopen, holder, unopened,      \* fc.writers: handle in open ("none" or its creator), who holds it, key in unopened
          hino, hpos,                   \* handle objects (by creator): inode, append offset
          wpc, cur, base, nw,           \* writer sessions
          gpc, gsz, gwas, gmap, gerr,   \* the GC pass
          reopens
vars == <<name, copy, content, ptr, hopen, holder, unopened, hino, hpos, wpc, cur, base, nw,
          gpc, gsz, gwas, gmap, gerr, reopens>>

Owners == Writers \cup {"init"}
Inodes == 1..2
Dead == <<"dead", 0>>
NoPtr == [off |-> 0, len |-> 0]
IdxLocked == gpc = "g_swap2"          \* idx.mu is held across the two renames

\* write one cell at offset pos (0-based) of a byte sequence, as a file does
WriteAt(c, pos, cell) ==
  IF pos < Len(c) THEN [c EXCEPT ![pos + 1] = cell]
  ELSE c \o [i \in 1..(pos - Len(c)) |-> Dead] \o <<cell>>
ReadAt(c, off, len) == [i \in 1..len |-> IF off + i <= Len(c) THEN c[off + i] ELSE Dead]
Room == name # 0 /\ Len(content[name]) < FileSize

Init ==
  /\ name = 1 /\ copy = 0
  /\ content = [i \in Inodes |-> IF i = 1 THEN <<Dead, <<"init", 1>>>> ELSE <<>>]
  /\ ptr = [o \in Owners |-> IF o = "init" THEN [off |-> 1, len |-> 1] ELSE NoPtr]
  /\ hopen = "none" /\ holder = "none" /\ unopened = TRUE
  /\ hino = [w \in Writers |-> 0] /\ hpos = [w \in Writers |-> 0]
  /\ wpc = [w \in Writers |-> "idle"] /\ cur = [w \in Writers |-> "none"]
  /\ base = [w \in Writers |-> 0] /\ nw = [w \in Writers |-> 0]
  /\ gpc = "g_test" /\ gsz = 0 /\ gwas = FALSE /\ gmap = [o \in Owners |-> [delta |-> 0, len |-> 0]]
  /\ gerr = FALSE /\ reopens = 0

fsv == <<name, copy, content>>
gcv == <<gpc, gsz, gwas, gmap, gerr>>
hv == <<hino, hpos>>

---------------------------------------------------------------------------
(* writers *)

\* newWriter: ONE hold of writers.Lock
Acquire(w) ==
  /\ ~Dev_ReopenOutsideLock
  /\ wpc[w] = "idle" /\ unopened /\ Room
  /\ hino' = [hino EXCEPT ![w] = name] /\ hpos' = [hpos EXCEPT ![w] = Len(content[name])]
  /\ hopen' = w /\ holder' = w /\ unopened' = FALSE
  /\ cur' = [cur EXCEPT ![w] = w] /\ base' = [base EXCEPT ![w] = Len(content[name])]
  /\ wpc' = [wpc EXCEPT ![w] = "writing"]
  /\ UNCHANGED <<fsv, ptr, nw, gcv, reopens>>
\* the deviation: three critical sections
Reserve(w) ==
  /\ Dev_ReopenOutsideLock
  /\ wpc[w] = "idle" /\ unopened /\ Room
  /\ unopened' = FALSE /\ wpc' = [wpc EXCEPT ![w] = "reserved"]
  /\ UNCHANGED <<fsv, ptr, hopen, holder, hv, cur, base, nw, gcv, reopens>>
OpenStat(w) ==
  /\ wpc[w] = "reserved"
  /\ IF name = 0
     THEN /\ wpc' = [wpc EXCEPT ![w] = "done"]      \* Open fails between the renames
          /\ UNCHANGED <<hv, base>>
     ELSE /\ hino' = [hino EXCEPT ![w] = name] /\ hpos' = [hpos EXCEPT ![w] = Len(content[name])]
          /\ base' = [base EXCEPT ![w] = Len(content[name])]
          /\ wpc' = [wpc EXCEPT ![w] = "opened"]
  /\ UNCHANGED <<fsv, ptr, hopen, holder, unopened, cur, nw, gcv, reopens>>
Register(w) ==
  /\ wpc[w] = "opened"
  /\ hopen' = w /\ holder' = w
  /\ cur' = [cur EXCEPT ![w] = w] /\ wpc' = [wpc EXCEPT ![w] = "writing"]
  /\ UNCHANGED <<fsv, ptr, unopened, hv, base, nw, gcv, reopens>>
\* acquireWriter's first loop: take over an idle handle (tryAcquire + Reset)
AcquireIdle(w) ==
  /\ wpc[w] = "idle" /\ hopen # "none" /\ holder = "none" /\ Room
  /\ holder' = w
  /\ cur' = [cur EXCEPT ![w] = hopen] /\ base' = [base EXCEPT ![w] = hpos[hopen]]
  /\ wpc' = [wpc EXCEPT ![w] = "writing"]
  /\ UNCHANGED <<fsv, ptr, hopen, unopened, hv, nw, gcv, reopens>>
Write(w) ==
  /\ wpc[w] = "writing" /\ nw[w] < MaxWrites
  /\ LET h == cur[w] IN
     /\ content' = [content EXCEPT ![hino[h]] = WriteAt(@, hpos[h], <<w, nw[w] + 1>>)]
     /\ hpos' = [hpos EXCEPT ![h] = @ + 1]
  /\ nw' = [nw EXCEPT ![w] = @ + 1]
  /\ UNCHANGED <<name, copy, ptr, hopen, holder, unopened, hino, wpc, cur, base, gcv, reopens>>
Commit(w) ==
  /\ wpc[w] = "writing" /\ nw[w] > ptr[w].len /\ ~IdxLocked
  /\ ptr' = [ptr EXCEPT ![w] = [off |-> base[w], len |-> nw[w]]]
  /\ UNCHANGED <<fsv, hopen, holder, unopened, hv, wpc, cur, base, nw, gcv, reopens>>
Release(w) ==
  /\ wpc[w] = "writing"
  /\ wpc' = [wpc EXCEPT ![w] = "done"]
  \* controllerEntry.Close flips the handle's own inUse flag; the map may hold another handle by now
  /\ holder' = IF hopen = cur[w] /\ holder = w THEN "none" ELSE holder
  /\ UNCHANGED <<fsv, ptr, hopen, unopened, hv, cur, base, nw, gcv, reopens>>
\* gcIdleWriters / gcWriters: one hold of writers.Lock
EvictIdle ==
  /\ hopen # "none" /\ holder = "none"
  /\ hopen' = "none"
  /\ unopened' = (unopened \/ Room)
  /\ UNCHANGED <<fsv, ptr, holder, hv, wpc, cur, base, nw, gcv, reopens>>

---------------------------------------------------------------------------
(* the GC pass *)

GTest ==
  /\ gpc = "g_test"
  /\ gpc' = IF hopen # "none" THEN "g_done" ELSE "g_stat"
  /\ UNCHANGED <<fsv, ptr, hopen, holder, unopened, hv, wpc, cur, base, nw, gsz, gwas, gmap, gerr, reopens>>
GStat ==
  /\ gpc = "g_stat" /\ name # 0
  /\ gsz' = Len(content[name]) /\ gpc' = "g_prepare"
  /\ UNCHANGED <<fsv, ptr, hopen, holder, unopened, hv, wpc, cur, base, nw, gwas, gmap, gerr, reopens>>
GPrepare ==
  /\ gpc = "g_prepare"
  /\ IF ~Dev_PrepareNoRecheck /\ hopen # "none"
     THEN gpc' = "g_done" /\ UNCHANGED <<unopened, gwas>>
     ELSE gpc' = "g_scan" /\ gwas' = unopened /\ unopened' = FALSE
  /\ UNCHANGED <<fsv, ptr, hopen, holder, hv, wpc, cur, base, nw, gsz, gmap, gerr, reopens>>
RECURSIVE SumLen(_)
SumLen(S) == IF S = {} THEN 0 ELSE LET o == CHOOSE x \in S : TRUE IN ptr[o].len + SumLen(S \ {o})
Live == {o \in Owners : ptr[o].len > 0}
GScan ==
  /\ gpc = "g_scan" /\ ~IdxLocked
  /\ gpc' = IF gsz < SumLen(Live) + Thr THEN "g_restore" ELSE "g_copy"
  /\ UNCHANGED <<fsv, ptr, hopen, holder, unopened, hv, wpc, cur, base, nw, gsz, gwas, gmap, gerr, reopens>>
GRestore ==
  /\ gpc = "g_restore"
  /\ unopened' = (unopened \/ gwas) /\ gpc' = "g_done"
  /\ UNCHANGED <<fsv, ptr, hopen, holder, hv, wpc, cur, base, nw, gsz, gwas, gmap, gerr, reopens>>
\* live pointers in index (= offset) order; ties only under a deviation
RECURSIVE Ordered(_)
Ordered(S) ==
  IF S = {} THEN <<>>
  ELSE LET o == CHOOSE x \in S : \A y \in S : ptr[x].off <= ptr[y].off
       IN <<o>> \o Ordered(S \ {o})
RECURSIVE Pack(_, _, _, _)
\* Pack(order, i, out, map): copy pointer order[i]'s bytes to the end of out
Pack(ord, i, out, map) ==
  IF i > Len(ord) THEN [out |-> out, map |-> map]
  ELSE LET o == ord[i]
       IN Pack(ord, i + 1, out \o ReadAt(content[name], ptr[o].off, ptr[o].len),
               [map EXCEPT ![o] = [delta |-> ptr[o].off - Len(out), len |-> ptr[o].len]])
GCopy ==
  /\ gpc = "g_copy" /\ name # 0
  /\ LET r == Pack(Ordered(Live), 1, <<>>, [o \in Owners |-> [delta |-> 0, len |-> 0]])
     IN /\ copy' = 2 /\ content' = [content EXCEPT ![2] = r.out] /\ gmap' = r.map
  /\ gpc' = "g_swap1"
  /\ UNCHANGED <<name, ptr, hopen, holder, unopened, hv, wpc, cur, base, nw, gsz, gwas, gerr, reopens>>
\* resolvePointerOffset: a pointer whose range is contained in a copied one moves by its delta
GSwap1 ==
  /\ gpc = "g_swap1"
  /\ ptr' = [o \in Owners |-> IF gmap[o].len > 0 /\ ptr[o].len > 0 /\ ptr[o].len <= gmap[o].len
                              THEN [ptr[o] EXCEPT !.off = @ - gmap[o].delta] ELSE ptr[o]]
  /\ name' = 0 /\ gpc' = "g_swap2"
  /\ UNCHANGED <<copy, content, hopen, holder, unopened, hv, wpc, cur, base, nw, gsz, gwas, gmap, gerr, reopens>>
GSwap2 ==
  /\ gpc = "g_swap2"
  /\ name' = copy /\ copy' = 0 /\ gpc' = "g_rejuv"
  /\ UNCHANGED <<content, ptr, hopen, holder, unopened, hv, wpc, cur, base, nw, gsz, gwas, gmap, gerr, reopens>>
GRejuvenate ==
  /\ gpc = "g_rejuv"
  /\ gpc' = "g_done"
  /\ IF hopen # "none" /\ holder # "none"
     THEN gerr' = TRUE /\ UNCHANGED <<hopen, unopened>>          \* resource in use: error, nothing restored
     ELSE /\ hopen' = "none" /\ gerr' = FALSE
          /\ unopened' = (unopened \/ Len(content[name]) < FileSize)
  /\ UNCHANGED <<fsv, ptr, holder, hv, wpc, cur, base, nw, gsz, gwas, gmap, reopens>>

\* DB.Close + Open: scanUnopenedFiles
Reopen ==
  /\ reopens < MaxReopen
  /\ \A w \in Writers : wpc[w] \in {"idle", "done"}
  /\ gpc \in {"g_test", "g_done"}
  /\ hopen' = "none" /\ holder' = "none" /\ unopened' = Room
  /\ reopens' = reopens + 1
  /\ UNCHANGED <<fsv, ptr, hv, wpc, cur, base, nw, gcv>>

Next ==
  \/ \E w \in Writers : Acquire(w) \/ Reserve(w) \/ OpenStat(w) \/ Register(w) \/ AcquireIdle(w)
                          \/ Write(w) \/ Commit(w) \/ Release(w)
  \/ EvictIdle \/ Reopen
  \/ GTest \/ GStat \/ GPrepare \/ GScan \/ GRestore \/ GCopy \/ GSwap1 \/ GSwap2 \/ GRejuvenate
Spec == Init /\ [][Next]_vars

---------------------------------------------------------------------------
TypeOK ==
  /\ name \in 0..2 /\ copy \in {0, 2}
  /\ hopen \in Writers \cup {"none"} /\ holder \in Writers \cup {"none"}
  /\ unopened \in BOOLEAN
  /\ \A w \in Writers : nw[w] \in 0..MaxWrites /\ ptr[w].len <= nw[w]

Addressed(o) == ReadAt(content[name], ptr[o].off, ptr[o].len)
Wrote(o) == [i \in 1..ptr[o].len |-> <<o, i>>]
PointersAddressOwnBytes ==
  (name # 0 /\ ~IdxLocked) =>
     \A o \in Owners : ptr[o].len > 0 =>
        /\ ptr[o].off + ptr[o].len <= Len(content[name])
        /\ Addressed(o) = Wrote(o)
NoStaleWriterHandle == (name # 0 /\ hopen # "none") => hino[hopen] = name
NotInBoth == ~(hopen # "none" /\ unopened)
\* vacuity: the pass does compact, and a writer does write the compacted file
CompactionReachable == ~(gpc = "g_done" /\ name = 2)
WriteAfterCompactionReachable == ~(\E w \in Writers : name = 2 /\ ptr[w].len > 0 /\ hino[cur[w]] = 2)
=============================================================================
