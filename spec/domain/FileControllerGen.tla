------------------------- MODULE FileControllerGen -------------------------
(* FileController + history variable.  Emits every behaviour of length Depth (BFS) or
   sampled behaviours (-simulate) as JSON, one line per behaviour, from an ACTION
   (EmitStep) so that simulation prints each behaviour once.  Each step carries the call,
   what the spec decided inside it (file handed over, rollover, evictions, blocked calls
   that were woken and what they got), the result class and the abstract post-state.

   Restrictions that only shape the enumeration (not the model):
     ~race'   - steps in which two woken calls / a woken call and its waker would run
                concurrently are cut (their outcome is a real race, see FileController);
     Prefix   - the first steps are forced (PrefixId selects one of Prefixes; 0 = none) so
                that short histories start from pools with idle / oversize / unopened files;
     slots    - OpenWriter uses the lowest free slot (slots are interchangeable);
     a trailing Write cannot influence anything observable; explicit gcReaders /
                gcWriters only on pools that hold such handles; no two refused DB.Close in a row;
                at most Noise calls of the kinds gcReaders / gcWriters / no-op garbageCollectFile /
                refused DB.Close per behaviour.                                        *)
EXTENDS FileController, Json
CONSTANTS Depth, PrefixId, Noise
VARIABLES hist, emitted

P(a, s, k, n) == [a |-> a, s |-> s, k |-> k, n |-> n]
Prefixes == <<
  <<P("open", 1, 0, 0), P("write", 1, 0, 1), P("closew", 1, 1, 0)>>,                          \* 1: file 1 = 1 unit, all tombstones, idle
  <<P("open", 1, 0, 0), P("write", 1, 0, 2), P("closew", 1, 1, 0)>>,                          \* 2: file 1 = Nominal, idle (oversize)
  <<P("open", 1, 0, 0), P("write", 1, 0, 1), P("commit", 1, 0, 0), P("write", 1, 0, 1),
    P("closew", 1, 1, 0)>>,                                                                    \* 3: file 1 = 2 units, 1 live, idle
  <<P("open", 1, 0, 0), P("write", 1, 0, 1), P("closew", 1, 1, 0), P("close", 0, 0, 0),
    P("reopen", 0, 0, 0)>>,                                                                    \* 4: file 1 unopened, 1 tombstone
  <<P("open", 1, 0, 0), P("write", 1, 0, 2), P("write", 1, 0, 1), P("commit", 1, 0, 0)>>,     \* 5: rolled over: file 1 = 3 live idle, slot 1 on file 2
  <<P("open", 1, 0, 0), P("write", 1, 0, 2), P("commit", 1, 0, 0), P("write", 1, 0, 2),
    P("closew", 1, 1, 0)>>                                                                     \* 6: file 1 = 4 units, 2 live (stays oversize after GC)
>>
Prefix == IF PrefixId = 0 THEN <<>> ELSE Prefixes[PrefixId]

\* compact JSON: fs = file states (0 none, 1 unopened, 2 held, 3 idle, 4 closed, 5 gc),
\* fz/lv = sizes / live units, ws = writer slots <<state (0 free, 1 open, 2 wait), file, len>>,
\* pd = blocked calls <<t, a>> in queue order, d = woken calls <<t, a, file, size at hand-over>>,
\* x = <<rollover, writers evicted, readers evicted, starved, blocked-although-all-idle, stuck waiter>>
B(x) == IF x THEN 1 ELSE 0
SC(st) == CASE st = "none" -> 0 [] st = "unopened" -> 1 [] st = "held" -> 2 [] st = "idle" -> 3
            [] st = "closed" -> 4 [] st = "gc" -> 5
WC(st) == CASE st = "free" -> 0 [] st = "open" -> 1 [] st = "wait" -> 2
AnyStuck == \E i \in 1..Len(pend) : Stuck(i)
Rec == [a |-> op'.a, s |-> op'.s, k |-> op'.k, n |-> op'.n, f |-> op'.f, h |-> op'.hsz, r |-> res',
        x |-> <<B(op'.roll), op'.ew, op'.er, B(Starved'), B((~NoBlockWhenAllIdle)'), B(AnyStuck')>>,
        d |-> op'.done,
        c |-> counter',
        fs |-> [k \in Keys |-> SC(fst'[k])], fz |-> fsize', lv |-> live',
        ru |-> ru', ri |-> ri',
        ws |-> [s \in Slots |-> <<WC(wr'[s].st), wr'[s].file, wr'[s].len>>],
        pd |-> [i \in 1..Len(pend') |-> <<pend'[i].t, pend'[i].a>>],
        gc |-> gc', lq |-> Len(lockq'), cl |-> B(closed')]

\* calls that mostly leave the pool as it is (at most Noise of them per behaviour)
IsNoise(a, r) == a \in {"gcnoop", "gcw", "gcr"} \/ (a = "close" /\ r = "busy")
GNext ==
  /\ Len(hist) < Depth
  /\ Next
  /\ ~race'
  /\ hist' = Append(hist, Rec)
  /\ emitted' = FALSE
  /\ Len(hist) < Len(Prefix) =>
        LET q == Prefix[Len(hist) + 1] IN
        op'.a = q.a /\ op'.s = q.s /\ op'.k = q.k /\ op'.n = q.n
  /\ op'.a = "open" => \A t \in Slots : t < op'.s => wr[t].st # "free"
  /\ Len(hist) = Depth - 1 => op'.a # "write"
  \* calls that cannot do anything: explicit gc passes on an empty pool, DB.Close refused twice in a row
  /\ op'.a = "gcr" => Total(ru) + Total(ri) > 0
  /\ op'.a = "gcw" => WH(Cur) # {}
  /\ (op'.a = "close" /\ res' = "busy") => op.a # "close"
  /\ IsNoise(op'.a, res') => Cardinality({i \in 1..Len(hist) : IsNoise(hist[i].a, hist[i].r)}) < Noise
EmitStep ==
  /\ Len(hist) = Depth /\ ~emitted
  /\ PrintT(<<"HIST", ToJson(hist)>>)
  /\ emitted' = TRUE
  /\ UNCHANGED <<vars, hist>>
GInit == Init /\ hist = <<>> /\ emitted = FALSE
GSpec == GInit /\ [][GNext \/ EmitStep]_<<vars, hist, emitted>>
=============================================================================
