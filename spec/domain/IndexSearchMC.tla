--------------------------- MODULE IndexSearchMC ---------------------------
(* "The spec states the relation, the code's binary search must agree": for EVERY
   sorted, pairwise disjoint index of up to MaxIdx pointers over ticks 0..T+2 (adjacent
   pointers included), unprotectedSearch / insert (with its afterLast and beforeFirst
   fast paths) / update / getGE as transcribed in DomainIndex.tla compute the overlap
   relation, for every probe range.  No behaviour: one ASSUME.                      *)
EXTENDS DomainIndex, SequencesExt
CONSTANT MaxIdx
AllRanges == {TR(s, e) : s \in 0..(T + 2), e \in 0..(T + 2)}
NonEmpty == {r \in AllRanges : r.s < r.e}
Disjoint(S) == \A a \in S, b2 \in S : a = b2 \/ a.e <= b2.s \/ b2.e <= a.s
RECURSIVE Layouts(_)
Layouts(k) == IF k = 0 THEN {{}}
              ELSE LET prev == Layouts(k - 1)
                   IN prev \cup {S \cup {r} : S \in {x \in prev : Cardinality(x) = k - 1}, r \in NonEmpty}
AsIndex(S) == LET q == SetToSortSeq(S, LAMBDA a, b2 : a.s < b2.s)
              IN [i \in 1..Len(q) |-> Ptr(q[i].s, q[i].e, 1, i - 1, 1)]
Indexes == {AsIndex(S) : S \in {x \in Layouts(MaxIdx) : Disjoint(x)}}
ASSUME IndexCount == PrintT(<<"INDEXES", Cardinality(Indexes)>>)
ASSUME Agree == \A ptrs \in Indexes :
   SearchAgreesOn(ptrs) /\ InsertAgreesOn(ptrs) /\ UpdateAgreesOn(ptrs) /\ NextStartAgreesOn(ptrs)
IInit == Init
INext == UNCHANGED vars
ISpec == IInit /\ [][INext]_vars
=============================================================================
