--------------------------- MODULE FileController ---------------------------
(* Extension check X01 (specification growth beyond the listed properties).

   The file controller of ONE cesium domain database and the way domain.DB uses it:
   cesium/internal/domain/file_controller.go (writer pool, unopened set, counter file,
   reader pool, descriptor limit, release channel), writer.go (OpenWriter / Write /
   Commit with rollover at realFileSizeCap / Close), delete.go (garbageCollectFile:
   prepareForGC / restoreUnopened / rejuvenate, holding fc.readers shared for the whole
   compaction), db.go (Open: scanUnopenedFiles, Close), index_persist.go (the index file
   is rewritten from persistHead = 0 by every persisting commit / writer Close / GC).
   The code AS WRITTEN, one action per public call (compaction is split at the point
   where the copy file is opened so that the "being garbage collected" state is visible).

   THE STATEMENT CHECKED (there is no listed property; these are the invariants):
     S1 OneHolder      at most one writer holds a file at a time; a handle a caller holds
                       (writer or reader) is never closed, evicted or handed to somebody
                       else before the caller releases it.
     S2 HandOver       a file handed to a writer (OpenWriter, rollover inside Commit, a
                       blocked OpenWriter that is woken) is smaller than the nominal file
                       size (Config.FileSize after the 0.8 factor) at hand-over, or new.
        Rollover       a writer keeps its file across commits while the file is below the
                       real cap (1.25 x nominal); the first non-empty commit at or above it
                       moves the writer to another file.
     S3 KeysFresh      file keys are never reused: a new file gets key counter + 1, files
                       never vanish, and the counter ON DISK is >= every existing file key
                       (and equals the counter in memory) after every call.
     S4 Limit          open descriptors (reader handles + writer handles of the pool) never
                       exceed MaxDescriptors.  Documented slack (RFC 0019 3.2.1.1): the
                       limit test and the open are separate critical sections, concurrent
                       acquirers may overshoot; calls here are sequential, no slack used.
     S5 GcExclusive    a file being garbage collected is held by nobody (no writer handle,
                       not in the unopened set, no reader handle) and no acquire returns
                       it until compaction has finished (rejuvenate) or was abandoned
                       (restoreUnopened); a pass that does not compact leaves the file in
                       the writer set it was in (GcNoop: UNCHANGED).
     S6 AfterClose     after DB.Close returned nil nothing is open (no descriptor on any
                       file, counter file and index file included).
     S7 NoBlockWhenAllIdle   if every open descriptor is idle, an acquire does not block.
        NoStuckWaiter        no blocked acquire stays blocked in a state in which the same
                             call, issued afresh, would return.
     S8 IndexDurable   after Writer.Close / DB.Close / a GC pass returned, the index file
                       decodes to the in-memory pointer list; a DB reopened on the same FS
                       finds the same pointers, the same counter, and exactly the files
                       below the nominal size in its unopened set.  (The index file is not
                       a variable here: S8's index part is judged by the harness on the
                       real files only; the reopen part is Close's fst' = Resting.)

   Code <-> action
     DB.OpenWriter -> fc.acquireWriter     OpenWriter(s)      (returns / blocks on fc.release)
     Writer.Write                          Write(s, n)        (n units of bytes)
     Writer.Commit                         Commit(s)          no-op when nothing was written
        resolveCommitEnd: fileSize >= cap    roll: internal.Close (release) ; acquireWriter
     Writer.Close                          CloseWriter(s)     release; uncommitted bytes stay
     fc.acquireReader(key)                 AcquireReader(k)   (what DB.newReader / Iterator use)
     controlledReader.Close                ReleaseReader(k)
     fc.gcReaders / fc.gcWriters           GcReaders / GcWriters  (GarbageCollect's preamble)
     DB.garbageCollectFile(key, size)      GcNoop(k)   prepareForGC refuses (writer handle), or
                                                       reader handles exist / tombstones below
                                                       the threshold -> restoreUnopened
                                           GcBegin(k)  prepareForGC ... up to opening "<k>.domain_gc"
                                           GcFinish    copy, swap, rejuvenate, return
     DB.Close                              Close / CloseBusy (resource.ErrOpen, nothing changes)
     domain.Open on the same FS            Reopen
   acquireWriter as written: (1) any idle (released) writer handle whose file is below
   Nominal; (2) not at the descriptor limit: any file of the unopened set, else a new file
   counter + 1; (3) at the limit: gcWriters (closes every idle handle of an oversize file),
   else gcReaders (closes every idle reader handle), retry; (4) else wait on fc.release.
   acquireReader(k) as written: idle handle of k; not at the limit: new handle; at the
   limit: gcReaders, else gcWriters, retry; else wait on fc.release.
   fc.release: every controllerEntry.Close (a release, or an eviction's HardClose) sends
   one token without blocking; a waiter that takes a token re-runs its acquire from the top
   and, if it cannot proceed, queues again at the tail (Go channels serve receivers FIFO).
   Tokens left in the buffer are drained by the next call that would block (it re-runs on an
   unchanged state), so they are not part of the state.  Drain models this.

   Named deviation of the code as written:
     Dev_ReaderStarvedByIdleSmallWriter - gcWriters evicts only idle handles of OVERSIZE
     files, so acquireReader at the descriptor limit cannot use an idle writer handle of
     a file below Nominal: it blocks although descriptors are idle (S7 NoBlockWhenAllIdle
     fails when they all are), and, having consumed the releasing writer's token, it leaves
     a blocked acquireWriter behind it asleep although that call would now return
     (S7 NoStuckWaiter fails).  FixStarve = TRUE models the repair (acquireReader, when
     gcWriters found nothing, closes idle handles of small files too and puts their keys
     back into the unopened set); both invariants hold then.

   Variables / projection used by the harness (zz_verif_fc_test.go, in-package):
     counter  <- fc.counter.Value() and the 4 bytes of counter.domain
     fst[k]   <- "held"/"idle": k in fc.writers.open with inUse true/false; "unopened": k in
                 fc.writers.unopened; "closed"/"gc": in neither ("none": k > counter)
     fsize[k] <- FS.Stat("k.domain").Size() / Unit;  live[k] <- sum of sizes of the pointers of
                 db.idx.mu.pointers with fileKey k / Unit
     wr[s]    <- the *Writer of slot s: fileKey, fileSize, internal.Len()
     ru/ri[k] <- fc.readers.files[k].open entries with inUse true / false
     pend     <- harness goroutines parked in `<-fc.release` (goroutine dump), FIFO order
     gc,lockq <- the goroutine running garbageCollectFile parked at the FS gate; a
                 goroutine parked on fc.readers.Lock
     plus, from a counting FS wrapper: open handles per file (must equal the pool's view).

   Pinned beyond the statement (compared at drift level by the harness): which eligible
   file a writer gets (the spec allows any, the harness steers the code to the one the
   behaviour chose), sizes, live bytes, idle/in-use counts, the exact set of evictions.
   Enumeration limits (not model limits): at most MaxPend blocked calls; a step in which an
   eviction's token would wake a second waiter while the first is still running (a real
   race) sets `race` and is cut by the generator; while a compaction is paused only calls
   that do not need fc.readers exclusively run, the first that does parks (lockq) and then
   only GcFinish is taken; rollover commits, GcBegin and Close only with no blocked call. *)
EXTENDS Naturals, Sequences, FiniteSets, TLC

CONSTANTS Max,        \* Config.MaxDescriptors
          Nominal,    \* Config.FileSize after the 0.8 factor          (units)
          Cap,        \* realFileSizeCap, rounded up to whole units     (units)
          Thr,        \* GCThreshold * FileSize: compaction when tombstones >= Thr (units)
          W,          \* writer slots
          MaxFiles, MaxSize, MaxWrite, MaxReaders, MaxPend,   \* enumeration bounds
          FixStarve   \* TRUE: model the repaired acquireReader

VARIABLES counter, fst, fsize, live, wr, ru, ri, pend, gc, lockq, closed, race, res, op
svars == <<counter, fst, fsize, live, wr, ru, ri, pend>>
vars == <<counter, fst, fsize, live, wr, ru, ri, pend, gc, lockq, closed, race, res, op>>
View == <<counter, fst, fsize, live, wr, ru, ri, pend, gc, lockq, closed>>

Keys == 1..MaxFiles
Slots == 1..W
FreeW == [st |-> "free", file |-> 0, len |-> 0, clen |-> 0]
NoOp == [a |-> "init", s |-> 0, k |-> 0, n |-> 0, f |-> 0, hsz |-> 0, roll |-> FALSE,
         ew |-> 0, er |-> 0, done |-> <<>>]

RECURSIVE SumTo(_, _)
SumTo(f, n) == IF n = 0 THEN 0 ELSE f[n] + SumTo(f, n - 1)
Total(f) == SumTo(f, MaxFiles)

Cur == [counter |-> counter, fst |-> fst, fsize |-> fsize, live |-> live, wr |-> wr,
        ru |-> ru, ri |-> ri, pend |-> pend]
SetS(S) == /\ counter' = S.counter /\ fst' = S.fst /\ fsize' = S.fsize /\ live' = S.live
           /\ wr' = S.wr /\ ru' = S.ru /\ ri' = S.ri /\ pend' = S.pend

---------------------------------------------------------------------------
(* file_controller.go on a state record S *)

WH(S) == {k \in Keys : S.fst[k] \in {"held", "idle"}}            \* fc.writers.open
Descr(S) == Total(S.ru) + Total(S.ri) + Cardinality(WH(S))
AtLimit(S) == Descr(S) >= Max                                     \* atDescriptorLimit
IdleSmall(S) == {k \in Keys : S.fst[k] = "idle" /\ S.fsize[k] < Nominal}
IdleBig(S) == {k \in Keys : S.fst[k] = "idle" /\ S.fsize[k] >= Nominal}
Unopened(S) == {k \in Keys : S.fst[k] = "unopened"}              \* fc.writers.unopened

\* gcWriters: every idle handle of an oversize file is closed; the file is then in
\* neither set.  gcReaders: every idle reader handle is closed.
EvictW(S) == [S EXCEPT !.fst = [k \in Keys |-> IF k \in IdleBig(S) THEN "closed" ELSE S.fst[k]]]
EvictR(S) == [S EXCEPT !.ri = [k \in Keys |-> 0]]
\* the repair: idle handles of small files are closed too, keys back to the unopened set
EvictSmall(S) == [S EXCEPT !.fst = [k \in Keys |-> IF k \in IdleSmall(S) THEN "unopened" ELSE S.fst[k]]]

NoEv(S) == [S |-> S, tok |-> 0, ew |-> 0, er |-> 0]
\* state after the evictions one acquireWriter performs, tokens they send
PreW(S) ==
  IF IdleSmall(S) # {} \/ ~AtLimit(S) THEN NoEv(S)
  ELSE IF IdleBig(S) # {}
       THEN [S |-> EvictW(S), tok |-> Cardinality(IdleBig(S)), ew |-> Cardinality(IdleBig(S)), er |-> 0]
  ELSE IF Total(S.ri) > 0
       THEN [S |-> EvictR(S), tok |-> Total(S.ri), ew |-> 0, er |-> Total(S.ri)]
  ELSE NoEv(S)
BlocksW(S) == IdleSmall(S) = {} /\ AtLimit(S) /\ IdleBig(S) = {} /\ Total(S.ri) = 0
\* reaches gcReaders (needs fc.readers exclusively)
WNeedsReadersLock(S) == IdleSmall(S) = {} /\ AtLimit(S) /\ IdleBig(S) = {}
WChoices(S) ==
  LET P == PreW(S).S
  IN IF IdleSmall(P) # {} THEN IdleSmall(P)
     ELSE IF Unopened(P) # {} THEN Unopened(P)
     ELSE {P.counter + 1}
IsNew(S, k) == k = S.counter + 1 /\ k \notin IdleSmall(PreW(S).S) /\ k \notin Unopened(PreW(S).S)
HandSize(S, k) == IF IsNew(S, k) THEN 0 ELSE S.fsize[k]
GiveW(S, s, k) ==
  LET P == PreW(S).S
  IN [P EXCEPT !.counter = IF IsNew(S, k) THEN k ELSE @,
               !.fst[k] = "held",
               !.wr[s] = [st |-> "open", file |-> k, len |-> 0, clen |-> 0]]

PreR(S, k) ==
  IF S.ri[k] > 0 \/ ~AtLimit(S) THEN NoEv(S)
  ELSE IF Total(S.ri) > 0
       THEN [S |-> EvictR(S), tok |-> Total(S.ri), ew |-> 0, er |-> Total(S.ri)]
  ELSE IF IdleBig(S) # {}
       THEN [S |-> EvictW(S), tok |-> Cardinality(IdleBig(S)), ew |-> Cardinality(IdleBig(S)), er |-> 0]
  ELSE IF FixStarve /\ IdleSmall(S) # {}
       THEN [S |-> EvictSmall(S), tok |-> Cardinality(IdleSmall(S)), ew |-> Cardinality(IdleSmall(S)), er |-> 0]
  ELSE NoEv(S)
BlocksR(S, k) == /\ S.ri[k] = 0 /\ AtLimit(S) /\ Total(S.ri) = 0 /\ IdleBig(S) = {}
                 /\ (FixStarve => IdleSmall(S) = {})
\* reaches newReader or gcReaders (both take fc.readers exclusively)
GiveR(S, k) ==
  LET P == PreR(S, k).S
  IN IF P.ri[k] > 0 THEN [P EXCEPT !.ri[k] = @ - 1, !.ru[k] = @ + 1]
     ELSE [P EXCEPT !.ru[k] = @ + 1]

\* a blocked call: [t |-> "w", a |-> slot] or [t |-> "r", a |-> key]
CanGo(S, c) == IF c.t = "w" THEN ~BlocksW(S) ELSE ~BlocksR(S, c.a)

(* n tokens arrive on fc.release.  The head waiter takes one and re-runs; it returns
   (sending the tokens of its own evictions) or queues again at the tail.  Result: set of
   [S, done, race]; done = completed calls <<t, a, file, size at hand-over>> in order.   *)
RECURSIVE Drain(_, _, _, _)
Drain(S, n, done, rc) ==
  IF n = 0 \/ S.pend = <<>> THEN {[S |-> S, done |-> done, race |-> rc]}
  ELSE LET c == Head(S.pend)
           S0 == [S EXCEPT !.pend = Tail(@)]
       IN IF ~CanGo(S0, c)
          THEN Drain([S0 EXCEPT !.pend = Append(@, c)], n - 1, done, rc)
          ELSE IF c.t = "w"
          THEN UNION {Drain(GiveW(S0, c.a, k), n - 1 + PreW(S0).tok,
                            Append(done, <<"w", c.a, k, HandSize(S0, k)>>),
                            rc \/ (PreW(S0).tok > 0 /\ S0.pend # <<>>))
                      : k \in WChoices(S0) \cap Keys}
          ELSE Drain(GiveR(S0, c.a), n - 1 + PreR(S0, c.a).tok,
                     Append(done, <<"r", c.a, c.a, 0>>),
                     rc \/ (PreR(S0, c.a).tok > 0 /\ S0.pend # <<>>))

\* common tail of every action that changes the pool: S1 after the call itself, tok tokens
\* rc0: the caller keeps running after its evictions sent tokens to waiters (a real race)
Finish(S1, tok, rc0, r, o) ==
  \E d \in Drain(S1, tok, <<>>, rc0) :
     /\ SetS(d.S)
     /\ race' = d.race
     /\ res' = r
     /\ op' = [o EXCEPT !.done = d.done]
Quiet == lockq = <<>> /\ ~closed

---------------------------------------------------------------------------
Init == /\ counter = 0
        /\ fst = [k \in Keys |-> "none"] /\ fsize = [k \in Keys |-> 0] /\ live = [k \in Keys |-> 0]
        /\ wr = [s \in Slots |-> FreeW]
        /\ ru = [k \in Keys |-> 0] /\ ri = [k \in Keys |-> 0]
        /\ pend = <<>> /\ gc = 0 /\ lockq = <<>> /\ closed = FALSE /\ race = FALSE
        /\ res = "ok" /\ op = NoOp

OpenWriter(s) ==
  /\ Quiet /\ wr[s].st = "free"
  /\ gc # 0 => ~WNeedsReadersLock(Cur)
  /\ UNCHANGED <<gc, lockq, closed>>
  /\ IF BlocksW(Cur)
     THEN /\ Len(pend) < MaxPend
          /\ SetS([Cur EXCEPT !.pend = Append(@, [t |-> "w", a |-> s]), !.wr[s].st = "wait"])
          /\ race' = FALSE /\ res' = "block"
          /\ op' = [NoOp EXCEPT !.a = "open", !.s = s]
     ELSE \E k \in WChoices(Cur) \cap Keys :
            Finish(GiveW(Cur, s, k), PreW(Cur).tok, PreW(Cur).tok > 0 /\ pend # <<>>, "ok",
                   [NoOp EXCEPT !.a = "open", !.s = s, !.f = k, !.hsz = HandSize(Cur, k),
                                !.ew = PreW(Cur).ew, !.er = PreW(Cur).er])

Write(s, n) ==
  /\ Quiet /\ wr[s].st = "open"
  /\ fsize[wr[s].file] + n <= MaxSize
  /\ fsize' = [fsize EXCEPT ![wr[s].file] = @ + n]
  /\ wr' = [wr EXCEPT ![s].len = @ + n]
  /\ race' = FALSE /\ res' = "ok" /\ op' = [NoOp EXCEPT !.a = "write", !.s = s, !.n = n]
  /\ UNCHANGED <<counter, fst, live, ru, ri, pend, gc, lockq, closed>>

Commit(s) ==
  /\ Quiet /\ wr[s].st = "open"
  /\ UNCHANGED <<gc, lockq, closed>>
  /\ LET f == wr[s].file
         S1 == [Cur EXCEPT !.live[f] = @ + (wr[s].len - wr[s].clen), !.wr[s].clen = wr[s].len]
         S2 == [S1 EXCEPT !.fst[f] = "idle"]            \* internal.Close of the old file
     IN IF wr[s].len = 0
        THEN /\ UNCHANGED svars /\ race' = FALSE /\ res' = "noop"
             /\ op' = [NoOp EXCEPT !.a = "commit", !.s = s]
        ELSE IF fsize[f] < Cap
        THEN /\ SetS(S1) /\ race' = FALSE /\ res' = "ok"
             /\ op' = [NoOp EXCEPT !.a = "commit", !.s = s, !.f = f]
        ELSE /\ pend = <<>>
             /\ gc # 0 => ~WNeedsReadersLock(S2)
             /\ Assert(~BlocksW(S2), "rollover acquire cannot block: the old handle is evictable")
             /\ \E k \in WChoices(S2) \cap Keys :
                  Finish(GiveW(S2, s, k), 0, FALSE, "ok",
                         [NoOp EXCEPT !.a = "commit", !.s = s, !.f = k, !.hsz = HandSize(S2, k),
                                      !.roll = TRUE, !.ew = PreW(S2).ew, !.er = PreW(S2).er])

CloseWriter(s) ==
  /\ Quiet /\ wr[s].st = "open"
  /\ UNCHANGED <<gc, lockq, closed>>
  /\ Finish([Cur EXCEPT !.fst[wr[s].file] = "idle", !.wr[s] = FreeW], 1, FALSE, "ok",
            [NoOp EXCEPT !.a = "closew", !.s = s, !.k = wr[s].file])

AcquireReader(k) ==
  /\ Quiet /\ fst[k] # "none"
  /\ Total(ru) + Total(ri) < MaxReaders \/ ri[k] > 0
  /\ UNCHANGED <<gc, closed>>
  /\ IF gc # 0 /\ ri[k] = 0
     THEN \* newReader / gcReaders park on fc.readers.Lock until the compaction returns
          /\ pend = <<>>
          /\ lockq' = <<[t |-> "r", a |-> k]>>
          /\ UNCHANGED svars /\ race' = FALSE /\ res' = "lock"
          /\ op' = [NoOp EXCEPT !.a = "acqr", !.k = k]
     ELSE /\ UNCHANGED lockq
          /\ IF BlocksR(Cur, k)
             THEN /\ Len(pend) < MaxPend
                  /\ SetS([Cur EXCEPT !.pend = Append(@, [t |-> "r", a |-> k])])
                  /\ race' = FALSE /\ res' = "block"
                  /\ op' = [NoOp EXCEPT !.a = "acqr", !.k = k]
             ELSE Finish(GiveR(Cur, k), PreR(Cur, k).tok, PreR(Cur, k).tok > 0 /\ pend # <<>>, "ok",
                         [NoOp EXCEPT !.a = "acqr", !.k = k, !.f = k,
                                      !.ew = PreR(Cur, k).ew, !.er = PreR(Cur, k).er])

ReleaseReader(k) ==
  /\ Quiet /\ ru[k] > 0
  /\ UNCHANGED <<gc, lockq, closed>>
  /\ Finish([Cur EXCEPT !.ru[k] = @ - 1, !.ri[k] = @ + 1], 1, FALSE, "ok",
            [NoOp EXCEPT !.a = "relr", !.k = k])

GcReaders ==
  /\ Quiet /\ gc = 0
  /\ UNCHANGED <<gc, lockq, closed>>
  /\ Finish(EvictR(Cur), Total(ri), Total(ri) > 0 /\ Len(pend) > 1, "ok", [NoOp EXCEPT !.a = "gcr", !.er = Total(ri)])

GcWriters ==
  /\ Quiet
  /\ UNCHANGED <<gc, lockq, closed>>
  /\ Finish(EvictW(Cur), Cardinality(IdleBig(Cur)), IdleBig(Cur) # {} /\ Len(pend) > 1, "ok",
            [NoOp EXCEPT !.a = "gcw", !.ew = Cardinality(IdleBig(Cur))])

\* garbageCollectFile(k) that returns without compacting; reason in res
GcNoopReason(k) ==
  IF fst[k] \in {"held", "idle"} THEN "writer"
  ELSE IF ru[k] + ri[k] > 0 THEN "readers"
  ELSE IF fsize[k] - live[k] < Thr THEN "threshold"
  ELSE "go"
GcNoop(k) ==
  /\ Quiet /\ gc = 0 /\ fst[k] # "none"
  /\ GcNoopReason(k) # "go"
  /\ res' = GcNoopReason(k) /\ race' = FALSE
  /\ op' = [NoOp EXCEPT !.a = "gcnoop", !.k = k]
  /\ UNCHANGED <<svars, gc, lockq, closed>>
GcBegin(k) ==
  /\ Quiet /\ gc = 0 /\ fst[k] # "none" /\ pend = <<>>
  /\ GcNoopReason(k) = "go"
  /\ gc' = k
  /\ fst' = [fst EXCEPT ![k] = "gc"]
  /\ res' = "begin" /\ race' = FALSE
  /\ op' = [NoOp EXCEPT !.a = "gcbegin", !.k = k]
  /\ UNCHANGED <<counter, fsize, live, wr, ru, ri, pend, lockq, closed>>
GcFinish ==
  /\ gc # 0 /\ ~closed
  /\ LET k == gc
         S1 == [Cur EXCEPT !.fsize[k] = live[k],
                           !.fst[k] = IF live[k] < Nominal THEN "unopened" ELSE "closed"]   \* rejuvenate
     IN /\ gc' = 0 /\ lockq' = <<>> /\ race' = FALSE
        /\ UNCHANGED closed
        /\ IF lockq = <<>>
           THEN /\ SetS(S1) /\ res' = "ok"
                /\ op' = [NoOp EXCEPT !.a = "gcfinish", !.k = k]
           ELSE LET c == lockq[1] IN
                IF BlocksR(S1, c.a)
                THEN /\ SetS([S1 EXCEPT !.pend = <<c>>]) /\ res' = "block"
                     /\ op' = [NoOp EXCEPT !.a = "gcfinish", !.k = k]
                ELSE /\ SetS(GiveR(S1, c.a)) /\ res' = "ok"
                     /\ op' = [NoOp EXCEPT !.a = "gcfinish", !.k = k, !.ew = PreR(S1, c.a).ew,
                                           !.er = PreR(S1, c.a).er,
                                           !.done = <<<<"r", c.a, c.a, 0>>>>]

Resting(k) == IF fst[k] = "none" THEN "none" ELSE IF fsize[k] < Nominal THEN "unopened" ELSE "closed"
Close ==
  /\ Quiet /\ gc = 0 /\ pend = <<>>
  /\ \A s \in Slots : wr[s].st = "free"
  /\ Total(ru) = 0
  /\ closed' = TRUE
  \* what the next Open's scanUnopenedFiles will find
  /\ fst' = [k \in Keys |-> Resting(k)]
  /\ ri' = [k \in Keys |-> 0]
  /\ res' = "ok" /\ race' = FALSE /\ op' = [NoOp EXCEPT !.a = "close"]
  /\ UNCHANGED <<counter, fsize, live, wr, ru, pend, gc, lockq>>
CloseBusy ==
  /\ Quiet /\ gc = 0 /\ pend = <<>>
  /\ \E s \in Slots : wr[s].st = "open"
  /\ res' = "busy" /\ race' = FALSE /\ op' = [NoOp EXCEPT !.a = "close"]
  /\ UNCHANGED <<svars, gc, lockq, closed>>
Reopen ==
  /\ closed
  /\ closed' = FALSE
  /\ res' = "ok" /\ race' = FALSE /\ op' = [NoOp EXCEPT !.a = "reopen"]
  /\ UNCHANGED <<svars, gc, lockq>>

Next ==
  \/ \E s \in Slots : OpenWriter(s) \/ Commit(s) \/ CloseWriter(s)
  \/ \E s \in Slots, n \in 1..MaxWrite : Write(s, n)
  \/ \E k \in Keys : AcquireReader(k) \/ ReleaseReader(k) \/ GcNoop(k) \/ GcBegin(k)
  \/ GcReaders \/ GcWriters \/ GcFinish \/ Close \/ CloseBusy \/ Reopen
\* (Quiet: once a call is parked on fc.readers.Lock only the compaction's return is taken)
Spec == Init /\ [][Next]_vars
NoRace == ~race

---------------------------------------------------------------------------
States == {"none", "unopened", "held", "idle", "closed", "gc"}
TypeOK ==
  /\ counter \in 0..MaxFiles
  /\ fst \in [Keys -> States] /\ fsize \in [Keys -> 0..MaxSize] /\ live \in [Keys -> 0..MaxSize]
  /\ \A s \in Slots : wr[s].st \in {"free", "open", "wait"}
  /\ \A k \in Keys : live[k] <= fsize[k]
  /\ Len(pend) <= MaxPend /\ Len(lockq) <= 1 /\ gc \in 0..MaxFiles

\* S1
OneHolder ==
  /\ \A s, t \in Slots : (s # t /\ wr[s].st = "open" /\ wr[t].st = "open") => wr[s].file # wr[t].file
  /\ \A s \in Slots : wr[s].st = "open" => fst[wr[s].file] = "held"
  /\ \A k \in Keys : fst[k] = "held" => \E s \in Slots : wr[s].st = "open" /\ wr[s].file = k
  /\ \A s \in Slots : wr[s].st = "wait" <=> \E i \in 1..Len(pend) : pend[i] = [t |-> "w", a |-> s]
HeldStay ==   \* a handle in use is not evicted by anything but its holder's release
  [][\A k \in Keys : /\ (fst[k] = "held" /\ fst'[k] # "held") => op'.a \in {"closew", "commit"}
                     /\ ru'[k] < ru[k] => op'.a = "relr"]_vars
\* S2
HandOver ==
  /\ (op.a \in {"open", "commit"} /\ op.f # 0 /\ (op.a = "open" \/ op.roll)) => op.hsz < Nominal
  /\ \A i \in 1..Len(op.done) : op.done[i][1] = "w" => op.done[i][4] < Nominal
Rollover ==
  [][\A s \in Slots : (op'.a = "commit" /\ op'.s = s /\ res' = "ok") =>
        /\ (fsize[wr[s].file] < Cap => wr'[s].file = wr[s].file)
        /\ (fsize[wr[s].file] >= Cap => (wr'[s].file # wr[s].file /\ fst'[wr[s].file] # "held"))]_vars
\* S3
KeysDense == \A k \in Keys : fst[k] # "none" <=> k <= counter
KeysFresh ==
     [][/\ counter' >= counter
        /\ \A k \in Keys : fst[k] # "none" => fst'[k] # "none"
        /\ \A k \in Keys : (fst[k] = "none" /\ fst'[k] # "none") => (k = counter + 1 /\ fsize'[k] = 0)]_vars
\* S4
Limit == Descr(Cur) <= Max
\* S5
GcExclusive ==
  /\ \A k \in Keys : fst[k] = "gc" <=> (gc = k)
  /\ gc # 0 => /\ ru[gc] = 0 /\ ri[gc] = 0
               /\ \A s \in Slots : wr[s].st = "open" => wr[s].file # gc
  /\ (lockq # <<>>) => gc # 0
GcNotAcquired ==
  [][(gc # 0 /\ gc' = gc) => (fst'[gc] = "gc" /\ ru'[gc] = 0 /\ ri'[gc] = 0)]_vars
\* S6
AfterClose == closed => (Descr(Cur) = 0 /\ pend = <<>> /\ \A s \in Slots : wr[s].st = "free")
\* S7
AllIdle(S) == Descr(S) > 0 /\ Total(S.ru) = 0 /\ \A k \in Keys : S.fst[k] # "held"
NoBlockWhenAllIdle == pend # <<>> => ~AllIdle(Cur)
Stuck(i) == CanGo([Cur EXCEPT !.pend = <<>>], pend[i])
NoStuckWaiter == \A i \in 1..Len(pend) : ~Stuck(i)
\* the deviation: a blocked acquireReader with an idle writer handle of a small file in the pool
Starved == \E i \in 1..Len(pend) : pend[i].t = "r" /\ IdleSmall(Cur) # {}
\* as written, S7 fails only in the shape of the named deviation
AllIdleBlockOnlyStarved ==
  (pend # <<>> /\ AllIdle(Cur)) => (IdleSmall(Cur) # {} /\ \A i \in 1..Len(pend) : pend[i].t = "r")
StuckOnlyBehindStarved ==
  \A i \in 1..Len(pend) : Stuck(i) =>
     (pend[i].t = "w" /\ IdleSmall(Cur) # {} /\ \E j \in 1..Len(pend) : pend[j].t = "r")
\* the unopened set holds only small files; no idle reader handle survives a blocked call
UnopenedSmall == \A k \in Keys : fst[k] = "unopened" => fsize[k] < Nominal
NoIdleReaderWhilePending == pend # <<>> => Total(ri) = 0

\* state constraint of the exhaustive design run
Bound == TRUE
=============================================================================
