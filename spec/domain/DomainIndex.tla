---------------------------- MODULE DomainIndex ----------------------------
(* The domain index of ONE cesium channel: cesium/internal/domain
   {db.go, writer.go, index.go, delete.go, file_controller.go}, sequential use, several
   writers open at the same time.  One action per public call, the code AS WRITTEN.

   Code <-> action
     DB.OpenWriter(cfg{Start,End})      -> OpenWriter(w, s, pe)   (pe = 0: no preset End)
        idx.overlap(cfg.Domain())          OverlapHit (binary search, Search)
        fc.acquireWriter                   AcquireChoices / Acquire (any released, not
                                           oversize (< Nominal) open file, else a new file)
        idx.getGE(cfg.Start) -> w.End      NextStart
     Writer.Write(p)                    -> Write(w, n)           (n units of bytes)
     Writer.Commit(end) / commit        -> Commit(w, e)
        presetEnd && end.After(w.End)      plain error ("error")
        internal.Len() == 0                no-op, nil
        resolveCommitEnd                   sw (file size >= Cap), ce
        validateCommitRange                "validation"
        idx.insert (first commit of the    CodeInsert: afterLast / beforeFirst fast paths,
          current file) / idx.update       else Search;  CodeUpdate: neighbour checks
        switching file                     release, Acquire, Start := ce, prevCommit := 0
     Writer.Close                       -> CloseWriter(w)   (uncommitted bytes stay in the file)
     domain.Write(db, tr, data)         -> WriteDomain(s, e, n)  = OpenWriter{s,e};Write;Commit(e);Close
     DB.Delete(tr, startOff, endOff)    -> Delete(a, b, so, eo)  (validateDelete's clamping)
        offset resolvers of the harness: start resolver returns `so` bytes (0 when the
        stamp is the domain start), end resolver returns `eo` bytes (0 when the stamp is
        the domain start); both return the stamp unchanged.
        Enabled only when no open writer's control region [orig start, preset End or
        MAX) overlaps [a,b) - the guard unary.DB.delete takes (ErrIfControlled gate).

   Variables / projection used by the harness (zz_verif_domain_test.go, in-package):
     pointers <- db.idx.mu.pointers, each (Start, End, fileKey, offset, size/Unit);
                 the same list must come out of DB.OpenIterator(IterRange(TimeRangeMax))
     files    <- files[k].size = FS.Stat("k.domain").Size()/Unit ; held = entry in use
     writers  <- the *Writer the harness holds per slot: Start, End, prevCommit, Len,
                 fileKey, internal.Offset()
     res      <- class of the returned error: ok | conflict (ErrWriteConflict) |
                 validation (validate.ErrValidation, not a conflict) | error (other)
     op       <- ghost: the last call and what the spec decided inside it
   Ticks 1..T+1 are mapped to telem.TimeStamps by strictly monotone maps; MAXT (T+2)
   stands for telem.TimeStampMax.  One unit = Unit bytes; Nominal/Cap are
   Config.FileSize (after the 0.8 factor) and realFileSizeCap in units.

   The property (C03) on this spec: Sorted, NonOverlapping, WithinFile (invariants);
   OpenConflictRule, CommitConflictRule, BackwardsFails, EmptyCommitFails,
   FailedOpsChangeNothing, OthersUnchanged (action properties).  SearchAgreesOn /
   InsertAgreesOn / UpdateAgreesOn / NextStartAgreesOn state that the transcribed
   binary search, the insert fast paths, update's neighbour test and getGE compute the
   overlap RELATION; IndexSearchMC.tla checks them on every sorted disjoint index.
   The exhaustive run uses VIEW View (res/op are outputs, never read by an action).

   Named deviation of the code as written (DESIGN 2.5):
     Window_BackwardsAtRollover - validateCommitRange skips the "not before the
     previous commit" test when the commit switches files, also for writers WITHOUT a
     preset End; such a commit shrinks the committed range ([10,20) becomes [10,15)).
     FixBackwards = TRUE models the repaired rule; BackwardsFails holds only then,
     BackwardsFailsOutsideWindow holds as is.

   Pinned beyond the property (drift-level comparisons in the harness): which file a
   writer gets, offsets and sizes of pointers, where rollover splits a domain, w.End of
   a writer without preset End, byte ranges of pointers of one file being disjoint,
   the plain-error class of "commit beyond the preset End", Delete's result.
   Outside the input space: preset End < Start (unary.WriterConfig.Validate rejects
   it; domain.WriterConfig.Validate builds the validator but returns nil).          *)
EXTENDS TimeRange, Sequences, FiniteSets, TLC

CONSTANTS T,            \* start ticks 1..T, end ticks 1..T+1
          W,            \* writer slots
          Nominal,      \* a released file is reused while size < Nominal   (units)
          Cap,          \* a commit switches files when file size >= Cap    (units)
          MaxWrite,     \* Write(w, n): n in 1..MaxWrite
          PresetSpans,  \* preset End - Start ranges over this set (subset of Nat)
          AnyFile,      \* TRUE: any eligible released file; FALSE: the lowest key
          Deletes,      \* TRUE: Delete enabled
          MaxDelOff,    \* Delete's resolver offsets so, eo in 0..MaxDelOff (units)
          FixBackwards, \* TRUE: model the repaired validateCommitRange
          MaxPtrs, MaxFiles, MaxFileSize   \* state constraint of the exhaustive run

VARIABLES pointers, files, writers, res, op
vars == <<pointers, files, writers, res, op>>
\* VIEW of the exhaustive run: res/op are outputs of the last call, never read by an action
View == <<pointers, files, writers>>

Slots == 1..W
MAXT == T + 2
NoW == [st |-> "free", start |-> 0, orig |-> 0, preset |-> FALSE, end |-> 0,
        prev |-> 0, len |-> 0, file |-> 0, off |-> 0]
NoOp == [a |-> "init", w |-> 0, s |-> 0, e |-> 0, n |-> 0, so |-> 0, eo |-> 0,
         f |-> 0, f2 |-> 0, sw |-> FALSE, noop |-> FALSE, ce |-> 0, prev |-> 0,
         preset |-> FALSE, s0 |-> 0]
PR(p) == TR(p.s, p.e)
Ptr(s, e, f, off, sz) == [s |-> s, e |-> e, f |-> f, off |-> off, sz |-> sz]
Fails == {"conflict", "validation", "error"}
SetMin(S) == CHOOSE x \in S : \A y \in S : x <= y

---------------------------------------------------------------------------
(* index.go *)

\* the RELATION: indices of pointers overlapping tr (receiver = the pointer)
OverlapIdx(ptrs, tr) == {i \in 1..Len(ptrs) : OverlapsWith(PR(ptrs[i]), tr)}
CountLE(ptrs, t) == Cardinality({i \in 1..Len(ptrs) : ptrs[i].s <= t})

\* unprotectedSearch, 1-based (code's -1 is 0 here): [i, hit]
RECURSIVE BSearch(_, _, _, _)
BSearch(ptrs, tr, lo, hi) ==
  IF lo > hi THEN [i |-> hi, hit |-> FALSE]
  ELSE LET mid == (lo + hi) \div 2
       IN IF OverlapsWith(PR(ptrs[mid]), tr) THEN [i |-> mid, hit |-> TRUE]
          ELSE IF tr.s < ptrs[mid].s THEN BSearch(ptrs, tr, lo, mid - 1)
          ELSE BSearch(ptrs, tr, mid + 1, hi)
Search(ptrs, tr) == IF Len(ptrs) = 0 THEN [i |-> 0, hit |-> FALSE]
                    ELSE BSearch(ptrs, tr, 1, Len(ptrs))
OverlapHit(ptrs, tr) == Search(ptrs, tr).hit          \* index.overlap

InsertAfter(ptrs, k, p) == SubSeq(ptrs, 1, k) \o <<p>> \o SubSeq(ptrs, k + 1, Len(ptrs))

\* index.insert: [ok, ptrs]
CodeInsert(ptrs, p) ==
  LET n == Len(ptrs) IN
  IF n = 0 THEN [ok |-> TRUE, ptrs |-> <<p>>]
  ELSE IF p.s > ptrs[n].e THEN [ok |-> TRUE, ptrs |-> Append(ptrs, p)]       \* afterLast
  ELSE IF p.e < ptrs[1].s THEN [ok |-> TRUE, ptrs |-> <<p>> \o ptrs]         \* beforeFirst
  ELSE LET r == Search(ptrs, PR(p))
       IN IF r.hit THEN [ok |-> FALSE, ptrs |-> ptrs]
          ELSE [ok |-> TRUE, ptrs |-> InsertAfter(ptrs, r.i, p)]

\* index.update: class "ok" | "conflict" | "notfound" (the code's "inconceivable" branches)
CodeUpdate(ptrs, p) ==
  LET n == Len(ptrs)
      at == IF n > 0 /\ p.s = ptrs[n].s THEN n ELSE Search(ptrs, TR(p.s, p.s)).i
  IN IF n = 0 \/ at = 0 \/ ptrs[at].s # p.s THEN [c |-> "notfound", ptrs |-> ptrs]
     ELSE LET nextHit == at # n /\ OverlapsWith(PR(ptrs[at + 1]), PR(p))
              prevHit == at # 1 /\ OverlapsWith(PR(ptrs[at - 1]), PR(p))
          IN IF prevHit \/ nextHit THEN [c |-> "conflict", ptrs |-> ptrs]
             ELSE [c |-> "ok", ptrs |-> [ptrs EXCEPT ![at] = p]]

\* index.getGE(t).Start when nothing contains t: start of the next pointer, or MAX
NextStart(ptrs, t) ==
  LET r == Search(ptrs, TR(t, t))
      i == IF r.hit THEN r.i ELSE r.i + 1
  IN IF i >= 1 /\ i <= Len(ptrs) THEN ptrs[i].s ELSE MAXT

---------------------------------------------------------------------------
(* file_controller.go: acquireWriter *)
Eligible(fs) == {f \in 1..Len(fs) : ~fs[f].held /\ fs[f].size < Nominal}
AcquireChoices(fs) ==
  IF Eligible(fs) = {} THEN {Len(fs) + 1}
  ELSE IF AnyFile THEN Eligible(fs) ELSE {SetMin(Eligible(fs))}
Acquire(fs, f) == IF f = Len(fs) + 1 THEN Append(fs, [size |-> 0, held |-> TRUE])
                  ELSE [fs EXCEPT ![f].held = TRUE]
Release(fs, f) == [fs EXCEPT ![f].held = FALSE]

---------------------------------------------------------------------------
Init == /\ pointers = <<>> /\ files = <<>>
        /\ writers = [w \in Slots |-> NoW]
        /\ res = "ok" /\ op = NoOp

IsOpen(w) == writers[w].st = "open"
LowestFree(w) == ~IsOpen(w) /\ \A v \in Slots : v < w => IsOpen(v)
PresetEnds(s) == {0} \cup {s + d : d \in {x \in PresetSpans : s + x <= T + 1}}

\* the commit decision shared by Commit and WriteDomain.  wr: writer record, fs: files
\* (wr's file held), e: the caller's end.  Returns everything the callers need.
CommitCalc(ptrs, fs, wr, e) ==
  LET sw == fs[wr.file].size >= Cap
      ce == IF sw THEN e ELSE IF wr.preset THEN wr.end ELSE e
      back == IF FixBackwards
              THEN wr.prev # 0 /\ ce < wr.prev /\ ~(sw /\ wr.preset)
              ELSE wr.prev # 0 /\ ~sw /\ ce < wr.prev
      p == Ptr(wr.start, ce, wr.file, wr.off, wr.len)
      ins == CodeInsert(ptrs, p)
      upd == CodeUpdate(ptrs, p)
      cls == IF wr.preset /\ e > wr.end THEN "error"
             ELSE IF wr.len = 0 THEN "ok"
             ELSE IF back \/ ~(wr.start < ce) THEN "validation"
             ELSE IF wr.prev = 0 THEN (IF ins.ok THEN "ok" ELSE "conflict")
             ELSE (IF upd.c = "ok" THEN "ok" ELSE IF upd.c = "conflict" THEN "conflict" ELSE "error")
      noop == ~(wr.preset /\ e > wr.end) /\ wr.len = 0
      np == IF cls = "ok" /\ ~noop THEN (IF wr.prev = 0 THEN ins.ptrs ELSE upd.ptrs) ELSE ptrs
  IN [cls |-> cls, noop |-> noop, sw |-> sw /\ cls = "ok" /\ ~noop, ce |-> ce, ptrs |-> np]

OpenWriter(w, s, pe) ==
  /\ LowestFree(w)
  /\ LET dom == IF pe = 0 THEN TR(s, s) ELSE TR(s, pe)
         o == [NoOp EXCEPT !.a = "open", !.w = w, !.s = s, !.e = pe, !.preset = pe # 0]
     IN IF OverlapHit(pointers, dom)
        THEN /\ res' = "conflict" /\ op' = o
             /\ UNCHANGED <<pointers, files, writers>>
        ELSE \E f \in AcquireChoices(files) :
             LET fs == Acquire(files, f) IN
             /\ files' = fs
             /\ writers' = [writers EXCEPT ![w] =
                   [st |-> "open", start |-> s, orig |-> IF Deletes THEN s ELSE 0,
                    preset |-> pe # 0, end |-> pe,
                    prev |-> 0, len |-> 0, file |-> f, off |-> fs[f].size]]
             \* w.End of a writer without preset End (never read again by the code
             \* paths modelled here) is reported through op.ce, not kept in the state
             /\ res' = "ok" /\ op' = [o EXCEPT !.f = f, !.ce = IF pe # 0 THEN pe ELSE NextStart(pointers, s)]
             /\ UNCHANGED pointers

Write(w, n) ==
  /\ IsOpen(w)
  /\ files' = [files EXCEPT ![writers[w].file].size = @ + n]
  /\ writers' = [writers EXCEPT ![w].len = @ + n]
  /\ res' = "ok" /\ op' = [NoOp EXCEPT !.a = "write", !.w = w, !.n = n]
  /\ UNCHANGED pointers

Commit(w, e) ==
  /\ IsOpen(w)
  /\ LET wr == writers[w]
         c == CommitCalc(pointers, files, wr, e)
         o == [NoOp EXCEPT !.a = "commit", !.w = w, !.e = e, !.noop = c.noop, !.sw = c.sw,
                           !.ce = c.ce, !.prev = wr.prev, !.preset = wr.preset, !.s0 = wr.start]
     IN /\ res' = c.cls
        /\ pointers' = c.ptrs
        /\ IF c.sw
           THEN LET rel == Release(files, wr.file) IN
                \E f2 \in AcquireChoices(rel) :
                  LET fs == Acquire(rel, f2) IN
                  /\ files' = fs
                  /\ writers' = [writers EXCEPT ![w] = [wr EXCEPT !.start = c.ce, !.prev = 0,
                                   !.len = 0, !.file = f2, !.off = fs[f2].size]]
                  /\ op' = [o EXCEPT !.f2 = f2]
           ELSE /\ files' = files
                /\ writers' = IF c.cls = "ok" /\ ~c.noop
                              THEN [writers EXCEPT ![w].prev = c.ce] ELSE writers
                /\ op' = o

CloseWriter(w) ==
  /\ IsOpen(w)
  /\ files' = Release(files, writers[w].file)
  /\ writers' = [writers EXCEPT ![w] = NoW]
  /\ res' = "ok" /\ op' = [NoOp EXCEPT !.a = "close", !.w = w]
  /\ UNCHANGED pointers

\* domain.Write: a temporary writer with preset End = e
WriteDomain(s, e, n) ==
  LET o == [NoOp EXCEPT !.a = "wd", !.s = s, !.e = e, !.n = n, !.preset = TRUE, !.s0 = s] IN
  IF OverlapHit(pointers, TR(s, e))
  THEN /\ res' = "conflict" /\ op' = o /\ UNCHANGED <<pointers, files, writers>>
  ELSE \E f \in AcquireChoices(files) :
       LET fs0 == Acquire(files, f)
           fs1 == [fs0 EXCEPT ![f].size = @ + n]
           wr == [st |-> "open", start |-> s, orig |-> s, preset |-> TRUE, end |-> e,
                  prev |-> 0, len |-> n, file |-> f, off |-> fs0[f].size]
           c == CommitCalc(pointers, fs1, wr, e)
           rel == Release(fs1, f)
       IN /\ res' = c.cls
          /\ pointers' = c.ptrs
          /\ UNCHANGED writers
          /\ IF c.sw
             THEN \E f2 \in AcquireChoices(rel) :
                    /\ files' = Release(Acquire(rel, f2), f2)
                    /\ op' = [o EXCEPT !.f = f, !.f2 = f2, !.sw = TRUE, !.ce = c.ce]
             ELSE /\ files' = rel
                  /\ op' = [o EXCEPT !.f = f, !.ce = c.ce]

\* DB.Delete
SearchStamp(ptrs, t) == Search(ptrs, TR(t, t))
Controlled(a, b) ==
  \E w \in Slots : IsOpen(w) /\
     OverlapsWith(TR(writers[w].orig, IF writers[w].preset THEN writers[w].end ELSE MAXT), TR(a, b))
ClampSz(x, sz) == IF x < 0 THEN 0 ELSE IF x > sz THEN sz ELSE x
DeleteCalc(ptrs, a, b, so, eo) ==
  LET n == Len(ptrs)
      rs == SearchStamp(ptrs, a)
      re == SearchStamp(ptrs, b)
      sd == IF rs.hit THEN rs.i ELSE rs.i + 1
      ed == re.i
  IN IF (~rs.hit /\ sd = n + 1) \/ (~re.hit /\ ed = 0) THEN [c |-> "ok", ptrs |-> ptrs]
     ELSE
     LET sp == ptrs[sd]
         ep == ptrs[ed]
         so0 == IF rs.hit THEN (IF a > sp.s THEN so ELSE 0) ELSE 0
         trS == IF rs.hit THEN a ELSE sp.s
         eo0 == IF re.hit THEN ep.sz - (IF b > ep.s THEN eo ELSE 0) ELSE 0
         trE == IF re.hit THEN b ELSE ep.e
         so1 == ClampSz(so0, sp.sz)
         eo1 == ClampSz(eo0, ep.sz)
     IN IF sd > ed /\ (sd # ed + 1 \/ so1 # 0 \/ eo1 # 0) THEN [c |-> "error", ptrs |-> ptrs]
        ELSE IF sd = ed /\ so1 + eo1 > sp.sz THEN [c |-> "error", ptrs |-> ptrs]
        ELSE IF (sd = ed - 1 /\ so1 = sp.sz /\ eo1 = ep.sz) \/ (sd = ed /\ so1 + eo1 = sp.sz)
             THEN [c |-> "ok", ptrs |-> ptrs]
        ELSE LET keepS == IF so1 # 0 THEN <<Ptr(sp.s, trS, sp.f, sp.off, so1)>> ELSE <<>>
                 keepE == IF eo1 # 0 THEN <<Ptr(trE, ep.e, ep.f, ep.off + ep.sz - eo1, eo1)>> ELSE <<>>
             IN [c |-> "ok",
                 ptrs |-> SubSeq(ptrs, 1, sd - 1) \o keepS \o keepE \o SubSeq(ptrs, ed + 1, n)]

Delete(a, b, so, eo) ==
  /\ Deletes /\ a < b /\ ~Controlled(a, b)
  /\ LET d == DeleteCalc(pointers, a, b, so, eo) IN
     /\ pointers' = d.ptrs /\ res' = d.c
     /\ op' = [NoOp EXCEPT !.a = "delete", !.s = a, !.e = b, !.so = so, !.eo = eo]
     /\ UNCHANGED <<files, writers>>

Next ==
  \/ \E w \in Slots, s \in 1..T : \E pe \in PresetEnds(s) : OpenWriter(w, s, pe)
  \/ \E w \in Slots, n \in 1..MaxWrite : Write(w, n)
  \/ \E w \in Slots, e \in 1..(T + 1) : Commit(w, e)
  \/ \E w \in Slots : CloseWriter(w)
  \/ \E s \in 1..T, n \in 1..MaxWrite : \E e \in PresetEnds(s) \ {0} : WriteDomain(s, e, n)
  \/ \E a \in 1..T, b \in 1..(T + 1), so \in 0..MaxDelOff, eo \in 0..MaxDelOff : Delete(a, b, so, eo)
Spec == Init /\ [][Next]_vars

Bound == /\ Len(pointers) <= MaxPtrs /\ Len(files) <= MaxFiles
         /\ \A f \in 1..Len(files) : files[f].size <= MaxFileSize

---------------------------------------------------------------------------
(* invariants: the statement's first sentence *)
TypeOK ==
  /\ \A i \in 1..Len(pointers) : pointers[i].s \in 1..(T + 1) /\ pointers[i].e \in 1..(T + 1)
  /\ \A w \in Slots : writers[w].st \in {"free", "open"}
  /\ res \in {"ok"} \cup Fails
Sorted == \A i \in 1..(Len(pointers) - 1) : pointers[i].s < pointers[i + 1].s
NonOverlapping ==
  /\ \A i \in 1..Len(pointers) : pointers[i].s < pointers[i].e
  /\ \A i, j \in 1..Len(pointers) : i < j =>
        /\ ~OverlapsWith(PR(pointers[i]), PR(pointers[j]))
        /\ Stamps(PR(pointers[i])) \cap Stamps(PR(pointers[j])) = {}
        /\ pointers[i].e <= pointers[j].s          \* adjacency allowed
WithinFile ==
  \A i \in 1..Len(pointers) :
     /\ pointers[i].f \in 1..Len(files) /\ pointers[i].sz > 0
     /\ pointers[i].off + pointers[i].sz <= files[pointers[i].f].size
\* beyond the property
BytesDisjoint ==
  \A i, j \in 1..Len(pointers) : (i < j /\ pointers[i].f = pointers[j].f) =>
     \/ pointers[i].off + pointers[i].sz <= pointers[j].off
     \/ pointers[j].off + pointers[j].sz <= pointers[i].off
WritersConsistent ==
  \A w \in Slots : IsOpen(w) =>
     /\ files[writers[w].file].held
     /\ writers[w].off + writers[w].len = files[writers[w].file].size
     /\ \A v \in Slots : (v # w /\ IsOpen(v)) => writers[v].file # writers[w].file
     \* index.update's target exists (its "inconceivable" branches are unreachable)
     /\ writers[w].prev # 0 =>
          \E i \in 1..Len(pointers) : /\ pointers[i].s = writers[w].start
                                      /\ pointers[i].e = writers[w].prev
                                      /\ pointers[i].f = writers[w].file
                                      /\ pointers[i].off = writers[w].off

\* the binary search / fast paths compute the overlap relation on every reachable index
Probes == {TR(s, e) : s \in 0..(T + 2), e \in 0..(T + 2)}
SearchAgreesOn(ptrs) ==
  \A tr \in {q \in Probes : q.s <= q.e} :
     LET r == Search(ptrs, tr) IN
     /\ r.hit <=> OverlapIdx(ptrs, tr) # {}
     /\ r.hit => r.i \in OverlapIdx(ptrs, tr)
     /\ ~r.hit => r.i = CountLE(ptrs, tr.s)
InsertAgreesOn(ptrs) ==
  \A tr \in {q \in Probes : q.s < q.e} :
     LET r == CodeInsert(ptrs, Ptr(tr.s, tr.e, 1, 0, 1)) IN
     /\ r.ok <=> OverlapIdx(ptrs, tr) = {}
     /\ r.ok => /\ Len(r.ptrs) = Len(ptrs) + 1
                /\ \A i \in 1..(Len(r.ptrs) - 1) : r.ptrs[i].s < r.ptrs[i + 1].s
                /\ \A i, j \in 1..Len(r.ptrs) : i < j => r.ptrs[i].e <= r.ptrs[j].s
\* index.update replaces the pointer with the same start iff the new range stays clear
\* of every OTHER pointer (checking the two neighbours is enough on a sorted index)
UpdateAgreesOn(ptrs) ==
  \A k \in 1..Len(ptrs) : \A e \in 0..(T + 2) :
     LET p == Ptr(ptrs[k].s, e, 1, 0, 1)
         r == CodeUpdate(ptrs, p)
         meets == \E j \in 1..Len(ptrs) : j # k /\ Stamps(PR(p)) \cap Stamps(PR(ptrs[j])) # {}
     IN ptrs[k].s < e => /\ r.c \in {"ok", "conflict"}
                         /\ (r.c = "conflict") <=> meets
                         /\ r.c = "ok" => r.ptrs = [ptrs EXCEPT ![k] = p]
\* NextStart (index.getGE on a stamp outside all data) = start of the next pointer
NextStartAgreesOn(ptrs) ==
  \A t \in 0..(T + 2) :
     (\A i \in 1..Len(ptrs) : ~ContainsStamp(PR(ptrs[i]), t)) =>
        LET later == {ptrs[i].s : i \in {j \in 1..Len(ptrs) : ptrs[j].s > t}}
        IN NextStart(ptrs, t) = IF later = {} THEN MAXT ELSE SetMin(later)
SearchAgrees == SearchAgreesOn(pointers)
InsertAgrees == InsertAgreesOn(pointers)

---------------------------------------------------------------------------
(* action properties: the statement's second sentence *)
DataStamps == UNION {Stamps(PR(pointers[i])) : i \in 1..Len(pointers)}
PtrSet(ptrs) == {ptrs[i] : i \in 1..Len(ptrs)}

\* a writer whose start falls inside existing data (or whose preset range meets data)
\* fails to open with a write conflict, and only then
OpenConflictRule ==
  [][op'.a \in {"open", "wd"} =>
       LET dom == IF op'.e = 0 THEN TR(op'.s, op'.s) ELSE TR(op'.s, op'.e)
       IN (res' = "conflict") <=> (Points(dom) \cap DataStamps # {})]_vars
\* a commit whose range would overlap other data fails with a conflict, and only then
CommitConflictRule ==
  [][(op'.a = "commit" /\ ~op'.noop) =>
       LET others == {p \in PtrSet(pointers) : op'.prev = 0 \/ p.s # op'.s0}
           meets == \E p \in others : Stamps(TR(op'.s0, op'.ce)) \cap Stamps(PR(p)) # {}
       IN /\ res' = "conflict" => meets
          /\ res' = "ok" => ~meets]_vars
\* a commit that moves backwards fails with a validation error
Backwards(o) == o.a = "commit" /\ ~o.noop /\ ~o.preset /\ o.prev # 0 /\ o.e < o.prev
Window_BackwardsAtRollover(o) == Backwards(o) /\ o.sw
BackwardsFails == [][Backwards(op') => res' = "validation"]_vars
BackwardsFailsOutsideWindow ==
  [][(Backwards(op') /\ ~Window_BackwardsAtRollover(op')) => res' = "validation"]_vars
\* zero-length / inverted commits never succeed
EmptyCommitFails ==
  [][(op'.a = "commit" /\ ~op'.noop /\ res' = "ok") => op'.s0 < op'.ce]_vars
\* failed operations change no committed data and leave the writers as they were
FailedOpsChangeNothing ==
  [][res' \in Fails => /\ pointers' = pointers
                       /\ writers' = writers
                       /\ op'.a # "wd" => files' = files]_vars
FilesAppendOnly ==
  [][/\ Len(files') >= Len(files)
     /\ \A f \in 1..Len(files) : files'[f].size >= files[f].size]_vars
\* a successful commit touches only the writer's own domain; other calls add at most
\* a new pointer (wd) or leave the index alone
OthersUnchanged ==
  [][/\ op'.a = "commit" =>
          \A p \in PtrSet(pointers) : (op'.prev = 0 \/ p.s # op'.s0) => p \in PtrSet(pointers')
     /\ op'.a = "wd" => PtrSet(pointers) \subseteq PtrSet(pointers')
     /\ op'.a \in {"open", "write", "close"} => pointers' = pointers]_vars
=============================================================================
