---- MODULE DistFramerMC ----
(* Exhaustive configurations of DistFramer: the key sets writers and iterators are opened
   with are restricted to MCKeySets (all subsets would only multiply symmetric cases). *)
EXTENDS DistFramer
\* cfg files cannot hold tuples: the iterator ranges used by the exhaustive runs
RangesSmall == {<<0, 2*T+1>>, <<1, 2*T+1>>, <<0, 2>>}
CONSTANTS MCKeySets, MCStarts, MCRanges
NextMC == \/ \E w \in Writers, g \in Node, keys \in MCKeySets, s \in MCStarts, sy, au \in BOOLEAN : OpenWriter(w, g, keys, s, sy, au)
          \/ \E w \in Writers, gs \in SUBSET Groups, fr \in BOOLEAN, ts \in SUBSET Even : WriteReq(w, gs, fr, ts)
          \/ \E w \in Writers, n \in Holders : LocalWrite(w, n) \/ LocalCommit(w, n) \/ LocalCommitFail(w, n)
          \/ \E w \in Writers : WriteAck(w) \/ CommitReq(w) \/ CommitAck(w) \/ CloseWriter(w)
          \/ \E g \in Node, keys \in MCKeySets, r \in MCRanges : IterOpen(g, keys, r[1], r[2])
          \/ \E n \in Node : IterResp(n)
          \/ IterAck
SpecMC == Init /\ [][NextMC]_vars
====
