---------------------------- MODULE DistFramerTrace ----------------------------
(* Trace validation of the distributed WRITER protocol (C07, clause "a commit is
   acknowledged only when every involved leaseholder committed").
   The harness replays scripts on the real cluster and records, in real-time order
   (one mutex-protected log):
     open / write.call / write.ret / commit.call / commit.ret / close   the gateway's calls
     peer.recv(write)   a Write request reached peer n's stream server
     peer.send(commit)  peer n's response to a Commit leaves (after that leaseholder's
                        idxWriter.Commit) - recorded by a middleware wrapped around the
                        writer transport of every node
   Each event is matched with the DistFramer action it stands for; the steps of the
   gateway's own store and of the free writer (no transport to observe) and the
   synchronizer's release of a Sync write are silent. The trace is accepted iff the cursor
   reaches its end: in particular commit.ret needs CommitAck to be enabled, i.e. every
   involved leaseholder's LocalCommit happened before - for peers that is their recorded
   peer.send(commit) event. Many scripts are concatenated, separated by "reset" events
   (which carry the placement). All invariants of DistFramer are evaluated on the way. *)
EXTENDS DistFramer, Json, SequencesExt
VARIABLES l
tvars == <<vars, l>>
Trace == ndJsonDeserialize("trace.ndjson")
ASSUME TLCSet(1, 0)
Ev == Trace[l]
More == l <= Len(Trace)
Step == l' = l + 1

TInit == /\ lease = [g \in Groups |-> 1] /\ meta = AllChan
         /\ single = Zero /\ sdom = [c \in Stored |-> {}] /\ local = [n \in Node |-> Zero]
         /\ wr = [w \in Writers |-> NoWriter] /\ it = NoIter /\ nextId = 1 /\ res = "ok"
         /\ l = 1
TReset == /\ More /\ Ev.ev = "reset"
          /\ lease' = [g \in Groups |-> Ev.lease[g]] /\ meta' = AllChan
          /\ single' = Zero /\ sdom' = [c \in Stored |-> {}] /\ local' = [n \in Node |-> Zero]
          /\ wr' = [w \in Writers |-> NoWriter] /\ it' = NoIter /\ nextId' = 1 /\ res' = "ok"
          /\ Step
TOpen == /\ More /\ Ev.ev = "open"
         /\ OpenWriterCore(Ev.w, Ev.n, ToSet(Ev.keys), Ev.start, Ev.sync, Ev.auto) /\ res' = "ok" /\ Step
TWriteCall == /\ More /\ Ev.ev = "write.call"
              /\ nextId' = nextId + 1   \* (conjoined with WriteReq's own update: same value)
              /\ LET cs == ToSet(Ev.chans) IN
                 WriteReq(Ev.w, {GroupOf(c) : c \in cs \cap Stored}, "F" \in cs, ToSet(Ev.times))
              /\ Step
\* a Sync Write returned: the synchronizer released it
TWriteRet == /\ More /\ Ev.ev = "write.ret" /\ wr[Ev.w].phase = "idle" /\ Step /\ UNCHANGED vars
TCommitCall == /\ More /\ Ev.ev = "commit.call" /\ CommitReq(Ev.w) /\ Step
TPeerWrite == /\ More /\ Ev.ev = "peer.recv" /\ Ev.cmd = "write"
              /\ Ev.n # wr[Ev.w].g /\ wr[Ev.w].q[Ev.n] # <<>> /\ HeadOf(Ev.w, Ev.n).seq = Ev.seq
              /\ LocalWrite(Ev.w, Ev.n) /\ Step
TPeerCommit == /\ More /\ Ev.ev = "peer.send" /\ Ev.cmd = "commit"
               /\ Ev.n # wr[Ev.w].g /\ wr[Ev.w].q[Ev.n] # <<>> /\ HeadOf(Ev.w, Ev.n).seq = Ev.seq
               /\ LocalCommit(Ev.w, Ev.n) /\ Step
\* Commit returned: only possible when the synchronizer may release the ack
TCommitRet == /\ More /\ Ev.ev = "commit.ret" /\ wr[Ev.w].seq = Ev.seq /\ CommitAck(Ev.w) /\ Step
TClose == /\ More /\ Ev.ev = "close" /\ CloseWriter(Ev.w) /\ Step
\* silent: the gateway's own store, the free writer, the release of a Sync write
TSilent == /\ \E w \in Writers :
                \/ \E n \in {wr[w].g, Free} : wr[w].open /\ (LocalWrite(w, n) \/ LocalCommit(w, n))
                \/ WriteAck(w)
           /\ UNCHANGED l
TNext == TReset \/ TOpen \/ TWriteCall \/ TWriteRet \/ TCommitCall \/ TPeerWrite \/ TPeerCommit \/ TCommitRet \/ TClose \/ TSilent
TSpec == TInit /\ [][TNext]_tvars

HW == TLCSet(1, IF l > TLCGet(1) THEN l ELSE TLCGet(1))
TraceAccepted == IF TLCGet(1) = Len(Trace) + 1 THEN TRUE ELSE PrintT(<<"HWM", TLCGet(1), Len(Trace)>>) /\ FALSE
=============================================================================
