---------------------------- MODULE DistFramer ----------------------------
(* C07 - a cluster is one data space: write via any node, read via any node.

   Distribution-layer writer and iterator of core/pkg/distribution/framer over a
   cluster of 1..3 nodes, each with its own cesium store. The per-node store and the
   ghost single-node store are the user-level model of spec/cesium/CesiumStore.tla
   (samples at EVEN abstract times, odd times are the points between samples; a domain
   committed with last sample 2k ends at 2k+1); the few CesiumStore actions needed
   (open / write / commit / close and their legality guards) are restated per index
   GROUP because TLC cannot assign the components of an instantiated module's variables.

   Channels: every group g in Groups has an index channel Idx(g) and one data channel
   Dat(g); channel.Key embeds the leaseholder and a data channel names its index by
   LocalIndex, so index and data of a group always share a leaseholder: the placement
   is lease \in [Groups -> Node]. "F" is a free virtual channel (leaseholder
   node.KeyFree, modelled as pseudo node Free = 0): its samples go to the relay only.
   "X" is a key that was never created.

   Code each action stands for (core/pkg/distribution/framer):
     OpenWriter   writer.Service.Open -> NewStream: validateChannelKeys (fails iff some key
                  is not in the channel table), proxy.BatchFactory.Batch (peers / gateway /
                  free), openManyPeers (one stream + Config per peer; server.handle opens a
                  ts stream writer there), newGateway, newFree, newSynchronizer(|leaseholders|)
     WriteReq     Writer.Write -> validator (SeqNum) -> peerGatewayFreeSwitch
                  (Frame.SplitByHost) -> peerSwitchSender (Frame.SplitByLeaseholder: every peer
                  receives its - possibly empty - part) / gateway writer / free writer
     LocalWrite   the leaseholder's ts stream writer processes the request (buffer, or
                  commit when EnableAutoCommit) and, when Sync, sends a response
     WriteAck     synchronizer: counter = nodeCount -> response released (Sync writers only)
     CommitReq    Writer.Commit -> broadcast to every peer, the gateway and the free writer
     LocalCommit  idxWriter.Commit on that leaseholder, response with the commit end
     LocalCommitFail  the leaseholder refuses the commit (its response carries the error)
     CommitAck    synchronizer: counter = nodeCount -> Commit returns the response merged over
                  all leaseholders (first error, max End, conjunction of Authorized)
     CloseWriter  Writer.Close (request stream closed; uncommitted buffers are dropped)
     IterOpen     iterator.Service.Open: validateChannelKeys (free key -> validation error,
                  unknown key -> not found), Batch, one stream per peer + gateway iterator;
                  followed here by ONE broadcast command sequence (SeekFirst, Next(max)).
                  The range [a,b) reaches the leaseholders either in the open request or by a
                  SetBounds command broadcast on the OPEN iterator (the harness replays every
                  read both ways and in both directions: SeekFirst/Next and SeekLast/Prev)
     IterResp     the storage iterator of node n answers with its channels' samples
     IterAck      synchronizer releases the ack once every involved node answered;
                  Iterator.Value merges the data responses

   Projection used by the harness (harness/core/pkg/distribution/mock/zz_verif_framer_test.go):
     single[c][t] = id  <->  an iterator opened on ANY node over channel c returns, at
                            the position of index time ts(t), the value derived from (c,t,id)
     local[n][c]        <->  Nodes[n].Storage.TS (cesium) holds channel c's samples;
                            a channel absent from that cesium DB reads as all-zero
     res                <->  error class of the call: ok | notfound | invalid | error

   Pinned beyond the property (drift level, never a verdict):
     - requests of one writer are applied by each leaseholder in FIFO order;
     - a writer is opened only where the single-node store would accept it (no open
       inside an existing domain: refusals are C03's subject); writers of a script own
       disjoint channel sets (control hand-over is C05's subject);
     - a frame carries all or none of a group's channels the writer owns (cesium rule);
     - a data-only writer (data channel without its index) stays inside ONE index domain;
     - the error KIND of a failing open (not found vs validation) beyond "it fails";
     - the VALUES of Commit's End, Write's Authorized and the iterator acks (the iterator
       synchronizer still forwards the last response's ack): the statement does not speak of them.

   Named deviation (guard constant), a genuine defect this check found and /repo fixed (650fb4c):
     SkipAbsentPeers  TRUE = writer/switch.go before the fix: peerSwitchSender sent a Write
                  request only to the peers the frame has a series for. A Sync writer then
                  waits for nodeCount responses forever (NoStuckWriter fails), and
                  freightfluence.BatchSwitchSender, which reused its address map between
                  requests, re-sent that peer its PREVIOUS request (duplicated samples: the
                  harness attributes violations of scripts containing such a frame to the
                  finding's signature). FALSE = code as written now: every peer receives its
                  (possibly empty) part, as the gateway and the free writer always did.

   Bug names a seeded fault used to show that the properties are not vacuous
   (the same faults are applied to the real code as mutations):
     "drop_part" "ack_first" "count_short" "no_broadcast" "skip_validate" "local_remote"
     "last_response" (the writer synchronizer as written before its fix: it forwarded the LAST
                      response of a cycle, so a leaseholder's error was lost when another
                      leaseholder answered after it - genuine defect found by this check, fixed bbfba2e)

   MayFail = TRUE lets a leaseholder refuse a commit (LocalCommitFail); used by the exhaustive
   runs for AckNeverHidesFailure, FALSE in the generators (on the real code a refusal is reached
   by the harness's directed script: a commit whose range runs into stored data). *)
EXTENDS Integers, FiniteSets, Sequences, TLC
CONSTANTS NNodes, Groups, HasFree, T, MaxLen, MaxId, MaxCommits, Writers, SkipAbsentPeers, MayFail, Bug

Node == 1..NNodes
Free == 0
Idx(g) == CASE g = "A" -> "Ai" [] g = "B" -> "Bi" [] g = "C" -> "Ci"
Dat(g) == CASE g = "A" -> "Ad" [] g = "B" -> "Bd" [] g = "C" -> "Cd"
GroupOf(c) == CASE c \in {"Ai", "Ad"} -> "A" [] c \in {"Bi", "Bd"} -> "B" [] c \in {"Ci", "Cd"} -> "C"
ChansOf(g) == {Idx(g), Dat(g)}
Stored == UNION {ChansOf(g) : g \in Groups}
AllChan == Stored \cup (IF HasFree THEN {"F"} ELSE {})
Unknown == "X"
Time == 0..(2*T+1)
Even == {t \in Time : t % 2 = 0}

VARIABLES lease,    \* [Groups -> Node] placement (chosen once)
          meta,     \* set of existing channel keys
          single,   \* ghost single-node store: [Stored -> [Even -> 0..MaxId]], 0 = no sample
          sdom,     \* ghost committed domains [Stored -> SUBSET (Time \X Time)]
          local,    \* [Node -> [Stored -> [Even -> 0..MaxId]]] samples held by node n's store
          wr,       \* [Writers -> distributed writer record]
          it,       \* the distributed iterator (one at a time)
          nextId,   \* identity of the next Write
          res       \* outcome class of the last client call
vars == <<lease, meta, single, sdom, local, wr, it, nextId, res>>

Holders == Node \cup {Free}
LeaseOf(c) == IF c = "F" THEN Free ELSE lease[GroupOf(c)]
Involved(keys) == {LeaseOf(c) : c \in keys}
PartOf(keys, n) == {c \in keys : LeaseOf(c) = n}
Max(S) == CHOOSE x \in S : \A y \in S : y <= x
Min(S) == CHOOSE x \in S : \A y \in S : x <= y

NoWriter == [open |-> FALSE, g |-> 1, keys |-> {}, start |-> 0, sync |-> FALSE, auto |-> FALSE,
             phase |-> "idle", seq |-> 0, nc |-> 0,
             hwm |-> [x \in Groups |-> -1], n |-> [x \in Groups |-> 0], ins |-> [x \in Groups |-> FALSE],
             gbuf |-> {}, lbuf |-> [x \in Node |-> {}],
             q |-> [x \in Holders |-> <<>>], resp |-> {}, cseq |-> [x \in Holders |-> 0], acked |-> 0,
             failed |-> {}, err |-> FALSE]
NoIter == [open |-> FALSE, g |-> 1, keys |-> {}, a |-> 0, b |-> 0, pend |-> {}, acc |-> {}]

Zero == [c \in Stored |-> [t \in Even |-> 0]]
Init == /\ lease \in [Groups -> Node]
        /\ meta = AllChan
        /\ single = Zero /\ sdom = [c \in Stored |-> {}]
        /\ local = [n \in Node |-> Zero]
        /\ wr = [w \in Writers |-> NoWriter]
        /\ it = NoIter
        /\ nextId = 1 /\ res = "ok"

\* ------------------------------------------------------------ ghost store helpers (CesiumStore)
Has(c, t) == single[c][t] # 0
Samples(c) == {t \in Even : Has(c, t)}
Inside(d, t) == d[1] <= t /\ t < d[2]
Overlap(d, lo, hi) == d[1] < hi /\ lo < d[2]
\* end of the index domain containing t. (CesiumStore lets a data-only writer run across
\* ADJACENT index domains; real cesium refuses some of those shapes - observed here with
\* index domains written out of time order - so this model keeps data-only writes inside
\* ONE index domain: pinned, conservative.)
EffEnd(g, t) == IF \E d \in sdom[Idx(g)] : Inside(d, t)
                THEN (CHOOSE d \in sdom[Idx(g)] : Inside(d, t))[2] ELSE t
RECURSIVE NthSet(_, _)
NthSet(S, k) == IF k = 0 \/ S = {} THEN {} ELSE {Min(S)} \cup NthSet(S \ {Min(S)}, k - 1)

OpenKeys == UNION {wr[w].keys : w \in {x \in Writers : wr[x].open}}
\* groups a key set touches, and how: "idx" (index owned, with or without data) / "data" (data only)
GroupsIn(keys) == {g \in Groups : ChansOf(g) \cap keys # {}}
OwnsIdx(keys, g) == Idx(g) \in keys

Quiet(w) == \A n \in Holders : wr[w].q[n] = <<>>
Quiescent == /\ \A w \in Writers : Quiet(w) /\ wr[w].phase = "idle"
             /\ ~it.open

\* ------------------------------------------------------------ writer
\* fails iff some key does not exist (writer.Service.validateChannelKeys)
OpenWriterCore(w, g, keys, s, sync, auto) ==
  /\ ~wr[w].open /\ g \in Node /\ keys # {} /\ s \in Time
  /\ IF ~(keys \subseteq meta)
     THEN /\ res' = "notfound" /\ UNCHANGED <<lease, meta, single, sdom, local, wr, it, nextId>>
     ELSE /\ keys \cap OpenKeys = {}
          /\ \A c \in keys \cap Stored : \A d \in sdom[c] : ~Inside(d, s)    \* no open conflict (pinned)
          /\ wr' = [wr EXCEPT ![w] = [NoWriter EXCEPT !.open = TRUE, !.g = g, !.keys = keys, !.start = s,
                                                      !.sync = sync, !.auto = auto, !.failed = wr[w].failed,
                                                      !.hwm = [x \in Groups |-> s - 1]]]
          /\ res' = "ok" /\ UNCHANGED <<lease, meta, single, sdom, local, it, nextId>>
\* generated scripts make client calls only when nothing is in flight (replayable call by call)
OpenWriter(w, g, keys, s, sync, auto) == Quiescent /\ OpenWriterCore(w, g, keys, s, sync, auto)

\* legality of a frame for group g exactly as CesiumStore.WriteGuard
IdxAfter(w, g) == {t \in Samples(Idx(g)) : t >= wr[w].start}
DataOnlyTimes(w, g, k) == NthSet(IdxAfter(w, g), wr[w].n[g] + k) \ NthSet(IdxAfter(w, g), wr[w].n[g])
OthersDom(w, g, c) == IF wr[w].ins[g] THEN sdom[c] \ {d \in sdom[c] : d[1] = wr[w].start} ELSE sdom[c]
GroupGuard(w, g, times) ==
  /\ IF OwnsIdx(wr[w].keys, g)
     THEN /\ times \subseteq Even
          /\ \A t \in times : t > wr[w].hwm[g] /\ t >= wr[w].start
     ELSE /\ times = DataOnlyTimes(w, g, Cardinality(times))
          /\ wr[w].start \in Samples(Idx(g))
          /\ Max(times) < EffEnd(g, wr[w].start)
  /\ \A c \in wr[w].keys \cap ChansOf(g) : \A d \in OthersDom(w, g, c) : ~Overlap(d, wr[w].start, Max(times) + 1)

\* a frame: the groups it carries (all of that group's channels the writer owns), whether it
\* carries the free channel, and ONE set of sample times per frame
FrameChans(w, gs, fr) == UNION {wr[w].keys \cap ChansOf(g) : g \in gs} \cup (IF fr THEN {"F"} ELSE {})
\* a frame that has no series for one of the writer's PEER leaseholders
LacksPeer(w, chans) == \E n \in Involved(wr[w].keys) : n # wr[w].g /\ n # Free /\ PartOf(chans, n) = {}
\* who receives a Write request: every leaseholder of the writer (before the fix: a peer only
\* when the frame has a series for it)
Recipients(w, chans) ==
  IF SkipAbsentPeers
  THEN {n \in Involved(wr[w].keys) : n = wr[w].g \/ n = Free \/ PartOf(chans, n) # {}}
  ELSE Involved(wr[w].keys)

Pairs(chans, times, id) == {<<c, t, id>> : c \in chans \cap Stored, t \in times}
\* commit of a set of <<c,t,id>> triples into a sample map
Apply(cm, trs) == [c \in Stored |-> [t \in Even |->
                     IF \E p \in trs : p[1] = c /\ p[2] = t
                     THEN (CHOOSE p \in trs : p[1] = c /\ p[2] = t)[3] ELSE cm[c][t]]]
\* ghost domains after committing: every owned channel of a group with new samples gets [start, hwm+1)
GroupsWith(trs) == {GroupOf(p[1]) : p \in trs}
DomAfter(w, hw, trs) ==
  [c \in Stored |-> IF c \in wr[w].keys /\ GroupOf(c) \in GroupsWith(trs)
                    THEN (sdom[c] \ {d \in sdom[c] : d[1] = wr[w].start /\ wr[w].ins[GroupOf(c)]})
                         \cup {<<wr[w].start, hw[GroupOf(c)] + 1>>}
                    ELSE sdom[c]]

Msg(kind, seq, trs) == [kind |-> kind, seq |-> seq, trs |-> trs]

WriteGuard(w, gs, fr, times) ==
  /\ wr[w].open /\ wr[w].phase = "idle" /\ ~wr[w].err /\ ~it.open /\ nextId <= MaxId
  /\ times # {} /\ Cardinality(times) <= MaxLen
  /\ gs \subseteq GroupsIn(wr[w].keys) /\ (fr => "F" \in wr[w].keys)
  /\ (gs # {} \/ fr)
  /\ \A g \in gs : GroupGuard(w, g, times)

WriteReq(w, gs, fr, times) ==
  /\ WriteGuard(w, gs, fr, times)
  /\ LET chans == FrameChans(w, gs, fr)
         trs == Pairs(chans, times, nextId)
         seq == wr[w].seq + 1
         hw == [g \in Groups |-> IF g \in gs THEN Max(times) ELSE wr[w].hwm[g]]
         rcp == Recipients(w, chans)
         \* seeded faults: the part of the highest peer is dropped / peers' parts applied at the gateway
         dropped == IF Bug = "drop_part" /\ (rcp \ {wr[w].g, Free}) # {} THEN {Max(rcp \ {wr[w].g, Free})} ELSE {}
         partFor(n) == IF Bug = "local_remote" /\ n = wr[w].g THEN trs
                       ELSE IF Bug = "local_remote" THEN {}
                       ELSE {p \in trs : LeaseOf(p[1]) = n}
         w2 == [wr[w] EXCEPT !.seq = seq, !.hwm = hw,
                             !.n = [g \in Groups |-> IF g \in gs THEN @[g] + Cardinality(times) ELSE @[g]],
                             !.q = [n \in Holders |-> IF n \in rcp \ dropped
                                                      THEN Append(@[n], Msg("write", seq, partFor(n))) ELSE @[n]],
                             !.phase = IF wr[w].sync THEN "waitW" ELSE "idle", !.resp = {}]
     IN IF wr[w].auto
        THEN /\ single' = Apply(single, wr[w].gbuf \cup trs)
             /\ sdom' = DomAfter(w, hw, wr[w].gbuf \cup trs)
             /\ wr' = [wr EXCEPT ![w] = [w2 EXCEPT !.gbuf = {},
                                             !.ins = [g \in Groups |-> @[g] \/ g \in GroupsWith(wr[w].gbuf \cup trs)]]]
        ELSE /\ wr' = [wr EXCEPT ![w] = [w2 EXCEPT !.gbuf = @ \cup trs]]
             /\ UNCHANGED <<single, sdom>>
  /\ nextId' = nextId + 1 /\ res' = "ok" /\ UNCHANGED <<lease, meta, local, it>>

\* leaseholder n takes the next request of writer w off its stream
HeadOf(w, n) == wr[w].q[n][1]
LocalWrite(w, n) ==
  /\ wr[w].q[n] # <<>> /\ HeadOf(w, n).kind = "write"
  /\ LET m == HeadOf(w, n)
         tail == Tail(wr[w].q[n])
         rs == IF wr[w].sync THEN wr[w].resp \cup {n} ELSE wr[w].resp
     IN IF n = Free
        THEN /\ wr' = [wr EXCEPT ![w].q[n] = tail, ![w].resp = rs] /\ UNCHANGED local
        ELSE IF wr[w].auto
             THEN /\ local' = [local EXCEPT ![n] = Apply(@, wr[w].lbuf[n] \cup m.trs)]
                  /\ wr' = [wr EXCEPT ![w].q[n] = tail, ![w].resp = rs, ![w].lbuf[n] = {}]
             ELSE /\ wr' = [wr EXCEPT ![w].q[n] = tail, ![w].resp = rs, ![w].lbuf[n] = @ \cup m.trs]
                  /\ UNCHANGED local
  /\ UNCHANGED <<lease, meta, single, sdom, it, nextId, res>>

\* the synchronizer releases a response when its counter reaches nodeCount
NodeCount(w) == Cardinality(Involved(wr[w].keys)) - (IF Bug = "count_short" /\ Cardinality(Involved(wr[w].keys)) > 1 THEN 1 ELSE 0)
Fulfilled(w) == IF Bug = "ack_first" THEN wr[w].resp # {} ELSE Cardinality(wr[w].resp) >= NodeCount(w)
WriteAck(w) ==
  /\ wr[w].phase = "waitW" /\ Fulfilled(w)
  /\ wr' = [wr EXCEPT ![w].phase = "idle", ![w].resp = {}]
  /\ UNCHANGED <<lease, meta, single, sdom, local, it, nextId, res>>

CommitReq(w) ==
  /\ wr[w].open /\ wr[w].phase = "idle" /\ ~wr[w].err /\ ~it.open /\ ~wr[w].auto /\ wr[w].nc < MaxCommits
  /\ LET seq == wr[w].seq + 1
         w2 == [wr[w] EXCEPT !.seq = seq, !.nc = @ + 1, !.phase = "waitC", !.resp = {}, !.gbuf = {},
                             !.ins = [g \in Groups |-> @[g] \/ g \in GroupsWith(wr[w].gbuf)],
                             !.q = [n \in Holders |-> IF n \in Involved(wr[w].keys)
                                                      THEN Append(@[n], Msg("commit", seq, {})) ELSE @[n]]]
     IN /\ wr' = [wr EXCEPT ![w] = w2]
        /\ single' = Apply(single, wr[w].gbuf)
        /\ sdom' = DomAfter(w, wr[w].hwm, wr[w].gbuf)
  /\ res' = "ok" /\ UNCHANGED <<lease, meta, local, it, nextId>>

LocalCommit(w, n) ==
  /\ wr[w].q[n] # <<>> /\ HeadOf(w, n).kind = "commit"
  /\ LET m == HeadOf(w, n) IN
     /\ wr' = [wr EXCEPT ![w].q[n] = Tail(@), ![w].resp = @ \cup {n}, ![w].cseq[n] = m.seq,
                         ![w].lbuf = IF n = Free THEN @ ELSE [@ EXCEPT ![n] = {}]]
     /\ local' = IF n = Free THEN local ELSE [local EXCEPT ![n] = Apply(@, wr[w].lbuf[n])]
  /\ UNCHANGED <<lease, meta, single, sdom, it, nextId, res>>

\* A leaseholder may REFUSE a commit (cesium: the range runs into stored data, ...): nothing
\* is committed there, its response carries the error. (The ghost store is not told: scripts
\* with a refusal are judged on the acknowledgement only - AckNeverHidesFailure.)
LocalCommitFail(w, n) ==
  /\ MayFail /\ n # Free /\ wr[w].q[n] # <<>> /\ HeadOf(w, n).kind = "commit" /\ wr[w].lbuf[n] # {}
  /\ wr' = [wr EXCEPT ![w].q[n] = Tail(@), ![w].resp = @ \cup {n}, ![w].failed = @ \cup {n}]
  /\ UNCHANGED <<lease, meta, single, sdom, local, it, nextId, res>>

\* the synchronizer releases ONE response per cycle. As written before the fix it forwarded the
\* LAST response (Bug = "last_response"): the error of an earlier one was lost.
CommitAck(w) ==
  /\ wr[w].phase = "waitC" /\ Fulfilled(w)
  /\ \E lastn \in wr[w].resp :
       LET e == IF Bug = "last_response" THEN lastn \in wr[w].failed ELSE wr[w].failed # {}
       IN /\ wr' = [wr EXCEPT ![w].phase = "idle", ![w].resp = {}, ![w].acked = IF e THEN @ ELSE wr[w].seq,
                              ![w].err = e]
          /\ res' = IF e THEN "error" ELSE "ok"
  /\ UNCHANGED <<lease, meta, single, sdom, local, it, nextId>>

\* Writer.Close waits for every leaseholder's stream to drain; buffered samples are dropped
CloseWriter(w) ==
  /\ wr[w].open /\ wr[w].phase = "idle" /\ ~it.open /\ Quiet(w)
  /\ wr' = [wr EXCEPT ![w] = [NoWriter EXCEPT !.failed = wr[w].failed]]   \* (a refusal is remembered: NoRefusal)
  /\ res' = "ok" /\ UNCHANGED <<lease, meta, single, sdom, local, it, nextId>>

\* ------------------------------------------------------------ iterator
ReadOf(cm, keys, a, b) == {<<p[1], p[2], cm[p[1]][p[2]]>> :
                             p \in {q \in (keys \cap Stored) \X Even : a <= q[2] /\ q[2] < b /\ cm[q[1]][q[2]] # 0}}
IterOpen(g, keys, a, b) ==
  /\ ~it.open /\ Quiescent /\ g \in Node /\ keys # {} /\ a \in Time /\ b \in Time /\ a <= b
  /\ IF ~(keys \subseteq meta) /\ Bug # "skip_validate"
     THEN res' = "notfound" /\ UNCHANGED it
     ELSE IF "F" \in keys
     THEN res' = "invalid" /\ UNCHANGED it
     ELSE /\ it' = [open |-> TRUE, g |-> g, keys |-> keys, a |-> a, b |-> b, acc |-> {},
                    \* the command is broadcast to the gateway iterator and to every peer
                    pend |-> IF Bug = "no_broadcast" THEN Involved(keys \cap Stored) \cap {g}
                             ELSE Involved(keys \cap Stored)]
          /\ res' = "ok"
  /\ UNCHANGED <<lease, meta, single, sdom, local, wr, nextId>>
IterResp(n) ==
  /\ it.open /\ n \in it.pend
  /\ it' = [it EXCEPT !.pend = @ \ {n},
                      !.acc = @ \cup ReadOf(local[n], PartOf(it.keys \cap Stored, n), it.a, it.b)]
  /\ UNCHANGED <<lease, meta, single, sdom, local, wr, nextId, res>>
IterAck ==
  /\ it.open /\ it.pend = {}
  /\ it' = NoIter
  /\ UNCHANGED <<lease, meta, single, sdom, local, wr, nextId, res>>

KeySets == SUBSET (AllChan \cup {Unknown}) \ {{}}
Next == \/ \E w \in Writers, g \in Node, keys \in KeySets, s \in Time, sy, au \in BOOLEAN : OpenWriter(w, g, keys, s, sy, au)
        \/ \E w \in Writers, gs \in SUBSET Groups, fr \in BOOLEAN, ts \in SUBSET Even : WriteReq(w, gs, fr, ts)
        \/ \E w \in Writers, n \in Holders : LocalWrite(w, n) \/ LocalCommit(w, n) \/ LocalCommitFail(w, n)
        \/ \E w \in Writers : WriteAck(w) \/ CommitReq(w) \/ CommitAck(w) \/ CloseWriter(w)
        \/ \E g \in Node, keys \in KeySets, a, b \in Time : IterOpen(g, keys, a, b)
        \/ \E n \in Node : IterResp(n)
        \/ IterAck
Spec == Init /\ [][Next]_vars

\* ------------------------------------------------------------ properties
TypeOK == /\ res \in {"ok", "notfound", "invalid", "error"}
          /\ \A w \in Writers : wr[w].phase \in {"idle", "waitW", "waitC"}
\* what the cluster holds for channel c at time t, over all nodes
Held(c, t) == {local[n][c][t] : n \in Node} \ {0}
\* C07 clause 2: with nothing in flight, the union over the nodes' stores is the single-node store
NoRefusal == \A w \in Writers : wr[w].failed = {}
LocationTransparency ==
  (Quiescent /\ NoRefusal) => \A c \in Stored : \A t \in Even : Held(c, t) = (IF single[c][t] = 0 THEN {} ELSE {single[c][t]})
\* ... and at no time does any node hold a sample the single-node store does not have
NoPhantom == \A c \in Stored : \A t \in Even : Held(c, t) \subseteq {single[c][t]}
\* C07 clause 1: samples are stored by the channel's leaseholder and by nobody else
StoredAtLeaseholderOnly == \A n \in Node : \A c \in Stored : \A t \in Even : local[n][c][t] # 0 => lease[GroupOf(c)] = n
\* C07 clause 4: Commit is acknowledged only when every involved leaseholder applied that commit
CommitAckOnlyAfterAll ==
  [][\A w \in Writers : (wr[w].phase = "waitC" /\ wr'[w].phase = "idle" /\ wr'[w].open /\ ~wr'[w].err) =>
        \A n \in Involved(wr[w].keys) : wr[w].cseq[n] = wr[w].seq]_vars
\* ... stated on data: once acknowledged, everything that writer committed is readable at its leaseholder
AckedIsReadable ==
  \A w \in Writers : (NoRefusal /\ wr[w].open /\ wr[w].phase = "idle" /\ wr[w].acked = wr[w].seq /\ wr[w].seq > 0) =>
     \A c \in wr[w].keys \cap Stored : \A t \in Even :
        single[c][t] # 0 => local[lease[GroupOf(c)]][c][t] = single[c][t]
\* ... and a commit that some involved leaseholder refused is never acknowledged as a success
AckNeverHidesFailure ==
  [][\A w \in Writers : (wr[w].phase = "waitC" /\ wr'[w].phase = "idle" /\ wr'[w].open /\ wr[w].failed # {}) => wr'[w].err]_vars
\* C07 clause 3: opening a writer or an iterator on a key that does not exist fails, without effect
OpenFailsOnUnknownChannel ==
  [][/\ \A w \in Writers : (~wr[w].open /\ wr'[w].open) => wr'[w].keys \subseteq meta
     /\ (~it.open /\ it'.open) => it'.keys \subseteq meta]_vars
\* the merged answer of an iterator is exactly the single-node store's read
IterExact == [][(NoRefusal /\ it.open /\ it.pend = {} /\ ~it'.open) =>
                   it.acc = ReadOf(single, it.keys, it.a, it.b)]_vars
\* a Sync writer whose requests were all processed is released (fails with SkipAbsentPeers)
NoStuckWriter == \A w \in Writers : (wr[w].phase # "idle" /\ Quiet(w)) => Fulfilled(w)
=============================================================================
