---- MODULE DistFramerGen ----
(* DistFramer + history variable. A history is a sequence of CLIENT calls
   (setup, open, write, commit, close, iread); the leaseholders' internal steps
   (LocalWrite / LocalCommit / acks / iterator responses) run between two client calls
   without being recorded, and a client call is generated only when nothing is in flight,
   so that the script can be replayed call by call on the real cluster.
   Every record carries the arguments, the outcome class and the ghost single-node
   store after the call (cm): what an iterator on ANY node must return from then on.
   The first record is the placement: [a |-> "setup", args |-> [nodes, lease, free]].

     GSpecBFS  every history up to Depth over small argument sets (bounded-exhaustive)
     GSpecSim  for `tlc -simulate`: action KINDS are weighted by construction, arguments
               are drawn through selectors; PlanId > 0 prescribes the kind of each step *)
EXTENDS DistFramer, Json, SequencesExt
CONSTANTS Depth, PlanId, BFSKeySets,
          SyncPartialOK  \* FALSE: no frame lacking a peer's series from a Sync writer (hangs on trees without the fix)
VARIABLES hist,
          pick   \* simulation only: kind of the next call ("none" between calls)
gvars == <<vars, hist, pick>>

Rec(a, args) == [a |-> a, args |-> args, res |-> res', cm |-> single']
Push(a, args) == hist' = Append(hist, Rec(a, args))
Setup == [a |-> "setup", args |-> [nodes |-> NNodes, lease |-> lease, free |-> HasFree], res |-> "ok", cm |-> single]
GInit == Init /\ hist = <<Setup>> /\ pick = "none"
Calls == Len(hist) - 1

\* ---- client calls (recorded)
GOpen(w, g, keys, s, sy, au) ==
  /\ OpenWriter(w, g, keys, s, sy, au)
  /\ Push("open", [w |-> w, g |-> g, keys |-> keys, start |-> s, sync |-> sy, auto |-> au])
GWrite(w, gs, fr, ts) ==
  /\ Quiescent /\ WriteReq(w, gs, fr, ts)
  /\ (SyncPartialOK \/ ~(wr[w].sync /\ LacksPeer(w, FrameChans(w, gs, fr))))
  /\ Push("write", [w |-> w, chans |-> FrameChans(w, gs, fr), times |-> ts, id |-> nextId,
                    partial |-> LacksPeer(w, FrameChans(w, gs, fr)),
                    dataonly |-> {g \in gs : ~OwnsIdx(wr[w].keys, g)}])
GCommit(w) == Quiescent /\ CommitReq(w) /\ Push("commit", [w |-> w])
GClose(w) == Quiescent /\ CloseWriter(w) /\ Push("close", [w |-> w])
\* one distributed read: open an iterator on g over keys and [a,b), SeekFirst, Next(max), close.
\* The iterator's internal steps follow; its expected value is ReadOf(cm, keys, a, b).
GIRead(g, keys, a, b) == IterOpen(g, keys, a, b) /\ Push("iread", [g |-> g, keys |-> keys, a |-> a, b |-> b])

\* ---- internal steps (not recorded)
Internal == /\ \/ \E w \in Writers, n \in Holders : LocalWrite(w, n) \/ LocalCommit(w, n)
               \/ \E w \in Writers : WriteAck(w) \/ CommitAck(w)
               \/ \E n \in Node : IterResp(n)
               \/ IterAck
            /\ UNCHANGED hist

\* ---- usefulness filters
FirstEven(s) == IF s % 2 = 0 THEN s ELSE s + 1
GroupStartOK(keys, g, s) ==
  IF OwnsIdx(keys, g)
  THEN FirstEven(s) \in Even /\ \A c \in keys \cap ChansOf(g) : \A d \in sdom[c] : ~Overlap(d, s, FirstEven(s) + 1)
  ELSE s \in Samples(Idx(g)) /\ ~Has(Dat(g), s) /\ \A d \in sdom[Dat(g)] : ~Overlap(d, s, s + 1)
UsefulStarts(keys) == {s \in Time : \A g \in GroupsIn(keys \cap Stored) : GroupStartOK(keys, g, s)}
OpenW == {w \in Writers : wr[w].open}
ClosedW == Writers \ OpenW
AnyData == \E c \in Stored : Samples(c) # {}
LastIs(a) == hist[Len(hist)].a = a
NoFailedYet == \A k \in 1..Len(hist) : hist[k].res = "ok"

\* ---- bounded-exhaustive generator (small argument sets)
GNextBFS ==
  \/ (Internal /\ UNCHANGED pick)
  \/ /\ Calls < Depth /\ Quiescent /\ UNCHANGED pick
     /\ \/ \E w \in Writers, g \in Node, keys \in BFSKeySets, sy, au \in BOOLEAN :
             /\ ~wr[w].open
             /\ \/ ~(keys \subseteq meta) /\ NoFailedYet /\ GOpen(w, g, keys, 0, sy, au)
                \/ /\ keys \subseteq meta /\ UsefulStarts(keys) # {}
                   /\ GOpen(w, g, keys, Min(UsefulStarts(keys)), sy, au)
        \/ \E w \in Writers, gs \in SUBSET Groups, fr \in BOOLEAN, ts \in SUBSET Even : GWrite(w, gs, fr, ts)
        \/ \E w \in Writers : wr[w].open /\ wr[w].gbuf # {} /\ GCommit(w)
        \/ \E w \in Writers : wr[w].open /\ wr[w].seq > 0 /\ GClose(w)
        \* reads of existing channels are the harness's battery after every call; only the failing opens are scripted
        \/ \E g \in Node, keys \in BFSKeySets : ~(keys \subseteq meta) /\ NoFailedYet /\ GIRead(g, keys \ {"F"}, 0, 2*T+1)
GSpecBFS == GInit /\ [][GNextBFS]_gvars

\* ---- simulation generator
Plans == <<
  \* 1: one session, several commits, reads between, second session
  <<"open", "write", "commit", "iread", "write", "write", "commit", "close", "iread", "open", "write", "commit", "close", "iread">>,
  \* 2: two writers open at once (different gateways / channel sets)
  <<"open", "open", "write", "write", "commit", "write", "commit", "write", "commit", "close", "close", "iread", "open", "write">>,
  \* 3: index first, data-only writer afterwards
  <<"open", "write", "write", "commit", "close", "open", "write", "commit", "close", "iread", "open", "write", "commit", "close">>,
  \* 4: many small writes, uncommitted tail dropped by close
  <<"open", "write", "write", "write", "commit", "write", "close", "iread", "open", "write", "write", "close", "iread", "iread">>
>>
TimeSets == {ts \in SUBSET Even : ts # {} /\ Cardinality(ts) <= MaxLen}
SimFrames == (SUBSET Groups) \X BOOLEAN \X TimeSets
FreeKeys == SUBSET AllChan \ {{}}
StoredKeys == SUBSET Stored \ {{}}
GEnd == /\ Calls = Depth /\ Quiescent /\ pick = "none" /\ hist' = Append(hist, [a |-> "end"]) /\ UNCHANGED <<vars, pick>>
\* Simulation picks successors uniformly, so a step is split in two: Choose fixes the KIND
\* of the next call (kinds weighted by how many k map to them, or prescribed by the plan),
\* Do then draws the arguments uniformly among ALL legal arguments of that kind.
KindOf(k) == CASE k \in 1..4 -> "open" [] k \in 5..7 -> "write" [] k \in 8..10 -> "writefull"
               [] k \in 11..16 -> "commit" [] k \in 17..19 -> "close" [] k \in 20..22 -> "iread"
               [] k = 23 -> "openbad" [] OTHER -> "ireadbad"
\* at most two writes in a row: keeps commits, closes and reads frequent
TwoWrites == Len(hist) >= 3 /\ hist[Len(hist)].a = "write" /\ hist[Len(hist) - 1].a = "write"
CanWrite(full) == \E w \in OpenW : \E f \in SimFrames :
                     /\ (full => f[1] = GroupsIn(wr[w].keys \cap Stored)) /\ WriteGuard(w, f[1], f[2], f[3])
                     /\ (SyncPartialOK \/ ~(wr[w].sync /\ LacksPeer(w, FrameChans(w, f[1], f[2]))))
CanOpen == ClosedW # {} /\ \E ks \in FreeKeys : ks \cap OpenKeys = {} /\ UsefulStarts(ks) # {}
Can(kd) == CASE kd \in {"open", "openbad"} -> CanOpen
             [] kd = "write" -> ~TwoWrites /\ CanWrite(FALSE)
             [] kd = "writefull" -> ~TwoWrites /\ CanWrite(TRUE)
             [] kd = "commit" -> \E w \in OpenW : ~wr[w].auto /\ wr[w].nc < MaxCommits
             [] kd = "close" -> \E w \in OpenW : wr[w].seq > 0 \/ ~CanWrite(FALSE)
             [] kd = "iread" -> AnyData
             [] OTHER -> TRUE
PlanKind == IF PlanId = 0 \/ Calls >= Len(Plans[PlanId]) THEN "any"
            ELSE IF Can(Plans[PlanId][Calls + 1]) THEN Plans[PlanId][Calls + 1] ELSE "any"
Choose == /\ pick = "none" /\ Quiescent /\ Calls < Depth
          /\ LET pk == PlanKind
             IN \E k \in 1..24 : /\ (pk = "any" \/ pk = KindOf(k) \/ (pk = "write" /\ KindOf(k) = "writefull"))
                                  /\ Can(KindOf(k)) /\ pick' = KindOf(k)
          /\ UNCHANGED <<vars, hist>>
Do == /\ pick # "none" /\ pick' = "none"
      /\ CASE pick \in {"open", "openbad"} ->
             \* (sync, auto): 2x (T,F), 2x (F,F), (T,T), (F,T)
             \E g \in Node, ks \in FreeKeys, x \in 1..6 : \E s \in UsefulStarts(ks) :
                GOpen(CHOOSE y \in ClosedW : TRUE, g, IF pick = "openbad" THEN ks \cup {Unknown} ELSE ks, s,
                      x \in {1, 2, 5}, x \in {5, 6})
           [] pick \in {"write", "writefull"} ->
             \E w \in OpenW, f \in SimFrames :
                /\ (pick = "writefull" => f[1] = GroupsIn(wr[w].keys \cap Stored))
                /\ (f[1] = {} => f[3] = {0})        \* frames with the free channel only: one shape is enough
                /\ GWrite(w, f[1], f[2], f[3])
           [] pick = "commit" -> \E w \in OpenW : GCommit(w)
           [] pick = "close" -> \E w \in OpenW : (wr[w].seq > 0 \/ ~CanWrite(FALSE)) /\ GClose(w)
           [] pick = "iread" ->
             \E g \in Node, ks \in StoredKeys, a \in Time, b \in Time : a < b /\ GIRead(g, ks, a, b)
           [] OTHER ->
             \E g \in Node, ks \in StoredKeys, x \in (IF HasFree THEN {Unknown, "F"} ELSE {Unknown}) :
                GIRead(g, ks \cup {x}, 0, 2 * T + 1)
GNextSim == GEnd \/ (~Quiescent /\ Internal /\ UNCHANGED pick) \/ Choose \/ Do
GSpecSim == GInit /\ [][GNextSim]_gvars

Emit == ~(Calls = Depth /\ Quiescent) \/ PrintT(<<"HIST", ToJson(hist)>>)
EmitSim == Len(hist) # Depth + 2 \/ PrintT(<<"HIST", ToJson(SubSeq(hist, 1, Depth + 1))>>)
====
