---- MODULE DistFramerGen ----
(* DistFramer + history variable. A history is a sequence of CLIENT calls
   (setup, open, write, commit, close, iread); the leaseholders' internal steps
   (LocalWrite / LocalCommit / acks / iterator responses) run between two client calls
   without being recorded, and a client call is generated only when nothing is in flight,
   so that the script can be replayed call by call on the real cluster.
   Every record carries the arguments, the outcome class and the ghost single-node
   store after the call (cm): what an iterator on ANY node must return from then on.
   The first record is the placement: [a |-> "setup", args |-> [nodes, lease, free]].

     GSpecBFS  every history up to Depth over small argument sets (bounded-exhaustive)
     GSpecSim  for `tlc -simulate`: action KINDS are weighted by construction, arguments
               are drawn through selectors; PlanId > 0 prescribes the kind of each step *)
EXTENDS DistFramer, Json, SequencesExt
CONSTANTS Depth, PlanId, BFSKeySets
VARIABLES hist
gvars == <<vars, hist>>

Rec(a, args) == [a |-> a, args |-> args, res |-> res', cm |-> single']
Push(a, args) == hist' = Append(hist, Rec(a, args))
Setup == [a |-> "setup", args |-> [nodes |-> NNodes, lease |-> lease, free |-> HasFree], res |-> "ok", cm |-> single]
GInit == Init /\ hist = <<Setup>>
Calls == Len(hist) - 1

\* ---- client calls (recorded)
GOpen(w, g, keys, s, sy, au) ==
  /\ OpenWriter(w, g, keys, s, sy, au)
  /\ Push("open", [w |-> w, g |-> g, keys |-> keys, start |-> s, sync |-> sy, auto |-> au])
GWrite(w, gs, fr, ts) ==
  /\ Quiescent /\ WriteReq(w, gs, fr, ts)
  /\ Push("write", [w |-> w, chans |-> FrameChans(w, gs, fr), times |-> ts, id |-> nextId,
                    partial |-> LacksPeer(w, FrameChans(w, gs, fr)),
                    dataonly |-> {g \in gs : ~OwnsIdx(wr[w].keys, g)}])
GCommit(w) == Quiescent /\ CommitReq(w) /\ Push("commit", [w |-> w])
GClose(w) == Quiescent /\ CloseWriter(w) /\ Push("close", [w |-> w])
\* one distributed read: open an iterator on g over keys and [a,b), SeekFirst, Next(max), close.
\* The iterator's internal steps follow; its expected value is ReadOf(cm, keys, a, b).
GIRead(g, keys, a, b) == IterOpen(g, keys, a, b) /\ Push("iread", [g |-> g, keys |-> keys, a |-> a, b |-> b])

\* ---- internal steps (not recorded)
Internal == /\ \/ \E w \in Writers, n \in Holders : LocalWrite(w, n) \/ LocalCommit(w, n)
               \/ \E w \in Writers : WriteAck(w) \/ CommitAck(w)
               \/ \E n \in Node : IterResp(n)
               \/ IterAck
            /\ UNCHANGED hist

\* ---- usefulness filters
FirstEven(s) == IF s % 2 = 0 THEN s ELSE s + 1
GroupStartOK(keys, g, s) ==
  IF OwnsIdx(keys, g)
  THEN FirstEven(s) \in Even /\ \A c \in keys \cap ChansOf(g) : \A d \in sdom[c] : ~Overlap(d, s, FirstEven(s) + 1)
  ELSE s \in Samples(Idx(g)) /\ ~Has(Dat(g), s) /\ \A d \in sdom[Dat(g)] : ~Overlap(d, s, s + 1)
UsefulStarts(keys) == {s \in Time : \A g \in GroupsIn(keys \cap Stored) : GroupStartOK(keys, g, s)}
OpenW == {w \in Writers : wr[w].open}
ClosedW == Writers \ OpenW
AnyData == \E c \in Stored : Samples(c) # {}
LastIs(a) == hist[Len(hist)].a = a
NoFailedYet == \A k \in 1..Len(hist) : hist[k].res = "ok"

\* ---- bounded-exhaustive generator (small argument sets)
GNextBFS ==
  \/ Internal
  \/ /\ Calls < Depth /\ Quiescent
     /\ \/ \E w \in Writers, g \in Node, keys \in BFSKeySets, sy, au \in BOOLEAN :
             /\ ~wr[w].open
             /\ \/ ~(keys \subseteq meta) /\ NoFailedYet /\ GOpen(w, g, keys, 0, sy, au)
                \/ /\ keys \subseteq meta /\ UsefulStarts(keys) # {}
                   /\ GOpen(w, g, keys, Min(UsefulStarts(keys)), sy, au)
        \/ \E w \in Writers, gs \in SUBSET Groups, fr \in BOOLEAN, ts \in SUBSET Even : GWrite(w, gs, fr, ts)
        \/ \E w \in Writers : wr[w].open /\ wr[w].gbuf # {} /\ GCommit(w)
        \/ \E w \in Writers : wr[w].open /\ wr[w].seq > 0 /\ GClose(w)
        \* reads of existing channels are the harness's battery after every call; only the failing opens are scripted
        \/ \E g \in Node, keys \in BFSKeySets : ~(keys \subseteq meta) /\ NoFailedYet /\ GIRead(g, keys \ {"F"}, 0, 2*T+1)
GSpecBFS == GInit /\ [][GNextBFS]_gvars

\* ---- simulation generator
Nth(S, i) == SetToSeq(S)[(i % Cardinality(S)) + 1]
Sel == 0..3
NT == Cardinality(Time)
Plans == <<
  \* 1: one session, several commits, reads between, second session
  <<"open", "write", "commit", "iread", "write", "write", "commit", "close", "iread", "open", "write", "commit", "close", "iread">>,
  \* 2: two writers open at once (different gateways / channel sets)
  <<"open", "open", "write", "write", "commit", "write", "commit", "write", "commit", "close", "close", "iread", "open", "write">>,
  \* 3: index first, data-only writer afterwards
  <<"open", "write", "write", "commit", "close", "open", "write", "commit", "close", "iread", "open", "write", "commit", "close">>,
  \* 4: many small writes, uncommitted tail dropped by close
  <<"open", "write", "write", "write", "commit", "write", "close", "iread", "open", "write", "write", "close", "iread", "iread">>
>>
TimeSets == {ts \in SUBSET Even : ts # {} /\ Cardinality(ts) <= MaxLen}
SimFrames == (SUBSET Groups) \X BOOLEAN \X TimeSets
FreeKeys == SUBSET AllChan \ {{}}
StoredKeys == SUBSET Stored \ {{}}
GEnd == /\ Calls = Depth /\ Quiescent /\ hist' = Append(hist, [a |-> "end"]) /\ UNCHANGED vars
\* lf / oc are evaluated once per state (TLC memoises LET definitions)
GNextSim == GEnd \/ (~Quiescent /\ Internal) \/
  /\ Calls < Depth /\ Quiescent
  /\ LET lf == [w \in Writers |-> IF wr[w].open THEN {f \in SimFrames : WriteGuard(w, f[1], f[2], f[3])} ELSE {}]
         wws == {w \in OpenW : lf[w] # {}}
         oc == {ks \in FreeKeys : ks \cap OpenKeys = {} /\ UsefulStarts(ks) # {}}
         can == [kd \in {"open", "write", "commit", "close", "iread"} |->
                   CASE kd = "open" -> ClosedW # {} /\ oc # {}
                     [] kd = "write" -> wws # {}
                     [] kd = "commit" -> \E w \in OpenW : ~wr[w].auto /\ wr[w].seq < MaxSeq
                     [] kd = "close" -> OpenW # {}
                     [] OTHER -> TRUE]
         planned == IF PlanId = 0 \/ Calls >= Len(Plans[PlanId]) THEN "any"
                    ELSE IF can[Plans[PlanId][Calls + 1]] THEN Plans[PlanId][Calls + 1] ELSE "any"
     IN \E k \in 1..12, i \in Sel, j \in Sel, m \in Sel :
       \/ /\ k \in {1, 2} /\ ClosedW # {} /\ planned \in {"any", "open"} /\ oc # {}
          /\ LET ks == Nth(oc, m + 4 * i + 16 * j + 64 * (k - 1))
                 g == (j % NNodes) + 1
                 s == Nth(UsefulStarts(ks), i + j + m)
                 bad == k = 2 /\ m = 3 /\ i >= 2        \* 1 in 16: a key that does not exist
             IN GOpen(Nth(ClosedW, i), g, IF bad THEN ks \cup {Unknown} ELSE ks, s, (i + m) % 2 = 0, (j + m) % 3 = 0)
       \/ /\ k \in {3, 4, 5, 6} /\ planned \in {"any", "write"} /\ wws # {}
          /\ LET w == Nth(wws, i)
                 \* half of the time prefer frames that carry every group the writer owns
                 full == {f \in lf[w] : f[1] = GroupsIn(wr[w].keys \cap Stored)}
                 pool == IF k >= 5 /\ full # {} THEN full ELSE lf[w]
                 f == Nth(pool, m + 4 * j + 16 * (k % 2))
             IN GWrite(w, f[1], f[2], f[3])
       \/ /\ k \in {7, 8} /\ j = 0 /\ planned \in {"any", "commit"} /\ \E w \in OpenW : ~wr[w].auto
          /\ LET ws == {w \in OpenW : ~wr[w].auto} w == Nth(ws, i)
             IN (wr[w].gbuf # {} \/ m = 0) /\ GCommit(w)
       \/ /\ k = 9 /\ j = 0 /\ m < 2 /\ OpenW # {} /\ planned \in {"any", "close"}
          /\ LET w == Nth(OpenW, i) IN (wr[w].seq > 0 \/ lf[w] = {}) /\ GClose(w)
       \/ /\ k \in {10, 11} /\ planned \in {"any", "iread"} /\ (AnyData \/ m = 0) /\ (~LastIs("iread") \/ planned = "iread")
          /\ LET g == (i % NNodes) + 1
                 ks0 == Nth(StoredKeys, j + 4 * m + 16 * i)
                 \* 1 in 8 each: an unknown key / the free channel among the keys
                 ks == IF k = 11 /\ m = 1 THEN ks0 \cup {Unknown}
                       ELSE IF k = 11 /\ m = 2 /\ HasFree THEN ks0 \cup {"F"} ELSE ks0
                 a == IF k = 10 THEN 0 ELSE (i + 2 * j) % NT
                 b == IF k = 10 THEN 2 * T + 1 ELSE a + 1 + ((m + 3 * j) % (NT - a))
             IN b \in Time /\ GIRead(g, ks, a, b)
GSpecSim == GInit /\ [][GNextSim]_gvars

Emit == ~(Calls = Depth /\ Quiescent) \/ PrintT(<<"HIST", ToJson(hist)>>)
EmitSim == Len(hist) # Depth + 2 \/ PrintT(<<"HIST", ToJson(SubSeq(hist, 1, Depth + 1))>>)
====
