------------------------------ MODULE PledgeMC ------------------------------
(* Configurations of Pledge.tla (cfg files cannot hold functions).
   Same3   : members 1..3 with identical views (the premise under which quorums intersect)
   Stale3  : member 3 is a node that joined a moment ago and knows only itself (cluster.go: SetHost
             before the first gossip) - the smallest instance of "differing (stale) views"
   Stale3b : member 2 has not yet learned member 3
   Stale5  : the directed scenario of DESIGN.md section C11: members 1..5; 4 and 5 joined earlier (their
             approvals are in the initial state); 2 and 3 never learned 4 and 5; member 1 holds 2 and 3
             as unhealthy, member 3 holds 1 as unhealthy; pledge 101 contacts 1, pledge 102 contacts 3 *)
EXTENDS Pledge
CONSTANT MaxLearn   \* bound on the number of (member, key) pairs gossip teaches (state constraint)
AllVia == [p \in Pledge |-> Proc]
Empty == [m \in InitMember |-> {}]
Same3View == [m \in InitMember |-> InitMember]
Stale3View == [m \in InitMember |-> IF m = 3 THEN {3} ELSE InitMember]
Stale3bView == [m \in InitMember |-> IF m = 2 THEN {1, 2} ELSE InitMember]
Stale5View == [m \in InitMember |-> IF m \in {2, 3} THEN 1..3 ELSE 1..5]
Stale5Unhealthy == [m \in InitMember |-> CASE m = 1 -> {2, 3} [] m = 3 -> {1} [] OTHER -> {}]
Stale5Approvals == [m \in InitMember |-> CASE m = 1 -> {4, 5} [] m = 2 -> {4, 5} [] m = 4 -> {5} [] OTHER -> {}]
BaseView(m) == IF m \in InitMember THEN InitView[m] ELSE {nodeKey[m]}
LearnedPairs == {mk \in Proc \X (1..MaxKey) : nodeKey[mk[1]] # 0 /\ mk[2] \in view[mk[1]] \ BaseView(mk[1])}
LearnBound == Cardinality(LearnedPairs) <= MaxLearn
\* Reduction: the conclusion of a round (Retry / Admit) reads and writes only resp[p] / admitted[p]
\* (nothing another action reads except Start's and Join's guards, which it can only enable), so it is
\* taken as soon as it is enabled; every other interleaving is kept.
Concluded(p) == resp[p].st = "wait" /\ Pending(p) = {}
NextR == IF \E p \in Pledge : Concluded(p)
         THEN \E p \in Pledge : Retry(p) \/ Admit(p)
         ELSE Next
SpecR == Init /\ [][NextR]_vars
Stale5Via == [p \in Pledge |-> IF p = 101 THEN {1} ELSE {3}]
=============================================================================
