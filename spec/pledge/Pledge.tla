------------------------------- MODULE Pledge -------------------------------
(* C11 - node keys are unique under concurrent joins and juror failures.
   Code: aspen/internal/cluster/pledge/pledge.go (Pledge, arbitrate, responsible.propose /
   refreshCandidates / idToPropose / buildQuorum / consultQuorum, juror.verdict), config.go
   (MaxProposals, RequestTimeout, Candidates, ClusterKey); aspen/internal/cluster/cluster.go
   (a pledged node binds its arbitrator when pledge.Pledge returns and knows only itself until it
   gossiped); aspen/internal/node/group.go (WhereActive / WhereState(Healthy)).

   Processes ("procs") are integers: an initial member's proc id is its node key (1..N), a joining
   node ("pledge") has a proc id > 100 and holds nodeKey[p] = 0 until it joined. Views are sets of node
   KEYS; a request addressed to key k is executed by the proc holding k.

   Action                      code
   -----------------------------------------------------------------------------------------------
   Start(p, m)                 pledge.Pledge: TransportClient.Send(peer, Request{Key: 0}); the peer's
                               bound handler creates &responsible{} and calls propose (one live
                               responsible per pledge; a pledge whose responsible gave up contacts the
                               next peer, at most MaxAttempts contacts)
   Propose(p, q)               one iteration of the loop in responsible.propose: refreshCandidates
                               (snapshot of view[via]), idToPropose (highest key of the snapshot + 1 the
                               first time, previous + 1 on EVERY retry), buildQuorum (size =
                               floor(|active|/2)+1, q = any subset of that size of the members the
                               snapshot holds as healthy), consultQuorum sends Request{Key: k} to all of q
   GiveUp(p)                   propose returns an error: MaxProposals rounds used, or buildQuorum
                               returned errQuorumUnreachable (fewer healthy members than the size)
   Deliver(p, j)               juror.verdict under j.mu at the member holding key j, reply reaches the
                               responsible in time. Rejected iff the key is in approvals or is not above
                               every key the juror knows; the key is appended to approvals in the approve
                               path AND in the out-of-range reject path (as the code does)
   DeliverLost(p, j)           verdict executed, the reply is lost (responsible sees an error)
   Fail(p, j)                  the request never reaches the juror (responsible sees an error)
   Timeout(p, j)               the responsible gives up on the request (RequestTimeout, or the cancel()
                               consultQuorum issues after the first error) but the request is still in
                               the network
   Cancel(p, j)                after the first error consultQuorum cancels the outstanding requests: each
                               counts as an error for the round; the request may still reach the juror
   DeliverLate(msg)            such a request is executed by the juror after the responsible moved on
                               (its effect on approvals stays, the reply goes nowhere)
   Retry(p)                    consultQuorum returned an error (any juror rejected / failed): continue
   Admit(p)                    consultQuorum returned nil: every juror of the quorum approved; propose
                               returns Response{Key, ClusterKey}
   Join(p)                     pledge.Pledge returns (res, arbitrate(cfg)): the new node now arbitrates;
                               it knows only its own key until gossip teaches it more (cluster.go SetHost)
   Learn(m, k)                 gossip teaches member m the key k of some arbitrating node, at any time

   Projection used by the harness (harness/aspen/internal/cluster/pledge/zz_verif_pledge_test.go):
   view[m]/unhealthy[m] = what the harness-defined Candidates function of m returns (keys; state
   Healthy / Suspect); approvals[m] is not read from the code (it is private to a closure): it is
   reconstructed from the Deliver / DeliverLost / DeliverLate events and checked through every later
   verdict; resp[p] = what the scheduler-gate network observes (the set of Request{Key: k} a
   responsible has outstanding = quorum and key; a new batch = retry; handler return = admit / give up);
   admitted[p] = the Response the real pledge.Pledge returned.

   Pinned beyond the property statement (disagreements here are drift, not violations):
   the quorum has EXACTLY floor(n/2)+1 members (a larger one is still a majority); the number of
   rounds before giving up (MaxProposals); that the out-of-range reject path records the key; that a
   new node's initial view is {own key}; round numbering.                                          *)
EXTENDS Naturals, FiniteSets, TLC

CONSTANTS
  InitMember,      \* proc ids (= node keys) of the members that arbitrate initially
  Pledge,          \* proc ids of the joining nodes (> 100)
  MaxProposals,    \* Config.MaxProposals
  MaxAttempts,     \* peers a pledge contacts at most
  MaxKey,          \* bound on proposed keys (state constraint KeyBound)
  Gossip,          \* BOOLEAN: Learn enabled
  Joins,           \* BOOLEAN: admitted nodes start arbitrating (Join)
  Faults,          \* subset of {"lost", "fail", "timeout", "late"}: fault actions enabled. The exhaustive
                   \* configurations use {"lost", "fail"}, which covers the other two: executing a
                   \* request only ever ADDS its key to the juror's approvals (on every path) and a late
                   \* reply is discarded, so a late execution at time t3 of a request that timed out at
                   \* t1 equals "lost" at t1 if no request for the same key reached that juror in
                   \* between, and equals "fail" otherwise (the key is in approvals by then anyway).
                   \* Generated schedules and trace validation use all four.
  InitView,        \* [InitMember -> SUBSET keys]   views may be stale / different
  InitUnhealthy,   \* [InitMember -> SUBSET keys]   keys the member's view holds as not healthy
  InitApprovals,   \* [InitMember -> SUBSET keys]   approvals left by earlier joins
  AllowedVia       \* [Pledge -> SUBSET Proc]       peers a pledge may contact (its Config.Peers)

Proc == InitMember \cup Pledge
ClusterKey == "K"
Max0(S) == IF S = {} THEN 0 ELSE CHOOSE x \in S : \A y \in S : y <= x
QSize(V) == (Cardinality(V) \div 2) + 1
NoResp == [via |-> 0, st |-> "idle", key |-> 0, round |-> 0, snap |-> {}, quorum |-> {},
           ok |-> {}, bad |-> {}]
NotAdmitted == [key |-> 0, ck |-> "none", quorum |-> {}, snap |-> {}, via |-> 0]

VARIABLES
  nodeKey,    \* [Proc -> Nat]  node key held by an arbitrating proc, 0 = not arbitrating
  view,       \* [Proc -> SUBSET Nat]  keys the proc's Candidates() returns (all active)
  unhealthy,  \* [Proc -> SUBSET Nat]  those of them whose State is not Healthy
  approvals,  \* [Proc -> SUBSET Nat]  juror.approvals
  resp,       \* [Pledge -> record]    the live responsible of the pledge
  net,        \* set of juror requests in flight [p, a (attempt), r (round), to (juror key), k]
  attempts,   \* [Pledge -> Nat]       peers contacted so far
  admitted    \* [Pledge -> record]    what propose returned to the pledge
vars == <<nodeKey, view, unhealthy, approvals, resp, net, attempts, admitted>>

Init ==
  /\ nodeKey = [x \in Proc |-> IF x \in InitMember THEN x ELSE 0]
  /\ view = [x \in Proc |-> IF x \in InitMember THEN InitView[x] ELSE {}]
  /\ unhealthy = [x \in Proc |-> IF x \in InitMember THEN InitUnhealthy[x] ELSE {}]
  /\ approvals = [x \in Proc |-> IF x \in InitMember THEN InitApprovals[x] ELSE {}]
  /\ resp = [p \in Pledge |-> NoResp]
  /\ net = {}
  /\ attempts = [p \in Pledge |-> 0]
  /\ admitted = [p \in Pledge |-> NotAdmitted]

Holders(k) == {x \in Proc : nodeKey[x] = k /\ k # 0}
Msg(p, j) == [p |-> p, a |-> attempts[p], r |-> resp[p].round, to |-> j, k |-> resp[p].key]
Pending(p) == resp[p].quorum \ (resp[p].ok \cup resp[p].bad)
\* juror.verdict: nil iff not approved before and above every key the juror knows
JurorOk(x, k) == k \notin approvals[x] /\ k > Max0(view[x])
NextKey(p) == IF resp[p].key = 0 THEN Max0(view[resp[p].via]) + 1 ELSE resp[p].key + 1
Healthy(m) == view[m] \ unhealthy[m]
Reachable(m) == Cardinality(Healthy(m)) >= QSize(view[m])

Start(p, m) ==
  /\ resp[p].st = "idle" /\ admitted[p].key = 0 /\ attempts[p] < MaxAttempts
  /\ m \in AllowedVia[p] /\ nodeKey[m] # 0 /\ m # p
  /\ resp' = [resp EXCEPT ![p] = [NoResp EXCEPT !.via = m, !.st = "propose"]]
  /\ attempts' = [attempts EXCEPT ![p] = @ + 1]
  /\ UNCHANGED <<nodeKey, view, unhealthy, approvals, net, admitted>>

Propose(p, q) ==
  LET m == resp[p].via IN
  /\ resp[p].st = "propose" /\ resp[p].round < MaxProposals
  /\ Reachable(m)
  /\ q \subseteq Healthy(m) /\ Cardinality(q) = QSize(view[m])
  /\ resp' = [resp EXCEPT ![p] = [@ EXCEPT !.key = NextKey(p), !.round = @ + 1, !.snap = view[m],
                                            !.quorum = q, !.ok = {}, !.bad = {}, !.st = "wait"]]
  /\ net' = net \cup {[p |-> p, a |-> attempts[p], r |-> resp[p].round + 1, to |-> j, k |-> NextKey(p)] : j \in q}
  /\ UNCHANGED <<nodeKey, view, unhealthy, approvals, attempts, admitted>>

GiveUp(p) ==
  /\ resp[p].st = "propose"
  /\ resp[p].round >= MaxProposals \/ ~Reachable(resp[p].via)
  /\ resp' = [resp EXCEPT ![p] = NoResp]
  /\ UNCHANGED <<nodeKey, view, unhealthy, approvals, net, attempts, admitted>>

\* the juror side of a request: approvals gains the key on every path that reaches the append
Executed(x, k) == approvals' = [approvals EXCEPT ![x] = @ \cup {k}]

DeliverAt(p, j, x) ==
  /\ resp[p].st = "wait" /\ j \in Pending(p) /\ Msg(p, j) \in net
  /\ x \in Holders(j)
  /\ Executed(x, resp[p].key)
  /\ resp' = IF JurorOk(x, resp[p].key)
             THEN [resp EXCEPT ![p].ok = @ \cup {j}]
             ELSE [resp EXCEPT ![p].bad = @ \cup {j}]
  /\ net' = net \ {Msg(p, j)}
  /\ UNCHANGED <<nodeKey, view, unhealthy, attempts, admitted>>
Deliver(p, j) == \E x \in Holders(j) : DeliverAt(p, j, x)

DeliverLostAt(p, j, x) ==
  /\ "lost" \in Faults
  /\ resp[p].st = "wait" /\ j \in Pending(p) /\ Msg(p, j) \in net
  /\ x \in Holders(j)
  /\ Executed(x, resp[p].key)
  /\ resp' = [resp EXCEPT ![p].bad = @ \cup {j}]
  /\ net' = net \ {Msg(p, j)}
  /\ UNCHANGED <<nodeKey, view, unhealthy, attempts, admitted>>
DeliverLost(p, j) == \E x \in Holders(j) : DeliverLostAt(p, j, x)

Fail(p, j) ==
  /\ "fail" \in Faults
  /\ resp[p].st = "wait" /\ j \in Pending(p) /\ Msg(p, j) \in net
  /\ resp' = [resp EXCEPT ![p].bad = @ \cup {j}]
  /\ net' = net \ {Msg(p, j)}
  /\ UNCHANGED <<nodeKey, view, unhealthy, approvals, attempts, admitted>>

Timeout(p, j) ==
  /\ "timeout" \in Faults
  /\ resp[p].st = "wait" /\ j \in Pending(p) /\ Msg(p, j) \in net
  /\ resp' = [resp EXCEPT ![p].bad = @ \cup {j}]
  /\ UNCHANGED <<nodeKey, view, unhealthy, approvals, net, attempts, admitted>>

\* consultQuorum calls cancel() after the first error: every outstanding Send returns the context error.
\* Not a fault but what the code does; the request itself may still reach the juror later.
Cancel(p, j) ==
  /\ resp[p].st = "wait" /\ resp[p].bad # {} /\ j \in Pending(p)
  /\ resp' = [resp EXCEPT ![p].bad = @ \cup {j}]
  /\ net' = IF "late" \in Faults THEN net ELSE net \ {Msg(p, j)}
  /\ UNCHANGED <<nodeKey, view, unhealthy, approvals, attempts, admitted>>

IsLate(msg) == ~(resp[msg.p].st = "wait" /\ attempts[msg.p] = msg.a /\ resp[msg.p].round = msg.r
                /\ msg.to \in Pending(msg.p))
DeliverLateAt(msg, x) ==
  /\ "late" \in Faults
  /\ msg \in net /\ IsLate(msg)
  /\ x \in Holders(msg.to)
  /\ Executed(x, msg.k)
  /\ net' = net \ {msg}
  /\ UNCHANGED <<nodeKey, view, unhealthy, resp, attempts, admitted>>
DeliverLate(msg) == \E x \in Holders(msg.to) : DeliverLateAt(msg, x)

Retry(p) ==
  /\ resp[p].st = "wait" /\ Pending(p) = {} /\ resp[p].bad # {}
  /\ resp' = [resp EXCEPT ![p].st = "propose"]
  /\ UNCHANGED <<nodeKey, view, unhealthy, approvals, net, attempts, admitted>>

Admit(p) ==
  /\ resp[p].st = "wait" /\ Pending(p) = {} /\ resp[p].bad = {}
  /\ admitted' = [admitted EXCEPT ![p] = [key |-> resp[p].key, ck |-> ClusterKey,
                                          quorum |-> resp[p].quorum, snap |-> resp[p].snap,
                                          via |-> resp[p].via]]
  /\ resp' = [resp EXCEPT ![p].st = "done"]
  /\ UNCHANGED <<nodeKey, view, unhealthy, approvals, net, attempts>>

Join(p) ==
  /\ Joins
  /\ admitted[p].key # 0 /\ nodeKey[p] = 0
  /\ nodeKey' = [nodeKey EXCEPT ![p] = admitted[p].key]
  /\ view' = [view EXCEPT ![p] = {admitted[p].key}]
  /\ UNCHANGED <<unhealthy, approvals, resp, net, attempts, admitted>>

Learn(m, k) ==
  /\ Gossip
  /\ nodeKey[m] # 0 /\ k \notin view[m] /\ Holders(k) # {}
  /\ view' = [view EXCEPT ![m] = @ \cup {k}]
  /\ UNCHANGED <<nodeKey, unhealthy, approvals, resp, net, attempts, admitted>>

Next ==
  \/ \E p \in Pledge :
       \/ \E m \in Proc : Start(p, m)
       \/ resp[p].st = "propose" /\ \E q \in SUBSET Healthy(resp[p].via) : Propose(p, q)
       \/ GiveUp(p) \/ Retry(p) \/ Admit(p) \/ Join(p)
       \/ \E j \in resp[p].quorum : Deliver(p, j) \/ DeliverLost(p, j) \/ Fail(p, j) \/ Timeout(p, j) \/ Cancel(p, j)
  \/ \E msg \in net : DeliverLate(msg)
  \/ \E m \in Proc, k \in 1..MaxKey : Learn(m, k)

Spec == Init /\ [][Next]_vars
KeyBound == \A p \in Pledge : resp[p].key <= MaxKey

------------------------------------------------------------------------------
\* the key a proc holds in the cluster: members their own, pledges the one they were given
HeldKey(x) == IF x \in Pledge THEN admitted[x].key ELSE nodeKey[x]
\* no two nodes with the same key (two admitted pledges, or a pledge and an existing member)
UniqueKeys == \A x, y \in Proc : (x # y /\ HeldKey(x) # 0) => HeldKey(x) # HeldKey(y)
\* a key is given only after EVERY member of a majority quorum of the members known to the
\* coordinating node approved it (approvals never shrink, so this is a state invariant)
AdmittedOnlyAfterFullQuorum ==
  \A p \in Pledge : admitted[p].key # 0 =>
    LET a == admitted[p] IN
      /\ a.quorum \subseteq a.snap
      /\ 2 * Cardinality(a.quorum) > Cardinality(a.snap)
      /\ \A j \in a.quorum : \E x \in Holders(j) : a.key \in approvals[x]
SameClusterKey == \A p \in Pledge : admitted[p].key # 0 => admitted[p].ck = ClusterKey
TypeOK ==
  /\ \A p \in Pledge : resp[p].st \in {"idle", "propose", "wait", "done"}
  /\ \A p \in Pledge : resp[p].ok \cup resp[p].bad \subseteq resp[p].quorum
  /\ \A p \in Pledge : resp[p].round <= MaxProposals
\* the new key is above every key the responsible knew
AboveSnapshot == \A p \in Pledge : admitted[p].key # 0 => admitted[p].key > Max0(admitted[p].snap)
=============================================================================
