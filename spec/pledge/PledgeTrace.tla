---------------------------- MODULE PledgeTrace ----------------------------
(* Trace validation for C11: is the sequence of events the scheduler-gate harness OBSERVED on the
   real pledge package (many scenarios, concatenated, each starting with a "reset" event) a behaviour
   of Pledge.tla? Every event is fully logged, so each one names exactly one action instance and
   validation is linear. All fields are always present.
     reset    members, k = MaxProposals        a new cluster: procs in `members` arbitrate
     view     m, view, un                       environment: what Candidates() of proc m returns now
     seed     j, k, ok                          a juror request from outside the model (earlier join)
     start    p, m                              Start(p, m)
     propose  p, k, q, r                        Propose(p, q); k and r must be what the spec computes
     deliver  p, j, to, k, ok, r                DeliverAt(p, to, j); ok must be JurorOk
     lost     p, j, to, k, ok, r                DeliverLostAt
     fail     p, to                             Fail          timeout  p, to        Timeout
     late     p, att, r, j, to, k, ok           DeliverLateAt
     retry p | giveup p | admit p, k            Retry / GiveUp / Admit
     admitted p, k, ck                          pledge.Pledge returned (k, ck) and arbitrates: Join
   An event no action explains stops the cursor; the driver reports the event and classifies it
   (juror verdict / proposed key / quorum / admission = statements of the property; the rest = drift).
   UniqueKeys is deliberately NOT an invariant here: it is checked on the real responses directly,
   and a duplicate produced by a trace that this module ACCEPTS is a design-level defect (every step
   was what the protocol prescribes), which is how the known finding is told from any other duplicate. *)
EXTENDS Pledge, Sequences, Json
VARIABLE l
Trace == ndJsonDeserialize("trace.ndjson")
ASSUME TLCSet(1, 0)
E == Trace[l]
More == l <= Len(Trace)
SetOf(s) == {s[i] : i \in DOMAIN s}
Step == l' = l + 1

TEmpty == [m \in InitMember |-> {}]
TVia == [p \in Pledge |-> Proc]

TInit ==
  /\ nodeKey = [x \in Proc |-> 0]
  /\ view = [x \in Proc |-> {}]
  /\ unhealthy = [x \in Proc |-> {}]
  /\ approvals = [x \in Proc |-> {}]
  /\ resp = [p \in Pledge |-> NoResp]
  /\ net = {}
  /\ attempts = [p \in Pledge |-> 0]
  /\ admitted = [p \in Pledge |-> NotAdmitted]
  /\ l = 1

TReset ==
  /\ More /\ E.ev = "reset" /\ E.k = MaxProposals
  /\ nodeKey' = [x \in Proc |-> IF x \in SetOf(E.members) THEN x ELSE 0]
  /\ view' = [x \in Proc |-> {}]
  /\ unhealthy' = [x \in Proc |-> {}]
  /\ approvals' = [x \in Proc |-> {}]
  /\ resp' = [p \in Pledge |-> NoResp]
  /\ net' = {}
  /\ attempts' = [p \in Pledge |-> 0]
  /\ admitted' = [p \in Pledge |-> NotAdmitted]
  /\ Step

TView ==
  /\ More /\ E.ev = "view" /\ E.m \in Proc
  /\ view' = [view EXCEPT ![E.m] = SetOf(E.view)]
  /\ unhealthy' = [unhealthy EXCEPT ![E.m] = SetOf(E.un)]
  /\ UNCHANGED <<nodeKey, approvals, resp, net, attempts, admitted>>
  /\ Step

TSeed ==
  /\ More /\ E.ev = "seed" /\ E.j \in Proc /\ nodeKey[E.j] # 0
  /\ E.ok = JurorOk(E.j, E.k)
  /\ Executed(E.j, E.k)
  /\ UNCHANGED <<nodeKey, view, unhealthy, resp, net, attempts, admitted>>
  /\ Step

TStart == More /\ E.ev = "start" /\ E.p \in Pledge /\ Start(E.p, E.m) /\ Step

TPropose ==
  /\ More /\ E.ev = "propose" /\ E.p \in Pledge
  /\ E.k = NextKey(E.p) /\ E.r = resp[E.p].round + 1
  /\ Propose(E.p, SetOf(E.q))
  /\ Step

TDeliver ==
  /\ More /\ E.ev = "deliver" /\ E.p \in Pledge /\ E.j \in Proc
  /\ E.k = resp[E.p].key /\ E.r = resp[E.p].round
  /\ E.ok = JurorOk(E.j, E.k)
  /\ DeliverAt(E.p, E.to, E.j)
  /\ Step

TLost ==
  /\ More /\ E.ev = "lost" /\ E.p \in Pledge /\ E.j \in Proc
  /\ E.k = resp[E.p].key /\ E.r = resp[E.p].round
  /\ E.ok = JurorOk(E.j, E.k)
  /\ DeliverLostAt(E.p, E.to, E.j)
  /\ Step

TFail == More /\ E.ev = "fail" /\ E.p \in Pledge /\ Fail(E.p, E.to) /\ Step
TTimeout == More /\ E.ev = "timeout" /\ E.p \in Pledge /\ Timeout(E.p, E.to) /\ Step

TLate ==
  /\ More /\ E.ev = "late" /\ E.p \in Pledge /\ E.j \in Proc
  /\ E.ok = JurorOk(E.j, E.k)
  /\ DeliverLateAt([p |-> E.p, a |-> E.att, r |-> E.r, to |-> E.to, k |-> E.k], E.j)
  /\ Step

TRetry == More /\ E.ev = "retry" /\ E.p \in Pledge /\ Retry(E.p) /\ Step
TGiveUp == More /\ E.ev = "giveup" /\ E.p \in Pledge /\ GiveUp(E.p) /\ Step
TAdmit == More /\ E.ev = "admit" /\ E.p \in Pledge /\ E.k = resp[E.p].key /\ Admit(E.p) /\ Step
TAdmitted ==
  /\ More /\ E.ev = "admitted" /\ E.p \in Pledge
  /\ E.k = admitted[E.p].key /\ E.ck = admitted[E.p].ck
  /\ Join(E.p)
  /\ Step

TNext == TReset \/ TView \/ TSeed \/ TStart \/ TPropose \/ TDeliver \/ TLost \/ TFail \/ TTimeout
         \/ TLate \/ TRetry \/ TGiveUp \/ TAdmit \/ TAdmitted
TSpec == TInit /\ [][TNext]_<<vars, l>>

Mark == IF l > TLCGet(1) THEN TLCSet(1, l) ELSE TRUE
Accepted == \/ TLCGet(1) = Len(Trace) + 1
            \/ (PrintT(<<"HW", TLCGet(1)>>) /\ FALSE)
=============================================================================
