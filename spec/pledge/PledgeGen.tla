----------------------------- MODULE PledgeGen -----------------------------
(* Pledge + history variable: emits behaviours as JSON schedules for the scheduler-gate harness.
   The generator orders steps the way the code does: what a responsible does by itself (cancel the
   outstanding requests after the first error, conclude the round, open the next round, return) is
   taken immediately; the choices left are exactly the scheduler's (which pledge request / juror
   request to deliver, lose, fail, hold, deliver late; what gossip teaches whom).
   Each record carries what the specification computed (proposed key, quorum, verdict), so the
   harness can compare every reaction of the real code on the spot; the recorded trace of the real
   run is validated against PledgeTrace.tla in any case.
   With VIEW GView (hist hidden) BFS visits every state of Pledge once and `hist` is one schedule
   that reaches it: DupEmit then prints one schedule per distinct duplicate-key state.            *)
EXTENDS PledgeMC, Sequences, Json
CONSTANT Depth
VARIABLE hist

MinOf(S) == CHOOSE x \in S : \A y \in S : x <= y
R(a, p, m, k, q, ok, r) == [a |-> a, p |-> p, m |-> m, k |-> k, q |-> q, ok |-> ok, r |-> r, att |-> 0]
RL(msg, ok) == [a |-> "late", p |-> msg.p, m |-> msg.to, k |-> msg.k, q |-> {}, ok |-> ok, r |-> msg.r, att |-> msg.a]
H(rec) == hist' = Append(hist, rec)
Verdict(j, k) == \A x \in Holders(j) : JurorOk(x, k)

Cancelling(p) == resp[p].st = "wait" /\ Pending(p) # {} /\ resp[p].bad # {}
Proposing(p) == resp[p].st = "propose"
Joining(p) == Joins /\ admitted[p].key # 0 /\ nodeKey[p] = 0

Sched ==
  \/ \E p \in Pledge, m \in Proc : Start(p, m) /\ H(R("start", p, m, 0, {}, TRUE, 0))
  \/ \E p \in Pledge : \E j \in resp[p].quorum :
       \/ Deliver(p, j) /\ H(R("deliver", p, j, resp[p].key, {}, Verdict(j, resp[p].key), resp[p].round))
       \/ DeliverLost(p, j) /\ H(R("lost", p, j, resp[p].key, {}, Verdict(j, resp[p].key), resp[p].round))
       \/ Fail(p, j) /\ H(R("fail", p, j, resp[p].key, {}, TRUE, resp[p].round))
       \/ Timeout(p, j) /\ H(R("timeout", p, j, resp[p].key, {}, TRUE, resp[p].round))
  \/ \E msg \in net : DeliverLate(msg) /\ H(RL(msg, Verdict(msg.to, msg.k)))
  \/ \E m \in Proc, k \in 1..MaxKey : Learn(m, k) /\ H(R("learn", 0, m, k, {}, TRUE, 0))

GNext ==
  /\ Len(hist) < Depth
  /\ IF \E p \in Pledge : Cancelling(p)
     THEN LET p == MinOf({x \in Pledge : Cancelling(x)})
              j == MinOf(Pending(p))
          IN Cancel(p, j) /\ H(R("cancel", p, j, resp[p].key, {}, TRUE, resp[p].round))
     ELSE IF \E p \in Pledge : Concluded(p)
     THEN LET p == MinOf({x \in Pledge : Concluded(x)})
          IN \/ Retry(p) /\ H(R("retry", p, 0, resp[p].key, {}, TRUE, resp[p].round))
             \/ Admit(p) /\ H(R("admit", p, 0, resp[p].key, resp[p].quorum, TRUE, resp[p].round))
     ELSE IF \E p \in Pledge : Proposing(p)
     THEN LET p == MinOf({x \in Pledge : Proposing(x)})
          IN \/ \E q \in SUBSET Healthy(resp[p].via) :
                  Propose(p, q) /\ H(R("propose", p, resp[p].via, NextKey(p), q, TRUE, resp[p].round + 1))
             \/ GiveUp(p) /\ H(R("giveup", p, resp[p].via, 0, {}, TRUE, resp[p].round))
     ELSE IF \E p \in Pledge : Joining(p)
     THEN LET p == MinOf({x \in Pledge : Joining(x)})
          IN Join(p) /\ H(R("join", p, 0, admitted[p].key, {}, TRUE, 0))
     ELSE Sched

\* hist[1] describes the configuration (functions over 1..N print as JSON arrays indexed by member - 1)
InitRec == [a |-> "init", members |-> InitMember, pledges |-> Pledge, view |-> InitView,
            un |-> InitUnhealthy, appr |-> InitApprovals, maxprop |-> MaxProposals]
GInit == Init /\ hist = <<InitRec>>
GSpec == GInit /\ [][GNext]_<<vars, hist>>
GView == vars

\* one line per maximal behaviour (depth reached or nothing left to do)
Emit == ENABLED GNext \/ PrintT(<<"HIST", ToJson(hist)>>)
\* stop at the first duplicate key and print the schedule that produced it
DupEmit == UniqueKeys \/ (PrintT(<<"DUP", ToJson(hist)>>) /\ FALSE)
\* print a schedule for every duplicate-key state, keep going (use with VIEW GView)
DupPrint == UniqueKeys \/ PrintT(<<"DUP", ToJson(hist)>>)
=============================================================================
