----------------------------- MODULE ChannelSvc -----------------------------
(* Distribution-layer channel service of a 1-3 node cluster, as written in
   core/pkg/distribution/channel/{lease_proxy,service,counter,channel}.go and the
   cesium side in cesium/{channel,delete}.go.  One request at a time (C15 quantifies
   over sequences); a request is executed as SEPARATE STEPS IN CODE ORDER on a gateway
   frame `rq.gw` (the node the caller talks to, running under the caller's gorp tx)
   and, for entries leased to another node, a remote frame `rq.rm` (that node's
   createHandler / deleteHandler / renameHandler with its own tx, committed before
   the gateway continues).

   Action <-> code (pc of the active frame):
     create  v   validateChannelNames                      (Service.create)
             x   append "<name>_time" index channels for calculated entries
             s   proxy.BatchFactory.Batch (split into peers / free / gateway)
             r   createRemote per peer, then createRemote(bootstrapper) for free
             f1  createAndUpdateFreeVirtual: deleteOverwritten
             f2  retrieveExistingAndAssignKeys(freeCounter) + calc->index linking
             f3  table.NewCreate (free)          f4  maybeSetResources (free)
             l1  createGateway: deleteOverwritten (metadata tx + engine DeleteChannels)
             l2  retrieveExistingAndAssignKeys(leasedCounter): key = lease*2^20 | ctr
             l3  TSChannel.CreateChannel  (cesium validateNewChannel per entry, in order)
             l4  table.NewCreate (gateway)       o   maybeSetResources (all)
             c   txn.Commit (handler) / caller's WithTx commit (gateway)
     delete  dr  deleteRemote per peer      df  deleteFreeVirtual (tx)
             dm  deleteGateway: table.NewDelete (tx)   do  maybeDeleteResources (tx)
             de  cesium.DeleteChannels (data pass, then index pass)
             dO  maybeDeleteResources(all)  c  commit
     rename  nv  validateChannelNames  nr renameRemote per peer  nf renameFreeVirtual
             nm  renameGateway: table.NewUpdate (tx)   ne  cesium.RenameChannels   c
     FailHere    an infrastructure failure after any step (abandons all open txs)
     Restart(n)  close + reopen of node n's storage and distribution layers
                 (persisted state only: counters, metadata, engine directories)

   The code AS IT IS is described by the deviation constants (TRUE = as written; FALSE =
   the behaviour of the minimal repair, which is what a repaired tree is compared with):
     Dev_DeleteSkipsVirtual     cesium.DeleteChannels' first pass `if !uok {continue}`
                                never removes virtual channels
     Dev_EngineCreateNoCleanup  CreateChannel stops at the first invalid entry and leaves
                                the earlier entries of the batch in the engine
     Dev_EngineDeletePartial    DeleteChannels removes data channels, then fails on an
                                index that still indexes data outside the batch
     Dev_OverwriteLocalEngine   deleteOverwritten removes overwritten channels from the
                                engine of the node that runs it, whatever their lease
                                (FALSE: other leaseholders' channels go through deleteRemote)
     Dev_CalcIndexTwice         a calculated channel's "_time" index is appended again by
                                the bootstrapper when the request came through a peer
     Dev_CalcIndexUnchecked     the appended index names are never name-validated
                                (FALSE: names are validated after the append)
     Dev_FreeRenameStaleIndex   a free channel renamed through a non-bootstrapper gateway is
                                written in that gateway's tx and forwarded to the bootstrapper,
                                whose name index (fed by local txs and by an observable that
                                ignores host-leased rows) keeps the OLD name: lookups by name
                                on the bootstrapper no longer find the channel
                                (FALSE: free renames are sent to the bootstrapper's handler)
     Window_EngineBeforeMeta    a failure may strike after an engine mutation and before
                                the metadata transaction commits (masked: never there).
                                Input-driven instances that remain with every Dev_* FALSE:
                                a failing create with the overwrite option (engine side of
                                deleteOverwritten already ran) and a failing second
                                CreateMany of one transaction (Chain).

   Projection used by the harness (zz_verif_channel_test.go):
     meta      <- channel.Service.NewRetrieve() of all non-internal channels (every node,
                  after gossip quiescence); key = (Leaseholder, LocalKey - base[lease])
     engine[n] <- node n's Storage.TS.RetrieveChannel over every candidate key
     last.ret  <- the channels returned by CreateMany (name, key), matched by name
     keyOf     <- the harness' own name -> last returned key map (used to address
                  delete / rename / index references symbolically)
     ixn       <- not observed directly (channel.MatchNames lookups on the bootstrapper)
   Pinned beyond the property (compared as DRIFT, never as violation): request outcome
   (ok/fail) of every request, the counter values consumed by failing requests and by
   overwrite/retrieve requests, the returned keys, the remote-frame commit points of
   multi-leaseholder requests that fail later, `onto` (ontology resources; not bound).
   Not predicted at all (behaviours flagged `amb` are not replayed): the order in which
   peers of a FAILING request are visited (Go map iteration) and which of several
   channels sharing a name a lookup returns last.                                  *)
EXTENDS Naturals, FiniteSets, Sequences, SequencesExt, TLC

CONSTANTS Node,          \* {1} | {1,2} | {1,2,3}; 1 is the bootstrapper
          BaseName,      \* names usable for any entry and as index references. Names are opaque
                         \* strings compared exactly (as validateChannelNames and the name index
                         \* do); the generator's pools contain pairs differing only in letter
                         \* case ("Na"/"na", "a"/"A"): two distinct valid names
          ExtraName,     \* further names for non-calculated entries (e.g. "a_time")
          Kinds,         \* subset of {"index","fixed","variable","virtual","free","calc","badtype"}
          Opts,          \* subset of {"plain","retrieve","overwrite"}
          MaxBatch, MaxReq, MaxCtr, MaxRestart,
          Types,         \* subset of {"create","delete","rename"}
          Chain,         \* a request may be two CreateMany calls inside one transaction
          CtlRename,     \* rename requests may also name "ctl<n>": node n's INTERNAL control
                         \* channel (Layer.configureControlUpdates), which RenameMany(...,
                         \* allowInternal=false) must refuse. It lives outside `meta` (the
                         \* harness' baseline), so the metadata update does not find it.
          InjectFail,    \* FailHere enabled (design level only)
          AnyPeerOrder,  \* peers visited in any order (Go map iteration) or ascending
          Dev_DeleteSkipsVirtual, Dev_EngineCreateNoCleanup, Dev_EngineDeletePartial,
          Dev_OverwriteLocalEngine, Dev_CalcIndexTwice, Dev_CalcIndexUnchecked,
          Dev_FreeRenameStaleIndex,
          Window_EngineBeforeMeta

VARIABLES ctr,       \* [Lease -> Nat] persisted key counters; ctr[0] = free counter
          meta,      \* committed cluster metadata table: Key -> channel fields
          engine,    \* [Node -> (Key -> engine channel fields)]
          onto,      \* keys that have an ontology resource
          everUsed,  \* ghost: every key ever assigned
          fresh,     \* ghost: no assignment ever picked a key from everUsed
          gone,      \* ghost: keys removed from metadata by successful requests
          ixn,       \* free key -> name the bootstrapper's name index files it under,
                     \* for keys whose index entry is out of date (see Dev_FreeRenameStaleIndex)
          keyOf,     \* caller's knowledge: name -> last key returned for it
          stim,      \* request under construction
          rq,        \* request in flight
          last,      \* outcome of the last completed request
          nreq, nrestart
vars == <<ctr, meta, engine, onto, everUsed, fresh, gone, ixn, keyOf, stim, rq, last, nreq, nrestart>>

Lease == Node \cup {0}                 \* 0 stands for node.KeyFree (4095)
Boot == 1
K(l, c) == [l |-> l, c |-> c]
NoKey == K(0, 0)
BadCtr == 999                          \* local key of a channel that never exists
TimeName(b) == b \o "_time"
NameU == BaseName \cup ExtraName \cup {TimeName(b) : b \in BaseName}
CtlName(n) == "ctl" \o ToString(n)
CtlNames == {CtlName(n) : n \in Node}
CtlKey(x) == K(CHOOSE n \in Node : CtlName(n) = x, 0)   \* local key 0 = last pre-existing key
KeyNum(k) == (IF k.l = 0 THEN 4095 ELSE k.l) * 100000 + k.c
KeyLT(a, b) == KeyNum(a) < KeyNum(b)
SortKeys(S) == SetToSortSeq(S, KeyLT)
EmptyF == [k \in {} |-> 0]
Restr(f, S) == [k \in S |-> f[k]]
Without(f, S) == Restr(f, DOMAIN f \ S)
Rng(s) == {s[i] : i \in 1..Len(s)}
FirstIdx(s, T(_)) == LET I == {i \in 1..Len(s) : T(s[i])} IN IF I = {} THEN 0 ELSE CHOOSE i \in I : \A j \in I : i <= j

Fields(e) == [name |-> e.name, dt |-> e.dt, isidx |-> e.isidx, virt |-> e.virt,
              idx |-> e.idx, lease |-> e.lease, calc |-> e.calc]
Ent(k, ch) == [key |-> k, name |-> ch.name, dt |-> ch.dt, isidx |-> ch.isidx, virt |-> ch.virt,
               idx |-> ch.idx, lease |-> ch.lease, calc |-> ch.calc]
Eng(e) == [name |-> e.name, dt |-> e.dt, isidx |-> e.isidx, virt |-> e.virt, idx |-> e.idx]
IndexEntry(c) == [key |-> NoKey, name |-> TimeName(c.name), dt |-> "timestamp", isidx |-> TRUE,
                  virt |-> TRUE, idx |-> NoKey, lease |-> 0, calc |-> FALSE]

\* stimulus entry -> channel.Channel as the caller builds it (Channel.Index() = NewKey(lease, LocalIndex))
Resolve(s) ==
  LET lease == IF s.kind \in {"free", "calc"} THEN 0 ELSE s.lease
      refk == IF s.ref = "none" THEN NoKey
              ELSE IF keyOf[s.ref] = NoKey THEN K(lease, BadCtr) ELSE K(lease, keyOf[s.ref].c)
  IN [key |-> NoKey, name |-> s.name, lease |-> lease,
      dt |-> CASE s.kind = "index" -> "timestamp" [] s.kind = "variable" -> "string" [] OTHER -> "float64",
      isidx |-> s.kind \in {"index", "badtype"},
      virt |-> s.kind \in {"virtual", "free", "calc"},
      calc |-> s.kind = "calc",
      idx |-> IF s.kind \in {"fixed", "variable"} THEN refk ELSE NoKey]

EmptyTx == [put |-> EmptyF, del |-> {}, oput |-> {}, odel |-> {}]
OffFrame == [at |-> 0, pc |-> "off", tx |-> EmptyTx, list |-> <<>>, fl |-> <<>>, ll |-> <<>>,
             tc |-> <<>>, ov |-> <<>>, dirty |-> FALSE]
Frame(n, pc, list) == [OffFrame EXCEPT !.at = n, !.pc = pc, !.list = list]
Idle == [type |-> "idle", g |-> 0, opt |-> "plain", gw |-> OffFrame, rm |-> OffFrame,
         peers |-> {}, fdone |-> FALSE, ret |-> <<>>, m0 |-> {}, stim |-> <<>>, rest |-> <<>>,
         np |-> 0,        \* number of peer groups of the request
         amb |-> FALSE]   \* ghost: the outcome depends on an order the code does not fix
                          \* (Go map iteration over the peers of a failing request, retrieval
                          \* order of channels sharing a name); such behaviours are not replayed
NoStim == [type |-> "none", g |-> 0, opt |-> "plain", ents |-> <<>>, cut |-> 0, st |-> "none", kind |-> ""]
NoLast == [res |-> "none", why |-> "", ret |-> <<>>, n |-> 0, amb |-> FALSE]

Init == /\ ctr = [l \in Lease |-> 0]
        /\ meta = EmptyF /\ engine = [n \in Node |-> EmptyF] /\ onto = {}
        /\ everUsed = {} /\ fresh = TRUE /\ gone = {}
        /\ keyOf = [x \in NameU \cup CtlNames |-> IF x \in CtlNames THEN CtlKey(x) ELSE NoKey] /\ ixn = EmptyF
        /\ stim = NoStim /\ rq = Idle /\ last = NoLast /\ nreq = 0 /\ nrestart = 0

--------------------------------------------------------------------------------
\* request construction (the caller), in stages so that random walks are balanced:
\* type -> gateway/option -> per entry: kind -> name/lease/index reference -> more?
LeaseChoices(kd) == IF kd \in {"free", "calc"} THEN {0} ELSE Node
NameChoices(kd) == IF kd = "calc" THEN BaseName ELSE BaseName \cup ExtraName
\* index references: none, every name the caller holds a key for, one name it does not
Unmapped == {b \in BaseName : keyOf[b] = NoKey}
RefChoices(kd) == IF kd \notin {"fixed", "variable"} THEN {"none"}
                  ELSE {"none"} \cup (BaseName \ Unmapped)
                       \cup (IF Unmapped = {} THEN {} ELSE {CHOOSE b \in Unmapped : TRUE})
StimUnch == UNCHANGED <<ctr, meta, engine, onto, everUsed, fresh, gone, ixn, keyOf, rq, last, nreq, nrestart>>
PickType(t) == /\ rq.type = "idle" /\ stim.st = "none" /\ nreq < MaxReq
               /\ stim' = [NoStim EXCEPT !.type = t, !.st = "gate"] /\ StimUnch
PickGate(g, o) == /\ stim.st = "gate" /\ (stim.type = "create" \/ o = "plain")
                  /\ stim' = [stim EXCEPT !.g = g, !.opt = o, !.st = IF stim.type = "create" THEN "kind" ELSE "rest"]
                  /\ StimUnch
PickKind(kd) == /\ stim.st = "kind" /\ stim' = [stim EXCEPT !.kind = kd, !.st = "rest"] /\ StimUnch
NewTarget(nm) == /\ keyOf[nm] # NoKey
                 /\ \A i \in 1..Len(stim.ents) : keyOf[stim.ents[i].name] # keyOf[nm]
AddEntry(e) == stim' = [stim EXCEPT !.ents = Append(@, e), !.st = "more"] /\ StimUnch
PickRest ==
  /\ stim.st = "rest"
  /\ CASE stim.type = "create" ->
             \E nm \in NameChoices(stim.kind), ls \in LeaseChoices(stim.kind), rf \in RefChoices(stim.kind) :
                AddEntry([name |-> nm, kind |-> stim.kind, lease |-> ls, ref |-> rf])
       [] stim.type = "delete" -> \E nm \in NameU : NewTarget(nm) /\ AddEntry([name |-> nm])
       [] stim.type = "rename" -> \E nm \in NameU \cup (IF CtlRename THEN CtlNames ELSE {}), nw \in BaseName \cup ExtraName :
                                     NewTarget(nm) /\ AddEntry([name |-> nm, new |-> nw])
AddAnother == /\ stim.st = "more" /\ Len(stim.ents) - stim.cut < MaxBatch
              /\ stim' = [stim EXCEPT !.st = IF stim.type = "create" THEN "kind" ELSE "rest"] /\ StimUnch
\* close the first CreateMany of the transaction and start a second one
NextBatch == /\ Chain /\ stim.st = "more" /\ stim.type = "create" /\ stim.cut = 0 /\ stim.opt = "plain"
             /\ stim' = [stim EXCEPT !.cut = Len(stim.ents), !.st = "kind"] /\ StimUnch
FirstPc(t) == CASE t = "create" -> IF Dev_CalcIndexUnchecked THEN "v" ELSE "x"
                [] t = "delete" -> "dr" [] t = "rename" -> "nv"
FirstLen == IF stim.cut = 0 THEN Len(stim.ents) ELSE stim.cut
StartList(t) == CASE t = "create" -> [i \in 1..FirstLen |-> Resolve(stim.ents[i])]
                  [] t = "delete" -> [i \in 1..Len(stim.ents) |-> [key |-> keyOf[stim.ents[i].name], name |-> ""]]
                  [] t = "rename" -> [i \in 1..Len(stim.ents) |-> [key |-> keyOf[stim.ents[i].name], name |-> stim.ents[i].new]]
Submit == /\ stim.st = "more"
          /\ rq' = [Idle EXCEPT !.type = stim.type, !.g = stim.g, !.opt = stim.opt, !.stim = stim,
                                !.gw = Frame(stim.g, FirstPc(stim.type), StartList(stim.type)),
                                !.peers = IF stim.type = "create" THEN {}
                                          ELSE {StartList(stim.type)[i].key.l : i \in 1..Len(stim.ents)} \ {0, stim.g},
                                !.np = IF stim.type = "create" THEN 0
                                       ELSE Cardinality({StartList(stim.type)[i].key.l : i \in 1..Len(stim.ents)} \ {0, stim.g}),
                                !.rest = IF stim.cut = 0 THEN <<>> ELSE SubSeq(stim.ents, stim.cut + 1, Len(stim.ents)),
                                !.m0 = DOMAIN meta]
          /\ stim' = NoStim
          /\ UNCHANGED <<ctr, meta, engine, onto, everUsed, fresh, gone, ixn, keyOf, last, nreq, nrestart>>

--------------------------------------------------------------------------------
\* frames
RmOn == rq.rm.pc # "off"
A == IF RmOn THEN rq.rm ELSE rq.gw
SetA(f) == IF RmOn THEN [rq EXCEPT !.rm = f] ELSE [rq EXCEPT !.gw = f]
Busy == rq.type # "idle"
View(T) == T.put @@ Restr(meta, DOMAIN meta \ T.del)
\* lookup by name on node `at` (channel.MatchNames -> name index)
Hit(at, V, k, x) == V[k].name = x /\ ((at = Boot /\ k \in DOMAIN ixn) => ixn[k] = x)
\* validateChannelNames keeps ONE existing channel per name (`nameConflicts[ch.Name] = i`,
\* the last one retrieved) and compares its key with the request's key for that name
LastKey(S) == CHOOSE k \in S : \A j \in S : ~KeyLT(k, j)
Conflict(at, V, x, key) == LET S == {k \in DOMAIN V : Hit(at, V, k, x)}
                           IN S # {} /\ LastKey(S) # key
Unsure(at, V, x, key) == LET S == {k \in DOMAIN V : Hit(at, V, k, x)}
                         IN key \in S /\ Cardinality(S) >= 2
\* delete inside a transaction (also forgets rows the same transaction created)
TxDel(T, S) == [T EXCEPT !.del = @ \cup S, !.put = Without(@, S)]
ApplyTx(m, T) == T.put @@ Restr(m, DOMAIN m \ T.del)
Dirty == rq.gw.dirty \/ rq.rm.dirty
CanFail(d) == Window_EngineBeforeMeta \/ ~d
\* the request ends in failure: every open transaction is abandoned
Abort(why) == /\ last' = [res |-> "fail", why |-> why, ret |-> <<>>, n |-> 0, amb |-> rq.amb \/ rq.np >= 2]
              /\ rq' = Idle /\ nreq' = nreq + 1
Goto(pc) == rq' = SetA([A EXCEPT !.pc = pc])

\* ---- engine (cesium) --------------------------------------------------------
ValidNew(e, E) ==
  /\ e.key \notin DOMAIN E
  /\ e.virt => e.idx = NoKey
  /\ (~e.virt /\ e.isidx) => e.dt = "timestamp"
  /\ (~e.virt /\ ~e.isidx) => /\ e.idx # NoKey /\ e.idx \in DOMAIN E
                              /\ E[e.idx].isidx /\ ~E[e.idx].virt
\* cesium.CreateChannel(ch...): entries in order; returns [ok, e]
RECURSIVE EngCreate(_, _, _)
EngCreate(E0, E, tc) ==
  IF tc = <<>> THEN [ok |-> TRUE, e |-> E]
  ELSE IF ValidNew(Head(tc), E)
       THEN EngCreate(E0, (Head(tc).key :> Eng(Head(tc))) @@ E, Tail(tc))
       ELSE [ok |-> FALSE, e |-> IF Dev_EngineCreateNoCleanup THEN E ELSE E0]
\* cesium.DeleteChannels(keys)
EngDelete(E, ks) ==
  LET In(k) == k \in DOMAIN E
      data == {k \in Rng(ks) : In(k) /\ ~E[k].virt /\ ~E[k].isidx}
      virts == {k \in Rng(ks) : In(k) /\ E[k].virt}
      idxs == SelectSeq(ks, LAMBDA k : In(k) /\ ~E[k].virt /\ E[k].isidx)
      E1 == Without(E, data \cup (IF Dev_DeleteSkipsVirtual THEN {} ELSE virts))
      Blocked(k) == \E d \in DOMAIN E1 : d # k /\ ~E1[d].virt /\ E1[d].idx = k
      p == FirstIdx(idxs, Blocked)
  IN IF p = 0 THEN [ok |-> TRUE, e |-> Without(E1, Rng(idxs))]
     ELSE [ok |-> FALSE,
           e |-> IF Dev_EngineDeletePartial THEN Without(E1, {idxs[i] : i \in 1..(p - 1)}) ELSE E]
\* cesium.RenameChannels(keys, names)
RECURSIVE EngRename(_, _)
EngRename(E, l) ==
  IF l = <<>> THEN [ok |-> TRUE, e |-> E]
  ELSE IF Head(l).key \notin DOMAIN E THEN [ok |-> FALSE, e |-> E]
       ELSE EngRename([E EXCEPT ![Head(l).key].name = Head(l).name], Tail(l))

\* ---- create -----------------------------------------------------------------
AfterV == IF Dev_CalcIndexUnchecked THEN "x" ELSE "s"
AfterX == IF Dev_CalcIndexUnchecked THEN "s" ELSE "v"
CValidate ==
  /\ Busy /\ A.pc = "v"
  /\ LET L == A.list  V == View(A.tx)
         dup == \E i, j \in 1..Len(L) : i < j /\ L[i].name = L[j].name
         conflict == rq.opt = "plain" /\ \E i \in 1..Len(L) : Conflict(A.at, V, L[i].name, L[i].key)
     IN IF dup \/ conflict
        THEN CanFail(Dirty) /\ Abort("name") /\ UNCHANGED <<ctr, meta, engine, onto, everUsed, fresh, gone, ixn, keyOf, stim, nrestart>>
        ELSE Goto(AfterV) /\ UNCHANGED <<ctr, meta, engine, onto, everUsed, fresh, gone, ixn, keyOf, stim, last, nreq, nrestart>>
CExpand ==
  /\ Busy /\ A.pc = "x"
  /\ LET L == A.list
         \* as written the handler that serves a peer's request appends again
         need(c) == c.calc /\ c.key = NoKey /\ (Dev_CalcIndexTwice \/ ~RmOn)
         cs == SelectSeq(L, need)
         add == [i \in 1..Len(cs) |-> IndexEntry(cs[i])]
     IN rq' = SetA([A EXCEPT !.pc = AfterX, !.list = L \o add])
  /\ UNCHANGED <<ctr, meta, engine, onto, everUsed, fresh, gone, ixn, keyOf, stim, last, nreq, nrestart>>
CSplit ==
  /\ Busy /\ A.pc = "s"
  /\ LET L == A.list
         f == [A EXCEPT !.fl = SelectSeq(L, LAMBDA e : e.lease = 0),
                        !.ll = SelectSeq(L, LAMBDA e : e.lease = A.at),
                        !.pc = IF RmOn THEN "f1" ELSE "r"]
     IN rq' = IF RmOn THEN [rq EXCEPT !.rm = f]
              ELSE [rq EXCEPT !.gw = f, !.peers = {L[i].lease : i \in 1..Len(L)} \ {0, rq.g},
                              !.np = Cardinality({L[i].lease : i \in 1..Len(L)} \ {0, rq.g})]
  /\ UNCHANGED <<ctr, meta, engine, onto, everUsed, fresh, gone, ixn, keyOf, stim, last, nreq, nrestart>>
PickPeer(n) == n \in rq.peers /\ (AnyPeerOrder \/ \A m \in rq.peers : n <= m)
CRoute ==
  /\ Busy /\ ~RmOn /\ rq.gw.pc = "r"
  /\ IF rq.peers # {}
     THEN \E n \in rq.peers : /\ PickPeer(n)
            /\ rq' = [rq EXCEPT !.peers = @ \ {n},
                        !.rm = Frame(n, FirstPc("create"), SelectSeq(rq.gw.list, LAMBDA e : e.lease = n))]
     ELSE IF rq.gw.fl # <<>> /\ rq.g # Boot /\ ~rq.fdone
          THEN rq' = [rq EXCEPT !.fdone = TRUE, !.gw.fl = <<>>,
                                !.rm = Frame(Boot, FirstPc("create"), rq.gw.fl)]
          ELSE rq' = [rq EXCEPT !.gw.pc = "f1"]
  /\ UNCHANGED <<ctr, meta, engine, onto, everUsed, fresh, gone, ixn, keyOf, stim, last, nreq, nrestart>>

Same(e, ch) == e.dt = ch.dt /\ e.isidx = ch.isidx /\ e.virt = ch.virt /\ e.calc = ch.calc
\* deleteOverwritten: fold over the existing channels whose name is requested
RECURSIVE OvFold(_, _, _, _)
OvFold(V, L, del, ex) ==
  IF ex = <<>> THEN [l |-> L, del |-> del]
  ELSE LET k == Head(ex)
           i == FirstIdx(L, LAMBDA e : e.name = V[k].name /\ e.key # k)
       IN IF i = 0 THEN OvFold(V, L, del, Tail(ex))
          ELSE IF Same(L[i], V[k]) THEN OvFold(V, [L EXCEPT ![i] = Ent(k, V[k])], del, Tail(ex))
          ELSE OvFold(V, L, Append(del, k), Tail(ex))
DupNames(V, S) == \E k1, k2 \in S : k1 # k2 /\ V[k1].name = V[k2].name
Overwrite(L, T) ==
  LET V == View(T)
      ex == SortKeys({k \in DOMAIN V : \E i \in 1..Len(L) : Hit(A.at, V, k, L[i].name)})
      dupL == \E i, j \in 1..Len(L) : i < j /\ L[i].name = L[j].name   \* (doubled auto index)
  IN OvFold(V, L, <<>>, ex) @@ [amb |-> DupNames(V, Rng(ex)) \/ dupL]
\* engine side of deleteOverwritten run on node `at` for the overwritten keys `del`.
\* As written: the local engine only, whatever the keys' leaseholders. Otherwise: keys of
\* another leaseholder go through deleteRemote (that node's handler commits metadata,
\* ontology and engine at once), local keys are removed from the local engine.
OvEngine(at, del) ==
  LET tgt(n) == IF Dev_OverwriteLocalEngine THEN (IF n = at THEN del ELSE <<>>)
                ELSE SelectSeq(del, LAMBDA k : k.l = n)
      r == [n \in Node |-> EngDelete(engine[n], tgt(n))]
      away == IF Dev_OverwriteLocalEngine THEN {} ELSE {k \in Rng(del) : k.l \notin {0, at}}
  IN [ok |-> \A n \in Node : r[n].ok, eng |-> [n \in Node |-> r[n].e], away |-> away]
OvEngineStep(f, next, amb) ==
  LET r == OvEngine(f.at, f.ov)
      changed == r.eng # engine
  IN /\ engine' = r.eng
     /\ IF r.ok THEN /\ meta' = Without(meta, r.away) /\ onto' = onto \ r.away
                     /\ rq' = [SetA([f EXCEPT !.pc = next, !.dirty = @ \/ changed, !.ov = <<>>])
                                  EXCEPT !.amb = @ \/ amb]
                     /\ UNCHANGED <<last, nreq>>
        ELSE /\ CanFail(Dirty \/ changed) /\ Abort("engine-delete") /\ UNCHANGED <<meta, onto>>
\* common body of steps f1 / l1 on the sub-list `which` ("fl" | "ll")
COverwrite(pc, which, next, skip) ==
  /\ Busy /\ A.pc = pc
  /\ LET L == IF which = "fl" THEN A.fl ELSE A.ll IN
     IF L = <<>> THEN Goto(skip) /\ UNCHANGED <<ctr, meta, engine, onto, everUsed, fresh, gone, ixn, keyOf, stim, last, nreq, nrestart>>
     ELSE IF rq.opt # "overwrite" THEN Goto(next) /\ UNCHANGED <<ctr, meta, engine, onto, everUsed, fresh, gone, ixn, keyOf, stim, last, nreq, nrestart>>
     ELSE LET o == Overwrite(L, A.tx)
              f == [A EXCEPT !.ov = o.del,
                             !.tx = [TxDel(@, Rng(o.del)) EXCEPT
                                       !.odel = @ \cup (IF Dev_OverwriteLocalEngine THEN {} ELSE Rng(o.del))],
                             !.fl = IF which = "fl" THEN o.l ELSE @,
                             !.ll = IF which = "ll" THEN o.l ELSE @]
          IN /\ OvEngineStep(f, next, o.amb)     \* the engine side runs right away
             /\ UNCHANGED <<ctr, everUsed, fresh, gone, ixn, keyOf, stim, nrestart>>
CFreeOverwrite == COverwrite("f1", "fl", "f2", "l1")
CLocalOverwrite == COverwrite("l1", "ll", "l2", "o")
\* retrieveExistingAndAssignKeys
RECURSIVE RetFold(_, _, _, _, _)
RetFold(V, names, L, dec, ex) ==
  IF ex = <<>> THEN [l |-> L, dec |-> dec]
  ELSE LET k == Head(ex)
           i == FirstIdx(names, LAMBDA nm : nm = V[k].name)
       IN IF i = 0 THEN RetFold(V, names, L, dec, Tail(ex))
          ELSE RetFold(V, names, [L EXCEPT ![i] = Ent(k, V[k])], dec + 1, Tail(ex))
Assign(L0, lc, T) ==
  LET V == View(T)
      names == [i \in 1..Len(L0) |-> L0[i].name]
      rf == IF rq.opt = "retrieve"
            THEN RetFold(V, names, L0, 0, SortKeys({k \in DOMAIN V : \E x \in Rng(names) : Hit(A.at, V, k, x)}))
                 @@ [amb |-> \/ DupNames(V, {k \in DOMAIN V : \E x \in Rng(names) : Hit(A.at, V, k, x)})
                             \/ \E i, j \in 1..Len(names) : i < j /\ names[i] = names[j]]
            ELSE [l |-> L0, dec |-> 0, amb |-> FALSE]
      L == rf.l
      inc == IF Len(L) >= rf.dec THEN Len(L) - rf.dec ELSE 0
      base == ctr[lc]
      rank(i) == Cardinality({j \in 1..i : L[j].key = NoKey})
      keyed == [i \in 1..Len(L) |->
                  IF L[i].key # NoKey THEN (IF L[i].isidx THEN [L[i] EXCEPT !.idx = L[i].key] ELSE L[i])
                  ELSE LET k == K(lc, base + rank(i))
                       IN [L[i] EXCEPT !.key = k, !.idx = IF L[i].isidx THEN k ELSE @]]
      newpos == {i \in 1..Len(L) : L[i].key = NoKey}
  IN [l |-> keyed, new |-> newpos, ctr |-> base + inc, keys |-> {keyed[i].key : i \in newpos}, amb |-> rf.amb]
\* calc -> index linking inside createAndUpdateFreeVirtual (new channels only)
Link(L, newpos) ==
  [i \in 1..Len(L) |->
     IF i \in newpos /\ L[i].calc /\ L[i].idx = NoKey
     THEN LET J == {j \in newpos : L[j].name = TimeName(L[i].name) /\ L[j].isidx}
          IN IF J = {} THEN L[i] ELSE [L[i] EXCEPT !.idx = L[CHOOSE j \in J : \A j2 \in J : j <= j2].key]
     ELSE L[i]]
CAssign(pc, which, next) ==
  /\ Busy /\ A.pc = pc
  /\ LET lc == IF which = "fl" THEN 0 ELSE A.at
         a == Assign(IF which = "fl" THEN A.fl ELSE A.ll, lc, A.tx)
         L == IF which = "fl" THEN Link(a.l, a.new) ELSE a.l
         tc == [i \in 1..Cardinality(a.new) |->
                  L[CHOOSE p \in a.new : Cardinality({q \in a.new : q <= p}) = i]]
     IN /\ ctr' = [ctr EXCEPT ![lc] = a.ctr]
        /\ everUsed' = everUsed \cup a.keys
        /\ fresh' = (fresh /\ a.keys \cap everUsed = {})
        /\ rq' = [SetA([A EXCEPT !.pc = next, !.tc = tc,
                                 !.fl = IF which = "fl" THEN L ELSE @,
                                 !.ll = IF which = "ll" THEN L ELSE @]) EXCEPT !.amb = @ \/ a.amb]
  /\ UNCHANGED <<meta, engine, onto, gone, ixn, keyOf, stim, last, nreq, nrestart>>
CFreeAssign == CAssign("f2", "fl", "f3")
CLocalAssign == CAssign("l2", "ll", "l3")
CEngineCreate ==
  /\ Busy /\ A.pc = "l3"
  /\ LET r == EngCreate(engine[A.at], engine[A.at], A.tc)
         changed == r.e # engine[A.at]
     IN /\ engine' = [engine EXCEPT ![A.at] = r.e]
        /\ IF r.ok THEN rq' = SetA([A EXCEPT !.pc = "l4", !.dirty = @ \/ changed]) /\ UNCHANGED <<last, nreq>>
           ELSE CanFail(Dirty \/ changed) /\ Abort("engine-create")
  /\ UNCHANGED <<ctr, meta, onto, everUsed, fresh, gone, ixn, keyOf, stim, nrestart>>
CMetaCreate(pc, next) ==
  /\ Busy /\ A.pc = pc
  /\ LET tc == A.tc
         put == [k \in {tc[i].key : i \in 1..Len(tc)} |->
                   Fields(tc[CHOOSE i \in 1..Len(tc) : tc[i].key = k /\ \A j \in 1..Len(tc) : tc[j].key = k => j <= i])]
     IN rq' = SetA([A EXCEPT !.pc = next, !.tx.put = put @@ @])
  /\ UNCHANGED <<ctr, meta, engine, onto, everUsed, fresh, gone, ixn, keyOf, stim, last, nreq, nrestart>>
CFreeMeta == CMetaCreate("f3", "f4")
CLocalMeta == CMetaCreate("l4", "o")
KeysOf(l) == {l[i].key : i \in 1..Len(l)}
CFreeOnto ==
  /\ Busy /\ A.pc = "f4"
  /\ rq' = SetA([A EXCEPT !.pc = "l1", !.tx.oput = @ \cup KeysOf(A.tc)])
  /\ UNCHANGED <<ctr, meta, engine, onto, everUsed, fresh, gone, ixn, keyOf, stim, last, nreq, nrestart>>
COnto ==
  /\ Busy /\ A.pc = "o"
  /\ rq' = SetA([A EXCEPT !.pc = "c",
                          !.tx.oput = @ \cup KeysOf(A.fl) \cup KeysOf(A.ll) \cup (IF RmOn THEN {} ELSE KeysOf(rq.ret))])
  /\ UNCHANGED <<ctr, meta, engine, onto, everUsed, fresh, gone, ixn, keyOf, stim, last, nreq, nrestart>>

\* ---- delete -----------------------------------------------------------------
Mine(f) == SelectSeq(f.list, LAMBDA e : e.key.l = f.at)
Free(f) == SelectSeq(f.list, LAMBDA e : e.key.l = 0)
\* (renames of free channels: as written in the gateway's own transaction; otherwise sent
\*  to the bootstrapper like free creates)
DRoute ==
  /\ Busy /\ ~RmOn /\ rq.gw.pc \in {"dr", "nr"}
  /\ IF rq.peers # {}
     THEN \E n \in rq.peers : /\ PickPeer(n)
            /\ rq' = [rq EXCEPT !.peers = @ \ {n},
                        !.rm = Frame(n, IF rq.type = "delete" THEN "dm" ELSE "nv",
                                     SelectSeq(rq.gw.list, LAMBDA e : e.key.l = n))]
     ELSE IF /\ rq.type = "rename" /\ ~Dev_FreeRenameStaleIndex /\ rq.g # Boot /\ ~rq.fdone
             /\ Free(rq.gw) # <<>>
          THEN rq' = [rq EXCEPT !.fdone = TRUE, !.rm = Frame(Boot, "nv", Free(rq.gw))]
          ELSE rq' = [rq EXCEPT !.gw.pc = IF rq.type = "delete" THEN "df" ELSE "nf"]
  /\ UNCHANGED <<ctr, meta, engine, onto, everUsed, fresh, gone, ixn, keyOf, stim, last, nreq, nrestart>>
DFree == /\ Busy /\ A.pc = "df"
         /\ rq' = SetA([A EXCEPT !.pc = "dm", !.tx = TxDel(@, KeysOf(Free(A)))])
         /\ UNCHANGED <<ctr, meta, engine, onto, everUsed, fresh, gone, ixn, keyOf, stim, last, nreq, nrestart>>
DMeta == /\ Busy /\ A.pc = "dm"
         /\ rq' = SetA([A EXCEPT !.pc = "do", !.tx = TxDel(@, KeysOf(Mine(A)))])
         /\ UNCHANGED <<ctr, meta, engine, onto, everUsed, fresh, gone, ixn, keyOf, stim, last, nreq, nrestart>>
DOnto == /\ Busy /\ A.pc \in {"do", "dO"}
         /\ rq' = SetA([A EXCEPT !.pc = IF A.pc = "do" THEN "de" ELSE "c",
                                 !.tx.odel = @ \cup (IF A.pc = "do" THEN KeysOf(Mine(A)) ELSE KeysOf(A.list))])
         /\ UNCHANGED <<ctr, meta, engine, onto, everUsed, fresh, gone, ixn, keyOf, stim, last, nreq, nrestart>>
DEngine ==
  /\ Busy /\ A.pc = "de"
  /\ LET m == Mine(A)
         r == EngDelete(engine[A.at], [i \in 1..Len(m) |-> m[i].key])
         changed == r.e # engine[A.at]
     IN /\ engine' = [engine EXCEPT ![A.at] = r.e]
        /\ IF r.ok THEN rq' = SetA([A EXCEPT !.pc = "dO", !.dirty = @ \/ changed]) /\ UNCHANGED <<last, nreq>>
           ELSE CanFail(Dirty \/ changed) /\ Abort("engine-delete")
  /\ UNCHANGED <<ctr, meta, onto, everUsed, fresh, gone, ixn, keyOf, stim, nrestart>>

\* ---- rename -----------------------------------------------------------------
NValidate ==
  /\ Busy /\ A.pc = "nv"
  /\ LET L == A.list  V == View(A.tx)
         dup == \E i, j \in 1..Len(L) : i < j /\ L[i].name = L[j].name
         conflict == \E i \in 1..Len(L) : Conflict(A.at, V, L[i].name, L[i].key)
         unsure == \E i \in 1..Len(L) : Unsure(A.at, V, L[i].name, L[i].key)
     IN IF dup \/ conflict
        THEN /\ CanFail(Dirty) /\ Abort("name")
             /\ UNCHANGED <<ctr, meta, engine, onto, everUsed, fresh, gone, ixn, keyOf, stim, nrestart>>
        ELSE /\ rq' = [SetA([A EXCEPT !.pc = IF RmOn THEN "nf" ELSE "nr"]) EXCEPT !.amb = @ \/ unsure]
             /\ UNCHANGED <<ctr, meta, engine, onto, everUsed, fresh, gone, ixn, keyOf, stim, last, nreq, nrestart>>
\* table.NewUpdate().Where(MatchKeys(keys...)): all keys must exist
NUpdate(pc, sel(_), next) ==
  /\ Busy /\ A.pc = pc
  /\ LET l == sel(A)  V == View(A.tx) IN
     IF l = <<>> THEN Goto(IF pc = "nf" THEN next ELSE "c") /\ UNCHANGED <<last, nreq>>
     ELSE IF \E i \in 1..Len(l) : l[i].key \notin DOMAIN V
     THEN CanFail(Dirty) /\ Abort("not-found")
     ELSE rq' = SetA([A EXCEPT !.pc = next,
                        !.tx.put = [k \in KeysOf(l) |->
                                      [V[k] EXCEPT !.name = l[CHOOSE i \in 1..Len(l) : l[i].key = k].name]] @@ @])
          /\ UNCHANGED <<last, nreq>>
  /\ UNCHANGED <<ctr, meta, engine, onto, everUsed, fresh, gone, ixn, keyOf, stim, nrestart>>
FreeHere(f) == IF ~RmOn /\ rq.fdone THEN <<>> ELSE Free(f)
NFree == NUpdate("nf", FreeHere, "nm")
NMeta == NUpdate("nm", Mine, "ne")
NEngine ==
  /\ Busy /\ A.pc = "ne"
  /\ LET r == EngRename(engine[A.at], Mine(A))
         changed == r.e # engine[A.at]
     IN /\ engine' = [engine EXCEPT ![A.at] = r.e]
        /\ IF r.ok THEN rq' = SetA([A EXCEPT !.pc = "c", !.dirty = @ \/ changed]) /\ UNCHANGED <<last, nreq>>
           ELSE CanFail(Dirty \/ changed) /\ Abort("engine-rename")
  /\ UNCHANGED <<ctr, meta, onto, everUsed, fresh, gone, ixn, keyOf, stim, nrestart>>

\* ---- commit -----------------------------------------------------------------
RetOf(f) == IF rq.type = "create" THEN [i \in 1..Len(f.fl \o f.ll) |->
                 [name |-> (f.fl \o f.ll)[i].name, key |-> (f.fl \o f.ll)[i].key]] ELSE <<>>
RECURSIVE Learn(_, _)
Learn(ko, ret) == IF ret = <<>> THEN ko ELSE Learn([ko EXCEPT ![Head(ret).name] = Head(ret).key], Tail(ret))
\* second CreateMany inside the same caller transaction: nothing is committed yet
Continue ==
  /\ Busy /\ ~RmOn /\ rq.gw.pc = "c" /\ rq.rest # <<>>
  /\ rq' = [rq EXCEPT !.gw = [Frame(rq.g, FirstPc("create"), [i \in 1..Len(rq.rest) |-> Resolve(rq.rest[i])])
                                EXCEPT !.tx = rq.gw.tx, !.dirty = rq.gw.dirty],
                       !.ret = @ \o RetOf(rq.gw), !.rest = <<>>, !.fdone = FALSE, !.peers = {}]
  /\ UNCHANGED <<ctr, meta, engine, onto, everUsed, fresh, gone, ixn, keyOf, stim, last, nreq, nrestart>>
Commit ==
  /\ Busy /\ A.pc = "c" /\ (RmOn \/ rq.rest = <<>>)
  /\ meta' = ApplyTx(meta, A.tx)
  /\ onto' = (onto \ A.tx.odel) \cup A.tx.oput
  /\ IF RmOn
     THEN /\ rq' = [rq EXCEPT !.rm = OffFrame, !.ret = @ \o RetOf(rq.rm)]
          /\ UNCHANGED <<gone, ixn, keyOf, last, nreq>>
     ELSE LET ret == rq.ret \o RetOf(rq.gw) IN
          /\ rq' = Idle
          /\ last' = [res |-> "ok", why |-> "", ret |-> ret, n |-> 0, amb |-> rq.amb]
          /\ nreq' = nreq + 1
          /\ gone' = gone \cup (rq.m0 \ DOMAIN meta')
          /\ ixn' = LET fr == IF rq.type = "rename" THEN KeysOf(Free(rq.gw)) ELSE {}
                         live == Restr(ixn, DOMAIN ixn \cap DOMAIN meta')
                     IN IF rq.g = Boot \/ ~Dev_FreeRenameStaleIndex THEN Without(live, fr)
                        ELSE live @@ [k \in fr \cap DOMAIN meta |-> meta[k].name]
          /\ keyOf' = IF rq.type = "rename"
                      THEN Learn(keyOf, [i \in 1..Len(rq.gw.list) |-> rq.gw.list[i]])
                      ELSE Learn(keyOf, ret)
  /\ UNCHANGED <<ctr, engine, everUsed, fresh, stim, nrestart>>

FailHere == /\ InjectFail /\ Busy /\ CanFail(Dirty) /\ Abort("injected")
            /\ UNCHANGED <<ctr, meta, engine, onto, everUsed, fresh, gone, ixn, keyOf, stim, nrestart>>
Restart(n) == /\ ~Busy /\ stim.st = "none" /\ nrestart < MaxRestart /\ nreq < MaxReq
              /\ nrestart' = nrestart + 1 /\ nreq' = nreq + 1
              /\ last' = [res |-> "ok", why |-> "restart", ret |-> <<>>, n |-> n, amb |-> FALSE]
              /\ ixn' = IF n = Boot THEN EmptyF ELSE ixn   \* indexes are rebuilt from the table
              /\ UNCHANGED <<ctr, meta, engine, onto, everUsed, fresh, gone, keyOf, stim, rq>>

Step == \/ CValidate \/ CExpand \/ CSplit \/ CRoute \/ CFreeOverwrite \/ CFreeAssign \/ CFreeMeta
        \/ CFreeOnto \/ CLocalOverwrite \/ CLocalAssign \/ CEngineCreate \/ CLocalMeta \/ COnto
        \/ DRoute \/ DFree \/ DMeta \/ DOnto \/ DEngine
        \/ NValidate \/ NFree \/ NMeta \/ NEngine \/ Continue \/ Commit
Next == \/ \E t \in Types : PickType(t)
        \/ \E g \in Node, o \in Opts : PickGate(g, o)
        \/ \E kd \in Kinds : PickKind(kd)
        \/ PickRest \/ AddAnother \/ NextBatch
        \/ Submit \/ Step \/ FailHere
        \/ \E n \in Node : Restart(n)
Spec == Init /\ [][Next]_vars
Bound == \A l \in Lease : ctr[l] <= MaxCtr

--------------------------------------------------------------------------------
\* C15
Quiet == ~Busy
AllEngineKeys == UNION {DOMAIN engine[n] : n \in Node}
KeysUniqueNeverReused == /\ fresh
                         /\ DOMAIN meta \subseteq everUsed /\ AllEngineKeys \subseteq everUsed
                         /\ \A n, m \in Node : n # m => DOMAIN engine[n] \cap DOMAIN engine[m] = {}
KeyEmbedsLease == /\ \A k \in DOMAIN meta : k.l = meta[k].lease
                  /\ \A n \in Node : \A k \in DOMAIN engine[n] : k.l = n
NamesUnique == \A k1, k2 \in DOMAIN meta : k1 # k2 => meta[k1].name # meta[k2].name
StoresAgree == \A n \in Node :
                 /\ DOMAIN engine[n] = {k \in DOMAIN meta : k.l = n}
                 /\ \A k \in DOMAIN engine[n] : engine[n][k] = Eng(meta[k])
CrossStore == Quiet => StoresAgree                 \* after every completed request
\* the weaker reading of the statement: evaluated after successful requests only
CrossStoreAfterOk == (Quiet /\ last.res = "ok") => StoresAgree
DeletedIsGone == Quiet => gone \cap (DOMAIN meta \cup AllEngineKeys) = {}
OntoMatches == Quiet => onto = DOMAIN meta
TypeOK == /\ DOMAIN meta \subseteq [l : Lease, c : 1..(MaxCtr + MaxBatch + 2)]
          /\ \A n \in Node : DOMAIN engine[n] \subseteq [l : Lease, c : 1..(MaxCtr + MaxBatch + 2)]
          /\ rq.type \in {"idle", "create", "delete", "rename"}
=============================================================================
