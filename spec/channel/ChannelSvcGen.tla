-------------------------- MODULE ChannelSvcGen --------------------------
(* ChannelSvc + history variable. Every completed request (or restart) appends the
   stimulus, the outcome and the abstract post-state the specification computed.
   Emits each behaviour with Depth completed requests as JSON. The Cex* invariants
   print the history that leads to a violated clause (directed scripts).          *)
EXTENDS ChannelSvc, Json
CONSTANT Depth
VARIABLE hist
MetaSet == {[key |-> k] @@ meta[k] : k \in DOMAIN meta}
EngSet(n) == {[key |-> k] @@ engine[n][k] : k \in DOMAIN engine[n]}
Post == [amb |-> last'.amb, res |-> last'.res, why |-> last'.why, ret |-> last'.ret, n |-> last'.n,
         meta |-> MetaSet', eng |-> [n \in Node |-> EngSet(n)'], ctr |-> ctr']
Rec == IF last'.why = "restart"
       THEN [t |-> "restart", g |-> 0, opt |-> "plain", ents |-> <<>>, cut |-> 0] @@ Post
       ELSE [t |-> rq.type, g |-> rq.g, opt |-> rq.opt, ents |-> rq.stim.ents, cut |-> rq.stim.cut] @@ Post
GNext == /\ nreq < Depth
         /\ Next
         /\ hist' = IF nreq' # nreq THEN Append(hist, Rec) ELSE hist
GInit == Init /\ hist = <<>>
GSpec == GInit /\ [][GNext]_<<vars, hist>>
NoHist == vars   \* VIEW for counterexample searches: histories do not split states
\* behaviours whose outcome depends on an unspecified order are neither continued nor emitted
Sure == \A i \in 1..Len(hist) : ~hist[i].amb
GBound == Bound /\ Sure
Emit == ~(nreq = Depth /\ ~Busy /\ Sure) \/ PrintT(<<"HIST", ToJson(hist)>>)
Cex(name, ok) == ok \/ (PrintT(<<"CEX", name, ToJson(hist)>>) /\ FALSE)
CexCrossStore == Cex("CrossStore", CrossStoreAfterOk)
CexCrossStoreStrict == Cex("CrossStoreStrict", CrossStore)
CexNamesUnique == Cex("NamesUnique", Quiet => NamesUnique)
CexKeysUnique == Cex("KeysUnique", Quiet => KeysUniqueNeverReused)
CexDeletedIsGone == Cex("DeletedIsGone", DeletedIsGone)
=============================================================================
