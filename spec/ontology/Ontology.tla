------------------------------ MODULE Ontology ------------------------------
(* Resource relationship graph of core/pkg/distribution/ontology (C16).

   Code each action stands for (writer_dag.go unless noted; "view" = what the writer's
   gorp.Tx reads: the committed tables for the DB itself, committed tables overlaid
   with the transaction's own sets/deletes for a gorp tx = pebble indexed batch):
     Begin / Commit / Abort     gorp.DB.OpenTx / tx.Commit+Close / tx.Close
     DefineResource(w,r)        dagWriter.DefineResource        (gorp Create = blind set)
     DefineManyResources(w,S)   dagWriter.DefineManyResources
     DeleteResource(w,r)        dagWriter.DeleteResource  = deleteIncoming(suffix "->id")
                                + deleteOutgoing(prefix "id->") + delete of the row
     DeleteManyResources(w,S)   dagWriter.DeleteManyResources
     DefineRelationship         dagWriter.DefineRelationship: checkRelationshipExists
                                (reverse edge of the same type => cyclic; present => no-op)
                                -> validateResourcesExist (not found) -> retrieveDescendants(to)
                                over edges of ALL types; from in it => cyclic -> create
     DefineOneToMany            dagWriter.DefineFromOneToManyRelationships (validate from,
                                validate all to, descendants check per target, one create)
     DeleteRelationship         dagWriter.DeleteRelationship (delete by key if visible)
     DeleteOutOfType/InOfType   dagWriter.DeleteOutgoing/IncomingRelationshipsOfType
     Reopen                     Ontology.Close + ontology.Open on the same store (indexes
                                are rebuilt from the tables); no abstract state change
     Parents/Children/levels    retrieve.go Retrieve.Exec with ParentsTraverser (index
                                relationship_by_to + per-tx delta overlay) and
                                ChildrenTraverser (key prefix "id->parent->"); every hop
                                is filtered through the resource table

   Deviation of the code as written, named (DESIGN 2.5):
     Dev_SelfLoop  DefineRelationship(a,t,a) / one-to-many with from in the targets is
                   accepted by the code (descendants(a) never contains a in a DAG; the
                   reverse-edge test is the edge itself). SelfLoopRefused = TRUE is the
                   property ("never closes a cycle"), FALSE is the code as written; with
                   FALSE TLC reports Acyclic violated (as-is configuration).
   Not expressible here (identifier shapes are the harness's concretisation):
     retrieveOutgoingRelationships uses WherePrefix(id) without the "->" separator.

   Projection used by harness/core/pkg/distribution/ontology/zz_verif_ontology_test.go:
     res, edges     <- raw scan of the resource table (type builtin dropped) and of the
                       relationship table through the gorp DB
     View(t)        <- the same scans through the open gorp tx
     out            <- nil | errors.Is(graph.ErrCyclicDependency) | errors.Is(query.ErrNotFound)
     Level(V,r,d,dir) <- ids returned by NewRetrieve().WhereIDs(r).TraverseTo(trav)^d
   Resources are 1..N; the harness maps them to concrete ontology.IDs under several
   identifier concretisations and permutations. "p" is RelationshipTypeParentOf (the
   only type the traversers follow).

   Pinned beyond the property: which refusal class is returned (notfound vs cyclic);
   cycle detection spans all relationship types while traversals follow "p" only;
   DefineResource / DeleteResource / DeleteRelationship on present / absent items are
   silent no-ops; a transaction reads its own writes over the live committed tables
   (no snapshot); typed bulk deletes and Reopen.                                      *)
EXTENDS Naturals, FiniteSets, Sequences, TLC
CONSTANTS N,               \* resources are 1..N
          RelType,         \* set of strings, contains "p"
          InitRes,         \* resources 1..InitRes exist initially
          Txs,             \* set of transaction ids (strings)
          Interleave,      \* FALSE: one writer at a time (the property's quantifier)
          SelfLoopRefused, \* TRUE: property; FALSE: code as written (Dev_SelfLoop)
          NoOps,           \* allow steps that cannot change anything
          Extra,           \* typed bulk deletes, DefineManyResources, Reopen
          MaxSet           \* largest set argument of the *Many / one-to-many calls
Res == 1..N
Edge == Res \X RelType \X Res
VARIABLES res, edges,      \* committed tables
          tx,              \* [Txs -> [open, setR, delR, setE, delE]] write overlay
          out,             \* result class of the last call: "ok" | "notfound" | "cyclic"
          exact            \* ghost: last define outcome = what the property prescribes
vars == <<res, edges, tx, out, exact>>

NoTx == [open |-> FALSE, setR |-> {}, delR |-> {}, setE |-> {}, delE |-> {}]
OpenTxs == {t \in Txs : tx[t].open}
\* who may write now: the DB directly or an open transaction; without Interleave an
\* open transaction is the only writer
Writers == IF Interleave THEN {"db"} \cup OpenTxs
           ELSE IF OpenTxs = {} THEN {"db"} ELSE OpenTxs
ViewR(w) == IF w = "db" THEN res ELSE (res \ tx[w].delR) \cup tx[w].setR
ViewE(w) == IF w = "db" THEN edges ELSE (edges \ tx[w].delE) \cup tx[w].setE

\* ---- plain graph search (the reference the property talks about)
Succ(E, S) == {e[3] : e \in {x \in E : x[1] \in S}}
Pred(E, S) == {e[1] : e \in {x \in E : x[3] \in S}}
ReachSet(E, S) == LET F[i \in 0..N] == IF i = 0 THEN Succ(E, S)
                                        ELSE LET prev == F[i-1] IN prev \cup Succ(E, prev)
                 IN F[N]
Reach(E, r) == ReachSet(E, {r})
AcyclicE(E) == \A r \in Res : r \notin Reach(E, r)
ClosesCycle(E, f, t) == f = t \/ f \in Reach(E, t)

\* ---- the code's walks
\* retrieveDescendants: outgoing edges of every type; children fetched from the
\* resource table (a missing child makes the call fail with not-found)
DescCode(R, E, t) == Reach(E, t)
DescFails(R, E, t) == ~(Reach(E, t) \subseteq R)
\* traversal levels: d hops along "p" edges, every hop filtered by the resource table
PE(E) == {e \in E : e[2] = "p"}
RECURSIVE LevelCode(_, _, _, _, _)
LevelCode(R, E, S, d, fwd) ==
  IF d = 0 THEN S \cap R
  ELSE LET nxt == IF fwd THEN Succ(PE(E), S \cap R) ELSE Pred(PE(E), S \cap R)
       IN LevelCode(R, E, nxt, d - 1, fwd)
\* plain search over the surviving resources only
Surv(R, E) == {e \in PE(E) : e[1] \in R /\ e[3] \in R}
RECURSIVE LevelPlain(_, _, _, _, _)
LevelPlain(R, E, S, d, fwd) ==
  IF d = 0 THEN S
  ELSE LevelPlain(R, E, IF fwd THEN Succ(Surv(R, E), S) ELSE Pred(Surv(R, E), S), d - 1, fwd)

\* ---- writes
Apply(w, addR, remR, addE, remE) ==
  IF w = "db"
  THEN /\ res' = (res \ remR) \cup addR
       /\ edges' = (edges \ remE) \cup addE
       /\ UNCHANGED tx
  ELSE /\ tx' = [tx EXCEPT ![w].setR = (@ \ remR) \cup addR,
                           ![w].delR = (@ \ addR) \cup remR,
                           ![w].setE = (@ \ remE) \cup addE,
                           ![w].delE = (@ \ addE) \cup remE]
       /\ UNCHANGED <<res, edges>>
Done(a, w, cls) == out' = cls
Touching(E, S) == {e \in E : e[1] \in S \/ e[3] \in S}

Init == /\ res = 1..InitRes /\ edges = {}
        /\ tx = [t \in Txs |-> NoTx]
        /\ out = "ok" /\ exact = TRUE

Begin(t) == /\ ~tx[t].open
            /\ Interleave \/ OpenTxs = {}
            /\ tx' = [tx EXCEPT ![t] = [NoTx EXCEPT !.open = TRUE]]
            /\ Done("begin", t, "ok") /\ UNCHANGED <<res, edges, exact>>
\* pebble batch apply: the transaction's sets and deletes land on the live tables
Commit(t) == /\ tx[t].open
             /\ res' = (res \ tx[t].delR) \cup tx[t].setR
             /\ edges' = (edges \ tx[t].delE) \cup tx[t].setE
             /\ tx' = [tx EXCEPT ![t] = NoTx]
             /\ Done("commit", t, "ok") /\ UNCHANGED exact
Abort(t) == /\ tx[t].open
            /\ tx' = [tx EXCEPT ![t] = NoTx]
            /\ Done("abort", t, "ok") /\ UNCHANGED <<res, edges, exact>>

DefineResource(w, r) ==
  /\ NoOps \/ r \notin ViewR(w)
  /\ Apply(w, {r}, {}, {}, {})
  /\ Done("defres", w, "ok") /\ UNCHANGED exact
DefineManyResources(w, S) ==
  /\ Extra /\ S # {}
  /\ NoOps \/ ~(S \subseteq ViewR(w))
  /\ Apply(w, S, {}, {}, {})
  /\ Done("defresmany", w, "ok") /\ UNCHANGED exact
DeleteResource(w, r) ==
  /\ NoOps \/ r \in ViewR(w)
  /\ Apply(w, {}, {r} \cap ViewR(w), {}, Touching(ViewE(w), {r}))
  /\ Done("delres", w, "ok") /\ UNCHANGED exact
DeleteManyResources(w, S) ==
  /\ S # {}
  /\ NoOps \/ S \cap ViewR(w) # {}
  /\ Apply(w, {}, S \cap ViewR(w), {}, Touching(ViewE(w), S))
  /\ Done("delresmany", w, "ok") /\ UNCHANGED exact

\* what the property prescribes for a define of the edge set {<<f,ty,t>> : t \in S}
PropOK(R, E, f, ty, S) ==
  /\ f \in R /\ S \subseteq R
  /\ \A t \in S : <<f, ty, t>> \in E \/ ~ClosesCycle(E, f, t)
\* refusal classes the property justifies (a self-loop on a missing resource is both):
\* which of them the code returns is not a statement of C16
Refusals(R, E, f, ty, S) ==
  (IF f \notin R \/ ~(S \subseteq R) THEN {"notfound"} ELSE {}) \cup
  (IF \E t \in S : <<f, ty, t>> \notin E /\ ClosesCycle(E, f, t) THEN {"cyclic"} ELSE {})
DefineRelationship(w, f, ty, t) ==
  LET R == ViewR(w)  E == ViewE(w)
      cls == IF <<t, ty, f>> \in E /\ (f # t \/ ~SelfLoopRefused) THEN "cyclic"
             ELSE IF <<f, ty, t>> \in E THEN "ok"
             ELSE IF ~({f, t} \subseteq R) \/ DescFails(R, E, t) THEN "notfound"
             ELSE IF f \in DescCode(R, E, t) \/ (SelfLoopRefused /\ f = t) THEN "cyclic"
             ELSE "ok"
  IN /\ NoOps \/ <<f, ty, t>> \notin E
     /\ IF cls = "ok" THEN Apply(w, {}, {}, {<<f, ty, t>>}, {})
                      ELSE UNCHANGED <<res, edges, tx>>
     /\ Done("defrel", w, cls)
     /\ exact' = ((cls = "ok") <=> PropOK(R, E, f, ty, {t}))
DefineOneToMany(w, f, ty, S) ==
  LET R == ViewR(w)  E == ViewE(w)
      cls == IF f \notin R \/ ~(S \subseteq R) \/ (\E t \in S : DescFails(R, E, t)) THEN "notfound"
             ELSE IF (\E t \in S : f \in DescCode(R, E, t)) \/ (SelfLoopRefused /\ f \in S) THEN "cyclic"
             ELSE "ok"
  IN /\ S # {}
     /\ IF cls = "ok" THEN Apply(w, {}, {}, {<<f, ty, t>> : t \in S}, {})
                      ELSE UNCHANGED <<res, edges, tx>>
     /\ Done("defmany", w, cls)
     /\ exact' = ((cls = "ok") <=> PropOK(R, E, f, ty, S))
DeleteRelationship(w, f, ty, t) ==
  /\ NoOps \/ <<f, ty, t>> \in ViewE(w)
  /\ Apply(w, {}, {}, {}, {<<f, ty, t>>} \cap ViewE(w))
  /\ Done("delrel", w, "ok") /\ UNCHANGED exact
DeleteOutOfType(w, r, ty) ==
  /\ Extra
  /\ Apply(w, {}, {}, {}, {e \in ViewE(w) : e[1] = r /\ e[2] = ty})
  /\ Done("delout", w, "ok") /\ UNCHANGED exact
DeleteInOfType(w, r, ty) ==
  /\ Extra
  /\ Apply(w, {}, {}, {}, {e \in ViewE(w) : e[3] = r /\ e[2] = ty})
  /\ Done("delin", w, "ok") /\ UNCHANGED exact
Reopen == /\ Extra /\ OpenTxs = {}
          /\ Done("reopen", "db", "ok") /\ UNCHANGED <<res, edges, tx, exact>>

Sets == {S \in SUBSET Res : S # {} /\ Cardinality(S) <= MaxSet}
Next == \/ \E t \in Txs : Begin(t) \/ Commit(t) \/ Abort(t)
        \/ Reopen
        \/ \E w \in Writers :
             \/ \E r \in Res : DefineResource(w, r) \/ DeleteResource(w, r)
             \/ \E S \in Sets : DefineManyResources(w, S) \/ DeleteManyResources(w, S)
             \/ \E f \in Res, ty \in RelType, t \in Res :
                  DefineRelationship(w, f, ty, t) \/ DeleteRelationship(w, f, ty, t)
             \/ \E f \in Res, ty \in RelType, S \in Sets : DefineOneToMany(w, f, ty, S)
             \/ \E r \in Res, ty \in RelType : DeleteOutOfType(w, r, ty) \/ DeleteInOfType(w, r, ty)
Spec == Init /\ [][Next]_vars

\* ---------------------------------------------------------------- properties
AllViews == {"db"} \cup OpenTxs
TypeOK == /\ res \subseteq Res /\ edges \subseteq Edge
          /\ out \in {"ok", "notfound", "cyclic"}
          /\ \A t \in Txs : tx[t].setR \cap tx[t].delR = {} /\ tx[t].setE \cap tx[t].delE = {}
          /\ \A t \in Txs : ~tx[t].open => tx[t] = NoTx
\* C16: the graph (all relationship types together) is acyclic at all times, in the
\* committed tables and in what every open transaction sees
Acyclic == \A w \in AllViews : AcyclicE(ViewE(w))
\* C16: no relationship touches a missing resource
NoDangling == \A w \in AllViews : \A e \in ViewE(w) : e[1] \in ViewR(w) /\ e[3] \in ViewR(w)
\* C16: define succeeds exactly when both resources exist and no cycle is closed
DefineExact == exact
\* C16: parent / child / descendant traversals as the code walks them equal a plain
\* graph search over the surviving resources and contain no missing resource
TraversalsAgree ==
  \A w \in AllViews : \A r \in ViewR(w) : \A d \in 1..N : \A fwd \in BOOLEAN :
     /\ LevelCode(ViewR(w), ViewE(w), {r}, d, fwd) = LevelPlain(ViewR(w), ViewE(w), {r}, d, fwd)
     /\ LevelCode(ViewR(w), ViewE(w), {r}, d, fwd) \subseteq ViewR(w)
\* the cycle test the code performs (descendants over all types) is a total function:
\* it never hits a missing child
WalkNeverFails == \A w \in AllViews : \A r \in Res : ~DescFails(ViewR(w), ViewE(w), r)
\* C16: an aborted transaction leaves no trace, and nothing a transaction does is
\* visible in the committed tables before it commits: a closing transaction either lands
\* exactly its own writes or changes nothing, and while a sole transaction stays open
\* the committed tables do not move
ClosesClean(t) == (tx[t].open /\ ~tx'[t].open) =>
                    (\/ UNCHANGED <<res, edges>>
                     \/ /\ res' = (res \ tx[t].delR) \cup tx[t].setR
                        /\ edges' = (edges \ tx[t].delE) \cup tx[t].setE)
SoleTxInvisible == (~Interleave /\ OpenTxs # {} /\ OpenTxs' = OpenTxs) => UNCHANGED <<res, edges>>
AbortVanishes == [][(\A t \in Txs : ClosesClean(t)) /\ SoleTxInvisible]_vars
\* state projection for the non-interleaved configurations: with a single writer only
\* what a transaction sees matters, not how its overlay is split into sets and deletes
SeqView == <<res, edges, [t \in Txs |-> IF tx[t].open THEN <<ViewR(t), ViewE(t)>> ELSE <<>>], out, exact>>
=============================================================================
