---- MODULE OntologyGen ----
(* Ontology + history variable. Emits every behaviour of length Depth (BFS) or random
   behaviours (-simulate) as JSON: per step the call, its arguments, the result class
   the specification computed and the abstract post-state (committed tables and the view
   of the open transaction).

   Cover = TRUE (with VIEW GView) emits instead, for every transition of the reachable
   state graph, one history: a shortest path to the source state followed by the step.

   Burst = K > 0 emits transaction bursts instead: a committed start graph (one of Shapes,
   logged as a first record "init" that the harness builds with direct defines), Begin,
   1..K operations inside the transaction (define, one-to-many define, delete, resource
   delete ... on overlapping edges, no-op calls included), then Commit or Abort. The
   harness queries parents / children / multi-hop levels inside the open transaction and
   in the committed view after every step, i.e. also after the commit / abort.

   VIEW GViewFull keeps the whole write overlay and the ghost `ever` (what the open
   transaction has ever set / ever deleted) in the state, so that the transition cover
   distinguishes e.g. "deleted" from "rewritten, then deleted" and continues from both.

   Canon = TRUE enumerates histories up to renaming of resources: a step may mention a
   resource not mentioned before only if it is the smallest such one (all resources are
   interchangeable in Ontology.tla when InitRes = N). The harness re-introduces the
   renamings as permutations of concrete identifiers.                                  *)
EXTENDS Ontology, Json
CONSTANTS Depth, Canon,
          EmitOneIn, \* simulation: TLC evaluates invariants on every successor it generates,
                     \* not only the chosen one; print each full-length history with
                     \* probability 1/EmitOneIn (1 = always)
          Cover,  \* TRUE: emit the history of every transition of the state graph (use VIEW GView)
          Burst,  \* 0, or the largest number of operations inside the one transaction
          Shapes  \* Burst > 0: names of the committed start graphs
VARIABLES hist, k,     \* k: resources 1..k have been mentioned
          ever         \* ghost [Txs -> [s, d]]: edges the open transaction ever set / deleted
gvars == <<vars, hist, k, ever>>

Max(a, b) == IF a > b THEN a ELSE b
MaxOf(S) == IF S = {} THEN 0 ELSE CHOOSE x \in S : \A y \in S : y <= x
\* mentioning the sequence of resources <<a>> / <<a, b>> / <<a>> then the set S
C1(a) == ~Canon \/ a <= k + 1
C2(a, b) == ~Canon \/ (a <= k + 1 /\ b <= Max(k, a) + 1)
CS(k0, S) == ~Canon \/ LET new == {x \in S : x > k0} IN new = (k0 + 1)..(k0 + Cardinality(new))
C1S(a, S) == ~Canon \/ (a <= k + 1 /\ CS(Max(k, a), S))
SetSeq2(S) == IF S = {} THEN <<>> ELSE IF Cardinality(S) = 1 THEN <<CHOOSE x \in S : TRUE>>
              ELSE <<"cyclic", "notfound">>
OpenTx == IF OpenTxs = {} THEN "none" ELSE CHOOSE t \in OpenTxs : TRUE
SetSeq(S) == LET RECURSIVE F(_) F(T) == IF T = {} THEN <<>> ELSE
                   LET m == CHOOSE x \in T : \A y \in T : x <= y IN <<m>> \o F(T \ {m})
             IN F(S)
\* rc: every refusal class C16 justifies for a define step (evaluated in the pre-state)
Rc(a, w, x, ty, y, S) ==
  IF a = "defrel" THEN SetSeq2(Refusals(ViewR(w), ViewE(w), x, ty, {y}))
  ELSE IF a = "defmany" THEN SetSeq2(Refusals(ViewR(w), ViewE(w), x, ty, S))
  ELSE <<>>
RecS(a, w, x, ty, y, S) ==
  LET o == OpenTx' IN
  [a |-> a, w |-> w, x |-> x, ty |-> ty, y |-> y, s |-> SetSeq(S), cls |-> out', rc |-> Rc(a, w, x, ty, y, S),
   res |-> res', edges |-> edges', otx |-> o,
   vres |-> IF o = "none" THEN res' ELSE ((res' \ tx'[o].delR) \cup tx'[o].setR),
   vedges |-> IF o = "none" THEN edges' ELSE ((edges' \ tx'[o].delE) \cup tx'[o].setE)]
NoEver == [s |-> {}, d |-> {}]
Log(a, w, x, ty, y, S, kk) == /\ hist' = Append(hist, RecS(a, w, x, ty, y, S)) /\ k' = kk
                             /\ ever' = [t \in Txs |->
                                   IF ~tx'[t].open THEN NoEver
                                   ELSE LET old == IF tx[t].open THEN ever[t] ELSE NoEver
                                        IN [s |-> old.s \cup tx'[t].setE, d |-> old.d \cup tx'[t].delE]]
                             /\ (~Cover \/ PrintT(<<"HIST", ToJson(hist')>>))

\* burst phases: init record, Begin, 1..Burst operations, Commit | Abort, stop
BurstOK(kind) ==
  \/ Burst = 0
  \/ kind = "begin" /\ Len(hist) = 1
  \/ kind = "op" /\ OpenTxs # {} /\ Len(hist) - 2 < Burst
  \/ kind = "close" /\ Len(hist) >= 3
ShapeEdges(sh) ==
  CASE sh = "empty" -> {}
    [] sh = "edge" -> {<<1, "p", 2>>}
    [] sh = "chain" -> {<<1, "p", 2>>, <<2, "p", 3>>}
    [] sh = "fan" -> {<<1, "p", 2>>, <<1, "p", 3>>}
    [] sh = "vee" -> {<<1, "p", 3>>, <<2, "p", 3>>}
    [] sh = "tri" -> {<<1, "p", 2>>, <<2, "p", 3>>, <<1, "p", 3>>}
InitRec(E0) == [a |-> "init", w |-> "db", x |-> 0, ty |-> "", y |-> 0, s |-> <<>>, cls |-> "ok", rc |-> <<>>,
                res |-> 1..InitRes, edges |-> E0, otx |-> "none", vres |-> 1..InitRes, vedges |-> E0]
GNext ==
  /\ Len(hist) < Depth
  /\ \/ \E t \in Txs : \/ BurstOK("begin") /\ Begin(t) /\ Log("begin", t, 0, "", 0, {}, k)
                       \/ BurstOK("close") /\ Commit(t) /\ Log("commit", t, 0, "", 0, {}, k)
                       \/ BurstOK("close") /\ Abort(t) /\ Log("abort", t, 0, "", 0, {}, k)
     \/ Burst = 0 /\ Reopen /\ Log("reopen", "db", 0, "", 0, {}, k)
     \/ \E w \in Writers : BurstOK("op") /\
          \/ \E r \in Res : C1(r) /\
               \/ DefineResource(w, r) /\ Log("defres", w, r, "", 0, {}, Max(k, r))
               \/ DeleteResource(w, r) /\ Log("delres", w, r, "", 0, {}, Max(k, r))
          \/ \E S \in Sets : CS(k, S) /\
               \/ DefineManyResources(w, S) /\ Log("defresmany", w, 0, "", 0, S, Max(k, MaxOf(S)))
               \/ DeleteManyResources(w, S) /\ Log("delresmany", w, 0, "", 0, S, Max(k, MaxOf(S)))
          \/ \E f \in Res, ty \in RelType, t \in Res : C2(f, t) /\
               \/ DefineRelationship(w, f, ty, t) /\ Log("defrel", w, f, ty, t, {}, Max(k, Max(f, t)))
               \/ DeleteRelationship(w, f, ty, t) /\ Log("delrel", w, f, ty, t, {}, Max(k, Max(f, t)))
          \/ \E f \in Res, ty \in RelType, S \in Sets : C1S(f, S) /\
               DefineOneToMany(w, f, ty, S) /\ Log("defmany", w, f, ty, 0, S, Max(k, Max(f, MaxOf(S))))
          \/ \E r \in Res, ty \in RelType : C1(r) /\
               \/ DeleteOutOfType(w, r, ty) /\ Log("delout", w, r, ty, 0, {}, Max(k, r))
               \/ DeleteInOfType(w, r, ty) /\ Log("delin", w, r, ty, 0, {}, Max(k, r))
GInit == /\ k = 0 /\ ever = [t \in Txs |-> NoEver]
         /\ IF Burst = 0 THEN Init /\ hist = <<>>
            ELSE \E sh \in Shapes : InitWith(ShapeEdges(sh)) /\ hist = <<InitRec(ShapeEdges(sh))>>
GSpec == GInit /\ [][GNext]_gvars
Complete == IF Burst > 0 THEN Len(hist) >= 4 /\ OpenTxs = {} ELSE Len(hist) = Depth
Emit == \/ Cover \/ ~Complete
        \/ (EmitOneIn > 1 /\ RandomElement(1..EmitOneIn) # 1)
        \/ PrintT(<<"HIST", ToJson(hist)>>)
\* transition cover: with this VIEW every abstract state is expanded once, from the
\* first (shortest) history that reached it, and Log prints one history per transition
GView == <<SeqView, k>>
\* the same with the whole overlay and the ever-set / ever-deleted ghost kept apart
GViewFull == <<vars, k, ever>>
====
