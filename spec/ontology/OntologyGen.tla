---- MODULE OntologyGen ----
(* Ontology + history variable. Emits every behaviour of length Depth (BFS) or random
   behaviours (-simulate) as JSON: per step the call, its arguments, the result class
   the specification computed and the abstract post-state (committed tables and the view
   of the open transaction).

   Cover = TRUE (with VIEW GView) emits instead, for every transition of the reachable
   state graph, one history: a shortest path to the source state followed by the step.

   Canon = TRUE enumerates histories up to renaming of resources: a step may mention a
   resource not mentioned before only if it is the smallest such one (all resources are
   interchangeable in Ontology.tla when InitRes = N). The harness re-introduces the
   renamings as permutations of concrete identifiers.                                  *)
EXTENDS Ontology, Json
CONSTANTS Depth, Canon,
          EmitOneIn, \* simulation: TLC evaluates invariants on every successor it generates,
                     \* not only the chosen one; print each full-length history with
                     \* probability 1/EmitOneIn (1 = always)
          Cover   \* TRUE: emit the history of every transition of the state graph (use VIEW GView)
VARIABLES hist, k      \* k: resources 1..k have been mentioned
gvars == <<vars, hist, k>>

Max(a, b) == IF a > b THEN a ELSE b
MaxOf(S) == IF S = {} THEN 0 ELSE CHOOSE x \in S : \A y \in S : y <= x
\* mentioning the sequence of resources <<a>> / <<a, b>> / <<a>> then the set S
C1(a) == ~Canon \/ a <= k + 1
C2(a, b) == ~Canon \/ (a <= k + 1 /\ b <= Max(k, a) + 1)
CS(k0, S) == ~Canon \/ LET new == {x \in S : x > k0} IN new = (k0 + 1)..(k0 + Cardinality(new))
C1S(a, S) == ~Canon \/ (a <= k + 1 /\ CS(Max(k, a), S))
SetSeq2(S) == IF S = {} THEN <<>> ELSE IF Cardinality(S) = 1 THEN <<CHOOSE x \in S : TRUE>>
              ELSE <<"cyclic", "notfound">>
OpenTx == IF OpenTxs = {} THEN "none" ELSE CHOOSE t \in OpenTxs : TRUE
SetSeq(S) == LET RECURSIVE F(_) F(T) == IF T = {} THEN <<>> ELSE
                   LET m == CHOOSE x \in T : \A y \in T : x <= y IN <<m>> \o F(T \ {m})
             IN F(S)
\* rc: every refusal class C16 justifies for a define step (evaluated in the pre-state)
Rc(a, w, x, ty, y, S) ==
  IF a = "defrel" THEN SetSeq2(Refusals(ViewR(w), ViewE(w), x, ty, {y}))
  ELSE IF a = "defmany" THEN SetSeq2(Refusals(ViewR(w), ViewE(w), x, ty, S))
  ELSE <<>>
RecS(a, w, x, ty, y, S) ==
  LET o == OpenTx' IN
  [a |-> a, w |-> w, x |-> x, ty |-> ty, y |-> y, s |-> SetSeq(S), cls |-> out', rc |-> Rc(a, w, x, ty, y, S),
   res |-> res', edges |-> edges', otx |-> o,
   vres |-> IF o = "none" THEN res' ELSE ((res' \ tx'[o].delR) \cup tx'[o].setR),
   vedges |-> IF o = "none" THEN edges' ELSE ((edges' \ tx'[o].delE) \cup tx'[o].setE)]
Log(a, w, x, ty, y, S, kk) == /\ hist' = Append(hist, RecS(a, w, x, ty, y, S)) /\ k' = kk
                             /\ (~Cover \/ PrintT(<<"HIST", ToJson(hist')>>))

GNext ==
  /\ Len(hist) < Depth
  /\ \/ \E t \in Txs : \/ Begin(t) /\ Log("begin", t, 0, "", 0, {}, k)
                       \/ Commit(t) /\ Log("commit", t, 0, "", 0, {}, k)
                       \/ Abort(t) /\ Log("abort", t, 0, "", 0, {}, k)
     \/ Reopen /\ Log("reopen", "db", 0, "", 0, {}, k)
     \/ \E w \in Writers :
          \/ \E r \in Res : C1(r) /\
               \/ DefineResource(w, r) /\ Log("defres", w, r, "", 0, {}, Max(k, r))
               \/ DeleteResource(w, r) /\ Log("delres", w, r, "", 0, {}, Max(k, r))
          \/ \E S \in Sets : CS(k, S) /\
               \/ DefineManyResources(w, S) /\ Log("defresmany", w, 0, "", 0, S, Max(k, MaxOf(S)))
               \/ DeleteManyResources(w, S) /\ Log("delresmany", w, 0, "", 0, S, Max(k, MaxOf(S)))
          \/ \E f \in Res, ty \in RelType, t \in Res : C2(f, t) /\
               \/ DefineRelationship(w, f, ty, t) /\ Log("defrel", w, f, ty, t, {}, Max(k, Max(f, t)))
               \/ DeleteRelationship(w, f, ty, t) /\ Log("delrel", w, f, ty, t, {}, Max(k, Max(f, t)))
          \/ \E f \in Res, ty \in RelType, S \in Sets : C1S(f, S) /\
               DefineOneToMany(w, f, ty, S) /\ Log("defmany", w, f, ty, 0, S, Max(k, Max(f, MaxOf(S))))
          \/ \E r \in Res, ty \in RelType : C1(r) /\
               \/ DeleteOutOfType(w, r, ty) /\ Log("delout", w, r, ty, 0, {}, Max(k, r))
               \/ DeleteInOfType(w, r, ty) /\ Log("delin", w, r, ty, 0, {}, Max(k, r))
GInit == Init /\ hist = <<>> /\ k = 0
GSpec == GInit /\ [][GNext]_gvars
Emit == \/ Cover \/ Len(hist) # Depth
        \/ (EmitOneIn > 1 /\ RandomElement(1..EmitOneIn) # 1)
        \/ PrintT(<<"HIST", ToJson(hist)>>)
\* transition cover: with this VIEW every abstract state is expanded once, from the
\* first (shortest) history that reached it, and Log prints one history per transition
GView == <<SeqView, k>>
====
