--------------------------- MODULE AspenKVTrace ---------------------------
(* Trace validation, layer (b): is the recorded sequence of scheduler steps performed on
   2-3 REAL kv.DB nodes (many scenarios concatenated, separated by "reset" events) a
   behaviour of AspenKV with Masked = {} (the code as written)?  Every event carries
   what the real nodes did - operations read from the gossip store, accepted / rejected
   partition, reply, version assigned, every node's digests afterwards, what each
   subscriber was shown - and must equal what the specification computes.  All invariants
   of AspenKV are evaluated in every state of the matched behaviour: a scenario that
   steps into one of the named windows is accepted as a behaviour and then violates
   NoRegress / QuiescentConverged, which is how the windows are demonstrated on the real
   code.

   Events (all fields always present; nodes are 1..N; eng[n][k] = [ver, lh, var]):
     reset n=N | write n k var at ver t | txset n k var t | txcommit n k var at ver t
     tick from to ops | sync/ack from to ops acc rej ack | fb from to ops
     drop/dup/lose t from to ops | crash n | restart n | recread n from | recovered n | sub n s | quiet
   Start-up recovery is one real call: "restart" is Restart(n), "recovered" is the
   composition of Recover(n, p) over all peers in some order.                          *)
EXTENDS AspenKV, Json, SequencesExt
VARIABLE l
Trace == ndJsonDeserialize("trace.ndjson")
ASSUME TLCSet(1, 0)
E == Trace[l]
More == l <= Len(Trace)

OpsOf(s) == {[k |-> s[i].k, ver |-> s[i].ver, lh |-> s[i].lh, var |-> s[i].var] : i \in 1..Len(s)}
EngOK == \A n \in Node, k \in Key :
            LET d == E.eng[n][k] IN eng'[n][k] = [ver |-> d.ver, lh |-> d.lh, var |-> d.var]
NotesFor(n, s) == UNION {OpsOf(E.notes[i].ops) : i \in {j \in 1..Len(E.notes) : E.notes[j].n = n /\ E.notes[j].s = s}}
NotesOK == \A n \in Node, s \in Sub : seen'[n][s] = seen[n][s] \cup NotesFor(n, s)
Step == l' = l + 1 /\ EngOK /\ NotesOK
InNet(t) == {m \in BagToSet(net) : m.t = t /\ m.from = E.from /\ m.to = E.to /\ m.ops = OpsOf(E.ops)}

TInit == Init /\ l = 1

TReset ==
    /\ More /\ E.ev = "reset"
    /\ eng' = [n \in Node |-> [k \in Key |-> Absent]]
    /\ ctr' = [n \in Node |-> 0]
    /\ store' = [n \in Node |-> [k \in Key |-> NoEntry]]
    /\ reps' = [n \in Node |-> [k \in Key |-> [v \in 1..MaxVer |-> 0]]]
    /\ status' = [n \in Node |-> IF n <= E.n THEN "up" ELSE "off"]
    /\ pend' = [n \in Node |-> {}]
    /\ hwsnap' = [n \in Node |-> 0]
    /\ rtx' = [n \in Node |-> NoRtx]
    /\ net' = EmptyBag
    /\ faults' = 0 /\ restarts' = 0
    /\ pendw' = [n \in Node |-> NoPend]
    /\ written' = {} /\ got' = [n \in Node |-> {}]
    /\ act' = [n \in Node |-> [s \in Sub |-> FALSE]]
    /\ seen' = [n \in Node |-> [s \in Sub |-> {}]]
    /\ chg' = [n \in Node |-> [s \in Sub |-> {}]]
    /\ lag' = [n \in Node |-> [s \in Sub |-> FALSE]]
    /\ bad' = {}
    /\ l' = l + 1

TWrite ==
    /\ More /\ E.ev = "write" /\ E.t # "error"
    /\ LocalWrite(E.n, E.k, E.var)
    /\ Lease(E.n, E.k) = E.at /\ ctr'[E.at] = E.ver
    /\ Step
TTxSet ==
    /\ More /\ E.ev = "txset" /\ E.t # "error"
    /\ TxSet(E.n, E.k, E.var)
    /\ Step
TTxCommit ==
    /\ More /\ E.ev = "txcommit" /\ E.t # "error"
    /\ pendw[E.n].k = E.k /\ pendw[E.n].at = E.at
    /\ TxCommit(E.n)
    /\ ctr'[E.at] = E.ver
    /\ Step
TTick ==
    /\ More /\ E.ev = "tick"
    /\ Infected(E.from) = OpsOf(E.ops)
    /\ IF E.ops = <<>> THEN UNCHANGED vars ELSE GossipTick(E.from, E.to)
    /\ Step
TSync ==
    /\ More /\ E.ev = "sync"
    /\ \E m \in InNet("sync") :
          /\ OpsOf(E.ack) \in ({Infected(m.to)} \cup AckChoices(m.to, m))
          /\ RecvSyncWith(m, OpsOf(E.ack))
          /\ AccSet(eng[m.to], m.ops) = OpsOf(E.acc)
          /\ m.ops \ AccSet(eng[m.to], m.ops) = OpsOf(E.rej)
    /\ Step
TAck ==
    /\ More /\ E.ev = "ack"
    /\ \E m \in InNet("ack") :
          /\ RecvAck(m)
          /\ AccSet(eng[m.to], m.ops) = OpsOf(E.acc)
          /\ m.ops \ AccSet(eng[m.to], m.ops) = OpsOf(E.rej)
    /\ Step
TFb ==
    /\ More /\ E.ev = "fb"
    /\ \E m \in InNet("fb") : RecvFeedback(m)
    /\ Step
TDrop ==
    /\ More /\ E.ev \in {"drop", "lose"}
    /\ \E m \in InNet(E.t) : IF E.ev = "lose" THEN Lose(m) ELSE Drop(m)
    /\ Step
TDup ==
    /\ More /\ E.ev = "dup"
    /\ \E m \in InNet(E.t) : Dup(m)
    /\ Step
TCrash ==
    /\ More /\ E.ev = "crash" /\ Crash(E.n)
    /\ l' = l + 1 /\ EngOK
TRestart ==
    /\ More /\ E.ev = "restart" /\ Restart(E.n)
    /\ l' = l + 1
(* kv.Open returned: all peers were recovered one after the other in some order (a map
   iteration), each with the high-water mark loaded once when Open started and only
   superseding operations applied (as-was deviation: mark from start-up or later, everything
   applied); the result must be the recorded digests.
   (One composite step, so that invariants are judged on the real outcome only.)        *)
EHW(e) == LET vs == {e[k].ver : k \in Key} IN CHOOSE v \in vs : \A w \in vs : v >= w
RECURSIVE RecPaths(_, _, _, _)
RecPaths(e, g, seq, hw0) ==
    IF seq = <<>> THEN {[e |-> e, g |-> g]}
    ELSE UNION {LET S == {o \in EngOps(Head(seq)) : o.ver >= hw}
                IN RecPaths(ApplySet(e, IF AsWasRecovery THEN S ELSE AccSet(e, S)), g \cup S, Tail(seq), hw0) :
                    hw \in (IF AsWasRecovery THEN {hw0, EHW(e)} ELSE {hw0})}
(* "recread": the harness holds Open of node E.n inside its start-up recovery - peer E.from has
   streamed everything, Open has not returned, gossip can be delivered to the node.  As
   repaired nothing is decided at this point (no step); with "RecoveryNotSerialised" the
   recovery transaction has done its supersedes reads (RecoverRead).                        *)
TRecRead ==
    /\ More /\ E.ev = "recread" /\ status[E.n] = "rec"
    /\ IF NotSerialised THEN RecoverRead(E.n, E.from) ELSE UNCHANGED vars
    /\ Step
TRecovered ==
    /\ More /\ E.ev = "recovered" /\ status[E.n] = "rec"
    /\ LET open == rtx[E.n].p # 0      \* an open recovery transaction commits first, as decided
           e0 == IF open THEN ApplySet(eng[E.n], rtx[E.n].a) ELSE eng[E.n]
           g0 == IF open THEN got[E.n] \cup rtx[E.n].s ELSE got[E.n]
           rest == (Node \ {E.n}) \ (IF open THEN {rtx[E.n].p} ELSE {})
       IN \E seq \in SetToSeqs(rest) : \E r \in RecPaths(e0, g0, seq, hwsnap[E.n]) :
          /\ eng' = [eng EXCEPT ![E.n] = r.e]
          /\ got' = [got EXCEPT ![E.n] = r.g]
    /\ status' = [status EXCEPT ![E.n] = "up"]
    /\ pend' = [pend EXCEPT ![E.n] = {}]
    /\ rtx' = [rtx EXCEPT ![E.n] = NoRtx]
    /\ UNCHANGED <<hwsnap, pendw, ctr, store, reps, net, faults, restarts, written, act, seen, chg, lag, bad>>
    /\ Step
TSub ==
    /\ More /\ E.ev = "sub" /\ Subscribe(E.n, E.s)
    /\ Step
TQuiet ==
    /\ More /\ E.ev = "quiet"
    /\ net = EmptyBag /\ \A n \in Node : status[n] \in {"up", "off"} /\ Infected(n) = {}
    /\ UNCHANGED vars
    /\ Step

TNext == TReset \/ TWrite \/ TTxSet \/ TTxCommit \/ TTick \/ TSync \/ TAck \/ TFb \/ TDrop \/ TDup
         \/ TCrash \/ TRestart \/ TRecRead \/ TRecovered \/ TSub \/ TQuiet
TSpec == TInit /\ [][TNext]_<<vars, l>>

(* nodes beyond the scenario's size are "off": they take no step and are ignored      *)
TQuiescentConverged ==
    (net = EmptyBag /\ \A n \in Node : status[n] \in {"up", "off"} /\ Infected(n) = {})
        => \A n \in Node, k \in Key : status[n] = "up" => eng[n][k] = Winner(written, k)
TNoRegress == [][\A n \in Node, k \in Key :
                    eng'[n][k] = eng[n][k] \/ eng[n][k].var = "none" \/ Newer(eng'[n][k], eng[n][k])
                    \/ (l <= Len(Trace) /\ E.ev = "reset")]_<<vars, l>>

Mark == IF l > TLCGet(1) THEN TLCSet(1, l) ELSE TRUE
Accepted == \/ TLCGet(1) = Len(Trace) + 1
            \/ (PrintT(<<"HW", TLCGet(1)>>) /\ FALSE)
=============================================================================
