---------------------------- MODULE AspenKVOps ----------------------------
(* Constant-level operators shared by AspenKV.tla (cluster spec), AspenKVGen.tla
   (ingress behaviour generator) and AspenKVTrace.tla (trace validation).

   An operation is a record [k, ver, lh, var]: key, version (version.Counter),
   leaseholder (node.Key), variant "set"/"del".  The *identity* of an operation is
   (k, ver, lh): one leaseholder assigns one version to one operation, so the value
   bytes are a function of the identity (the harness concretises the value as a
   unique token per identity and projects it back).
   A digest is [ver, lh, var]; the engine holds one digest per key, Absent when the
   key was never written (`query.ErrNotFound` in getDigestFromKV).                 *)
EXTENDS Integers, Sequences, FiniteSets

Absent == [ver |-> 0, lh |-> 0, var |-> "none"]

Dig(o) == [ver |-> o.ver, lh |-> o.lh, var |-> o.var]

(* version.Counter.NewerThan / EqualTo + the leaseholder tie-break of
   filter_persist.go supersedes().                                                 *)
Newer(a, b) == a.ver > b.ver \/ (a.ver = b.ver /\ a.lh > b.lh)

(* supersedes(ctx, txn, op): missing digest => TRUE.                               *)
Supersedes(o, d) == d.var = "none" \/ Newer(o, d)

SameId(a, b) == a.ver = b.ver /\ a.lh = b.lh

(* filterPersist._switch on ONE TxRequest: a single transaction; every digest read
   sees the writes made earlier in the same transaction.  `e` is the engine
   ([Key -> digest]) of the receiving node, `ops` the request's operations in order.
   Result: engine after commit, accepted and rejected operations in order.         *)
RECURSIVE FPSeq(_, _, _, _)
FPSeq(e, ops, acc, rej) ==
    IF ops = <<>> THEN [eng |-> e, acc |-> acc, rej |-> rej]
    ELSE LET o == Head(ops) IN
         IF Supersedes(o, e[o.k])
         THEN FPSeq([e EXCEPT ![o.k] = Dig(o)], Tail(ops), Append(acc, o), rej)
         ELSE FPSeq(e, Tail(ops), acc, Append(rej, o))

(* The same for a batch with at most one operation per key (every batch taken from
   a gossip store, which is keyed by key): order inside the batch is irrelevant.   *)
AccSet(e, S) == {o \in S : Supersedes(o, e[o.k])}
ApplySet(e, A) == [k \in DOMAIN e |-> IF \E o \in A : o.k = k
                                       THEN Dig(CHOOSE o \in A : o.k = k) ELSE e[k]]

(* Winner of a set of operations for key k under the (ver, lh) order.              *)
OpsOn(S, k) == {o \in S : o.k = k}
MaxOp(S) == CHOOSE o \in S : \A p \in S : p = o \/ Newer(o, p)
Winner(S, k) == IF OpsOn(S, k) = {} THEN Absent ELSE Dig(MaxOp(OpsOn(S, k)))

SeqToSet(s) == {s[i] : i \in 1..Len(s)}
=============================================================================
