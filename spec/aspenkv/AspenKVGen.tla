---------------------------- MODULE AspenKVGen ----------------------------
(* Ingress behaviour generator for C06 (order independence, no regress) and C13
   (observers), layer (a) of the binding.

   One real node `Host` and simulated remote leaseholders `Remote`.  TLC chooses a pool
   of gossip operations (PoolSize operations over Key x GVers x Remote x {set,del}, at
   most one variant per identity (k,ver,lh)) and enumerates EVERY way of delivering it
   to the host's ingress: every permutation, every batching into TxRequests (also two
   operations of one key, or the same operation twice, in one request), exactly MaxDup
   re-deliveries of already delivered operations, interleaved with NLocal local writes
   (DB.Set/DB.Delete on the host, first counter value c0 in C0s) and, when LateSub, the
   moment two more subscribers attach, and with exactly MaxFail requests whose ingress
   transaction fails to commit (SyncFail; their operations must be delivered again
   later) and MaxReadFail requests in which one digest read fails (SyncReadFail).  Each step records what AspenKVOps!FPSeq (the filterPersist rule) computes:
   accepted / rejected partition in order, the engine afterwards, and the operations each kind of subscriber is shown.

   Projection used by the harness: engine digest (ver - base, lh, var) + value token
   identity per key; accepted = operations handed to observers (raw TxRequest
   subscriber), rejected = digests in the feedback message sent to the request's
   sender; base = real counter value at history start - c0.                           *)
EXTENDS AspenKVOps, TLC, Json, FiniteSetsExt, Randomization

CONSTANTS Host, Remote, Key, GVers, PoolSize, NPools, MaxDup, MaxBatch, NLocal, C0s, LateSub,
          MaxFail,     \* requests per history whose ingress transaction fails to commit (0 or 1)
          MaxReadFail  \* requests per history in which ONE digest read of the transaction fails (0 or 1)

VARIABLES pool, rem, extra, e, c, locals, late, delivered, fails, rfails, hist
gvars == <<pool, rem, extra, e, c, locals, late, delivered, fails, rfails, hist>>

Universe == [k : Key, ver : GVers, lh : Remote, var : {"set", "del"}]
ValidPool(P) == \A a, b \in P : (a.k = b.k /\ a.ver = b.ver /\ a.lh = b.lh) => a = b
Pools == {P \in kSubset(PoolSize, Universe) : ValidPool(P)}

(* candidate requests: sequences over the operations that may still be delivered     *)
Avail == IF extra > 0 THEN pool ELSE {o \in pool : rem[o] > 0}
MaxLen == LET n == Cardinality({o \in pool : rem[o] > 0}) + extra IN IF n < MaxBatch THEN n ELSE MaxBatch
Batches == UNION {[1..m -> Avail] : m \in 1..MaxLen}
Count(b, o) == Cardinality({i \in 1..Len(b) : b[i] = o})

GInit ==
    /\ pool \in (IF NPools = 0 THEN Pools ELSE RandomSubset(NPools, Pools))
    /\ rem = [o \in pool |-> 1]
    /\ extra = MaxDup
    /\ e = [k \in Key |-> Absent]
    /\ c \in C0s
    /\ locals = NLocal
    /\ late = FALSE
    /\ delivered = {}
    /\ fails = MaxFail
    /\ rfails = MaxReadFail
    /\ hist = <<[a |-> "init", host |-> Host, c0 |-> c, late |-> LateSub]>>

(* Deliver one TxRequest.  First deliveries use `rem`, re-deliveries of an operation
   delivered in an EARLIER or the same request use the `extra` budget.               *)
Sync(b) ==
    LET used(o) == Count(b, o)
        over == [o \in pool |-> IF used(o) > rem[o] THEN used(o) - rem[o] ELSE 0]
        RECURSIVE Sum(_)
        Sum(S) == IF S = {} THEN 0 ELSE LET x == CHOOSE x \in S : TRUE IN over[x] + Sum(S \ {x})
        need == Sum(pool)
        r == FPSeq(e, b, <<>>, <<>>)
    IN /\ need <= extra
       /\ extra' = extra - need
       /\ rem' = [o \in pool |-> IF used(o) >= rem[o] THEN 0 ELSE rem[o] - used(o)]
       /\ e' = r.eng
       /\ delivered' = delivered \cup SeqToSet(b)
       /\ hist' = Append(hist, [a |-> "sync", from |-> b[1].lh, ops |-> b, acc |-> r.acc,
                                rej |-> r.rej, eng |-> r.eng, p |-> r.acc, f |-> r.acc])
       /\ UNCHANGED <<pool, c, locals, late, fails, rfails>>

(* A TxRequest whose ingress transaction FAILS TO COMMIT (storage fault; the harness arms a
   fault-injecting engine wrapper for exactly this commit).  filter_persist.go as written:
   xkv.WithTx returns the commit error, `if err == nil && !accepted.empty()` routes nothing
   downstream - no subscriber is shown anything, nothing enters the gossip store - and the
   engine is unchanged.  The rejected partition was computed while the transaction was
   being filled (reads see the transaction's own earlier writes) and is still fed back.
   The operations count as NOT delivered: `rem`, `extra` and `delivered` are unchanged, so
   Terminal still forces a later real delivery of each of them (the gossip redelivery).   *)
SyncFail(b) ==
    LET used(o) == Count(b, o)
        over == [o \in pool |-> IF used(o) > rem[o] THEN used(o) - rem[o] ELSE 0]
        RECURSIVE Sum(_)
        Sum(S) == IF S = {} THEN 0 ELSE LET x == CHOOSE x \in S : TRUE IN over[x] + Sum(S \ {x})
        r == FPSeq(e, b, <<>>, <<>>)
    IN /\ fails > 0 /\ fails' = fails - 1
       /\ Sum(pool) <= extra                \* a request Sync could also have delivered
       /\ hist' = Append(hist, [a |-> "syncfail", from |-> b[1].lh, ops |-> b, acc |-> <<>>,
                                rej |-> r.rej, eng |-> e, p |-> <<>>, f |-> <<>>])
       /\ UNCHANGED <<pool, rem, extra, e, c, locals, late, delivered, rfails>>

(* A TxRequest during whose ingress transaction the digest READ of the operation at position
   `i` fails with a transient error that is not "not found" (storage fault; the harness arms
   the engine wrapper for exactly that Get).  filter_persist.go as written: supersedes returns
   (false, err), the caller logs the error and treats the operation as NOT superseding - it
   is rejected (and fed back), nothing of it is applied, nothing of it is shown; the other
   operations of the request are handled normally and the transaction commits.  The
   operation at `i` counts as not delivered by this request.  Generated only for an
   operation that would not supersede anyway (a duplicate or an older one).               *)
RECURSIVE FPSeqF(_, _, _, _, _, _)
FPSeqF(en, ops, j, i, acc, rej) ==
    IF j > Len(ops) THEN [eng |-> en, acc |-> acc, rej |-> rej]
    ELSE LET o == ops[j] IN
         IF j # i /\ Supersedes(o, en[o.k])
         THEN FPSeqF([en EXCEPT ![o.k] = Dig(o)], ops, j + 1, i, Append(acc, o), rej)
         ELSE FPSeqF(en, ops, j + 1, i, acc, Append(rej, o))
SyncReadFail(b, i) ==
    LET rest == [j \in 1..(Len(b) - 1) |-> IF j < i THEN b[j] ELSE b[j + 1]]
        used(o) == Count(rest, o)
        over == [o \in pool |-> IF used(o) > rem[o] THEN used(o) - rem[o] ELSE 0]
        RECURSIVE Sum(_)
        Sum(S) == IF S = {} THEN 0 ELSE LET x == CHOOSE x \in S : TRUE IN over[x] + Sum(S \ {x})
        need == Sum(pool)
        r == FPSeqF(e, b, 1, i, <<>>, <<>>)
        before == FPSeqF(e, SubSeq(b, 1, i - 1), 1, 0, <<>>, <<>>).eng
    IN /\ rfails > 0 /\ rfails' = rfails - 1
       /\ i \in 1..Len(b)
       \* only where it matters for C06/C13: the operation is a duplicate or an older one (it
       \* would not supersede); whether a NEW operation whose digest cannot be read is applied or
       \* refused is not something the properties state
       /\ ~Supersedes(b[i], before[b[i].k])
       /\ need <= extra
       /\ extra' = extra - need
       /\ rem' = [o \in pool |-> IF used(o) >= rem[o] THEN 0 ELSE rem[o] - used(o)]
       /\ e' = r.eng
       /\ delivered' = delivered \cup SeqToSet(rest)
       /\ hist' = Append(hist, [a |-> "syncread", from |-> b[1].lh, ops |-> b, failat |-> i, acc |-> r.acc,
                                rej |-> r.rej, eng |-> r.eng, p |-> r.acc, f |-> r.acc])
       /\ UNCHANGED <<pool, c, locals, late, fails>>

Local(k, var) ==
    /\ locals > 0 /\ locals' = locals - 1
    /\ LET at == IF e[k].var = "none" THEN Host ELSE e[k].lh IN
       IF at = Host
       THEN LET o == [k |-> k, ver |-> c + 1, lh |-> Host, var |-> var] IN
            /\ c' = c + 1
            /\ e' = [e EXCEPT ![k] = Dig(o)]
            /\ delivered' = delivered \cup {o}
            /\ hist' = Append(hist, [a |-> "local", k |-> k, var |-> var, res |-> "persist",
                                     ver |-> c + 1, to |-> Host, eng |-> e', p |-> <<o>>, f |-> <<>>])
       ELSE /\ hist' = Append(hist, [a |-> "local", k |-> k, var |-> var, res |-> "forward",
                                     ver |-> 0, to |-> at, eng |-> e, p |-> <<>>, f |-> <<>>])
            /\ UNCHANGED <<c, e, delivered>>
    /\ UNCHANGED <<pool, rem, extra, late, fails, rfails>>

SubLate ==
    /\ LateSub /\ ~late /\ late' = TRUE
    /\ hist' = Append(hist, [a |-> "sub"])
    /\ UNCHANGED <<pool, rem, extra, e, c, locals, delivered, fails, rfails>>

Terminal == (\A o \in pool : rem[o] = 0) /\ extra = 0 /\ locals = 0 /\ (LateSub => late) /\ fails = 0 /\ rfails = 0

GNext ==
    /\ ~Terminal
    /\ \/ \E b \in Batches : Sync(b) \/ SyncFail(b) \/ (\E i \in 1..Len(b) : SyncReadFail(b, i))
       \/ \E k \in Key, var \in {"set", "del"} : Local(k, var)
       \/ SubLate

GSpec == GInit /\ [][GNext]_gvars

(* design-level statement of order independence on the generated behaviours        *)
GOrderIndependence == \A k \in Key : e[k] = Winner(delivered, k)
Emit == ~Terminal \/ PrintT(<<"HIST", ToJson(hist)>>)
=============================================================================
