------------------------------ MODULE AspenKV ------------------------------
(* Design specification of aspen's replicated key-value layer
   (/repo/aspen/internal/kv), written as the code is, for properties
     C06 "Aspen replicas converge: same operations, any order, same state" and
     C13 "Key-value observers see each applied change once, never a stale one".

   State per node n
     eng[n][k]    digest (ver, lh, var) stored under "--dig/<k>" next to the value
                  (operation.go Digest.apply / Operation.apply: written together in
                  one transaction; the harness projects (digest, value identity) and
                  requires them to agree; Absent = no digest).
     ctr[n]       persisted version counter "ver" (version.go versionAssigner,
                  x/go/kv/counter.go).
     store[n][k]  gossip store (store.go kvStore: key -> last operation with state
                  infected / recovered); volatile: a restart starts with an empty one.
     reps[n]      gossipRecoveryTransform.repetitions, keyed by (key, version) - NOT
                  by leaseholder (gossip.go) - volatile.
     status[n]    "up" | "down" | "rec" (inside Open, running start-up recovery;
                  transport handlers are already bound), pend[n] peers still to
                  recover from, hwsnap[n] the high-water mark loaded when Open started.
     rtx[n]       (deviation "RecoveryNotSerialised" only) the open recovery transaction
                  of a node in "rec": peer, operations it decided to apply, what was streamed.
     pendw[n]     an open aspen transaction (tx.Set/Delete done = lease allocated from
                  the digest read at that moment, tx.Commit not yet called).
   net            bag of messages [t, from, to, ops]:
                  "sync"  operationClient.send -> operationServer.handle request,
                  "ack"   the response of that call (the callee's infected operations),
                  "fb"    feedbackSender.send -> feedbackReceiver.handle.
                  Lease forwarding (leaseSender -> leaseReceiver) is a synchronous call
                  whose caller waits for the remote persist; it is modelled inside
                  LocalWrite as an atomic remote write (no "lease" message in flight).

   Actions <-> code
     TxSet / TxCommit     the two halves of LocalWrite when a caller holds a transaction
                          open (explored only with "MultiLease" un-masked).
     LocalWrite(n,k,var)  DB.Set / DB.Delete: leaseAllocator.allocate (first writer of a
                          key becomes leaseholder, leases are not transferable), then
                          leaseProxy -> versionAssigner (counter+1) -> persist (writes
                          value+digest WITHOUT consulting the stored digest) ->
                          persistSplitter -> gossip store (infected) and observers; or
                          forwarded to the leaseholder the local digest names.
     GossipTick(n,p)      storeEmitter.Emit + operationClient.send to peer p: all
                          infected operations of n's store.
     RecvSync(m)          operationServer.handle + filterPersist._switch: ONE transaction,
                          each operation accepted iff it supersedes the stored digest
                          (strictly newer version, or equal version and higher
                          leaseholder); accepted -> persistSplitter (store infected,
                          observers, TxRequest.Leaseholder = 0), rejected -> feedback to
                          the sender; the reply carries the callee's infected operations.
     RecvAck(m)           the reply entering the caller's filterPersist.
     RecvFeedback(m)      feedbackReceiver.handle -> gossipRecoveryTransform: per digest
                          `if reps > Threshold {recovered; reps reset}; reps++`;
                          kvStore.apply: a recovered mark concerns ONE operation, it
                          replaces the store entry of its key only when that entry is
                          absent or holds the same (version, leaseholder) (store.go as
                          repaired; the repetition counter is reset either way).
     Drop / Dup           network faults (budget MaxFaults).
     Crash / Restart / Recover(n,p) / RecoverFail
                          DB.Close (or process death) / kv.Open on the same engine /
                          runSingleNodeRecovery for one peer (peers in turn): high-water =
                          max version of ANY local digest when Open started, the peer streams every digest
                          with version >= high-water, those that supersede the stored
                          operation are written in one transaction (as repaired; as-was:
                          all of them, peers concurrently - deviation
                          "RecoveryUncheckedApply").
     Subscribe(n,s)       DB.OnChange ("p") / NewObservable(IgnoreHostLeaseholder)
                          .OnChange ("f").

   Deviations (default {}): "StaleFeedbackOverwrite" is the store.go of before the repair
   - a recovered mark replaced WHATEVER entry its key had, so a late mark for an old
   version un-infected the key's newer operation.  It is kept as a switch for the as-was
   design run (which must still produce the stale-feedback counterexample with the
   "StaleFeedback" window un-masked) and for explaining traces of an unrepaired tree.

   The code as written violates C06 in three windows (five as-was: see Deviations).  Each is a NAMED DEVIATION; the
   set `Masked` lists the windows in which the environment does NOT step (2.5 of
   DESIGN.md): with all of them masked every invariant holds (the exhaustive run);
   un-masking one yields a counterexample, which the check replays as a directed
   script on the real code (tools/props/_aspenkv.py WINDOWS).
     "RecoveryUnchecked"  (only with the "RecoveryUncheckedApply" deviation; repaired
                          since) Recover applies a streamed operation that does not supersede
                          the local digest (equal versions/lower leaseholder from one
                          peer; any older operation when two peers are recovered in turn).
     "VolatileStore"      Crash while the store holds infected operations: they are
                          never gossiped again.
     "StaleFeedback"      (only with the "StaleFeedbackOverwrite" deviation; repaired
                          since) a feedback digest reaching the threshold overwrites a
                          store entry that already holds a different (newer) operation
                          for the key, which then stops being gossiped.  Without the
                          deviation the environment steps there freely.
     "MultiLease"         two nodes write a key neither has seen (both become
                          leaseholder).  Only then can the unchecked local persist path
                          (direct, or forwarded on a stale digest) replace a newer stored
                          operation, and only then do equal versions occur.
     "PrematureRemoval"   SIR removal: an operation is marked recovered although some
                          node still lacks it (3+ nodes; inherent to the protocol, not
                          reported as a defect - see AGENT report).

   Pinned beyond the property: the exact infected/recovered bookkeeping and repetition
   counts, reply = infected set before the request is processed (or after, both are
   allowed by the trace spec), feedback contents, recovery high-water rule, the
   TxRequest.Leaseholder = 0 convention for gossip-accepted requests.              *)
EXTENDS AspenKVOps, Bags, TLC

CONSTANTS Node,         \* node keys (positive integers)
          Key,          \* keys (strings)
          MaxVer,       \* bound on every version counter
          Threshold,    \* Config.RecoveryThreshold
          MaxNet,       \* bound on messages in flight (state constraint)
          MaxFaults,    \* Drop/Dup budget
          MaxRestarts,  \* Crash budget
          WithSubs,     \* model observers
          AllowLag,     \* observers may fall behind (relay / async buffer overflow)
          AckAfter,     \* reply may also be computed after the request was processed
          Masked,       \* masked windows
          Deviations    \* as-was behaviours switched back on (default {})

Windows == {"RecoveryUnchecked", "VolatileStore", "StaleFeedback", "MultiLease", "PrematureRemoval"}
ASSUME Masked \subseteq Windows
ASSUME Deviations \subseteq {"StaleFeedbackOverwrite", "RecoveryUncheckedApply", "RecoveryNotSerialised"}

VARIABLES eng, ctr, store, reps, status, pend, hwsnap, rtx, net, faults, restarts,
          pendw,                       \* an open aspen tx: lease allocated, not yet committed
          written, got,                \* ghosts: every op ever written; ops delivered to n
          act, seen, chg, lag, bad     \* observers (seen/chg/bad are ghosts)

vars == <<eng, ctr, store, reps, status, pend, hwsnap, rtx, net, faults, restarts, pendw, written, got,
          act, seen, chg, lag, bad>>

Sub == {"p", "f"}     \* "p" plain OnChange, "f" IgnoreHostLeaseholder

NoRtx == [p |-> 0, a |-> {}, s |-> {}]
NoPend == [k |-> "none", var |-> "none", at |-> 0]
NoEntry == [ver |-> 0, lh |-> 0, var |-> "none", st |-> "none"]
Op(k, d) == [k |-> k, ver |-> d.ver, lh |-> d.lh, var |-> d.var]
Infected(n) == {Op(k, store[n][k]) : k \in {kk \in Key : store[n][kk].st = "inf"}}
EngOps(n) == {Op(k, eng[n][k]) : k \in {kk \in Key : eng[n][kk].var # "none"}}
HighWater(n) == LET vs == {eng[n][k].ver : k \in Key} IN CHOOSE v \in vs : \A w \in vs : v >= w

PutStore(s, A, st) == [k \in Key |-> IF \E o \in A : o.k = k
                                     THEN LET o == CHOOSE o \in A : o.k = k
                                          IN [ver |-> o.ver, lh |-> o.lh, var |-> o.var, st |-> st]
                                     ELSE s[k]]

Msg(t, f, to, ops) == [t |-> t, from |-> f, to |-> to, ops |-> ops]
Send(b, m) == IF m.ops = {} THEN b ELSE b (+) SetToBag({m})
Take(b, m) == b (-) SetToBag({m})

Init ==
    /\ eng = [n \in Node |-> [k \in Key |-> Absent]]
    /\ ctr = [n \in Node |-> 0]
    /\ store = [n \in Node |-> [k \in Key |-> NoEntry]]
    /\ reps = [n \in Node |-> [k \in Key |-> [v \in 1..MaxVer |-> 0]]]
    /\ status = [n \in Node |-> "up"]
    /\ pend = [n \in Node |-> {}]
    /\ hwsnap = [n \in Node |-> 0]
    /\ rtx = [n \in Node |-> NoRtx]
    /\ net = EmptyBag
    /\ faults = 0 /\ restarts = 0
    /\ pendw = [n \in Node |-> NoPend]
    /\ written = {} /\ got = [n \in Node |-> {}]
    /\ act = [n \in Node |-> [s \in Sub |-> FALSE]]
    /\ seen = [n \in Node |-> [s \in Sub |-> {}]]
    /\ chg = [n \in Node |-> [s \in Sub |-> {}]]
    /\ lag = [n \in Node |-> [s \in Sub |-> FALSE]]
    /\ bad = {}

(* observable.OnChange wrapper: `if ignoreHostLeaseholder && tx.Leaseholder == host
   {return}`.  txlh is TxRequest.Leaseholder: the host for the local persist path, 0
   for requests accepted by filterPersist.  `keep` \subseteq Sub are the subscribers
   that keep up with this notification.                                            *)
Visible(n, s, txlh) == s = "p" \/ txlh # n
NotifyWith(n, txlh, A, keep) ==
    /\ chg' = [chg EXCEPT ![n] = [s \in Sub |-> IF act[n][s] THEN @[s] \cup A ELSE @[s]]]
    /\ seen' = [seen EXCEPT ![n] = [s \in Sub |->
                   IF act[n][s] /\ s \in keep /\ Visible(n, s, txlh) THEN @[s] \cup A ELSE @[s]]]
    /\ lag' = [lag EXCEPT ![n] = [s \in Sub |->
                   IF act[n][s] /\ s \notin keep /\ Visible(n, s, txlh) THEN TRUE ELSE @[s]]]
    /\ bad' = bad \cup (IF \E s \in Sub : act[n][s] /\ s \in keep /\ Visible(n, s, txlh)
                                            /\ A \cap seen[n][s] # {} THEN {"dup"} ELSE {})
                  \cup (IF \E o \in A : Dig(o) # eng'[n][o.k] THEN {"stale"} ELSE {})
Notify(n, txlh, A) ==
    IF ~WithSubs \/ A = {} THEN UNCHANGED <<seen, chg, lag, bad>>
    ELSE IF AllowLag THEN \E keep \in SUBSET Sub : NotifyWith(n, txlh, A, keep)
    ELSE NotifyWith(n, txlh, A, Sub)

----------------------------------------------------------------------------
Lease(n, k) == IF eng[n][k].var = "none" THEN n ELSE eng[n][k].lh   \* leaseAllocator.allocate
(* leaseProxy -> [leaseSender -> leaseReceiver ->] versionAssigner -> persist at node `at` *)
Persist(at, k, var) ==
    /\ status[at] = "up"                           \* else the forward fails: no effect
    /\ ctr[at] < MaxVer
    /\ LET o == [k |-> k, ver |-> ctr[at] + 1, lh |-> at, var |-> var] IN
       /\ ctr' = [ctr EXCEPT ![at] = @ + 1]
       /\ eng' = [eng EXCEPT ![at][k] = Dig(o)]     \* persist: no digest check
       /\ store' = [store EXCEPT ![at] = PutStore(@, {o}, "inf")]
       /\ written' = written \cup {o}
       /\ got' = [got EXCEPT ![at] = @ \cup {o}]
       /\ Notify(at, at, {o})
LocalWrite(n, k, var) ==
    /\ status[n] = "up" /\ pendw[n] = NoPend
    /\ ("MultiLease" \in Masked /\ eng[n][k].var = "none") => \A o \in written : o.k = k => o.lh = n
    /\ Persist(Lease(n, k), k, var)
    /\ UNCHANGED <<reps, status, pend, hwsnap, rtx, net, faults, restarts, pendw, act>>
(* DB.OpenTx + tx.Set/Delete (lease allocated from the digest read NOW) ... tx.Commit
   (persisted later, unchecked).  Under the "MultiLease" mask a key has one writer and
   the split is equivalent to LocalWrite, so it is explored only as-is.              *)
TxSet(n, k, var) ==
    /\ "MultiLease" \notin Masked
    /\ status[n] = "up" /\ pendw[n] = NoPend
    /\ pendw' = [pendw EXCEPT ![n] = [k |-> k, var |-> var, at |-> Lease(n, k)]]
    /\ UNCHANGED <<eng, ctr, store, reps, status, pend, hwsnap, rtx, net, faults, restarts, written, got,
                   act, seen, chg, lag, bad>>
TxCommit(n) ==
    /\ status[n] = "up" /\ pendw[n] # NoPend
    /\ Persist(pendw[n].at, pendw[n].k, pendw[n].var)
    /\ pendw' = [pendw EXCEPT ![n] = NoPend]
    /\ UNCHANGED <<reps, status, pend, hwsnap, rtx, net, faults, restarts, act>>

GossipTick(n, p) ==
    /\ status[n] = "up" /\ p # n /\ status[p] # "down"
    /\ Infected(n) # {}
    /\ net' = Send(net, Msg("sync", n, p, Infected(n)))
    /\ UNCHANGED <<pendw, eng, ctr, store, reps, status, pend, hwsnap, rtx, faults, restarts, written, got,
                   act, seen, chg, lag, bad>>

(* filterPersist on a store batch (at most one op per key).  `ackops` is the reply:
   operationServer.handle reads the store right after queueing the request, i.e. before
   (usually) or after the request went through filterPersist and the store sink.     *)
StoreAfter(n, m) == PutStore(store[n], AccSet(eng[n], m.ops), "inf")
AckChoices(n, m) == {Infected(n)} \cup
    (IF AckAfter THEN {{Op(k, StoreAfter(n, m)[k]) : k \in {kk \in Key : StoreAfter(n, m)[kk].st = "inf"}}} ELSE {})
Ingest(n, m, ackops) ==
    LET A == AccSet(eng[n], m.ops)
        R == m.ops \ A
    IN /\ eng' = [eng EXCEPT ![n] = ApplySet(@, A)]
       /\ store' = [store EXCEPT ![n] = StoreAfter(n, m)]
       /\ got' = [got EXCEPT ![n] = @ \cup m.ops]
       /\ net' = Send(Send(Take(net, m), Msg("ack", n, m.from, ackops)), Msg("fb", n, m.from, R))
       /\ Notify(n, 0, A)

RecvSyncWith(m, ackops) ==
    /\ m.t = "sync" /\ status[m.to] # "down"
    /\ Ingest(m.to, m, ackops)
    /\ UNCHANGED <<pendw, ctr, reps, status, pend, hwsnap, rtx, faults, restarts, written, act>>
RecvSync(m) == \E ackops \in AckChoices(m.to, m) : RecvSyncWith(m, ackops)

RecvAck(m) ==
    /\ m.t = "ack" /\ status[m.to] # "down"
    /\ Ingest(m.to, m, {})
    /\ UNCHANGED <<pendw, ctr, reps, status, pend, hwsnap, rtx, faults, restarts, written, act>>

Hit(n, d) == reps[n][d.k][d.ver] > Threshold
SameEntry(n, d) == store[n][d.k].st = "none" \/ SameId(store[n][d.k], d)
(* kvStore.apply for a recovered mark *)
MarkApplies(n, d) == "StaleFeedbackOverwrite" \in Deviations \/ SameEntry(n, d)
FbAllowed(m) ==
    LET n == m.to IN
    /\ ("StaleFeedbackOverwrite" \in Deviations /\ "StaleFeedback" \in Masked) =>
          \A d \in m.ops : Hit(n, d) => SameEntry(n, d)
    /\ "PrematureRemoval" \in Masked =>
          \A d \in m.ops : (Hit(n, d) /\ MarkApplies(n, d)) =>
                \A p \in Node : eng[p][d.k].var # "none" /\ ~Newer(d, eng[p][d.k])
RecvFeedback(m) ==
    /\ m.t = "fb" /\ status[m.to] # "down"
    /\ FbAllowed(m)
    /\ LET n == m.to
           H == {d \in m.ops : Hit(n, d)}
       IN /\ reps' = [reps EXCEPT ![n] = [k \in Key |-> [v \in 1..MaxVer |->
                         IF \E d \in m.ops : d.k = k /\ d.ver = v
                         THEN (IF \E d \in H : d.k = k /\ d.ver = v THEN 1 ELSE @[k][v] + 1)
                         ELSE @[k][v]]]]
          /\ store' = [store EXCEPT ![n] = PutStore(@, {d \in H : MarkApplies(n, d)}, "rec")]
    /\ net' = Take(net, m)
    /\ UNCHANGED <<pendw, eng, ctr, status, pend, hwsnap, rtx, faults, restarts, written, got, act, seen, chg, lag, bad>>

(* A message whose target is down, or that the masked environment may not deliver,
   can only be lost (no fault budget).                                             *)
Lose(m) ==
    /\ status[m.to] = "down" \/ (m.t = "fb" /\ status[m.to] # "down" /\ ~FbAllowed(m))
    /\ net' = Take(net, m)
    /\ UNCHANGED <<pendw, eng, ctr, store, reps, status, pend, hwsnap, rtx, faults, restarts, written, got,
                   act, seen, chg, lag, bad>>
Drop(m) ==
    /\ faults < MaxFaults /\ faults' = faults + 1
    /\ net' = Take(net, m)
    /\ UNCHANGED <<pendw, eng, ctr, store, reps, status, pend, hwsnap, rtx, restarts, written, got, act, seen, chg, lag, bad>>
Dup(m) ==
    /\ faults < MaxFaults /\ faults' = faults + 1
    /\ net' = net (+) SetToBag({m})
    /\ UNCHANGED <<pendw, eng, ctr, store, reps, status, pend, hwsnap, rtx, restarts, written, got, act, seen, chg, lag, bad>>

Crash(n) ==
    /\ status[n] = "up" /\ restarts < MaxRestarts
    /\ "VolatileStore" \in Masked => Infected(n) = {}
    /\ restarts' = restarts + 1
    /\ status' = [status EXCEPT ![n] = "down"]
    /\ store' = [store EXCEPT ![n] = [k \in Key |-> NoEntry]]
    /\ reps' = [reps EXCEPT ![n] = [k \in Key |-> [v \in 1..MaxVer |-> 0]]]
    /\ pendw' = [pendw EXCEPT ![n] = NoPend]
    /\ act' = [act EXCEPT ![n] = [s \in Sub |-> FALSE]]
    /\ seen' = [seen EXCEPT ![n] = [s \in Sub |-> {}]]
    /\ chg' = [chg EXCEPT ![n] = [s \in Sub |-> {}]]
    /\ lag' = [lag EXCEPT ![n] = [s \in Sub |-> FALSE]]
    /\ UNCHANGED <<eng, ctr, pend, hwsnap, rtx, net, faults, written, got, bad>>

Restart(n) ==
    /\ status[n] = "down"
    /\ \A p \in Node \ {n} : status[p] # "down"     \* else Open fails (runRecovery error)
    /\ pend' = [pend EXCEPT ![n] = Node \ {n}]
    /\ hwsnap' = [hwsnap EXCEPT ![n] = HighWater(n)]
    /\ UNCHANGED rtx
    /\ status' = [status EXCEPT ![n] = IF Node = {n} THEN "up" ELSE "rec"]
    /\ UNCHANGED <<pendw, eng, ctr, store, reps, net, faults, restarts, written, got, act, seen, chg, lag, bad>>

(* recovery.go as repaired: runRecovery loads the high-water mark ONCE (hwsnap, what the node
   held when it started) and recovers the peers ONE AFTER THE OTHER (arbitrary order:
   cfg.Cluster.Nodes() is a map); every peer is asked for everything from that mark on, and
   each runSingleNodeRecovery applies, in one transaction, only the streamed operations
   that supersede the stored one (the gossip ingress rule).
   Deviation "RecoveryUncheckedApply" (as-was): one goroutine per peer, the mark loaded at
   start-up (hwsnap) or after another peer's commit, every streamed operation written
   without the supersedes test; the "RecoveryUnchecked" window only exists with it.     *)
Streamed(p, hw) == {o \in EngOps(p) : o.ver >= hw}
AsWasRecovery == "RecoveryUncheckedApply" \in Deviations
NotSerialised == "RecoveryNotSerialised" \in Deviations
Recover(n, p) ==
    /\ ~NotSerialised
    /\ status[n] = "rec" /\ p \in pend[n] /\ status[p] # "down"
    /\ \E hw \in (IF AsWasRecovery THEN {hwsnap[n], HighWater(n)} ELSE {hwsnap[n]}) : LET S == Streamed(p, hw) IN
       /\ (AsWasRecovery /\ "RecoveryUnchecked" \in Masked) =>
             \A o \in S : Supersedes(o, eng[n][o.k]) \/ SameId(o, eng[n][o.k])
       /\ eng' = [eng EXCEPT ![n] = ApplySet(@, IF AsWasRecovery THEN S ELSE AccSet(eng[n], S))]
       /\ got' = [got EXCEPT ![n] = @ \cup S]
    /\ pend' = [pend EXCEPT ![n] = @ \ {p}]
    /\ status' = [status EXCEPT ![n] = IF pend[n] = {p} THEN "up" ELSE "rec"]
    /\ UNCHANGED <<hwsnap, rtx, pendw, ctr, store, reps, net, faults, restarts, written, act, seen, chg, lag, bad>>
(* Deviation "RecoveryNotSerialised" (recovery.go up to a990c2d): kv.Open binds the transport
   handlers and starts the pipeline BEFORE runRecovery, and the recovery transaction of a peer
   stays open for the whole stream.  Its supersedes reads (RecoverRead: which streamed
   operations to apply, decided on the digests stored THEN) and its commit (RecoverCommit:
   those operations written, whatever is stored NOW) are two steps; a gossip request
   accepted in between (RecvSync/RecvAck on a node in "rec") is overwritten.  Repaired
   (default): recovery drains the stream, then takes the lock filterPersist holds around each
   ingress transaction and only then reads, decides and commits: Recover above is atomic.  *)
RecoverRead(n, p) ==
    /\ NotSerialised
    /\ status[n] = "rec" /\ p \in pend[n] /\ status[p] # "down" /\ rtx[n].p = 0
    /\ LET S == Streamed(p, hwsnap[n]) IN
       rtx' = [rtx EXCEPT ![n] = [p |-> p, a |-> AccSet(eng[n], S), s |-> S]]
    /\ UNCHANGED <<eng, ctr, store, reps, status, pend, hwsnap, net, faults, restarts, pendw, written, got,
                   act, seen, chg, lag, bad>>
RecoverCommit(n) ==
    /\ NotSerialised
    /\ status[n] = "rec" /\ rtx[n].p # 0
    /\ eng' = [eng EXCEPT ![n] = ApplySet(@, rtx[n].a)]       \* decided earlier, written now
    /\ got' = [got EXCEPT ![n] = @ \cup rtx[n].s]
    /\ pend' = [pend EXCEPT ![n] = @ \ {rtx[n].p}]
    /\ status' = [status EXCEPT ![n] = IF pend[n] = {rtx[n].p} THEN "up" ELSE "rec"]
    /\ rtx' = [rtx EXCEPT ![n] = NoRtx]
    /\ UNCHANGED <<hwsnap, pendw, ctr, store, reps, net, faults, restarts, written, act, seen, chg, lag, bad>>
RecoverFail(n) ==
    /\ rtx[n].p = 0
    /\ status[n] = "rec" /\ \E p \in pend[n] : status[p] = "down"
    /\ status' = [status EXCEPT ![n] = "down"]
    /\ pend' = [pend EXCEPT ![n] = {}]
    /\ UNCHANGED <<hwsnap, rtx, pendw, eng, ctr, store, reps, net, faults, restarts, written, got, act, seen, chg, lag, bad>>

Subscribe(n, s) ==
    /\ WithSubs /\ status[n] = "up" /\ ~act[n][s]
    /\ act' = [act EXCEPT ![n][s] = TRUE]
    /\ UNCHANGED <<pendw, eng, ctr, store, reps, status, pend, hwsnap, rtx, net, faults, restarts, written, got,
                   seen, chg, lag, bad>>

Next ==
    \/ \E n \in Node, k \in Key, var \in {"set", "del"} : LocalWrite(n, k, var) \/ TxSet(n, k, var)
    \/ \E n \in Node : TxCommit(n)
    \/ \E n, p \in Node : GossipTick(n, p)
    \/ \E m \in BagToSet(net) : RecvSync(m) \/ RecvAck(m) \/ RecvFeedback(m) \/ Lose(m) \/ Drop(m) \/ Dup(m)
    \/ \E n \in Node : Crash(n) \/ Restart(n) \/ RecoverFail(n) \/ RecoverCommit(n)
                       \/ (\E p \in Node : Recover(n, p) \/ RecoverRead(n, p))
    \/ \E n \in Node, s \in Sub : Subscribe(n, s)

Spec == Init /\ [][Next]_vars

NetBound == BagCardinality(net) <= MaxNet /\ \A m \in BagToSet(net) : CopiesIn(m, net) <= 2

----------------------------------------------------------------------------
Digests == [ver : 0..MaxVer, lh : Node \cup {0}, var : {"none", "set", "del"}]
TypeOK ==
    /\ \A n \in Node, k \in Key : eng[n][k] \in Digests
    /\ \A n \in Node : ctr[n] \in 0..MaxVer /\ status[n] \in {"up", "down", "rec"}
    /\ \A n \in Node, k \in Key : store[n][k].st \in {"none", "inf", "rec"}

(* C06: a node's engine is a function of the SET of operations delivered to it.     *)
OrderIndependence == \A n \in Node, k \in Key : eng[n][k] = Winner(got[n], k)
SameSetSameState == \A n, m \in Node : got[n] = got[m] => eng[n] = eng[m]
(* C06: an applied operation is never replaced by an older one.                     *)
NoRegress == [][\A n \in Node, k \in Key :
                   eng'[n][k] = eng[n][k] \/ eng[n][k].var = "none" \/ Newer(eng'[n][k], eng[n][k])]_vars
(* C06: quiescent convergence, safety form.                                         *)
Quiescent == net = EmptyBag /\ \A n \in Node : status[n] = "up" /\ Infected(n) = {}
QuiescentConverged == Quiescent => \A n \in Node, k \in Key : eng[n][k] = Winner(written, k)
(* versions are assigned only by a key's leaseholder, strictly increasing            *)
LeaseVersions == \A o, p \in written : (o.k = p.k /\ o.lh = p.lh /\ o.ver = p.ver) => o = p

(* C13 *)
AtMostOnce == "dup" \notin bad
NeverStale == "stale" \notin bad
CompleteWhileKeepingUp == \A n \in Node : (act[n]["p"] /\ ~lag[n]["p"]) => seen[n]["p"] = chg[n]["p"]
HostFilterExact == \A n \in Node : (act[n]["f"] /\ ~lag[n]["f"]) =>
                       seen[n]["f"] = {o \in chg[n]["f"] : o.lh # n}

(* vacuity probe: a deliverable feedback whose mark reaches the threshold over a DIFFERENT
   (newer) store entry - the situation the repair of store.go is about - is reachable
   (run with this as an invariant: TLC must report it violated).                       *)
NoStaleHit == \A m \in BagToSet(net) :
                 ~(m.t = "fb" /\ status[m.to] # "down" /\ \E d \in m.ops : Hit(m.to, d) /\ ~SameEntry(m.to, d))

(* liveness form, checked only without constraints on small instances              *)
Converged == \A n \in Node, k \in Key : eng[n][k] = Winner(written, k)
=============================================================================
