-------------------------- MODULE AspenKVStallGen --------------------------
(* Long ingress streams for the clause of C13 "while it keeps up with the stream, [a
   subscriber] is notified of every operation that changed the node's stored state", with
   SEVERAL subscribers of which one does not keep up (AspenKV.tla: AllowLag / lag[n][s]).

   One real node `Host`.  Before traffic the harness attaches a plain and a host-filtered
   subscriber that keep up, and a STALLED plain subscriber whose handler blocks until the
   end of the history; after `LateAt` requests two more fast subscribers attach.  TLC
   (simulation mode) then produces N gossip requests of one operation each over Key x
   Remote x {set,del}: a strictly newer version (accepted), the stored operation again or an
   older one (rejected), every step recording what AspenKVOps!FPSeq computes.  With N >= 100
   about two thirds are accepted, so the stalled subscriber's queue (one notification in its
   handler + 64 buffered: x/go/observe async) overflows long before the end.

   Expected by the specification (x/go/observe async.Notify: a non-blocking send PER
   handler; a full queue loses that handler's notification only):
     - every subscriber that keeps up is shown exactly the accepted operations of every
       request, in order (p / f of each step; compared after every step);
     - the stalled subscriber is shown a subsequence of the accepted operations, each at
       most once (it may lose the rest: lag).
   The history format is AspenKVGen's ("init" with stall |-> TRUE, "sync", "sub").        *)
EXTENDS AspenKVOps, TLC, Json

CONSTANTS Host, Remote, Key, N, LateAt

VARIABLES e, hi, step, hist
svars == <<e, hi, step, hist>>

SInit ==
    /\ e = [k \in Key |-> Absent]
    /\ hi = [k \in Key |-> 0]
    /\ step = 0
    /\ hist = <<[a |-> "init", host |-> Host, c0 |-> 0, late |-> TRUE, stall |-> TRUE]>>

Deliver(o) ==
    LET r == FPSeq(e, <<o>>, <<>>, <<>>) IN
    /\ e' = r.eng
    /\ hi' = [hi EXCEPT ![o.k] = IF o.ver > @ THEN o.ver ELSE @]
    /\ step' = step + 1
    /\ hist' = Append(hist, [a |-> "sync", from |-> o.lh, ops |-> <<o>>, acc |-> r.acc, rej |-> r.rej,
                             eng |-> r.eng, p |-> r.acc, f |-> r.acc])

SNext ==
    /\ step < N
    /\ IF step = LateAt /\ hist[Len(hist)].a # "sub"
       THEN hist' = Append(hist, [a |-> "sub"]) /\ UNCHANGED <<e, hi, step>>
       ELSE \E k \in Key :
              \/ \E lh \in Remote, var \in {"set", "del"} :            \* newer: accepted
                    Deliver([k |-> k, ver |-> hi[k] + 1, lh |-> lh, var |-> var])
              \/ e[k].var # "none" /\ Deliver([k |-> k, ver |-> e[k].ver, lh |-> e[k].lh, var |-> e[k].var])
              \/ e[k].ver > 1 /\ Deliver([k |-> k, ver |-> e[k].ver - 1, lh |-> CHOOSE l \in Remote : TRUE, var |-> "set"])

SSpec == SInit /\ [][SNext]_svars

SEmit == step < N \/ PrintT(<<"HIST", ToJson(hist)>>)
=============================================================================
