------------------------------- MODULE ArcGen -------------------------------
(***************************************************************************
 Generator for C19: TLC enumerates well-typed Arc programs of the ArcSem
 fragment and prints, for each, its source text, the argument tuples
 (boundary values of the parameter types) and the outcome ArcSem.Run
 defines for every tuple.

 A program is built token by token in post-order (a stack machine), so every
 program has exactly one construction sequence and a breadth-first run of TLC
 is a bounded-exhaustive enumeration of all programs with at most MaxNodes
 tokens; `-simulate` gives seeded random programs with a larger MaxNodes.

   PushLeaf   parameter / typed literal / declared local
   Neg Not Cast(t) Bin(op)      expression operators on the stack `stk`
   SLet SSet SCSet SRet         statements consuming the single expression
   SIf SElseIf SElse SEndIf     block structure (`frames`)
   Finish                       body returns on all paths -> phase "emit"
   Emit                         prints <<"HIST", json>>, phase "done"

 Truth mode (Special = "truth"): i64/u64 parameters, locals, `-a` and bare integer
 literals used directly as `if` / `else if` conditions and and/or operands, with
 64-bit boundary values whose low 32 bits are zero (2^32, 5*2^32, 2^40, -2^63).
 Nest mode (Special = "nest"): a local declared inside an if block, optionally
 another in a nested if and in the else block, then locals declared in the function
 body AFTER the chain, every combination of the WASM carrier types i32 (u8), i64,
 f64 (declared only); every local is read back on some argument.

 Chain mode (ChainK # {}): instead of building token by token, the initial
 states are ALL if-chains `x T := b; if c1 {B1} else if c2 {B2} ... [else {Bn}];
 tail` with k \in ChainK `else if` clauses, every block either `return T(10+i)`
 or `x = T(20+i)` (every combination of returning / falling-through blocks),
 with and without a final else, conditions `ua8 == u8(v_i)` or `ua8 < u8(w_i)`
 whose constants are boundary argument values (so the arguments select every
 branch and the no-branch case), followed by `return x` or `x += b; return x`.

 Only the typing rules the language specification states are built in:
 operands of a binary operator have the same type [M]; and/or/not/if take u8
 [B]; comparisons yield u8 [T]; unary minus only on signed types; a function
 returns its declared type on every path and nothing follows a return [R].
 ***************************************************************************)
EXTENDS ArcSem, Json, FiniteSets

CONSTANTS
    Types,      \* types of parameters / literals / casts, subset of Narrow \cup Word
    Ops,        \* binary operators enabled
    Unary,      \* subset of {"neg", "not", "cast"}
    Stmts,      \* subset of {"let", "set", "cset", "if"}  ("ret" is always on)
    LitVals,    \* small literal values, e.g. {0, 2}
    LitMax,     \* BOOLEAN: also the literal T(max T)
    UseWide,    \* BOOLEAN: i64 parameter under narrowing casts, casts to i64/u64 at a return
    MaxNodes, MaxStack, MaxLocals, MaxParams, MaxFrames,
    MinNodes,   \* a top-level `return` needs at least this many tokens before it (longer sampled bodies)
    ChainK,     \* {} = token-by-token mode; else the numbers of `else if` clauses of the chain mode
    Special     \* "" | "truth" (64-bit values as truth values) | "nest" (locals in nested blocks)

VARIABLES stk, frames, body, locals, used, retT, nodes, phase
vars == <<stk, frames, body, locals, used, retT, nodes, phase>>

AllParams == << [n |-> "a8", t |-> "i8"], [n |-> "b8", t |-> "i8"],
                [n |-> "ua8", t |-> "u8"], [n |-> "ub8", t |-> "u8"],
                [n |-> "a16", t |-> "i16"], [n |-> "b16", t |-> "i16"],
                [n |-> "ua16", t |-> "u16"], [n |-> "ub16", t |-> "u16"],
                [n |-> "a32", t |-> "i32"], [n |-> "b32", t |-> "i32"],
                [n |-> "ua32", t |-> "u32"], [n |-> "ub32", t |-> "u32"],
                [n |-> "a64", t |-> "i64"], [n |-> "b64", t |-> "i64"], [n |-> "ua64", t |-> "u64"] >>
LocalNames == <<"x", "y", "z">>

ParamLeaves == {[k |-> "par", t |-> AllParams[i].t, n |-> AllParams[i].n] : i \in
                    {j \in 1..Len(AllParams) : AllParams[j].t \in Types \/ (UseWide /\ AllParams[j].n = "a64")}}
LitLeaves == {[k |-> "lit", t |-> t, v |-> v] : t \in Types, v \in LitVals} \cup
             (IF LitMax THEN {[k |-> "lit", t |-> t, v |-> Max(t)] : t \in Types} ELSE {})
LocalLeaves == {[k |-> "loc", t |-> locals[i].t, n |-> locals[i].n] : i \in 1..Len(locals)}

Scalar == Narrow \cup Word

RECURSIVE DefRet(_)
DefRet(ss) == /\ ss # <<>>
              /\ LET s == ss[Len(ss)] IN
                 \/ s.k = "ret"
                 \/ /\ s.k = "if" /\ s.hasElse /\ DefRet(s.els)
                    /\ \A i \in 1..Len(s.arms) : DefRet(s.arms[i].b)

\* the statement list currently being extended
Cur == IF frames = <<>> THEN body ELSE frames[Len(frames)].cur
\* lower bound on the tokens still needed to reach a complete program
Need(s, fr, bd) ==
    (IF Len(s) > 0 THEN Len(s) ELSE 0) +
    (IF Len(s) = 0 /\ fr = <<>> /\ ~DefRet(bd) THEN 2 ELSE 0)
Budget(s, fr, bd, n) == n + Need(s, fr, bd) <= MaxNodes

Building == phase = "build"
Push(e) == /\ stk' = Append(stk, e) /\ Budget(stk', frames, body, nodes + 1) /\ nodes' = nodes + 1
Replace1(e) == /\ stk' = Append(SubSeq(stk, 1, Len(stk) - 1), e) /\ nodes' = nodes + 1 /\ nodes + 1 <= MaxNodes
Top == stk[Len(stk)]

PushLeaf ==
    /\ Building /\ Len(stk) < MaxStack
    /\ \/ ~DefRet(Cur)
       \/ frames # <<>> /\ ~frames[Len(frames)].inElse /\ stk = <<>>     \* condition of an `else if`
    /\ \E l \in ParamLeaves \cup LitLeaves \cup LocalLeaves :
          /\ l.k = "par" => (l.n \in used \/ Cardinality(used) < MaxParams)
          /\ Push(l)
          /\ used' = IF l.k = "par" THEN used \cup {l.n} ELSE used
    /\ UNCHANGED <<frames, body, locals, retT, phase>>

NegA == /\ Building /\ "neg" \in Unary /\ Len(stk) > 0 /\ Top.t \in {"i8", "i16", "i32"}
        /\ Replace1([k |-> "neg", t |-> Top.t, e |-> Top])
        /\ UNCHANGED <<frames, body, locals, used, retT, phase>>
NotA == /\ Building /\ "not" \in Unary /\ Len(stk) > 0 /\ Top.t = "u8"
        /\ Replace1([k |-> "not", t |-> "u8", e |-> Top])
        /\ UNCHANGED <<frames, body, locals, used, retT, phase>>
CastA == /\ Building /\ "cast" \in Unary /\ Len(stk) > 0
         /\ \E t \in Types \cup (IF UseWide THEN Wide ELSE {}) :
               /\ t # Top.t
               \* 64-bit source: only the same-signedness narrowing i64 -> i8/i16/i32 ("Narrowing (e.g.,
               \* i8(i64_val)) truncates"); i64 -> u8/u16 is not generated (narrowing or saturation first?)
               /\ Top.t \in Wide => (Top.k = "par" /\ t \in {"i8", "i16", "i32"})
               /\ t \in Wide => Top.t \in Scalar
               /\ Replace1([k |-> "cast", t |-> t, e |-> Top])
         /\ UNCHANGED <<frames, body, locals, used, retT, phase>>
BinA == /\ Building /\ Len(stk) >= 2
        /\ LET l == stk[Len(stk) - 1]
               r == stk[Len(stk)]
           IN /\ l.t = r.t /\ l.t \in Scalar
              /\ \E op \in Ops :
                    /\ op \in LogOps => l.t = "u8"
                    /\ stk' = Append(SubSeq(stk, 1, Len(stk) - 2),
                                     [k |-> "bin", op |-> op, l |-> l, r |-> r,
                                      t |-> IF op \in CmpOps \cup LogOps THEN "u8" ELSE l.t])
                    /\ nodes' = nodes + 1 /\ nodes + 1 <= MaxNodes
        /\ UNCHANGED <<frames, body, locals, used, retT, phase>>

\* ---- statements: the stack holds exactly the expression consumed -----------
AppendCur(s) ==
    IF frames = <<>> THEN /\ body' = Append(body, s) /\ frames' = frames
    ELSE /\ frames' = [frames EXCEPT ![Len(frames)].cur = Append(@, s)] /\ body' = body
One == Building /\ Len(stk) = 1 /\ ~DefRet(Cur) /\ nodes + 1 <= MaxNodes

SRet == /\ One
        /\ \/ Top.t \in Scalar
           \/ Top.t \in Wide /\ Top.k = "cast"
        /\ retT \in {"none", Top.t}
        /\ frames = <<>> => nodes >= MinNodes
        /\ retT' = Top.t /\ AppendCur([k |-> "ret", e |-> Top])
        /\ stk' = <<>> /\ nodes' = nodes + 1
        /\ Budget(stk', frames', body', nodes')
        /\ UNCHANGED <<locals, used, phase>>
SLet == /\ One /\ "let" \in Stmts /\ frames = <<>> /\ Len(locals) < MaxLocals /\ Top.t \in Scalar
        /\ \E typed \in BOOLEAN :
              LET n == LocalNames[Len(locals) + 1] IN
              /\ AppendCur([k |-> "let", n |-> n, t |-> Top.t, typed |-> typed, e |-> Top])
              /\ locals' = Append(locals, [n |-> n, t |-> Top.t])
        /\ stk' = <<>> /\ nodes' = nodes + 1 /\ Budget(stk', frames', body', nodes')
        /\ UNCHANGED <<used, retT, phase>>
SSet == /\ One /\ "set" \in Stmts
        /\ \E i \in 1..Len(locals) :
              /\ locals[i].t = Top.t
              /\ AppendCur([k |-> "set", n |-> locals[i].n, e |-> Top])
        /\ stk' = <<>> /\ nodes' = nodes + 1 /\ Budget(stk', frames', body', nodes')
        /\ UNCHANGED <<locals, used, retT, phase>>
SCSet == /\ One /\ "cset" \in Stmts
         /\ \E i \in 1..Len(locals), op \in Ops \cap (ArithOps \cup DivOps) :
               /\ locals[i].t = Top.t
               /\ AppendCur([k |-> "cset", n |-> locals[i].n, t |-> Top.t, op |-> op, e |-> Top])
         /\ stk' = <<>> /\ nodes' = nodes + 1 /\ Budget(stk', frames', body', nodes')
         /\ UNCHANGED <<locals, used, retT, phase>>
SIf == /\ One /\ "if" \in Stmts /\ Top.t = "u8" /\ Len(frames) < MaxFrames
       /\ frames' = Append(frames, [arms |-> <<>>, c |-> Top, cur |-> <<>>, inElse |-> FALSE])
       /\ stk' = <<>> /\ nodes' = nodes + 1 /\ Budget(stk', frames', body, nodes' + 2)
       /\ UNCHANGED <<body, locals, used, retT, phase>>
Fr == frames[Len(frames)]
SElseIf == /\ Building /\ Len(stk) = 1 /\ Top.t = "u8" /\ frames # <<>> /\ ~Fr.inElse /\ Fr.cur # <<>>
           /\ frames' = [frames EXCEPT ![Len(frames)] =
                            [arms |-> Append(Fr.arms, [c |-> Fr.c, b |-> Fr.cur]), c |-> Top, cur |-> <<>>, inElse |-> FALSE]]
           /\ stk' = <<>> /\ nodes' = nodes + 1 /\ Budget(stk', frames', body, nodes' + 2)
           /\ UNCHANGED <<body, locals, used, retT, phase>>
SElse == /\ Building /\ stk = <<>> /\ frames # <<>> /\ ~Fr.inElse /\ Fr.cur # <<>>
         /\ frames' = [frames EXCEPT ![Len(frames)] =
                          [arms |-> Append(Fr.arms, [c |-> Fr.c, b |-> Fr.cur]), c |-> Fr.c, cur |-> <<>>, inElse |-> TRUE]]
         /\ nodes' = nodes + 1 /\ Budget(stk, frames', body, nodes' + 2)
         /\ UNCHANGED <<stk, body, locals, used, retT, phase>>
SEndIf == /\ Building /\ stk = <<>> /\ frames # <<>> /\ Fr.cur # <<>>
          /\ LET s == IF Fr.inElse
                      THEN [k |-> "if", arms |-> Fr.arms, els |-> Fr.cur, hasElse |-> TRUE]
                      ELSE [k |-> "if", arms |-> Append(Fr.arms, [c |-> Fr.c, b |-> Fr.cur]), els |-> <<>>, hasElse |-> FALSE]
                 up == SubSeq(frames, 1, Len(frames) - 1)
             IN IF up = <<>> THEN /\ body' = Append(body, s) /\ frames' = up
                ELSE /\ frames' = [up EXCEPT ![Len(up)].cur = Append(@, s)] /\ body' = body
          /\ Budget(stk, frames', body', nodes)
          /\ UNCHANGED <<stk, locals, used, retT, nodes, phase>>

Finish == /\ Building /\ stk = <<>> /\ frames = <<>> /\ DefRet(body)
          /\ phase' = "emit"
          /\ UNCHANGED <<stk, frames, body, locals, used, retT, nodes>>

\* ---- emission ----------------------------------------------------------------
Ps == LET idx == {i \in 1..Len(AllParams) : AllParams[i].n \in used}
          RECURSIVE Build(_)
          Build(i) == IF i > Len(AllParams) THEN <<>>
                      ELSE (IF i \in idx THEN <<AllParams[i]>> ELSE <<>>) \o Build(i + 1)
      IN Build(1)
Prog == [ret |-> retT, ps |-> Ps, body |-> body]

\* 64-bit boundary values as [hi, lo] halves: small values for the narrowing casts, and values that are
\* non-zero with all-zero low 32 bits (2^32, 5*2^32, 2^40, -2^63 / 2^63, -2^32) or a zero high half with the
\* 32-bit sign bit set (2^31) for truthiness
W(h, l) == [hi |-> h, lo |-> l]
WI64 == << W(0, 0), W(0, 1), W(-1, -1), W(0, 127), W(0, 128), W(-1, -129), W(0, 256), W(0, 65536), W(-1, -32769),
           W(0, MinI32), W(1, 0), W(5, 0), W(256, 0), W(MinI32, 0), W(-1, 0), W(1, 1) >>
WU64 == << W(0, 0), W(0, 1), W(0, 255), W(0, 256), W(0, MinI32), W(1, 0), W(5, 0), W(256, 0), W(MinI32, 0), W(-1, -1) >>
\* boundary argument values: all of them for one parameter, fewer when there are more
BFull(t) == CASE t = "i8"  -> <<-128, -127, -64, -2, -1, 0, 1, 2, 11, 12, 63, 64, 126, 127>>
              [] t = "u8"  -> <<0, 1, 2, 15, 16, 17, 127, 128, 129, 254, 255>>
              [] t = "i16" -> <<-32768, -32767, -257, -256, -129, -128, -127, -1, 0, 1, 2, 127, 128, 181, 182, 255, 256, 32766, 32767>>
              [] t = "u16" -> <<0, 1, 2, 127, 128, 255, 256, 257, 32767, 32768, 65534, 65535>>
              [] t = "i32" -> <<MinI32, MinI32 + 1, -65537, -65536, -32769, -32768, -129, -128, -1, 0, 1, 2, 127, 128,
                                255, 256, 32767, 32768, 46340, 46341, 65535, 65536, MaxI32 - 1, MaxI32>>
              [] t = "u32" -> <<0, 1, 2, 255, 256, 65535, 65536, 46340, 46341, MaxI32 - 1, MaxI32>>
              [] t = "i64" -> WI64
              [] t = "u64" -> WU64
BMid(t) ==  CASE t = "i8"  -> <<-128, -127, -1, 0, 1, 2, 11, 126, 127>>
              [] t = "u8"  -> <<0, 1, 2, 16, 127, 128, 254, 255>>
              [] t = "i16" -> <<-32768, -32767, -129, -1, 0, 1, 2, 128, 182, 256, 32767>>
              [] t = "u16" -> <<0, 1, 2, 128, 256, 257, 32768, 65534, 65535>>
              [] t = "i32" -> <<MinI32, MinI32 + 1, -32769, -129, -1, 0, 1, 2, 256, 46341, 65536, MaxI32>>
              [] t = "u32" -> <<0, 1, 2, 256, 46341, 65536, MaxI32 - 1, MaxI32>>
              [] t = "i64" -> WI64
              [] t = "u64" -> WU64
BSmall(t) == CASE t = "i8"  -> <<-128, -1, 0, 2, 127>>
               [] t = "u8"  -> <<0, 1, 2, 128, 255>>
               [] t = "i16" -> <<-32768, -1, 0, 2, 32767>>
               [] t = "u16" -> <<0, 1, 2, 32768, 65535>>
               [] t = "i32" -> <<MinI32, -1, 0, 2, MaxI32>>
               [] t = "u32" -> <<0, 1, 2, 65536, MaxI32>>
               [] t = "i64" -> <<W(0, 0), W(0, 256), W(-1, -129), W(1, 0), W(MinI32, 0)>>
               [] t = "u64" -> <<W(0, 0), W(0, 1), W(1, 0), W(MinI32, 0), W(-1, -1)>>
B(t, k) == IF k <= 1 THEN BFull(t) ELSE IF k = 2 THEN BMid(t) ELSE BSmall(t)

ArgsFor(ps) ==
    LET k == Len(ps)
        b(i) == B(ps[i].t, k)
        n(i) == Len(b(i))
    IN CASE k = 0 -> << <<>> >>
         [] k = 1 -> [i \in 1..n(1) |-> <<b(1)[i]>>]
         [] k = 2 -> [i \in 1..(n(1) * n(2)) |-> <<b(1)[((i - 1) \div n(2)) + 1], b(2)[((i - 1) % n(2)) + 1]>>]
         [] k = 3 -> [i \in 1..(n(1) * n(2) * n(3)) |->
                        <<b(1)[((i - 1) \div (n(2) * n(3))) + 1],
                          b(2)[(((i - 1) \div n(3)) % n(2)) + 1],
                          b(3)[((i - 1) % n(3)) + 1]>>]

RECURSIVE HasCast(_)
HasCast(e) == CASE e.k = "cast" -> TRUE
                [] e.k \in {"neg", "not"} -> HasCast(e.e)
                [] e.k = "bin" -> HasCast(e.l) \/ HasCast(e.r)
                [] OTHER -> FALSE
OtherType(t) == IF t = "i16" THEN "u8" ELSE "i16"

\* ill-typed / ill-formed variants of the same program, for the no-crash clause
Bad(p) ==
    <<  ShowG(p.ps, p.ret, p.body, "nocast"),                               \* casts dropped: mixed widths [M]
        ShowG(p.ps, p.ret, p.body, "bare"),                                 \* literals without their type
        ShowG(p.ps, OtherType(p.ret), p.body, "std"),                       \* declared return type differs
        ShowG(SubSeq(p.ps, 1, Len(p.ps) - 1), p.ret, p.body, "std"),        \* last parameter undeclared
        ShowG(p.ps, p.ret, SubSeq(p.body, 1, Len(p.body) - 1), "std") >>    \* final statement (a return) missing

Record(p) ==
    LET as == ArgsFor(p.ps)
        rs == [i \in 1..Len(as) |-> Run(p, as[i])]
    IN [src |-> Show(p), ret |-> p.ret,
        pn |-> [i \in 1..Len(p.ps) |-> p.ps[i].n], pt |-> [i \in 1..Len(p.ps) |-> p.ps[i].t],
        args |-> as, o |-> [i \in 1..Len(as) |-> rs[i].o], v |-> [i \in 1..Len(as) |-> rs[i].v],
        body |-> p.body, nodes |-> nodes, bad |-> Bad(p)]

Emit == /\ phase = "emit"
        /\ PrintT(<<"HIST", ToJson(Record(Prog))>>)
        /\ phase' = "done"
        /\ UNCHANGED <<stk, frames, body, locals, used, retT, nodes>>

\* ---- chain mode ---------------------------------------------------------------
ChainEq  == <<0, 1, 2, 16>>          \* all of them boundary argument values of u8
ChainThr == <<1, 2, 16, 127>>
ChainParName(T) == CASE T = "u8" -> "ub8" [] T = "i8" -> "b8" [] T = "i16" -> "b16" [] T = "u16" -> "ub16"
                     [] T = "i32" -> "b32" [] T = "u32" -> "ub32"
ChainCond(op, i) == [k |-> "bin", op |-> op, t |-> "u8", l |-> [k |-> "par", t |-> "u8", n |-> "ua8"],
                     r |-> [k |-> "lit", t |-> "u8", v |-> IF op = "==" THEN ChainEq[i] ELSE ChainThr[i]]]
ChainBlk(T, shape, i) == IF shape = "ret" THEN <<[k |-> "ret", e |-> [k |-> "lit", t |-> T, v |-> 10 + i]]>>
                         ELSE <<[k |-> "set", n |-> "x", e |-> [k |-> "lit", t |-> T, v |-> 20 + i]]>>
ChainTail(T, tl) == LET rx == [k |-> "ret", e |-> [k |-> "loc", t |-> T, n |-> "x"]] IN
                    IF tl = 1 THEN <<rx>>
                    ELSE <<[k |-> "cset", n |-> "x", t |-> T, op |-> "+", e |-> [k |-> "par", t |-> T, n |-> ChainParName(T)]], rx>>
ChainBody(T, k, sh, hasElse, op, tl) ==
    << [k |-> "let", n |-> "x", t |-> T, typed |-> TRUE, e |-> [k |-> "par", t |-> T, n |-> ChainParName(T)]],
       [k |-> "if", arms |-> [i \in 1..(k + 1) |-> [c |-> ChainCond(op, i), b |-> ChainBlk(T, sh[i], i)]],
        els |-> IF hasElse THEN ChainBlk(T, sh[k + 2], k + 2) ELSE <<>>, hasElse |-> hasElse] >>
    \o ChainTail(T, tl)
ChainInit ==
    \E T \in Types, k \in ChainK, hasElse \in BOOLEAN, op \in {"==", "<"}, tl \in {1, 2} :
    \E sh \in [1..(k + 2) -> {"ret", "set"}] :
        /\ ~hasElse => sh[k + 2] = "ret"                              \* unused slot: one representative
        /\ ~(hasElse /\ \A i \in 1..(k + 2) : sh[i] = "ret")          \* nothing may follow a chain that always returns
        /\ body = ChainBody(T, k, sh, hasElse, op, tl)
        /\ locals = <<[n |-> "x", t |-> T]>> /\ used = {"ua8", ChainParName(T)} /\ retT = T
        /\ stk = <<>> /\ frames = <<>> /\ nodes = 0 /\ phase = "emit"

\* ---- truth mode: a 64-bit integer used directly as a truth value -----------------------------
U8L(v) == [k |-> "lit", t |-> "u8", v |-> v]
RetC(v) == [k |-> "ret", e |-> U8L(v)]
If1(c, b) == [k |-> "if", arms |-> <<[c |-> c, b |-> b]>>, els |-> <<>>, hasElse |-> FALSE]
WPar(n, t) == [k |-> "par", t |-> t, n |-> n]
WLoc(n, t) == [k |-> "loc", t |-> t, n |-> n]
UA8 == [k |-> "par", t |-> "u8", n |-> "ua8"]
BareLits == << [k |-> "blit", t |-> "i64", v |-> W(0, 0), txt |-> "0"], [k |-> "blit", t |-> "i64", v |-> W(0, 1), txt |-> "1"],
               [k |-> "blit", t |-> "i64", v |-> W(1, 0), txt |-> "4294967296"],
               [k |-> "blit", t |-> "i64", v |-> W(5, 0), txt |-> "21474836480"],
               [k |-> "blit", t |-> "i64", v |-> W(256, 0), txt |-> "1099511627776"],
               [k |-> "blit", t |-> "i64", v |-> W(0, MinI32), txt |-> "2147483648"] >>
TruthBodies ==
    LET pw(t) == IF t = "i64" THEN WPar("a64", "i64") ELSE WPar("ua64", "u64")
        bl == {BareLits[i] : i \in 1..Len(BareLits)}
    IN  \* (body, used parameter names)
        {[b |-> <<If1(pw(t), <<RetC(1)>>), RetC(2)>>, u |-> {pw(t).n}] : t \in Wide}
   \cup {[b |-> <<[k |-> "if", arms |-> <<[c |-> UA8, b |-> <<RetC(1)>>], [c |-> pw(t), b |-> <<RetC(3)>>]>>,
                    els |-> <<>>, hasElse |-> FALSE], RetC(2)>>, u |-> {"ua8", pw(t).n}] : t \in Wide}
   \cup {[b |-> <<[k |-> "if", arms |-> <<[c |-> UA8, b |-> <<RetC(1)>>], [c |-> pw(t), b |-> <<RetC(3)>>]>>,
                    els |-> <<RetC(4)>>, hasElse |-> TRUE]>>, u |-> {"ua8", pw(t).n}] : t \in Wide}
   \cup {[b |-> <<[k |-> "let", n |-> "x", t |-> t, typed |-> ty, e |-> pw(t)], If1(WLoc("x", t), <<RetC(1)>>), RetC(2)>>,
          u |-> {pw(t).n}] : t \in Wide, ty \in BOOLEAN}
   \cup {[b |-> <<If1([k |-> "neg", t |-> "i64", e |-> pw("i64")], <<RetC(1)>>), RetC(2)>>, u |-> {"a64"}]}
   \cup {[b |-> <<[k |-> "let", n |-> "x", t |-> "i64", typed |-> TRUE, e |-> [k |-> "neg", t |-> "i64", e |-> pw("i64")]],
                  If1(UA8, <<If1(WLoc("x", "i64"), <<RetC(1)>>)>>), RetC(2)>>, u |-> {"ua8", "a64"}]}
   \cup {[b |-> <<If1(pw("i64"), <<If1(WPar("b64", "i64"), <<RetC(1)>>), RetC(3)>>), RetC(2)>>, u |-> {"a64", "b64"}]}
   \cup {[b |-> <<[k |-> "ret", e |-> [k |-> "bin", op |-> op, t |-> "u8", l |-> l, r |-> r]]>>, u |-> {}] :
              op \in LogOps, l \in bl, r \in bl}
   \cup {[b |-> <<If1(l, <<RetC(1)>>), RetC(2)>>, u |-> {}] : l \in bl}
   \cup {[b |-> <<[k |-> "let", n |-> "x", t |-> "i64", typed |-> FALSE, e |-> l], If1(WLoc("x", "i64"), <<RetC(1)>>), RetC(2)>>,
          u |-> {}] : l \in bl}
TruthInit == \E p \in TruthBodies :
                /\ body = p.b /\ used = p.u /\ retT = "u8" /\ locals = <<>>
                /\ stk = <<>> /\ frames = <<>> /\ nodes = 0 /\ phase = "emit"

\* ---- nest mode: locals declared inside nested blocks, then later outer locals ------------------
\* carrier types: u8 -> i32, i64 -> i64, f64 -> f64 (a float local is only declared, never read)
NT == {"u8", "i64", "f64"}
NInit(t, id) == CASE t = "u8" -> U8L(10 + id)
                  [] t = "i64" -> [k |-> "lit", t |-> "i64", v |-> W(0, 10 + id), txt |-> ToString(10 + id)]
                  [] t = "f64" -> [k |-> "flit", t |-> "f64", txt |-> "1.5"]
NLet(n, t, id) == [k |-> "let", n |-> n, t |-> t, typed |-> TRUE, e |-> NInit(t, id)]
\* a u8 expression reading local n of type t (distinct value per local)
NUse(n, t, id) == CASE t = "u8" -> [k |-> "loc", t |-> "u8", n |-> n]
                    [] t = "i64" -> [k |-> "bin", op |-> "==", t |-> "u8",
                                     l |-> [k |-> "cast", t |-> "i8", e |-> WLoc(n, "i64")], r |-> [k |-> "lit", t |-> "i8", v |-> 10 + id]]
                    [] t = "f64" -> U8L(40 + id)
Opt(S) == S \cup {"none"}
NCond(v) == [k |-> "bin", op |-> "<", t |-> "u8", l |-> UA8, r |-> U8L(v)]
NestBody(tp, t1, t2, t3, t4, t5) ==
    (IF tp = "none" THEN <<>> ELSE <<NLet("lp", tp, 0)>>) \o
    << [k |-> "if",
        arms |-> <<[c |-> NCond(2),
                    b |-> <<NLet("lm", t1, 1)>> \o
                          (IF t2 = "none" THEN <<>>
                           ELSE <<If1(NCond(1), <<NLet("ln", t2, 2), [k |-> "ret", e |-> NUse("ln", t2, 2)]>>)>>) \o
                          <<[k |-> "ret", e |-> NUse("lm", t1, 1)]>>]>>,
        els |-> IF t3 = "none" THEN <<>>
                ELSE <<NLet("lk", t3, 3), If1(NCond(127), <<[k |-> "ret", e |-> NUse("lk", t3, 3)]>>)>>,
        hasElse |-> t3 # "none"] >> \o
    <<NLet("ly", t4, 4)>> \o
    (IF t5 = "none" THEN <<>> ELSE <<NLet("lz", t5, 5)>>) \o
    (IF tp = "none" THEN <<>> ELSE <<If1(NCond(128), <<[k |-> "ret", e |-> NUse("lp", tp, 0)]>>)>>) \o
    (IF t5 = "none" THEN <<>> ELSE <<If1(NCond(129), <<[k |-> "ret", e |-> NUse("lz", t5, 5)]>>)>>) \o
    <<[k |-> "ret", e |-> NUse("ly", t4, 4)]>>
NestInit == \E tp \in Opt(NT), t1 \in NT, t2 \in Opt(NT), t3 \in Opt(NT), t4 \in NT, t5 \in Opt(NT) :
                /\ body = NestBody(tp, t1, t2, t3, t4, t5) /\ used = {"ua8"} /\ retT = "u8" /\ locals = <<>>
                /\ stk = <<>> /\ frames = <<>> /\ nodes = 0 /\ phase = "emit"

Init == IF Special = "truth" THEN TruthInit ELSE IF Special = "nest" THEN NestInit ELSE
        IF ChainK # {} THEN ChainInit
        ELSE /\ stk = <<>> /\ frames = <<>> /\ body = <<>> /\ locals = <<>> /\ used = {}
             /\ retT = "none" /\ nodes = 0 /\ phase = "build"
Next == PushLeaf \/ NegA \/ NotA \/ CastA \/ BinA \/ SRet \/ SLet \/ SSet \/ SCSet
        \/ SIf \/ SElseIf \/ SElse \/ SEndIf \/ Finish \/ Emit
GSpec == Init /\ [][Next]_vars
=============================================================================
