------------------------------- MODULE ArcSem -------------------------------
(***************************************************************************
 C19 - "Compiled Arc code computes what the language specification says".

 This module is a transcription of the *language specification*
 /repo/arc/docs/spec.md (NOT of the compiler) for the fragment of Arc that
 TLC's 32-bit integers can decide: typed abstract syntax trees over the
 narrow integer types, an evaluator `Eval`/`Exec`/`Run` that gives every
 tree the outcome the written specification defines, and a printer `Show`
 that renders a tree as Arc source text with exactly the parentheses the
 specification's precedence table makes necessary.  ArcGen.tla enumerates
 trees and prints {source, arguments, expected outcome}; the Go harness
 compiles the source with the real arc.CompileText, runs the module under
 wazero and compares (tools/props/c19.py).

 Fragment (what is included, precisely)
   types      i8 u8 i16 u16 : complete value range, every operation.
              i32           : complete value range for parameters, + - unary -
                              comparisons, casts, / and %; `*` only when the
                              mathematical product fits 32 bits (else the
                              case is marked "x" = not decided).
              u32           : only the half [0, 2^31-1] TLC can represent; a
                              result outside it marks the case "x".
              i64 u64       : only (a) as the target of a cast applied to a
                              narrow value (value always fits) and (b) an i64
                              parameter with a 32-bit value directly under a
                              narrowing cast to i8/i16/i32 (the specification's
                              own example `i8(i64_val)`); i64 -> u8/u16 is not
                              generated (narrowing or saturation first?).
              64-bit values are records [hi, lo] of two 32-bit halves (value =
              hi * 2^32 + lo mod 2^32), which TLC can hold.  The only things
              defined on them are truthiness ("0 is false, non-zero is true",
              applied by spec.md itself to default-typed integer literals:
              `2 and 3`, `5 or 0`), unary minus, same-signedness narrowing
              casts (low bits) and storing them in locals.
   expressions  typed literal T(n) (0 <= n <= max T), parameter, local,
              unary - (signed types), not, + - * / %, == != < > <= >=,
              and / or, casts T(e), parentheses.
   statements   x := e, x T := e, x = e, x op= e, if / else if / else,
              return e (early returns inside if blocks).
   NOT in the fragment: f32/f64, i64/u64 arithmetic, `^` (host math), series,
              strings, channels, stateful variables ($=), units, loops (the
              language specification says "No loops").

 Sentences of spec.md each rule below transcribes
   [W]  "Integer overflow uses two's-complement wrapping"            (l.122)
   [C1] "Widening (e.g., i16(i8_val)) is safe (sign/zero extend)"     (l.118)
   [C2] "Narrowing (e.g., i8(i64_val)) truncates"                     (l.119)
   [C3] "Signed <-> Unsigned saturates at bounds"                     (l.120)
   [B]  "Type u8 serves as boolean: 0 is false, non-zero is true.
         Logical operators normalize to 0 or 1 with short-circuit
         evaluation."                                                 (l.35)
   [P]  precedence table: unary - / not  >  * / %  >  + -  >  comparisons
         > and, or; * / % and + - left-associative                   (l.249)
   [Z]  "Runtime Errors - Arithmetic: Division/modulo by zero"        (l.704)
   [M]  "No mixed-type arithmetic: Explicit casts required"           (l.680)
   [R]  "Explicit return statements are required ...", early return   (l.447)
   [V]  "Local variables (:=) inside functions reset on each
         invocation", "count = count + 1 // reassignment",
         compound assignment table `x += 1 // x = x + 1`              (l.213)
   [T]  "Comparisons ... (returns u8: 1 or 0)" (strings l.88, series l.75;
         relational operators on scalars yield the boolean type u8)

 Outcome classes of a run
   "v"  a value (field v)            "t"  runtime error (trap) per [Z]
   "x"  NOT DECIDED: the written specification is silent or ambiguous, or the
        value is not representable in TLC.  Never verdict bearing.

 Where the specification is silent / ambiguous (all map to "x")
   * signed / and % with a negative operand and a non-zero remainder
     (rounding direction and sign of the remainder are not stated);
   * i32 MIN / -1 (the wrap rule [W] sits in the casting section; whether a
     division overflow is a runtime error is not stated);
   * casts that change signedness AND width when the value is not preserved
     (rules [C1]/[C2] and [C3] both apply, composition order not stated);
   * chained comparisons `a < b < c`, `a == b == c` and mixed `and`/`or`
     without parentheses (same precedence level, associativity not stated):
     never generated - Show always parenthesises them;
   * unary minus on unsigned types, `not` and and/or on non-u8 typed operands: never
     generated (the analyzer rejects them).  `if` / `else if` on an i64/u64 value and
     and/or on bare integer literals (default type i64, spec.md's own `2 and 3`)
     ARE generated: truthiness is "non-zero" on the full 64-bit value;
   * calling convention: the harness passes a narrow argument as the 32-bit
     sign extension (signed types) / zero extension (unsigned types) of its
     value and reads the low `Bits(ret)` bits of the result.

 Pinned beyond the property text: the outcome "t" is any wazero call error;
 the order in which the two operands of an arithmetic operator are evaluated
 is not observable (no side effects besides traps) and is not pinned.

 The code AS WRITTEN deviates from this specification (named deviations,
 reproduced on the real compiler by the check, evaluated by the as-written
 register model `model(p, args, devs)` in tools/props/c19.py):
   Dev arith  results of + - * unary- on i8..u16 stay un-normalised in the
              32-bit register (no wrap [W]), so a following / % comparison,
              widening cast, not/and/or/if sees the wrong value.  STILL AS
              WRITTEN (known finding C19-narrow-arith-not-wrapped: 32 arc
              specs pin the un-normalised opcode sequences).
   Dev sat    casts between types carried in the same WASM register were
              no-ops: no saturation [C3].      REPAIRED in /repo 676fc6a.
   Dev trunc  ... and no truncation [C2].      REPAIRED in /repo 676fc6a.
 A mismatch that only a repaired deviation explains is reported as a
 regression under its own signature.
 ***************************************************************************)
EXTENDS Integers, Sequences, TLC

MaxI32 == 2147483647
MinI32 == -MaxI32 - 1

Narrow  == {"i8", "u8", "i16", "u16"}
Word    == {"i32", "u32"}
Wide    == {"i64", "u64"}
IsSigned(t) == t \in {"i8", "i16", "i32", "i64"}
Bits(t) == CASE t \in {"i8", "u8"} -> 8 [] t \in {"i16", "u16"} -> 16
             [] t \in Word -> 32 [] OTHER -> 64
\* value range as far as TLC can represent it (exact for i8..i32)
Min(t) == CASE t = "i8" -> -128 [] t = "i16" -> -32768 [] t \in {"i32", "i64"} -> MinI32 [] OTHER -> 0
Max(t) == CASE t = "i8" -> 127 [] t = "u8" -> 255 [] t = "i16" -> 32767 [] t = "u16" -> 65535
            [] OTHER -> MaxI32
Mod(t) == IF Bits(t) = 8 THEN 256 ELSE 65536            \* narrow types only
InRange(t, n) == Min(t) <= n /\ n <= Max(t)
Abs(n) == IF n < 0 THEN -n ELSE n

V(n) == [o |-> "v", v |-> n]
Trap == [o |-> "t", v |-> 0]
Und  == [o |-> "x", v |-> 0]

\* [W]/[C2] reduce any 32-bit n to narrow type t (two's complement / truncation)
Wrap(t, n) == LET m == n % Mod(t) IN IF IsSigned(t) /\ m > Max(t) THEN m - Mod(t) ELSE m

\* product of two narrow values modulo 2^Bits without leaving 32 bits
MulNarrow(t, a, b) ==
    LET M  == Mod(t)
        ua == a % M
        ub == b % M
        lo == ua % 256
        hi == ua \div 256
    IN Wrap(t, (lo * ub + ((hi * ub) % 256) * 256) % M)

\* ---- i32: exact two's-complement add/sub without overflowing TLC ----------
Add32(a, b) == IF b > 0 /\ a > MaxI32 - b THEN (a - MaxI32 - 1) + (b - MaxI32 - 1)
               ELSE IF b < 0 /\ a < MinI32 - b THEN (a + MaxI32 + 1) + (b + MaxI32 + 1)
               ELSE a + b
Sub32(a, b) == IF b = MinI32 THEN (IF a < 0 THEN (a + MaxI32) + 1 ELSE (a - MaxI32) - 1)
               ELSE Add32(a, -b)
MulFits(a, b) == \/ a = 0 \/ b = 0 \/ a = 1 \/ b = 1
                 \/ /\ a # MinI32 /\ b # MinI32
                    /\ Abs(a) <= MaxI32 \div Abs(b)

\* ---- arithmetic ----------------------------------------------------------
Arith(op, t, a, b) ==
    IF t \in Narrow THEN
        CASE op = "+" -> V(Wrap(t, a + b))
          [] op = "-" -> V(Wrap(t, a - b))
          [] op = "*" -> V(MulNarrow(t, a, b))
    ELSE IF t = "i32" THEN
        CASE op = "+" -> V(Add32(a, b))
          [] op = "-" -> V(Sub32(a, b))
          [] op = "*" -> IF MulFits(a, b) THEN V(a * b) ELSE Und
    ELSE \* u32, representable half only
        CASE op = "+" -> IF a > MaxI32 - b THEN Und ELSE V(a + b)
          [] op = "-" -> IF a >= b THEN V(a - b) ELSE Und
          [] op = "*" -> IF MulFits(a, b) THEN V(a * b) ELSE Und

\* [Z] division / modulo by zero is a runtime error.  Rounding for negative
\* operands is not stated: only exact divisions are decided.
Div(t, a, b) ==
    IF b = 0 THEN Trap
    ELSE IF a >= 0 /\ b > 0 THEN V(a \div b)
    ELSE IF b = MinI32 THEN (IF a = b THEN V(1) ELSE IF a = 0 THEN V(0) ELSE Und)
    ELSE IF a % Abs(b) # 0 THEN Und
    ELSE IF t = "i32" /\ a = MinI32 /\ b = -1 THEN Und
    ELSE LET q == a \div Abs(b) IN V(IF t \in Narrow THEN Wrap(t, IF b < 0 THEN -q ELSE q)
                                     ELSE IF b < 0 THEN -q ELSE q)
Rem(t, a, b) ==
    IF b = 0 THEN Trap
    ELSE IF a >= 0 /\ b > 0 THEN V(a % b)
    ELSE IF b = MinI32 THEN (IF a = b \/ a = 0 THEN V(0) ELSE Und)
    ELSE IF a % Abs(b) # 0 THEN Und
    ELSE V(0)

Neg(t, a) == IF t \in Narrow THEN V(Wrap(t, -a)) ELSE IF a = MinI32 THEN V(MinI32) ELSE V(-a)

Cmp(op, a, b) == LET r == CASE op = "==" -> a = b [] op = "!=" -> a # b [] op = "<" -> a < b
                             [] op = ">" -> a > b [] op = "<=" -> a <= b [] op = ">=" -> a >= b
                 IN V(IF r THEN 1 ELSE 0)

Clamp(t, n) == IF n < Min(t) THEN Min(t) ELSE IF n > Max(t) THEN Max(t) ELSE n

\* casts: from type s (value n) to type t
CastV(t, s, n) ==
    IF t = s THEN V(n)
    ELSE IF IsSigned(t) = IsSigned(s) THEN
        IF Bits(t) >= Bits(s) THEN V(n)                       \* [C1]
        ELSE IF t \in Narrow THEN V(Wrap(t, n)) ELSE V(n)     \* [C2] (i64 -> i32: value is 32-bit here)
    ELSE IF Bits(t) = Bits(s) THEN V(Clamp(t, n))             \* [C3]
    ELSE IF n >= 0 /\ InRange(t, n) THEN V(n)                 \* every reading preserves the value
    ELSE Und                                                  \* [C1]/[C2] + [C3]: order not stated

ArithOps == {"+", "-", "*"}
DivOps   == {"/", "%"}
CmpOps   == {"==", "!=", "<", ">", "<=", ">="}
LogOps   == {"and", "or"}

(***************************************************************************
 Abstract syntax (records).  Every expression node carries its type `t`.
   [k |-> "lit",  t, v]              typed literal  T(v)
   [k |-> "par",  t, n]              parameter named n
   [k |-> "loc",  t, n]              local variable named n
   [k |-> "neg",  t, e]   [k |-> "not", t = "u8", e]
   [k |-> "bin",  t, op, l, r]       t = operand type for arithmetic, "u8"
                                     for comparisons and and/or
   [k |-> "cast", t, e]
 Statements
   [k |-> "let",  n, t, typed, e]    n := e   /   n T := e
   [k |-> "set",  n, e]              n = e
   [k |-> "cset", n, t, op, e]       n op= e
   [k |-> "ret",  e]
   [k |-> "if",   arms, els, hasElse]   arms: sequence of [c, b]; b, els:
                                        sequences of statements
 Program: [ret |-> T, ps |-> <<[n, t], ...>>, body |-> <<stmt, ...>>]
 ***************************************************************************)

\* 64-bit values: records [hi, lo].  A node of a Wide type holds such a record unless it is a
\* cast (a cast TO i64/u64 is applied to a narrow value and yields that integer).
WideRec(e) == e.t \in Wide /\ e.k # "cast"
\* [B] "0 is false, non-zero is true" - on the FULL value, whatever its width
Truthy(e, v) == IF WideRec(e) THEN v.hi # 0 \/ v.lo # 0 ELSE v # 0
Neg32(a) == IF a = MinI32 THEN MinI32 ELSE -a
NegW(v) == [lo |-> Neg32(v.lo), hi |-> IF v.lo = 0 THEN Neg32(v.hi) ELSE -v.hi - 1]

RECURSIVE Eval(_, _)
Eval(e, env) ==
    CASE e.k \in {"lit", "blit"} -> V(e.v)             \* blit: bare literal (default type i64), e.g. 4294967296
      [] e.k = "flit" -> V(0)                           \* float literal: only ever stored in an unused local
      [] e.k \in {"par", "loc"} -> V(env[e.n])
      [] e.k = "neg" -> LET a == Eval(e.e, env) IN
                        IF a.o # "v" THEN a ELSE IF WideRec(e) THEN V(NegW(a.v)) ELSE Neg(e.t, a.v)
      [] e.k = "not" -> LET a == Eval(e.e, env) IN IF a.o # "v" THEN a ELSE V(IF a.v = 0 THEN 1 ELSE 0)   \* [B]
      [] e.k = "cast" -> LET a == Eval(e.e, env) IN
                         IF a.o # "v" THEN a
                         ELSE IF WideRec(e.e) THEN CastV(e.t, e.e.t, a.v.lo)     \* [C2]: low bits decide
                         ELSE CastV(e.t, e.e.t, a.v)
      [] e.k = "bin" ->
            LET a == Eval(e.l, env) IN
            IF a.o # "v" THEN a
            ELSE IF e.op = "and" THEN                                     \* [B] short circuit
                IF ~Truthy(e.l, a.v) THEN V(0)
                ELSE LET b == Eval(e.r, env) IN IF b.o # "v" THEN b ELSE V(IF Truthy(e.r, b.v) THEN 1 ELSE 0)
            ELSE IF e.op = "or" THEN
                IF Truthy(e.l, a.v) THEN V(1)
                ELSE LET b == Eval(e.r, env) IN IF b.o # "v" THEN b ELSE V(IF Truthy(e.r, b.v) THEN 1 ELSE 0)
            ELSE LET b == Eval(e.r, env) IN
                IF b.o # "v" THEN b
                ELSE IF e.op \in CmpOps THEN Cmp(e.op, a.v, b.v)
                ELSE IF e.op = "/" THEN Div(e.t, a.v, b.v)
                ELSE IF e.op = "%" THEN Rem(e.t, a.v, b.v)
                ELSE Arith(e.op, e.t, a.v, b.v)

\* Exec result: [o |-> "v"|"t"|"x"|"fall", v, env]
RECURSIVE Exec(_, _)
RECURSIVE ExecIf(_, _, _)
Exec(ss, env) ==
    IF ss = <<>> THEN [o |-> "fall", v |-> 0, env |-> env]
    ELSE LET s == Head(ss)
             rest == Tail(ss)
             Stop(r) == [o |-> r.o, v |-> r.v, env |-> env]
         IN CASE s.k = "ret" -> Stop(Eval(s.e, env))                                             \* [R]
              [] s.k \in {"let", "set"} ->                                                       \* [V]
                    LET r == Eval(s.e, env) IN
                    IF r.o # "v" THEN Stop(r) ELSE Exec(rest, (s.n :> r.v) @@ env)
              [] s.k = "cset" ->                                                                 \* x op= e  ==  x = x op e
                    LET r == Eval([k |-> "bin", t |-> s.t, op |-> s.op,
                                   l |-> [k |-> "loc", t |-> s.t, n |-> s.n], r |-> s.e], env) IN
                    IF r.o # "v" THEN Stop(r) ELSE Exec(rest, (s.n :> r.v) @@ env)
              [] s.k = "if" ->
                    LET r == ExecIf(s, 1, env) IN
                    IF r.o = "fall" THEN Exec(rest, r.env) ELSE r
ExecIf(s, i, env) ==
    IF i > Len(s.arms) THEN (IF s.hasElse THEN Exec(s.els, env) ELSE [o |-> "fall", v |-> 0, env |-> env])
    ELSE LET c == Eval(s.arms[i].c, env) IN
         IF c.o # "v" THEN [o |-> c.o, v |-> c.v, env |-> env]
         ELSE IF Truthy(s.arms[i].c, c.v) THEN Exec(s.arms[i].b, env)                           \* [B] truthiness
         ELSE ExecIf(s, i + 1, env)

\* Run a program on an argument tuple (same order as prog.ps)
Run(prog, args) ==
    LET env == [n \in {prog.ps[i].n : i \in 1..Len(prog.ps)} |->
                    args[CHOOSE i \in 1..Len(prog.ps) : prog.ps[i].n = n]]
        r == Exec(prog.body, env)
    IN [o |-> r.o, v |-> r.v]

(***************************************************************************
 Show: Arc source text.  Precedence levels of the specification [P]:
   0 primary (literal, identifier, cast, parenthesised)   2 unary - / not
   3 * / %      4 + -      5 comparisons      6 and / or
 A child is parenthesised exactly when the table does not already give the
 tree's shape: lower-precedence child, right child of the same level
 (left-associative levels), any comparison directly under a comparison and
 `and` directly under `or` (or vice versa) - the last two because the
 specification does not state how they associate.
 ***************************************************************************)
OpLvl(op) == CASE op \in {"*", "/", "%"} -> 3 [] op \in {"+", "-"} -> 4 [] op \in CmpOps -> 5 [] OTHER -> 6
Lvl(e) == CASE e.k \in {"lit", "blit", "flit", "par", "loc", "cast"} -> 0 [] e.k \in {"neg", "not"} -> 2 [] OTHER -> OpLvl(e.op)

RECURSIVE ShowX(_, _)
Paren(s) == "(" \o s \o ")"
\* nc: "std" = the program itself.  The other modes derive variants for the no-crash /
\* "accepted programs validate" clauses only (no expected value is attached to them):
\* "nocast" drops every cast (mixed widths), "bare" prints literals without their type.
ShowX(e, nc) ==
    CASE e.k = "lit" -> IF e.t \in Wide THEN e.t \o "(" \o e.txt \o ")"       \* 64-bit literal: text carried along
                        ELSE IF nc = "bare" THEN ToString(e.v) ELSE e.t \o "(" \o ToString(e.v) \o ")"
      [] e.k \in {"blit", "flit"} -> e.txt
      [] e.k \in {"par", "loc"} -> e.n
      [] e.k = "cast" -> IF nc = "nocast" THEN ShowX(e.e, nc) ELSE e.t \o "(" \o ShowX(e.e, nc) \o ")"
      [] e.k = "neg" -> "-" \o (IF Lvl(e.e) > 2 THEN Paren(ShowX(e.e, nc)) ELSE ShowX(e.e, nc))
      [] e.k = "not" -> "not " \o (IF Lvl(e.e) > 2 THEN Paren(ShowX(e.e, nc)) ELSE ShowX(e.e, nc))
      [] e.k = "bin" ->
            LET lv == OpLvl(e.op)
                pl == \/ Lvl(e.l) > lv
                      \/ Lvl(e.l) = lv /\ lv = 5
                      \/ Lvl(e.l) = lv /\ lv = 6 /\ e.l.op # e.op
                pr == Lvl(e.r) >= lv
            IN (IF pl THEN Paren(ShowX(e.l, nc)) ELSE ShowX(e.l, nc)) \o " " \o e.op \o " " \o
               (IF pr THEN Paren(ShowX(e.r, nc)) ELSE ShowX(e.r, nc))
ShowE(e) == ShowX(e, "std")

RECURSIVE ShowSS(_, _, _)
RECURSIVE ShowArms(_, _, _, _)
ShowS(s, ind, nc) ==
    CASE s.k = "ret" -> ind \o "return " \o ShowX(s.e, nc) \o "\n"
      [] s.k = "let" -> ind \o s.n \o (IF s.typed THEN " " \o s.t ELSE "") \o " := " \o ShowX(s.e, nc) \o "\n"
      [] s.k = "set" -> ind \o s.n \o " = " \o ShowX(s.e, nc) \o "\n"
      [] s.k = "cset" -> ind \o s.n \o " " \o s.op \o "= " \o ShowX(s.e, nc) \o "\n"
      [] s.k = "if" -> ind \o ShowArms(s, 1, ind, nc)
ShowSS(ss, ind, nc) == IF ss = <<>> THEN "" ELSE ShowS(Head(ss), ind, nc) \o ShowSS(Tail(ss), ind, nc)
ShowArms(s, i, ind, nc) ==
    "if " \o ShowX(s.arms[i].c, nc) \o " {\n" \o ShowSS(s.arms[i].b, ind \o "    ", nc) \o ind \o "}" \o
    (IF i < Len(s.arms) THEN " else " \o ShowArms(s, i + 1, ind, nc)
     ELSE IF s.hasElse THEN " else {\n" \o ShowSS(s.els, ind \o "    ", nc) \o ind \o "}\n"
     ELSE "\n")

RECURSIVE ShowPs(_, _)
ShowPs(ps, i) == IF i > Len(ps) THEN ""
                 ELSE (IF i > 1 THEN ", " ELSE "") \o ps[i].n \o " " \o ps[i].t \o ShowPs(ps, i + 1)
\* general form: parameter list, declared return type, body, cast dropping
ShowG(ps, ret, body, nc) == "func f(" \o ShowPs(ps, 1) \o ") " \o ret \o " {\n" \o ShowSS(body, "    ", nc) \o "}\n"
Show(prog) == ShowG(prog.ps, prog.ret, prog.body, "std")
=============================================================================
