------------------------------- MODULE Relay -------------------------------
(* C20 - cesium's write relay: stream-mode writers -> one inlet -> dynamic delta
   multiplier -> connected streamers -> consumers.  Models the code AS WRITTEN:

     cesium/writer.go Writer.Write/exec + writer_stream.go streamWriter.Flow/write
        WriteCall(w)      the caller hands a request to the streamWriter goroutine
                          (requests stream, capacity 1; Sync writers wait for the answer)
        WriterDecide(w,k) streamWriter.write -> idx.write / virtual.write: Gate.Authorize is
                          asked channel by channel; an unauthorized channel goes on the
                          exclusion list
        WriterPush(w)     ... then the frame minus those series is sent into relay.inlet - a
                          bare channel send that blocks while the inlet (capacity B) is full.
                          (Decision and push are separate steps: another writer may take a
                          channel over, and even stream a newer frame, in between.)
        WriterOpen(w), WriterOpenKey(w,k) / WriterClose(w), WriterCloseKey(w,k)
                          DB.OpenWriter / Writer.Close open / release the control gates one
                          channel at a time (control state itself: see C05)
     cesium/relay.go + x/go/confluence/delta.go DynamicDeltaMultiplier.Flow (one goroutine)
        DeltaTake         `case res := <-d.In.Outlet()`
        DeltaSendTo(s)    SendToEachWithTimeout: `case inlet.Inlet() <- v` - the outlet
                          stream is UNBUFFERED (relay.bufferSize is never set), so this
                          is a rendezvous with the streamer goroutine (or its drainer)
        DeltaTimeout(s)   `case <-timer.C` - the frame is dropped for that outlet only
        DeltaConnect      `case inlets := <-d.connections`   (unbuffered: rendezvous
        DeltaDisconnect   `case inlets := <-d.disconnections` with Connect/Disconnect)
     cesium/streamer.go streamer.Flow (one goroutine per streamer) + relay.connect
        StreamerOpen(s,K) Flow: relay.connect() blocks in delta.Connect
        DeltaSendTo(s)    `case rf := <-frames.Outlet()` (the receiving half)
        StreamerFilterSend(s)  KeepKeys(s.Channels); drop if empty; else send to s.Out
        ResubCall/Resubscribe(s)  request put on s.In / `case req := <-s.In.Outlet()`
        StreamerClose(s,m) caller closes s.In (graceful) or cancels the context
        StreamerExit(s)   loop returns; deferred disconnect(): a SEPARATE goroutine
                          drains the outlet while delta.Disconnect blocks
                          (SeparateDrain = FALSE models `Disconnect; Drain` in one goroutine:
                          the variant the source comment warns about)
        DrainDone(s)      outlet closed by the delta -> drainer ends -> wg.Wait returns
        ConsumerRecv(s)   the application reads s.Out
     cesium/db.go DB.Close
        DBClose           signal context cancelled: the delta goroutine leaves, closing
                          every connected outlet (disconnectAll)

   Projection used by the harness (zz_verif_relay_test.go): everything the harness can
   see is call/return events of Write / Flow / resubscribe / close / DB.Close and the
   frames a consumer reads; RelayTrace.tla matches those against the actions above with
   the internal steps silent.

   Pinned beyond the property statement (a mismatch on these is drift, not a violation):
     * who is unauthorized: another OPEN writer on that channel with a strictly higher
       authority (C05's rule; equal authorities are not used);
     * a writer that writes a group's index channel and is not authorized on it streams none of
       the group's data channels either, even those it holds (idxWriter.write); Write's
       `authorized` result is false iff some series was excluded (RelayTrace);
     * the moment a re-subscription takes effect (at the streamer goroutine's select, never
       for a frame it already holds) and that a cancelled streamer may lose the frame it holds;
     * a streamer's state names Init/Connecting/Running/Disconnecting/Draining/Closed.
   Deviations of the code from the property, named (as-is windows):
     * Window_CloseWithOpenWriters: DBClose while a stream-mode writer is open stops the delta
       goroutine; the writer's bare send into the inlet then blocks forever (db.go documents it:
       "if this method is called while writers are still open ... a deadlock is caused"). With the
       window closed (DBClose only after every writer closed) every property below holds; with it
       open TLC refutes WritersProgress. The real code is probed for it (known finding).
   Outside the statement, modelled because the harness meets it:
     * a streamer still connected at DBClose is orphaned (its close blocks forever in
       delta.Disconnect): AllowOrphan; the property only speaks about writers;
     * a frame whose every series was excluded is still pushed (and filtered to nothing
       by every streamer).                                                              *)
EXTENDS Naturals, Sequences, FiniteSets, TLC
CONSTANTS Writers, Streamers, Keys,
          B,              \* DBStreamingConfig.BufferSize (inlet capacity)
          OutCap,         \* capacity of the stream the application attached to s.Out (>= 1)
          WQ,             \* requests a writer may have accepted but not pushed (1 = Sync)
          MaxSeq,         \* frames per writer
          MaxResub,       \* re-subscriptions per streamer
          Ready,          \* streamers whose consumer is AlwaysReady (others MaySleep)
          SeparateDrain,  \* TRUE = relay.go as written
          AllowOrphan,    \* DBClose allowed while streamers are still open
          Window_CloseWithOpenWriters, \* DBClose allowed while writers are still open
          WKeys,          \* [Writers -> SUBSET Keys]  channels of each writer's frames
          Auth,           \* [Writers -> [Keys -> Nat]]: authority per channel
          Idx,            \* [Keys -> Keys \cup {"none"}]: the index channel of a data channel
          OpenSubs,       \* subscriptions the environment may open a streamer with
          Subs,           \* subscriptions the environment may re-subscribe to; {} included: a request with
                          \* a nil / empty channel list subscribes to NOTHING (keys[s] = {}, every frame is
                          \* filtered away) until the next re-subscription
          CloseModes,     \* subset of {"graceful", "cancel"}
          LateOpen,       \* writers opened during the run (the others are open at Init)
          InitConns,      \* sequence of streamers already connected at Init (small model-checking
          InitSub,        \* casts only; <<>> otherwise), all subscribed to InitSub
          TimerRearm,     \* TRUE = source.go as written: the slow-consumer timer is re-armed each
                          \* time it fires, so every outlet of a frame's fan-out has its own timeout
          SleepForever    \* TRUE = a MaySleep consumer need never read again (no fairness)

VARIABLES wstate,   \* [Writers -> {"init","opening","open","closing","closed"}]
          gates,    \* [Writers -> SUBSET Keys]: channels on which the writer holds an open gate
          wdone,    \* [Writers -> SUBSET Keys]: channels of the head request already asked about
          wyes,     \* [Writers -> SUBSET Keys]: ... and found authorized
          wnext,    \* [Writers -> 1..MaxSeq+1] next sequence number
          wq,       \* [Writers -> Seq(frame)] accepted, not yet pushed
          inlet,    \* Seq(frame): relay.inlet
          dcur,     \* frame the delta is distributing, or NoFrame
          didx,     \* index into conns of the next outlet to serve
          conns,    \* Seq(Streamers): delta.Source.Out
          drun,     \* delta goroutine alive
          dfired,   \* the timer fired during this frame's fan-out and was NOT re-armed
                    \* (always FALSE when TimerRearm)
          sst,      \* [Streamers -> state]
          keys,     \* [Streamers -> SUBSET Keys]: s.Channels
          held,     \* [Streamers -> frame | NoFrame]: received, not yet filtered+sent
          out,      \* [Streamers -> Seq(frame)]: s.Out stream
          req,      \* [Streamers -> [has, ks]]: request sitting on s.In
          closing,  \* [Streamers -> {"no","graceful","cancel"}]
          nresub,   \* [Streamers -> Nat]
          dbClosed,
          \* ghosts
          written,  \* [Writers -> Seq([ks, e])]: frames pushed (after exclusion) and, per
                    \* streamer, how many subscriptions it had had at that moment
          got,      \* [Streamers -> [Writers -> Seq([q, ks])]]: what the consumer read, per
                    \* writer (the property orders frames of ONE writer only)
          subHist,  \* [Streamers -> Seq(SUBSET Keys)]: subscriptions in force, in order
          owed,     \* [Streamers -> SUBSET (Writers \X Nat)]: pushed while connected & open
          emptied   \* [Streamers -> SUBSET (Writers \X Nat)]: filtered to nothing

wvars == <<wstate, gates, wdone, wyes, wnext, wq>>
dvars == <<inlet, dcur, didx, conns, drun, dfired>>
svars == <<sst, keys, held, out, req, closing, nresub>>
gvars == <<written, got, subHist, owed, emptied>>
vars  == <<wvars, dvars, svars, dbClosed, gvars>>

NoFrame == [w |-> "none", q |-> 0, ks |-> {}]
Frame(w, q, ks) == [w |-> w, q |-> q, ks |-> ks]
NoReq == [has |-> FALSE, ks |-> {}]
SStates == {"Init", "Connecting", "Running", "Disconnecting", "Draining", "Closed", "Orphaned"}

RangeOf(f) == {f[i] : i \in DOMAIN f}
IndexOf(seq, x) == CHOOSE i \in DOMAIN seq : seq[i] = x
Remove(seq, x) == SelectSeq(seq, LAMBDA y : y # x)
Max(a, b) == IF a > b THEN a ELSE b

\* C05: w is not the holder of channel k while another open writer has more authority
Unauthorized(w, k) ==
  \E o \in Writers \ {w} : k \in gates[o] /\ Auth[o][k] > Auth[w][k]

\* the streamer goroutine sits in its select and can take a frame / a request
AtSelect(s) == sst[s] = "Running" /\ held[s] = NoFrame
\* the drain goroutine of relay.connect's closure is consuming the outlet
Draining(s) == SeparateDrain /\ sst[s] = "Disconnecting"

Init ==
  /\ wstate = [w \in Writers |-> IF w \in LateOpen THEN "init" ELSE "open"] /\ wnext = [w \in Writers |-> 1]
  /\ gates = [w \in Writers |-> IF w \in LateOpen THEN {} ELSE WKeys[w]]
  /\ wdone = [w \in Writers |-> {}] /\ wyes = [w \in Writers |-> {}]
  /\ wq = [w \in Writers |-> <<>>]
  /\ inlet = <<>> /\ dcur = NoFrame /\ didx = 1 /\ conns = InitConns /\ drun = TRUE /\ dfired = FALSE
  /\ sst = [s \in Streamers |-> IF s \in RangeOf(InitConns) THEN "Running" ELSE "Init"]
  /\ keys = [s \in Streamers |-> IF s \in RangeOf(InitConns) THEN InitSub ELSE {}]
  /\ held = [s \in Streamers |-> NoFrame] /\ out = [s \in Streamers |-> <<>>]
  /\ req = [s \in Streamers |-> NoReq] /\ closing = [s \in Streamers |-> "no"]
  /\ nresub = [s \in Streamers |-> 0]
  /\ dbClosed = FALSE
  /\ written = [w \in Writers |-> <<>>] /\ got = [s \in Streamers |-> [w \in Writers |-> <<>>]]
  /\ subHist = [s \in Streamers |-> IF s \in RangeOf(InitConns) THEN <<InitSub>> ELSE <<>>]
  /\ owed = [s \in Streamers |-> {}] /\ emptied = [s \in Streamers |-> {}]

---------------------------------------------------------------------------
\* writers
WriterOpen(w) ==
  /\ wstate[w] = "init" /\ ~dbClosed
  /\ wstate' = [wstate EXCEPT ![w] = "opening"]
  /\ UNCHANGED <<gates, wdone, wyes, wnext, wq, dvars, svars, dbClosed, gvars>>

WriterOpenKey(w, k) ==
  /\ wstate[w] = "opening" /\ k \in WKeys[w] \ gates[w]
  /\ gates' = [gates EXCEPT ![w] = @ \cup {k}]
  /\ wstate' = [wstate EXCEPT ![w] = IF gates'[w] = WKeys[w] THEN "open" ELSE "opening"]
  /\ UNCHANGED <<wdone, wyes, wnext, wq, dvars, svars, dbClosed, gvars>>

WriteCall(w) ==
  /\ wstate[w] = "open" /\ wnext[w] <= MaxSeq /\ Len(wq[w]) < WQ
  /\ wq' = [wq EXCEPT ![w] = Append(@, Frame(w, wnext[w], WKeys[w]))]
  /\ wnext' = [wnext EXCEPT ![w] = @ + 1]
  /\ UNCHANGED <<wstate, gates, wdone, wyes, dvars, svars, dbClosed, gvars>>

\* streamWriter.write, first half: one channel of the head request is checked against the gates.
\* idxWriter.write: the index channel of a group is asked first (pass 1); if the writer writes the
\* index and is not authorized on it, every data channel of the group is held back as well
\* ("losing control of the index means there is no position to express these samples against").
\* A writer that does not write the index (data channel only) is judged on the data channel alone.
Grouped(w, k) == Idx[k] # "none" /\ Idx[k] \in WKeys[w]
WriterDecide(w, k) ==
  /\ wq[w] # <<>> /\ k \in Head(wq[w]).ks \ wdone[w]
  /\ Grouped(w, k) => Idx[k] \in wdone[w]
  /\ wdone' = [wdone EXCEPT ![w] = @ \cup {k}]
  /\ wyes' = [wyes EXCEPT ![w] =
        IF Unauthorized(w, k) \/ (Grouped(w, k) /\ Idx[k] \notin wyes[w]) THEN @ ELSE @ \cup {k}]
  /\ UNCHANGED <<wstate, gates, wnext, wq, dvars, svars, dbClosed, gvars>>

\* second half: the frame minus the excluded series is sent (blocks while the inlet is full)
WriterPush(w) ==
  /\ wq[w] # <<>> /\ wdone[w] = Head(wq[w]).ks /\ Len(inlet) < B
  /\ LET f  == Head(wq[w])
         ks == wyes[w]
     IN /\ inlet' = Append(inlet, Frame(w, f.q, ks))
        /\ written' = [written EXCEPT ![w] =
               Append(@, [ks |-> ks, e |-> [s \in Streamers |-> Len(subHist[s])]])]
        /\ owed' = [s \in Streamers |->
               IF s \in Ready /\ s \in RangeOf(conns) /\ closing[s] = "no" /\ sst[s] = "Running"
               THEN owed[s] \cup {<<w, f.q>>} ELSE owed[s]]
  /\ wq' = [wq EXCEPT ![w] = Tail(@)]
  /\ wdone' = [wdone EXCEPT ![w] = {}] /\ wyes' = [wyes EXCEPT ![w] = {}]
  /\ UNCHANGED <<wstate, gates, wnext, dcur, didx, conns, drun, dfired, svars, dbClosed, got, subHist, emptied>>

\* Writer.Close: pending requests are served first, then the gates are released one by one
WriterClose(w) ==
  /\ wstate[w] = "open" /\ wq[w] = <<>>
  /\ wstate' = [wstate EXCEPT ![w] = "closing"]
  /\ UNCHANGED <<gates, wdone, wyes, wnext, wq, dvars, svars, dbClosed, gvars>>

WriterCloseKey(w, k) ==
  /\ wstate[w] = "closing" /\ k \in gates[w]
  /\ gates' = [gates EXCEPT ![w] = @ \ {k}]
  /\ wstate' = [wstate EXCEPT ![w] = IF gates'[w] = {} THEN "closed" ELSE "closing"]
  /\ UNCHANGED <<wdone, wyes, wnext, wq, dvars, svars, dbClosed, gvars>>

---------------------------------------------------------------------------
\* the delta goroutine
DeltaIdle == drun /\ dcur = NoFrame

DeltaTake ==
  /\ DeltaIdle /\ inlet # <<>>
  /\ inlet' = Tail(inlet)
  /\ IF conns = <<>> THEN dcur' = NoFrame ELSE dcur' = Head(inlet)
  /\ didx' = 1 /\ dfired' = FALSE      \* delta.go: timer.Reset(d.timeout) before each frame
  /\ UNCHANGED <<conns, drun, wvars, svars, dbClosed, gvars>>

Advance ==
  IF didx >= Len(conns) THEN dcur' = NoFrame /\ didx' = 1
  ELSE dcur' = dcur /\ didx' = didx + 1

DeltaSendTo(s) ==
  /\ drun /\ dcur # NoFrame /\ didx <= Len(conns) /\ conns[didx] = s
  /\ \/ /\ AtSelect(s)
        /\ held' = [held EXCEPT ![s] = dcur]
     \/ /\ Draining(s)
        /\ held' = held
  /\ Advance
  /\ UNCHANGED <<inlet, conns, drun, dfired, wvars, sst, keys, out, req, closing, nresub, dbClosed, gvars>>

\* slow consumer: only a streamer whose consumer may sleep is ever timed out (with the
\* raised timeout of the "complete" configuration a ready consumer never is)
\* SendToEachWithTimeout: `case <-timer.C: timer.Reset(t)` - the timeout is per OUTLET: each
\* outlet of the fan-out that is not served in time is skipped on its own, the others are still
\* served. (TimerRearm = FALSE: one budget per frame; after it is spent the remaining sends of
\* that frame have no timeout at all.)
DeltaTimeout(s) ==
  /\ drun /\ dcur # NoFrame /\ didx <= Len(conns) /\ conns[didx] = s
  /\ s \notin Ready
  /\ TimerRearm \/ ~dfired
  /\ dfired' = ~TimerRearm
  /\ Advance
  /\ UNCHANGED <<inlet, conns, drun, wvars, svars, dbClosed, gvars>>

DeltaConnect(s) ==
  /\ DeltaIdle /\ sst[s] = "Connecting"
  /\ conns' = Append(conns, s)
  /\ sst' = [sst EXCEPT ![s] = "Running"]
  /\ UNCHANGED <<inlet, dcur, didx, drun, dfired, wvars, keys, held, out, req, closing, nresub, dbClosed, gvars>>

DeltaDisconnect(s) ==
  /\ DeltaIdle /\ sst[s] = "Disconnecting"
  /\ conns' = Remove(conns, s)
  /\ sst' = [sst EXCEPT ![s] = "Draining"]
  /\ UNCHANGED <<inlet, dcur, didx, drun, dfired, wvars, keys, held, out, req, closing, nresub, dbClosed, gvars>>

---------------------------------------------------------------------------
\* streamers
StreamerOpen(s, K) ==
  /\ sst[s] = "Init" /\ ~dbClosed
  /\ sst' = [sst EXCEPT ![s] = "Connecting"]
  /\ keys' = [keys EXCEPT ![s] = K]
  /\ subHist' = [subHist EXCEPT ![s] = <<K>>]
  /\ UNCHANGED <<wvars, dvars, held, out, req, closing, nresub, dbClosed, written, got, owed, emptied>>

\* (an orphaned streamer - see DBClose - still hands over the frame it was holding)
StreamerFilterSend(s) ==
  /\ sst[s] \in {"Running", "Orphaned"} /\ held[s] # NoFrame
  /\ LET f == held[s]
         ks == f.ks \cap keys[s]
     IN IF ks = {}
        THEN /\ out' = out
             /\ emptied' = [emptied EXCEPT ![s] = IF s \in Ready THEN @ \cup {<<f.w, f.q>>} ELSE @]
        ELSE /\ Len(out[s]) < OutCap
             /\ out' = [out EXCEPT ![s] = Append(@, Frame(f.w, f.q, ks))]
             /\ emptied' = emptied
  /\ held' = [held EXCEPT ![s] = NoFrame]
  /\ UNCHANGED <<wvars, dvars, sst, keys, req, closing, nresub, dbClosed, written, got, subHist, owed>>

ResubCall(s, K) ==
  /\ sst[s] = "Running" /\ closing[s] = "no" /\ ~req[s].has /\ nresub[s] < MaxResub
  /\ req' = [req EXCEPT ![s] = [has |-> TRUE, ks |-> K]]
  /\ nresub' = [nresub EXCEPT ![s] = @ + 1]
  /\ UNCHANGED <<wvars, dvars, sst, keys, held, out, closing, dbClosed, gvars>>

Resubscribe(s) ==
  /\ AtSelect(s) /\ req[s].has
  /\ keys' = [keys EXCEPT ![s] = req[s].ks]
  /\ subHist' = [subHist EXCEPT ![s] = Append(@, req[s].ks)]
  /\ req' = [req EXCEPT ![s] = NoReq]
  /\ UNCHANGED <<wvars, dvars, sst, held, out, closing, nresub, dbClosed, written, got, owed, emptied>>

StreamerClose(s, m) ==
  /\ sst[s] = "Running" /\ closing[s] = "no" /\ ~req[s].has
  /\ closing' = [closing EXCEPT ![s] = m]
  /\ UNCHANGED <<wvars, dvars, sst, keys, held, out, req, nresub, dbClosed, gvars>>

\* graceful: `req, ok := <-s.In.Outlet(); !ok` taken at the select; cancel: ctx.Done seen at
\* the select or inside SendUnderContext (a held frame is then lost)
StreamerExit(s) ==
  /\ sst[s] = "Running"
  /\ \/ closing[s] = "graceful" /\ held[s] = NoFrame
     \/ closing[s] = "cancel"
  /\ sst' = [sst EXCEPT ![s] = "Disconnecting"]
  /\ held' = [held EXCEPT ![s] = NoFrame]
  /\ UNCHANGED <<wvars, dvars, keys, out, req, closing, nresub, dbClosed, gvars>>

DrainDone(s) ==
  /\ sst[s] = "Draining"
  /\ sst' = [sst EXCEPT ![s] = "Closed"]
  /\ UNCHANGED <<wvars, dvars, keys, held, out, req, closing, nresub, dbClosed, gvars>>

ConsumerRecv(s) ==
  /\ out[s] # <<>>
  /\ LET f == Head(out[s])
     IN got' = [got EXCEPT ![s][f.w] = Append(@, [q |-> f.q, ks |-> f.ks])]
  /\ out' = [out EXCEPT ![s] = Tail(@)]
  /\ UNCHANGED <<wvars, dvars, sst, keys, held, req, closing, nresub, dbClosed, written, subHist, owed, emptied>>

---------------------------------------------------------------------------
DBClose ==
  /\ ~dbClosed
  /\ Window_CloseWithOpenWriters \/ \A w \in Writers : wstate[w] \in {"init", "closed"}
  /\ AllowOrphan \/ \A s \in Streamers : sst[s] \in {"Init", "Closed"}
  /\ dbClosed' = TRUE /\ drun' = FALSE
  /\ dcur' = NoFrame /\ didx' = 1 /\ conns' = <<>> /\ dfired' = FALSE
  /\ sst' = [s \in Streamers |->
        IF sst[s] \in {"Connecting", "Running", "Disconnecting"} THEN "Orphaned" ELSE sst[s]]
  /\ UNCHANGED <<inlet, wvars, keys, held, out, req, closing, nresub, gvars>>

---------------------------------------------------------------------------
Terminated ==
  /\ dbClosed
  /\ \A w \in Writers : wstate[w] \in {"init", "closed"} \/ (wstate[w] = "open" /\ wnext[w] > MaxSeq /\ wq[w] = <<>>)
  /\ \A s \in Streamers : sst[s] \in {"Init", "Closed", "Orphaned"} /\ out[s] = <<>> /\ held[s] = NoFrame

WriterSys ==
  \E w \in Writers : \/ WriterPush(w)
                     \/ \E k \in Keys : WriterDecide(w, k) \/ WriterOpenKey(w, k) \/ WriterCloseKey(w, k)
EnvNext ==
  \/ \E w \in Writers : WriterOpen(w) \/ WriteCall(w) \/ WriterClose(w)
  \/ \E s \in Streamers : \E K \in OpenSubs : StreamerOpen(s, K)
  \/ \E s \in Streamers : \E K \in Subs : ResubCall(s, K)
  \/ \E s \in Streamers : \E m \in CloseModes : StreamerClose(s, m)
  \/ DBClose
SysNext ==
  \/ WriterSys
  \/ DeltaTake
  \/ \E s \in Streamers : \/ DeltaSendTo(s) \/ DeltaTimeout(s) \/ DeltaConnect(s)
                          \/ DeltaDisconnect(s) \/ StreamerFilterSend(s) \/ Resubscribe(s)
                          \/ StreamerExit(s) \/ DrainDone(s) \/ ConsumerRecv(s)
Next == EnvNext \/ SysNext \/ (Terminated /\ UNCHANGED vars)

Fairness ==
  /\ \A w \in Writers : WF_vars(WriterPush(w)) /\ \A k \in Keys :
        WF_vars(WriterDecide(w, k)) /\ WF_vars(WriterOpenKey(w, k)) /\ WF_vars(WriterCloseKey(w, k))
  /\ WF_vars(DeltaTake)
  /\ \A s \in Streamers :
       /\ WF_vars(DeltaSendTo(s)) /\ WF_vars(DeltaTimeout(s)) /\ WF_vars(DeltaConnect(s))
       /\ WF_vars(DeltaDisconnect(s)) /\ WF_vars(StreamerFilterSend(s))
       /\ WF_vars(Resubscribe(s)) /\ WF_vars(StreamerExit(s)) /\ WF_vars(DrainDone(s))
       /\ (s \in Ready \/ ~SleepForever) => WF_vars(ConsumerRecv(s))
Spec == Init /\ [][Next]_vars /\ Fairness

---------------------------------------------------------------------------
\* properties
TypeOK ==
  /\ \A w \in Writers : /\ wstate[w] \in {"init", "opening", "open", "closing", "closed"}
                         /\ Len(wq[w]) <= WQ /\ wyes[w] \subseteq wdone[w] /\ gates[w] \subseteq WKeys[w]
  /\ Len(inlet) <= B
  /\ \A s \in Streamers : sst[s] \in SStates /\ Len(out[s]) <= OutCap
  /\ \A i \in DOMAIN conns : sst[conns[i]] \in {"Running", "Disconnecting"}
  /\ dcur # NoFrame => didx <= Len(conns)

\* per writer: what a streamer's consumer read is a subsequence of what the writer wrote:
\* sequence numbers strictly increase (no duplicate, no reorder) and every one was written
Subsequence ==
  \A s \in Streamers : \A w \in Writers :
    LET g == got[s][w]
    IN /\ \A i \in DOMAIN g : g[i].q <= Len(written[w])
       /\ \A i, j \in DOMAIN g : i < j => g[i].q < g[j].q

\* only series of channels the writer was authorized on when it wrote the frame
OnlyAuthorized ==
  \A s \in Streamers : \A w \in Writers : \A i \in DOMAIN got[s][w] :
    LET g == got[s][w][i] IN g.q <= Len(written[w]) /\ g.ks \subseteq written[w][g.q].ks

\* only channels of a subscription that was in force at or after the write; never empty
OnlySubscribed ==
  \A s \in Streamers : \A w \in Writers : \A i \in DOMAIN got[s][w] :
    LET g == got[s][w][i]
        e == written[w][g.q].e[s]
    IN /\ g.ks # {}
       /\ g.ks \subseteq UNION {subHist[s][j] : j \in Max(e, 1)..Len(subHist[s])}

InPipe(s, w, q) ==
  \/ \E i \in DOMAIN inlet : inlet[i].w = w /\ inlet[i].q = q
  \/ dcur.w = w /\ dcur.q = q /\ \E i \in didx..Len(conns) : conns[i] = s
  \/ held[s].w = w /\ held[s].q = q
  \/ \E i \in DOMAIN out[s] : out[s][i].w = w /\ out[s][i].q = q
InGot(s, w, q) == \E i \in DOMAIN got[s][w] : got[s][w][i].q = q
Accounted(s, w, q) == InPipe(s, w, q) \/ InGot(s, w, q) \/ <<w, q>> \in emptied[s]

\* an always-ready consumer loses nothing while its streamer is connected and not closing -
\* whatever the OTHER streamers' consumers do (asleep, one or several at the same time)
ReadyGetsAll ==
  \A s \in Ready : (sst[s] = "Running" /\ closing[s] = "no") =>
     \A p \in owed[s] : Accounted(s, p[1], p[2])
\* ... and when it does get a frame it gets every subscribed, authorized series of it
ReadyGetsWhole ==
  \A s \in Ready : \A w \in Writers : \A i \in DOMAIN got[s][w] :
    LET g == got[s][w][i]
        e == written[w][g.q].e[s]
    IN Len(subHist[s]) = Max(e, 1) => g.ks = written[w][g.q].ks \cap subHist[s][Len(subHist[s])]

\* liveness
WritersProgress == \A w \in Writers : (wq[w] # <<>>) ~> (wq[w] = <<>>)
ReadyEventually ==
  \A s \in Ready : \A w \in Writers : \A q \in 1..MaxSeq :
    (<<w, q>> \in owed[s]) ~>
       (InGot(s, w, q) \/ <<w, q>> \in emptied[s] \/ closing[s] # "no" \/ dbClosed)
CloseCompletes ==
  \A s \in Streamers : (closing[s] # "no") ~> (sst[s] \in {"Closed", "Orphaned"})
OpenCompletes ==
  \A s \in Streamers : (sst[s] = "Connecting") ~> (sst[s] # "Connecting")
ResubCompletes ==
  \A s \in Streamers : req[s].has ~> (~req[s].has \/ sst[s] = "Orphaned")
=============================================================================
