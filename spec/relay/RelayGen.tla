----------------------------- MODULE RelayGen -----------------------------
(* Relay + a history of the ENVIRONMENT actions only (the calls an application makes:
   open/write/close a writer, open/re-subscribe/close a streamer, close the DB), in the
   order a behaviour of Relay takes them. TLC -simulate emits each finished behaviour's
   history as JSON; the harness replays the calls in that order on a real cesium.DB from
   one goroutine per writer / streamer (so calls of different processes overlap), and the
   recorded events are validated against RelayTrace.                                    *)
EXTENDS Relay, Json
CONSTANTS MinSeq,     \* a writer is closed only after it has written at least this many frames
          CloseAfter  \* [Writers -> SUBSET Writers]: writers that must be closed before this one is
                      \* (a data-channel-only writer that took the channel over could not be written
                      \* to without error once the index holder is gone: nothing C20 talks about)
VARIABLE hist
gvars2 == <<vars, hist>>
Rec(a, p, ks, m) == [a |-> a, p |-> p, ks |-> ks, m |-> m]
H(r) == hist' = Append(hist, r)

GInit == Init /\ hist = <<>>
GEnv ==
  \/ \E w \in Writers : \/ WriterOpen(w) /\ H(Rec("wopen", w, {}, ""))
                        \/ WriteCall(w) /\ H(Rec("write", w, {}, ""))
                        \/ wnext[w] > MinSeq /\ (\A o \in CloseAfter[w] : wstate[o] \in {"closed"})
                           /\ WriterClose(w) /\ H(Rec("wclose", w, {}, ""))
  \/ \E s \in Streamers : \E K \in OpenSubs : StreamerOpen(s, K) /\ H(Rec("sopen", s, K, ""))
  \/ \E s \in Streamers : \E K \in Subs : ResubCall(s, K) /\ H(Rec("ssub", s, K, ""))
  \/ \E s \in Streamers : \E m \in CloseModes : StreamerClose(s, m) /\ H(Rec("sclose", s, {}, m))
  \/ DBClose /\ H(Rec("dbclose", "db", {}, ""))
GNext == GEnv \/ (SysNext /\ UNCHANGED hist)
GSpec == GInit /\ [][GNext]_gvars2

Emit == ~Terminated \/ PrintT(<<"HIST", ToJson(hist)>>)
=============================================================================
