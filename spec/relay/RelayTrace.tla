---------------------------- MODULE RelayTrace ----------------------------
(* Trace validation for C20: is the sequence of events the harness recorded from a real
   cesium.DB (many scenarios of one profile, concatenated, separated by "reset") a
   behaviour of Relay?  The environment actions of Relay are driven by the events, the
   internal actions (writer push, delta, streamer goroutine, drainer) are silent and may
   happen at any time; WriterOpen / WriterClose / DBClose take effect somewhere between
   their call and return events.

   Events - every event has all fields  ev, p, q, ks, m, will :
     reset  will=[[s,w,q]...]       a new scenario (fresh DB); `will` (empty in every other event)
                                    lists the frames the scenario's log shows being read
     wopen.call / wopen.ret   p=w   DB.OpenWriter
     wcall  p=w q=seq               Writer.Write about to be called with frame (w, seq, WKeys[w])
     wret   p=w q=seq m=auth|unauth it returned (Sync writers: the frame has been pushed and m is
                                    Write's `authorized` result: "unauth" iff a series was excluded)
     wclose.call / wclose.ret p=w   Writer.Close
     sopen.call p=s ks=K            Streamer.Flow about to be called (subscription K)
     sopen.ret  p=s                 Flow returned (delta.Connect was accepted)
     ssub.call p=s ks=K / ssub.ret  request sent on the (unbuffered) request stream
     sclose.call p=s m=mode / sclose.ret   inlet closed | context cancelled; goroutine gone
     recv p=s m=w q=seq ks=keys     the consumer of s read a frame of writer w
     dbclose.call / dbclose.ret     DB.Close
     quiesce                        ("complete" and "mixed" configurations) the harness observed,
                                    through a fence frame that went through the inlet after
                                    every returned write and was read by every always-ready
                                    consumer, that nothing older is on its way to them
   Acceptance: the cursor reaches the end of the trace (high-water mark in TLC register 1,
   -workers 1). Every invariant of Relay is evaluated in every state of every matching
   behaviour; an unexplainable event or a broken invariant is a rejection.                *)
EXTENDS Relay, Json
CONSTANT SyncWriters        \* writers opened with Sync = true
VARIABLES l, pc,
          will,  \* prophecy: the (streamer, writer, seq) the current scenario's log shows being read
          cbuf   \* [Streamers -> frame | NoFrame]: read by the consumer goroutine, "recv" not yet
                 \* logged (the log entry is written after the channel receive, so the slot of
                 \* s.Out is free earlier than the event says)
Trace == ndJsonDeserialize("trace.ndjson")
ASSUME TLCSet(1, 0)
E == Trace[l]
More == l <= Len(Trace)
Procs == Writers \cup Streamers \cup {"db"}
tvars == <<vars, l, pc, cbuf, will>>
SetOf(seq) == {seq[i] : i \in DOMAIN seq}

TInit == Init /\ l = 1 /\ pc = [p \in Procs |-> "idle"] /\ cbuf = [s \in Streamers |-> NoFrame]
         /\ will = {}

Ev(name) == More /\ E.ev = name
Step == l' = l + 1
Pc(p, v) == pc' = [pc EXCEPT ![p] = v]

TReset ==
  /\ Ev("reset")
  /\ wstate' = [w \in Writers |-> IF w \in LateOpen THEN "init" ELSE "open"]
  /\ gates' = [w \in Writers |-> IF w \in LateOpen THEN {} ELSE WKeys[w]]
  /\ wdone' = [w \in Writers |-> {}] /\ wyes' = [w \in Writers |-> {}]
  /\ wnext' = [w \in Writers |-> 1] /\ wq' = [w \in Writers |-> <<>>]
  /\ inlet' = <<>> /\ dcur' = NoFrame /\ didx' = 1 /\ conns' = <<>> /\ drun' = TRUE /\ dfired' = FALSE
  /\ sst' = [s \in Streamers |-> "Init"] /\ keys' = [s \in Streamers |-> {}]
  /\ held' = [s \in Streamers |-> NoFrame] /\ out' = [s \in Streamers |-> <<>>]
  /\ req' = [s \in Streamers |-> NoReq] /\ closing' = [s \in Streamers |-> "no"]
  /\ nresub' = [s \in Streamers |-> 0] /\ dbClosed' = FALSE
  /\ written' = [w \in Writers |-> <<>>]
  /\ got' = [s \in Streamers |-> [w \in Writers |-> <<>>]]
  /\ subHist' = [s \in Streamers |-> <<>>]
  /\ owed' = [s \in Streamers |-> {}] /\ emptied' = [s \in Streamers |-> {}]
  /\ pc' = [p \in Procs |-> "idle"] /\ cbuf' = [s \in Streamers |-> NoFrame]
  /\ will' = SetOf(E.will)
  /\ Step

\* ---- writers
TWOpenCall == Ev("wopen.call") /\ pc[E.p] = "idle" /\ Pc(E.p, "wopen") /\ Step /\ UNCHANGED <<vars, cbuf, will>>
TWOpenRet  == Ev("wopen.ret") /\ pc[E.p] = "wopen" /\ wstate[E.p] = "open"
              /\ Pc(E.p, "idle") /\ Step /\ UNCHANGED <<vars, cbuf, will>>
TWCall == Ev("wcall") /\ wnext[E.p] = E.q /\ WriteCall(E.p) /\ Step /\ UNCHANGED <<pc, cbuf, will>>
\* (Sync writers: the frame has been pushed, and Write's `authorized` result - false iff some
\* series was excluded - agrees with what was pushed; pinned beyond the statement, see header)
TWRet  == Ev("wret")
          /\ (E.p \in SyncWriters =>
                /\ Len(written[E.p]) >= E.q
                /\ (E.m = "auth") = (written[E.p][E.q].ks = WKeys[E.p]))
          /\ Step /\ UNCHANGED <<vars, pc, cbuf, will>>
TWCloseCall == Ev("wclose.call") /\ pc[E.p] = "idle" /\ Pc(E.p, "wclose") /\ Step /\ UNCHANGED <<vars, cbuf, will>>
TWCloseRet  == Ev("wclose.ret") /\ pc[E.p] = "wclose" /\ wstate[E.p] = "closed"
               /\ Pc(E.p, "idle") /\ Step /\ UNCHANGED <<vars, cbuf, will>>

\* ---- streamers
TSOpenCall == Ev("sopen.call") /\ StreamerOpen(E.p, SetOf(E.ks)) /\ Step /\ UNCHANGED <<pc, cbuf, will>>
TSOpenRet  == Ev("sopen.ret") /\ sst[E.p] = "Running" /\ Step /\ UNCHANGED <<vars, pc, cbuf, will>>
TSSubCall  == Ev("ssub.call") /\ ResubCall(E.p, SetOf(E.ks)) /\ Step /\ UNCHANGED <<pc, cbuf, will>>
TSSubRet   == Ev("ssub.ret") /\ ~req[E.p].has /\ Step /\ UNCHANGED <<vars, pc, cbuf, will>>
TSCloseCall == Ev("sclose.call") /\ StreamerClose(E.p, E.m) /\ Step /\ UNCHANGED <<pc, cbuf, will>>
TSCloseRet  == Ev("sclose.ret") /\ sst[E.p] = "Closed" /\ Step /\ UNCHANGED <<vars, pc, cbuf, will>>
TRecv ==
  /\ Ev("recv")
  /\ cbuf[E.p] = Frame(E.m, E.q, SetOf(E.ks))
  /\ cbuf' = [cbuf EXCEPT ![E.p] = NoFrame]
  /\ Step /\ UNCHANGED <<vars, pc, will>>

\* ---- database
TDBCloseCall == Ev("dbclose.call") /\ pc["db"] = "idle" /\ Pc("db", "dbclose") /\ Step /\ UNCHANGED <<vars, cbuf, will>>
TDBCloseRet  == Ev("dbclose.ret") /\ pc["db"] = "dbclose" /\ dbClosed
                /\ Pc("db", "idle") /\ Step /\ UNCHANGED <<vars, cbuf, will>>

PipeEmpty ==
  /\ inlet = <<>> /\ dcur = NoFrame
  /\ \A w \in Writers : wq[w] = <<>>
  /\ \A s \in Ready : held[s] = NoFrame /\ out[s] = <<>> /\ cbuf[s] = NoFrame
TQuiesce == Ev("quiesce") /\ PipeEmpty /\ Step /\ UNCHANGED <<vars, pc, cbuf, will>>

\* ---- silent steps
\* A streamer whose consumer is not always ready ("lossy": all of them; "mixed": the stalled ones):
\* whether the delta hands the current frame to its outlet or times out is decided by the
\* prophecy - it hands it over iff the log shows that consumer reading the frame later. This loses
\* no behaviour: a frame that is handed over and never read only occupies that streamer's goroutine
\* and output stream, which can disable but never enable anything else, so "timed out" explains at
\* least as much. (quiesce only looks at the always-ready streamers.)
Read(s) == [s |-> s, w |-> dcur.w, q |-> dcur.q] \in will
SysNoRecv ==
  \/ WriterSys
  \/ DeltaTake
  \/ \E s \in Streamers : \/ DeltaSendTo(s) /\ (s \notin Ready => Read(s))
                          \/ DeltaTimeout(s) /\ ~Read(s)
                          \/ DeltaConnect(s)
                          \/ DeltaDisconnect(s) \/ StreamerFilterSend(s) \/ Resubscribe(s)
                          \/ StreamerExit(s) \/ DrainDone(s)
TSilent ==
  \/ /\ \/ SysNoRecv
        \/ \E w \in Writers : pc[w] = "wopen" /\ WriterOpen(w)
        \/ \E w \in Writers : pc[w] = "wclose" /\ WriterClose(w)
        \/ pc["db"] = "dbclose" /\ DBClose
     /\ UNCHANGED <<l, pc, cbuf, will>>
  \/ \E s \in Streamers :
        /\ cbuf[s] = NoFrame /\ out[s] # <<>>
        /\ cbuf' = [cbuf EXCEPT ![s] = Head(out[s])]
        /\ ConsumerRecv(s)
        /\ UNCHANGED <<l, pc, will>>

TNext == TReset \/ TWOpenCall \/ TWOpenRet \/ TWCall \/ TWRet \/ TWCloseCall \/ TWCloseRet
         \/ TSOpenCall \/ TSOpenRet \/ TSSubCall \/ TSSubRet \/ TSCloseCall \/ TSCloseRet
         \/ TRecv \/ TDBCloseCall \/ TDBCloseRet \/ TQuiesce \/ TSilent
TSpec == TInit /\ [][TNext]_tvars

\* (the search stops as soon as one behaviour explains the whole trace)
Mark == /\ IF l > TLCGet(1) THEN TLCSet(1, l) ELSE TRUE
        /\ IF l = Len(Trace) + 1 THEN TLCSet("exit", TRUE) ELSE TRUE
Accepted == \/ TLCGet(1) = Len(Trace) + 1
            \/ (PrintT(<<"HW", TLCGet(1)>>) /\ FALSE)
=============================================================================
