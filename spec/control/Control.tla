------------------------------ MODULE Control ------------------------------
(* Control region of one cesium channel: cesium/internal/control/{controller,region,gate}.go.
   One action per critical section of `region` (open / update / release) and the
   outcome of Gate.Authorize as a state function. Models the code as written.

   Projection (harness zz_verif_control_test.go):
     gates[s]  <- the *Gate the harness holds for subject s (open iff not released)
     curr      <- Controller.LeadingState().Subject.Key  ("none" when nil)
     xfer      <- the Transfer returned by OpenGate / SetAuthority / Release
     Authorized(s) <- Gate.Authorize() err == nil
   Pinned beyond the property: nothing - holder, authorize outcome and the returned
   transfer are all named by C05's statement.                                        *)
EXTENDS Naturals, FiniteSets, Sequences, TLC
CONSTANTS Subject,     \* set of strings
          MaxAuth,     \* authorities 0..MaxAuth
          Shared,      \* TRUE = control.ConcurrencyShared
          MaxCounter   \* bound on region.counter (only order matters)
Auth == 0..MaxAuth
VARIABLES gates,    \* [Subject -> [open: BOOLEAN, auth: Auth, pos: Nat]]
          curr,     \* Subject \cup {"none"}: region.curr
          counter,  \* region.counter (fresh region => 0)
          xfer,     \* last Transfer returned: [from, to], each a St record
          err,      \* class of the last call's error: "nil" | "unauthorized" | "validation"
          reported  \* ghost: holder reconstructed by folding every returned transfer
vars == <<gates, curr, counter, xfer, err, reported>>
Open(s) == gates[s].open
OpenSet == {s \in Subject : Open(s)}
St(s, a) == [s |-> s, a |-> a]
NoSt == [s |-> "none", a |-> 0]
NoXfer == [from |-> NoSt, to |-> NoSt]
Occurred(t) == t.from # t.to
Holder == IF curr = "none" THEN NoSt ELSE St(curr, gates[curr].auth)
BetterIn(g, a, b) == \/ g[a].auth > g[b].auth
                     \/ g[a].auth = g[b].auth /\ g[a].pos < g[b].pos
Better(a, b) == BetterIn(gates, a, b)
BestIn(g, S) == CHOOSE s \in S : \A o \in S \ {s} : BetterIn(g, s, o)
Best(S) == BestIn(gates, S)
Init == /\ gates = [s \in Subject |-> [open |-> FALSE, auth |-> 0, pos |-> 0]]
        /\ curr = "none" /\ counter = 0 /\ xfer = NoXfer /\ err = "nil" /\ reported = NoSt

\* region.open. eu = ErrOnUnauthorizedOpen
OpenGate(s, a, eu) ==
  /\ ~Open(s)
  /\ counter < MaxCounter
  /\ LET take == curr = "none" \/ a > gates[curr].auth
         refuse == ~take /\ eu /\ (~Shared \/ a # gates[curr].auth)
         t == IF take THEN [from |-> Holder, to |-> St(s, a)] ELSE NoXfer
     IN IF refuse
        THEN /\ err' = "unauthorized" /\ xfer' = NoXfer
             /\ UNCHANGED <<gates, curr, counter, reported>>
        ELSE /\ gates' = [gates EXCEPT ![s] = [open |-> TRUE, auth |-> a, pos |-> counter]]
             /\ curr' = IF take THEN s ELSE curr
             /\ counter' = counter + 1
             /\ xfer' = t /\ err' = "nil"
             /\ reported' = IF Occurred(t) THEN t.to ELSE reported

\* region.open with a subject key that is already registered: validation error, no change
OpenDuplicate(s, a) ==
  /\ Open(s)
  /\ err' = "validation" /\ xfer' = NoXfer
  /\ UNCHANGED <<gates, curr, counter, reported>>

\* region.update
SetAuthority(s, a) ==
  /\ Open(s)
  /\ LET g2 == [gates EXCEPT ![s].auth = a]
         best2 == BestIn(g2, OpenSet)
     IN /\ gates' = g2
        /\ IF s = curr
           THEN /\ curr' = best2
                /\ xfer' = [from |-> St(s, gates[s].auth), to |-> St(best2, g2[best2].auth)]
           ELSE IF BetterIn(g2, s, curr)
                THEN /\ curr' = s
                     /\ xfer' = [from |-> Holder, to |-> St(s, a)]
                ELSE /\ curr' = curr /\ xfer' = NoXfer
        /\ reported' = IF Occurred(xfer') THEN xfer'.to ELSE reported
        /\ err' = "nil"
        /\ UNCHANGED counter

\* region.release (+ controller.remove when the region empties: a later open creates a
\* fresh region whose counter starts at 0)
Release(s) ==
  /\ Open(s)
  /\ LET rest == OpenSet \ {s}
     IN /\ gates' = [gates EXCEPT ![s].open = FALSE]
        /\ IF s # curr
           THEN /\ curr' = curr /\ xfer' = NoXfer /\ UNCHANGED counter
           ELSE IF rest = {}
                THEN /\ curr' = "none" /\ counter' = 0
                     /\ xfer' = [from |-> St(s, gates[s].auth), to |-> NoSt]
                ELSE /\ curr' = Best(rest) /\ UNCHANGED counter
                     /\ xfer' = [from |-> St(s, gates[s].auth),
                                 to |-> St(Best(rest), gates[Best(rest)].auth)]
        /\ reported' = IF Occurred(xfer') THEN xfer'.to ELSE reported
        /\ err' = "nil"

Next == \E s \in Subject :
          \/ \E a \in Auth, eu \in BOOLEAN : OpenGate(s, a, eu)
          \/ \E a \in Auth : OpenDuplicate(s, a)
          \/ \E a \in Auth : SetAuthority(s, a)
          \/ Release(s)
Spec == Init /\ [][Next]_vars

\* Gate.Authorize outcome
Authorized(s) == /\ Open(s) /\ curr # "none"
                 /\ IF Shared THEN gates[s].auth >= gates[curr].auth ELSE s = curr

TypeOK == /\ curr \in Subject \cup {"none"}
          /\ err \in {"nil", "unauthorized", "validation"}
\* C05: the writer in control is the open one with the highest authority, ties -> earliest
HolderIsBest == IF OpenSet = {} THEN curr = "none" ELSE curr = Best(OpenSet)
OneExclusive == ~Shared => Cardinality({s \in Subject : Authorized(s)}) <= 1
HolderAuthorized == curr # "none" => Authorized(curr)
\* shared mode: exactly the writers of equal (i.e. maximal) authority are authorized
SharedEqualOnly == Shared => \A s \in Subject :
                      Authorized(s) <=> (Open(s) /\ gates[s].auth = gates[curr].auth)
\* folding the reported transfers reconstructs the holder, including its authority
Reconstruct == reported = Holder
\* every change of holder or of the holder's authority is reported by the step that
\* caused it, as exactly one transfer naming the previous and next holder; and nothing
\* is reported when nothing changed
ExactlyOne == [][ LET h  == Holder
                      h2 == IF curr' = "none" THEN NoSt ELSE St(curr', gates'[curr'].auth)
                  IN /\ (h # h2) <=> Occurred(xfer')
                     /\ Occurred(xfer') => (xfer'.from = h /\ xfer'.to = h2) ]_vars
\* a failed open changes nothing
FailedOpenNoEffect == [][err' # "nil" => UNCHANGED <<gates, curr, counter, reported>>]_vars
=============================================================================
