---- MODULE ControlGen ----
(* Control + history variable: emits every behaviour of length Depth as JSON, with the
   outputs and abstract post-state the specification computed for each step. *)
EXTENDS Control, Json
CONSTANT Depth
VARIABLE hist
Rec(a, s, au, eu) == [a |-> a, s |-> s, auth |-> au, eu |-> eu,
                      xfer |-> xfer', err |-> err', curr |-> curr',
                      authz |-> [x \in Subject |-> Authorized(x)'],
                      open |-> [x \in Subject |-> gates'[x].open]]
GNext == /\ Len(hist) < Depth
         /\ \E s \in Subject :
           \/ \E a \in Auth, eu \in BOOLEAN : (OpenGate(s, a, eu) /\ hist' = Append(hist, Rec("open", s, a, eu)))
           \/ \E a \in Auth : (OpenDuplicate(s, a) /\ hist' = Append(hist, Rec("open", s, a, FALSE)))
           \/ \E a \in Auth : (SetAuthority(s, a) /\ hist' = Append(hist, Rec("set", s, a, FALSE)))
           \/ (Release(s) /\ hist' = Append(hist, Rec("release", s, 0, FALSE)))
GInit == Init /\ hist = <<>>
GSpec == GInit /\ [][GNext]_<<vars, hist>>
Emit == Len(hist) # Depth \/ PrintT(<<"HIST", ToJson(hist)>>)
====
