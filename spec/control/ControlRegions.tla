--------------------------- MODULE ControlRegions ---------------------------
(* Extension of Control.tla to SEVERAL control regions of one channel
   (cesium/internal/control/controller.go: Controller.OpenGate / remove).
   A gate is opened for a time range; the controller keeps regions with pairwise
   non-overlapping time ranges; a gate joins the region its range overlaps (the region's
   range grows to the union) or founds a new region; inside a region the rules of
   Control.tla apply (highest authority wins, ties to the earliest open).

   Dev_MultiRegionLeak names the behaviour of the code BEFORE the fix recorded in
   known_findings.json (C05-open-across-two-regions): an open whose range overlaps two
   regions first joined the first region - taking control there - and only then failed
   with "encountered multiple control regions", leaving a gate nobody holds.
   FALSE = the repaired behaviour: such an open fails without any effect.

   Projection (harness, regions mode): as Control.tla, plus the time range of each open. *)
EXTENDS Integers, FiniteSets, Sequences, TLC
CONSTANTS Subject, MaxAuth, MaxT, MaxCounter, Dev_MultiRegionLeak
Auth == 0..MaxAuth
Time == 0..MaxT
Ranges == {<<lo, hi>> \in Time \X Time : lo < hi}
VARIABLES gates,    \* [Subject -> [open, auth, pos, reg]]  reg = id of the region it belongs to
          regions,  \* set of records [id, lo, hi, curr, counter]
          nextReg,
          xfer, err,
          ghosts    \* set of [reg, auth, pos, s]: gates registered in a region that no caller holds
vars == <<gates, regions, nextReg, xfer, err, ghosts>>
St(s, a) == [s |-> s, a |-> a]
NoSt == [s |-> "none", a |-> 0]
NoXfer == [from |-> NoSt, to |-> NoSt]
Open(s) == gates[s].open
Overl(r, lo, hi) == r.lo < hi /\ lo < r.hi
Reg(id) == CHOOSE r \in regions : r.id = id
Members(id) == {s \in Subject : Open(s) /\ gates[s].reg = id}
GhostsOf(id) == {g \in ghosts : g.reg = id}
\* candidates of a region: held gates and ghosts, as <<auth, pos, name>>
Cands(id) == {<<gates[s].auth, gates[s].pos, s>> : s \in Members(id)} \cup {<<g.auth, g.pos, g.s>> : g \in GhostsOf(id)}
Better(a, b) == a[1] > b[1] \/ (a[1] = b[1] /\ a[2] < b[2])
BestOf(S) == CHOOSE x \in S : \A y \in S \ {x} : Better(x, y)
Init == /\ gates = [s \in Subject |-> [open |-> FALSE, auth |-> 0, pos |-> 0, reg |-> 0]]
        /\ regions = {} /\ nextReg = 1 /\ xfer = NoXfer /\ err = "nil" /\ ghosts = {}

HolderSt(r) == IF r.curr = <<>> THEN NoSt ELSE St(r.curr[3], r.curr[1])

\* join region r (region.open): returns <<r', transfer>>
Join(r, s, a, lo, hi) ==
  LET take == r.curr = <<>> \/ a > r.curr[1]
      me == <<a, r.counter, s>>
  IN << [r EXCEPT !.lo = IF lo < r.lo THEN lo ELSE r.lo, !.hi = IF hi > r.hi THEN hi ELSE r.hi,
                  !.curr = IF take THEN me ELSE r.curr, !.counter = r.counter + 1],
        IF take THEN [from |-> HolderSt(r), to |-> St(s, a)] ELSE NoXfer >>

OpenGate(s, a, lo, hi) ==
  /\ ~Open(s) /\ <<lo, hi>> \in Ranges
  /\ \A g \in ghosts : g.s # s
  /\ LET over == {r \in regions : Overl(r, lo, hi)}
     IN CASE over = {} ->
               /\ nextReg <= MaxCounter
               /\ regions' = regions \cup {[id |-> nextReg, lo |-> lo, hi |-> hi, curr |-> <<a, 0, s>>, counter |-> 1]}
               /\ gates' = [gates EXCEPT ![s] = [open |-> TRUE, auth |-> a, pos |-> 0, reg |-> nextReg]]
               /\ nextReg' = nextReg + 1
               /\ xfer' = [from |-> NoSt, to |-> St(s, a)] /\ err' = "nil" /\ UNCHANGED ghosts
          [] Cardinality(over) = 1 ->
               LET r == CHOOSE r \in over : TRUE
                   j == Join(r, s, a, lo, hi)
               IN /\ r.counter < MaxCounter
                  /\ regions' = (regions \ {r}) \cup {j[1]}
                  /\ gates' = [gates EXCEPT ![s] = [open |-> TRUE, auth |-> a, pos |-> r.counter, reg |-> r.id]]
                  /\ xfer' = j[2] /\ err' = "nil" /\ UNCHANGED <<nextReg, ghosts>>
          [] OTHER ->
               \* the range overlaps two (or more) regions: error
               IF Dev_MultiRegionLeak
               THEN LET r == CHOOSE r \in over : \A o \in over : r.lo <= o.lo   \* regions are kept sorted by start
                        j == Join(r, s, a, lo, hi)
                    IN /\ r.counter < MaxCounter
                       /\ regions' = (regions \ {r}) \cup {j[1]}
                       /\ ghosts' = ghosts \cup {[reg |-> r.id, auth |-> a, pos |-> r.counter, s |-> s]}
                       /\ xfer' = j[2] /\ err' = "other"
                       /\ UNCHANGED <<gates, nextReg>>
               ELSE /\ xfer' = NoXfer /\ err' = "other" /\ UNCHANGED <<gates, regions, nextReg, ghosts>>

Release(s) ==
  /\ Open(s)
  /\ LET r == Reg(gates[s].reg)
         rest == Cands(r.id) \ {<<gates[s].auth, gates[s].pos, s>>}
         wasCurr == r.curr # <<>> /\ r.curr[3] = s
     IN /\ gates' = [gates EXCEPT ![s].open = FALSE]
        /\ IF ~wasCurr
           THEN /\ regions' = regions /\ xfer' = NoXfer
           ELSE IF rest = {}
                THEN /\ regions' = regions \ {r}
                     /\ xfer' = [from |-> St(s, gates[s].auth), to |-> NoSt]
                ELSE /\ regions' = (regions \ {r}) \cup {[r EXCEPT !.curr = BestOf(rest)]}
                     /\ xfer' = [from |-> St(s, gates[s].auth), to |-> St(BestOf(rest)[3], BestOf(rest)[1])]
  /\ err' = "nil" /\ UNCHANGED <<nextReg, ghosts>>

Next == \E s \in Subject :
          \/ \E a \in Auth, rg \in Ranges : OpenGate(s, a, rg[1], rg[2])
          \/ Release(s)
Spec == Init /\ [][Next]_vars

Authorized(s) == Open(s) /\ Reg(gates[s].reg).curr # <<>> /\ Reg(gates[s].reg).curr[3] = s
TypeOK == err \in {"nil", "other"}
\* the controller's own invariant: regions occupy pairwise non-overlapping time ranges
RegionsDisjoint == \A r1, r2 \in regions : r1 # r2 => ~Overl(r1, r2.lo, r2.hi)
\* C05: in every region the holder is an OPEN writer, the best of the region's open writers
HolderIsOpenBest == \A r \in regions :
    /\ Members(r.id) # {}
    /\ r.curr # <<>> /\ r.curr[3] \in Members(r.id)
    /\ r.curr = BestOf({<<gates[s].auth, gates[s].pos, s>> : s \in Members(r.id)})
\* a failed open has no effect
FailedOpenNoEffect == [][err' # "nil" => UNCHANGED <<gates, regions, ghosts>> /\ xfer' = NoXfer]_vars
NoGhosts == ghosts = {}
=============================================================================
